(* C01: lemmas about model/Reservoir.v.  Structural facts are generic over Num; the update law is at R. *)
From Coq Require Import Reals Lra Lia Arith List Bool.
From RV Require Import base.Num base.LA base.BSum model.Reservoir.
Import ListNotations.

(* ------------------------------------------------------------------ generic (any Num instance) *)
Close Scope R_scope.
Section Generic.
Context {F : Type} `{Num F}.
Notation vec := (list F).

Lemma run_states_length e c st (xs : list (rin F)) : length (run_states e c st xs) = length xs.
Proof. revert st; induction xs as [|x xs IH]; intros st; cbn; [reflexivity| now rewrite IH]. Qed.

Lemma run_final_app e c st (xs ys : list (rin F)) :
  run_final e c st (xs ++ ys) = run_final e c (run_final e c st xs) ys.
Proof. unfold run_final. apply fold_left_app. Qed.

Lemma run_states_app e c st (xs ys : list (rin F)) :
  run_states e c st (xs ++ ys) = run_states e c st xs ++ run_states e c (run_final e c st xs) ys.
Proof. revert st; induction xs as [|x xs IH]; intros st; cbn; [reflexivity|]. now rewrite IH. Qed.

Lemma run_outputs_app e c st (xs ys : list (rin F)) :
  run_outputs e c st (xs ++ ys) = run_outputs e c st xs ++ run_outputs e c (run_final e c st xs) ys.
Proof. unfold run_outputs. now rewrite run_states_app, map_app. Qed.

Lemma last_cons_default {A} (l : list A) : forall a d, last (a :: l) d = last l a.
Proof. induction l as [|b l IH]; intros a d; [reflexivity|]. change (last (a :: b :: l) d) with (last (b :: l) d).
  rewrite (IH b d), (IH b a). reflexivity. Qed.
Lemma run_final_last e c st (xs : list (rin F)) : run_final e c st xs = last (run_states e c st xs) st.
Proof.
  revert st; induction xs as [|x xs IH]; intros st; [reflexivity|].
  change (run_final e c st (x :: xs)) with (run_final e c (step e c st x) xs). rewrite IH.
  cbn [run_states]. now rewrite last_cons_default.
Qed.

(* every state of a run is one [step] of the state before it *)
Lemma run_states_nth e c (xs : list (rin F)) : forall st t d dx, t < length xs ->
  nth t (run_states e c st xs) d =
  step e c (match t with O => st | S t' => nth t' (run_states e c st xs) d end) (nth t xs dx).
Proof.
  induction xs as [|x xs IH]; intros st t d dx Ht; cbn in Ht; [lia|].
  destruct t as [|t]; [reflexivity|]. cbn [run_states nth].
  rewrite (IH (step e c st x) t d dx) by lia. destruct t; reflexivity.
Qed.

Lemma kernel_only_Wr (c : rcfg F) r1 r2 x : mv (rW c) r1 = mv (rW c) r2 -> kernel c r1 x = kernel c r2 x.
Proof. intros E. unfold kernel. now rewrite E. Qed.

(* a python-scalar leak rate acts like the constant per-unit vector *)
Lemma lr_scalar_as_vector (a : F) (x : vec) :
  lr_mul (LrS a) x = lr_mul (LrV (repeat a (length x))) x /\ lr_cmul (LrS a) x = lr_cmul (LrV (repeat a (length x))) x.
Proof.
  cbn [lr_mul lr_cmul]. unfold vscale, vmul. split.
  - induction x as [|y x IH]; cbn; [reflexivity| now rewrite IH].
  - induction x as [|y x IH]; cbn; [reflexivity| now rewrite IH].
Qed.

Definition set_lr (c : rcfg F) (l : leak F) : rcfg F :=
  {| rW := rW c; rWin := rWin c; rbias := rbias c; rWfb := rWfb c; rlr := l; ract := ract c; rfbact := rfbact c;
     g_in := g_in c; g_fb := g_fb c; g_rc := g_rc c |}.
Lemma kernel_set_lr c l r x : kernel (set_lr c l) r x = kernel c r x.
Proof. reflexivity. Qed.

Lemma length_vzip_g (f : F -> F -> F) : forall a b : vec, length a = length b -> length (vzip f a b) = length a.
Proof. induction a as [|x a IH]; intros [|y b] Hl; cbn in *; try lia. now rewrite IH by lia. Qed.
End Generic.

(* ------------------------------------------------------------------ at R *)
Open Scope R_scope.
Notation rvec := (list R).

Lemma noise_off xi n : noise 0 xi n = vzeros n.
Proof. unfold noise, gain_on. cbn. destruct (Rlt_dec 0 0); [lra| reflexivity]. Qed.

Lemma vadd_zeros_r : forall (v : rvec) n, length v = n -> vadd v (vzeros n) = v.
Proof. induction v as [|x v IH]; intros [|n] Hl; cbn in *; try lia; [reflexivity|].
  unfold vadd, vzeros in *. rewrite IH by lia. f_equal. numR. lra. Qed.

Lemma length_vadd (a b : rvec) : length a = length b -> length (vadd a b) = length a.
Proof. apply length_vzip. Qed.
Lemma length_vzeros n : length (vzeros (F:=R) n) = n.
Proof. apply repeat_length. Qed.
Lemma nth_vadd (a b : rvec) i : length a = length b -> (i < length a)%nat -> nth i (vadd a b) 0 = nth i a 0 + nth i b 0.
Proof. intros. unfold vadd. rewrite nth_vzip by assumption. reflexivity. Qed.
Lemma nth_vsub (a b : rvec) i : length a = length b -> (i < length a)%nat -> nth i (vsub a b) 0 = nth i a 0 - nth i b 0.
Proof. intros. unfold vsub. rewrite nth_vzip by assumption. reflexivity. Qed.
Lemma nth_vscale c (v : rvec) i : (i < length v)%nat -> nth i (vscale c v) 0 = c * nth i v 0.
Proof. intros Hi. unfold vscale. rewrite (nth_map_R (nmul c) v i 0 Hi). reflexivity. Qed.
Lemma length_vscale c (v : rvec) : length (vscale c v) = length v.
Proof. apply map_length. Qed.

Definition lr_at (l : leak R) (i : nat) : R := match l with LrS a => a | LrV v => nth i v 0 end.
Definition lr_len (n : nat) (l : leak R) : Prop := match l with LrS _ => True | LrV v => length v = n end.

Lemma nth_lr_mul l (x : rvec) n i : lr_len n l -> length x = n -> (i < n)%nat ->
  nth i (lr_mul l x) 0 = lr_at l i * nth i x 0.
Proof.
  intros Hl Hx Hi. destruct l as [a|v]; cbn [lr_mul lr_at lr_len] in *.
  - apply nth_vscale. lia.
  - unfold vmul. rewrite nth_vzip by lia. reflexivity.
Qed.
Lemma nth_lr_cmul l (x : rvec) n i : lr_len n l -> length x = n -> (i < n)%nat ->
  nth i (lr_cmul l x) 0 = (1 - lr_at l i) * nth i x 0.
Proof.
  intros Hl Hx Hi. destruct l as [a|v]; cbn [lr_cmul lr_at lr_len] in *.
  - rewrite nth_vscale by lia. reflexivity.
  - unfold vmul. rewrite nth_vzip by (rewrite ?map_length; lia).
    rewrite (nth_map_R (nsub n1) v i 0) by lia. reflexivity.
Qed.
Lemma length_lr_mul l (x : rvec) n : lr_len n l -> length x = n -> length (lr_mul l x) = n.
Proof. intros Hl Hx. destruct l as [a|v]; cbn in *; [now rewrite length_vscale|]. unfold vmul. rewrite length_vzip; lia. Qed.
Lemma length_lr_cmul l (x : rvec) n : lr_len n l -> length x = n -> length (lr_cmul l x) = n.
Proof. intros Hl Hx. destruct l as [a|v]; cbn in *; [now rewrite length_vscale|]. unfold vmul.
  rewrite length_vzip; rewrite ?map_length; lia. Qed.

(* shapes of an initialised node with [n] units; all three noise gains at zero *)
Definition shaped (n : nat) (c : rcfg R) : Prop :=
  length (rW c) = n /\ length (rWin c) = n /\ length (rbias c) = n /\
  (forall Wf, rWfb c = Some Wf -> length Wf = n) /\ lr_len n (rlr c) /\ (forall v, length (ract c v) = length v) /\
  (forall v, length (rfbact c v) = length v).
Definition quiet (c : rcfg R) : Prop := g_in c = 0 /\ g_fb c = 0 /\ g_rc c = 0.
Definition st_len (n : nat) (st : rstate R) : Prop := length (fst st) = n /\ length (snd st) = n.

(* the pre-activation of the documented law, component i *)
Definition law_pre (c : rcfg R) (r : rvec) (x : rin R) (i : nat) : R :=
  dot (nth i (rW c) []) r + dot (nth i (rWin c) []) (i_u x) + nth i (rbias c) 0
  + match rWfb c with None => 0 | Some Wf => dot (nth i Wf []) (rfbact c (i_fb x)) end.

Lemma kernel_quiet c r x : quiet c -> (forall v, length (rfbact c v) = length v) ->
  kernel c r x =
  let pre := vadd (vadd (mv (rW c) r) (mv (rWin c) (i_u x))) (rbias c) in
  match rWfb c with None => pre | Some Wf => vadd pre (mv Wf (rfbact c (i_fb x))) end.
Proof.
  intros (Hi & Hf & _) Hg. unfold kernel. rewrite Hi, Hf, !noise_off.
  rewrite (vadd_zeros_r (i_u x)) by reflexivity.
  destruct (rWfb c); [|reflexivity]. rewrite (vadd_zeros_r (rfbact c (i_fb x))) by apply Hg. reflexivity.
Qed.

Lemma kernel_length n c r x : shaped n c -> quiet c -> length (kernel c r x) = n.
Proof.
  intros (HW & HWin & Hb & HWf & _ & _ & Hg) Hq. rewrite kernel_quiet by assumption. cbv zeta.
  assert (L1 : length (vadd (mv (rW c) r) (mv (rWin c) (i_u x))) = n) by (rewrite length_vadd; rewrite ?length_mv; lia).
  assert (L : length (vadd (vadd (mv (rW c) r) (mv (rWin c) (i_u x))) (rbias c)) = n) by (rewrite length_vadd; lia).
  destruct (rWfb c) as [Wf|] eqn:E; [|exact L].
  rewrite length_vadd; [exact L|]. rewrite L, length_mv. symmetry. now apply HWf.
Qed.

Lemma kernel_nth n c r x i : shaped n c -> quiet c -> (i < n)%nat -> nth i (kernel c r x) 0 = law_pre c r x i.
Proof.
  intros (HW & HWin & Hb & HWf & _ & _ & Hg) Hq Hi. rewrite kernel_quiet by assumption. cbv zeta. unfold law_pre.
  assert (L1 : length (vadd (mv (rW c) r) (mv (rWin c) (i_u x))) = n) by (rewrite length_vadd; rewrite ?length_mv; lia).
  assert (L : length (vadd (vadd (mv (rW c) r) (mv (rWin c) (i_u x))) (rbias c)) = n) by (rewrite length_vadd; lia).
  assert (E0 : nth i (vadd (vadd (mv (rW c) r) (mv (rWin c) (i_u x))) (rbias c)) 0
               = dot (nth i (rW c) []) r + dot (nth i (rWin c) []) (i_u x) + nth i (rbias c) 0).
  { rewrite nth_vadd by lia. rewrite nth_vadd by (rewrite ?length_mv; lia). rewrite !nth_mv by lia. reflexivity. }
  destruct (rWfb c) as [Wf|] eqn:E.
  - assert (length Wf = n) by now apply HWf.
    rewrite nth_vadd by (rewrite ?length_mv; lia). rewrite E0, nth_mv by lia. reflexivity.
  - rewrite E0. lra.
Qed.

(* ---- forward_internal ---- *)
Lemma step_internal_quiet c s r x : quiet c -> length r = length (lr_cmul (rlr c) r) ->
  length (lr_cmul (rlr c) r) = length (lr_mul (rlr c) (ract c (kernel c r x))) ->
  step_internal c (s, r) x = (s, vadd (lr_cmul (rlr c) r) (lr_mul (rlr c) (ract c (kernel c r x)))).
Proof.
  intros (_ & _ & Hg) L1 L2. unfold step_internal. rewrite Hg, noise_off. f_equal.
  apply vadd_zeros_r. rewrite length_vadd by assumption. now symmetry.
Qed.

Lemma internal_step_law n c s r x i : shaped n c -> quiet c -> length r = n -> (i < n)%nat ->
  fst (step_internal c (s, r) x) = s /\
  nth i (snd (step_internal c (s, r) x)) 0
    = (1 - lr_at (rlr c) i) * nth i r 0 + lr_at (rlr c) i * nth i (ract c (kernel c r x)) 0.
Proof.
  intros Hs Hq Hr Hi. pose proof Hs as (_ & _ & _ & _ & Hl & Hf & _).
  assert (Lk : length (ract c (kernel c r x)) = n) by (rewrite Hf; now apply kernel_length).
  assert (La : length (lr_cmul (rlr c) r) = n) by now apply length_lr_cmul.
  assert (Lb : length (lr_mul (rlr c) (ract c (kernel c r x))) = n) by now apply length_lr_mul.
  rewrite step_internal_quiet by (assumption || lia). cbn [fst snd]. split; [reflexivity|].
  rewrite nth_vadd by lia. rewrite (nth_lr_cmul _ _ n), (nth_lr_mul _ _ n) by assumption. reflexivity.
Qed.

(* ---- forward_external ---- *)
Lemma external_step_law n c s r x i : shaped n c -> quiet c -> length s = n -> length r = n -> (i < n)%nat ->
  snd (step_external c (s, r) x) = ract c (fst (step_external c (s, r) x)) /\
  nth i (fst (step_external c (s, r) x)) 0
    = (1 - lr_at (rlr c) i) * nth i s 0 + lr_at (rlr c) i * nth i (kernel c r x) 0.
Proof.
  intros Hs Hq Hs0 Hr Hi. pose proof Hs as (_ & _ & _ & _ & Hl & Hf & _). pose proof Hq as (_ & _ & Hg).
  assert (Lk : length (kernel c r x) = n) by now apply kernel_length.
  assert (La : length (lr_cmul (rlr c) s) = n) by now apply length_lr_cmul.
  assert (Lb : length (lr_mul (rlr c) (kernel c r x)) = n) by now apply length_lr_mul.
  unfold step_external. cbn [fst snd]. split; [reflexivity|].
  rewrite Hg, noise_off, vadd_zeros_r by (rewrite length_vadd; lia).
  rewrite nth_vadd by lia. rewrite (nth_lr_cmul _ _ n), (nth_lr_mul _ _ n) by assumption. reflexivity.
Qed.

Lemma step_len n e c st x : shaped n c -> quiet c -> st_len n st -> st_len n (step e c st x).
Proof.
  intros Hs Hq [H1 H2]. destruct st as [s r]. cbn [fst snd] in *.
  pose proof Hs as (_ & _ & _ & _ & Hl & Hf & _). pose proof Hq as (_ & _ & Hg).
  assert (Lk : length (kernel c r x) = n) by now apply kernel_length.
  destruct e; cbn [step].
  - assert (Lf : length (ract c (kernel c r x)) = n) by now rewrite Hf.
    rewrite step_internal_quiet; [split; cbn [fst snd]; [assumption|]|assumption| |].
    + rewrite length_vadd; [now apply length_lr_cmul|]. rewrite (length_lr_cmul _ _ n), (length_lr_mul _ _ n); auto.
    + now rewrite (length_lr_cmul _ _ n).
    + rewrite (length_lr_cmul _ _ n), (length_lr_mul _ _ n); auto.
  - unfold step_external. rewrite Hg, noise_off.
    assert (La : length (lr_cmul (rlr c) s) = n) by now apply length_lr_cmul.
    assert (Lb : length (lr_mul (rlr c) (kernel c r x)) = n) by now apply length_lr_mul.
    rewrite vadd_zeros_r by (rewrite length_vadd; lia).
    split; cbn [fst snd]; [|rewrite Hf]; rewrite length_vadd; lia.
Qed.

Lemma run_states_len n e c : forall xs st, shaped n c -> quiet c -> st_len n st ->
  Forall (st_len n) (run_states e c st xs).
Proof.
  induction xs as [|x xs IH]; intros st Hs Hq Hst; cbn; constructor.
  - now apply step_len.
  - apply IH; auto. now apply step_len.
Qed.

Lemma run_prev_len n e c xs st t d : shaped n c -> quiet c -> st_len n st -> (t < length xs)%nat ->
  st_len n (match t with O => st | S t' => nth t' (run_states e c st xs) d end).
Proof.
  intros Hs Hq Hst Ht. destruct t as [|t]; [assumption|].
  pose proof (run_states_len n e c xs st Hs Hq Hst) as HF. rewrite Forall_forall in HF. apply HF.
  apply nth_In. rewrite run_states_length. lia.
Qed.

(* every step of a run obeys the law, from whatever state the run starts in *)
Lemma run_internal_law n c xs st t i d dx : shaped n c -> quiet c -> st_len n st -> (t < length xs)%nat -> (i < n)%nat ->
  let sts := run_states Internal c st xs in
  let prev := match t with O => st | S t' => nth t' sts d end in
  nth i (snd (nth t sts d)) 0
  = (1 - lr_at (rlr c) i) * nth i (snd prev) 0 + lr_at (rlr c) i * nth i (ract c (kernel c (snd prev) (nth t xs dx))) 0.
Proof.
  intros Hs Hq Hst Ht Hi sts prev. unfold sts at 1. rewrite (run_states_nth Internal c xs st t d dx Ht). fold sts. fold prev.
  assert (Hp : st_len n prev) by (apply run_prev_len; assumption).
  destruct prev as [s r]. destruct Hp as [_ Hr]. cbn [fst snd step] in *.
  now apply (internal_step_law n).
Qed.

Lemma run_external_law n c xs st t i d dx : shaped n c -> quiet c -> st_len n st -> (t < length xs)%nat -> (i < n)%nat ->
  let sts := run_states External c st xs in
  let prev := match t with O => st | S t' => nth t' sts d end in
  snd (nth t sts d) = ract c (fst (nth t sts d)) /\
  nth i (fst (nth t sts d)) 0
  = (1 - lr_at (rlr c) i) * nth i (fst prev) 0 + lr_at (rlr c) i * nth i (kernel c (snd prev) (nth t xs dx)) 0.
Proof.
  intros Hs Hq Hst Ht Hi sts prev. unfold sts at 1 2 3. rewrite (run_states_nth External c xs st t d dx Ht). fold sts. fold prev.
  assert (Hp : st_len n prev) by (apply run_prev_len; assumption).
  destruct prev as [s r]. destruct Hp as [Hs0 Hr]. cbn [fst snd step] in *.
  now apply (external_step_law n).
Qed.

(* ---- scalar leak rate == constant vector, at the level of a whole step ---- *)
Lemma step_scalar_lr n e c a st x : shaped n c -> quiet c -> st_len n st ->
  step e (set_lr c (LrS a)) st x = step e (set_lr c (LrV (repeat a n))) st x.
Proof.
  intros Hs Hq [H1 H2]. destruct st as [s r]. cbn [fst snd] in *. pose proof Hs as (_ & _ & _ & _ & _ & Hf & _).
  assert (Lk : length (kernel c r x) = n) by now apply kernel_length.
  destruct e; cbn [step]; unfold step_internal, step_external; cbn [rlr set_lr]; rewrite !kernel_set_lr; cbn [ract g_rc set_lr].
  - destruct (lr_scalar_as_vector a r) as [_ ->]. destruct (lr_scalar_as_vector a (ract c (kernel c r x))) as [-> _].
    rewrite Hf, Lk, H2. reflexivity.
  - destruct (lr_scalar_as_vector a s) as [_ ->]. destruct (lr_scalar_as_vector a (kernel c r x)) as [-> _].
    rewrite Lk, H1. reflexivity.
Qed.

(* ---- lr = 1: the new state is f(kernel), so the previous state only enters through W.r ---- *)
Lemma vadd_scale01 : forall (r y : rvec), length r = length y -> vadd (vscale (1 - 1) r) (vscale 1 y) = y.
Proof. induction r as [|a r IH]; intros [|b y] Hl; cbn in *; try lia; [reflexivity|].
  unfold vadd, vscale in *. rewrite IH by lia. f_equal. numR. lra. Qed.

Lemma lr_one_step n c s r x : shaped n c -> quiet c -> rlr c = LrS 1 -> length r = n ->
  snd (step_internal c (s, r) x) = ract c (kernel c r x).
Proof.
  intros Hs Hq Hl Hr. pose proof Hs as (_ & _ & _ & _ & _ & Hf & _).
  assert (Lk : length (ract c (kernel c r x)) = n) by (rewrite Hf; now apply kernel_length).
  rewrite step_internal_quiet; rewrite ?Hl; cbn [lr_cmul lr_mul snd]; rewrite ?length_vscale; try lia; try assumption.
  apply vadd_scale01. lia.
Qed.

Lemma lr_one_only_Wr n c s1 s2 r1 r2 x : shaped n c -> quiet c -> rlr c = LrS 1 -> length r1 = n -> length r2 = n ->
  mv (rW c) r1 = mv (rW c) r2 -> snd (step_internal c (s1, r1) x) = snd (step_internal c (s2, r2) x).
Proof. intros. rewrite !(lr_one_step n) by assumption. now rewrite (kernel_only_Wr c r1 r2). Qed.

(* ---- noise draws are irrelevant at zero gain ---- *)
Definition same_data (x y : rin R) : Prop := i_u x = i_u y /\ i_fb x = i_fb y.
Lemma step_ignores_draws e c st x y : quiet c -> same_data x y -> step e c st x = step e c st y.
Proof.
  intros Hq [Hu Hf]. pose proof Hq as (Hgi & Hgf & Hg).
  assert (K : forall r, kernel c r x = kernel c r y) by (intros r; unfold kernel; now rewrite Hgi, Hgf, !noise_off, Hu, Hf).
  destruct st as [s r]. destruct e; cbn [step]; unfold step_internal, step_external; rewrite K, Hg, !noise_off; reflexivity.
Qed.

(* ---- initialize(): Win with a bias column == the split (bias, Win') ---- *)
Lemma win_bias_column : forall (Wf : list rvec) (u : rvec),
  mv Wf (1 :: u) = vadd (mv (map (@tl R) Wf) u) (map (hd 0) Wf).
Proof.
  induction Wf as [|row Wf IH]; intros u; [reflexivity|].
  change (mv (row :: Wf) (1 :: u)) with (dot row (1 :: u) :: mv Wf (1 :: u)).
  change (mv (map (@tl R) (row :: Wf)) u) with (dot (tl row) u :: mv (map (@tl R) Wf) u).
  rewrite IH. cbn [map]. unfold vadd at 2. cbn [vzip]. f_equal.
  destruct row as [|b w]; cbn; numR; lra.
Qed.

Lemma init_bias_column (Wf : list rvec) barg d : ncols Wf = S d ->
  init_win_bias true Wf barg d = Some (map (@tl R) Wf, map (hd 0) Wf).
Proof. intros E. unfold init_win_bias. rewrite E, Nat.eqb_refl. reflexivity. Qed.
Lemma init_split (Wi : list rvec) barg d : ncols Wi = d ->
  init_win_bias true Wi barg d = Some (Wi, barg) /\ init_win_bias false Wi barg d = Some (Wi, vzeros (length Wi)).
Proof. intros E. unfold init_win_bias. rewrite E, Nat.eqb_refl.
  destruct (Nat.eqb_spec d (S d)); [lia|]. split; reflexivity. Qed.
Lemma init_reject (Wi : list rvec) barg d ib : ncols Wi <> d -> (ncols Wi <> S d \/ ib = false) ->
  init_win_bias ib Wi barg d = None.
Proof. intros E1 E2. unfold init_win_bias.
  destruct (Nat.eqb_spec (ncols Wi) (S d)); destruct (Nat.eqb_spec (ncols Wi) d); try lia; destruct E2; subst; try reflexivity; try lia.
Qed.

(* ---- element-wise activation: the fully scalar form of the law ---- *)
Lemma internal_step_law_elementwise n c (fe : R -> R) s r x i :
  shaped n c -> quiet c -> (forall v, ract c v = map fe v) -> length r = n -> (i < n)%nat ->
  nth i (snd (step_internal c (s, r) x)) 0
    = (1 - lr_at (rlr c) i) * nth i r 0 + lr_at (rlr c) i * fe (law_pre c r x i).
Proof.
  intros Hs Hq Hfe Hr Hi. destruct (internal_step_law n c s r x i Hs Hq Hr Hi) as [_ ->].
  rewrite Hfe, (nth_map_R fe _ i 0) by (rewrite (kernel_length n); assumption).
  now rewrite (kernel_nth n).
Qed.
Lemma external_step_law_elementwise n c (fe : R -> R) s r x i :
  shaped n c -> quiet c -> (forall v, ract c v = map fe v) -> length s = n -> length r = n -> (i < n)%nat ->
  let s' := (1 - lr_at (rlr c) i) * nth i s 0 + lr_at (rlr c) i * law_pre c r x i in
  nth i (fst (step_external c (s, r) x)) 0 = s' /\ nth i (snd (step_external c (s, r) x)) 0 = fe s'.
Proof.
  intros Hs Hq Hfe Hs0 Hr Hi s'. destruct (external_step_law n c s r x i Hs Hq Hs0 Hr Hi) as [E1 E2].
  assert (E3 : nth i (fst (step_external c (s, r) x)) 0 = s') by (rewrite E2, (kernel_nth n) by assumption; reflexivity).
  split; [exact E3|]. rewrite E1, Hfe.
  assert (L : st_len n (step External c (s, r) x)) by (apply step_len; [assumption|assumption|split; assumption]).
  destruct L as [L _]. cbn [step] in L. rewrite (nth_map_R fe _ i 0) by lia. now rewrite E3.
Qed.
