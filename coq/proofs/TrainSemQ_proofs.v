(* C11: concrete witnesses (model/TrainSem.v with the Q kernels of model/TrainSemQ.v, evaluated by vm_compute):
   the three defects of the pre-fix tree and the open aliasing defect, as failing inputs of the model. *)
From Coq Require Import List Arith Bool QArith.
From RV Require Import base.Num base.LA model.Online model.TrainSem model.TrainSemQ.
Import ListNotations.
Close Scope Q_scope.

(* a Ridge readout: 1 input, 1 output, no bias column, ridge = 1 *)
Definition w_ridge : nodeQ := freshQ KBuf (mkHyp false 1%Q 1 1 false 0%Q).
(* a batch whose 2nd sequence is not longer than warm-up 1 (fails at k = 1, after sequence 0 was accumulated) *)
Definition w_bad : list (qm * option qm) := [([[1];[2]], Some [[1];[2]]); ([[5]], Some [[5]])]%Q.
Definition w_good : list (qm * option qm) := [([[0];[1]], Some [[0];[3]])]%Q.

Lemma rdo_neq_by_Wout (a b : learnedQ) : Wout a <> Wout b -> a <> b.
Proof. intros H E. apply H. rewrite E. reflexivity. Qed.
Lemma rdo_neq_by_bias (a b : learnedQ) : bias a <> bias b -> a <> b.
Proof. intros H E. apply H. rewrite E. reflexivity. Qed.

(* pre-fix Node.fit: a fit failing at sequence k >= 1 changes the result of the next fit *)
Lemma failed_fit_prefix_refuted :
  exists (n : nodeQ) (w : nat) (bad good : list (qm * option qm)),
    n_kind n = KBuf /\ session_clean n /\
    snd (fitQ PREFIX w n (Some bad)) = FailedPartial /\
    let n1 := fst (fitQ PREFIX w n (Some bad)) in
    snd (fitQ PREFIX w n1 (Some good)) = Done /\ snd (fitQ PREFIX w n (Some good)) = Done /\
    n_learned (fst (fitQ PREFIX w n1 (Some good))) <> n_learned (fst (fitQ PREFIX w n (Some good))).
Proof.
  exists w_ridge, 1, w_bad, w_good.
  repeat split; try (vm_compute; reflexivity).
  apply rdo_neq_by_Wout. vm_compute. discriminate.
Qed.

(* ... and so does the pre-fix Model.fit (store: a reservoir and the readout; members [0;1]) *)
Definition w_store : list nodeQ := [freshQ KPlain (mkHyp false 0%Q 1 1 false 0%Q); w_ridge].
Definition w_mbatch (b : list (qm * option qm)) : list (list (nat * (qm * option qm))) := map (fun d => [(1, d)]) b.
Lemma failed_model_fit_prefix_refuted :
  exists (st : list nodeQ) (ms : list nat) (w : nat) (bad good : list (list (nat * (qm * option qm)))),
    snd (stepQ PREFIX st (OMFit ms w [] bad)) = FailedPartial /\
    let st1 := fst (stepQ PREFIX st (OMFit ms w [] bad)) in
    snd (stepQ PREFIX st1 (OMFit ms w [] good)) = Done /\ snd (stepQ PREFIX st (OMFit ms w [] good)) = Done /\
    option_map (@n_learned _ _ _ _ _) (nth_error (fst (stepQ PREFIX st1 (OMFit ms w [] good))) 1)
    <> option_map (@n_learned _ _ _ _ _) (nth_error (fst (stepQ PREFIX st (OMFit ms w [] good))) 1).
Proof.
  exists w_store, [0; 1], 1, (w_mbatch w_bad), (w_mbatch w_good).
  repeat split; try (vm_compute; reflexivity).
  vm_compute. discriminate.
Qed.

(* the tree with the two partial_fit clean-ups but without the one around _backward: a fit whose solve is singular
   (ridge = 0, null second input column) keeps XXT / YXT, and the next fit adds to them *)
Definition w_ridge0 : nodeQ := freshQ KBuf (mkHyp false 0%Q 2 1 false 0%Q).
Definition w_sing : list (qm * option qm) := [([[1;0]], Some [[3]])]%Q.
Definition w_full : list (qm * option qm) := [([[1;0];[0;1]], Some [[1];[1]])]%Q.
Lemma backward_failure_refuted :
  exists (n : nodeQ) (sing good : list (qm * option qm)),
    let c := mkCfg true true false in
    n_kind n = KBuf /\ session_clean n /\
    snd (fitQ c 0 n (Some sing)) = FailedBackward /\
    let n1 := fst (fitQ c 0 n (Some sing)) in
    snd (fitQ c 0 n1 (Some good)) = Done /\ snd (fitQ c 0 n (Some good)) = Done /\
    n_learned (fst (fitQ c 0 n1 (Some good))) <> n_learned (fst (fitQ c 0 n (Some good))).
Proof.
  exists w_ridge0, w_sing, w_full.
  repeat split; try (vm_compute; reflexivity).
  apply rdo_neq_by_Wout. vm_compute. discriminate.
Qed.

(* HEAD, open defect: after one completed fit the two default buffers are one list, and the second fit of a default-buffer
   node (ScikitLearnNode, custom offline nodes) sees its inputs mixed with its targets *)
Definition w_def : nodeQ := freshQ KDef (mkHyp false 0%Q 1 1 false 0%Q).
Definition w_d1 : list (qm * option qm) := [([[1];[2]], Some [[10];[20]])]%Q.
Definition w_d2 : list (qm * option qm) := [([[1]], Some [[5]])]%Q.
Lemma alias_refuted :
  exists (n : nodeQ) (d1 d2 : list (qm * option qm)),
    n_kind n = KDef /\ session_clean n /\ n_aliased n = false /\
    snd (fitQ HEAD 0 n (Some d1)) = Done /\
    let n1 := fst (fitQ HEAD 0 n (Some d1)) in
    session_clean n1 /\ n_aliased n1 = true /\
    snd (fitQ HEAD 0 n1 (Some d2)) = Done /\ snd (fitQ HEAD 0 n (Some d2)) = Done /\
    n_learned (fst (fitQ HEAD 0 n1 (Some d2))) <> n_learned (fst (fitQ HEAD 0 n (Some d2))).
Proof.
  exists w_def, w_d1, w_d2.
  repeat split; try (vm_compute; reflexivity).
  apply rdo_neq_by_bias. vm_compute. discriminate.
Qed.

(* what the second fit hands to the learning rule: [X2; Y2] under BOTH names, instead of [X2] and [Y2] *)
Lemma alias_buffers_mixed :
  let n1 := fst (fitQ HEAD 0 w_def (Some w_d1)) in
  let n2 := fst (partial_fit acc0Q acc_stepQ 0 n1 w_d2) in
  n_X n2 = [[[1]]; [[5]]]%Q /\ n_Y n2 = [[[1]]; [[5]]]%Q /\
  n_X (fst (partial_fit acc0Q acc_stepQ 0 w_def w_d2)) = [[[1]]]%Q /\ n_Y (fst (partial_fit acc0Q acc_stepQ 0 w_def w_d2)) = [[[5]]]%Q.
Proof. vm_compute. repeat split; reflexivity. Qed.

(* ---------------- non-vacuity: the hypotheses of the positive theorems hold on concrete, non-trivial instances ---------------- *)
Definition w_rls : nodeQ := freshQ KOnline (mkHyp true 0%Q 1 1 true 1%Q).
Definition w_store3 : list nodeQ := [freshQ KPlain (mkHyp false 0%Q 1 1 false 0%Q); w_ridge; w_rls].

(* inference moves the state of the node that ran and nothing else *)
Lemma example_inference :
  let st' := fst (stepQ HEAD w_store3 (ORun [(0, [[1];[2]]%Q)])) in
  option_map (@n_state _ _ _ _ _) (nth_error st' 0) = Some 2 /\
  option_map (@n_state _ _ _ _ _) (nth_error w_store3 0) = Some 0 /\
  option_map (@n_learned _ _ _ _ _) (nth_error st' 1) = option_map (@n_learned _ _ _ _ _) (nth_error w_store3 1).
Proof. vm_compute. repeat split; reflexivity. Qed.

(* Model.fit of [reservoir; ridge]: the Ridge readout is a target and its Wout really changes; the RLS node is not *)
Lemma example_training :
  let o := OMFit [0; 1] 1 [] (w_mbatch w_good) in
  targets w_store3 o 1 = true /\ targets w_store3 o 0 = false /\ targets w_store3 o 2 = false /\
  snd (stepQ HEAD w_store3 o) = Done /\
  option_map (fun n : nodeQ => Wout (n_learned n)) (nth_error (fst (stepQ HEAD w_store3 o)) 1) = Some [[3#2]]%Q /\
  option_map (fun n : nodeQ => Wout (n_learned n)) (nth_error w_store3 1) = Some [[0]]%Q.
Proof. vm_compute. repeat split; reflexivity. Qed.

(* HEAD: the failing batch of [failed_fit_prefix_refuted] leaves nothing behind *)
Lemma example_failed_fit_HEAD :
  snd (fitQ HEAD 1 w_ridge (Some w_bad)) = FailedPartial /\
  let n1 := fst (fitQ HEAD 1 w_ridge (Some w_bad)) in
  n_buffers n1 = None /\
  n_learned (fst (fitQ HEAD 1 n1 (Some w_good))) = n_learned (fst (fitQ HEAD 1 w_ridge (Some w_good))) /\
  Wout (n_learned (fst (fitQ HEAD 1 n1 (Some w_good)))) = [[3#2]]%Q.
Proof. vm_compute. repeat split; reflexivity. Qed.

(* two different histories ending in a fit of node 1 (one completed on other data, one failed): same next fit *)
Lemma example_two_histories :
  let h1 := [OFit 1 0 (Some [([[4]], Some [[7]])]%Q)] in
  let h2 := [ORun [(1, [[1]]%Q)]; OPartialFit 1 0 w_good; OFit 1 1 (Some w_bad)] in
  map snd (trace acc0Q acc_stepQ bk_bufQ bk_defQ train_fnQ fwdQ HEAD w_store3 h1) = [Done] /\
  map snd (trace acc0Q acc_stepQ bk_bufQ bk_defQ train_fnQ fwdQ HEAD w_store3 h2) = [Done; Done; FailedPartial] /\
  option_map (fun n : nodeQ => Wout (n_learned (fst (fitQ HEAD 1 n (Some w_good))))) (nth_error (run_opsQ HEAD w_store3 h1) 1) = Some [[3#2]]%Q /\
  option_map (fun n : nodeQ => Wout (n_learned (fst (fitQ HEAD 1 n (Some w_good))))) (nth_error (run_opsQ HEAD w_store3 h2) 1) = Some [[3#2]]%Q.
Proof. vm_compute. repeat split; reflexivity. Qed.
