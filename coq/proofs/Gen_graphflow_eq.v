(* Tie (T) for C03: find_entries_and_exits, find_parents_and_children and topological_sort as GENERATED on this run from
   the current text of reservoirpy/utils/graphflow.py (coq/gen/Gen_graphflow.v, vocabulary base/PyColl.v) against the
   hand-written model/Graph.v about which the C03 theorems are stated.

   Parameters of the generated code and what is assumed about them (Section hypotheses below):
     ord_n k s        the order in which Python iterates over the set s at conversion site k   : Permutation (ord_n k s) s
     sorted_by_name l `sorted(list(edges), key=parent.name + child.name)` (names not modelled)  : Permutation (srt l) l
     (ord_e is unused by the present source: no set of edges is ever iterated over.)
   Representation: a generated set is SOME duplicate-free list, so entries / exits are related to Graph.entries / exits as
   sets (same elements, both duplicate-free); the parents / children dictionaries agree with Graph.parents / children at
   every key, as LISTS, on the name-sorted edge list; topological_sort returns EXACTLY conv (Graph.kahn ...) for every fuel
   (deque = reversed stack, ordered_nodes = reversed acc, `parents[m]` = senders of the remaining edges into m). *)
From Coq Require Import List Arith Lia Bool Permutation.
From RV Require Import base.PyColl gen.Gen_graphflow model.Graph proofs.Graph_proofs proofs.Graph_ops_proofs.
Import ListNotations.

(* ------------------------------------------------------------------ Python collections (base/PyColl.v) *)
Section CollLemmas.
Context {A : Type} `{PyEq A}.

Lemma py_eqb_refl (a : A) : py_eqb a a = true.
Proof. destruct (py_eqb_spec a a); congruence. Qed.
Lemma py_eqb_eq (a b : A) : py_eqb a b = true <-> a = b.
Proof. destruct (py_eqb_spec a b); split; congruence. Qed.
Lemma py_eqb_neq (a b : A) : py_eqb a b = false <-> a <> b.
Proof. destruct (py_eqb_spec a b); split; congruence. Qed.

Lemma py_in_In (x : A) l : py_in x l = true <-> In x l.
Proof. unfold py_in. rewrite existsb_exists. split.
  - intros [y [Hy He]]. apply py_eqb_eq in He. now subst.
  - intros Hi. exists x. split; auto. apply py_eqb_refl. Qed.
Lemma py_in_false (x : A) l : py_in x l = false <-> ~ In x l.
Proof. rewrite <- py_in_In. destruct (py_in x l); split; congruence. Qed.

Lemma filter_neq_In (x y : A) l : In y (filter (fun z => negb (py_eqb x z)) l) <-> In y l /\ y <> x.
Proof. rewrite filter_In. destruct (py_eqb_spec x y); simpl; intuition congruence. Qed.
Lemma filter_neq_notin (x : A) l : ~ In x l -> filter (fun z => negb (py_eqb x z)) l = l.
Proof. induction l as [|y l IH]; intros Hn; simpl; [reflexivity|].
  destruct (py_eqb_spec x y); simpl.
  - exfalso. apply Hn. simpl; auto.
  - rewrite IH; auto. intros Hi. apply Hn. simpl; auto. Qed.
Lemma NoDup_filter (f : A -> bool) l : NoDup l -> NoDup (filter f l).
Proof. induction 1; simpl; [constructor|]. destruct (f x); auto. constructor; auto.
  rewrite filter_In. tauto. Qed.

Lemma py_set_In (x : A) l : In x (py_set l) <-> In x l.
Proof. induction l as [|y l IH]; simpl; [tauto|]. rewrite filter_neq_In, IH.
  destruct (py_eqb_spec y x); [subst; tauto|]. intuition congruence. Qed.
Lemma py_set_NoDup (l : list A) : NoDup (py_set l).
Proof. induction l as [|y l IH]; simpl; constructor.
  - rewrite filter_neq_In. tauto.
  - now apply NoDup_filter. Qed.

Lemma set_diff_In (x : A) a b : In x (set_diff a b) <-> In x a /\ ~ In x b.
Proof. unfold set_diff. rewrite filter_In, negb_true_iff, py_in_false. tauto. Qed.
Lemma set_union_In (x : A) a b : In x (set_union a b) <-> In x a \/ In x b.
Proof. unfold set_union. rewrite in_app_iff, set_diff_In.
  destruct (py_in x a) eqn:E; [apply py_in_In in E | apply py_in_false in E]; tauto. Qed.
Lemma set_diff_NoDup (a b : list A) : NoDup a -> NoDup (set_diff a b).
Proof. apply NoDup_filter. Qed.
Lemma set_union_NoDup (a b : list A) : NoDup a -> NoDup b -> NoDup (set_union a b).
Proof. intros Ha Hb. unfold set_union. apply NoDup_app_iff. repeat split; auto.
  - now apply set_diff_NoDup.
  - intros x Hx Hd. apply set_diff_In in Hd. tauto. Qed.

(* on a duplicate-free sequence, removing the first occurrence removes the element *)
Lemma remove_first_nodup (x : A) l : NoDup l -> In x l ->
  remove_first x l = Some (filter (fun z => negb (py_eqb x z)) l).
Proof. induction l as [|y l IH]; intros Hnd Hi; [destruct Hi|]. inversion Hnd as [|? ? Hy Hnd']; subst. simpl.
  destruct (py_eqb_spec x y); simpl.
  - subst. now rewrite filter_neq_notin.
  - destruct Hi as [Hi|Hi]; [congruence|]. now rewrite IH. Qed.

Lemma pop_right_snoc (l : list A) x : pop_right (l ++ [x]) = Some (x, l).
Proof. induction l as [|y l IH]; simpl; [reflexivity|]. now rewrite IH. Qed.
End CollLemmas.

Section DDLemmas.
Context {K V : Type} `{PyEq K}.
Implicit Type d : ddict K V.

Lemma dd_lookup_set d k v k' : dd_lookup (dd_set d k v) k' = if py_eqb k' k then Some v else dd_lookup d k'.
Proof. induction d as [|[k0 v0] d IH]; simpl.
  - reflexivity.
  - destruct (py_eqb_spec k k0); simpl.
    + subst. destruct (py_eqb_spec k' k0); reflexivity.
    + rewrite IH. destruct (py_eqb_spec k' k0), (py_eqb_spec k' k); try reflexivity. congruence. Qed.
Lemma dd_getitem_set d k v k' : dd_getitem (dd_set d k v) k' = if py_eqb k' k then v else dd_getitem d k'.
Proof. unfold dd_getitem, dd_get. rewrite dd_lookup_set. destruct (py_eqb k' k); reflexivity. Qed.
Lemma dd_getitem_iadd d k l k' :
  dd_getitem (dd_iadd d k l) k' = if py_eqb k' k then dd_getitem d k ++ l else dd_getitem d k'.
Proof. unfold dd_iadd. apply dd_getitem_set. Qed.
Lemma dd_touch_present d k v : dd_lookup d k = Some v -> dd_touch d k = d.
Proof. unfold dd_touch. now intros ->. Qed.
End DDLemmas.

(* py_eqb on edges IS Graph.edge_eqb, py_in on nodes IS Graph.mem *)
Lemma filter_edge_is_remove_edge (e : edge) (E : list edge) :
  filter (fun z => negb (py_eqb e z)) E = remove_edge e E.
Proof. reflexivity. Qed.

Lemma map_fst_pat (E : list edge) : map (fun '(n, _) => n) E = senders E.
Proof. unfold senders. apply map_ext. now intros [a b]. Qed.
Lemma map_snd_pat (E : list edge) : map (fun '(_, n) => n) E = receivers E.
Proof. unfold receivers. apply map_ext. now intros [a b]. Qed.

Section GenEq.
Variable ord_n : nat -> list node -> list node.
Variable srt : list edge -> list edge.
Hypothesis Hord : forall k s, Permutation (ord_n k s) s.
Hypothesis Hsrt : forall l, Permutation (srt l) l.

Notation g_entries_exits := (GenGraphflow.find_entries_and_exits ord_n).
Notation g_parents_children := (GenGraphflow.find_parents_and_children srt).
Notation g_toposort := (GenGraphflow.topological_sort ord_n srt).

(* ------------------------------------------------------------------ find_entries_and_exits = (entries, exits) as sets *)
Lemma entries_In_raw V E v : In v (entries V E) <->
  (In v (senders E) /\ ~ In v (receivers E)) \/ (In v V /\ ~ In v (senders E) /\ ~ In v (receivers E)).
Proof. unfold entries, lonely. rewrite nodup_In, in_app_iff, !filter_In, andb_true_iff, !negb_true_iff, !mem_false. tauto. Qed.
Lemma exits_In_raw V E v : In v (exits V E) <->
  (In v (receivers E) /\ ~ In v (senders E)) \/ (In v V /\ ~ In v (senders E) /\ ~ In v (receivers E)).
Proof. unfold exits, lonely. rewrite nodup_In, in_app_iff, !filter_In, andb_true_iff, !negb_true_iff, !mem_false. tauto. Qed.

Theorem gen_entries_exits (V : list node) (E : list edge) :
  (NoDup (fst (g_entries_exits V E)) /\ forall v, In v (fst (g_entries_exits V E)) <-> In v (entries V E)) /\
  (NoDup (snd (g_entries_exits V E)) /\ forall v, In v (snd (g_entries_exits V E)) <-> In v (exits V E)).
Proof.
  unfold GenGraphflow.find_entries_and_exits. cbv zeta. rewrite map_fst_pat, map_snd_pat. cbn [fst snd].
  assert (NDl : NoDup (set_diff (set_diff (py_set V) (py_set (senders E))) (py_set (receivers E)))).
  { apply set_diff_NoDup, set_diff_NoDup, py_set_NoDup. }
  split; split.
  - eapply Permutation_NoDup; [symmetry; apply Hord|]. apply set_union_NoDup; auto. apply set_diff_NoDup, py_set_NoDup.
  - intros v. rewrite entries_In_raw. split.
    + intros Hi. apply (Permutation_in _ (Hord _ _)) in Hi. revert Hi.
      rewrite set_union_In, !set_diff_In, !py_set_In. tauto.
    + intros Hi. apply (Permutation_in _ (Permutation_sym (Hord _ _))).
      rewrite set_union_In, !set_diff_In, !py_set_In. tauto.
  - eapply Permutation_NoDup; [symmetry; apply Hord|]. apply set_union_NoDup; auto. apply set_diff_NoDup, py_set_NoDup.
  - intros v. rewrite exits_In_raw. split.
    + intros Hi. apply (Permutation_in _ (Hord _ _)) in Hi. revert Hi.
      rewrite set_union_In, !set_diff_In, !py_set_In. tauto.
    + intros Hi. apply (Permutation_in _ (Permutation_sym (Hord _ _))).
      rewrite set_union_In, !set_diff_In, !py_set_In. tauto.
Qed.

(* ------------------------------------------------------------------ find_parents_and_children on the sorted edge list *)
Lemma pc_fold (E : list edge) : forall (P C : ddict node node) v,
  let r := pure_for E (fun '(parents, children) edge_ =>
             let '(parent, child) := edge_ in
             let parents := dd_iadd parents child [parent] in
             let children := dd_iadd children parent [child] in (parents, children)) (P, C) in
  dd_getitem (fst r) v = dd_getitem P v ++ parents E v /\ dd_getitem (snd r) v = dd_getitem C v ++ children E v.
Proof.
  induction E as [|[p c] E IH]; intros P C v; cbn zeta.
  - unfold pure_for, parents, children. simpl. now rewrite !app_nil_r.
  - unfold pure_for in *. cbn [fold_left]. cbn zeta in IH.
    destruct (IH (dd_iadd P c [p]) (dd_iadd C p [c]) v) as [H1 H2]. rewrite H1, H2. clear IH H1 H2.
    rewrite !dd_getitem_iadd. unfold parents, children. cbn [filter map fst snd].
    change (py_eqb v c) with (Nat.eqb v c). change (py_eqb v p) with (Nat.eqb v p).
    rewrite (Nat.eqb_sym v c), (Nat.eqb_sym v p).
    split; [destruct (Nat.eqb_spec c v) | destruct (Nat.eqb_spec p v)]; subst; cbn [map fst snd];
      rewrite <- ?app_assoc; reflexivity.
Qed.

Theorem gen_parents_children (E : list edge) (v : node) :
  dd_getitem (fst (g_parents_children E)) v = parents (srt E) v /\
  dd_getitem (snd (g_parents_children E)) v = children (srt E) v /\
  dd_get (fst (g_parents_children E)) v [] = parents (srt E) v /\
  dd_get (snd (g_parents_children E)) v [] = children (srt E) v.
Proof.
  assert (G : dd_getitem (fst (g_parents_children E)) v = parents (srt E) v /\
              dd_getitem (snd (g_parents_children E)) v = children (srt E) v).
  { unfold GenGraphflow.find_parents_and_children. cbv zeta.
    pose proof (pc_fold (srt E) [] [] v) as Hf. cbv zeta in Hf.
    destruct (pure_for (srt E) _ _) as [P C] eqn:Er in Hf |- *. exact Hf. }
  destruct G as [G1 G2]. repeat split; assumption.
Qed.


(* ------------------------------------------------------------------ topological_sort = Graph.kahn
   The two loops of the generated definition, copied here: [gen_toposort_unfold] (by reflexivity) is the junction with the
   text generated on this run -- any change of the source that changes the generated term breaks it. *)
Definition inner (n : node) : list edge * ddict node node * list node -> node -> py (list edge * ddict node node * list node) :=
  fun '(edges, parents, inputs) m =>
    py_bind (set_remove (n, m) edges) (fun edges =>
    py_bind (list_remove n (dd_getitem parents m)) (fun tmp =>
    let parents := dd_set parents m tmp in
    let '(c__1, parents) := (if (is_none (dd_lookup parents m)) then (true, parents)
                             else (let parents := (dd_touch parents m) in ((Nat.ltb (length (dd_getitem parents m)) 1), parents))) in
    let inputs := (if c__1 then let inputs := deque_append inputs m in inputs else inputs) in
    Val (edges, parents, inputs))).

Definition wstate := (list node * list node * list edge * ddict node node)%type.
Definition wcond : wstate -> bool := fun '(inputs, ordered_nodes, edges, parents) => Nat.ltb 0 (length inputs).
Definition wbody (children : ddict node node) : wstate -> py wstate :=
  fun '(inputs, ordered_nodes, edges, parents) =>
    py_bind (deque_pop inputs) (fun '(n, inputs) =>
    let ordered_nodes := list_append ordered_nodes n in
    py_bind (py_for (dd_get children n []) (inner n) (edges, parents, inputs)) (fun '(edges, parents, inputs) =>
    Val (inputs, ordered_nodes, edges, parents))).
Definition wfinal : wstate -> py (list node) :=
  fun '(inputs, ordered_nodes, edges, parents) => if Nat.ltb 0 (length edges) then Exc RuntimeError else Val ordered_nodes.

Definition eff_inputs (V : list node) (E : list edge) (inputs : option (list node)) : list node :=
  match inputs with None => fst (g_entries_exits V E) | Some i => i end.

Lemma gen_toposort_unfold fuel V E inputs :
  g_toposort fuel V E inputs =
  py_bind (py_while fuel wcond (wbody (snd (g_parents_children E)))
             (eff_inputs V E inputs, [], py_set E, fst (g_parents_children E))) wfinal.
Proof. unfold GenGraphflow.topological_sort, eff_inputs. cbv zeta.
  destruct (g_parents_children E) as [P C]. destruct inputs as [i|]; [reflexivity|].
  destruct (g_entries_exits V E) as [en ex]. reflexivity. Qed.

(* `parents[m]` is empty iff no remaining edge enters m *)
Lemma has_in_parents m E : has_in m E = negb (Nat.ltb (length (parents E m)) 1).
Proof. unfold has_in, parents. induction E as [|[a b] E IH]; simpl; [reflexivity|].
  destruct (Nat.eqb b m); simpl; auto. Qed.

Lemma parents_remove_edge n m E v :
  parents (remove_edge (n, m) E) v =
  if Nat.eqb v m then filter (fun z => negb (Nat.eqb n z)) (parents E m) else parents E v.
Proof. unfold parents, remove_edge. induction E as [|[a b] E IH]; simpl.
  - now destruct (Nat.eqb v m).
  - unfold edge_eqb at 1. simpl. revert IH.
    destruct (Nat.eqb_spec v m) as [Hvm|Hvm]; intros IH;
      destruct (Nat.eqb_spec n a) as [Hna|Hna]; destruct (Nat.eqb_spec m b) as [Hmb|Hmb]; simpl;
      repeat match goal with
             | |- context [Nat.eqb ?x ?y] => destruct (Nat.eqb_spec x y); simpl; try congruence
             end; rewrite ?IH; try reflexivity; try congruence.
Qed.

(* relation between the generated state and the model's remaining-edge list *)
Definition Rel (Eg : list edge) (Pg : ddict node node) (E : list edge) : Prop :=
  NoDup E /\ NoDup Eg /\ (forall e, In e Eg <-> In e E) /\ (forall v, dd_getitem Pg v = parents E v).

Lemma NoDup_remove_edge e E : NoDup E -> NoDup (remove_edge e E).
Proof. apply NoDup_filter. Qed.

Lemma inner_relax n : forall ms Eg Pg E st, Rel Eg Pg E -> NoDup ms -> (forall m, In m ms -> In (n, m) E) ->
  exists Eg' Pg', py_for ms (inner n) (Eg, Pg, rev st) = Val (Eg', Pg', rev (snd (relax n ms E st)))
                  /\ Rel Eg' Pg' (fst (relax n ms E st)).
Proof.
  induction ms as [|m ms IH]; intros Eg Pg E st HR Hnd Hin.
  - exists Eg, Pg. simpl. auto.
  - inversion Hnd as [|? ? Hm Hnd']; subst.
    destruct HR as [HndE [HndEg [HEg HP]]].
    assert (HnmE : In (n, m) E) by (apply Hin; simpl; auto).
    assert (HnmEg : In (n, m) Eg) by (now apply HEg).
    cbn [py_for]. unfold inner at 1.
    unfold set_remove. rewrite (remove_first_nodup (n, m) Eg HndEg HnmEg). cbn [py_bind].
    rewrite HP. unfold list_remove.
    rewrite (remove_first_nodup n (parents E m) (parents_nodup E m HndE)) by (apply parents_In; exact HnmE).
    cbn [py_bind]. cbv zeta.
    set (tmp := filter _ (parents E m)).
    set (Pg1 := dd_set Pg m tmp).
    assert (Hl : dd_lookup Pg1 m = Some tmp) by (unfold Pg1; rewrite dd_lookup_set, py_eqb_refl; reflexivity).
    rewrite Hl. cbn [is_none]. rewrite (dd_touch_present Pg1 m tmp Hl).
    set (E1 := remove_edge (n, m) E).
    assert (HR1 : Rel (filter (fun z : edge => negb (py_eqb (n, m) z)) Eg) Pg1 E1).
    { repeat split.
      - now apply NoDup_remove_edge.
      - now apply NoDup_filter.
      - rewrite filter_edge_is_remove_edge. rewrite remove_edge_In. unfold E1. rewrite remove_edge_In.
        intros [Hi Hne]. split; auto. now apply HEg.
      - rewrite filter_edge_is_remove_edge. rewrite remove_edge_In. unfold E1. rewrite remove_edge_In.
        intros [Hi Hne]. split; auto. now apply HEg.
      - intros v. unfold Pg1, E1. rewrite dd_getitem_set, parents_remove_edge.
        change (py_eqb v m) with (Nat.eqb v m). destruct (Nat.eqb v m); [reflexivity | apply HP]. }
    assert (Hg : dd_getitem Pg1 m = parents E1 m) by (destruct HR1 as [_ [_ [_ H1]]]; apply H1).
    rewrite Hg. cbn [relax]. fold E1. rewrite (has_in_parents m E1).
    assert (Hin1 : forall m', In m' ms -> In (n, m') E1).
    { intros m' Hm'. unfold E1. apply remove_edge_In. split; [apply Hin; simpl; auto|].
      intros Heq. inversion Heq; subst. contradiction. }
    destruct (Nat.ltb (length (parents E1 m)) 1); cbn [negb].
    + unfold deque_append. change (rev st ++ [m]) with (rev (m :: st)). apply IH; auto.
    + apply IH; auto.
Qed.

Definition conv (r : res) : py (list node) :=
  match r with Sorted l => Val l | Cycle => Exc RuntimeError | Graph.OutOfFuel => PyColl.OutOfFuel end.

Section Loop.
Variable V : list node.
Variable E0 : list edge.
Hypothesis HndE : NoDup E0.
Hypothesis HwfE : wf V E0.
Variable Cg : ddict node node.
Hypothesis HC : forall n, dd_get Cg n [] = children E0 n.

Lemma while_is_kahn : forall fuel st E acc Eg Pg, Inv V E0 st E acc -> Rel Eg Pg E ->
  py_bind (py_while fuel wcond (wbody Cg) (rev st, rev acc, Eg, Pg)) wfinal = conv (kahn fuel E0 st E acc).
Proof.
  induction fuel as [|f IH]; intros st E acc Eg Pg HI HR; [reflexivity|].
  destruct st as [|n st].
  - cbn [py_while wcond rev length Nat.ltb Nat.leb py_bind wfinal kahn].
    destruct HR as [_ [_ [HEg _]]].
    destruct E as [|e E], Eg as [|eg Eg]; cbn; try reflexivity.
    + exfalso. apply (proj1 (HEg eg)). simpl; auto.
    + exfalso. apply (proj2 (HEg e)). simpl; auto.
  - cbn [py_while]. unfold wcond at 1. cbn [rev]. rewrite app_length. cbn [length].
    replace (Nat.ltb 0 (length (rev st) + 1)) with true by (symmetry; apply Nat.ltb_lt; lia).
    unfold wbody at 1. unfold deque_pop. rewrite pop_right_snoc. cbn [py_bind]. cbv zeta.
    rewrite HC.
    assert (Hn_acc : ~ In n acc).
    { pose proof (iND _ _ _ _ _ HI) as Hnd. simpl in Hnd. inversion Hnd as [|? ? Hx _]; subst.
      intros Hi. apply Hx. apply in_or_app; auto. }
    assert (Hin : forall m, In m (children E0 n) -> In (n, m) E).
    { intros m Hm. apply children_In in Hm. apply (iE _ _ _ _ _ HI). simpl. auto. }
    destruct (inner_relax n (children E0 n) Eg Pg E st HR (children_nodup E0 n HndE) Hin) as [Eg' [Pg' [Hfor HR']]].
    rewrite Hfor. cbn [py_bind]. unfold list_append. change (rev acc ++ [n]) with (rev (n :: acc)).
    cbn [kahn]. destruct (relax n (children E0 n) E st) as [E1 st1] eqn:Hr. cbn [fst snd] in *.
    apply IH; auto. eapply Inv_step; eauto.
Qed.
End Loop.

Lemma has_in_perm v E E' : Permutation E E' -> has_in v E = has_in v E'.
Proof. intros Hp. destruct (has_in v E') eqn:H1.
  - unfold has_in in *. apply existsb_exists in H1 as [e [He Hs]]. apply existsb_exists. exists e. split; auto.
    apply (Permutation_in _ (Permutation_sym Hp)); auto.
  - apply has_in_false. rewrite has_in_false in H1. intros e He. apply H1. apply (Permutation_in _ Hp); auto. Qed.

(* what is asked of an explicitly given `inputs` list (Model passes the entry list): the entry nodes, each once, any order *)
Definition good_inputs (V : list node) (E : list edge) (inputs : option (list node)) : Prop :=
  match inputs with
  | None => True
  | Some ents => NoDup ents /\ forall v, In v ents <-> In v V /\ has_in v E = false
  end.

Lemma eff_inputs_good V E inputs : wf V E -> good_inputs V E inputs ->
  NoDup (eff_inputs V E inputs) /\ forall v, In v (eff_inputs V E inputs) <-> In v V /\ has_in v (srt E) = false.
Proof. intros Hwf Hg. destruct inputs as [ents|]; simpl in *.
  - destruct Hg as [Hnd Hi]. split; auto. intros v. rewrite (has_in_perm v (srt E) E (Hsrt E)). apply Hi.
  - destruct (gen_entries_exits V E) as [[Hnd Hi] _]. split; auto. intros v.
    rewrite Hi, (has_in_perm v (srt E) E (Hsrt E)). now apply entries_for_topo. Qed.

Section Top.
Variables (V : list node) (E : list edge) (inputs : option (list node)).
Hypothesis HndE : NoDup E.
Hypothesis Hwf : wf V E.
Hypothesis Hin : good_inputs V E inputs.

Lemma srt_nodup : NoDup (srt E).
Proof. eapply Permutation_NoDup; [symmetry; apply Hsrt | exact HndE]. Qed.
Lemma srt_wf : wf V (srt E).
Proof. intros e He. apply Hwf. apply (Permutation_in _ (Hsrt E)); auto. Qed.

(* the generated topological_sort IS the model's Kahn loop on the name-sorted edge list, for every fuel *)
Theorem gen_toposort_is_kahn fuel :
  g_toposort fuel V E inputs = conv (kahn fuel (srt E) (rev (eff_inputs V E inputs)) (srt E) []).
Proof.
  rewrite gen_toposort_unfold.
  destruct (eff_inputs_good V E inputs Hwf Hin) as [Hnd Hents].
  pose proof (while_is_kahn V (srt E) srt_nodup srt_wf (snd (g_parents_children E))
                (fun n => proj2 (proj2 (proj2 (gen_parents_children E n))))
                fuel (rev (eff_inputs V E inputs)) (srt E) [] (py_set E) (fst (g_parents_children E))) as Hw.
  rewrite rev_involutive in Hw. cbn [rev] in Hw. apply Hw.
  - apply (Inv_init V (srt E) (eff_inputs V E inputs) Hnd Hents).
  - repeat split.
    + apply srt_nodup.
    + apply py_set_NoDup.
    + rewrite py_set_In. intros Hi. apply (Permutation_in _ (Permutation_sym (Hsrt E))); auto.
    + rewrite py_set_In. intros Hi. apply (Permutation_in _ (Hsrt E)); auto.
    + intros v. apply (gen_parents_children E v).
Qed.

Definition enough_fuel (fuel : nat) : Prop := S (length V + length E + length E) <= fuel.

Lemma kahn_fuel_mono E0 : forall f st E1 acc, kahn f E0 st E1 acc <> Graph.OutOfFuel ->
  forall f', f <= f' -> kahn f' E0 st E1 acc = kahn f E0 st E1 acc.
Proof. induction f as [|f IH]; intros st E1 acc Hne f' Hle; [exfalso; apply Hne; reflexivity|].
  destruct f' as [|f']; [lia|]. cbn [kahn] in *. destruct st as [|n st]; [reflexivity|].
  destruct (relax n (children E0 n) E1 st) as [E2 st2]. apply IH; [exact Hne | lia]. Qed.

Theorem gen_toposort_is_topo fuel : enough_fuel fuel ->
  g_toposort fuel V E inputs = conv (topo (eff_inputs V E inputs) V (srt E)).
Proof.
  intros Hf. rewrite gen_toposort_is_kahn. f_equal. unfold topo.
  destruct (eff_inputs_good V E inputs Hwf Hin) as [Hnd Hents].
  apply kahn_fuel_mono.
  - apply (topo_total V (srt E) srt_nodup srt_wf (eff_inputs V E inputs) Hnd Hents).
  - unfold enough_fuel in Hf. rewrite (Permutation_length (Hsrt E)). exact Hf.
Qed.

(* ---- the headline facts of C03, about the GENERATED topological_sort ---- *)
Theorem gen_toposort_sound fuel l : NoDup V -> g_toposort fuel V E inputs = Val l ->
  Permutation l V /\ (forall u v, In (u, v) E -> before l u v).
Proof.
  intros HndV Hr. rewrite gen_toposort_is_kahn in Hr.
  destruct (eff_inputs_good V E inputs Hwf Hin) as [Hnd Hents].
  destruct (kahn fuel (srt E) (rev (eff_inputs V E inputs)) (srt E) []) as [l'| |] eqn:Hk; try discriminate.
  inversion Hr; subst l'.
  destruct (kahn_sound V (srt E) srt_nodup srt_wf fuel _ _ _ l (Inv_init V (srt E) _ Hnd Hents) Hk) as [Hl [Hm Hf]].
  split; [apply NoDup_Permutation; auto|].
  intros u v Huv. apply Hf. apply (Permutation_in _ (Permutation_sym (Hsrt E))); auto.
Qed.

Lemma reach_perm E1 E2 u v : (forall e, In e E1 -> In e E2) -> reach E1 u v -> reach E2 u v.
Proof. intros Hs. induction 1; [apply reach1 | eapply reachS]; eauto. Qed.

Theorem gen_toposort_rejects_cycles fuel : enough_fuel fuel -> (exists v, reach E v v) ->
  g_toposort fuel V E inputs = Exc RuntimeError.
Proof.
  intros Hf [v Hc]. rewrite (gen_toposort_is_topo fuel Hf).
  destruct (eff_inputs_good V E inputs Hwf Hin) as [Hnd Hents].
  rewrite (topo_cycle_rejected V (srt E) srt_nodup srt_wf _ Hnd Hents); [reflexivity|].
  exists v. eapply reach_perm; [|exact Hc]. intros e He. apply (Permutation_in _ (Permutation_sym (Hsrt E))); auto.
Qed.

Theorem gen_toposort_accepts_dags fuel (rank : node -> nat) : enough_fuel fuel ->
  (forall u v, In (u, v) E -> rank u < rank v) -> exists l, g_toposort fuel V E inputs = Val l.
Proof.
  intros Hf Hr. rewrite (gen_toposort_is_topo fuel Hf).
  destruct (eff_inputs_good V E inputs Hwf Hin) as [Hnd Hents].
  destruct (topo_dag_accepted V (srt E) srt_nodup srt_wf _ Hnd Hents rank) as [l Hl].
  - intros u v Huv. apply Hr. apply (Permutation_in _ (Hsrt E)); auto.
  - exists l. now rewrite Hl.
Qed.

(* no KeyError / ValueError / IndexError, and the fuel bound is never hit: the only outcomes are an order or the cycle error *)
Theorem gen_toposort_total fuel : enough_fuel fuel ->
  (exists l, g_toposort fuel V E inputs = Val l) \/ g_toposort fuel V E inputs = Exc RuntimeError.
Proof.
  intros Hf. rewrite (gen_toposort_is_topo fuel Hf).
  destruct (eff_inputs_good V E inputs Hwf Hin) as [Hnd Hents].
  pose proof (topo_total V (srt E) srt_nodup srt_wf _ Hnd Hents) as Ht.
  destruct (topo (eff_inputs V E inputs) V (srt E)) as [l| |]; [left; exists l; reflexivity | right; reflexivity | congruence].
Qed.
End Top.

End GenEq.
