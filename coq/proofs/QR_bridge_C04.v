(* C04: the ridge model run at Q, then embedded in R, IS the ridge model run at R on the embedded data.

   model/Ridge.v is one term over [Num F]; the theorems of props/C04.v are about its instance at R, the correspondence run
   (run/RunC04.v, chk_fit) evaluates its instance at Q.  For every homomorphism [phi] of the class (base/NumHom.v), in
   particular [Q2R]: add_bias, one partial_backward (XXT += X'.T X', YXT += Y.T X'), the zero buffers, the whole partial_fit
   over any list of sequences with any warm-up (including the rejection of too-short sequences), the regularised system
   XXT + ridge*I, the bias split and readout_forward / run all commute with the entry-wise embedding.  No shape hypothesis.

   [solve] (LAPACK; Gauss-Jordan over Q in the runner) is an oracle of the model: [fit] commutes with the embedding for any
   pair of related solvers ([em (solve_Q A B) = solve_R (em A) (em B)]).  Independently of any solver, the runner's check 2
   (the OBSERVED weights satisfy the normal equations built by the model) only involves terms that embed unconditionally. *)
From Coq Require Import Reals QArith Qreals List Bool Arith.
From RV Require Import base.Num base.LA base.NumHom model.Ridge.
Import ListNotations.
Close Scope Q_scope.

Section BridgeC04.
Context {F G : Type} {NF : Num F} {NG : Num G} (phi : F -> G) {HH : NumHom phi}.
Local Notation ev := (map phi).
Local Notation em := (map (map phi)).

Definition eacc (acc : list (list F) * list (list F)) : list (list G) * list (list G) := (em (fst acc), em (snd acc)).

Lemma ev_prep b x : ev (prep b x) = prep b (ev x).
Proof. destruct b; cbn; [rewrite (hom_1 phi)|]; reflexivity. Qed.
Lemma em_map_prep b X : em (map (prep b) X) = map (prep b) (em X).
Proof. rewrite !map_map. apply map_ext. intros; apply ev_prep. Qed.
Lemma e_partial_backward b din dout acc X Y :
  eacc (partial_backward b din dout acc X Y) = partial_backward b din dout (eacc acc) (em X) (em Y).
Proof.
  unfold partial_backward, eacc. cbv zeta. cbn [fst snd].
  rewrite !(em_madd phi), !(em_mm phi), !(em_transpose phi), !em_map_prep. reflexivity.
Qed.
Lemma e_buffers0 b din dout : eacc (buffers0 b din dout) = buffers0 b din dout.
Proof. unfold buffers0, eacc. cbn [fst snd]. rewrite !(em_mzeros phi). reflexivity. Qed.
Lemma e_partial_fit b din dout w acc Xs Ys :
  option_map eacc (partial_fit b din dout w acc Xs Ys) = partial_fit b din dout w (eacc acc) (map em Xs) (map em Ys).
Proof.
  revert acc Ys. induction Xs as [|X Xs IH]; intros acc [|Y Ys]; try reflexivity.
  cbn [partial_fit map]. rewrite map_length. destruct (length X <=? w); [reflexivity|].
  rewrite IH, e_partial_backward, !skipn_map. reflexivity.
Qed.
Lemma em_ridge_system b lam din XXT : em (ridge_system b lam din XXT) = ridge_system b (phi lam) din (em XXT).
Proof. unfold ridge_system. rewrite (em_madd phi), (em_mscale phi), (em_eye phi). reflexivity. Qed.
Lemma e_split_wo b dout Wo :
  (em (fst (split_wo b dout Wo)), ev (snd (split_wo b dout Wo))) = split_wo b dout (em Wo).
Proof.
  unfold split_wo. destruct b; cbn [fst snd].
  - rewrite map_tl, (map_hd (map phi)), (ev_vzeros phi). reflexivity.
  - rewrite (ev_vzeros phi). reflexivity.
Qed.
Lemma ev_forward dout Wout bv x : ev (forward dout Wout bv x) = forward dout (em Wout) (ev bv) (ev x).
Proof. unfold forward. rewrite (ev_vadd phi), (ev_mv phi), (em_transpose phi). reflexivity. Qed.
Lemma em_run dout Wout bv X : em (run dout Wout bv X) = run dout (em Wout) (ev bv) (em X).
Proof. unfold run. rewrite !map_map. apply map_ext. intros; apply ev_forward. Qed.

(* with a pair of related solvers *)
Section WithSolve.
Variables (solveF : list (list F) -> list (list F) -> list (list F)) (solveG : list (list G) -> list (list G) -> list (list G)).
Hypothesis Hsolve : forall A B, em (solveF A B) = solveG (em A) (em B).
Lemma em_backward_raw b lam din acc :
  em (backward_raw solveF b lam din acc) = backward_raw solveG b (phi lam) din (eacc acc).
Proof. unfold backward_raw, eacc. cbn [fst snd]. rewrite Hsolve, em_ridge_system, (em_transpose phi). reflexivity. Qed.
Lemma e_fit b lam w din dout Xs Ys :
  option_map (fun p => (em (fst p), ev (snd p))) (fit solveF b lam w din dout Xs Ys)
  = fit solveG b (phi lam) w din dout (map em Xs) (map em Ys).
Proof.
  unfold fit. rewrite <- (e_buffers0 b din dout), <- e_partial_fit.
  destruct (partial_fit b din dout w (buffers0 b din dout) Xs Ys) as [acc|]; [|reflexivity].
  cbn [option_map]. rewrite e_split_wo, em_backward_raw. reflexivity.
Qed.
End WithSolve.
End BridgeC04.

(* ================================================================== the instance Q -> R *)
Notation acc2r := (eacc Q2R).

(* the Gram accumulators (XXT, YXT) after any list of sequences, from the zero buffers, with any warm-up; a rejected
   dataset (some sequence not longer than the warm-up) is rejected on both sides *)
Lemma Qaccumulators_embed (bias : bool) (din dout w : nat) (Xs Ys : list (list (list Q))) :
  option_map acc2r (partial_fit bias din dout w (buffers0 bias din dout) Xs Ys)
  = partial_fit bias din dout w (buffers0 bias din dout) (map qm2r Xs) (map qm2r Ys).
Proof. rewrite (e_partial_fit Q2R), (e_buffers0 Q2R). reflexivity. Qed.
(* one accumulation step on arbitrary accumulators *)
Lemma Qpartial_backward_embeds (bias : bool) (din dout : nat) (acc : list (list Q) * list (list Q)) (X Y : list (list Q)) :
  acc2r (partial_backward bias din dout acc X Y) = partial_backward bias din dout (acc2r acc) (qm2r X) (qm2r Y).
Proof. apply (e_partial_backward Q2R). Qed.
(* the regularised system and the right-hand side handed to the solver *)
Lemma Qridge_system_embeds (bias : bool) (lam : Q) (din : nat) (acc : list (list Q) * list (list Q)) :
  qm2r (ridge_system bias lam din (fst acc)) = ridge_system bias (Q2R lam) din (fst (acc2r acc)) /\
  qm2r (transpose (snd acc) (aug_dim bias din)) = transpose (snd (acc2r acc)) (aug_dim bias din).
Proof. split; [apply (em_ridge_system Q2R) | apply (em_transpose Q2R)]. Qed.
(* readout_forward on one row and on a whole sequence *)
Lemma Qreadout_forward_embeds (dout : nat) (Wout : list (list Q)) (b : list Q) (X : list (list Q)) :
  (forall x, qv2r (forward dout Wout b x) = forward dout (qm2r Wout) (qv2r b) (qv2r x)) /\
  qm2r (run dout Wout b X) = run dout (qm2r Wout) (qv2r b) (qm2r X).
Proof. split; [intros; apply (ev_forward Q2R) | apply (em_run Q2R)]. Qed.
(* the whole fit, for any pair of related solvers *)
Lemma Qfit_embeds (solveQ : list (list Q) -> list (list Q) -> list (list Q)) (solveR : list (list R) -> list (list R) -> list (list R))
      (bias : bool) (lam : Q) (w din dout : nat) (Xs Ys : list (list (list Q))) :
  (forall A B, qm2r (solveQ A B) = solveR (qm2r A) (qm2r B)) ->
  option_map (fun p => (qm2r (fst p), qv2r (snd p))) (fit solveQ bias lam w din dout Xs Ys)
  = fit solveR bias (Q2R lam) w din dout (map qm2r Xs) (map qm2r Ys).
Proof. intros Hs. apply (e_fit Q2R solveQ solveR Hs). Qed.

(* a concrete instance: bias on, 2 inputs, 1 output, warm-up 1, two sequences (3 and 2 rows).
   The accumulators of the R-model on the embedded data are exactly the embedded accumulators of the Q run. *)
Definition exXs : list (list (list Q)) :=
  [[[(1#2)%Q; (-1#1)%Q]; [(1#4)%Q; (2#1)%Q]; [(-3#2)%Q; (1#8)%Q]]; [[(5#1)%Q; (5#1)%Q]; [(1#1)%Q; (-1#2)%Q]]].
Definition exYs : list (list (list Q)) := [[[(7#1)%Q]; [(3#4)%Q]; [(-1#2)%Q]]; [[(9#1)%Q]; [(1#4)%Q]]].
Example Qaccumulators_example :
  partial_fit true 2 1 1 (buffers0 true 2 1) (map qm2r exXs) (map qm2r exYs)
  = Some (acc2r ([[(3#1)%Q; (-1#4)%Q; (13#8)%Q]; [(-1#4)%Q; (53#16)%Q; (-3#16)%Q]; [(13#8)%Q; (-3#16)%Q; (273#64)%Q]],
                 [[(1#2)%Q; (19#16)%Q; (21#16)%Q]])).
Proof. rewrite <- (Qaccumulators_embed true 2 1 1 exXs exYs). vm_compute partial_fit. reflexivity. Qed.
(* a too-short sequence (length <= warm-up) is rejected by the R-model as it is by the Q run *)
Example Qaccumulators_reject_example :
  partial_fit true 2 1 2 (buffers0 true 2 1) (map qm2r exXs) (map qm2r exYs) = None.
Proof. rewrite <- (Qaccumulators_embed true 2 1 2 exXs exYs). vm_compute partial_fit. reflexivity. Qed.

(* ================================================================== the verdict of the correspondence runner, read at R
   [chk_fit] (run/RunC04.v) is the boolean evaluated at Q.  Its solver-independent content, at R: the R-instance of the model
   accepts the embedded dataset and builds accumulators such that (i) the OBSERVED weights of reservoirpy's Ridge satisfy the
   regularised normal equations (XXT + ridge I) [bias; Wout] = YXT.T of the R-model within 1e-9*max(1,|.|) entry-wise, and
   (ii) the observed predictions are the R-model's forward pass with the observed weights, within the same tolerance. *)
From RV Require Import run.RunC04.

Lemma chk_fit_is_about_R_model (bias : bool) (lam : Q) (w din dout : nat) (Xs Ys : list (list (list Q)))
      (Wout_obs : list (list Q)) (b_obs : list Q) (Xtest pred_obs : list (list Q)) :
  chk_fit bias lam w din dout Xs Ys Wout_obs b_obs Xtest pred_obs = true ->
  exists accR : list (list R) * list (list R),
    partial_fit bias din dout w (buffers0 bias din dout) (map qm2r Xs) (map qm2r Ys) = Some accR /\
    mrclose (transpose (snd accR) (aug_dim bias din))
            (mm (ridge_system bias (Q2R lam) din (fst accR)) (qm2r (assemble bias Wout_obs b_obs)) dout) /\
    mrclose (run dout (qm2r Wout_obs) (qv2r b_obs) (qm2r Xtest)) (qm2r pred_obs).
Proof.
  unfold chk_fit. pose proof (Qaccumulators_embed bias din dout w Xs Ys) as Ha.
  destruct (partial_fit bias din dout w (buffers0 bias din dout) Xs Ys) as [acc|]; [|discriminate].
  destruct (split_wo bias dout (backward_raw qsolve_tot bias lam din acc)) as [Wm bm]. intros Hx.
  repeat (apply andb_true_iff in Hx; destruct Hx as [Hx ?]).
  exists (acc2r acc). split; [symmetry; exact Ha|]. unfold eacc. cbn [fst snd]. split.
  - rewrite <- (em_ridge_system Q2R), <- (em_mm Q2R), <- (em_transpose Q2R). apply mclose_mrclose. assumption.
  - rewrite <- (em_run Q2R). apply mclose_mrclose. assumption.
Qed.
(* the premise is satisfiable: the dataset of [Qaccumulators_example], ridge = 1/2, observed weights = the exact solution *)
Example chk_fit_example :
  chk_fit true (1#2)%Q 1 2 1 exXs exYs [[(35723#109067)%Q]; [(30012#109067)%Q]] [(8397#218134)%Q] [[1%Q; 1%Q]] [[(19981#31162)%Q]] = true.
Proof. vm_compute. reflexivity. Qed.
