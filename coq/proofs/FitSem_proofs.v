(* C06: lemmas about model/FitSem.v.
   1. tm_eqb decides equality of symbolic terms.
   2. Model.fit-with-a-staging and the explicit procedure commute with every homomorphism of value algebras
      (they only move values around and apply the three operations).
   3. Hence: a staging that is valid symbolically gives, in EVERY algebra (every kind of forward node, every offline
      learner, every dataset), each offline node the parameters of the explicit procedure. *)
From Coq Require Import List Arith Bool Lia.
From RV Require Import model.FitSem.
Import ListNotations.

(* ------------------------------------------------------------------------------------------------ tm_eqb *)
Lemma tm_eqb_eq : forall a b, tm_eqb a b = true -> a = b.
Proof.
  fix IH 1. intros [k v|k v l] [k' v'|k' v' l']; simpl; try discriminate.
  - intros H. apply andb_prop in H as [Hk Hv]. apply Nat.eqb_eq in Hk, Hv. subst. reflexivity.
  - intros H. apply andb_prop in H as [H1 Hl]. apply andb_prop in H1 as [Hk Hv].
    apply Nat.eqb_eq in Hk, Hv. subst. f_equal.
    revert l' Hl. induction l as [|x xs IHl]; intros [|y ys] Hl; try discriminate; [reflexivity|].
    apply andb_prop in Hl as [Hx Hr]. f_equal; [apply IH; exact Hx|apply IHl; exact Hr].
Qed.

Lemma otm_eqb_eq a b : otm_eqb a b = true -> exists t, a = Some t /\ b = Some t.
Proof.
  destruct a as [x|], b as [y|]; simpl; try discriminate. intros H. apply tm_eqb_eq in H. subst. eauto.
Qed.

(* ------------------------------------------------------------------------------------------------ generic *)
Lemma fold_left_hom {A1 A2 B} (h : A1 -> A2) (f1 : A1 -> B -> A1) (f2 : A2 -> B -> A2) :
  (forall a x, f2 (h a) x = h (f1 a x)) -> forall l a, fold_left f2 l (h a) = h (fold_left f1 l a).
Proof. intros Hf l. induction l as [|x l IH]; intros a; simpl; [reflexivity|]. rewrite Hf. apply IH. Qed.

Definition mv {A B} (f : A -> B) (m : list (nat * A)) : list (nat * B) := map (fun p => (fst p, f (snd p))) m.

Lemma lookup_mv {A B} (f : A -> B) (m : list (nat * A)) k : lookup (mv f m) k = option_map f (lookup m k).
Proof.
  unfold lookup. induction m as [|[k0 a] m IH]; simpl; [reflexivity|].
  destruct (k0 =? k); simpl; [reflexivity|exact IH].
Qed.
Lemma has_key_mv {A B} (f : A -> B) (m : list (nat * A)) k : has_key (mv f m) k = has_key m k.
Proof. unfold has_key. rewrite lookup_mv. destruct (lookup m k); reflexivity. Qed.
Lemma lookups_mv {A B} (f : A -> B) (m : list (nat * A)) ks : lookups (mv f m) ks = option_map (map f) (lookups m ks).
Proof.
  induction ks as [|k ks IH]; simpl; [reflexivity|]. rewrite lookup_mv, IH.
  destruct (lookup m k); simpl; [|reflexivity]. destruct (lookups m ks); reflexivity.
Qed.
Lemma opt_list_map {A B} (f : A -> B) (o : option A) : map f (opt_list o) = opt_list (option_map f o).
Proof. destruct o; reflexivity. Qed.
Lemma mv_app {A B} (f : A -> B) (a b : list (nat * A)) : mv f (a ++ b) = mv f a ++ mv f b.
Proof. apply map_app. Qed.
Lemma mv_keys {A B} (f : A -> B) (m : list (nat * A)) : map fst (mv f m) = map fst m.
Proof. unfold mv. rewrite map_map. reflexivity. Qed.

(* ------------------------------------------------------------------------------------------------ homomorphisms *)
Section Hom.
Variables D1 P1 D2 P2 : Type.
Variable run1 : nat -> list D1 -> D1.
Variable fit1 : nat -> list D1 -> D1 -> P1.
Variable pred1 : nat -> P1 -> list D1 -> D1.
Variable run2 : nat -> list D2 -> D2.
Variable fit2 : nat -> list D2 -> D2 -> P2.
Variable pred2 : nat -> P2 -> list D2 -> D2.
Variable hD : D1 -> D2.
Variable hP : P1 -> P2.
Hypothesis h_run : forall v l, hD (run1 v l) = run2 v (map hD l).
Hypothesis h_fit : forall v l y, hP (fit1 v l y) = fit2 v (map hD l) (hD y).
Hypothesis h_pred : forall v p l, hD (pred1 v p l) = pred2 v (hP p) (map hD l).
Variable g : graph.
Variables X0 Y0 : list (nat * D1).

Notation omv := (option_map (mv hD)).

Lemma run_node_hom ps v ins :
  run_node D2 P2 run2 pred2 g (mv hP ps) v (map hD ins) = option_map hD (run_node D1 P1 run1 pred1 g ps v ins).
Proof.
  unfold run_node. destruct (offline g v).
  - rewrite lookup_mv. destruct (lookup ps v); simpl; [rewrite h_pred|]; reflexivity.
  - simpl. rewrite h_run. reflexivity.
Qed.

Lemma fwd_step_hom fedges Xs ps acc v :
  fwd_step D2 P2 run2 pred2 g fedges (mv hD Xs) (mv hP ps) (omv acc) v
  = omv (fwd_step D1 P1 run1 pred1 g fedges Xs ps acc v).
Proof.
  destruct acc as [tr|]; simpl; [|reflexivity].
  rewrite lookups_mv. destruct (lookups tr (parents_in fedges v)) as [pin|]; simpl; [|reflexivity].
  rewrite lookup_mv, <- opt_list_map, <- map_app.
  destruct (pin ++ opt_list (lookup Xs v)) as [|a l] eqn:E; simpl; [reflexivity|].
  change (hD a :: map hD l) with (map hD (a :: l)). rewrite run_node_hom.
  destruct (run_node D1 P1 run1 pred1 g ps v (a :: l)); reflexivity.
Qed.

Lemma run_fwd_hom fedges Xs ps fwdn :
  run_fwd D2 P2 run2 pred2 g fedges (mv hD Xs) (mv hP ps) fwdn = omv (run_fwd D1 P1 run1 pred1 g fedges Xs ps fwdn).
Proof.
  unfold run_fwd. change (Some (@nil (nat * D2))) with (omv (Some [])).
  apply fold_left_hom. intros a x. apply fwd_step_hom.
Qed.

Lemma dist_add_hom d acc nx : dist_add D2 (hD d) (omv acc) nx = omv (dist_add D1 d acc nx).
Proof. destruct acc as [m|]; simpl; [|reflexivity]. rewrite has_key_mv. destruct (has_key m nx); reflexivity. Qed.

Lemma dist_step_hom tr acc r : dist_step D2 (mv hD tr) (omv acc) r = omv (dist_step D1 tr acc r).
Proof.
  destruct acc as [m|]; simpl; [|reflexivity]. rewrite lookup_mv. destruct (lookup tr (fst r)) as [d|]; simpl; [|reflexivity].
  change (Some (mv hD m)) with (omv (Some m)). apply fold_left_hom. intros a x. apply dist_add_hom.
Qed.

Lemma dist_states_hom tr rel : dist_states D2 (mv hD tr) rel = omv (dist_states D1 tr rel).
Proof.
  unfold dist_states. change (Some (@nil (nat * D2))) with (omv (Some [])).
  apply fold_left_hom. intros a x. apply dist_step_hom.
Qed.

Lemma fit_nodes_hom dist offl :
  fit_nodes D2 P2 fit2 (mv hD Y0) (mv hD dist) offl = option_map (mv hP) (fit_nodes D1 P1 fit1 Y0 dist offl).
Proof.
  induction offl as [|v rest IH]; simpl; [reflexivity|].
  rewrite !lookup_mv, IH. destruct (lookup dist v) as [x|]; simpl; [|reflexivity].
  destruct (lookup Y0 v) as [y|]; simpl; [|reflexivity].
  destruct (fit_nodes D1 P1 fit1 Y0 dist rest); simpl; [|reflexivity].
  rewrite h_fit. reflexivity.
Qed.

Definition hst (st : fstate D1 P1) : fstate D2 P2 := let '(Xs, ps, tr) := st in (mv hD Xs, mv hP ps, tr).

Lemma run_stage_hom st s :
  run_stage D2 P2 run2 fit2 pred2 g (mv hD Y0) (option_map hst st) s
  = option_map hst (run_stage D1 P1 run1 fit1 pred1 g Y0 st s).
Proof.
  destruct st as [[[Xs ps] trained]|]; simpl; [|reflexivity].
  set (offl := filter (fun n => offline g n && negb (mem n trained)) (s_nodes s)).
  set (fwdn := filter (fun n => negb (mem n offl)) (s_nodes s)).
  set (fedges := filter (fun e => negb (mem (snd e) offl)) (s_edges s)).
  assert (Hd : match fwdn with
               | [] => Some (mv hD Xs)
               | _ => match run_fwd D2 P2 run2 pred2 g fedges (mv hD Xs) (mv hP ps) fwdn with
                      | Some tr => dist_states D2 tr (s_rel s)
                      | None => None
                      end
               end
               = omv (match fwdn with
                      | [] => Some Xs
                      | _ => match run_fwd D1 P1 run1 pred1 g fedges Xs ps fwdn with
                             | Some tr => dist_states D1 tr (s_rel s)
                             | None => None
                             end
                      end)).
  { destruct fwdn as [|a l]; [reflexivity|]. rewrite run_fwd_hom.
    destruct (run_fwd D1 P1 run1 pred1 g fedges Xs ps (a :: l)) as [tr|]; simpl; [apply dist_states_hom|reflexivity]. }
  rewrite Hd. clear Hd.
  destruct (match fwdn with
            | [] => Some Xs
            | _ => match run_fwd D1 P1 run1 pred1 g fedges Xs ps fwdn with
                   | Some tr => dist_states D1 tr (s_rel s)
                   | None => None
                   end
            end) as [dm|]; simpl; [|reflexivity].
  rewrite fit_nodes_hom. destruct (fit_nodes D1 P1 fit1 Y0 dm offl) as [newp|]; simpl; [|reflexivity].
  rewrite !mv_app. reflexivity.
Qed.

Theorem fit_with_staging_hom stg :
  fit_with_staging D2 P2 run2 fit2 pred2 g (mv hD X0) (mv hD Y0) stg
  = option_map (mv hP) (fit_with_staging D1 P1 run1 fit1 pred1 g X0 Y0 stg).
Proof.
  unfold fit_with_staging.
  change (Some (mv hD X0, @nil (nat * P2), @nil nat)) with (option_map hst (Some (X0, @nil (nat * P1), @nil nat))).
  rewrite (fold_left_hom (option_map hst) (run_stage D1 P1 run1 fit1 pred1 g Y0) (run_stage D2 P2 run2 fit2 pred2 g (mv hD Y0))).
  - destruct (fold_left (run_stage D1 P1 run1 fit1 pred1 g Y0) stg (Some (X0, [], []))) as [[[Xs ps] tr]|]; reflexivity.
  - intros a x. apply run_stage_hom.
Qed.

Lemma sources_hom tr v : sources D2 g (mv hD X0) (mv hD tr) v = map hD (sources D1 g X0 tr v).
Proof.
  unfold sources. rewrite map_app, opt_list_map, lookup_mv. f_equal.
  induction (parents g v) as [|p ps IH]; simpl; [reflexivity|].
  rewrite map_app, IH, lookup_mv, opt_list_map. reflexivity.
Qed.

Definition hex (acc : list (nat * D1) * list (nat * P1)) : list (nat * D2) * list (nat * P2) :=
  (mv hD (fst acc), mv hP (snd acc)).

Lemma explicit_step_hom acc v :
  explicit_step D2 P2 run2 fit2 pred2 g (mv hD X0) (mv hD Y0) (hex acc) v
  = hex (explicit_step D1 P1 run1 fit1 pred1 g X0 Y0 acc v).
Proof.
  destruct acc as [tr ps]. unfold hex, explicit_step. simpl fst. simpl snd.
  rewrite sources_hom, lookup_mv. destruct (offline g v).
  - destruct (lookup Y0 v) as [y|]; simpl; [|reflexivity]. rewrite h_pred, h_fit. reflexivity.
  - simpl. rewrite h_run. reflexivity.
Qed.

Theorem explicit_fit_hom :
  explicit_fit D2 P2 run2 fit2 pred2 g (mv hD X0) (mv hD Y0) = mv hP (explicit_fit D1 P1 run1 fit1 pred1 g X0 Y0).
Proof.
  unfold explicit_fit. change (@nil (nat * D2), @nil (nat * P2)) with (hex ([], [])).
  rewrite (fold_left_hom hex (explicit_step D1 P1 run1 fit1 pred1 g X0 Y0)
                         (explicit_step D2 P2 run2 fit2 pred2 g (mv hD X0) (mv hD Y0))).
  - reflexivity.
  - intros a x. apply explicit_step_hom.
Qed.
End Hom.

(* ------------------------------------------------------------------------------------------------ interpretation *)
Section Interp.
Variables D P : Type.
Variable a_run : nat -> list D -> D.
Variable a_fit : nat -> list D -> D -> P.
Variable a_pred : nat -> P -> list D -> D.
Variable d0 : D.                                 (* any dataset: only used for symbols that name no data *)
Variables X0 Y0 : list (nat * D).

Definition getd (m : list (nat * D)) (v : nat) : D := match lookup m v with Some d => d | None => d0 end.
Definition p0 : P := a_fit 0 [] d0.

Fixpoint iD (t : tm) : D :=
  match t with
  | TLeaf k v => match k with 0 => getd X0 v | _ => getd Y0 v end
  | TNode k v l =>
      match k with
      | 0 => a_run v (map iD l)
      | _ => match l with
             | p :: l' => a_pred v (match p with
                                    | TNode _ v' (y :: l'') => a_fit v' (map iD l'') (iD y)
                                    | _ => p0
                                    end) (map iD l')
             | [] => d0
             end
      end
  end.
Definition iP (p : tm) : P :=
  match p with
  | TNode _ v' (y :: l'') => a_fit v' (map iD l'') (iD y)
  | _ => p0
  end.

Lemma i_run v l : iD (s_run v l) = a_run v (map iD l).
Proof. reflexivity. Qed.
Lemma i_fit v l y : iP (s_fit v l y) = a_fit v (map iD l) (iD y).
Proof. reflexivity. Qed.
Lemma i_pred v p l : iD (s_pred v p l) = a_pred v (iP p) (map iD l).
Proof. reflexivity. Qed.

Lemma lookup_in_nodup {A} (m : list (nat * A)) : NoDup (map fst m) -> forall p, In p m -> lookup m (fst p) = Some (snd p).
Proof.
  unfold lookup. induction m as [|[k a] m IH]; intros Hnd p Hin; [destruct Hin|].
  simpl in Hnd. inversion Hnd as [|? ? Hnot Hnd']; subst. destruct Hin as [<-|Hin]; simpl.
  - rewrite Nat.eqb_refl. reflexivity.
  - destruct (k =? fst p) eqn:E.
    + apply Nat.eqb_eq in E. subst. exfalso. apply Hnot. apply in_map. exact Hin.
    + apply IH; assumption.
Qed.

Lemma mv_sym (leaf : nat -> tm) (m : list (nat * D)) :
  NoDup (map fst m) -> (forall v, iD (leaf v) = getd m v) ->
  mv iD (map (fun n => (n, leaf n)) (map fst m)) = m.
Proof.
  intros Hnd Hleaf. unfold mv. rewrite !map_map. simpl.
  rewrite <- (map_id m) at 2. apply map_ext_in. intros [k a] Hin. simpl. rewrite Hleaf. unfold getd.
  pose proof (lookup_in_nodup m Hnd (k, a) Hin) as E. simpl in E. rewrite E. reflexivity.
Qed.

(* THE theorem: validity decided on symbols transfers to every algebra and every dataset *)
Theorem fit_valid_staging (g : graph) (stg : list stage) :
  NoDup (map fst X0) -> NoDup (map fst Y0) ->
  valid_stagingb g (map fst X0) (map fst Y0) stg = true ->
  exists ps, fit_with_staging D P a_run a_fit a_pred g X0 Y0 stg = Some ps /\
             forall v, In v (g_nodes g) -> offline g v = true ->
                       exists p, lookup ps v = Some p /\ lookup (explicit_fit D P a_run a_fit a_pred g X0 Y0) v = Some p.
Proof.
  intros HX HY Hv. unfold valid_stagingb in Hv.
  pose proof (fit_with_staging_hom tm tm D P s_run s_fit s_pred a_run a_fit a_pred iD iP i_run i_fit i_pred g
                                   (sym_X (map fst X0)) (sym_Y (map fst Y0)) stg) as Hf.
  pose proof (explicit_fit_hom tm tm D P s_run s_fit s_pred a_run a_fit a_pred iD iP i_run i_fit i_pred g
                               (sym_X (map fst X0)) (sym_Y (map fst Y0))) as He.
  unfold sym_X, sym_Y in Hf, He.
  rewrite (mv_sym TExt X0 HX (fun v => eq_refl)), (mv_sym TTgt Y0 HY (fun v => eq_refl)) in Hf, He.
  fold (sym_X (map fst X0)) (sym_Y (map fst Y0)) in Hf, He.
  destruct (fit_with_staging tm tm s_run s_fit s_pred g (sym_X (map fst X0)) (sym_Y (map fst Y0)) stg) as [pss|]; [|discriminate].
  simpl in Hf. exists (mv iP pss). split; [exact Hf|].
  intros v Hin Hoff. rewrite forallb_forall in Hv. specialize (Hv v Hin). rewrite Hoff in Hv. simpl in Hv.
  apply otm_eqb_eq in Hv as [t [H1 H2]]. exists (iP t). rewrite He, !lookup_mv, H1, H2. split; reflexivity.
Qed.
End Interp.

(* ------------------------------------------------------------------------------------------------ bounded sweep *)
(* every DAG with at most 5 nodes, every fan-in order, every set of single-parent offline nodes: get_offline_subgraphs
   terminates and, on the supported class, its staging is valid *)
Lemma staging_sweep_5 : forallb all_okb [1; 2; 3; 4; 5] = true.
Proof. vm_compute. reflexivity. Qed.

Lemma staging_valid_bounded n es off :
  1 <= n <= 5 -> In es (edge_lists n) -> In off (labellings n es) ->
  let g := mkG (seq 0 n) es off in
  exists stg, get_offline_subgraphs g = Some stg /\
              (supportedb g stg = true ->
               valid_stagingb g (filter (is_input g) (g_nodes g)) (filter (offline g) (g_nodes g)) stg = true).
Proof.
  intros Hn Hes Hoff g.
  assert (Hall : all_okb n = true).
  { pose proof staging_sweep_5 as H. rewrite forallb_forall in H. apply H. simpl. lia. }
  unfold all_okb in Hall. rewrite forallb_forall in Hall. specialize (Hall es Hes).
  rewrite forallb_forall in Hall. specialize (Hall off Hoff). fold g in Hall. unfold staging_okb in Hall.
  destruct (get_offline_subgraphs g) as [stg|]; [|discriminate].
  exists stg. split; [reflexivity|]. intros Hs. rewrite Hs in Hall. exact Hall.
Qed.

(* ------------------------------------------------------------------------------------------------ Model.train *)
Section TrainProofs.
Variables V NS : Type.
Variable vcat : list V -> V.
Variable ncall : nat -> NS -> V -> NS.
Variable nout : nat -> NS -> V.
Variable nlearn : nat -> NS -> V -> V -> NS.
Notation tmodel := (tmodel).
Notation tenv := (tenv NS).
Notation tforward := (tforward V NS vcat ncall nout).
Notation ttrain_nodes := (ttrain_nodes V NS vcat nout nlearn).
Notation ttrain_from := (ttrain_from V NS vcat ncall nout nlearn).
Notation tgather := (tgather V NS vcat nout).

(* one step of Model.train: forward; the returned states are those of the forward pass (pre-update); the update
   happens iff  i mod learn_every = 0  (or the sequence has a single step) *)
Lemma train_step_spec (m : tmodel) k single i (e : tenv) ext tgt rest :
  ttrain_from m k single i e ((ext, tgt) :: rest) =
    let e1 := tforward m ext e in
    let e2 := if (i mod k =? 0) || single then ttrain_nodes m ext tgt e1 else e1 in
    let '(e3, os) := ttrain_from m k single (S i) e2 rest in
    (e3, map (fun o => nout o (e1 o)) (t_outs m) :: os).
Proof. reflexivity. Qed.

Lemma train_outputs_length (m : tmodel) k single : forall steps i (e : tenv),
  length (snd (ttrain_from m k single i e steps)) = length steps.
Proof.
  induction steps as [|[ext tgt] rest IH]; intros i e; [reflexivity|].
  rewrite train_step_spec. cbv zeta.
  match goal with |- context [ttrain_from m k single (S i) ?E rest] => specialize (IH (S i) E);
    destruct (ttrain_from m k single (S i) E rest) as [e3 os] end.
  simpl in *. rewrite IH. reflexivity.
Qed.

(* nodes that are not online are not touched by the training pass *)
Lemma ttrain_nodes_skip (m : tmodel) ext tgt : forall l (e : tenv),
  (forall v, In v l -> t_online m v = false) ->
  fold_left (fun e v => if t_online m v
                        then match tgt v with
                             | Some y => tupd NS e v (nlearn v (e v) (tgather m e ext v) y)
                             | None => e
                             end
                        else e) l e = e.
Proof.
  induction l as [|a l IH]; intros e Hl; [reflexivity|]. simpl. rewrite (Hl a (or_introl eq_refl)).
  apply IH. intros v Hv. apply Hl. right. exact Hv.
Qed.

Lemma tgather_ext (m : tmodel) (e e' : tenv) ext v :
  (forall p, In p (t_parents m v) -> e p = e' p) -> tgather m e ext v = tgather m e' ext v.
Proof.
  intros Hp. unfold FitSem.tgather. f_equal. f_equal. apply map_ext_in. intros p Hin. rewrite (Hp p Hin). reflexivity.
Qed.

Lemma tupd_other (e : tenv) n s p : p <> n -> tupd NS e n s p = e p.
Proof. intros Hne. unfold tupd. destruct (p =? n) eqn:E; [apply Nat.eqb_eq in E; contradiction|reflexivity]. Qed.

(* a model made of upstream nodes followed by ONE online readout r: Model.train is the explicit per-timestep loop
   "call the upstream nodes, call the readout, then readout.train(x_t, y_t, call=False) on the selected steps" *)
Theorem train_is_explicit_loop (m : tmodel) (ups : list nat) (r : nat) k single :
  t_order m = ups ++ [r] -> t_outs m = [r] -> t_online m r = true ->
  (forall v, In v ups -> t_online m v = false) -> ~ In r (t_parents m r) ->
  forall steps i (e : tenv),
    ttrain_from m k single i e steps =
      let '(e', ps) := explicit_train_from V NS vcat ncall nout nlearn ups r m k single i e steps in
      (e', map (fun p => [p]) ps).
Proof.
  intros Hord Houts Hon Hoff Hself. induction steps as [|[ext tgt] rest IH]; intros i e; [reflexivity|].
  rewrite train_step_spec. cbv zeta. simpl explicit_train_from. unfold explicit_train_step.
  set (e1 := fold_left (fun e v => tupd NS e v (ncall v (e v) (tgather m e ext v))) ups e).
  set (x := tgather m e1 ext r).
  set (e2 := tupd NS e1 r (ncall r (e1 r) x)).
  assert (Hfw : tforward m ext e = e2).
  { unfold FitSem.tforward. rewrite Hord, fold_left_app. reflexivity. }
  rewrite Hfw, Houts. simpl map.
  assert (Hx : tgather m e2 ext r = x).
  { apply tgather_ext. intros p Hp. apply tupd_other. intros ->. exact (Hself Hp). }
  assert (Htr : ttrain_nodes m ext tgt e2 = match tgt r with Some y => tupd NS e2 r (nlearn r (e2 r) x y) | None => e2 end).
  { unfold FitSem.ttrain_nodes. rewrite Hord, fold_left_app, (ttrain_nodes_skip m ext tgt ups e2 Hoff).
    simpl. rewrite Hon, Hx. reflexivity. }
  rewrite Htr. unfold tgate.
  destruct ((i mod k =? 0) || single);
    rewrite IH;
    match goal with |- context [explicit_train_from V NS vcat ncall nout nlearn ups r m k single (S i) ?E rest] =>
      destruct (explicit_train_from V NS vcat ncall nout nlearn ups r m k single (S i) E rest) as [e' ps] end;
    reflexivity.
Qed.
End TrainProofs.

(* ------------------------------------------------------------------------------------------------ witnesses *)
(* (A) an output readout trained in an early stage never receives its inputs: Model.fit raises *)
Definition g_early_output : graph := mkG [0; 1; 2; 3] [(0, 1); (0, 2); (2, 3)] [1; 2; 3].
(* (B) res >> rd1, [res, rd1] >> Concat >> rd2: the Concat sees (rd1, res) during fit but (res, rd1) at run time *)
Definition g_cross_concat : graph := mkG [0; 1; 2; 3] [(0, 1); (0, 2); (1, 2); (2, 3)] [1; 3].
(* (C) [inp, res, rd1] >> Concat >> rd2 with inp >> res >> rd1: two relations write the Concat's entry *)
Definition g_multi_source : graph := mkG [0; 1; 2; 3; 4] [(0, 1); (1, 2); (0, 3); (1, 3); (2, 3); (3, 4)] [2; 4].
(* (D) a readout fed directly by the data next to a non-empty forward part: it never receives its inputs *)
Definition g_entry_readout : graph := mkG [0; 1; 2] [(1, 2)] [0; 2].

Lemma staging_invalid_witnesses :
  Forall (fun g => get_offline_subgraphs g <> None /\ default_valid g = false)
         [g_early_output; g_cross_concat; g_multi_source; g_entry_readout].
Proof. repeat constructor; try (vm_compute; discriminate); vm_compute; reflexivity. Qed.

Definition sym_fit (g : graph) : option (list (nat * tm)) :=
  match get_offline_subgraphs g with
  | Some stg => fit_with_staging tm tm s_run s_fit s_pred g (sym_X (filter (is_input g) (g_nodes g)))
                                 (sym_Y (filter (offline g) (g_nodes g))) stg
  | None => None
  end.
(* what goes wrong: (A), (C), (D) raise; (B) trains rd2 on the columns in the wrong order *)
Lemma staging_failure_modes :
  sym_fit g_early_output = None /\ sym_fit g_multi_source = None /\ sym_fit g_entry_readout = None /\
  (exists ps, sym_fit g_cross_concat = Some ps /\
     lookup ps 3 = Some (s_fit 3 [s_run 2 [s_pred 1 (s_fit 1 [s_run 0 [TExt 0]] (TTgt 1)) [s_run 0 [TExt 0]]; s_run 0 [TExt 0]]] (TTgt 3)) /\
     lookup (explicit_fit tm tm s_run s_fit s_pred g_cross_concat (sym_X [0]) (sym_Y [1; 3])) 3 =
       Some (s_fit 3 [s_run 2 [s_run 0 [TExt 0]; s_pred 1 (s_fit 1 [s_run 0 [TExt 0]] (TTgt 1)) [s_run 0 [TExt 0]]]] (TTgt 3))).
Proof. repeat split; try (vm_compute; reflexivity). eexists. repeat split; vm_compute; reflexivity. Qed.

(* pre-fix gate: with X a one-key mapping, len(X) == 1 holds whatever the number of timesteps, so every step updates *)
Definition cnt_model : tmodel := mkTM [0] (fun _ => []) (fun v => v =? 0) [0].
Definition cnt_steps : list ((nat -> option nat) * (nat -> option nat)) :=
  repeat (fun _ => Some 0, fun _ => Some 0) 4.
(* node state = number of learning updates so far *)
Definition cnt_updates (prefix : bool) : nat :=
  let run := if prefix
             then model_train_prefix nat nat (fun _ => 0) (fun _ s _ => s) (fun _ s => s) (fun _ s _ _ => S s) cnt_model 2 1
             else model_train nat nat (fun _ => 0) (fun _ s _ => s) (fun _ s => s) (fun _ s _ _ => S s) cnt_model 2 in
  fst (run (fun _ => 0) cnt_steps) 0.
Lemma learn_every_mapping_prefix_witness : cnt_updates false = 2 /\ cnt_updates true = 4.
Proof. split; vm_compute; reflexivity. Qed.

(* ------------------------------------------------------------------------------------------------ array = mapping *)
(* to_data_mapping: an array X (resp. Y) IS the mapping giving it to every input (resp. trainable) node, so both ways
   of passing the data reach Model.fit / the explicit procedure as the same mappings *)
Lemma array_eq_mapping {D} (g : graph) (trainable : list nat) (x y : D) :
  input_mapping g (DArray x) = input_mapping g (DMapping (map (fun n => (n, x)) (filter (is_input g) (g_nodes g)))) /\
  target_mapping trainable (DArray y) = target_mapping trainable (DMapping (map (fun n => (n, y)) trainable)).
Proof. split; reflexivity. Qed.
Lemma array_mapping_keys {D} (g : graph) (x : D) :
  map fst (input_mapping g (DArray x)) = filter (is_input g) (g_nodes g).
Proof. simpl. rewrite map_map. simpl. apply map_id. Qed.
