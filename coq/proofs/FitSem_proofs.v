(* C06: lemmas about model/FitSem.v.
   1. tm_eqb decides equality of symbolic terms.
   2. Model.fit-with-a-staging and the explicit procedure commute with every homomorphism of value algebras
      (they only move values around and apply the three operations).
   3. Hence: a staging that is valid symbolically gives, in EVERY algebra (every kind of forward node, every offline
      learner, every dataset), each offline node the parameters of the explicit procedure. *)
From Coq Require Import List Arith Bool Lia.
From RV Require Import model.FitSem.
Import ListNotations.

(* ------------------------------------------------------------------------------------------------ tm_eqb *)
Lemma tm_eqb_eq : forall a b, tm_eqb a b = true -> a = b.
Proof.
  fix IH 1. intros [k v|k v l] [k' v'|k' v' l']; simpl; try discriminate.
  - intros H. apply andb_prop in H as [Hk Hv]. apply Nat.eqb_eq in Hk, Hv. subst. reflexivity.
  - intros H. apply andb_prop in H as [H1 Hl]. apply andb_prop in H1 as [Hk Hv].
    apply Nat.eqb_eq in Hk, Hv. subst. f_equal.
    revert l' Hl. induction l as [|x xs IHl]; intros [|y ys] Hl; try discriminate; [reflexivity|].
    apply andb_prop in Hl as [Hx Hr]. f_equal; [apply IH; exact Hx|apply IHl; exact Hr].
Qed.

Lemma otm_eqb_eq a b : otm_eqb a b = true -> exists t, a = Some t /\ b = Some t.
Proof.
  destruct a as [x|], b as [y|]; simpl; try discriminate. intros H. apply tm_eqb_eq in H. subst. eauto.
Qed.

(* ------------------------------------------------------------------------------------------------ generic *)
Lemma fold_left_hom {A1 A2 B} (h : A1 -> A2) (f1 : A1 -> B -> A1) (f2 : A2 -> B -> A2) :
  (forall a x, f2 (h a) x = h (f1 a x)) -> forall l a, fold_left f2 l (h a) = h (fold_left f1 l a).
Proof. intros Hf l. induction l as [|x l IH]; intros a; simpl; [reflexivity|]. rewrite Hf. apply IH. Qed.

Definition mv {A B} (f : A -> B) (m : list (nat * A)) : list (nat * B) := map (fun p => (fst p, f (snd p))) m.

Lemma lookup_mv {A B} (f : A -> B) (m : list (nat * A)) k : lookup (mv f m) k = option_map f (lookup m k).
Proof.
  unfold lookup. induction m as [|[k0 a] m IH]; simpl; [reflexivity|].
  destruct (k0 =? k); simpl; [reflexivity|exact IH].
Qed.
Lemma has_key_mv {A B} (f : A -> B) (m : list (nat * A)) k : has_key (mv f m) k = has_key m k.
Proof. unfold has_key. rewrite lookup_mv. destruct (lookup m k); reflexivity. Qed.
Lemma lookups_mv {A B} (f : A -> B) (m : list (nat * A)) ks : lookups (mv f m) ks = option_map (map f) (lookups m ks).
Proof.
  induction ks as [|k ks IH]; simpl; [reflexivity|]. rewrite lookup_mv, IH.
  destruct (lookup m k); simpl; [|reflexivity]. destruct (lookups m ks); reflexivity.
Qed.
Lemma opt_list_map {A B} (f : A -> B) (o : option A) : map f (opt_list o) = opt_list (option_map f o).
Proof. destruct o; reflexivity. Qed.
Lemma mv_app {A B} (f : A -> B) (a b : list (nat * A)) : mv f (a ++ b) = mv f a ++ mv f b.
Proof. apply map_app. Qed.
Lemma mv_keys {A B} (f : A -> B) (m : list (nat * A)) : map fst (mv f m) = map fst m.
Proof. unfold mv. rewrite map_map. reflexivity. Qed.

(* ------------------------------------------------------------------------------------------------ homomorphisms *)
Section Hom.
Variables D1 P1 D2 P2 : Type.
Variable run1 : nat -> list D1 -> D1.
Variable fit1 : nat -> list D1 -> D1 -> P1.
Variable pred1 : nat -> P1 -> list D1 -> D1.
Variable run2 : nat -> list D2 -> D2.
Variable fit2 : nat -> list D2 -> D2 -> P2.
Variable pred2 : nat -> P2 -> list D2 -> D2.
Variable hD : D1 -> D2.
Variable hP : P1 -> P2.
Hypothesis h_run : forall v l, hD (run1 v l) = run2 v (map hD l).
Hypothesis h_fit : forall v l y, hP (fit1 v l y) = fit2 v (map hD l) (hD y).
Hypothesis h_pred : forall v p l, hD (pred1 v p l) = pred2 v (hP p) (map hD l).
Variable g : graph.
Variables X0 Y0 : list (nat * D1).

Notation omv := (option_map (mv hD)).

Lemma run_node_hom ps v ins :
  run_node D2 P2 run2 pred2 g (mv hP ps) v (map hD ins) = option_map hD (run_node D1 P1 run1 pred1 g ps v ins).
Proof.
  unfold run_node. destruct (offline g v).
  - rewrite lookup_mv. destruct (lookup ps v); simpl; [rewrite h_pred|]; reflexivity.
  - simpl. rewrite h_run. reflexivity.
Qed.

Lemma fwd_step_hom fedges Xs ps acc v :
  fwd_step D2 P2 run2 pred2 g fedges (mv hD Xs) (mv hP ps) (omv acc) v
  = omv (fwd_step D1 P1 run1 pred1 g fedges Xs ps acc v).
Proof.
  destruct acc as [tr|]; simpl; [|reflexivity].
  rewrite lookups_mv. destruct (lookups tr (parents_in fedges v)) as [pin|]; simpl; [|reflexivity].
  rewrite lookup_mv, <- opt_list_map, <- map_app.
  destruct (pin ++ opt_list (lookup Xs v)) as [|a l] eqn:E; simpl; [reflexivity|].
  change (hD a :: map hD l) with (map hD (a :: l)). rewrite run_node_hom.
  destruct (run_node D1 P1 run1 pred1 g ps v (a :: l)); reflexivity.
Qed.

Lemma run_fwd_hom fedges Xs ps fwdn :
  run_fwd D2 P2 run2 pred2 g fedges (mv hD Xs) (mv hP ps) fwdn = omv (run_fwd D1 P1 run1 pred1 g fedges Xs ps fwdn).
Proof.
  unfold run_fwd. change (Some (@nil (nat * D2))) with (omv (Some [])).
  apply fold_left_hom. intros a x. apply fwd_step_hom.
Qed.

Lemma dist_add_hom d acc nx : dist_add D2 (hD d) (omv acc) nx = omv (dist_add D1 d acc nx).
Proof. destruct acc as [m|]; simpl; [|reflexivity]. rewrite has_key_mv. destruct (has_key m nx); reflexivity. Qed.

Lemma dist_step_hom tr acc r : dist_step D2 (mv hD tr) (omv acc) r = omv (dist_step D1 tr acc r).
Proof.
  destruct acc as [m|]; simpl; [|reflexivity]. rewrite lookup_mv. destruct (lookup tr (fst r)) as [d|]; simpl; [|reflexivity].
  change (Some (mv hD m)) with (omv (Some m)). apply fold_left_hom. intros a x. apply dist_add_hom.
Qed.

Lemma dist_states_hom tr rel : dist_states D2 (mv hD tr) rel = omv (dist_states D1 tr rel).
Proof.
  unfold dist_states. change (Some (@nil (nat * D2))) with (omv (Some [])).
  apply fold_left_hom. intros a x. apply dist_step_hom.
Qed.

Lemma fit_nodes_hom dist offl :
  fit_nodes D2 P2 fit2 (mv hD Y0) (mv hD dist) offl = option_map (mv hP) (fit_nodes D1 P1 fit1 Y0 dist offl).
Proof.
  induction offl as [|v rest IH]; simpl; [reflexivity|].
  rewrite !lookup_mv, IH. destruct (lookup dist v) as [x|]; simpl; [|reflexivity].
  destruct (lookup Y0 v) as [y|]; simpl; [|reflexivity].
  destruct (fit_nodes D1 P1 fit1 Y0 dist rest); simpl; [|reflexivity].
  rewrite h_fit. reflexivity.
Qed.

Definition hst (st : fstate D1 P1) : fstate D2 P2 := let '(Xs, ps, tr) := st in (mv hD Xs, mv hP ps, tr).

Lemma run_stage_hom st s :
  run_stage D2 P2 run2 fit2 pred2 g (mv hD Y0) (option_map hst st) s
  = option_map hst (run_stage D1 P1 run1 fit1 pred1 g Y0 st s).
Proof.
  destruct st as [[[Xs ps] trained]|]; simpl; [|reflexivity].
  set (offl := filter (fun n => offline g n && negb (mem n trained)) (s_nodes s)).
  set (fwdn := filter (fun n => negb (mem n offl)) (s_nodes s)).
  set (fedges := filter (fun e => negb (mem (snd e) offl)) (s_edges s)).
  assert (Hd : match fwdn with
               | [] => Some (mv hD Xs)
               | _ => match run_fwd D2 P2 run2 pred2 g fedges (mv hD Xs) (mv hP ps) fwdn with
                      | Some tr => dist_states D2 tr (s_rel s)
                      | None => None
                      end
               end
               = omv (match fwdn with
                      | [] => Some Xs
                      | _ => match run_fwd D1 P1 run1 pred1 g fedges Xs ps fwdn with
                             | Some tr => dist_states D1 tr (s_rel s)
                             | None => None
                             end
                      end)).
  { destruct fwdn as [|a l]; [reflexivity|]. rewrite run_fwd_hom.
    destruct (run_fwd D1 P1 run1 pred1 g fedges Xs ps (a :: l)) as [tr|]; simpl; [apply dist_states_hom|reflexivity]. }
  rewrite Hd. clear Hd.
  destruct (match fwdn with
            | [] => Some Xs
            | _ => match run_fwd D1 P1 run1 pred1 g fedges Xs ps fwdn with
                   | Some tr => dist_states D1 tr (s_rel s)
                   | None => None
                   end
            end) as [dm|]; simpl; [|reflexivity].
  rewrite fit_nodes_hom. destruct (fit_nodes D1 P1 fit1 Y0 dm offl) as [newp|]; simpl; [|reflexivity].
  rewrite !mv_app. reflexivity.
Qed.

Theorem fit_with_staging_hom stg :
  fit_with_staging D2 P2 run2 fit2 pred2 g (mv hD X0) (mv hD Y0) stg
  = option_map (mv hP) (fit_with_staging D1 P1 run1 fit1 pred1 g X0 Y0 stg).
Proof.
  unfold fit_with_staging.
  change (Some (mv hD X0, @nil (nat * P2), @nil nat)) with (option_map hst (Some (X0, @nil (nat * P1), @nil nat))).
  rewrite (fold_left_hom (option_map hst) (run_stage D1 P1 run1 fit1 pred1 g Y0) (run_stage D2 P2 run2 fit2 pred2 g (mv hD Y0))).
  - destruct (fold_left (run_stage D1 P1 run1 fit1 pred1 g Y0) stg (Some (X0, [], []))) as [[[Xs ps] tr]|]; reflexivity.
  - intros a x. apply run_stage_hom.
Qed.

Lemma sources_hom tr v : sources D2 g (mv hD X0) (mv hD tr) v = map hD (sources D1 g X0 tr v).
Proof.
  unfold sources. rewrite map_app, opt_list_map, lookup_mv. f_equal.
  induction (parents g v) as [|p ps IH]; simpl; [reflexivity|].
  rewrite map_app, IH, lookup_mv, opt_list_map. reflexivity.
Qed.

Definition hex (acc : list (nat * D1) * list (nat * P1)) : list (nat * D2) * list (nat * P2) :=
  (mv hD (fst acc), mv hP (snd acc)).

Lemma explicit_step_hom acc v :
  explicit_step D2 P2 run2 fit2 pred2 g (mv hD X0) (mv hD Y0) (hex acc) v
  = hex (explicit_step D1 P1 run1 fit1 pred1 g X0 Y0 acc v).
Proof.
  destruct acc as [tr ps]. unfold hex, explicit_step. simpl fst. simpl snd.
  rewrite sources_hom, lookup_mv. destruct (offline g v).
  - destruct (lookup Y0 v) as [y|]; simpl; [|reflexivity]. rewrite h_pred, h_fit. reflexivity.
  - simpl. rewrite h_run. reflexivity.
Qed.

Theorem explicit_fit_hom :
  explicit_fit D2 P2 run2 fit2 pred2 g (mv hD X0) (mv hD Y0) = mv hP (explicit_fit D1 P1 run1 fit1 pred1 g X0 Y0).
Proof.
  unfold explicit_fit. change (@nil (nat * D2), @nil (nat * P2)) with (hex ([], [])).
  rewrite (fold_left_hom hex (explicit_step D1 P1 run1 fit1 pred1 g X0 Y0)
                         (explicit_step D2 P2 run2 fit2 pred2 g (mv hD X0) (mv hD Y0))).
  - reflexivity.
  - intros a x. apply explicit_step_hom.
Qed.
End Hom.

(* ------------------------------------------------------------------------------------------------ interpretation *)
Section Interp.
Variables D P : Type.
Variable a_run : nat -> list D -> D.
Variable a_fit : nat -> list D -> D -> P.
Variable a_pred : nat -> P -> list D -> D.
Variable d0 : D.                                 (* any dataset: only used for symbols that name no data *)
Variables X0 Y0 : list (nat * D).

Definition getd (m : list (nat * D)) (v : nat) : D := match lookup m v with Some d => d | None => d0 end.
Definition p0 : P := a_fit 0 [] d0.

Fixpoint iD (t : tm) : D :=
  match t with
  | TLeaf k v => match k with 0 => getd X0 v | _ => getd Y0 v end
  | TNode k v l =>
      match k with
      | 0 => a_run v (map iD l)
      | _ => match l with
             | p :: l' => a_pred v (match p with
                                    | TNode _ v' (y :: l'') => a_fit v' (map iD l'') (iD y)
                                    | _ => p0
                                    end) (map iD l')
             | [] => d0
             end
      end
  end.
Definition iP (p : tm) : P :=
  match p with
  | TNode _ v' (y :: l'') => a_fit v' (map iD l'') (iD y)
  | _ => p0
  end.

Lemma i_run v l : iD (s_run v l) = a_run v (map iD l).
Proof. reflexivity. Qed.
Lemma i_fit v l y : iP (s_fit v l y) = a_fit v (map iD l) (iD y).
Proof. reflexivity. Qed.
Lemma i_pred v p l : iD (s_pred v p l) = a_pred v (iP p) (map iD l).
Proof. reflexivity. Qed.

Lemma lookup_in_nodup {A} (m : list (nat * A)) : NoDup (map fst m) -> forall p, In p m -> lookup m (fst p) = Some (snd p).
Proof.
  unfold lookup. induction m as [|[k a] m IH]; intros Hnd p Hin; [destruct Hin|].
  simpl in Hnd. inversion Hnd as [|? ? Hnot Hnd']; subst. destruct Hin as [<-|Hin]; simpl.
  - rewrite Nat.eqb_refl. reflexivity.
  - destruct (k =? fst p) eqn:E.
    + apply Nat.eqb_eq in E. subst. exfalso. apply Hnot. apply in_map. exact Hin.
    + apply IH; assumption.
Qed.

Lemma mv_sym (leaf : nat -> tm) (m : list (nat * D)) :
  NoDup (map fst m) -> (forall v, iD (leaf v) = getd m v) ->
  mv iD (map (fun n => (n, leaf n)) (map fst m)) = m.
Proof.
  intros Hnd Hleaf. unfold mv. rewrite !map_map. simpl.
  rewrite <- (map_id m) at 2. apply map_ext_in. intros [k a] Hin. simpl. rewrite Hleaf. unfold getd.
  pose proof (lookup_in_nodup m Hnd (k, a) Hin) as E. simpl in E. rewrite E. reflexivity.
Qed.

(* THE theorem: validity decided on symbols transfers to every algebra and every dataset *)
Theorem fit_valid_staging (g : graph) (stg : list stage) :
  NoDup (map fst X0) -> NoDup (map fst Y0) ->
  valid_stagingb g (map fst X0) (map fst Y0) stg = true ->
  exists ps, fit_with_staging D P a_run a_fit a_pred g X0 Y0 stg = Some ps /\
             forall v, In v (g_nodes g) -> offline g v = true ->
                       exists p, lookup ps v = Some p /\ lookup (explicit_fit D P a_run a_fit a_pred g X0 Y0) v = Some p.
Proof.
  intros HX HY Hv. unfold valid_stagingb in Hv.
  pose proof (fit_with_staging_hom tm tm D P s_run s_fit s_pred a_run a_fit a_pred iD iP i_run i_fit i_pred g
                                   (sym_X (map fst X0)) (sym_Y (map fst Y0)) stg) as Hf.
  pose proof (explicit_fit_hom tm tm D P s_run s_fit s_pred a_run a_fit a_pred iD iP i_run i_fit i_pred g
                               (sym_X (map fst X0)) (sym_Y (map fst Y0))) as He.
  unfold sym_X, sym_Y in Hf, He.
  rewrite (mv_sym TExt X0 HX (fun v => eq_refl)), (mv_sym TTgt Y0 HY (fun v => eq_refl)) in Hf, He.
  fold (sym_X (map fst X0)) (sym_Y (map fst Y0)) in Hf, He.
  destruct (fit_with_staging tm tm s_run s_fit s_pred g (sym_X (map fst X0)) (sym_Y (map fst Y0)) stg) as [pss|]; [|discriminate].
  simpl in Hf. exists (mv iP pss). split; [exact Hf|].
  intros v Hin Hoff. rewrite forallb_forall in Hv. specialize (Hv v Hin). rewrite Hoff in Hv. simpl in Hv.
  apply otm_eqb_eq in Hv as [t [H1 H2]]. exists (iP t). rewrite He, !lookup_mv, H1, H2. split; reflexivity.
Qed.
End Interp.
