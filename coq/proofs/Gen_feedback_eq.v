(* Tie (T) of C05: the functions GENERATED from the current source of Node.state_proxy / set_state_proxy / with_feedback
   (reservoirpy/node.py), Model._load_proxys / _clean_proxys / with_feedback (reservoirpy/model.py) and DistantFeedback.clamp /
   call_distant_node (reservoirpy/_base.py) -- coq/gen/Gen_feedback.v, vocabulary base/CtxPrelude.v + base/FbPrelude.v -- against the
   low-level hand models model/ProxySem.v and model/SubSender.v that the mechanism theorems of C05 are stated about.

   Part 1 (heap level, no hand model): what each generated function does to the heap of node objects, for every heap; the generated
   Node.with_feedback is [with_cm] of an explicit (enter, exit) pair for EVERY body of the `with` statement and both of its outcomes.
   Part 2: through [labs] (forget `_is_initialized`, `_output_dim`, `_fb_flag`, a stale `_clamped_value`) these are state_proxy /
   load_proxys / clean_proxys / fb_read / fb_enter / fb_exit / with_feedback_ll of ProxySem, and the low-level timing theorem
   (fb_read_frozen = C05_lowlevel_read_frozen) holds of the generated call_distant_node.
   Part 3: with a Model as sender the generated call_distant_node is SubSender.cdn (flag test, reduced sender).
   Hypotheses, stated where used: the nodes are initialised and their `_state` is an array (a model after initialize()); the arrays
   handed to check_one_sequence / check_n_sequences are accepted (their rejections are C12's subject; a rejected value leaves the heap
   unchanged: [gen_set_state_proxy], [gen_clamp]). *)
From Coq Require Import List Arith Bool Lia.
From RV Require Import base.Num base.LA base.CtxPrelude base.FbPrelude gen.Gen_feedback
                       model.ModelSem model.ProxySem model.SubSender proofs.ModelSem_proofs proofs.Refine_proofs.
Import ListNotations.

(* ================================================================================================== Part 1: heap level *)
Section HeapLevel.
Context {F : Type} `{Num F} {P ID IX : Type}.
Notation vec := (list F).
Notation hp := (@heap F (@fbx F P)).
Notation obj := (@obj F (@fbx F P)).
Variable check_ok : option nat -> list F -> bool.
Variable check_n_ok : nat -> list F -> bool.
Variable has_fb : nat -> bool.
Variable fb_kind : nat -> dfb_kind.
Variable zero_feedback : nat -> M hp (option (list F)).
Variable distant_model_inputs : smodel -> M hp ID.
Variable idata_item : ID -> nat -> IX.
Variable reduced_model_call : smodel -> ID -> M hp (@fbval F).
Variable reduced_node_call : smodel -> IX -> M hp (@fbval F).

Notation g_state := (@GenFb.Node_state F P).
Notation g_state_proxy := (@GenFb.Node_state_proxy F P).
Notation g_set_state_proxy := (@GenFb.Node_set_state_proxy F P check_ok).
Notation g_load := (@GenFb.Model_load_proxys F P).
Notation g_clean := (@GenFb.Model_clean_proxys F P).
Notation g_clamp := (@GenFb.DistantFeedback_clamp F P check_n_ok).
Notation g_cdn := (@GenFb.DistantFeedback_call_distant_node F P ID IX fb_kind distant_model_inputs idata_item reduced_model_call reduced_node_call).
Notation g_with_feedback := (GenFb.Node_with_feedback check_ok check_n_ok has_fb zero_feedback).
Notation g_mwith_feedback := (GenFb.Model_with_feedback check_ok check_n_ok has_fb fb_kind zero_feedback).

Lemma fhupd_same (h : hp) n o : hupd h n o n = o.
Proof. unfold hupd. rewrite Nat.eqb_refl. reflexivity. Qed.
Lemma fhupd_other (h : hp) n o k : k <> n -> hupd h n o k = h k.
Proof. intros Hk. unfold hupd. destruct (Nat.eqb_spec k n); [contradiction|reflexivity]. Qed.

Definition with_proxy_o (o : obj) (v : option vec) : obj := set_params o (set_proxy_x (a_params o) v).
Definition with_clamped_o (o : obj) (b : bool) : obj := set_params o (set_clamped_x (a_params o) b).
Definition with_clamp_o (o : obj) (v : vec) : obj :=
  set_params o (set_clamped_x (set_clamped_value_x (a_params o) (Some v)) true).

(* ------------------------------------------------------------------------------------------------ Node.state_proxy / set_state_proxy *)
(* `_state_proxy` when there is one, else the raw `_state` *)
Definition proxy_or_state (o : obj) : option vec := match a_state_proxy o with Some p => Some p | None => a_state o end.

Lemma gen_state_proxy (h : hp) n : g_state_proxy n h = (h, Ok (proxy_or_state (h n))).
Proof.
  unfold GenFb.Node_state_proxy, proxy_or_state, bind, rd, ret. destruct (a_state_proxy (h n)) eqn:E; cbn; rewrite ?E; reflexivity.
Qed.

Lemma gen_state (h : hp) n : g_state n h = (h, Ok (if a_is_initialized (h n) then a_state (h n) else None)).
Proof. unfold GenFb.Node_state, bind, rd, ret. destruct (a_is_initialized (h n)); reflexivity. Qed.

(* set_state_proxy(None) does nothing; set_state_proxy(v) freezes v when the node is initialised and check_one_sequence accepts v,
   else raises with NOTHING written *)
Lemma gen_set_state_proxy (h : hp) n value :
  g_set_state_proxy n value h =
    match value with
    | None => (h, Ok tt)
    | Some v => if a_is_initialized (h n)
                then if check_ok (a_output_dim (h n)) v then (hupd h n (with_proxy_o (h n) (Some v)), Ok tt) else (h, Exc CheckError)
                else (h, Exc RuntimeError)
    end.
Proof.
  unfold GenFb.Node_set_state_proxy. destruct value as [v|]; [|reflexivity].
  unfold bind, rd, ret, raise, py_check_one_sequence, wr_state_proxy, py_astype, with_proxy_o.
  destruct (a_is_initialized (h n)); [|reflexivity]. destruct (check_ok (a_output_dim (h n)) v); reflexivity.
Qed.

(* ------------------------------------------------------------------------------------------------ Model._load_proxys / _clean_proxys *)
Definition load_one (keep : bool) (h : hp) (n : nat) : hp :=
  match a_state_proxy (h n) with
  | Some _ => if keep then h else hupd h n (with_proxy_o (h n) (if a_is_initialized (h n) then a_state (h n) else None))
  | None => hupd h n (with_proxy_o (h n) (if a_is_initialized (h n) then a_state (h n) else None))
  end.

Lemma gen_load_proxys keep : forall nodes (h : hp), g_load nodes keep h = (fold_left (load_one keep) nodes h, Ok tt).
Proof.
  intros nodes h. unfold GenFb.Model_load_proxys. unfold bind at 1.
  assert (E : forall nodes (h : hp),
    py_for nodes (fun node => bind (rd a_state_proxy node) (fun t1 =>
      if andb keep (negb (match t1 with None => true | Some _ => false end)) then ret tt
      else bind (g_state node) (fun t2 => bind (wr_state_proxy node t2) (fun _ => ret tt)))) h
    = (fold_left (load_one keep) nodes h, Ok tt)).
  { induction nodes0 as [|n rest IH]; intros h0; [reflexivity|]. cbn [py_for fold_left]. unfold bind at 1.
    assert (Hs : bind (rd a_state_proxy n) (fun t1 =>
      if andb keep (negb (match t1 with None => true | Some _ => false end)) then ret tt
      else bind (g_state n) (fun t2 => bind (wr_state_proxy n t2) (fun _ => ret tt))) h0 = (load_one keep h0 n, Ok tt)).
    { unfold load_one. unfold bind at 1. unfold rd at 1. destruct (a_state_proxy (h0 n)) as [p|] eqn:Ep; destruct keep; cbn [andb negb];
        try reflexivity; unfold bind at 1; rewrite gen_state; reflexivity. }
    rewrite Hs. apply IH. }
  rewrite E. reflexivity.
Qed.

Lemma gen_clean_proxys : forall nodes (h : hp),
  g_clean nodes h = (fold_left (fun acc n => hupd acc n (with_proxy_o (acc n) None)) nodes h, Ok tt).
Proof.
  intros nodes h. unfold GenFb.Model_clean_proxys. unfold bind at 1.
  assert (E : forall nodes (h : hp), py_for nodes (fun node => bind (wr_state_proxy node None) (fun _ => ret tt)) h
              = (fold_left (fun acc n => hupd acc n (with_proxy_o (acc n) None)) nodes h, Ok tt)).
  { induction nodes0 as [|n rest IH]; intros h0; [reflexivity|]. cbn [py_for fold_left]. unfold bind at 1. cbn. apply IH. }
  rewrite E. reflexivity.
Qed.

(* ------------------------------------------------------------------------------------------------ DistantFeedback.clamp / call_distant_node *)
(* clamp(v): value stored and flag raised when check_n_sequences accepts v; else the check's exception and nothing written.
   (Two writes to the same object: stated through [clamp_heap], point-wise [clamp_heap_pt] -- no functional extensionality.) *)
Definition clamp_heap (h : hp) (n : nat) (v : vec) : hp :=
  let h1 := hupd h n (set_params (h n) (set_clamped_value_x (a_params (h n)) (Some v))) in
  hupd h1 n (set_params (h1 n) (set_clamped_x (a_params (h1 n)) true)).
Lemma clamp_heap_pt (h : hp) n v k : clamp_heap h n v k = if Nat.eqb k n then with_clamp_o (h n) v else h k.
Proof.
  unfold clamp_heap. cbv zeta. destruct (Nat.eqb_spec k n) as [->|Hk].
  - rewrite !fhupd_same. reflexivity.
  - rewrite !fhupd_other by assumption. reflexivity.
Qed.
Lemma gen_clamp (h : hp) n v :
  g_clamp n v h = if check_n_ok n v then (clamp_heap h n v, Ok tt) else (h, Exc CheckError).
Proof.
  unfold GenFb.DistantFeedback_clamp, bind, py_check_n_sequences. destruct (check_n_ok n v); reflexivity.
Qed.

(* a pending clamp is handed out ONCE: the read lowers the flag (the value stays behind, unreachable) *)
Lemma gen_cdn_clamped (h : hp) n :
  a_clamped (h n) = true ->
  g_cdn n h = (hupd h n (with_clamped_o (h n) false), Ok (FbArr (a_clamped_value (h n)))).
Proof.
  intros Hc. unfold GenFb.DistantFeedback_call_distant_node. unfold bind at 1. unfold rd at 1. rewrite Hc.
  unfold bind, wr_clamped, rd, ret, with_clamped_o. rewrite fhupd_same. reflexivity.
Qed.

(* no clamp, the sender is a Node: its state_proxy(); nothing is written *)
Lemma gen_cdn_node (h : hp) n s :
  a_clamped (h n) = false -> fb_kind n = DNode s ->
  g_cdn n h = (h, Ok (FbArr (proxy_or_state (h s)))).
Proof.
  intros Hc Hk. unfold GenFb.DistantFeedback_call_distant_node. unfold bind at 1. unfold rd at 1. rewrite Hc, Hk.
  unfold bind at 1. rewrite gen_state_proxy. reflexivity.
Qed.

(* the flags of the sender's nodes, and the test `len(np.unique(flags)) > 1` *)
Lemma gen_flags : forall nodes (h : hp),
  py_map nodes (fun n => bind (rd a_fb_flag n) (fun t => ret t)) h = (h, Ok (map (fun n => a_fb_flag (h n)) nodes)).
Proof. induction nodes as [|n rest IH]; intros h; [reflexivity|]. cbn [py_map map]. unfold bind at 1. cbn. unfold bind at 1. rewrite IH. reflexivity. Qed.
Lemma gen_proxies : forall nodes (h : hp),
  py_map nodes (fun n => bind (g_state_proxy n) (fun t => ret t)) h = (h, Ok (map (fun n => proxy_or_state (h n)) nodes)).
Proof.
  induction nodes as [|n rest IH]; intros h; [reflexivity|]. cbn [py_map map]. unfold bind at 1. unfold bind at 1. rewrite gen_state_proxy.
  unfold ret at 1. unfold bind at 1. rewrite IH. reflexivity.
Qed.
Definition flags_differ (l : list bool) : bool := Nat.ltb 1 (length (np_unique_bool l)).
Lemma flags_differ_spec (l : list bool) : flags_differ l = andb (existsb negb l) (existsb (fun b => b) l).
Proof. unfold flags_differ, np_unique_bool. destruct (existsb negb l), (existsb (fun b => b) l); reflexivity. Qed.

(* no clamp, the sender is a Model *)
Definition outputs_value (l : list (option vec)) : outcome (@fbval F) :=
  if Nat.ltb 1 (length l) then Ok (FbList l) else match l with x :: _ => Ok (FbArr x) | [] => Exc ForwardError end.
Lemma gen_cdn_model (h : hp) n sm :
  a_clamped (h n) = false -> fb_kind n = DModel sm ->
  g_cdn n h =
    if flags_differ (map (fun k => a_fb_flag (h k)) (sm_nodes sm))
    then bind (distant_model_inputs sm) (fun input_data =>
           if sm_red_is_model sm then reduced_model_call sm input_data
           else reduced_node_call sm (idata_item input_data (sm_red_name sm))) h
    else (h, outputs_value (map (fun k => proxy_or_state (h k)) (sm_outputs sm))).
Proof.
  intros Hc Hk. unfold GenFb.DistantFeedback_call_distant_node. unfold bind at 1. unfold rd at 1. rewrite Hc, Hk.
  unfold bind at 1. rewrite gen_flags. fold (flags_differ (map (fun k => a_fb_flag (h k)) (sm_nodes sm))).
  destruct (flags_differ _).
  - unfold bind at 1. unfold bind at 3. destruct (distant_model_inputs sm h) as [h1 [d|e]]; [|reflexivity].
    destruct (sm_red_is_model sm); unfold bind, ret.
    + destruct (reduced_model_call sm d h1) as [h2 [v|e]]; reflexivity.
    + destruct (reduced_node_call sm _ h1) as [h2 [v|e]]; reflexivity.
  - unfold bind at 1. rewrite gen_proxies. unfold outputs_value.
    destruct (Nat.ltb 1 (length _)); [reflexivity|]. destruct (map _ (sm_outputs sm)); reflexivity.
Qed.

(* ------------------------------------------------------------------------------------------------ Node.with_feedback as an (enter, exit) pair *)
(* the value a non-receiver freezes on entry: the given one | zero when reset | the proxy it already holds *)
Definition wf_value (o : obj) (feedback : option vec) (reset : bool) : option vec :=
  match feedback with
  | Some v => Some v
  | None => if reset then match a_output_dim o with Some k => Some (vzeros k) | None => None end else a_state_proxy o
  end.
(* enter: the code before the yield; hands `current_state_proxy` to the exit (a receiver hands nothing on) *)
Definition wf_enter (n : nat) (feedback : option vec) (reset : bool) : M hp (option vec) :=
  if has_fb n
  then bind (if reset then zero_feedback n else ret feedback) (fun fbv =>
       match fbv with Some v => bind (g_clamp n v) (fun _ => ret None) | None => ret None end)
  else fun h => let cur := a_state_proxy (h n) in
                match g_set_state_proxy n (wf_value (h n) feedback reset) h with
                | (h1, Ok _) => (h1, Ok cur)
                | (h1, Exc e) => (h1, Exc e)
                end.
(* exit, the `finally` clause: a receiver's clamp flag is lowered whatever happened; another node gets its proxy back unless stateful *)
Definition wf_exit (n : nat) (stateful : bool) (saved : option vec) : M hp unit :=
  fun h => if has_fb n then (hupd h n (with_clamped_o (h n) false), Ok tt)
           else if stateful then (h, Ok tt) else (hupd h n (with_proxy_o (h n) saved), Ok tt).

Lemma gen_zero_state (h : hp) n :
  @GenFb.Node_zero_state F _ P n h = (h, Ok (match a_output_dim (h n) with Some k => Some (vzeros k) | None => None end)).
Proof. unfold GenFb.Node_zero_state, bind, rd, ret, raise, np_zeros_row. destruct (a_output_dim (h n)) eqn:E; cbn; rewrite ?E; reflexivity. Qed.

Lemma wf_tail_rcv {A : Type} n (body : M hp A) (h0 : hp) :
  has_fb n = true ->
  bind (try_finally body (bind (wr_clamped n false) (fun _ => ret tt))) (fun r => ret r) h0 = try_finally body (wf_exit n false None) h0.
Proof.
  intros Hf. unfold bind, try_finally, ret, wr_clamped, wf_exit. rewrite Hf. destruct (body h0) as [h1 r]. destruct r; reflexivity.
Qed.
Lemma wf_exit_rcv n sf1 sf2 s1 s2 : has_fb n = true -> wf_exit n sf1 s1 = wf_exit n sf2 s2.
Proof. intros Hf. unfold wf_exit. rewrite Hf. reflexivity. Qed.
Lemma wf_tail_snd {A : Type} n stateful cur (body : M hp A) (h0 : hp) :
  has_fb n = false ->
  bind (try_finally body (if negb stateful then bind (wr_state_proxy n cur) (fun _ => ret tt) else ret tt)) (fun r => ret r) h0
  = try_finally body (wf_exit n stateful cur) h0.
Proof.
  intros Hf. unfold bind, try_finally, ret, wr_state_proxy, wf_exit. rewrite Hf. destruct (body h0) as [h1 r].
  destruct stateful; cbn; destruct r; reflexivity.
Qed.

Theorem gen_with_feedback_is_cm {A : Type} n feedback stateful reset (body : M hp A) (h : hp) :
  g_with_feedback n feedback stateful reset body h = with_cm (wf_enter n feedback reset) (wf_exit n stateful) body h.
Proof.
  unfold GenFb.Node_with_feedback, with_cm, wf_enter. destruct (has_fb n) eqn:Hf.
  - unfold bind, ret, try_finally, wf_exit, wr_clamped. rewrite Hf.
    destruct reset; [destruct (zero_feedback n h) as [h1 [[v|]|e]]|destruct feedback as [v|]]; try reflexivity.
    + destruct (g_clamp n v h1) as [h2 [u|e]]; [|reflexivity]. destruct (body h2) as [h3 [a|e]]; reflexivity.
    + destruct (body h1) as [h3 [a|e]]; reflexivity.
    + destruct (g_clamp n v h) as [h2 [u|e]]; [|reflexivity]. destruct (body h2) as [h3 [a|e]]; reflexivity.
    + destruct (body h) as [h3 [a|e]]; reflexivity.
  - unfold wf_value. unfold bind, ret, rd, try_finally, wf_exit, wr_state_proxy. rewrite Hf.
    destruct feedback as [v|]; [|destruct reset].
    + destruct (g_set_state_proxy n (Some v) h) as [h1 [u|e]]; [|reflexivity].
      destruct (body h1) as [h3 [a|e]]; destruct stateful; reflexivity.
    + rewrite gen_zero_state. destruct (g_set_state_proxy n _ h) as [h1 [u|e]]; [|reflexivity].
      destruct (body h1) as [h3 [a|e]]; destruct stateful; reflexivity.
    + destruct (g_set_state_proxy n (a_state_proxy (h n)) h) as [h1 [u|e]]; [|reflexivity].
      destruct (body h1) as [h3 [a|e]]; destruct stateful; reflexivity.
Qed.

(* stateful=False on a node that is not a receiver: `_state_proxy` after the `with` block is `_state_proxy` before it -- for every body,
   whether it returned or raised, whatever value was given and whether set_state_proxy accepted it *)
Theorem gen_with_feedback_restores_proxy {A : Type} n feedback reset (body : M hp A) (h h' : hp) r :
  has_fb n = false -> g_with_feedback n feedback false reset body h = (h', r) -> a_state_proxy (h' n) = a_state_proxy (h n).
Proof.
  intros Hf. rewrite gen_with_feedback_is_cm. unfold with_cm, wf_enter. rewrite Hf. unfold bind.
  rewrite gen_set_state_proxy. set (v := wf_value (h n) feedback reset).
  assert (Hx : forall h1 : hp, try_finally body (wf_exit n false (a_state_proxy (h n))) h1 = (h', r) -> a_state_proxy (h' n) = a_state_proxy (h n)).
  { intros h1. unfold try_finally, wf_exit. rewrite Hf. destruct (body h1) as [h2 r2]. intros E. inversion E; subst.
    rewrite fhupd_same. reflexivity. }
  destruct v as [v|].
  - destruct (a_is_initialized (h n)); [destruct (check_ok (a_output_dim (h n)) v)|].
    + apply Hx.
    + intros E. inversion E; subst. reflexivity.
    + intros E. inversion E; subst. reflexivity.
  - apply Hx.
Qed.
(* a receiver is NEVER left clamped: the flag is down after the `with` block, for every body and both outcomes, once the clamp was accepted *)
Theorem gen_with_feedback_unclamps {A : Type} n v stateful (body : M hp A) (h h' : hp) r :
  has_fb n = true -> check_n_ok n v = true ->
  g_with_feedback n (Some v) stateful false body h = (h', r) -> a_clamped (h' n) = false.
Proof.
  intros Hf Hc. rewrite gen_with_feedback_is_cm. unfold with_cm, wf_enter. rewrite Hf. unfold bind. unfold ret at 1.
  rewrite gen_clamp, Hc. unfold ret. unfold try_finally, wf_exit. rewrite Hf. destruct (body _) as [h2 r2].
  intros E. inversion E; subst. rewrite fhupd_same. reflexivity.
Qed.

End HeapLevel.

(* ================================================================================================== Part 2: against model/ProxySem.v *)
Section ModelLevel.
Context {F : Type} `{Num F} {ID IX : Type}.
Notation vec := (list F).
Notation hp := (@heap F (@fbx F (@hidden F))).
Notation obj := (@obj F (@fbx F (@hidden F))).
Notation lenv := (@lenv F).
Notation lnode := (@lnode F).
Notation ndesc := (@ndesc F).
Notation model := (@model F).
Variable check_ok : option nat -> list F -> bool.
Variable check_n_ok : nat -> list F -> bool.
Variable has_fb : nat -> bool.
Variable fb_kind : nat -> dfb_kind.
Variable zero_feedback : nat -> M hp (option (list F)).
Variable distant_model_inputs : smodel -> M hp ID.
Variable idata_item : ID -> nat -> IX.
Variable reduced_model_call : smodel -> ID -> M hp (@fbval F).
Variable reduced_node_call : smodel -> IX -> M hp (@fbval F).

Notation g_load := (@GenFb.Model_load_proxys F (@hidden F)).
Notation g_clean := (@GenFb.Model_clean_proxys F (@hidden F)).
Notation g_cdn := (@GenFb.DistantFeedback_call_distant_node F (@hidden F) ID IX fb_kind distant_model_inputs idata_item reduced_model_call reduced_node_call).
Notation g_with_feedback := (GenFb.Node_with_feedback check_ok check_n_ok has_fb zero_feedback).
Notation g_mwith_feedback := (GenFb.Model_with_feedback check_ok check_n_ok has_fb fb_kind zero_feedback).

(* the ProxySem environment a heap of node objects stands for: `_state`, the params, `_state_proxy`, and the clamp as ProxySem sees it
   (the value while the flag is up); `_is_initialized`, `_output_dim`, `_fb_flag` and a stale `_clamped_value` are forgotten *)
Definition ov (o : option vec) : vec := match o with Some v => v | None => [] end.
Definition lnode_of (o : obj) : lnode :=
  mkLN (ov (a_state o)) (x_rest (a_params o)) (a_state_proxy o) (if a_clamped o then a_clamped_value o else None).
Definition labs (h : hp) : lenv := fun n => lnode_of (h n).
(* point-wise, so that no functional extensionality is needed *)
Definition rel (h : hp) (e : lenv) : Prop := forall k, labs h k = e k.
(* the node object of an initialised node; a raised clamp flag has a value *)
Definition node_ok (o : obj) : Prop := a_is_initialized o = true /\ exists v, a_state o = Some v.
Definition clamp_wf (o : obj) : Prop := a_clamped o = true -> exists v, a_clamped_value o = Some v.
(* the flattened feedback value (ProxySem concatenates the arrays of a list) *)
Definition fbv_flat (v : @fbval F) : vec := match v with FbArr o => ov o | FbList l => concat (map ov l) end.
Definition is_ok {A : Type} (r : outcome A) : bool := match r with Ok _ => true | Exc _ => false end.

Lemma rel_labs (h : hp) : rel h (labs h).
Proof. intros k. reflexivity. Qed.
Lemma labs_hupd (h : hp) n o k : labs (hupd h n o) k = if Nat.eqb k n then lnode_of o else labs h k.
Proof. unfold labs, hupd. destruct (Nat.eqb k n); reflexivity. Qed.
Lemma lnode_of_with_proxy (o : obj) v : lnode_of (with_proxy_o o v) = with_proxy (lnode_of o) v.
Proof. destruct o as [s i d f [p c cv r]]. reflexivity. Qed.
Lemma lnode_of_with_clamped_false (o : obj) : lnode_of (with_clamped_o o false) = with_clamp (lnode_of o) None.
Proof. destruct o as [s i d f [p c cv r]]. reflexivity. Qed.
Lemma lnode_of_with_clamp (o : obj) v : lnode_of (with_clamp_o o v) = with_clamp (lnode_of o) (Some v).
Proof. destruct o as [s i d f [p c cv r]]. reflexivity. Qed.
Lemma rel_hupd (h : hp) (e : lenv) n o x : rel h e -> lnode_of o = x -> rel (hupd h n o) (lupd e n x).
Proof. intros Hr Ho k. rewrite labs_hupd. unfold lupd. destruct (Nat.eqb k n); [assumption|apply Hr]. Qed.

(* ------------------------------------------------------------------------------------------------ state_proxy *)
Theorem gen_state_proxy_is_model (h : hp) n :
  @GenFb.Node_state_proxy F (@hidden F) n h = (h, Ok (proxy_or_state (h n))) /\ ov (proxy_or_state (h n)) = state_proxy (labs h) n.
Proof.
  split; [apply gen_state_proxy|]. unfold proxy_or_state, state_proxy, labs, lnode_of. cbn. destruct (a_state_proxy (h n)); reflexivity.
Qed.

(* ------------------------------------------------------------------------------------------------ _load_proxys / _clean_proxys *)
Definition tload (keep : bool) (x : lnode) : lnode :=
  match proxy x with Some _ => if keep then x else with_proxy x (Some (lst x)) | None => with_proxy x (Some (lst x)) end.

Lemma load_one_sim keep (h : hp) (e : lenv) n : rel h e -> node_ok (h n) -> rel (load_one keep h n) (lupd e n (tload keep (e n))).
Proof.
  intros Hr [Hi [v Hv]]. unfold load_one. rewrite Hi, Hv.
  assert (Hp : proxy (e n) = a_state_proxy (h n)) by (rewrite <- (Hr n); reflexivity).
  assert (Hl : lst (e n) = v) by (rewrite <- (Hr n); unfold labs, lnode_of; cbn; rewrite Hv; reflexivity).
  unfold tload. rewrite Hp, Hl.
  destruct (a_state_proxy (h n)) as [p|]; [destruct keep|].
  - intros k. unfold lupd. destruct (Nat.eqb_spec k n) as [->|_]; apply Hr.
  - apply rel_hupd; [assumption|]. rewrite lnode_of_with_proxy. rewrite <- (Hr n). reflexivity.
  - apply rel_hupd; [assumption|]. rewrite lnode_of_with_proxy. rewrite <- (Hr n). reflexivity.
Qed.
Lemma with_proxy_o_ok (o : obj) v : node_ok o -> node_ok (with_proxy_o o v).
Proof. destruct o as [s i d f x]. exact (fun Hk => Hk). Qed.
Lemma load_one_ok keep (h : hp) n k : node_ok (h k) -> node_ok (load_one keep h n k).
Proof.
  intros Hk. unfold load_one.
  assert (Hu : forall v, node_ok (hupd h n (with_proxy_o (h n) v) k)).
  { intros v. unfold hupd. destruct (Nat.eqb_spec k n) as [->|_]; [apply with_proxy_o_ok|]; assumption. }
  destruct (a_state_proxy (h n)); [destruct keep|]; auto.
Qed.
Lemma load_fold_sim keep : forall ds (h : hp) (e : lenv), rel h e -> (forall d, In d ds -> node_ok (h (nid d))) ->
  rel (fold_left (load_one keep) (map nid ds) h) (map_nodes (fun _ => tload keep) ds e).
Proof.
  induction ds as [|a ds IH]; intros h e Hr Hok; [assumption|]. cbn [map fold_left]. unfold map_nodes. cbn [fold_left].
  apply IH.
  - apply load_one_sim; [assumption|]. apply Hok. left. reflexivity.
  - intros d Hd. apply load_one_ok. apply Hok. right. assumption.
Qed.

(* Model._load_proxys(keep) = ProxySem.load_proxys, for initialised nodes (state() of an uninitialised node is None: the generated code
   would then store None where ProxySem stores the state) *)
Theorem gen_load_proxys_is_model (m : model) keep (h : hp) (e : lenv) :
  rel h e -> (forall d, In d (order m) -> node_ok (h (nid d))) ->
  let '(h', r) := g_load (ids_of m) keep h in r = Ok tt /\ rel h' (load_proxys m keep e).
Proof.
  intros Hr Hok. rewrite gen_load_proxys. split; [reflexivity|]. exact (load_fold_sim keep (order m) h e Hr Hok).
Qed.

Lemma clean_fold_sim : forall ds (h : hp) (e : lenv), rel h e ->
  rel (fold_left (fun acc n => hupd acc n (with_proxy_o (acc n) None)) (map nid ds) h) (map_nodes (fun _ x => with_proxy x None) ds e).
Proof.
  induction ds as [|a ds IH]; intros h e Hr; [assumption|]. cbn [map fold_left]. unfold map_nodes. cbn [fold_left].
  apply IH. apply rel_hupd; [assumption|]. rewrite lnode_of_with_proxy. rewrite <- (Hr (nid a)). reflexivity.
Qed.
(* Model._clean_proxys = ProxySem.clean_proxys, no hypothesis *)
Theorem gen_clean_proxys_is_model (m : model) (h : hp) (e : lenv) :
  rel h e -> let '(h', r) := g_clean (ids_of m) h in r = Ok tt /\ rel h' (clean_proxys m e).
Proof. intros Hr. rewrite gen_clean_proxys. split; [reflexivity|]. exact (clean_fold_sim (order m) h e Hr). Qed.

(* ------------------------------------------------------------------------------------------------ call_distant_node = fb_read *)
(* the immutable part of the DistantFeedback of ProxySem's node d *)
Definition kind_ok (d : ndesc) : Prop :=
  match nfb d with
  | None => has_fb (nid d) = false
  | Some (FbNode s) => has_fb (nid d) = true /\ fb_kind (nid d) = DNode s
  | Some (FbModel outs) => has_fb (nid d) = true /\ exists sm, fb_kind (nid d) = DModel sm /\ sm_outputs sm = outs
  end.
(* ProxySem reads a sub-model sender in sync: all `_fb_flag`s of its nodes agree (SubSender.v: what happens otherwise, Part 3) *)
Definition in_sync_h (d : ndesc) (h : hp) : Prop :=
  forall sm, fb_kind (nid d) = DModel sm -> flags_differ (map (fun k => a_fb_flag (h k)) (sm_nodes sm)) = false /\ sm_outputs sm <> [].

Lemma proxies_flat (h : hp) : forall outs, concat (map ov (map (fun k => proxy_or_state (h k)) outs)) = concat (map (state_proxy (labs h)) outs).
Proof.
  induction outs as [|o outs IH]; [reflexivity|]. cbn [map concat]. rewrite IH. f_equal. apply (proj2 (gen_state_proxy_is_model h o)).
Qed.

Theorem gen_cdn_is_fb_read (d : ndesc) src (h : hp) (e : lenv) :
  rel h e -> nfb d = Some src -> kind_ok d -> clamp_wf (h (nid d)) -> in_sync_h d h ->
  let '(h', r) := g_cdn (nid d) h in
  let '(v, e') := fb_read d (labs h) in
  (exists fv, r = Ok fv /\ v = Some (fbv_flat fv)) /\ rel h' (snd (fb_read d e)) /\ fst (fb_read d e) = v.
Proof.
  intros Hr Hfb Hk Hw Hs. unfold kind_ok in Hk. rewrite Hfb in Hk. unfold fb_read. rewrite Hfb.
  assert (Hce : clamp (e (nid d)) = clamp (labs h (nid d))) by (rewrite (Hr (nid d)); reflexivity).
  assert (Hpe : forall k, state_proxy e k = state_proxy (labs h) k) by (intros k; unfold state_proxy; rewrite (Hr k); reflexivity).
  assert (Hcl : clamp (labs h (nid d)) = if a_clamped (h (nid d)) then a_clamped_value (h (nid d)) else None) by reflexivity.
  rewrite Hce, Hcl.
  destruct (a_clamped (h (nid d))) eqn:Hc.
  - destruct (Hw Hc) as [v Hv]. rewrite (gen_cdn_clamped fb_kind distant_model_inputs idata_item reduced_model_call reduced_node_call h (nid d) Hc).
    rewrite Hv. cbn [fst snd]. split; [exists (FbArr (Some v)); split; reflexivity|]. split; [|reflexivity].
    unfold set_clamp. apply rel_hupd; [assumption|]. rewrite lnode_of_with_clamped_false. rewrite <- (Hr (nid d)). reflexivity.
  - cbn [fst snd]. destruct src as [s|outs].
    + destruct Hk as [_ Hk]. rewrite (gen_cdn_node fb_kind distant_model_inputs idata_item reduced_model_call reduced_node_call h (nid d) s Hc Hk).
      split; [exists (FbArr (proxy_or_state (h s))); split; [reflexivity|]; cbn [fbv_flat]; rewrite (proj2 (gen_state_proxy_is_model h s)); reflexivity|].
      split; [assumption|]. rewrite Hpe. reflexivity.
    + destruct Hk as [_ (sm & Hk & Ho)]. destruct (Hs sm Hk) as [Hsync Hne].
      rewrite (gen_cdn_model fb_kind distant_model_inputs idata_item reduced_model_call reduced_node_call h (nid d) sm Hc Hk). rewrite Hsync.
      rewrite Ho in *. split; [|split; [assumption|rewrite (map_ext _ _ Hpe); reflexivity]].
      unfold outputs_value. destruct (Nat.ltb 1 (length _)) eqn:Hlen.
      * eexists. split; [reflexivity|]. cbn [fbv_flat]. rewrite proxies_flat. reflexivity.
      * destruct outs as [|o [|o2 outs]]; [contradiction| |cbn in Hlen; discriminate].
        eexists. split; [reflexivity|]. cbn [fbv_flat map concat]. rewrite app_nil_r.
        rewrite (proj2 (gen_state_proxy_is_model h o)). reflexivity.
Qed.

(* THE LOW-LEVEL TIMING THEOREM, of the translated code.  C05_lowlevel_read_frozen: a receiver called anywhere in a step -- after a prefix
   [pre] of the execution order has already run and possibly overwritten the sender's `_state` -- reads what the sender's proxy held when
   the step began.  Here: on ANY heap that stands for the environment ProxySem reaches at that point, the generated call_distant_node
   returns exactly that value and writes nothing. *)
Theorem gen_cdn_read_frozen (m : model) ext pre (d : ndesc) s (elin elmid : lenv) ok v (h : hp) :
  nfb d = Some (FbNode s) -> fb_kind (nid d) = DNode s -> clamp (elin (nid d)) = None ->
  (proxy (elin s) = Some v \/ (proxy (elin s) = None /\ lst (elin s) = v /\ ~ In s (map nid pre))) ->
  forward_from_ll m ext pre elin = (elmid, ok) ->
  rel h elmid -> clamp_wf (h (nid d)) ->
  exists o, g_cdn (nid d) h = (h, Ok (FbArr o)) /\ ov o = v.
Proof.
  intros Hfb Hk Hc Hs Hf Hr Hw.
  pose proof (fb_read_frozen m ext pre d s elin elmid ok v Hfb Hc Hs Hf) as Hfr.
  destruct (forward_from_ll_fields _ _ _ _ _ _ Hf) as (_ & C & _). specialize (C _ Hc).
  assert (Hcl : a_clamped (h (nid d)) = false).
  { rewrite <- (Hr (nid d)) in C. unfold labs, lnode_of in C. cbn [clamp] in C. destruct (a_clamped (h (nid d))) eqn:E; [|reflexivity].
    destruct (Hw E) as [x Hx]. rewrite Hx in C. discriminate. }
  exists (proxy_or_state (h s)). split.
  - apply (gen_cdn_node fb_kind distant_model_inputs idata_item reduced_model_call reduced_node_call h (nid d) s Hcl Hk).
  - unfold fb_read in Hfr. rewrite Hfb, C in Hfr. cbn [fst] in Hfr. inversion Hfr as [Hv].
    rewrite (proj2 (gen_state_proxy_is_model h s)). unfold state_proxy. rewrite (Hr s). reflexivity.
Qed.

(* ------------------------------------------------------------------------------------------------ with_feedback = with_feedback_ll *)
(* the value Model.with_feedback hands to node.with_feedback: under the node's own name, then -- for a receiver -- under its sender's *)
Definition value_of (forced : nat -> option vec) (n : nat) : option vec :=
  let value := forced n in
  let value := if andb (match value with None => true | Some _ => false end) (has_fb n) then forced (dfb_name (fb_kind n)) else value in
  value.
(* ... is ModelSem.forced_value; ProxySem has no name for a sub-model sender, so nothing may be forced under one *)
Definition fkind_ok (forced : nat -> option vec) (d : ndesc) : Prop :=
  kind_ok d /\ forall outs, nfb d = Some (FbModel outs) -> forced (dfb_name (fb_kind (nid d))) = None.
Lemma value_of_rcv forced d src : nfb d = Some src -> fkind_ok forced d -> has_fb (nid d) = true /\ value_of forced (nid d) = forced_value forced d.
Proof.
  intros Hfb [Hk Hm]. unfold kind_ok in Hk. rewrite Hfb in Hk. unfold value_of, forced_value. rewrite Hfb.
  destruct src as [s|outs].
  - destruct Hk as [Hf Hk]. split; [assumption|]. rewrite Hf, Hk. cbn [dfb_name]. destruct (forced (nid d)); reflexivity.
  - destruct Hk as [Hf _]. split; [assumption|]. rewrite Hf, (Hm outs Hfb). destruct (forced (nid d)); reflexivity.
Qed.
Lemma value_of_snd forced d : nfb d = None -> fkind_ok forced d -> has_fb (nid d) = false /\ value_of forced (nid d) = forced (nid d).
Proof.
  intros Hfb [Hk _]. unfold kind_ok in Hk. rewrite Hfb in Hk. split; [assumption|]. unfold value_of. rewrite Hk.
  destruct (forced (nid d)); reflexivity.
Qed.

(* what the entry of node d needs: the value clamped on a receiver is accepted by check_n_sequences; another node is initialised and the
   array it freezes (the forced one, else the proxy it already holds, which set_state_proxy re-checks) is accepted by check_one_sequence *)
Definition acc (forced : nat -> option vec) (h : hp) (d : ndesc) : Prop :=
  match nfb d with
  | Some _ => forall v, forced_value forced d = Some v -> check_n_ok (nid d) v = true
  | None => a_is_initialized (h (nid d)) = true /\
            (forall p, a_state_proxy (h (nid d)) = Some p -> check_ok (a_output_dim (h (nid d))) p = true) /\
            (forall v, forced (nid d) = Some v -> check_ok (a_output_dim (h (nid d))) v = true)
  end.
(* the part of the heap [acc] looks at changes only like this when a context is entered *)
Definition enter_frame (forced : nat -> option vec) (h h1 : hp) : Prop :=
  forall k, a_is_initialized (h1 k) = a_is_initialized (h k) /\ a_output_dim (h1 k) = a_output_dim (h k) /\
            (a_state_proxy (h1 k) = a_state_proxy (h k) \/ exists v, forced k = Some v /\ a_state_proxy (h1 k) = Some v).
Lemma acc_frame forced (h h1 : hp) d : enter_frame forced h h1 -> acc forced h d -> acc forced h1 d.
Proof.
  intros Hfr. unfold acc. destruct (nfb d); [exact (fun Hx => Hx)|]. intros (Hi & Hp & Hv).
  destruct (Hfr (nid d)) as (Ei & Ed & Ep). rewrite Ei, Ed. split; [assumption|]. split; [|assumption].
  intros p Hp1. destruct Ep as [Ep|(v & Hfv & Ep)].
  - apply Hp. rewrite <- Ep. assumption.
  - rewrite Ep in Hp1. inversion Hp1; subst. apply Hv. assumption.
Qed.

Lemma wf_enter_sim forced (d : ndesc) (h : hp) (e : lenv) :
  rel h e -> fkind_ok forced d -> acc forced h d ->
  exists h1 saved, wf_enter check_ok check_n_ok has_fb zero_feedback (nid d) (value_of forced (nid d)) false h = (h1, Ok saved) /\
    rel h1 (fb_enter forced e d) /\ enter_frame forced h h1 /\ (nfb d = None -> saved = proxy (e (nid d))).
Proof.
  intros Hr Hk Ha. unfold wf_enter, fb_enter, acc in *. destruct (nfb d) as [src|] eqn:Hfb.
  - destruct (value_of_rcv forced d src Hfb Hk) as [Hf Hv]. rewrite Hf, Hv. unfold bind at 1. unfold ret at 1.
    destruct (forced_value forced d) as [v|] eqn:Efv.
    + unfold bind. rewrite gen_clamp, (Ha v eq_refl). unfold ret. exists (clamp_heap h (nid d) v), None.
      split; [reflexivity|]. split; [|split; [|discriminate]].
      * intros k. unfold labs. rewrite clamp_heap_pt. unfold set_clamp, lupd. destruct (Nat.eqb k (nid d)); [|apply Hr].
        rewrite lnode_of_with_clamp. rewrite <- (Hr (nid d)). reflexivity.
      * intros k. rewrite clamp_heap_pt. destruct (Nat.eqb k (nid d)) eqn:Ek; [|auto].
        apply Nat.eqb_eq in Ek. subst k. destruct (h (nid d)) as [s i dd f [p c cv r]]. cbn. auto.
    + unfold ret. exists h, None. split; [reflexivity|]. split; [assumption|]. split; [intros k; auto|discriminate].
  - destruct (value_of_snd forced d Hfb Hk) as [Hf Hv]. rewrite Hf, Hv. destruct Ha as (Hi & Hp & Hfv).
    unfold wf_value. rewrite gen_set_state_proxy.
    assert (Hpe : proxy (e (nid d)) = a_state_proxy (h (nid d))) by (rewrite <- (Hr (nid d)); reflexivity).
    destruct (forced (nid d)) as [v|] eqn:Ef.
    + rewrite Hi, (Hfv v eq_refl). eexists _, _. split; [reflexivity|]. split; [|split; [|intros _; symmetry; exact Hpe]].
      * unfold set_proxy. apply rel_hupd; [assumption|]. rewrite lnode_of_with_proxy. rewrite <- (Hr (nid d)). reflexivity.
      * intros k. unfold hupd. destruct (Nat.eqb_spec k (nid d)) as [->|_]; [|auto].
        destruct (h (nid d)) as [s i dd f [p c cv r]]. cbn. split; [reflexivity|]. split; [reflexivity|]. right. exists v. auto.
    + destruct (a_state_proxy (h (nid d))) as [p|] eqn:Ep.
      * rewrite Hi, (Hp p eq_refl). eexists _, _. split; [reflexivity|]. split; [|split; [|intros _; symmetry; exact Hpe]].
        { intros k. rewrite labs_hupd. destruct (Nat.eqb_spec k (nid d)) as [->|_]; [|apply Hr].
          rewrite <- (Hr (nid d)). unfold labs. destruct (h (nid d)) as [s i dd f [p0 c cv r]]. cbn in Ep. subst p0. reflexivity. }
        { intros k. unfold hupd. destruct (Nat.eqb_spec k (nid d)) as [->|_]; [|auto].
          destruct (h (nid d)) as [s i dd f [p0 c cv r]]. cbn in *. subst p0. auto. }
      * eexists _, _. split; [reflexivity|]. split; [assumption|]. split; [intros k; auto|intros _; symmetry; exact Hpe].
Qed.

Lemma wf_exit_sim (d : ndesc) stateful saved (h : hp) (e : lenv) :
  rel h e -> kind_ok d -> (nfb d = None -> saved = proxy (e (nid d)) \/ True) ->
  exists h1, wf_exit has_fb (nid d) stateful saved h = (h1, Ok tt) /\ rel h1 (fb_exit stateful saved e d).
Proof.
  intros Hr Hk _. unfold wf_exit, fb_exit. unfold kind_ok in Hk. destruct (nfb d) as [src|].
  - assert (Hf : has_fb (nid d) = true) by (destruct src; tauto). rewrite Hf. eexists. split; [reflexivity|].
    unfold set_clamp. apply rel_hupd; [assumption|]. rewrite lnode_of_with_clamped_false. rewrite <- (Hr (nid d)). reflexivity.
  - rewrite Hk. destruct stateful; eexists; (split; [reflexivity|]); [assumption|].
    unfold set_proxy. apply rel_hupd; [assumption|]. rewrite lnode_of_with_proxy. rewrite <- (Hr (nid d)). reflexivity.
Qed.

(* a body of the `with` statement and a body of ProxySem's with_feedback_ll that do the same thing *)
Definition body_sim {A : Type} (body : M hp A) (bodyl : lenv -> lenv * bool) : Prop :=
  forall (h : hp) (e : lenv), rel h e -> let '(h', r) := body h in let '(e', ok) := bodyl e in rel h' e' /\ is_ok r = ok.

Lemma gen_exit_stack_is_model {A : Type} forced stateful (body : M hp A) bodyl : body_sim body bodyl ->
  forall ds (h : hp) (e : lenv), rel h e -> (forall d, In d ds -> fkind_ok forced d /\ acc forced h d) ->
  let '(h', r) := exit_stack (map (fun node => g_with_feedback node (value_of forced node) stateful false) (map nid ds)) body h in
  let '(e', ok) := with_feedback_ll forced stateful ds bodyl e in
  rel h' e' /\ is_ok r = ok.
Proof.
  intros Hb. induction ds as [|d ds IH]; intros h e Hr Hok.
  - cbn [map exit_stack with_feedback_ll]. apply Hb. assumption.
  - cbn [map exit_stack with_feedback_ll]. destruct (Hok d (or_introl eq_refl)) as [Hk Ha].
    rewrite gen_with_feedback_is_cm. unfold with_cm. unfold bind at 1.
    destruct (wf_enter_sim forced d h e Hr Hk Ha) as (h1 & saved & He & Hr1 & Hfr & Hsv). rewrite He. unfold try_finally.
    assert (Hok1 : forall d', In d' ds -> fkind_ok forced d' /\ acc forced h1 d').
    { intros d' Hd'. destruct (Hok d' (or_intror Hd')) as [Hk' Ha']. split; [assumption|]. apply (acc_frame forced h h1 d' Hfr Ha'). }
    specialize (IH h1 (fb_enter forced e d) Hr1 Hok1).
    destruct (exit_stack _ body h1) as [h2 r2]. destruct (with_feedback_ll forced stateful ds bodyl (fb_enter forced e d)) as [e2 ok2].
    destruct IH as [Hr2 Ho2].
    assert (Hx : exists h3, wf_exit has_fb (nid d) stateful saved h2 = (h3, Ok tt) /\ rel h3 (fb_exit stateful (proxy (e (nid d))) e2 d)).
    { destruct (nfb d) as [src|] eqn:Hfb.
      - destruct (wf_exit_sim d stateful saved h2 e2 Hr2 (proj1 Hk) (fun _ => or_intror I)) as (h3 & E3 & R3). exists h3. split; [assumption|].
        unfold fb_exit in *. rewrite Hfb in *. assumption.
      - rewrite (Hsv eq_refl). destruct (wf_exit_sim d stateful (proxy (e (nid d))) h2 e2 Hr2 (proj1 Hk) (fun _ => or_intror I)) as (h3 & E3 & R3).
        exists h3. split; assumption. }
    destruct Hx as (h3 & E3 & R3). rewrite E3. split; assumption.
Qed.

(* Model.with_feedback(mapping, stateful) = ProxySem.with_feedback_ll, for EVERY pair of corresponding bodies and both outcomes of the body:
   contexts entered in self.nodes order (receivers clamped, the others given a temporary proxy), left in reverse order also when the body
   raised, the clamp flag lowered and the proxy put back in the `finally` clauses *)
Theorem gen_model_with_feedback_is_model {A : Type} (m : model) forced stateful (body : M hp A) bodyl (h : hp) (e : lenv) :
  body_sim body bodyl -> rel h e -> (forall d, In d (order m) -> fkind_ok forced d /\ acc forced h d) ->
  let '(h', r) := g_mwith_feedback (ids_of m) (Some forced) stateful false body h in
  let '(e', ok) := with_feedback_ll forced stateful (order m) bodyl e in
  rel h' e' /\ is_ok r = ok.
Proof.
  intros Hb Hr Hok. unfold GenFb.Model_with_feedback. cbn [andb negb].
  pose proof (gen_exit_stack_is_model forced stateful body bodyl Hb (order m) h e Hr Hok) as Hx. unfold ids_of.
  change (fun node : nat => let value := forced node in
            let value0 := if andb (match value with None => true | Some _ => false end) (has_fb node) then forced (dfb_name (fb_kind node)) else value in
            g_with_feedback node value0 stateful false)
    with (fun node : nat => @GenFb.Node_with_feedback F _ (@hidden F) check_ok check_n_ok has_fb zero_feedback A node (value_of forced node) stateful false).
  unfold bind, ret.
  destruct (exit_stack _ body h) as [h2 [a|ex]]; destruct (with_feedback_ll forced stateful (order m) bodyl e) as [e2 ok2]; exact Hx.
Qed.
(* Model.with_feedback(None) (and reset=False): the body alone *)
Theorem gen_model_with_feedback_none {A : Type} nodes stateful (body : M hp A) (h : hp) :
  g_mwith_feedback nodes None stateful false body h = body h.
Proof. unfold GenFb.Model_with_feedback. cbn [andb negb]. unfold bind, ret. destruct (body h) as [h1 [a|ex]]; reflexivity. Qed.

End ModelLevel.

(* ================================================================================================== Part 3: against model/SubSender.v *)
Section SubSenderLevel.
Context {F : Type} `{Num F} {ID IX : Type}.
Notation vec := (list F).
Notation hp := (@heap F (@fbx F (@hidden F))).
Notation lenv := (@lenv F).
Notation ndesc := (@ndesc F).
Notation sstate := (@sstate F).
Variable fb_kind : nat -> dfb_kind.
Variable distant_model_inputs : smodel -> M hp ID.
Variable idata_item : ID -> nat -> IX.
Variable reduced_model_call : smodel -> ID -> M hp (@fbval F).
Variable reduced_node_call : smodel -> IX -> M hp (@fbval F).
Notation g_cdn := (@GenFb.DistantFeedback_call_distant_node F (@hidden F) ID IX fb_kind distant_model_inputs idata_item reduced_model_call reduced_node_call).

(* a heap stands for a SubSender state: ProxySem's part as in Part 2, and `_fb_flag`; SubSender's counter of forward entries is
   instrumentation, no attribute of the objects *)
Definition srel (h : hp) (s : sstate) : Prop := rel h (le s) /\ forall k, a_fb_flag (h k) = fl s k.

(* `len(np.unique(flags)) > 1` is SubSender's "not all flags equal" *)
Lemma flags_differ_alleq b : forall rest, flags_differ (b :: rest) = negb (forallb (fun x => Bool.eqb x b) rest).
Proof.
  intros rest. rewrite flags_differ_spec. cbn [existsb]. destruct b; cbn [negb orb andb].
  - rewrite andb_true_r. induction rest as [|x rest IH]; [reflexivity|]. cbn [existsb forallb]. rewrite IH. destruct x; reflexivity.
  - induction rest as [|x rest IH]; [reflexivity|]. cbn [existsb forallb]. rewrite IH. destruct x; reflexivity.
Qed.
Lemma flags_differ_is_flags_equal (h : hp) (s : sstate) (sd : @subm F) :
  (forall k, a_fb_flag (h k) = fl s k) -> flags_differ (map (fun k => a_fb_flag (h k)) (s_nodes sd)) = negb (flags_equal s sd).
Proof.
  intros Hf. unfold flags_equal. destruct (s_nodes sd) as [|n rest]; [reflexivity|]. cbn [map]. rewrite flags_differ_alleq.
  f_equal. induction rest as [|k rest IH]; [reflexivity|]. cbn [map forallb]. rewrite IH, !Hf. reflexivity.
Qed.

(* the branch that re-runs the reduced sender, as the generated code composes it from the section functions *)
Definition g_reduced (sm : smodel) : M hp (@fbval F) :=
  bind (distant_model_inputs sm) (fun input_data =>
    if sm_red_is_model sm then reduced_model_call sm input_data else reduced_node_call sm (idata_item input_data (sm_red_name sm))).
(* ... is assumed to do what SubSender.run_reduced does (SubSender.v is the model of `_distant_model_inputs` and of the reduced sender's
   call; they are not translated) *)
Definition red_sim (sm : smodel) (sd : @subm F) : Prop :=
  forall (h : hp) (s : sstate), srel h s ->
    let '(h', r) := g_reduced sm h in
    let '(s1, ok) := run_reduced sd s in
    srel h' s1 /\ match r with Ok fv => ok = true /\ fbv_flat fv = concat (map (fun o => lst (le s1 o)) (s_outs sd)) | Exc _ => ok = false end.

(* DistantFeedback.call_distant_node with a Model as sender = SubSender.cdn: a pending clamp is handed out once; else, when the flags of
   the sender's nodes all agree, the frozen proxies of its output nodes and nothing written; else the reduced sender is re-run *)
Theorem gen_cdn_is_subsender_cdn (smf : nat -> option (@subm F)) (d : ndesc) (sd : @subm F) (sm : smodel) (h : hp) (s : sstate) :
  srel h s -> smf (nid d) = Some sd -> fb_kind (nid d) = DModel sm ->
  sm_nodes sm = s_nodes sd -> sm_outputs sm = s_outs sd -> s_outs sd <> [] ->
  clamp_wf (h (nid d)) -> red_sim sm sd ->
  let '(h', r) := g_cdn (nid d) h in
  let '(v, s1, ok) := cdn smf d s in
  srel h' s1 /\ match r with Ok fv => ok = true /\ v = Some (fbv_flat fv) | Exc _ => ok = false end.
Proof.
  intros [Hr Hfl] Hsm Hk Hn Ho Hne Hw Hred. unfold cdn. rewrite Hsm.
  assert (Hcl : clamp (le s (nid d)) = if a_clamped (h (nid d)) then a_clamped_value (h (nid d)) else None) by (rewrite <- (Hr (nid d)); reflexivity).
  rewrite Hcl. destruct (a_clamped (h (nid d))) eqn:Hc.
  - destruct (Hw Hc) as [v Hv]. rewrite (gen_cdn_clamped fb_kind distant_model_inputs idata_item reduced_model_call reduced_node_call h (nid d) Hc).
    rewrite Hv. split; [|split; reflexivity]. split; [|intros k; cbn [on_le fl]; unfold hupd; destruct (Nat.eqb_spec k (nid d)) as [->|_]; [|apply Hfl]].
    + cbn [on_le le]. unfold set_clamp. apply rel_hupd; [assumption|]. rewrite lnode_of_with_clamped_false. rewrite <- (Hr (nid d)). reflexivity.
    + rewrite <- Hfl. destruct (h (nid d)) as [st i dd f [p c cv r]]. reflexivity.
  - rewrite (gen_cdn_model fb_kind distant_model_inputs idata_item reduced_model_call reduced_node_call h (nid d) sm Hc Hk).
    rewrite Hn, (flags_differ_is_flags_equal h s sd Hfl). destruct (flags_equal s sd); cbn [negb].
    + split; [split; assumption|]. rewrite Ho. unfold outputs_value.
      assert (Hpe : forall k, state_proxy (le s) k = state_proxy (labs h) k) by (intros k; unfold state_proxy; rewrite (Hr k); reflexivity).
      rewrite (map_ext _ _ Hpe). destruct (Nat.ltb 1 (length _)) eqn:Hlen.
      * split; [reflexivity|]. cbn [fbv_flat]. rewrite proxies_flat. reflexivity.
      * destruct (s_outs sd) as [|o [|o2 outs]]; [contradiction| |cbn in Hlen; discriminate].
        split; [reflexivity|]. cbn [fbv_flat map concat]. rewrite app_nil_r. rewrite (proj2 (gen_state_proxy_is_model h o)). reflexivity.
    + specialize (Hred h s (conj Hr Hfl)). unfold g_reduced in Hred.
      destruct (bind (distant_model_inputs sm) _ h) as [h1 r1]. destruct (run_reduced sd s) as [s1 ok1]. destruct Hred as [Hs1 Hr1].
      split; [assumption|]. destruct r1 as [fv|ex]; [|assumption]. destruct Hr1 as [-> Hfv]. split; [reflexivity|]. rewrite Hfv. reflexivity.
Qed.

End SubSenderLevel.
