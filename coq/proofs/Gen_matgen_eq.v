(* Tie (T) for C13: the scaling / partial-application / ring-line LOGIC of reservoirpy/mat_gen.py, as GENERATED on this run from
   the current source text (coq/gen/Gen_matgen.v, tools/vlib/py2coq_mg.py), is the hand-written model/MatGen.v about which the C13
   theorems are stated.  All equalities are structural: they hold for EVERY Num instance (no commutativity is used) and every
   type V of Python values; the only hypothesis is `None is None` (is_none pynone = true).  The last section transports the
   rescaling theorems of proofs/MatGen_proofsR.v (over R) to the generated _scale_spectral_radius. *)
From Coq Require Import List Bool Arith Lia Reals Lra.
From Coq Require String.
From RV Require Import base.Num base.LA model.MatGen base.MGPrelude gen.Gen_matgen proofs.MatGen_proofs proofs.MatGen_proofsR.
Import ListNotations.
Import String.StringSyntax.
Delimit Scope string_scope with string.

Section GenMatGenEq.
Variable V : Type.
Variable is_none : V -> bool.
Variable pynone : V.
Hypothesis none_is_none : is_none pynone = true.

(* ------------------------------------------------------------------ dictionaries / Initializer *)
Lemma kw_has_false_get (k : String.string) (kw : kwargs V) : kw_has k kw = false -> kw_get k kw = None.
Proof. unfold kw_has. destruct (kw_get k kw); [discriminate|reflexivity]. Qed.

Lemma kw_get_d_not_none (k : String.string) (kw : kwargs V) :
  is_none (kw_get_d pynone k kw) = match not_none is_none (kw_get k kw) with Some _ => false | None => true end.
Proof.
  unfold kw_get_d, not_none. destruct (kw_get k kw) as [v|]; [|exact none_is_none]. destruct (is_none v); reflexivity.
Qed.
Lemma kw_get_d_value (k : String.string) (kw : kwargs V) (v : V) :
  not_none is_none (kw_get k kw) = Some v -> kw_get_d pynone k kw = v.
Proof.
  unfold kw_get_d, not_none. destruct (kw_get k kw) as [x|]; [|discriminate]. destruct (is_none x); [discriminate|]. congruence.
Qed.

(* Initializer._func_post_process( *shape, **kw): the generated function takes the dictionary it is called with *)
Lemma gen_func_post_process_eq (i : initializer V) (shape : list V) (kw : kwargs V) :
  GenMatGen.mg_func_post_process V is_none pynone i shape kw = post_process is_none (with_kwargs i kw) shape.
Proof.
  unfold GenMatGen.mg_func_post_process, post_process, with_kwargs. cbn [i_kwargs i_func].
  rewrite !kw_get_d_not_none.
  destruct (not_none is_none (kw_get "sr"%string kw)) as [a|] eqn:Ea;
    destruct (not_none is_none (kw_get "input_scaling"%string kw)) as [b|] eqn:Eb; cbn [negb andb];
    rewrite ?(kw_get_d_value _ _ _ Ea), ?(kw_get_d_value _ _ _ Eb); reflexivity.
Qed.

(* the seed=None keep rule, as generated (three statements on the deep copy), is MatGen.keep_seed *)
Lemma gen_keep_seed_eq (old new : kwargs V) :
  (if is_none (kw_get_d pynone "seed"%string new) && negb (is_none (kw_get_d pynone "seed"%string old))
   then kw_set "seed"%string (kw_get_d pynone "seed"%string old) new else new) = keep_seed is_none old new.
Proof.
  unfold keep_seed. rewrite !kw_get_d_not_none.
  destruct (not_none is_none (kw_get "seed"%string new)) as [a|]; destruct (not_none is_none (kw_get "seed"%string old)) as [c|] eqn:Ec;
    cbn [negb andb]; rewrite ?(kw_get_d_value _ _ _ Ec); reflexivity.
Qed.

(* Initializer.__call__ *)
Lemma gen_call_eq (self : initializer V) (shape : list V) (kw : kwargs V) :
  GenMatGen.mg_call V is_none pynone self shape kw = call is_none self shape kw.
Proof.
  unfold GenMatGen.mg_call, call.
  destruct (kw_has "sr"%string kw && negb (i_autorize_sr self)); [reflexivity|].
  destruct (kw_has "input_scaling"%string kw && negb (i_autorize_is self)); [reflexivity|].
  destruct (filter_deprecated is_none kw) as [ns kw'].
  set (init := mkInit (i_func self) (keep_seed is_none (i_kwargs self) (kw_update (i_kwargs self) kw'))
                      (i_autorize_sr self) (i_autorize_is self) (i_autorize_rescaling self)).
  assert (Ei : (let init0 := self in
                let curried_seed := kw_get_d pynone "seed"%string (i_kwargs init0) in
                let init1 := with_kwargs init0 (kw_update (i_kwargs init0) kw') in
                if is_none (kw_get_d pynone "seed"%string (i_kwargs init1)) && negb (is_none curried_seed)
                then with_kwargs init1 (kw_set "seed"%string curried_seed (i_kwargs init1)) else init1) = init).
  { cbv zeta. unfold init, with_kwargs. cbn [i_kwargs i_func i_autorize_sr i_autorize_is i_autorize_rescaling].
    rewrite <- gen_keep_seed_eq.
    destruct (is_none (kw_get_d pynone "seed"%string (kw_update (i_kwargs self) kw'))
              && negb (is_none (kw_get_d pynone "seed"%string (i_kwargs self)))); reflexivity. }
  cbv zeta in Ei. cbv zeta. rewrite Ei. clear Ei.
  assert (Ep : forall sh, GenMatGen.mg_func_post_process V is_none pynone init sh (i_kwargs init) = post_process is_none init sh).
  { intros sh. rewrite gen_func_post_process_eq. f_equal. }
  destruct ns as [|a [|b l]]; cbn [length Nat.ltb Nat.leb nth].
  - destruct shape as [|s0 sh]; cbn [length Nat.ltb Nat.leb].
    + destruct kw'; reflexivity.
    + rewrite Ep. reflexivity.
  - rewrite Ep. reflexivity.
  - rewrite Ep. reflexivity.
Qed.

(* ------------------------------------------------------------------ rescaling *)
Section Numeric.
Context {F : Type} `{Num F}.
Notation mat := (list (list F)).
Variable rho : mat -> F.            (* reservoirpy.observables.spectral_radius: oracle *)
Variable issparse : mat -> bool.    (* scipy.sparse.issparse: the storage format is not part of the denoted matrix *)
Variable w_init : list V -> kwargs V -> mat.   (* the wrapped draw function called with a shape and keyword arguments *)

(* _scale_spectral_radius: the draw is made with the SAME seed (None when no seed was given) and the other keyword arguments, its
   radius is asked once, and the result is MatGen.scale_sr at the module's epsilon *)
Lemma gen_scale_spectral_radius_eq (shape : list V) (sr : F) (kw : kwargs V) :
  GenMatGen.mg_scale_spectral_radius V pynone rho w_init shape sr kw
  = let W0 := w_init shape (("seed"%string, kw_get_d pynone "seed"%string kw) :: kw_del "seed"%string kw) in
    scale_sr GenMatGen.mg_epsilon W0 (rho W0) sr.
Proof.
  unfold GenMatGen.mg_scale_spectral_radius, scale_sr, null_radius, mscale_r. cbv zeta.
  destruct (kw_has "seed"%string kw) eqn:E.
  - reflexivity.
  - pose proof (kw_has_false_get _ _ E) as G. unfold kw_get_d. rewrite G.
    rewrite (kw_del_notin V "seed"%string kw (kw_get_none_notin V _ _ G)). reflexivity.
Qed.

(* _scale_inputs: the sparse and the dense branch denote the same matrix, MatGen.scale_inputs_scalar / _cols of the draw *)
Lemma gen_scale_inputs_scalar_eq (shape : list V) (s : F) (kw : kwargs V) :
  GenMatGen.mg_scale_inputs_scalar V issparse w_init shape s kw = scale_inputs_scalar s (w_init shape kw).
Proof. unfold GenMatGen.mg_scale_inputs_scalar. cbv zeta. destruct (issparse (w_init shape kw)); reflexivity. Qed.

Lemma gen_scale_inputs_cols_eq (shape : list V) (s : list F) (kw : kwargs V) :
  GenMatGen.mg_scale_inputs_cols V issparse w_init shape s kw = scale_inputs_cols s (w_init shape kw).
Proof. unfold GenMatGen.mg_scale_inputs_cols. cbv zeta. destruct (issparse (w_init shape kw)); reflexivity. Qed.

(* ------------------------------------------------------------------ ring / line *)
Lemma gen_ring_eq (n : nat) (w : list F) :
  GenMatGen.mg_ring [n; n] (Some w) = Some (ring n w) /\ GenMatGen.mg_ring [n; n] None = Some (ring n (vones n)).
Proof.
  unfold GenMatGen.mg_ring, ring, ring_coo, np_arange. cbn [length nth Nat.eqb negb orb]. rewrite Nat.eqb_refl, Nat.sub_0_r.
  cbn [negb]. split; reflexivity.
Qed.

Lemma gen_line_eq (n : nat) (w : list F) :
  GenMatGen.mg_line [n; n] (Some w) = Some (line n w) /\ GenMatGen.mg_line [n; n] None = Some (line n (vones (n - 1))).
Proof.
  unfold GenMatGen.mg_line, line, line_coo, np_arange. cbn [length nth Nat.eqb negb orb]. rewrite Nat.eqb_refl, Nat.sub_0_r.
  cbn [negb]. split; reflexivity.
Qed.

(* any other shape is refused (ValueError), whatever the weights *)
Lemma gen_ring_line_reject (shape : list nat) (w : option (list F)) :
  length shape <> 2 \/ nth 0 shape 0 <> nth 1 shape 0 ->
  GenMatGen.mg_ring shape w = None /\ GenMatGen.mg_line shape w = None.
Proof.
  intros Hs. unfold GenMatGen.mg_ring, GenMatGen.mg_line.
  assert (E : negb (length shape =? 2) || negb (nth 0 shape 0 =? nth 1 shape 0) = true).
  { destruct Hs as [Hs|Hs]; apply Nat.eqb_neq in Hs; rewrite Hs; cbn; [reflexivity|apply orb_true_r]. }
  rewrite E. split; reflexivity.
Qed.
End Numeric.
End GenMatGenEq.

(* ------------------------------------------------------------------ the C13 rescaling theorems, about the GENERATED function *)
Section GenSrR.
Variable V : Type.
Variable pynone : V.
Variable rho : list (list R) -> R.
Hypothesis rho_hom : forall (c : R) (W : list (list R)), rho (mscale c W) = (Rabs c * rho W)%R.
Variable w_init : list V -> kwargs V -> list (list R).

Lemma gen_epsilon_pos : (0 < GenMatGen.mg_epsilon (F:=R))%R.
Proof. unfold GenMatGen.mg_epsilon. numR. lra. Qed.

Lemma gen_sr_request (shape : list V) (sr : R) (kw : kwargs V) :
  let W0 := w_init shape (("seed"%string, kw_get_d pynone "seed"%string kw) :: kw_del "seed"%string kw) in
  let W := GenMatGen.mg_scale_spectral_radius V pynone rho w_init shape sr kw in
  ((GenMatGen.mg_epsilon <= rho W0)%R -> (0 < sr)%R -> W = mscale (sr / rho W0)%R W0 /\ (0 < sr / rho W0)%R /\ rho W = sr) /\
  ((- GenMatGen.mg_epsilon < rho W0 < GenMatGen.mg_epsilon)%R -> W = W0).
Proof.
  intros W0 W. unfold W. rewrite gen_scale_spectral_radius_eq. fold W0. cbv zeta. split.
  - intros Hr Hs. exact (sr_scaling rho rho_hom _ sr W0 gen_epsilon_pos Hr Hs).
  - intros Hr. exact (sr_null _ _ sr W0 Hr).
Qed.
End GenSrR.
