(* C03 — associativity of chaining:  (a >> b) >> c  and  a >> (b >> c)  build the same model up to a renaming of
   the automatically inserted Concat nodes (model/Graph.v). *)
From Coq Require Import List Arith Lia Bool Permutation.
From RV Require Import model.Graph proofs.Graph_proofs proofs.Graph_ops_proofs.
Import ListNotations.

(* ------------------------------------------------------------------ wrapped, at the level of sets *)
Lemma wrapped_true_iff isc E v : NoDup E ->
  (wrapped isc E v = true <-> isc v = false /\ exists p q, p <> q /\ In (p, v) E /\ In (q, v) E).
Proof. intros Hnd. pose proof (parents_nodup E v Hnd) as Hp. unfold wrapped, indeg. rewrite andb_true_iff, negb_true_iff, Nat.ltb_lt.
  split.
  - intros [Hl Hc]. split; auto. destruct (parents E v) as [|p [|q l]] eqn:Hpar; simpl in Hl; try lia.
    exists p, q. split; [|split; apply parents_In; rewrite Hpar; simpl; auto].
    intros ->. inversion Hp as [|? ? Hx _]. apply Hx. simpl; auto.
  - intros [Hc [p [q [Hne [H1 H2]]]]]. split; auto. apply parents_In in H1, H2.
    destruct (parents E v) as [|x [|y l]]; simpl in *; try lia; try tauto. Qed.

Lemma wrapped_pred_ext isc Ea Eb v : NoDup Ea -> NoDup Eb -> (forall p, In (p, v) Ea <-> In (p, v) Eb) ->
  wrapped isc Ea v = wrapped isc Eb v.
Proof. intros Ha Hb H. unfold wrapped, indeg. f_equal. f_equal. apply Permutation_length.
  apply NoDup_Permutation; try now apply parents_nodup. intros p. rewrite !parents_In. apply H. Qed.

Lemma wrapped_single_pred isc E v x : NoDup E -> (forall p, In (p, v) E -> p = x) -> wrapped isc E v = false.
Proof. intros Hnd H. destruct (wrapped isc E v) eqn:Hw; auto. apply wrapped_true_iff in Hw as [_ [p [q [Hne [H1 H2]]]]]; auto.
  apply H in H1, H2. congruence. Qed.

(* ------------------------------------------------------------------ entries / exits survive concat insertion *)
Section CmiInsOuts.
Variables (isc : node -> bool) (nm : node -> node) (V : list node) (E : list edge).
Hypothesis Hwf : wf V E.
Hypothesis Hfresh : forall v, In v V -> ~ In (nm v) V.
Hypothesis Hinj : forall u v, In u V -> In v V -> nm u = nm v -> u = v.
Local Notation V' := (fst (cmi isc nm V E)).
Local Notation E' := (snd (cmi isc nm V E)).

Lemma cmi_no_pred v : (In v V' /\ ~ exists u, In (u, v) E') <-> (In v V /\ ~ exists u, In (u, v) E).
Proof. split.
  - intros [Hv Hn]. apply cmi_V'_In in Hv as [Hv|[w [Hw [Hwr ->]]]].
    + split; auto. intros [u Hu]. apply Hn. pose proof (cmi_edge_image isc nm V E Hwf u v Hu) as Hi.
      destruct (wrapped isc E v); [exists (nm v); tauto | eauto].
    + exfalso. destruct (wrapped_has_parent isc E w Hwr) as [q Hq]. apply Hn. exists q.
      apply (cmi_concat_parents isc nm V E Hfresh Hinj); auto.
  - intros [Hv Hn]. split; [apply cmi_V'_In; auto|]. intros [u Hu]. destruct (wrapped isc E v) eqn:Hwr.
    + destruct (wrapped_has_parent isc E v Hwr) as [q Hq]. eauto.
    + apply (cmi_unwrapped isc nm V E Hfresh) in Hu; eauto. Qed.

Lemma cmi_no_succ v : (In v V' /\ ~ exists w, In (v, w) E') <-> (In v V /\ ~ exists w, In (v, w) E).
Proof. split.
  - intros [Hv Hn]. apply cmi_V'_In in Hv as [Hv|[w [Hw [Hwr ->]]]].
    + split; auto. intros [w Hw]. apply Hn. pose proof (cmi_edge_image isc nm V E Hwf v w Hw) as Hi.
      destruct (wrapped isc E w); [exists (nm w); tauto | eauto].
    + exfalso. apply Hn. exists w. apply (cmi_concat_child isc nm V E Hwf Hfresh Hinj); auto.
  - intros [Hv Hn]. split; [apply cmi_V'_In; auto|]. intros [c Hc]. apply cmi_E'_In in Hc as [w [Hw H]].
    destruct (wrapped isc E w).
    + destruct H as [[Hi _]|[Hp _]]; [eauto|]. apply (Hfresh _ Hw). rewrite <- Hp. exact Hv.
    + destruct H as [Hi _]. eauto. Qed.
End CmiInsOuts.

(* ------------------------------------------------------------------ operands, 1-to-1 links *)
(* an operand is a graph whose declared inputs / outputs are its nodes without predecessors / successors
   (every bare node; every model returned by Model(...): mk_model_gvalid) *)
Definition gvalid (x : value) : Prop :=
  wf (v_nodes x) (v_edges x) /\
  (forall v, In v (v_ins x) <-> In v (v_nodes x) /\ ~ exists u, In (u, v) (v_edges x)) /\
  (forall v, In v (v_outs x) <-> In v (v_nodes x) /\ ~ exists w, In (v, w) (v_edges x)).

Lemma gvalid_node n : gvalid (VNode n).
Proof. split; [intros e []|]. split; intros v; simpl; split; try tauto; (intros H; split; [exact H|intros [? []]]). Qed.

Lemma mk_model_gvalid isc nm V E m : wf V E -> mk_model isc nm V E = Ok m -> gvalid (VModel m).
Proof. intros Hwf Hm. destruct (mk_model_sound isc nm V E Hwf m Hm) as [HE [_ [HV [_ [[_ Hi] [_ Ho]]]]]].
  split; [|split; simpl; auto]. simpl. rewrite HE. intros e He. pose proof (cmi_wf isc nm V E Hwf e He) as [H1 H2].
  split; apply HV; auto. Qed.

Lemma lg_nodes x y n : In n (fst (link_graph [x] [y])) <-> In n (v_nodes x) \/ In n (v_nodes y).
Proof. rewrite link_graph_nodes. split.
  - intros [l [r [[<-|[]] [[<-|[]] H]]]]. exact H.
  - intros H. exists x, y. simpl. auto. Qed.

Lemma lg_edges x y u v : In (u, v) (snd (link_graph [x] [y])) <->
  In (u, v) (v_edges x) \/ In (u, v) (v_edges y) \/ (In u (v_outs x) /\ In v (v_ins y)).
Proof. rewrite link_graph_edges. split.
  - intros [l [r [[<-|[]] [[<-|[]] H]]]]. exact H.
  - intros H. exists x, y. simpl. auto. Qed.

Definition disjoint (x y : value) := forall n, In n (v_nodes x) -> ~ In n (v_nodes y).
Definition nonempty (l : list node) := exists n, In n l.

Lemma lg_wf x y : gvalid x -> gvalid y -> wf (fst (link_graph [x] [y])) (snd (link_graph [x] [y])).
Proof. intros [Hx [_ Hox]] [Hy [Hiy _]] [u v] He. apply lg_edges in He.
  split; apply lg_nodes; simpl; destruct He as [He|[He|[H1 H2]]];
    try (destruct (Hx _ He); simpl in *; tauto); try (destruct (Hy _ He); simpl in *; tauto);
    apply Hox in H1; apply Hiy in H2; tauto. Qed.

(* entries of x >> y are the entries of x, exits are the exits of y (x has an output, y has an input) *)
Lemma lg_no_pred x y v : gvalid x -> gvalid y -> disjoint x y -> nonempty (v_outs x) ->
  ((In v (fst (link_graph [x] [y])) /\ ~ exists u, In (u, v) (snd (link_graph [x] [y]))) <-> In v (v_ins x)).
Proof. intros [Hx [Hix Hox]] [Hy [Hiy Hoy]] Hd [o Ho]. rewrite lg_nodes. split.
  - intros [[Hv|Hv] Hn].
    + apply Hix. split; auto. intros [u Hu]. apply Hn. exists u. apply lg_edges. auto.
    + exfalso. apply Hn. destruct (in_dec Nat.eq_dec v (v_ins y)) as [Hi|Hi].
      * exists o. apply lg_edges. auto.
      * assert (Hp : exists u, In (u, v) (v_edges y)).
        { destruct (has_in v (v_edges y)) eqn:Hh.
          - unfold has_in in Hh. apply existsb_exists in Hh as [[a b] [He Hs]]. simpl in Hs. apply Nat.eqb_eq in Hs. subst. eauto.
          - exfalso. apply Hi. apply Hiy. split; auto. now apply has_in_false_iff. }
        destruct Hp as [u Hu]. exists u. apply lg_edges. auto.
  - intros Hi. apply Hix in Hi as [Hv Hn]. split; auto. intros [u Hu]. apply lg_edges in Hu as [Hu|[Hu|[_ Hu]]].
    + eauto.
    + apply (Hd _ Hv). apply (Hy _ Hu).
    + apply (Hd _ Hv). apply Hiy in Hu. tauto. Qed.

Lemma lg_no_succ x y v : gvalid x -> gvalid y -> disjoint x y -> nonempty (v_ins y) ->
  ((In v (fst (link_graph [x] [y])) /\ ~ exists w, In (v, w) (snd (link_graph [x] [y]))) <-> In v (v_outs y)).
Proof. intros [Hx [Hix Hox]] [Hy [Hiy Hoy]] Hd [i Hi0]. rewrite lg_nodes. split.
  - intros [[Hv|Hv] Hn].
    + exfalso. apply Hn. destruct (in_dec Nat.eq_dec v (v_outs x)) as [Hi|Hi].
      * exists i. apply lg_edges. auto.
      * assert (Hp : exists w, In (v, w) (v_edges x)).
        { destruct (existsb (fun e => Nat.eqb (fst e) v) (v_edges x)) eqn:Hh.
          - apply existsb_exists in Hh as [[a b] [He Hs]]. simpl in Hs. apply Nat.eqb_eq in Hs. subst. eauto.
          - exfalso. apply Hi. apply Hox. split; auto. intros [w Hw].
            assert (existsb (fun e => Nat.eqb (fst e) v) (v_edges x) = true); [|congruence].
            apply existsb_exists. exists (v, w). simpl. rewrite Nat.eqb_refl. auto. }
        destruct Hp as [w Hw]. exists w. apply lg_edges. auto.
    + apply Hoy. split; auto. intros [w Hw]. apply Hn. exists w. apply lg_edges. auto.
  - intros Ho. apply Hoy in Ho as [Hv Hn]. split; auto. intros [w Hw]. apply lg_edges in Hw as [Hw|[Hw|[Hw _]]].
    + apply (Hd v); auto. apply (Hx _ Hw).
    + eauto.
    + apply Hox in Hw. apply (Hd v); tauto. Qed.

(* inputs / outputs of the model built for x >> y *)
Lemma link_model_ins_outs isc nm x y m : gvalid x -> gvalid y -> disjoint x y ->
  nonempty (v_outs x) -> nonempty (v_ins y) ->
  (forall v, In v (fst (link_graph [x] [y])) -> ~ In (nm v) (fst (link_graph [x] [y]))) ->
  (forall u v, In u (fst (link_graph [x] [y])) -> In v (fst (link_graph [x] [y])) -> nm u = nm v -> u = v) ->
  link isc nm [x] [y] = Ok m ->
  (forall v, In v (mIn m) <-> In v (v_ins x)) /\ (forall v, In v (mOut m) <-> In v (v_outs y)).
Proof. intros Gx Gy Hd Hox Hiy Hfresh Hinj Hm. pose proof (lg_wf x y Gx Gy) as Hwf.
  pose proof (lg_no_pred x y) as Hp. pose proof (lg_no_succ x y) as Hs.
  unfold link in Hm. destruct (link_graph [x] [y]) as [V E]. simpl in *.
  destruct (mk_model_sound isc nm V E Hwf m Hm) as [HE [_ [HV [_ [[_ Hi] [_ Ho]]]]]].
  split; intros v.
  - rewrite Hi, HE, HV, (cmi_no_pred isc nm V E Hwf Hfresh Hinj v). apply Hp; auto.
  - rewrite Ho, HE, HV, (cmi_no_succ isc nm V E Hwf Hfresh Hinj v). apply Hs; auto. Qed.

Lemma has_in_true_iff v E : has_in v E = true <-> exists u, In (u, v) E.
Proof. destruct (has_in v E) eqn:Hh.
  - split; auto. intros _. unfold has_in in Hh. apply existsb_exists in Hh as [[a b] [He Hs]]. simpl in Hs.
    apply Nat.eqb_eq in Hs. subst. eauto.
  - split; [discriminate|]. intros Hex. apply has_in_false_iff in Hh. contradiction. Qed.

(* ------------------------------------------------------------------ two successive concat insertions = one
   Step 1 inserts Concats (names nm1) in (V1,E1).  Then nodes Vx and edges Ex are added — none of the new edges enters a
   node that already had a predecessor — and step 2 inserts Concats (names nm2) again.  The result is what ONE insertion
   does on the union graph (VP,EP), with names [nmL]. *)
Section Compose.
Variables (isc : node -> bool) (nm1 nm2 : node -> node).
Variables (V1 : list node) (E1 : list edge) (Vx : list node) (Ex : list edge).
Variables (V2 : list node) (E2 : list edge) (VP : list node) (EP : list edge).
Local Notation V1' := (fst (cmi isc nm1 V1 E1)).
Local Notation E1' := (snd (cmi isc nm1 V1 E1)).
Hypothesis HV2 : forall x, In x V2 <-> In x V1' \/ In x Vx.
Hypothesis HE2 : forall e, In e E2 <-> In e E1' \/ In e Ex.
Hypothesis HVP : forall x, In x VP <-> In x V1 \/ In x Vx.
Hypothesis HEP : forall e, In e EP <-> In e E1 \/ In e Ex.
Hypothesis Hnd1 : NoDup E1.
Hypothesis Hnd2 : NoDup E2.
Hypothesis HndP : NoDup EP.
Hypothesis Hwf1 : wf V1 E1.
Hypothesis HwfP : wf VP EP.
Hypothesis Htgt : forall p t, In (p, t) Ex -> ~ exists q, In (q, t) E1.
Hypothesis Hfresh1 : forall v, In v V1 -> ~ In (nm1 v) VP.
Hypothesis Hinj1 : forall u v, In u V1 -> In v V1 -> nm1 u = nm1 v -> u = v.
Hypothesis Hcat1 : forall v, In v V1 -> isc (nm1 v) = true.

Definition nmL (v : node) : node := if has_in v E1 then nm1 v else nm2 v.

Lemma Hfresh1' : forall v, In v V1 -> ~ In (nm1 v) V1.
Proof. intros v Hv Hi. apply (Hfresh1 v Hv). apply HVP. auto. Qed.

Lemma has_in_V1 v : has_in v E1 = true -> In v V1.
Proof. intros H. apply has_in_true_iff in H as [u Hu]. apply (Hwf1 _ Hu). Qed.

Lemma predA v p : In v VP -> has_in v E1 = false -> (In (p, v) E2 <-> In (p, v) EP).
Proof. intros Hv Hh. rewrite HE2, HEP. apply has_in_false_iff in Hh. split; (intros [H|H]; [|auto]).
  - exfalso. apply cmi_E'_In in H as [w [Hw H]]. destruct (wrapped isc E1 w) eqn:Hwr.
    + destruct H as [[_ Hc]|[_ Hc]].
      * apply (Hfresh1 w Hw). rewrite <- Hc. exact Hv.
      * subst w. destruct (wrapped_has_parent isc E1 v Hwr) as [q Hq]. apply Hh. eauto.
    + destruct H as [Hi Hc]. subst w. apply Hh. eauto.
  - exfalso. apply Hh. eauto. Qed.

Lemma predB v p : has_in v E1 = true -> (In (p, v) EP <-> In (p, v) E1) /\ (In (p, v) E2 <-> In (p, v) E1').
Proof. intros Hh. apply has_in_true_iff in Hh. rewrite HE2, HEP.
  split; (split; [intros [H|H]; auto; exfalso; apply (Htgt _ _ H Hh) | auto]). Qed.

Lemma predC w p : In w V1 -> wrapped isc E1 w = true -> (In (p, nm1 w) E2 <-> In (p, w) E1).
Proof. intros Hw Hwr. rewrite HE2, (cmi_concat_parents isc nm1 V1 E1 Hfresh1' Hinj1 w p Hw Hwr). split; [|auto].
  intros [H|H]; auto. exfalso. apply (Hfresh1 w Hw). assert (He : In (p, nm1 w) EP) by (apply HEP; auto). apply (HwfP _ He). Qed.

Lemma wA v : In v VP -> has_in v E1 = false -> wrapped isc E2 v = wrapped isc EP v.
Proof. intros Hv Hh. apply wrapped_pred_ext; auto. intros p. apply predA; auto. Qed.

Lemma wB_EP v : has_in v E1 = true -> wrapped isc EP v = wrapped isc E1 v.
Proof. intros Hh. apply wrapped_pred_ext; auto. intros p. apply predB; auto. Qed.

Lemma wB1 v : has_in v E1 = true -> wrapped isc E1 v = false -> wrapped isc E2 v = false.
Proof. intros Hh Hwr. rewrite <- Hwr. apply wrapped_pred_ext; auto. intros p. rewrite (proj2 (predB v p Hh)).
  apply (cmi_unwrapped isc nm1 V1 E1 Hfresh1' Hinj1); auto. now apply has_in_V1. Qed.

Lemma wB2 v : has_in v E1 = true -> wrapped isc E1 v = true -> wrapped isc E2 v = false.
Proof. intros Hh Hwr. apply (wrapped_single_pred isc E2 v (nm1 v)); auto. intros p Hp.
  apply (proj2 (predB v p Hh)) in Hp.
  apply (cmi_wrapped_parent isc nm1 V1 E1 Hfresh1' Hinj1 v p) in Hp; auto. now apply has_in_V1. Qed.

Lemma wC w : In w V1 -> wrapped isc E2 (nm1 w) = false.
Proof. intros Hw. unfold wrapped. rewrite (Hcat1 w Hw). apply andb_false_r. Qed.

Lemma VP_V2 v : In v VP -> In v V2.
Proof. intros Hv. apply HV2. apply HVP in Hv as [Hv|Hv]; auto. left. apply cmi_V'_In. auto. Qed.

Lemma V2_cases v : In v V2 -> In v VP \/ exists w, In w V1 /\ wrapped isc E1 w = true /\ v = nm1 w.
Proof. intros Hv. apply HV2 in Hv as [Hv|Hv]; [|left; apply HVP; auto].
  apply cmi_V'_In in Hv as [Hv|Hv]; [left; apply HVP; auto | right; exact Hv]. Qed.

Lemma nmL_in v : has_in v E1 = true -> nmL v = nm1 v.
Proof. unfold nmL. intros ->. reflexivity. Qed.
Lemma nmL_out v : has_in v E1 = false -> nmL v = nm2 v.
Proof. unfold nmL. intros ->. reflexivity. Qed.

Theorem cmi_compose_edges p c :
  In (p, c) (snd (cmi isc nm2 V2 E2)) <-> In (p, c) (snd (cmi isc nmL VP EP)).
Proof. rewrite !cmi_E'_In. split.
  - intros [v [Hv H]]. apply V2_cases in Hv as [Hv|[w [Hw [Hwr ->]]]].
    + destruct (has_in v E1) eqn:Hh.
      * pose proof (has_in_V1 v Hh) as Hv1. destruct (wrapped isc E1 v) eqn:Hwr.
        -- rewrite (wB2 v Hh Hwr) in H. destruct H as [Hi ->]. exists v. split; auto.
           rewrite (wB_EP v Hh), Hwr, (nmL_in v Hh). right. split; auto.
           apply (proj2 (predB v p Hh)) in Hi. apply (cmi_wrapped_parent isc nm1 V1 E1 Hfresh1' Hinj1 v p) in Hi; auto.
        -- rewrite (wB1 v Hh Hwr) in H. destruct H as [Hi ->]. exists v. split; auto.
           rewrite (wB_EP v Hh), Hwr. split; auto. apply (proj1 (predB v p Hh)).
           apply (proj2 (predB v p Hh)) in Hi. apply (cmi_unwrapped isc nm1 V1 E1 Hfresh1' Hinj1 v p) in Hi; auto.
      * exists v. split; auto. rewrite <- (wA v Hv Hh), (nmL_out v Hh).
        destruct (wrapped isc E2 v); [destruct H as [[Hi Hc]|H]; [left; split; auto; apply (predA v p Hv Hh); auto | auto]
                                     | destruct H as [Hi Hc]; split; auto; apply (predA v p Hv Hh); auto].
    + rewrite (wC w Hw) in H. destruct H as [Hi ->]. apply (predC w p Hw Hwr) in Hi.
      assert (Hh : has_in w E1 = true) by (apply has_in_true_iff; eauto).
      exists w. split; [apply HVP; auto|]. rewrite (wB_EP w Hh), Hwr, (nmL_in w Hh). left. split; auto.
      apply (proj1 (predB w p Hh)). exact Hi.
  - intros [v [Hv H]]. destruct (has_in v E1) eqn:Hh.
    + pose proof (has_in_V1 v Hh) as Hv1. rewrite (wB_EP v Hh) in H. destruct (wrapped isc E1 v) eqn:Hwr.
      * rewrite (nmL_in v Hh) in H. destruct H as [[Hi ->]|[-> ->]].
        -- exists (nm1 v). split; [apply HV2; left; apply cmi_V'_In; right; eauto|]. rewrite (wC v Hv1). split; auto.
           apply (predC v p Hv1 Hwr). apply (proj1 (predB v p Hh)). exact Hi.
        -- exists v. split; [apply VP_V2; auto|]. rewrite (wB2 v Hh Hwr). split; auto.
           apply (proj2 (predB v (nm1 v) Hh)). apply (cmi_wrapped_parent isc nm1 V1 E1 Hfresh1' Hinj1 v (nm1 v)); auto.
      * destruct H as [Hi ->]. exists v. split; [apply VP_V2; auto|]. rewrite (wB1 v Hh Hwr). split; auto.
        apply (proj2 (predB v p Hh)). apply (cmi_unwrapped isc nm1 V1 E1 Hfresh1' Hinj1 v p); auto. apply (proj1 (predB v p Hh)). exact Hi.
    + exists v. split; [apply VP_V2; auto|]. rewrite (wA v Hv Hh). rewrite (nmL_out v Hh) in H.
      destruct (wrapped isc EP v); [destruct H as [[Hi Hc]|H]; [left; split; auto; apply (predA v p Hv Hh); auto | auto]
                                   | destruct H as [Hi Hc]; split; auto; apply (predA v p Hv Hh); auto].
Qed.

Theorem cmi_compose_nodes x :
  In x (fst (cmi isc nm2 V2 E2)) <-> In x (fst (cmi isc nmL VP EP)).
Proof. rewrite !cmi_V'_In. split.
  - intros [Hx|[v [Hv [Hwr ->]]]].
    + apply V2_cases in Hx as [Hx|[w [Hw [Hwr ->]]]]; auto. right.
      assert (Hh : has_in w E1 = true) by (destruct (wrapped_has_parent isc E1 w Hwr) as [q Hq]; apply has_in_true_iff; eauto).
      exists w. split; [apply HVP; auto|]. rewrite (wB_EP w Hh), (nmL_in w Hh). auto.
    + apply V2_cases in Hv as [Hv|[w [Hw [_ ->]]]]; [|rewrite (wC w Hw) in Hwr; discriminate].
      destruct (has_in v E1) eqn:Hh.
      * exfalso. destruct (wrapped isc E1 v) eqn:Hw1; [rewrite (wB2 v Hh Hw1) in Hwr | rewrite (wB1 v Hh Hw1) in Hwr]; discriminate.
      * right. exists v. rewrite <- (wA v Hv Hh), (nmL_out v Hh). auto.
  - intros [Hx|[v [Hv [Hwr ->]]]]; [left; apply VP_V2; auto|]. destruct (has_in v E1) eqn:Hh.
    + left. rewrite (nmL_in v Hh). rewrite (wB_EP v Hh) in Hwr. apply HV2. left. apply cmi_V'_In. right.
      exists v. split; [apply has_in_V1; auto | auto].
    + right. exists v. rewrite (wA v Hv Hh), (nmL_out v Hh). split; [apply VP_V2; auto | auto].
Qed.

(* the combined naming is fresh, and injective on the nodes that get a Concat *)
Hypothesis Hfresh2 : forall v, In v V2 -> ~ In (nm2 v) V2.
Hypothesis Hinj2 : forall u v, In u V2 -> In v V2 -> nm2 u = nm2 v -> u = v.

Lemma nmL_fresh v : In v VP -> ~ In (nmL v) VP.
Proof. intros Hv. destruct (has_in v E1) eqn:Hh.
  - rewrite (nmL_in v Hh). apply Hfresh1. now apply has_in_V1.
  - rewrite (nmL_out v Hh). intros Hi. apply (Hfresh2 v (VP_V2 v Hv)). now apply VP_V2. Qed.

Lemma nmL_inj u v : In u VP -> In v VP -> wrapped isc EP u = true -> wrapped isc EP v = true -> nmL u = nmL v -> u = v.
Proof. intros Hu Hv Hwu Hwv. destruct (has_in u E1) eqn:Hhu, (has_in v E1) eqn:Hhv.
  - rewrite (nmL_in u Hhu), (nmL_in v Hhv). apply Hinj1; now apply has_in_V1.
  - rewrite (nmL_in u Hhu), (nmL_out v Hhv). intros Heq. exfalso. apply (Hfresh2 v (VP_V2 v Hv)). rewrite <- Heq.
    apply HV2. left. apply cmi_V'_In. right. exists u. rewrite (wB_EP u Hhu) in Hwu. split; [now apply has_in_V1 | auto].
  - rewrite (nmL_out u Hhu), (nmL_in v Hhv). intros Heq. exfalso. apply (Hfresh2 u (VP_V2 u Hu)). rewrite Heq.
    apply HV2. left. apply cmi_V'_In. right. exists v. rewrite (wB_EP v Hhv) in Hwv. split; [now apply has_in_V1 | auto].
  - rewrite (nmL_out u Hhu), (nmL_out v Hhv). apply Hinj2; now apply VP_V2. Qed.
End Compose.

(* ------------------------------------------------------------------ renaming, needing names only for wrapped nodes *)
Lemma cmi_rename' isc nm1 nm2 (rho : node -> node) V E : wf V E ->
  (forall p, In p V -> rho p = p) -> (forall v, In v V -> wrapped isc E v = true -> rho (nm1 v) = nm2 v) ->
  (forall x, In x (fst (cmi isc nm2 V E)) <-> exists y, In y (fst (cmi isc nm1 V E)) /\ x = rho y) /\
  (forall p c, In (p, c) (snd (cmi isc nm2 V E)) <->
               exists p0 c0, In (p0, c0) (snd (cmi isc nm1 V E)) /\ p = rho p0 /\ c = rho c0).
Proof. intros Hwf Hfix Hmap. split.
  - intros x. rewrite cmi_V'_In. split.
    + intros [H|[v [Hv [Hw ->]]]].
      * exists x. rewrite cmi_V'_In. split; auto. symmetry; auto.
      * exists (nm1 v). rewrite cmi_V'_In. split; [right; eauto|]. symmetry; auto.
    + intros [y [Hy ->]]. apply cmi_V'_In in Hy as [H|[v [Hv [Hw ->]]]].
      * left. rewrite Hfix; auto.
      * right. exists v. rewrite Hmap; auto.
  - intros p c. rewrite cmi_E'_In. split.
    + intros [v [Hv H]]. destruct (wrapped isc E v) eqn:Hw.
      * destruct H as [[Hi ->]|[-> ->]].
        -- exists p, (nm1 v). rewrite cmi_E'_In. split; [exists v; rewrite Hw; auto|].
           split; [symmetry; apply Hfix, (Hwf _ Hi) | symmetry; auto].
        -- exists (nm1 v), v. rewrite cmi_E'_In. split; [exists v; rewrite Hw; auto|].
           split; symmetry; auto.
      * destruct H as [Hi ->]. exists p, v. rewrite cmi_E'_In. split; [exists v; rewrite Hw; auto|].
        split; symmetry; [apply Hfix, (Hwf _ Hi) | auto].
    + intros [p0 [c0 [H [-> ->]]]]. apply cmi_E'_In in H as [v [Hv H]]. exists v. split; auto.
      destruct (wrapped isc E v) eqn:Hw.
      * destruct H as [[Hi ->]|[-> ->]].
        -- left. rewrite (Hfix p0) by apply (Hwf _ Hi). rewrite Hmap; auto.
        -- right. rewrite Hmap, Hfix; auto.
      * destruct H as [Hi ->]. rewrite (Hfix p0) by apply (Hwf _ Hi). rewrite Hfix; auto.
Qed.

Lemma rename_exists' (W : node -> bool) nm1 nm2 V : (forall v, In v V -> ~ In (nm1 v) V) ->
  (forall u v, In u V -> In v V -> W u = true -> W v = true -> nm1 u = nm1 v -> u = v) ->
  exists rho : node -> node, (forall p, In p V -> rho p = p) /\ (forall v, In v V -> W v = true -> rho (nm1 v) = nm2 v).
Proof. intros Hfresh Hinj.
  exists (fun y => match find (fun v => W v && Nat.eqb (nm1 v) y) V with Some v => nm2 v | None => y end). split.
  - intros p Hp. destruct (find _ V) as [v0|] eqn:Hf; auto. apply find_some in Hf as [Hv0 Hq].
    apply andb_true_iff in Hq as [_ Hq]. apply Nat.eqb_eq in Hq. exfalso. apply (Hfresh _ Hv0). rewrite Hq. exact Hp.
  - intros v Hv Hw. destruct (find _ V) as [v0|] eqn:Hf.
    + apply find_some in Hf as [Hv0 Hq]. apply andb_true_iff in Hq as [Hw0 Hq]. apply Nat.eqb_eq in Hq.
      apply Hinj in Hq; [subst; reflexivity|assumption|assumption|assumption|assumption].
    + exfalso. pose proof (find_none _ _ Hf v Hv) as Hn. simpl in Hn. rewrite Hw, Nat.eqb_refl in Hn. discriminate.
Qed.

Lemma link_eq isc nm ls rs : link isc nm ls rs = mk_model isc nm (fst (link_graph ls rs)) (snd (link_graph ls rs)).
Proof. unfold link. destruct (link_graph ls rs). reflexivity. Qed.

(* ------------------------------------------------------------------ the theorem *)
Section Assoc.
Variables (isc : node -> bool) (nm1 nm2 nm3 nm4 : node -> node) (a b c : value) (m1 m2 m3 m4 : model).
Hypothesis Ga : gvalid a.
Hypothesis Gb : gvalid b.
Hypothesis Gc : gvalid c.
Hypothesis Dab : disjoint a b.
Hypothesis Dac : disjoint a c.
Hypothesis Dbc : disjoint b c.
Hypothesis Noa : nonempty (v_outs a).
Hypothesis Nib : nonempty (v_ins b).
Hypothesis Nob : nonempty (v_outs b).
Hypothesis Nic : nonempty (v_ins c).
Let VP := v_nodes a ++ v_nodes b ++ v_nodes c.
Let L1 := link_graph [a] [b].
Let L2 := link_graph [VModel m1] [c].
Let L3 := link_graph [b] [c].
Let L4 := link_graph [a] [VModel m3].
Hypothesis H1 : link isc nm1 [a] [b] = Ok m1.
Hypothesis H2 : link isc nm2 [VModel m1] [c] = Ok m2.
Hypothesis H3 : link isc nm3 [b] [c] = Ok m3.
Hypothesis H4 : link isc nm4 [a] [VModel m3] = Ok m4.
(* the Concats created by a >> b and by b >> c are new objects: not operand nodes, one per node, Concat-typed *)
Hypothesis F1 : forall v, In v (fst L1) -> ~ In (nm1 v) VP /\ isc (nm1 v) = true.
Hypothesis I1 : forall u v, In u (fst L1) -> In v (fst L1) -> nm1 u = nm1 v -> u = v.
Hypothesis F3 : forall v, In v (fst L3) -> ~ In (nm3 v) VP /\ isc (nm3 v) = true.
Hypothesis I3 : forall u v, In u (fst L3) -> In v (fst L3) -> nm3 u = nm3 v -> u = v.
(* so are the Concats created by the outer links, w.r.t. everything present at that moment *)
Hypothesis F2 : forall v, In v (fst L2) -> ~ In (nm2 v) (fst L2).
Hypothesis I2 : forall u v, In u (fst L2) -> In v (fst L2) -> nm2 u = nm2 v -> u = v.
Hypothesis F4 : forall v, In v (fst L4) -> ~ In (nm4 v) (fst L4).
Hypothesis I4 : forall u v, In u (fst L4) -> In v (fst L4) -> nm4 u = nm4 v -> u = v.

(* the plain union graph both sides denote *)
Definition plainE (u v : node) : Prop :=
  In (u, v) (v_edges a) \/ In (u, v) (v_edges b) \/ In (u, v) (v_edges c) \/
  (In u (v_outs a) /\ In v (v_ins b)) \/ (In u (v_outs b) /\ In v (v_ins c)).

Lemma VP_In x : In x VP <-> In x (v_nodes a) \/ In x (v_nodes b) \/ In x (v_nodes c).
Proof. unfold VP. rewrite !in_app_iff. tauto. Qed.

Lemma left_side :
  let E1 := snd L1 in let Ex := v_edges c ++ list_prod (v_outs b) (v_ins c) in
  let EP := nodup edge_eq_dec (E1 ++ Ex) in let nm := nmL nm1 nm2 E1 in
  (forall x, In x (mNodes m2) <-> In x (fst (cmi isc nm VP EP))) /\
  (forall p q, In (p, q) (mEdges m2) <-> In (p, q) (snd (cmi isc nm VP EP))) /\
  (forall v, In v (mIn m2) <-> In v (v_ins a)) /\ (forall v, In v (mOut m2) <-> In v (v_outs c)) /\
  (forall v, In v VP -> ~ In (nm v) VP) /\
  (forall u v, In u VP -> In v VP -> wrapped isc EP u = true -> wrapped isc EP v = true -> nm u = nm v -> u = v) /\
  wf VP EP /\ NoDup EP /\ (forall u v, In (u, v) EP <-> plainE u v).
Proof. intros E1 Ex EP nm.
  pose proof (lg_wf a b Ga Gb) as Hwf1. fold L1 in Hwf1.
  assert (HV1 : forall x, In x (fst L1) <-> In x (v_nodes a) \/ In x (v_nodes b)) by (intros x; apply lg_nodes).
  assert (F1V : forall v, In v (fst L1) -> ~ In (nm1 v) (fst L1)).
  { intros v Hv Hi. apply (proj1 (F1 v Hv)). apply VP_In. apply HV1 in Hi. tauto. }
  pose proof H1 as H1'. rewrite link_eq in H1'. fold L1 in H1'.
  destruct (mk_model_sound isc nm1 (fst L1) (snd L1) Hwf1 m1 H1') as [S1E [_ [S1V _]]].
  destruct (link_model_ins_outs isc nm1 a b m1 Ga Gb Dab Noa Nib F1V I1 H1) as [IO1i IO1o].
  pose proof (mk_model_gvalid isc nm1 (fst L1) (snd L1) m1 Hwf1 H1') as Gm1.
  assert (Dm1c : disjoint (VModel m1) c).
  { intros n Hn Hc. simpl in Hn. apply S1V, cmi_V'_In in Hn as [Hn|[w [Hw [_ ->]]]].
    - apply HV1 in Hn as [Hn|Hn]; [apply (Dac n)|apply (Dbc n)]; auto.
    - apply (proj1 (F1 w Hw)). apply VP_In. auto. }
  assert (Nom1 : nonempty (v_outs (VModel m1))) by (destruct Nob as [o Ho]; exists o; apply IO1o; exact Ho).
  assert (HV2 : forall x, In x (fst L2) <-> In x (fst (cmi isc nm1 (fst L1) (snd L1))) \/ In x (v_nodes c)).
  { intros x. unfold L2. rewrite lg_nodes. simpl v_nodes at 1. rewrite S1V. tauto. }
  assert (HE2 : forall e, In e (snd L2) <-> In e (snd (cmi isc nm1 (fst L1) (snd L1))) \/ In e Ex).
  { intros [u v]. unfold L2, Ex. rewrite lg_edges, in_app_iff. unfold edge. rewrite in_prod_iff. simpl v_edges at 1. simpl v_outs at 1.
    rewrite S1E, IO1o. tauto. }
  assert (HVP : forall x, In x VP <-> In x (fst L1) \/ In x (v_nodes c)) by (intros x; rewrite VP_In, HV1; tauto).
  assert (HEP : forall e, In e EP <-> In e E1 \/ In e Ex) by (intros e; unfold EP; rewrite nodup_In, in_app_iff; tauto).
  assert (Hnd1 : NoDup E1) by apply link_graph_nodup.
  assert (Hnd2 : NoDup (snd L2)) by apply link_graph_nodup.
  assert (HndP : NoDup EP) by apply NoDup_nodup.
  assert (HExc : forall p t, In (p, t) Ex -> In t (v_nodes c) /\ (In p (v_nodes b) \/ In p (v_nodes c))).
  { intros p t He. unfold Ex in He. apply in_app_or in He as [He|He].
    - destruct (proj1 Gc _ He); auto.
    - apply in_prod_iff in He as [Ho Hi]. apply (proj2 (proj2 Gb)) in Ho. apply (proj1 (proj2 Gc)) in Hi. tauto. }
  assert (HwfP : wf VP EP).
  { intros [p t] He. apply HEP in He as [He|He]; simpl.
    - destruct (Hwf1 _ He) as [Hp Ht]. simpl in *. rewrite !HVP. auto.
    - destruct (HExc _ _ He) as [Ht Hp]. rewrite !VP_In. tauto. }
  assert (Htgt : forall p t, In (p, t) Ex -> ~ exists q, In (q, t) E1).
  { intros p t He [q Hq]. destruct (HExc _ _ He) as [Ht _]. pose proof (proj2 (Hwf1 _ Hq)) as Ht1. simpl in Ht1.
    apply HV1 in Ht1 as [Ht1|Ht1]; [apply (Dac t)|apply (Dbc t)]; auto. }
  assert (F1P : forall v, In v (fst L1) -> ~ In (nm1 v) VP) by (intros v Hv; apply F1; auto).
  assert (C1 : forall v, In v (fst L1) -> isc (nm1 v) = true) by (intros v Hv; apply F1; auto).
  pose proof (lg_wf (VModel m1) c Gm1 Gc) as Hwf2. fold L2 in Hwf2.
  pose proof H2 as H2'. rewrite link_eq in H2'. fold L2 in H2'.
  destruct (mk_model_sound isc nm2 (fst L2) (snd L2) Hwf2 m2 H2') as [S2E [_ [S2V _]]].
  destruct (link_model_ins_outs isc nm2 (VModel m1) c m2 Gm1 Gc Dm1c Nom1 Nic F2 I2 H2) as [IO2i IO2o].
  split; [|split; [|split; [|split; [|split; [|split; [|split; [|split]]]]]]]; auto.
  - intros x. rewrite S2V.
    apply (cmi_compose_nodes isc nm1 nm2 (fst L1) E1 (v_nodes c) Ex (fst L2) (snd L2) VP EP); auto.
  - intros p q. rewrite S2E.
    apply (cmi_compose_edges isc nm1 nm2 (fst L1) E1 (v_nodes c) Ex (fst L2) (snd L2) VP EP); auto.
  - intros v. rewrite IO2i. simpl. apply IO1i.
  - apply (nmL_fresh isc nm1 nm2 (fst L1) E1 (v_nodes c) (fst L2) VP); auto.
  - apply (nmL_inj isc nm1 nm2 (fst L1) E1 (v_nodes c) Ex (fst L2) (snd L2) VP EP); auto.
  - intros u v. rewrite HEP. unfold E1, L1, Ex, plainE. rewrite lg_edges, in_app_iff. unfold edge. rewrite in_prod_iff. tauto.
Qed.

Lemma right_side :
  let E1 := snd L3 in let Ex := v_edges a ++ list_prod (v_outs a) (v_ins b) in
  let EP := nodup edge_eq_dec (E1 ++ Ex) in let nm := nmL nm3 nm4 E1 in
  (forall x, In x (mNodes m4) <-> In x (fst (cmi isc nm VP EP))) /\
  (forall p q, In (p, q) (mEdges m4) <-> In (p, q) (snd (cmi isc nm VP EP))) /\
  (forall v, In v (mIn m4) <-> In v (v_ins a)) /\ (forall v, In v (mOut m4) <-> In v (v_outs c)) /\
  (forall v, In v VP -> ~ In (nm v) VP) /\
  (forall u v, In u VP -> In v VP -> wrapped isc EP u = true -> wrapped isc EP v = true -> nm u = nm v -> u = v) /\
  wf VP EP /\ NoDup EP /\ (forall u v, In (u, v) EP <-> plainE u v).
Proof. intros E1 Ex EP nm.
  pose proof (lg_wf b c Gb Gc) as Hwf1. fold L3 in Hwf1.
  assert (HV1 : forall x, In x (fst L3) <-> In x (v_nodes b) \/ In x (v_nodes c)) by (intros x; apply lg_nodes).
  assert (F3V : forall v, In v (fst L3) -> ~ In (nm3 v) (fst L3)).
  { intros v Hv Hi. apply (proj1 (F3 v Hv)). apply VP_In. apply HV1 in Hi. tauto. }
  pose proof H3 as H3'. rewrite link_eq in H3'. fold L3 in H3'.
  destruct (mk_model_sound isc nm3 (fst L3) (snd L3) Hwf1 m3 H3') as [S3E [_ [S3V _]]].
  destruct (link_model_ins_outs isc nm3 b c m3 Gb Gc Dbc Nob Nic F3V I3 H3) as [IO3i IO3o].
  pose proof (mk_model_gvalid isc nm3 (fst L3) (snd L3) m3 Hwf1 H3') as Gm3.
  assert (Dam3 : disjoint a (VModel m3)).
  { intros n Ha Hn. simpl in Hn. apply S3V, cmi_V'_In in Hn as [Hn|[w [Hw [_ ->]]]].
    - apply HV1 in Hn as [Hn|Hn]; [apply (Dab n)|apply (Dac n)]; auto.
    - apply (proj1 (F3 w Hw)). apply VP_In. auto. }
  assert (Nim3 : nonempty (v_ins (VModel m3))) by (destruct Nib as [o Ho]; exists o; apply IO3i; exact Ho).
  assert (HV2 : forall x, In x (fst L4) <-> In x (fst (cmi isc nm3 (fst L3) (snd L3))) \/ In x (v_nodes a)).
  { intros x. unfold L4. rewrite lg_nodes. simpl v_nodes at 2. rewrite S3V. tauto. }
  assert (HE2 : forall e, In e (snd L4) <-> In e (snd (cmi isc nm3 (fst L3) (snd L3))) \/ In e Ex).
  { intros [u v]. unfold L4, Ex. rewrite lg_edges, in_app_iff. unfold edge. rewrite in_prod_iff. simpl v_edges at 2. simpl v_ins at 1.
    rewrite S3E, IO3i. tauto. }
  assert (HVP : forall x, In x VP <-> In x (fst L3) \/ In x (v_nodes a)) by (intros x; rewrite VP_In, HV1; tauto).
  assert (HEP : forall e, In e EP <-> In e E1 \/ In e Ex) by (intros e; unfold EP; rewrite nodup_In, in_app_iff; tauto).
  assert (Hnd1 : NoDup E1) by apply link_graph_nodup.
  assert (Hnd2 : NoDup (snd L4)) by apply link_graph_nodup.
  assert (HndP : NoDup EP) by apply NoDup_nodup.
  assert (HExc : forall p t, In (p, t) Ex -> In p (v_nodes a) /\ (In t (v_nodes a) \/ In t (v_ins b))).
  { intros p t He. unfold Ex in He. apply in_app_or in He as [He|He].
    - destruct (proj1 Ga _ He); auto.
    - unfold edge in He. apply in_prod_iff in He as [Ho Hi]. apply (proj2 (proj2 Ga)) in Ho. tauto. }
  assert (HwfP : wf VP EP).
  { intros [p t] He. apply HEP in He as [He|He]; simpl.
    - destruct (Hwf1 _ He) as [Hp Ht]. simpl in *. rewrite !HVP. auto.
    - destruct (HExc _ _ He) as [Hp [Ht|Ht]]; rewrite !VP_In; [tauto|]. apply (proj1 (proj2 Gb)) in Ht. tauto. }
  assert (Htgt : forall p t, In (p, t) Ex -> ~ exists q, In (q, t) E1).
  { intros p t He [q Hq]. destruct (HExc _ _ He) as [_ [Ht|Ht]].
    - pose proof (proj2 (Hwf1 _ Hq)) as Ht1. simpl in Ht1.
      apply HV1 in Ht1 as [Ht1|Ht1]; [apply (Dab t)|apply (Dac t)]; auto.
    - apply (proj1 (proj2 Gb)) in Ht as [Htb Hnp]. unfold E1, L3 in Hq. apply lg_edges in Hq as [Hq|[Hq|[_ Hq]]].
      + apply Hnp. eauto.
      + apply (Dbc t Htb). apply (proj1 Gc _ Hq).
      + apply (Dbc t Htb). apply (proj1 (proj2 Gc)) in Hq. tauto. }
  assert (F3P : forall v, In v (fst L3) -> ~ In (nm3 v) VP) by (intros v Hv; apply F3; auto).
  assert (C3 : forall v, In v (fst L3) -> isc (nm3 v) = true) by (intros v Hv; apply F3; auto).
  pose proof (lg_wf a (VModel m3) Ga Gm3) as Hwf2. fold L4 in Hwf2.
  pose proof H4 as H4'. rewrite link_eq in H4'. fold L4 in H4'.
  destruct (mk_model_sound isc nm4 (fst L4) (snd L4) Hwf2 m4 H4') as [S4E [_ [S4V _]]].
  destruct (link_model_ins_outs isc nm4 a (VModel m3) m4 Ga Gm3 Dam3 Noa Nim3 F4 I4 H4) as [IO4i IO4o].
  split; [|split; [|split; [|split; [|split; [|split; [|split; [|split]]]]]]]; auto.
  - intros x. rewrite S4V.
    apply (cmi_compose_nodes isc nm3 nm4 (fst L3) E1 (v_nodes a) Ex (fst L4) (snd L4) VP EP); auto.
  - intros p q. rewrite S4E.
    apply (cmi_compose_edges isc nm3 nm4 (fst L3) E1 (v_nodes a) Ex (fst L4) (snd L4) VP EP); auto.
  - intros v. rewrite IO4o. simpl. apply IO3o.
  - apply (nmL_fresh isc nm3 nm4 (fst L3) E1 (v_nodes a) (fst L4) VP); auto.
  - apply (nmL_inj isc nm3 nm4 (fst L3) E1 (v_nodes a) Ex (fst L4) (snd L4) VP EP); auto.
  - intros u v. rewrite HEP. unfold E1, L3, Ex, plainE. rewrite lg_edges, in_app_iff. unfold edge. rewrite in_prod_iff. tauto.
Qed.

(* (a >> b) >> c  and  a >> (b >> c) : same model up to a renaming of the inserted Concats fixing the operand nodes *)
Theorem chain_assoc :
  exists rho : node -> node,
    (forall p, In p VP -> rho p = p) /\
    (forall x, In x (mNodes m4) <-> exists y, In y (mNodes m2) /\ x = rho y) /\
    (forall p q, In (p, q) (mEdges m4) <-> exists p0 q0, In (p0, q0) (mEdges m2) /\ p = rho p0 /\ q = rho q0) /\
    (forall v, In v (mIn m4) <-> In v (mIn m2)) /\ (forall v, In v (mOut m4) <-> In v (mOut m2)) /\
    (forall v, In v (mIn m2) <-> In v (v_ins a)) /\ (forall v, In v (mOut m2) <-> In v (v_outs c)).
Proof.
  destruct left_side as [LV [LE [LI [LO [LF [LJ [Lwf [Lnd LP]]]]]]]].
  destruct right_side as [RV [RE [RI [RO [RF [RJ [Rwf [Rnd RP]]]]]]]].
  set (EPL := nodup edge_eq_dec (snd L1 ++ v_edges c ++ list_prod (v_outs b) (v_ins c))) in *.
  set (EPR := nodup edge_eq_dec (snd L3 ++ v_edges a ++ list_prod (v_outs a) (v_ins b))) in *.
  set (nL := nmL nm1 nm2 (snd L1)) in *. set (nR := nmL nm3 nm4 (snd L3)) in *.
  assert (HEE : forall e, In e EPR <-> In e EPL) by (intros [u v]; rewrite LP, RP; tauto).
  destruct (cmi_ext isc nR VP VP EPR EPL) as [XV XE]; auto; [tauto|].
  destruct (rename_exists' (wrapped isc EPL) nL nR VP LF LJ) as [rho [Hfix Hmap]].
  destruct (cmi_rename' isc nL nR rho VP EPL Lwf Hfix Hmap) as [NV NE].
  exists rho. split; [exact Hfix|]. split; [|split; [|split; [|split; [|split]]]].
  - intros x. rewrite RV, XV, NV. split; intros [y [Hy ->]]; exists y; (split; [apply LV; exact Hy | reflexivity]).
  - intros p q. rewrite RE, XE, NE. split; intros [p0 [q0 [Hy [-> ->]]]]; exists p0, q0; (split; [apply LE; exact Hy | auto]).
  - intros v. rewrite RI, LI. tauto.
  - intros v. rewrite RO, LO. tauto.
  - exact LI.
  - exact LO.
Qed.
End Assoc.
