(* tie (T) for Model.update_graph (reservoirpy/model.py): the definition GENERATED in gen/Gen_update.v by tools/vlib/py2coq_upd.py
   computes the node / edge SETS of Graph.merge_graph_l (the union `m &= bs` hands to mk_model), then the Concat insertion of
   Graph.cmi, the entries / exits of Graph.entries / Graph.exits, and hands exactly these to the generated topological_sort
   (Gen_graphflow_eq.v: = Graph.topo under wf / good_inputs); the value is (order, edges, entries, exits) = the four fields of the
   record Graph.model that Graph.update_graph installs. *)
From Coq Require Import List Arith Bool Permutation.
From RV Require Import base.PyColl model.Graph gen.Gen_graphflow gen.Gen_ops gen.Gen_update proofs.Gen_graphflow_eq proofs.Gen_ops_eq.
Import ListNotations.

Section GenUpdateEq.
Variable ord_n : nat -> list node -> list node.
Variable ord_e : nat -> list edge -> list edge.
Variable ord_c_n : nat -> list node -> list node.
Variable ord_c_e : nat -> list edge -> list edge.
Variable ord_g : nat -> list node -> list node.
Variable srt : list edge -> list edge.
Variable isc : node -> bool.
Variable new_concat : nat -> node -> node.
Hypothesis Hord_n : forall k s, Permutation (ord_n k s) s.
Hypothesis Hord_e : forall k s, Permutation (ord_e k s) s.
Hypothesis Hord_c_n : forall k s, Permutation (ord_c_n k s) s.
Hypothesis Hord_c_e : forall k s, Permutation (ord_c_e k s) s.
Hypothesis Hord_g : forall k s, Permutation (ord_g k s) s.
Hypothesis Hsrt : forall l, Permutation (srt l) l.

Definition g_update (sn : list node) (se : list edge) :=
  GenUpdate.update_graph ord_n ord_e ord_c_n ord_c_e ord_g srt isc new_concat sn se.
Definition u_cmi := GenOps.concat_multi_inputs ord_c_n ord_c_e srt isc new_concat.
Definition u_nm : node -> node := new_concat 0.
Definition u_V0 (sn nn : list node) := ord_n 0 (set_union (py_set nn) (py_set sn)).
Definition u_E0 (se ne : list edge) := ord_e 0 (set_union (py_set ne) (py_set se)).

Lemma gen_update_unfold sn se fuel nn ne : g_update sn se fuel nn ne =
  let '(V', E') := u_cmi (u_V0 sn nn) (u_E0 se ne) in
  let '(ins, outs) := GenGraphflow.find_entries_and_exits ord_g V' E' in
  py_bind (GenGraphflow.topological_sort ord_g srt fuel V' E' (Some ins)) (fun l => Val (l, E', ins, outs)).
Proof. reflexivity. Qed.

Lemma union_same_set_n sn nn : same_set (u_V0 sn nn) (nodup Nat.eq_dec (nn ++ sn)).
Proof. unfold u_V0. split; [|split].
  - apply (Permutation_NoDup (Permutation_sym (Hord_n 0 _))). apply set_union_NoDup; apply py_set_NoDup.
  - apply NoDup_nodup.
  - intros x. rewrite nodup_In, in_app_iff. split.
    + intros Hi. apply (Permutation_in _ (Hord_n 0 _)) in Hi. rewrite set_union_In, !py_set_In in Hi. exact Hi.
    + intros Hi. apply (Permutation_in _ (Permutation_sym (Hord_n 0 _))). rewrite set_union_In, !py_set_In. exact Hi.
Qed.

Lemma union_same_set_e se ne : same_set (u_E0 se ne) (nodup edge_eq_dec (ne ++ se)).
Proof. unfold u_E0. split; [|split].
  - apply (Permutation_NoDup (Permutation_sym (Hord_e 0 _))). apply set_union_NoDup; apply py_set_NoDup.
  - apply NoDup_nodup.
  - intros x. rewrite nodup_In, in_app_iff. split.
    + intros Hi. apply (Permutation_in _ (Hord_e 0 _)) in Hi. rewrite set_union_In, !py_set_In in Hi. exact Hi.
    + intros Hi. apply (Permutation_in _ (Permutation_sym (Hord_e 0 _))). rewrite set_union_In, !py_set_In. exact Hi.
Qed.

(* `m.update_graph(nodes(bs), edges(bs))` (the call `m &= bs` makes, Gen_ops_eq.gen_merge_inplace): [m] the model before, [bs] the
   flattened operands *)
Theorem gen_update_graph_is_model (m : model) (bs : list value) (fuel : nat) :
  let nn := flat_map v_nodes bs in let ne := flat_map v_edges bs in
  let V0 := u_V0 (mNodes m) nn in let E0 := u_E0 (mEdges m) ne in
  same_set V0 (fst (merge_graph_l (VModel m) bs)) /\ same_set E0 (snd (merge_graph_l (VModel m) bs)) /\
  exists V' E' ins outs,
    same_set V' (fst (cmi isc u_nm V0 E0)) /\ same_set E' (snd (cmi isc u_nm V0 E0)) /\
    (NoDup ins /\ forall v, In v ins <-> In v (entries V' E')) /\
    (NoDup outs /\ forall v, In v outs <-> In v (exits V' E')) /\
    g_update (mNodes m) (mEdges m) fuel nn ne =
      py_bind (GenGraphflow.topological_sort ord_g srt fuel V' E' (Some ins)) (fun l => Val (l, E', ins, outs)).
Proof.
  cbv zeta. split; [apply union_same_set_n|]. split; [apply union_same_set_e|].
  rewrite gen_update_unfold.
  pose proof (gen_cmi_is_model ord_c_n ord_c_e srt isc new_concat Hord_c_n Hord_c_e Hsrt
                (u_V0 (mNodes m) (flat_map v_nodes bs)) (u_E0 (mEdges m) (flat_map v_edges bs))) as Hc.
  unfold g_cmi, g_nm in Hc. fold u_cmi u_nm in Hc.
  destruct (u_cmi _ _) as [V' E'] eqn:Hcm. cbn [fst snd] in Hc. destruct Hc as [HV HE].
  pose proof (gen_entries_exits ord_g Hord_g V' E') as Hee.
  destruct (GenGraphflow.find_entries_and_exits ord_g V' E') as [ins outs]. cbn [fst snd] in Hee. destruct Hee as [Hi Ho].
  exists V', E', ins, outs. repeat split; try (apply HV); try (apply HE); try (apply Hi); try (apply Ho).
Qed.
End GenUpdateEq.
