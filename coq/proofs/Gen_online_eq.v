(* Tie (T) for C10: the definitions GENERATED on this run from the current source text of nodes/readouts/base.py,
   nodes/readouts/rls.py and nodes/readouts/lms.py (coq/gen/Gen_online.v, tools/vlib/py2coq_la.py) are, at R, the hand-written
   model/Online.v about which the C10 theorems (RLS invariant, LMS step, gate) are stated. *)
From Coq Require Import Reals Lra List Bool Arith Lia.
From RV Require Import base.Num base.LA base.GenPrelude gen.Gen_online model.Online.
Import ListNotations.
Open Scope R_scope.

Notation rvec := (list R).
Notation rmat := (list (list R)).

(* (c * (e k^T))^T = c * (k e^T), row-major lists, any lengths *)
Lemma transpose_mscale_outer (c : R) (e : rvec) : forall k : rvec,
  transpose (mscale c (outer e k)) (length k) = mscale c (outer k e).
Proof.
  induction k as [|k0 k IH]; [reflexivity|].
  cbn [length transpose]. change (mscale c (outer (k0 :: k) e)) with (vscale c (vscale k0 e) :: mscale c (outer k e)). f_equal.
  - unfold mscale, outer, vscale. rewrite !map_map. apply map_ext. intros a. cbn. numR. ring.
  - rewrite <- IH. f_equal. unfold mscale, outer. rewrite !map_map. apply map_ext. intros a. reflexivity.
Qed.
Lemma mcols_mscale_outer (c : R) (e k : rvec) : e <> [] -> mcols (mscale c (outer e k)) = length k.
Proof. destruct e as [|a e]; [congruence|]. intros _. cbn. unfold vscale. now rewrite !map_length. Qed.
Lemma mT_mscale_outer (c : R) (e k : rvec) : e <> [] -> mT (mscale c (outer e k)) = mscale c (outer k e).
Proof. intros He. unfold mT. rewrite (mcols_mscale_outer c e k He). apply transpose_mscale_outer. Qed.

(* x @ W = W^T x *)
Lemma vm_cons_col : forall (x : rvec) (W : rmat) k, (forall row, In row W -> length row = S k) ->
  vm x W (S k) = dot (map (hd 0) W) x :: vm x (map (@tl R) W) k.
Proof.
  induction x as [|a x IH]; intros W k Hrows.
  - destruct W; simpl; reflexivity.
  - destruct W as [|row W]; [reflexivity|]. simpl.
    assert (Hrow : length row = S k) by (apply Hrows; left; reflexivity).
    destruct row as [|r0 rt]; [discriminate|].
    rewrite IH by (intros r Hr; apply Hrows; right; exact Hr).
    unfold vadd, vscale. simpl. f_equal. numR. ring.
Qed.
Lemma vm_transpose : forall n (W : rmat) (x : rvec), (forall row, In row W -> length row = n) ->
  vm x W n = mv (transpose W n) x.
Proof.
  induction n as [|k IH]; intros W x Hrows.
  - simpl. destruct x as [|a x]; [reflexivity|]. destruct W as [|row W]; [reflexivity|]. simpl.
    assert (length row = 0%nat) by (apply Hrows; left; reflexivity). destruct row; [reflexivity|discriminate].
  - rewrite vm_cons_col by exact Hrows. simpl. f_equal. apply IH.
    intros row Hr. apply in_map_iff in Hr. destruct Hr as [r [<- Hr]]. specialize (Hrows r Hr). destruct r; simpl in *; lia.
Qed.

(* readout_forward *)
Lemma gen_readout_forward_eq (odim : nat) (s : rdo (F:=R)) (x : rvec) :
  Wout s <> [] -> (forall row, In row (Wout s) -> length row = odim) ->
  GenOnline.readout_forward (Wout s) (bias s) x = readout_forward odim s x.
Proof.
  intros Hne Hrows. unfold GenOnline.readout_forward, readout_forward, mT.
  assert (Hc : mcols (Wout s) = odim).
  { destruct (Wout s) as [|r W]; [congruence|]. cbn. apply Hrows. left. reflexivity. }
  rewrite Hc, <- vm_transpose by exact Hrows. reflexivity.
Qed.

(* rls.train: (Wout', bias', P') -- [pred] is node.state(), the prediction of this step; the target is not empty *)
Lemma gen_rls_train_eq (hb : bool) (s : rdo (F:=R)) (x y pred : rvec) : length pred = length y -> y <> [] ->
  GenOnline.rls_train (Wout s) (bias s) hb pred (Pm s) x y
  = (Wout (rls_update hb s x y pred), bias (rls_update hb s x y pred), Pm (rls_update hb s x y pred)).
Proof.
  intros Hl Hy.
  assert (He : vsub pred y <> []).
  { destruct pred as [|p pred]; destruct y as [|y0 y]; cbn in *; try congruence; discriminate. }
  unfold GenOnline.rls_train, GenOnline.prepare_inputs, GenOnline.compute_error, GenOnline.rls, GenOnline.assemble_wout,
    GenOnline.split_and_save_wout, rls_update, rls_wo, rls_P, rls_gain, split_save, assemble, augment, rerror, add_bias_row.
  destruct hb; cbn [fst snd Wout bias Pm]; rewrite (mT_mscale_outer _ _ _ He); reflexivity.
Qed.

(* lms.train: (Wout', bias'); [a] is the value next(alpha) yields at this call *)
Lemma gen_lms_train_eq (sc : sched (F:=R)) (hb : bool) (s : rdo (F:=R)) (x y pred : rvec) : length pred = length y -> y <> [] ->
  GenOnline.lms_train (Wout s) (bias s) hb pred (sched_at sc (cursor s)) x y
  = (Wout (lms_update sc hb s x y pred), bias (lms_update sc hb s x y pred)).
Proof.
  intros Hl Hy.
  assert (He : vsub pred y <> []).
  { destruct pred as [|p pred]; destruct y as [|y0 y]; cbn in *; try congruence; discriminate. }
  unfold GenOnline.lms_train, GenOnline.prepare_inputs, GenOnline.compute_error, GenOnline.lms, GenOnline.assemble_wout,
    GenOnline.split_and_save_wout, lms_update, lms_wo, split_save, assemble, augment, rerror, add_bias_row.
  destruct hb; cbn [fst snd Wout bias Pm]; rewrite (mT_mscale_outer _ _ _ He); reflexivity.
Qed.
