(* C19: the metrics run at Q, then embedded in R, ARE the metrics run at R on the embedded data.

   model/Metrics.v is one term over [Num F]; the theorems of props/C19.v are about the instance at R, the correspondence run
   (run/RunC19.v: chk_mse, chk_rmse, chk_nrmse, chk_nrmse_nv, chk_rsquare, chk_effmat, chk_quantile) evaluates the instance
   at Q.  For every homomorphism [phi] of the class (base/NumHom.v), in particular [Q2R]:
   shapes and the shape test are untouched by the embedding; every 1-D reduction (mean, variance, max, min, ptp, insertion sort,
   quantile, q1q3, the four norms, mse, SS_tot, R^2), every axis-0 reduction, the dimensionwise switch [reduce] and therefore
   [mse], [rsquare], [rsquare_parts], [nrmse_parts] (all four norms), [nrmse_parts_nv] and [eff_matrix] commute with the
   entry-wise embedding, for 1-D / 2-D / 3-D arrays.  max / min / sort use the boolean comparisons of the class, which a
   [NumHom] reflects exactly.  No shape hypothesis, no side condition (division by a zero norm / SS_tot included:
   x/0 = 0 at both instances). *)
From Coq Require Import Reals QArith Qreals List Bool Arith ZArith Lra.
From RV Require Import base.Num base.LA base.NumHom model.Metrics.
Import ListNotations.
Close Scope Q_scope.

(* the result type of [reduce], mapped *)
Definition esum {T T'} (g : T -> T') (r : option (T + list T)) : option (T' + list T') :=
  match r with None => None | Some (inl x) => Some (inl (g x)) | Some (inr v) => Some (inr (map g v)) end.

Lemma map_combine {A B A' B'} (f : A -> A') (g : B -> B') (u : list A) (v : list B) :
  map (fun p => (f (fst p), g (snd p))) (combine u v) = combine (map f u) (map g v).
Proof. revert v. induction u as [|a u IH]; intros [|b v]; cbn; try reflexivity. rewrite IH. reflexivity. Qed.

Section BridgeC19.
Context {F G : Type} {NF : Num F} {NG : Num G} (phi : F -> G) {HH : NumHom phi}.
Local Notation ev := (map phi).
Local Notation em := (map (map phi)).

(* ---- arrays, shapes ---- *)
Definition earr (a : arr F) : arr G :=
  match a with A1 v => A1 (ev v) | A2 m => A2 (em m) | A3 t => A3 (map em t) end.
Definition eres (r : res F) : res G := match r with RS x => RS (phi x) | RV v => RV (ev v) end.
Definition epair (p : F * F) : G * G := (phi (fst p), phi (snd p)).

Lemma shape_earr a : shape (earr a) = shape a.
Proof.
  destruct a as [v|m|t]; cbn.
  - rewrite map_length. reflexivity.
  - rewrite map_length. destruct m; cbn; rewrite ?map_length; reflexivity.
  - rewrite map_length. destruct t as [|[|r m] t]; cbn; rewrite ?map_length; reflexivity.
Qed.
Lemma e_check_arrays y p :
  check_arrays (earr y) (earr p) = match check_arrays y p with Some _ => Some (earr y, earr p) | None => None end.
Proof. unfold check_arrays. rewrite !shape_earr. destruct (lnat_eqb (shape y) (shape p)); reflexivity. Qed.
Lemma flat_earr a : flat (earr a) = ev (flat a).
Proof. destruct a as [v|m|t]; cbn; [reflexivity | symmetry; apply concat_map |]. rewrite !concat_map. reflexivity. Qed.
Lemma nfeat_earr a : nfeat (earr a) = nfeat a.
Proof. unfold nfeat. rewrite shape_earr. reflexivity. Qed.
Lemma rows2_earr a : rows2 (earr a) = option_map (map (map phi)) (rows2 a).
Proof. destruct a as [v|m|t]; cbn; [reflexivity | reflexivity |]. rewrite concat_map. reflexivity. Qed.

(* ---- 1-D reductions ---- *)
Lemma hom_nofnat n : phi (nofnat n) = nofnat n.
Proof. apply (hom_ofZ phi). Qed.
Lemma hom_sq x : phi (sq x) = sq (phi x).
Proof. apply (hom_mul phi). Qed.
Lemma hom_mean v : phi (mean v) = mean (ev v).
Proof. unfold mean. rewrite (hom_div phi), (ev_vsum phi), hom_nofnat, map_length. reflexivity. Qed.
Lemma ev_sqdiff y p : ev (sqdiff y p) = sqdiff (ev y) (ev p).
Proof. apply (ev_vzip phi). intros. rewrite hom_sq, (hom_sub phi). reflexivity. Qed.
Lemma ev_center v : ev (center v) = center (ev v).
Proof. unfold center. rewrite !map_map. apply map_ext. intros. rewrite (hom_sub phi), hom_mean. reflexivity. Qed.
Lemma ev_map_sq v : ev (map sq v) = map sq (ev v).
Proof. rewrite !map_map. apply map_ext. intros; apply hom_sq. Qed.
Lemma hom_var1 v : phi (var1 v) = var1 (ev v).
Proof. unfold var1. rewrite hom_mean, ev_map_sq, ev_center. reflexivity. Qed.
Lemma hom_nmax a b : phi (nmax a b) = nmax (phi a) (phi b).
Proof. unfold nmax. rewrite <- (hom_ltb phi). destruct (nltb a b); reflexivity. Qed.
Lemma hom_nmin a b : phi (nmin a b) = nmin (phi a) (phi b).
Proof. unfold nmin. rewrite <- (hom_ltb phi). destruct (nltb b a); reflexivity. Qed.
Lemma hom_fold (f : F -> F -> F) (g : G -> G -> G) : (forall a b, phi (f a b) = g (phi a) (phi b)) ->
  forall x v, phi (fold_right f x v) = fold_right g (phi x) (ev v).
Proof. intros E x v. induction v as [|a v IH]; cbn; [reflexivity|]. rewrite E, IH. reflexivity. Qed.
Lemma hom_vmax v : phi (vmax v) = vmax (ev v).
Proof. destruct v as [|x v]; cbn; [apply (hom_0 phi) | apply hom_fold, hom_nmax]. Qed.
Lemma hom_vmin v : phi (vmin v) = vmin (ev v).
Proof. destruct v as [|x v]; cbn; [apply (hom_0 phi) | apply hom_fold, hom_nmin]. Qed.
Lemma hom_ptp v : phi (ptp v) = ptp (ev v).
Proof. unfold ptp. rewrite (hom_sub phi), hom_vmax, hom_vmin. reflexivity. Qed.
Lemma ev_insert x l : ev (insert x l) = insert (phi x) (ev l).
Proof.
  induction l as [|y l IH]; cbn; [reflexivity|]. rewrite <- (hom_leb phi).
  destruct (nleb x y); cbn; [reflexivity | rewrite IH; reflexivity].
Qed.
Lemma ev_isort v : ev (isort v) = isort (ev v).
Proof. unfold isort. induction v as [|x v IH]; cbn; [reflexivity|]. rewrite ev_insert, IH. reflexivity. Qed.
Lemma hom_quantile a b v : phi (quantile a b v) = quantile a b (ev v).
Proof.
  unfold quantile. cbv zeta.
  rewrite (hom_add phi), (hom_mul phi), (hom_sub phi), (hom_div phi), !hom_nofnat, !(ev_nth0 phi), ev_isort, map_length.
  reflexivity.
Qed.
Lemma hom_q1q3 v : phi (q1q3 v) = q1q3 (ev v).
Proof. unfold q1q3. rewrite (hom_sub phi), !hom_quantile. reflexivity. Qed.
Lemma hom_norm1 k v : phi (norm1 k v) = norm1 k (ev v).
Proof. destruct k; cbn; [apply hom_ptp | apply hom_var1 | apply hom_mean | apply hom_q1q3]. Qed.
Lemma hom_mse1 y p : phi (mse1 y p) = mse1 (ev y) (ev p).
Proof. unfold mse1. rewrite hom_mean, ev_sqdiff. reflexivity. Qed.
Lemma hom_sstot y : phi (sstot y) = sstot (ev y).
Proof. unfold sstot. rewrite (ev_vsum phi), ev_map_sq, ev_center. reflexivity. Qed.
Lemma hom_rsquare1 y p : phi (rsquare1 y p) = rsquare1 (ev y) (ev p).
Proof. unfold rsquare1. rewrite (hom_sub phi), (hom_1 phi), (hom_div phi), (ev_vsum phi), ev_sqdiff, hom_sstot. reflexivity. Qed.

(* ---- axis-0 reductions ---- *)
Lemma ev_sum0 c m : ev (sum0 c m) = sum0 c (em m).
Proof. unfold sum0. induction m as [|r m IH]; cbn; [apply (ev_vzeros phi)|]. rewrite (ev_vadd phi), IH. reflexivity. Qed.
Lemma ev_mean0 c m : ev (mean0 c m) = mean0 c (em m).
Proof.
  unfold mean0. rewrite <- ev_sum0, !map_map, map_length. apply map_ext. intros.
  rewrite (hom_div phi), hom_nofnat. reflexivity.
Qed.
Lemma em_msqdiff y p : em (msqdiff y p) = msqdiff (em y) (em p).
Proof.
  unfold msqdiff. revert p. induction y as [|a y IH]; intros [|b p]; cbn [combine map fst snd]; try reflexivity.
  rewrite ev_sqdiff, IH. reflexivity.
Qed.
Lemma em_subrow m mu : em (subrow m mu) = subrow (em m) (ev mu).
Proof. unfold subrow. rewrite !map_map. apply map_ext. intros; apply (ev_vsub phi). Qed.
Lemma em_msq m : em (msq m) = msq (em m).
Proof. unfold msq. rewrite !map_map. apply map_ext. intros; apply ev_map_sq. Qed.
Lemma ev_var0 c m : ev (var0 c m) = var0 c (em m).
Proof. unfold var0. rewrite ev_mean0, em_msq, em_subrow, ev_mean0. reflexivity. Qed.
Lemma ev_fold_vzip (f : F -> F -> F) (g : G -> G -> G) : (forall a b, phi (f a b) = g (phi a) (phi b)) ->
  forall r m, ev (fold_right (vzip f) r m) = fold_right (vzip g) (ev r) (em m).
Proof. intros E r m. induction m as [|a m IH]; cbn; [reflexivity|]. rewrite (ev_vzip phi f g E), IH. reflexivity. Qed.
Lemma ev_max0 m : ev (max0 m) = max0 (em m).
Proof. destruct m as [|r m]; cbn; [reflexivity | apply ev_fold_vzip, hom_nmax]. Qed.
Lemma ev_min0 m : ev (min0 m) = min0 (em m).
Proof. destruct m as [|r m]; cbn; [reflexivity | apply ev_fold_vzip, hom_nmin]. Qed.
Lemma ev_ptp0 m : ev (ptp0 m) = ptp0 (em m).
Proof. unfold ptp0. rewrite (ev_vsub phi), ev_max0, ev_min0. reflexivity. Qed.
Lemma ev_col j m : ev (col j m) = col j (em m).
Proof. unfold col. rewrite !map_map. apply map_ext. intros; apply (ev_nth0 phi). Qed.
Lemma em_cols c m : em (cols c m) = cols c (em m).
Proof. unfold cols. rewrite map_map. apply map_ext. intros; apply ev_col. Qed.
Lemma ev_q1q3_0 c m : ev (q1q3_0 c m) = q1q3_0 c (em m).
Proof. unfold q1q3_0. rewrite <- em_cols, !map_map. apply map_ext. intros; apply hom_q1q3. Qed.
Lemma ev_norm0 k c m : ev (norm0 k c m) = norm0 k c (em m).
Proof. destruct k; cbn; [apply ev_ptp0 | apply ev_var0 | apply ev_mean0 | apply ev_q1q3_0]. Qed.
Lemma ev_mse0 c y p : ev (mse0 c y p) = mse0 c (em y) (em p).
Proof. unfold mse0. rewrite ev_mean0, em_msqdiff. reflexivity. Qed.
Lemma ev_rsquare0 c y p : ev (rsquare0 c y p) = rsquare0 c (em y) (em p).
Proof.
  unfold rsquare0.
  rewrite (ev_vzip phi _ (fun d D => nsub n1 (ndiv d D))).
  - rewrite !ev_sum0, em_msqdiff, em_msq, em_subrow, ev_mean0. reflexivity.
  - intros. rewrite (hom_sub phi), (hom_1 phi), (hom_div phi). reflexivity.
Qed.

(* ---- the dimensionwise switch ---- *)
Lemma e_reduce {T T'} (g : T -> T') dw y p (f1 : list F -> list F -> T) (f0 : nat -> list (list F) -> list (list F) -> list T)
    (f1' : list G -> list G -> T') (f0' : nat -> list (list G) -> list (list G) -> list T') :
  (forall a b, g (f1 a b) = f1' (ev a) (ev b)) ->
  (forall c a b, map g (f0 c a b) = f0' c (em a) (em b)) ->
  esum g (reduce dw y p f1 f0) = reduce dw (earr y) (earr p) f1' f0'.
Proof.
  intros E1 E0. unfold reduce. rewrite e_check_arrays. destruct (check_arrays y p); [|reflexivity].
  rewrite !rows2_earr, !flat_earr, nfeat_earr. destruct dw; cbn.
  - destruct (rows2 y), (rows2 p); cbn; rewrite ?E1, ?E0; reflexivity.
  - rewrite E1. reflexivity.
Qed.
Lemma tores_esum r : tores (esum phi r) = option_map eres (tores r).
Proof. destruct r as [[x|v]|]; reflexivity. Qed.

Lemma e_mse dw y p : mse dw (earr y) (earr p) = option_map eres (mse dw y p).
Proof. unfold mse. rewrite <- tores_esum. f_equal. symmetry. apply e_reduce; [apply hom_mse1 | apply ev_mse0]. Qed.
Lemma e_rsquare dw y p : rsquare dw (earr y) (earr p) = option_map eres (rsquare dw y p).
Proof. unfold rsquare. rewrite <- tores_esum. f_equal. symmetry. apply e_reduce; [apply hom_rsquare1 | apply ev_rsquare0]. Qed.
Lemma e_rsquare_parts dw y p : rsquare_parts dw (earr y) (earr p) = esum epair (rsquare_parts dw y p).
Proof.
  unfold rsquare_parts. symmetry. apply e_reduce.
  - intros. unfold epair. cbn [fst snd]. rewrite (ev_vsum phi), ev_sqdiff, hom_sstot. reflexivity.
  - intros. unfold epair. rewrite map_combine, !ev_sum0, em_msqdiff, em_msq, em_subrow, ev_mean0. reflexivity.
Qed.
Lemma e_nrmse_parts dw k y p : nrmse_parts dw k (earr y) (earr p) = esum epair (nrmse_parts dw k y p).
Proof.
  unfold nrmse_parts. symmetry. apply e_reduce.
  - intros. unfold epair. cbn [fst snd]. rewrite hom_mse1, hom_norm1. reflexivity.
  - intros. unfold epair. rewrite map_combine, ev_mse0, ev_norm0. reflexivity.
Qed.
Lemma e_nrmse_parts_nv dw nv y p : nrmse_parts_nv dw (phi nv) (earr y) (earr p) = esum epair (nrmse_parts_nv dw nv y p).
Proof.
  unfold nrmse_parts_nv. symmetry. apply e_reduce.
  - intros. unfold epair. cbn [fst snd]. rewrite hom_mse1. reflexivity.
  - intros. rewrite <- ev_mse0, !map_map. reflexivity.
Qed.
Lemma em_eff_matrix lr W : em (eff_matrix lr W) = eff_matrix (phi lr) (em W).
Proof. unfold eff_matrix. rewrite (em_madd phi), !(em_mscale phi), (hom_sub phi), (hom_1 phi), (em_eye phi), map_length. reflexivity. Qed.
End BridgeC19.

(* ================================================================== the instance Q -> R *)
Notation qarr := (earr Q2R).
Notation qres := (eres Q2R).
Notation qpair := (epair Q2R).

(* every metric of the model, on 1-D / 2-D / 3-D arrays, dimensionwise or not (None = the shape mismatch, on both sides) *)
Lemma Qmetrics_embed :
  (forall (dw : bool) (y p : arr Q), mse dw (qarr y) (qarr p) = option_map qres (mse dw y p)) /\
  (forall (dw : bool) (y p : arr Q), rsquare dw (qarr y) (qarr p) = option_map qres (rsquare dw y p)) /\
  (forall (dw : bool) (y p : arr Q), rsquare_parts dw (qarr y) (qarr p) = esum qpair (rsquare_parts dw y p)) /\
  (forall (dw : bool) (k : normk) (y p : arr Q), nrmse_parts dw k (qarr y) (qarr p) = esum qpair (nrmse_parts dw k y p)) /\
  (forall (dw : bool) (nv : Q) (y p : arr Q), nrmse_parts_nv dw (Q2R nv) (qarr y) (qarr p) = esum qpair (nrmse_parts_nv dw nv y p)) /\
  (forall (lr : Q) (W : list (list Q)), eff_matrix (Q2R lr) (qm2r W) = qm2r (eff_matrix lr W)).
Proof.
  repeat split; intros.
  - apply (e_mse Q2R). - apply (e_rsquare Q2R). - apply (e_rsquare_parts Q2R). - apply (e_nrmse_parts Q2R).
  - apply (e_nrmse_parts_nv Q2R). - symmetry. apply (em_eff_matrix Q2R).
Qed.

(* the 1-D building blocks the theorems of props/C19.v are stated about *)
Lemma Qmetrics_1d_embed :
  (forall y p : list Q, Q2R (mse1 y p) = mse1 (qv2r y) (qv2r p)) /\
  (forall y p : list Q, Q2R (rsquare1 y p) = rsquare1 (qv2r y) (qv2r p)) /\
  (forall y : list Q, Q2R (sstot y) = sstot (qv2r y)) /\
  (forall (k : normk) (y : list Q), Q2R (norm1 k y) = norm1 k (qv2r y)) /\
  (forall (a b : nat) (v : list Q), Q2R (quantile a b v) = quantile a b (qv2r v)) /\
  (forall v : list Q, qv2r (isort v) = isort (qv2r v)) /\
  (forall v : list Q, Q2R (vmax v) = vmax (qv2r v) /\ Q2R (vmin v) = vmin (qv2r v)).
Proof.
  repeat split; intros.
  - apply (hom_mse1 Q2R). - apply (hom_rsquare1 Q2R). - apply (hom_sstot Q2R). - apply (hom_norm1 Q2R).
  - apply (hom_quantile Q2R). - apply (ev_isort Q2R). - apply (hom_vmax Q2R). - apply (hom_vmin Q2R).
Qed.

(* a concrete instance: 2-D arrays, dimensionwise nrmse parts with the q1q3 norm (sort + interpolation), evaluated at R *)
Definition c19_exy : arr Q := A2 [[(1#2)%Q; (3#1)%Q]; [(-1#4)%Q; (2#1)%Q]; [(5#2)%Q; (-1#1)%Q]; [(1#1)%Q; (7#2)%Q]; [(0#1)%Q; (1#2)%Q]].
Definition c19_exp : arr Q := A2 [[(1#1)%Q; (5#2)%Q]; [(0#1)%Q; (2#1)%Q]; [(2#1)%Q; (-1#2)%Q]; [(1#1)%Q; (3#1)%Q]; [(1#4)%Q; (1#1)%Q]].
Example Qmetrics_nrmse_example :
  nrmse_parts true Q1Q3 (qarr c19_exy) (qarr c19_exp)
  = Some (inr [(Q2R (1#8)%Q, Q2R (1#1)%Q); (Q2R (1#5)%Q, Q2R (5#2)%Q)]).
Proof.
  destruct Qmetrics_embed as (_ & _ & _ & Hn & _). rewrite Hn.
  vm_compute (nrmse_parts true Q1Q3 c19_exy c19_exp). reflexivity.
Qed.

(* ================================================================== the verdict of the correspondence runner, read at R *)
From RV Require Import run.RunC19.

(* [cmp] of the runner as a proposition over an arbitrary result type *)
Definition cmpP {T} (P : T -> oq -> Prop) (m : option (T + list T)) (o : obs) : Prop :=
  match m, o with
  | None, OErr => True
  | Some (inl x), OS y => P x y
  | Some (inr v), OV w => Forall2 P v w
  | _, _ => False
  end.
Definition ofresF {F} (r : option (res F)) : option (F + list F) :=
  match r with None => None | Some (RS x) => Some (inl x) | Some (RV v) => Some (inr v) end.

Lemma all2_Forall2 {T T'} (g : T -> T') (f : T -> oq -> bool) (P : T' -> oq -> Prop) :
  (forall x o, f x o = true -> P (g x) o) -> forall v w, all2 f v w = true -> Forall2 P (map g v) w.
Proof.
  intros E v. induction v as [|a v IH]; intros [|b w] Hx; cbn in *; try discriminate; constructor.
  - apply andb_true_iff in Hx. apply E, Hx.
  - apply andb_true_iff in Hx. apply IH, Hx.
Qed.
Lemma cmp_cmpP {T T'} (g : T -> T') (f : T -> oq -> bool) (P : T' -> oq -> Prop) :
  (forall x o, f x o = true -> P (g x) o) -> forall m o, cmp f m o = true -> cmpP P (esum g m) o.
Proof.
  intros E [[x|v]|] [|y|w] Hx; cbn in *; try discriminate; auto.
  eapply all2_Forall2; eauto.
Qed.
Lemma ofresF_qres (r : option (res Q)) : ofresF (option_map qres r) = esum Q2R (ofres r).
Proof. destruct r as [[x|v]|]; reflexivity. Qed.

(* what the runner's per-entry tests say about the embedded numbers *)
Definition close_to (m : R) (ox : oq) : Prop := exists x, ox = Some x /\ rclose m (Q2R x).
Definition close_if_finite (m : R) (ox : oq) : Prop := forall x, ox = Some x -> rclose m (Q2R x).
Definition sq_close_to (m : R) (ox : oq) : Prop := exists x, ox = Some x /\ (0 <= Q2R x)%R /\ rclose m (Q2R x * Q2R x)%R.
(* nrmse: norm = 0 <-> observed not finite;  otherwise observed^2 = mse / norm^2 and observed has the sign of the norm *)
Definition nrmse_okR (mn : R * R) (ox : oq) : Prop :=
  (snd mn = 0%R /\ ox = None) \/
  (snd mn <> 0%R /\ exists x, ox = Some x /\ rclose (fst mn / (snd mn * snd mn))%R (Q2R x * Q2R x)%R /\ (0 <= Q2R x * snd mn)%R).
(* R^2: SS_tot = 0 <-> observed not finite;  otherwise observed = 1 - d / D *)
Definition rsq_okR (dD : R * R) (ox : oq) : Prop :=
  (snd dD = 0%R /\ ox = None) \/ (snd dD <> 0%R /\ exists x, ox = Some x /\ rclose (1 - fst dD / snd dD)%R (Q2R x)).

Lemma Q2R_0' : Q2R 0%Q = 0%R.
Proof. change (Q2R 0) with (Q2R n0). apply Q2R_n0. Qed.
Lemma Q2R_1' : Q2R 1%Q = 1%R.
Proof. change (Q2R 1) with (Q2R n1). apply Q2R_n1. Qed.
Lemma qzero_true n : qzero n = true -> Q2R n = 0%R.
Proof. unfold qzero. intros E. apply Qeq_bool_eq in E. rewrite (Qeq_eqR _ _ E). apply Q2R_0'. Qed.
Lemma qzero_false n : qzero n = false -> Q2R n <> 0%R.
Proof.
  unfold qzero. intros E Hx. apply Qeq_bool_neq in E. apply E. apply eqR_Qeq. rewrite Hx. symmetry. apply Q2R_0'.
Qed.
Lemma Q2R_div_total (a b : Q) : Q2R (a / b)%Q = (Q2R a / Q2R b)%R.
Proof. unfold Qdiv, Rdiv. rewrite Q2R_mult, Q2R_inv_total. reflexivity. Qed.

Lemma oclose_close_to m o : oclose m o = true -> close_to (Q2R m) o.
Proof. destruct o as [x|]; cbn; [|discriminate]. intros Hx. exists x. split; [reflexivity | apply qclose_rclose, Hx]. Qed.
Lemma oclose_fin_close m o : oclose_fin m o = true -> close_if_finite (Q2R m) o.
Proof. intros Hx x ->. apply qclose_rclose, Hx. Qed.
Lemma nrmse_ok_R mn o : nrmse_ok mn o = true -> nrmse_okR (qpair mn) o.
Proof.
  destruct mn as [m n]. unfold nrmse_ok, nrmse_okR, epair. cbn [fst snd].
  destruct (qzero n) eqn:Z.
  - destruct o; [discriminate|]. intros _. left. split; [apply qzero_true, Z | reflexivity].
  - destruct o as [x|]; [|discriminate]. intros Hx. apply andb_true_iff in Hx. destruct Hx as [Hc Hs].
    right. split; [apply qzero_false, Z|]. exists x. split; [reflexivity|]. split.
    + apply qclose_rclose in Hc. rewrite !Q2R_Qred, Q2R_div_total, !Q2R_mult in Hc. exact Hc.
    + apply Qle_bool_iff, Qle_Rle in Hs. rewrite Q2R_mult, Q2R_0' in Hs. exact Hs.
Qed.
Lemma rsq_ok_R dD o : rsq_ok dD o = true -> rsq_okR (qpair dD) o.
Proof.
  destruct dD as [d D]. unfold rsq_ok, rsq_okR, epair. cbn [fst snd].
  destruct (qzero D) eqn:Z.
  - destruct o; [discriminate|]. intros _. left. split; [apply qzero_true, Z | reflexivity].
  - intros Hx. right. split; [apply qzero_false, Z|]. apply oclose_close_to in Hx. destruct Hx as (x & -> & Hc).
    exists x. split; [reflexivity|]. rewrite Q2R_Qred, Q2R_minus, Q2R_div_total, Q2R_1' in Hc. exact Hc.
Qed.

Lemma chk_metrics_are_about_R_model :
  (forall dw y p o, chk_mse dw y p o = true -> cmpP close_to (ofresF (mse dw (qarr y) (qarr p))) o) /\
  (forall dw y p o, chk_rmse dw y p o = true -> cmpP sq_close_to (ofresF (rmse_sq dw (qarr y) (qarr p))) o) /\
  (forall dw k y p o, chk_nrmse dw k y p o = true -> cmpP nrmse_okR (nrmse_parts dw k (qarr y) (qarr p)) o) /\
  (forall dw nv y p o, chk_nrmse_nv dw nv y p o = true -> cmpP nrmse_okR (nrmse_parts_nv dw (Q2R nv) (qarr y) (qarr p)) o) /\
  (forall dw y p o, chk_rsquare dw y p o = true ->
     cmpP rsq_okR (rsquare_parts dw (qarr y) (qarr p)) o /\ cmpP close_if_finite (ofresF (rsquare dw (qarr y) (qarr p))) o) /\
  (forall lr W M, chk_effmat lr W M = true -> mrclose (eff_matrix (Q2R lr) (qm2r W)) (qm2r M)) /\
  (forall a b v o, chk_quantile a b v o = true -> rclose (quantile a b (qv2r v)) (Q2R o)).
Proof.
  destruct Qmetrics_embed as (Hm & Hr & Hrp & Hn & Hnv & He).
  split; [|split; [|split; [|split; [|split; [|split]]]]].
  - intros dw y p o. unfold chk_mse. rewrite Hm, ofresF_qres. apply cmp_cmpP. apply oclose_close_to.
  - intros dw y p o. unfold chk_rmse, rmse_sq. rewrite Hm, ofresF_qres. apply cmp_cmpP.
    intros m [x|]; [|discriminate]. intros Hx. apply andb_true_iff in Hx. destruct Hx as [H0 Hc].
    exists x. split; [reflexivity|]. split.
    + apply Qle_bool_iff, Qle_Rle in H0. rewrite Q2R_0' in H0. exact H0.
    + apply qclose_rclose in Hc. rewrite Q2R_Qred, Q2R_mult in Hc. exact Hc.
  - intros dw k y p o. unfold chk_nrmse. rewrite Hn. apply cmp_cmpP. apply nrmse_ok_R.
  - intros dw nv y p o. unfold chk_nrmse_nv. rewrite Hnv. apply cmp_cmpP. apply nrmse_ok_R.
  - intros dw y p o. unfold chk_rsquare. intros Hx. apply andb_true_iff in Hx. destruct Hx as [H1 H2]. split.
    + rewrite Hrp. revert H1. apply cmp_cmpP. apply rsq_ok_R.
    + rewrite Hr, ofresF_qres. revert H2. apply cmp_cmpP. apply oclose_fin_close.
  - intros lr W M. unfold chk_effmat. rewrite He. apply mclose_mrclose.
  - intros a b v o. unfold chk_quantile. rewrite <- (hom_quantile Q2R). apply qclose_rclose.
Qed.
