(* C16 - the v0.3 ESN built by load_compat computes the same states and outputs as the v0.2 ESN it was built from
   (model/Store.v, part 2), at F := R.  List-level proofs of  x @ W = W^T x  and  x @ A^T = A x. *)
From Coq Require Import Reals Lra List Arith Lia.
From RV Require Import base.Num base.LA model.Store.
Import ListNotations.
Open Scope R_scope.

Notation vec := (list R).
Notation mat := (list (list R)).

(* ---- vadd is commutative / associative whatever the lengths (zip truncation) ---- *)
Lemma vadd_comm : forall a b : vec, vadd a b = vadd b a.
Proof. unfold vadd. induction a as [|x a IH]; intros [|y b]; simpl; try reflexivity. f_equal; [numR; ring|apply IH]. Qed.
Lemma vadd_assoc : forall a b c : vec, vadd (vadd a b) c = vadd a (vadd b c).
Proof. unfold vadd. induction a as [|x a IH]; intros [|y b] [|z c]; simpl; try reflexivity. f_equal; [numR; ring|apply IH]. Qed.
Lemma vadd_zeros_r : forall (a : vec) n, length a = n -> vadd a (vzeros n) = a.
Proof. unfold vadd. induction a as [|x a IH]; intros [|n] Hl; simpl in *; try discriminate; [reflexivity|]. f_equal; [numR; ring|apply IH; lia]. Qed.

(* ---- row-vector times matrix, column by column ---- *)
Lemma vm_cons_col : forall (x : vec) (W : mat) k, (forall row, In row W -> length row = S k) ->
  vm x W (S k) = dot (map (hd 0) W) x :: vm x (map (@tl R) W) k.
Proof.
  induction x as [|a x IH]; intros W k Hrows.
  - destruct W; simpl; reflexivity.
  - destruct W as [|row W]; [reflexivity|]. simpl.
    assert (Hrow : length row = S k) by (apply Hrows; left; reflexivity).
    destruct row as [|r0 rt]; [discriminate|].
    rewrite IH by (intros r Hr; apply Hrows; right; exact Hr).
    unfold vadd, vscale. simpl.
    f_equal. numR. ring.
Qed.
(* x @ W = W^T x   (W: any number of rows, n columns) *)
Lemma vm_transpose : forall n (W : mat) (x : vec), (forall row, In row W -> length row = n) ->
  vm x W n = mv (transpose W n) x.
Proof.
  induction n as [|k IH]; intros W x Hrows.
  - simpl. destruct x as [|a x]; [reflexivity|]. destruct W as [|row W]; [reflexivity|]. simpl.
    assert (length row = 0%nat) by (apply Hrows; left; reflexivity). destruct row; [reflexivity|discriminate].
  - rewrite vm_cons_col by exact Hrows. simpl. f_equal. apply IH.
    intros row Hr. apply in_map_iff in Hr. destruct Hr as [r [<- Hr]]. specialize (Hrows r Hr). destruct r; simpl in *; lia.
Qed.

(* A (a :: x) = a * (first column) + (other columns) x *)
Lemma mv_cons_col (A : mat) (a : R) (x : vec) : (forall row, In row A -> row <> []) ->
  mv A (a :: x) = vadd (vscale a (map (hd 0) A)) (mv (map (@tl R) A) x).
Proof.
  induction A as [|row A IH]; intros Hne; [reflexivity|]. simpl.
  assert (row <> []) by (apply Hne; left; reflexivity). destruct row as [|r0 rt]; [congruence|].
  rewrite IH by (intros r Hr; apply Hne; right; exact Hr).
  unfold vadd. simpl.
  f_equal. numR. ring.
Qed.
Lemma mv_nil_cols (A : mat) (x : vec) : (forall row, In row A -> length row = 0%nat) -> mv A x = vzeros (length A).
Proof.
  induction A as [|row A IH]; intros H0; [reflexivity|]. simpl.
  assert (length row = 0%nat) by (apply H0; left; reflexivity).
  destruct row; [|discriminate]. rewrite IH by (intros r Hr; apply H0; right; exact Hr). reflexivity.
Qed.
Lemma mv_nil (A : mat) : mv A [] = vzeros (length A).
Proof.
  induction A as [|row A IH]; [reflexivity|]. simpl. rewrite IH. destruct row; reflexivity.
Qed.
Lemma vadd_zeros_l : forall (a : vec) n, length a = n -> vadd (vzeros n) a = a.
Proof. intros. rewrite vadd_comm. apply vadd_zeros_r. assumption. Qed.
(* x @ A^T = A x   (A: m rows of length n; x of any length) *)
Lemma vm_transpose_r : forall n (A : mat) (x : vec), (forall row, In row A -> length row = n) ->
  vm x (transpose A n) (length A) = mv A x.
Proof.
  induction n as [|k IH]; intros A x Hrows.
  - simpl. rewrite mv_nil_cols by exact Hrows. destruct x; reflexivity.
  - destruct x as [|a x].
    + simpl. rewrite mv_nil. reflexivity.
    + simpl. rewrite mv_cons_col by (intros r Hr E; specialize (Hrows r Hr); rewrite E in Hrows; discriminate).
      f_equal. rewrite <- (IH (map (@tl R) A) x).
      * rewrite map_length. reflexivity.
      * intros row Hr. apply in_map_iff in Hr. destruct Hr as [r [<- Hr]]. specialize (Hrows r Hr). destruct r; simpl in *; lia.
Qed.

(* [1, u] @ Win.T = Win[:, 1:] u + Win[:, 0]   (rows may even be empty: hd defaults to 0) *)
Lemma mv_add_bias (A : mat) (u : vec) : mv A (add_bias u) = vadd (mv (map (@tl R) A) u) (map (hd 0) A).
Proof.
  induction A as [|row A IH]; [reflexivity|]. simpl. unfold mv, add_bias, vadd in *. rewrite IH.
  destruct row as [|r0 rt]; simpl; numR; f_equal; ring.
Qed.

(* ---- load_compat ---- *)
Section Equiv.
Variable L : legacy (F:=R).
Variables f g : vec -> vec.
Hypothesis Hshape : legacy_shaped L.

Lemma split_win_spec u :
  mv (lWin L) (if lbias L then add_bias u else u) = vadd (mv (fst (split_win L)) u) (snd (split_win L)).
Proof.
  destruct Hshape as [_ [HWin _]]. unfold split_win. destruct (lbias L); simpl.
  - apply mv_add_bias.
  - symmetry. apply vadd_zeros_r. unfold mv. rewrite map_length. exact HWin.
Qed.

Lemma convert_pre x u fb : v3_pre (convert L) g x u fb = legacy_pre L g x u fb.
Proof.
  destruct Hshape as [HW _]. unfold v3_pre, legacy_pre, convert.
  pose proof (split_win_spec u) as Hs. destruct (split_win L) as [Win b] eqn:E. simpl in *.
  rewrite Hs, (vm_transpose (lN L) (lW L) x HW).
  assert (Hlin : vadd (vadd (mv (transpose (lW L) (lN L)) x) (mv Win u)) b = vadd (vadd (mv Win u) b) (mv (transpose (lW L) (lN L)) x)).
  { rewrite (vadd_comm (vadd (mv Win u) b)). rewrite vadd_assoc. reflexivity. }
  rewrite Hlin. destruct (lWfb L); reflexivity.
Qed.
Lemma convert_step x u fb : v3_step (convert L) f g x u fb = legacy_step L f g x u fb.
Proof.
  unfold v3_step, legacy_step. rewrite convert_pre. unfold convert. destruct (split_win L). reflexivity.
Qed.
Lemma convert_out Wo x : lWout L = Some Wo ->
  exists Wb, vWout (convert L) = Some Wb /\ v3_out Wb x = legacy_out Wo x.
Proof.
  intros HWo. destruct Hshape as [_ [_ HWout]]. rewrite HWo in HWout.
  unfold convert. destruct (split_win L). simpl. rewrite HWo. simpl. eexists; split; [reflexivity|].
  unfold v3_out, legacy_out. simpl. rewrite mv_add_bias. f_equal. rewrite map_length.
  rewrite <- (map_length (@tl R) Wo). apply vm_transpose_r.
  intros row Hr. apply in_map_iff in Hr. destruct Hr as [r [<- Hr]]. specialize (HWout r Hr). destruct r; simpl in *; lia.
Qed.
Lemma convert_wfb : vWfb (convert L) = lWfb L.
Proof. unfold convert. destruct (split_win L). reflexivity. Qed.

(* whole sequences, with or without feedback / a trained readout, from any state and any initial feedback *)
Lemma convert_run : forall us x fb, v3_run (convert L) f g x fb us = legacy_run L f g x fb us.
Proof.
  induction us as [|u us IH]; intros x fb; [reflexivity|]. simpl. rewrite convert_step, convert_wfb.
  destruct (lWout L) as [Wo|] eqn:HWo.
  - destruct (convert_out Wo (legacy_step L f g x u fb) HWo) as [Wb [HWb Hout]]. rewrite HWb, Hout, IH. reflexivity.
  - assert (HN : vWout (convert L) = None) by (unfold convert; destruct (split_win L); simpl; rewrite HWo; reflexivity).
    rewrite HN, IH. reflexivity.
Qed.
End Equiv.
