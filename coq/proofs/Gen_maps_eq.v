(* Tie (T) for the map generators of C20: logistic_map, henon_map and narma as GENERATED on this run from the current source text of
   datasets/_chaos.py (coq/gen/Gen_maps.v: arrays filled element by element inside `for i in range(a, b)`) are the hand-written
   model/Datasets.v about which the C20 theorems are stated -- for EVERY Num instance (the equalities are structural). *)
From Coq Require Import List Bool Arith Lia.
From RV Require Import base.Num base.LA base.GenPrelude gen.Gen_maps model.Datasets.
Import ListNotations.

Section GenMapsEq.
Context {F : Type} `{Num F}.
Notation vec := (list F).

Lemma vupd_upd : forall i (v : F) l, vupd i v l = upd i v l.
Proof. intros i v l; revert i. induction l as [|x l IH]; intros [|i]; cbn; try reflexivity; now rewrite IH. Qed.
Lemma vupd_app (l : vec) (v z : F) (Z : vec) : vupd (length l) v (l ++ z :: Z) = l ++ v :: Z.
Proof. induction l as [|x l IH]; cbn; [reflexivity|]. now rewrite IH. Qed.
Lemma fold_left_ext_in {A B} (f g : A -> B -> A) (l : list B) : forall a,
  (forall a b, In b l -> f a b = g a b) -> fold_left f l a = fold_left g l a.
Proof. induction l as [|b l IH]; intros a E; [reflexivity|]. cbn. rewrite (E a b (or_introl eq_refl)). apply IH.
  intros a' b' Hin. apply E. now right. Qed.

(* ---------------------------------------------------------------- orbits filled into an array *)
Fixpoint iter {T} (f : T -> T) (k : nat) (s : T) : T := match k with O => s | S k' => iter f k' (f s) end.
Lemma iter_S {T} (f : T -> T) : forall k s, iter f (S k) s = f (iter f k s).
Proof. induction k as [|k IH]; intros s; [reflexivity|]. cbn [iter]. rewrite <- IH. reflexivity. Qed.
Lemma orbit_length {T} (f : T -> T) : forall n s, length (orbit f n s) = n.
Proof. induction n; intros s; cbn; [reflexivity|]. now rewrite IHn. Qed.
Lemma orbit_snoc {T} (f : T -> T) : forall n s, orbit f (S n) s = orbit f n s ++ [iter f n s].
Proof. induction n as [|n IH]; intros s; [reflexivity|]. change (orbit f (S (S n)) s) with (s :: orbit f (S n) (f s)).
  rewrite IH. reflexivity. Qed.
Lemma nth_orbit_last {T} (f : T -> T) (d : T) : forall a s (Z : list T), nth a (orbit f (S a) s ++ Z) d = iter f a s.
Proof. intros a s Z. rewrite orbit_snoc, <- app_assoc. rewrite app_nth2 by (rewrite orbit_length; lia).
  rewrite orbit_length, Nat.sub_diag. reflexivity. Qed.

(* logistic_map *)
Lemma fill_orbit (f : F -> F) (x0 : F) : forall m a (Z : vec), length Z = m ->
  fold_left (fun X i => vupd i (f (nth (i - 1) X n0)) X) (seq (S a) m) (orbit f (S a) x0 ++ Z) = orbit f (S a + m) x0.
Proof.
  induction m as [|m IH]; intros a Z HZ.
  - destruct Z; [|discriminate]. cbn [seq fold_left]. now rewrite app_nil_r, Nat.add_0_r.
  - destruct Z as [|z Z]; [discriminate|]. cbn [seq fold_left].
    replace (S a - 1) with a by lia. rewrite nth_orbit_last.
    pose proof (vupd_app (orbit f (S a) x0) (f (iter f a x0)) z Z) as E. rewrite orbit_length in E. rewrite E. clear E.
    replace (orbit f (S a) x0 ++ f (iter f a x0) :: Z) with (orbit f (S (S a)) x0 ++ Z)
      by (rewrite (orbit_snoc f (S a)), iter_S, <- app_assoc; reflexivity).
    rewrite IH by (cbn in HZ; lia). f_equal. lia.
Qed.

Lemma gen_logistic_eq (n : nat) (r x0 : F) : 1 <= n ->
  option_map (map (fun x => [x])) (GenMaps.logistic_map n r x0) = logistic_map n r x0.
Proof.
  intros Hn. destruct n as [|n]; [lia|].
  assert (E : for_range 1 (S n) (fun X i => vupd i (nmul (nmul r (nth (i - 1) X n0)) (nsub n1 (nth (i - 1) X n0))) X) (vupd 0 x0 (vzeros (S n)))
              = orbit (logistic_step r) (S n) x0).
  { unfold for_range. replace (S n - 1) with n by lia. change (vupd 0 x0 (vzeros (S n))) with (orbit (logistic_step r) 1 x0 ++ vzeros n).
    exact (fill_orbit (logistic_step r) x0 n 0 (vzeros n) (repeat_length _ _)). }
  unfold GenMaps.logistic_map, logistic_map.
  destruct (nltb n0 r && (nltb n0 x0 && nltb x0 n1)) eqn:C.
  - rewrite E. reflexivity.
  - destruct (nleb r n0); reflexivity.
Qed.

(* narma *)
Lemma skipn_repeat {A} (z : A) : forall k m, skipn k (repeat z m) = repeat z (m - k).
Proof. induction k as [|k IH]; intros [|m]; cbn; try reflexivity. apply IH. Qed.

Lemma gen_narma_eq (n order : nat) (a1 a2 b c : F) (x0 u : vec) :
  GenMaps.narma n order a1 a2 b c x0 u = skipn order (narma_array n order a1 a2 b c x0 u)
  /\ narma n order a1 a2 b c x0 u = map (fun v => [v]) (GenMaps.narma n order a1 a2 b c x0 u).
Proof.
  assert (E : GenMaps.narma n order a1 a2 b c x0 u = skipn order (narma_array n order a1 a2 b c x0 u)).
  { unfold GenMaps.narma, narma_array, for_range. f_equal.
    replace (n + order - 1 - order) with (n - 1) by lia.
    replace (vset_prefix (vzeros (n + order)) x0) with (narma_init n order x0)
      by (unfold vset_prefix, narma_init, vzeros; now rewrite skipn_repeat).
    apply fold_left_ext_in. intros y t Hin. apply in_seq in Hin. unfold narma_body, narma_rhs, vslice_sum.
    rewrite vupd_upd. replace (t - order + 1) with (t + 1 - order) by lia. replace (t + 1 - (t + 1 - order)) with order by lia. reflexivity. }
  split; [exact E|]. unfold narma. now rewrite E.
Qed.

(* henon_map: rows [x; y] *)
Definition hrow (s : F * F) : vec := [fst s; snd s].
Lemma mupd_row_app (L : list vec) (r z : vec) (Z : list vec) : mupd_row (length L) r (L ++ z :: Z) = L ++ r :: Z.
Proof. induction L as [|x L IH]; cbn; [reflexivity|]. now rewrite IH. Qed.
Lemma nth_app_len {A} (L : list A) (z d : A) (Z : list A) : nth (length L) (L ++ z :: Z) d = z.
Proof. rewrite app_nth2 by lia. now rewrite Nat.sub_diag. Qed.
Lemma nth_map_orbit_last (st : F * F -> F * F) : forall a s (Z : list vec),
  nth a (map hrow (orbit st (S a) s) ++ Z) [] = hrow (iter st a s).
Proof. intros a s Z. rewrite orbit_snoc, map_app, <- app_assoc. rewrite app_nth2 by (rewrite map_length, orbit_length; lia).
  rewrite map_length, orbit_length, Nat.sub_diag. reflexivity. Qed.

Definition henon_body (a b : F) (states : list vec) (i : nat) : list vec :=
  let states := mupd i 0 (nadd (nsub n1 (nmul a (nmul (nth 0 (nth (i - 1) states []) n0) (nth 0 (nth (i - 1) states []) n0)))) (nth 1 (nth (i - 1) states []) n0)) states in
  mupd i 1 (nmul b (nth 0 (nth (i - 1) states []) n0)) states.

Lemma henon_one_step (a b x y : F) (L : list vec) (k : nat) (Z : list vec) :
  length L = S k -> nth k L [] = [x; y] ->
  henon_body a b (L ++ [n0; n0] :: Z) (S k) = L ++ [nadd (nsub n1 (nmul a (nmul x x))) y; nmul b x] :: Z.
Proof.
  intros HL Hk. unfold henon_body. cbv zeta. replace (S k - 1) with k by lia.
  assert (P : forall r, nth k (L ++ r :: Z) [] = [x; y]) by (intros r; rewrite app_nth1 by lia; exact Hk).
  assert (Q : forall r, nth (S k) (L ++ r :: Z) [] = r) by (intros r; rewrite <- HL; apply nth_app_len).
  assert (U : forall r r', mupd_row (S k) r' (L ++ r :: Z) = L ++ r' :: Z) by (intros r r'; rewrite <- HL; apply mupd_row_app).
  assert (M0 : forall v p q, mupd (S k) 0 v (L ++ [p; q] :: Z) = L ++ [v; q] :: Z) by (intros v p q; unfold mupd; rewrite Q, U; reflexivity).
  assert (M1 : forall w p q, mupd (S k) 1 w (L ++ [p; q] :: Z) = L ++ [p; w] :: Z) by (intros w p q; unfold mupd; rewrite Q, U; reflexivity).
  rewrite !P, M0, P, M1. reflexivity.
Qed.

Lemma fill_henon (a b : F) (s0 : F * F) : forall m k (Z : list vec), Z = repeat [n0; n0] m ->
  fold_left (henon_body a b) (seq (S k) m) (map hrow (orbit (henon_step a b) (S k) s0) ++ Z)
  = map hrow (orbit (henon_step a b) (S k + m) s0).
Proof.
  induction m as [|m IH]; intros k Z HZ; subst Z.
  - cbn [seq fold_left repeat]. now rewrite app_nil_r, Nat.add_0_r.
  - cbn [seq fold_left repeat].
    set (L := map hrow (orbit (henon_step a b) (S k) s0)).
    assert (HL : length L = S k) by (unfold L; now rewrite map_length, orbit_length).
    destruct (iter (henon_step a b) k s0) as [x y] eqn:Ek.
    assert (Hk : nth k L [] = [x; y]).
    { pose proof (nth_map_orbit_last (henon_step a b) k s0 []) as E. rewrite app_nil_r in E. fold L in E. rewrite E, Ek. reflexivity. }
    rewrite (henon_one_step a b x y L k _ HL Hk).
    replace (L ++ [nadd (nsub n1 (nmul a (nmul x x))) y; nmul b x] :: repeat [n0; n0] m)
      with (map hrow (orbit (henon_step a b) (S (S k)) s0) ++ repeat [n0; n0] m).
    + rewrite IH by reflexivity. f_equal. f_equal. lia.
    + rewrite (orbit_snoc (henon_step a b) (S k)), map_app, <- app_assoc. fold L. rewrite iter_S, Ek. reflexivity.
Qed.

Lemma gen_henon_eq (n : nat) (a b x y : F) : 1 <= n ->
  Some (GenMaps.henon_map n a b [x; y]) = henon_map n a b x y.
Proof.
  intros Hn. destruct n as [|n]; [lia|]. unfold GenMaps.henon_map, henon_map, for_range. f_equal.
  replace (S n - 1) with n by lia.
  change (set_row0 (mzeros (S n) 2) [x; y]) with (map hrow (orbit (henon_step a b) 1 (x, y)) ++ repeat [n0; n0] n).
  exact (fill_henon a b (x, y) n 0 (repeat [n0; n0] n) eq_refl).
Qed.
End GenMapsEq.
