(* C17: proofs about model/Windows.v, for every element type / every Num instance. *)
From Coq Require Import List Arith Bool Lia Sorted.
From RV Require Import base.Num base.LA base.ListX model.Windows.
Import ListNotations.

Section Delay.
Context {F : Type} `{Num F}.
Notation vec := (list F).

Lemma delay_step_snoc (b : list vec) (l x : vec) :
  delay_step (b ++ [l]) x = (x :: b, l).
Proof.
  unfold delay_step. f_equal.
  - change (x :: b ++ [l]) with ((x :: b) ++ [l]). apply removelast_last.
  - change (x :: b ++ [l]) with ((x :: b) ++ [l]). apply last_last.
Qed.

Lemma delay_run_spec (xs : list vec) : forall buf,
  snd (delay_run buf xs) = firstn (length xs) (rev buf ++ xs) /\
  fst (delay_run buf xs) = firstn (length buf) (rev xs ++ buf).
Proof.
  induction xs as [|x xs IH]; intros buf.
  - cbn. split; [reflexivity|]. rewrite firstn_all. reflexivity.
  - cbn [delay_run].
    destruct buf as [|b0 bt] using rev_ind.
    + (* delay = 0 *) cbn.
      destruct (delay_run [] xs) as [b2 os] eqn:E.
      destruct (IH []) as [I1 I2]. rewrite E in I1, I2. cbn in *. subst. split; reflexivity.
    + clear IHbt. rewrite delay_step_snoc.
      destruct (delay_run (x :: bt) xs) as [b2 os] eqn:E.
      destruct (IH (x :: bt)) as [I1 I2]. rewrite E in I1, I2. cbn [fst snd] in *.
      split.
      * rewrite rev_app_distr. cbn [rev app length firstn]. f_equal.
        rewrite I1. cbn [rev]. rewrite <- app_assoc. reflexivity.
      * rewrite I2. cbn [rev length]. rewrite <- app_assoc. cbn [app].
        rewrite app_length. cbn [length].
        replace (length bt + 1) with (S (length bt)) by lia.
        symmetry. apply firstn_snoc_drop.
Qed.

(* Output at step t: the supplied initial values, last one first, then the input of [delay] steps earlier. *)
Theorem delay_output_at (init xs : list vec) (t : nat) (dflt : vec) :
  t < length xs ->
  nth t (snd (delay_run init xs)) dflt =
    if t <? length init then nth (length init - 1 - t) init dflt else nth (t - length init) xs dflt.
Proof.
  intros Ht. destruct (delay_run_spec xs init) as [-> _].
  rewrite nth_firstn_lt by lia.
  destruct (t <? length init) eqn:E.
  - apply Nat.ltb_lt in E. rewrite app_nth1 by (rewrite rev_length; lia).
    rewrite rev_nth by lia. f_equal. lia.
  - apply Nat.ltb_ge in E. rewrite app_nth2 by (rewrite rev_length; lia). rewrite rev_length. reflexivity.
Qed.

Theorem delay_zero (xs : list vec) : snd (delay_run [] xs) = xs.
Proof. destruct (delay_run_spec xs []) as [-> _]. cbn. apply firstn_all. Qed.

Theorem delay_buffer_length (init xs : list vec) : length (fst (delay_run init xs)) = length init.
Proof.
  destruct (delay_run_spec xs init) as [_ ->]. rewrite firstn_length, app_length. lia.
Qed.

(* time-compositionality of the buffer, used by C07 *)
Theorem delay_run_app (xs ys : list vec) : forall buf,
  delay_run buf (xs ++ ys) =
    let '(b1, o1) := delay_run buf xs in let '(b2, o2) := delay_run b1 ys in (b2, o1 ++ o2).
Proof.
  induction xs as [|x xs IH]; intros buf; cbn [app delay_run].
  - destruct (delay_run buf ys); reflexivity.
  - destruct (delay_step buf x) as [b1 o]. rewrite IH.
    destruct (delay_run b1 xs) as [b2 os]. destruct (delay_run b2 ys). reflexivity.
Qed.
End Delay.

(* ------------------------------------------------------------------ strided selection *)
Section Stride.
Context {A : Type}.

Lemma every_from_nth (s : nat) : forall (l : list A) k j d, 0 < s ->
  nth j (every_from s k l) d = nth (k + j * s) l d.
Proof.
  induction l as [|a l IH]; intros k j d Hs.
  - cbn. destruct j, (k + _); reflexivity.
  - cbn [every_from]. destruct k as [|k].
    + destruct j as [|j]; [reflexivity|]. cbn [nth]. rewrite IH by assumption.
      replace (0 + S j * s) with (S (s - 1 + j * s)) by lia. reflexivity.
    + rewrite IH by assumption. reflexivity.
Qed.

Lemma every_from_length (s : nat) : forall (l : list A) k, 0 < s ->
  length (every_from s k l) = (length l + s - 1 - k) / s.
Proof.
  induction l as [|a l IH]; intros k Hs.
  - cbn. symmetry. apply Nat.div_small. lia.
  - cbn [every_from length]. destruct k as [|k].
    + cbn [length]. rewrite IH by assumption.
      replace (S (length l) + s - 1 - 0) with (length l + s - 1 - (s - 1) + 1 * s) by lia.
      rewrite Nat.div_add by lia. lia.
    + rewrite IH by assumption. f_equal. lia.
Qed.

Lemma stride_nth (s : nat) (l : list A) j d : 0 < s -> nth j (stride s l) d = nth (j * s) l d.
Proof. intros. unfold stride. rewrite every_from_nth by assumption. reflexivity. Qed.

Lemma stride_length_mul (s k : nat) (l : list A) : 0 < s -> length l = k * s -> length (stride s l) = k.
Proof.
  intros Hs Hl. unfold stride. rewrite every_from_length by assumption. rewrite Hl.
  replace (k * s + s - 1 - 0) with ((s - 1) + k * s) by lia.
  rewrite Nat.div_add by lia. rewrite Nat.div_small by lia. lia.
Qed.
End Stride.

(* ------------------------------------------------------------------ NVAR *)
Section NVAR.
Context {F : Type} `{Num F}.
Notation vec := (list F).

Lemma nvar_run_store (order s : nat) (xs : list vec) : forall store, 0 < length store ->
  fst (nvar_run order s store xs) = firstn (length store) (rev xs ++ store).
Proof.
  induction xs as [|x xs IH]; intros store Hst.
  - cbn. rewrite firstn_all. reflexivity.
  - cbn [nvar_run]. unfold nvar_step at 1.
    set (st1 := x :: removelast store).
    destruct (nvar_run order s st1 xs) as [s2 os] eqn:E. cbn [fst].
    specialize (IH st1). rewrite E in IH. cbn [fst] in IH. rewrite IH by (subst st1; cbn; lia). subst st1.
    destruct store as [|b0 bt] using rev_ind.
    + cbn in Hst. lia.
    + clear IHbt. rewrite removelast_last. cbn [length rev].
      rewrite app_length. cbn [length]. replace (length bt + 1) with (S (length bt)) by lia.
      rewrite <- !app_assoc. cbn [app].
      symmetry. apply firstn_snoc_drop.
Qed.

(* the store seen by step t (0-based) of a run over xs *)
Definition store_at (store0 : list vec) (xs : list vec) (t : nat) : list vec :=
  firstn (length store0) (rev (firstn (S t) xs) ++ store0).

Definition nvar_out (order s : nat) (st : list vec) : vec :=
  let lin := concat (stride s st) in lin ++ monomials lin (cwr (length lin) order).

Lemma nvar_step_out order s store x :
  nvar_step order s store x = (x :: removelast store, nvar_out order s (x :: removelast store)).
Proof. reflexivity. Qed.

Lemma nvar_run_outputs (order s : nat) (xs : list vec) : forall store t d, 0 < length store ->
  t < length xs ->
  nth t (snd (nvar_run order s store xs)) d = nvar_out order s (store_at store xs t).
Proof.
  induction xs as [|x xs IH]; intros store t d Hst Ht; [cbn in Ht; lia|].
  cbn [nvar_run]. rewrite nvar_step_out.
  set (st1 := x :: removelast store).
  assert (Hl1 : length st1 = length store).
  { subst st1. destruct store as [|b0 bt] using rev_ind; [cbn in Hst; lia|].
    rewrite removelast_last, app_length. cbn. lia. }
  assert (Hst1 : st1 = firstn (length store) (x :: store)).
  { subst st1. destruct store as [|b0 bt] using rev_ind; [cbn in Hst; lia|].
    rewrite removelast_last, app_length. cbn [length]. replace (length bt + 1) with (S (length bt)) by lia.
    cbn [firstn]. f_equal. rewrite firstn_app, firstn_all. replace (length bt - length bt) with 0 by lia.
    cbn. rewrite app_nil_r. reflexivity. }
  destruct (nvar_run order s st1 xs) as [s2 os] eqn:E. cbn [snd].
  destruct t as [|t].
  - cbn [nth]. unfold store_at. cbn [firstn rev app]. f_equal. rewrite Hst1. reflexivity.
  - cbn [nth]. specialize (IH st1 t d). rewrite E in IH. cbn [snd] in IH.
    rewrite IH by (cbn in Ht; lia). f_equal. unfold store_at. rewrite Hl1.
    cbn [firstn rev]. rewrite <- app_assoc. cbn [app].
    (* firstn L (R ++ st1) = firstn L (R ++ x :: store) where st1 = firstn L (x::store) *)
    rewrite Hst1. set (R := rev (firstn (S t) xs)). set (L := length store).
    rewrite !firstn_app. f_equal. rewrite firstn_firstn. f_equal. lia.
Qed.

(* Row j of the strided window at step t: the input of j*s steps earlier, zeros before the start of the data. *)
Theorem nvar_window_row (delay s dim : nat) (xs : list vec) (t j : nat) : 0 < s -> 0 < delay ->
  t < length xs -> j < delay ->
  nth j (stride s (store_at (nvar_init delay s dim) xs t)) [] =
    if j * s <=? t then nth (t - j * s) xs [] else vzeros dim.
Proof.
  intros Hs Hd Ht Hj. rewrite stride_nth by assumption. unfold store_at, nvar_init.
  rewrite repeat_length.
  assert (j * s < delay * s) by nia.
  rewrite nth_firstn_lt by assumption.
  assert (Hlen : length (rev (firstn (S t) xs)) = S t) by (rewrite rev_length, firstn_length; lia).
  destruct (j * s <=? t) eqn:E.
  - apply Nat.leb_le in E. rewrite app_nth1 by lia. rewrite rev_nth by (rewrite firstn_length; lia).
    rewrite firstn_length. replace (Nat.min (S t) (length xs)) with (S t) by lia.
    rewrite nth_firstn_lt by lia.
    f_equal; lia.
  - apply Nat.leb_gt in E. rewrite app_nth2 by lia. rewrite Hlen.
    apply nth_repeat_any. lia.
Qed.

Theorem nvar_window_rows (delay s dim : nat) (xs : list vec) (t : nat) : 0 < s -> 0 < delay -> t < length xs ->
  length (stride s (store_at (nvar_init delay s dim) xs t)) = delay.
Proof.
  intros Hs Hd Ht. apply stride_length_mul; [assumption|]. unfold store_at, nvar_init.
  rewrite repeat_length, firstn_length, app_length, repeat_length. lia.
Qed.
End NVAR.

(* ------------------------------------------------------------------ combinations with replacement *)
Fixpoint wincr (lo : nat) (c : list nat) : Prop :=
  match c with [] => True | i :: c' => lo <= i /\ wincr i c' end.

Lemma cwr_from_spec (k n : nat) : forall lo c,
  In c (cwr_from k n lo) <-> length c = k /\ wincr lo c /\ Forall (fun i => i < n) c.
Proof.
  induction k as [|k IH]; intros lo c.
  - cbn. split.
    + intros [<-|[]]. repeat split; constructor.
    + intros (Hl & _ & _). destruct c; [auto|discriminate].
  - cbn [cwr_from]. rewrite in_flat_map. split.
    + intros (i & Hi & Hc). apply in_seq in Hi. apply in_map_iff in Hc. destruct Hc as (c' & <- & Hc').
      apply IH in Hc'. destruct Hc' as (Hl & Hw & Hf). cbn. repeat split; try lia; auto.
      constructor; [lia|assumption].
    + intros (Hl & Hw & Hf). destruct c as [|i c']; [discriminate|]. cbn in Hl, Hw. destruct Hw as [Hlo Hw].
      inversion Hf as [|? ? Hi Hf']; subst. exists i. split; [apply in_seq; lia|].
      apply in_map. apply IH. repeat split; auto.
Qed.

(* strict lexicographic order on equal-length index lists *)
Fixpoint lexlt (a b : list nat) : Prop :=
  match a, b with
  | x :: a', y :: b' => x < y \/ (x = y /\ lexlt a' b')
  | _, _ => False
  end.

Lemma lexlt_irrefl a : ~ lexlt a a.
Proof. induction a; cbn; [tauto|]. intros [H|[_ H]]; [lia|auto]. Qed.

Lemma sorted_map_cons i (l : list (list nat)) :
  StronglySorted lexlt l -> StronglySorted lexlt (map (cons i) l).
Proof.
  induction 1 as [|a l Hs IH Hf]; cbn; constructor; auto.
  rewrite Forall_map. eapply Forall_impl; [|exact Hf]. cbn. intros b Hb. right. split; auto.
Qed.

Lemma sorted_app (l1 l2 : list (list nat)) :
  StronglySorted lexlt l1 -> StronglySorted lexlt l2 ->
  (forall a b, In a l1 -> In b l2 -> lexlt a b) -> StronglySorted lexlt (l1 ++ l2).
Proof.
  induction 1 as [|a l Hs IH Hf]; intros H2 Hx; cbn; [assumption|].
  constructor.
  - apply IH; auto. intros; apply Hx; cbn; auto.
  - apply Forall_app. split; [assumption|]. apply Forall_forall. intros b Hb. apply Hx; cbn; auto.
Qed.

Lemma cwr_from_sorted (k n : nat) : forall lo, StronglySorted lexlt (cwr_from k n lo).
Proof.
  induction k as [|k IH]; intros lo.
  - cbn. constructor; constructor.
  - cbn [cwr_from].
    assert (G : forall len lo', StronglySorted lexlt
                  (flat_map (fun i => map (cons i) (cwr_from k n i)) (seq lo' len)) /\
                (forall c, In c (flat_map (fun i => map (cons i) (cwr_from k n i)) (seq lo' len)) ->
                           exists i c', c = i :: c' /\ lo' <= i)).
    { induction len as [|len IHl]; intros lo'.
      - cbn. split; [constructor|intros c []].
      - cbn [seq flat_map]. destruct (IHl (S lo')) as [S1 S2]. split.
        + apply sorted_app; [apply sorted_map_cons, IH|exact S1|].
          intros a b Ha Hb. apply in_map_iff in Ha. destruct Ha as (a' & <- & _).
          apply S2 in Hb. destruct Hb as (i & c' & -> & Hi). cbn. left. lia.
        + intros c Hc. apply in_app_or in Hc. destruct Hc as [Hc|Hc].
          * apply in_map_iff in Hc. destruct Hc as (a' & <- & _). eauto.
          * apply S2 in Hc. destruct Hc as (i & c' & -> & Hi). exists i, c'. split; [reflexivity|lia]. }
    apply G.
Qed.

Lemma strongly_sorted_nodup (l : list (list nat)) : StronglySorted lexlt l -> NoDup l.
Proof.
  induction 1 as [|a l Hs IH Hf]; constructor; auto.
  intros Hin. rewrite Forall_forall in Hf. apply (lexlt_irrefl a). apply Hf. exact Hin.
Qed.

(* itertools.combinations_with_replacement(range(n), k): exactly the weakly increasing k-tuples over [0,n),
   each once, in lexicographic order. *)
Theorem cwr_spec (n k : nat) :
  (forall c, In c (cwr n k) <-> length c = k /\ wincr 0 c /\ Forall (fun i => i < n) c) /\
  StronglySorted lexlt (cwr n k) /\ NoDup (cwr n k).
Proof.
  unfold cwr. split; [intros c; apply cwr_from_spec|]. split; [apply cwr_from_sorted|].
  apply strongly_sorted_nodup, cwr_from_sorted.
Qed.

(* ------------------------------------------------------------------ Concat *)
Section Concat.
Context {F : Type} `{Num F}.
Theorem concat_forward_app (a b : list (list F)) : concat_forward (a ++ b) = concat_forward a ++ concat_forward b.
Proof. apply concat_app. Qed.
Theorem concat_forward_length (data : list (list F)) :
  length (concat_forward data) = list_sum (map (@length F) data).
Proof. unfold concat_forward. induction data as [|a data IH]; cbn; [reflexivity|]. rewrite app_length, IH. reflexivity. Qed.
End Concat.
