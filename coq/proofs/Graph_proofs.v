(* C03 — proofs about model/Graph.v.  Part 1 is the port of spikes/spike_kahn.v (Kahn: soundness, acceptance of every
   rankable digraph, termination), generalised to an arbitrary order of the entry list; the order of the edge list
   (hence of every children list) is arbitrary as well, since the statements hold for every duplicate-free list E0. *)
From Coq Require Import List Arith Lia Bool Permutation.
From RV Require Import model.Graph.
Import ListNotations.

Lemma edge_eqb_spec a b : reflect (a = b) (edge_eqb a b).
Proof. destruct a as [a1 a2], b as [b1 b2]; unfold edge_eqb; simpl.
  destruct (Nat.eqb_spec a1 b1), (Nat.eqb_spec a2 b2); simpl; constructor; congruence. Qed.

(* soundness: every edge goes forward in the result *)
Definition before (l:list node) (u v:node) := exists l1 l2 l3, l = l1 ++ u :: l2 ++ v :: l3.

Lemma remove_edge_In e x E : In x (remove_edge e E) <-> In x E /\ x <> e.
Proof. unfold remove_edge. rewrite filter_In. destruct (edge_eqb_spec e x); simpl; intuition congruence. Qed.

Lemma has_in_false m E : has_in m E = false <-> forall e, In e E -> snd e <> m.
Proof. unfold has_in. split.
  - intros H e He Hs. assert (existsb (fun e => snd e =? m) E = true).
    { apply existsb_exists. exists e. split; auto. now apply Nat.eqb_eq. } congruence.
  - intros H. destruct (existsb (fun e => snd e =? m) E) eqn:Ex; auto. apply existsb_exists in Ex as [e [He Hs]].
    apply Nat.eqb_eq in Hs. exfalso. eapply H; eauto. Qed.

Lemma has_in_mono m E E' : (forall e, In e E' -> In e E) -> has_in m E = false -> has_in m E' = false.
Proof. rewrite !has_in_false. firstorder. Qed.

Lemma children_In E0 n m : In m (children E0 n) <-> In (n,m) E0.
Proof. unfold children. rewrite in_map_iff. split.
  - intros [[a b] [Hb Hf]]. simpl in Hb. subst. apply filter_In in Hf as [Hi Hn]. simpl in Hn.
    apply Nat.eqb_eq in Hn. subst. auto.
  - intros H. exists (n,m). split; auto. apply filter_In. simpl. rewrite Nat.eqb_refl. auto. Qed.

Lemma relax_edges n ms : forall E st E1 st1, relax n ms E st = (E1, st1) ->
  forall e, In e E1 <-> In e E /\ ~ (fst e = n /\ In (snd e) ms).
Proof. induction ms as [|m ms IH]; intros E st E1 st1 H e; simpl in H.
  - inversion H; subst. simpl. intuition.
  - assert (HH: In e E1 <-> In e (remove_edge (n,m) E) /\ ~ (fst e = n /\ In (snd e) ms)).
    { destruct (has_in m (remove_edge (n,m) E)); eapply IH; eauto. }
    rewrite HH, remove_edge_In. destruct e as [a b]; simpl. split.
    + intros [[H1 H2] H3]. split; auto. intros [Ha [Hb|Hb]]; subst; [apply H2; reflexivity | apply H3; auto].
    + intros [H1 H2]. repeat split; auto.
      * intros Heq; inversion Heq; subst; apply H2; auto.
      * intros [Ha Hb]; apply H2; auto.
Qed.

Lemma relax_stack n ms : forall E st E1 st1, relax n ms E st = (E1, st1) ->
  exists new, st1 = new ++ st /\ (forall m, In m new -> In m ms /\ has_in m E1 = false).
Proof. induction ms as [|m ms IH]; intros E st E1 st1 H; simpl in H.
  - inversion H; subst. exists []. simpl. intuition.
  - destruct (has_in m (remove_edge (n,m) E)) eqn:Hh.
    + apply IH in H as [new [-> Hn]]. exists new. split; auto. intros x Hx. destruct (Hn x Hx). simpl; auto.
    + pose proof (relax_edges _ _ _ _ _ _ H) as HE. apply IH in H as [new [-> Hn]].
      exists (new ++ [m]). split; [now rewrite <- app_assoc|].
      intros x Hx. apply in_app_or in Hx as [Hx|[<-|[]]].
      * destruct (Hn x Hx). simpl; auto.
      * split; [simpl; auto|]. eapply has_in_mono; [|exact Hh]. intros e He. apply HE in He. tauto.
Qed.

(* a node whose last incoming edge is removed by relax ends up on the stack *)
Lemma relax_pushes n ms : forall E st E1 st1, relax n ms E st = (E1, st1) ->
  forall m, In m ms -> has_in m E1 = false -> In m st1.
Proof. induction ms as [|m0 ms IH]; intros E st E1 st1 H m Hm Hf; simpl in *; [tauto|].
  destruct (has_in m0 (remove_edge (n,m0) E)) eqn:Hh.
  - destruct Hm as [<-|Hm]; [|eapply IH; eauto].
    (* m0 still had an incoming edge after removing (n,m0); it must be removed later, i.e. m0 occurs again in ms *)
    destruct (in_dec Nat.eq_dec m0 ms) as [Hi|Hi]; [eapply IH; eauto|].
    exfalso. pose proof (relax_edges _ _ _ _ _ _ H) as HE.
    unfold has_in in Hh. apply existsb_exists in Hh as [e [He Hs]]. apply Nat.eqb_eq in Hs.
    rewrite has_in_false in Hf. apply (Hf e); auto. apply (proj2 (HE e)). split; [exact He|].
    intros [_ Hc]. apply Hi. rewrite <- Hs. exact Hc.
  - destruct Hm as [<-|Hm]; [|eapply IH; eauto].
    apply relax_stack in H as [new [-> _]]. apply in_or_app. right. simpl; auto.
Qed.

(* ---------- helpers ---------- *)
Lemma NoDup_app_iff {A} (a b : list A) :
  NoDup (a ++ b) <-> NoDup a /\ NoDup b /\ (forall x, In x a -> ~ In x b).
Proof. induction a as [|x a IH]; simpl.
  - split; [intros H; repeat split; auto; constructor | tauto].
  - split.
    + intros H. inversion H as [|? ? Hx Hnd]; subst. apply IH in Hnd as [Ha [Hb Hd]].
      repeat split; auto.
      * constructor; auto. intros Hi. apply Hx. apply in_or_app; auto.
      * intros y [<-|Hy]; [intros Hi; apply Hx; apply in_or_app; auto | auto].
    + intros [Ha [Hb Hd]]. inversion Ha as [|? ? Hx Hnd]; subst. constructor.
      * intros Hi. apply in_app_or in Hi as [Hi|Hi]; [auto| eapply Hd; eauto].
      * apply IH. repeat split; auto.
Qed.

Lemma relax_new_nodup n ms : NoDup ms -> forall E st E1 st1, relax n ms E st = (E1, st1) ->
  exists new, st1 = new ++ st /\ NoDup new /\ (forall m, In m new -> In m ms /\ has_in m E1 = false).
Proof. induction ms as [|m ms IH]; intros Hnd E st E1 st1 H; simpl in H.
  - inversion H; subst. exists []. simpl. repeat split; [constructor|tauto|tauto].
  - inversion Hnd as [|? ? Hnot Hnd']; subst.
    destruct (has_in m (remove_edge (n,m) E)) eqn:Hh.
    + apply IH in H as [new [-> [Hn1 Hn]]]; auto. exists new. repeat split; auto; destruct (Hn m0 H); simpl; auto.
    + pose proof (relax_edges _ _ _ _ _ _ H) as HE. apply IH in H as [new [-> [Hn1 Hn]]]; auto.
      exists (new ++ [m]). split; [now rewrite <- app_assoc|]. split.
      * apply NoDup_app_iff. repeat split; auto. { constructor; [simpl; tauto|constructor]. }
        intros x Hx Hxm. destruct Hxm as [Hxm|[]]. subst x. destruct (Hn _ Hx) as [Hq _]. auto.
      * intros x Hx. apply in_app_or in Hx as [Hx|[<-|[]]].
        -- destruct (Hn x Hx). simpl; auto.
        -- split; [simpl; auto|]. eapply has_in_mono; [|exact Hh]. intros e He. apply HE in He. tauto.
Qed.

Lemma children_nodup E0 n : NoDup E0 -> NoDup (children E0 n).
Proof. unfold children. induction E0 as [|[a b] E0 IH]; intros H; simpl; [constructor|].
  inversion H as [|? ? Hx Hnd]; subst. destruct (Nat.eqb_spec a n); simpl; auto.
  subst. constructor; auto. intros Hi. apply Hx. apply in_map_iff in Hi as [[a' b'] [Hb Hf]]. simpl in Hb; subst.
  apply filter_In in Hf as [Hf Hn]. simpl in Hn. apply Nat.eqb_eq in Hn. subst. auto. Qed.

Section Outer.
Variable V : list node.
Variable E0 : list edge.
Hypothesis HndE : NoDup E0.
Hypothesis HwfE : forall e, In e E0 -> In (fst e) V /\ In (snd e) V.

Record Inv (st:list node) (E:list edge) (acc:list node) : Prop := {
  iE   : forall e, In e E <-> In e E0 /\ ~ In (fst e) acc;
  iSrc : forall v, In v (st ++ acc) -> has_in v E = false;
  iAll : forall v, In v V -> has_in v E = false -> In v (st ++ acc);
  iOrd : forall l1 v l2, acc = l1 ++ v :: l2 -> forall u, In (u,v) E0 -> In u l2;
  iND  : NoDup (st ++ acc);
  iV   : forall v, In v (st ++ acc) -> In v V }.

Lemma Inv_step n st E acc E1 st1 :
  Inv (n :: st) E acc -> relax n (children E0 n) E st = (E1, st1) -> Inv st1 E1 (n :: acc).
Proof.
  intros [iE iSrc iAll iOrd iND iV] H.
  pose proof (relax_edges _ _ _ _ _ _ H) as HE.
  pose proof (relax_pushes _ _ _ _ _ _ H) as HP.
  destruct (relax_new_nodup _ _ (children_nodup _ n HndE) _ _ _ _ H) as [new [-> [Hnew Hn]]].
  assert (Hn_acc : ~ In n acc).
  { simpl in iND. inversion iND as [|? ? Hx _]; subst. intros Hi. apply Hx. apply in_or_app; auto. }
  assert (HE1sub : forall e, In e E1 -> In e E) by (intros e He; apply HE in He; tauto).
  split.
  - (* iE *) intros e. rewrite HE, iE. simpl. split.
    + intros [[H0 Ha] Hc]. split; [exact H0|]. intros [Heq|Hi]; [|exact (Ha Hi)].
      apply Hc. split; [symmetry; exact Heq|]. apply children_In. destruct e as [a b]; simpl in *. subst a. exact H0.
    + intros [H0 Hc]. repeat split; auto. intros [Hf _]. apply Hc. auto.
  - (* iSrc *) intros v Hv. apply in_app_or in Hv as [Hv|Hv].
    + apply in_app_or in Hv as [Hv|Hv]; [apply Hn; auto|].
      eapply has_in_mono; [exact HE1sub|]. apply iSrc. simpl. right. apply in_or_app; auto.
    + eapply has_in_mono; [exact HE1sub|]. apply iSrc. simpl in Hv. simpl.
      destruct Hv as [<-|Hv]; [auto| right; apply in_or_app; auto].
  - (* iAll *) intros v Hv Hf. destruct (has_in v E) eqn:Hh.
    + (* lost its last incoming edge during relax *)
      unfold has_in in Hh. apply existsb_exists in Hh as [e [He Hs]]. apply Nat.eqb_eq in Hs.
      assert (Hne : ~ In e E1). { intros Hi. rewrite has_in_false in Hf. apply (Hf e Hi Hs). }
      assert (Hc : fst e = n /\ In (snd e) (children E0 n)).
      { destruct e as [a b]; simpl in *.
        destruct (Nat.eq_dec a n) as [->|Hna].
        - split; auto. apply children_In. apply iE in He. tauto.
        - exfalso. apply Hne. apply HE. split; auto. simpl. tauto. }
      destruct Hc as [_ Hc]. rewrite Hs in Hc. apply in_or_app. left. eapply HP; eauto.
    + specialize (iAll v Hv Hh). simpl in iAll. destruct iAll as [<-|Hi].
      * apply in_or_app. right. simpl; auto.
      * apply in_app_or in Hi as [Hi|Hi]; apply in_or_app; [left; apply in_or_app; auto | right; simpl; auto].
  - (* iOrd *) intros l1 v l2 Heq u Hu. destruct l1 as [|x l1]; simpl in Heq; inversion Heq; subst.
    + (* v = n : all parents of n already processed *)
      destruct (in_dec Nat.eq_dec u l2) as [Hi|Hi]; auto. exfalso.
      assert (In (u,v) E) by (apply iE; simpl; auto).
      assert (Hf : has_in v E = false) by (apply iSrc; simpl; auto).
      rewrite has_in_false in Hf. apply (Hf (u,v)); auto.
    + eapply iOrd; eauto.
  - (* iND *) simpl in iND. inversion iND as [|? ? Hx Hnd]; subst.
    rewrite <- app_assoc. apply NoDup_app_iff. split; [auto|]. split.
    + apply NoDup_app_iff in Hnd as [Hst [Hacc Hd]]. apply NoDup_app_iff. repeat split; auto.
      * constructor; auto.
      * intros x Hxs [<-|Hxa]; [apply Hx; apply in_or_app; auto | eapply Hd; eauto].
    + (* new nodes had an incoming edge before, so they were neither on the stack nor done *)
      intros m Hm Hi. destruct (Hn m Hm) as [Hc _]. apply children_In in Hc.
      assert (HinE : In (n,m) E) by (apply iE; simpl; auto).
      assert (Hf : has_in m E = false).
      { apply iSrc. simpl. apply in_app_or in Hi as [Hi|Hi].
        - right. apply in_or_app; auto.
        - simpl in Hi. destruct Hi as [Heq|Hi]; [left; exact Heq | right; apply in_or_app; auto]. }
      rewrite has_in_false in Hf. apply (Hf (n,m)); auto.
  - (* iV *) intros v Hv. apply in_app_or in Hv as [Hv|Hv].
    + apply in_app_or in Hv as [Hv|Hv].
      * destruct (Hn v Hv) as [Hc _]. apply children_In in Hc. apply HwfE in Hc. tauto.
      * apply iV. simpl. right. apply in_or_app; auto.
    + apply iV. simpl in *. destruct Hv as [<-|Hv]; auto. right. apply in_or_app; auto.
Qed.

Variable ents : list node.
Hypothesis HndEnts : NoDup ents.
Hypothesis Hents : forall v, In v ents <-> In v V /\ has_in v E0 = false.

Lemma Inv_init : Inv (rev ents) E0 [].
Proof. split.
  - intros e. simpl. tauto.
  - intros v Hv. rewrite app_nil_r in Hv. apply in_rev in Hv. apply Hents in Hv. tauto.
  - intros v Hv Hf. rewrite app_nil_r. apply -> in_rev. apply Hents. auto.
  - intros l1 v l2 Heq. destruct l1; discriminate.
  - rewrite app_nil_r. now apply NoDup_rev.
  - intros v Hv. rewrite app_nil_r in Hv. apply in_rev in Hv. apply Hents in Hv. tauto.
Qed.

Theorem kahn_sound : forall fuel st E acc l, Inv st E acc -> kahn fuel E0 st E acc = Sorted l ->
  NoDup l /\ (forall v, In v l <-> In v V) /\ (forall u v, In (u,v) E0 -> before l u v).
Proof.
  induction fuel as [|f IH]; intros st E acc l HI H; simpl in H; [discriminate|].
  destruct st as [|n st].
  - destruct E as [|e E]; [|discriminate]. inversion H; subst l. clear H.
    destruct HI as [iE iSrc iAll iOrd iND iV]. simpl in *. repeat split.
    + now apply NoDup_rev.
    + intros Hv. apply iV. now apply in_rev.
    + intros Hv. apply -> in_rev. apply iAll; auto.
    + intros u v Huv. assert (Hv : In v acc). { apply iAll; auto. apply (HwfE _ Huv). }
      apply in_split in Hv as [l1 [l2 Heq]]. pose proof (iOrd _ _ _ Heq u Huv) as Hu.
      apply in_split in Hu as [l3 [l4 Heq2]]. subst l2. subst acc.
      exists (rev l4), (rev l3), (rev l1). 
      repeat (rewrite rev_app_distr; simpl). repeat rewrite <- app_assoc. simpl. reflexivity.
  - destruct (relax n (children E0 n) E st) as [E1 st1] eqn:Hr.
    eapply IH; [|exact H]. eapply Inv_step; eauto.
Qed.

Theorem kahn_cycle_no_rank : forall fuel st E acc, Inv st E acc -> kahn fuel E0 st E acc = Cycle ->
  forall rank : node -> nat, ~ (forall u v, In (u,v) E0 -> rank u < rank v).
Proof.
  induction fuel as [|f IH]; intros st E acc HI H rank Hrank; simpl in H; [discriminate|].
  destruct st as [|n st].
  - destruct E as [|e0 E]; [discriminate|]. clear H.
    destruct HI as [iE iSrc iAll iOrd iND iV]. simpl in *.
    assert (Hno : forall k e, In e (e0 :: E) -> rank (fst e) <> k).
    { induction k as [k IHk] using lt_wf_ind. intros [u v] He Hk. simpl in Hk.
      pose proof (proj1 (iE _) He) as [He0 Hu]. simpl in Hu.
      destruct (has_in u (e0 :: E)) eqn:Hh.
      - unfold has_in in Hh. apply existsb_exists in Hh as [[w u'] [He' Hs]]. simpl in Hs.
        apply Nat.eqb_eq in Hs. subst u'. pose proof (proj1 (iE _) He') as [He0' _].
        apply Hrank in He0'. apply (IHk (rank w)) with (e := (w,u)); auto. lia.
      - apply Hu. apply iAll; auto. apply (HwfE _ He0). }
    apply (Hno (rank (fst e0)) e0); simpl; auto.
  - destruct (relax n (children E0 n) E st) as [E1 st1] eqn:Hr.
    eapply IH; [|exact H|exact Hrank]. eapply Inv_step; eauto.
Qed.

Theorem kahn_fuel_enough : forall fuel st E acc, Inv st E acc -> length V < fuel + length acc ->
  kahn fuel E0 st E acc <> OutOfFuel.
Proof.
  induction fuel as [|f IH]; intros st E acc HI Hlen; simpl.
  - exfalso. destruct HI as [iE iSrc iAll iOrd iND iV].
    assert (length acc <= length V).
    { apply NoDup_incl_length. - apply NoDup_app_iff in iND. tauto. - intros x Hx. apply iV. apply in_or_app; auto. }
    simpl in Hlen. lia.
  - destruct st as [|n st]; [destruct E; discriminate|].
    destruct (relax n (children E0 n) E st) as [E1 st1] eqn:Hr.
    apply IH; [eapply Inv_step; eauto| simpl; lia].
Qed.

(* top-level statements about [topo] *)
Corollary topo_sound l : topo ents V E0 = Sorted l ->
  NoDup l /\ (forall v, In v l <-> In v V) /\ (forall u v, In (u,v) E0 -> before l u v).
Proof. apply kahn_sound, Inv_init. Qed.

Corollary topo_rejects_only_unrankable : topo ents V E0 = Cycle ->
  forall rank : node -> nat, ~ (forall u v, In (u,v) E0 -> rank u < rank v).
Proof. apply kahn_cycle_no_rank, Inv_init. Qed.

Corollary topo_total : topo ents V E0 <> OutOfFuel.
Proof. apply kahn_fuel_enough; [apply Inv_init| simpl; lia]. Qed.
End Outer.
