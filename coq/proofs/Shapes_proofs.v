(* C12 — lemmas about model/Shapes.v (no Reals: everything is nat / bool / lists). *)
From Coq Require Import List Arith Bool Lia.
From RV Require Import model.Shapes.
Import ListNotations.

(* ------------------------------------------------------------------------------------------------ basics *)
Lemma lnat_eqb_eq (a b : list nat) : lnat_eqb a b = true <-> a = b.
Proof.
  revert b; induction a as [|x a IH]; intros [|y b]; simpl; split; intro E; try reflexivity; try discriminate.
  - apply andb_true_iff in E as [E1 E2]. apply Nat.eqb_eq in E1. apply IH in E2. congruence.
  - inversion E; subst. rewrite Nat.eqb_refl. simpl. apply IH. reflexivity.
Qed.

Lemma lnat_eqb_refl (a : list nat) : lnat_eqb a a = true.
Proof. apply lnat_eqb_eq. reflexivity. Qed.

(* the literal "some data dimension equals the expected one" test is exact when one dimension is expected
   (an int input_dim / output_dim: data_dim of a 2-D array has a single entry) ... *)
Lemma dims_ok_single (d f : nat) : dims_ok [d] [f] = (d =? f).
Proof. unfold dims_ok. simpl. destruct (d =? f); reflexivity. Qed.

Lemma dims_ok_length (e dd : list nat) : dims_ok e dd = true -> length e = length dd.
Proof. unfold dims_ok. intro E. apply andb_true_iff in E as [E _]. apply Nat.eqb_eq in E. exact E. Qed.

(* ------------------------------------------------------------------------------------------------ node record *)
(* everything of the node record except the bookkeeping of the offline buffers *)
Definition same_node (a b : node) : Prop :=
  nkind a = nkind b /\ initialized a = initialized b /\ input_dim a = input_dim b /\ output_dim a = output_dim b /\
  state_shape a = state_shape b /\ params_version a = params_version b /\ state_version a = state_version b /\
  trained a = trained b.

Lemma same_node_refl (n : node) : same_node n n.
Proof. repeat split. Qed.

Lemma same_node_clean (n : node) : same_node n (clean_buffers n).
Proof. repeat split. Qed.

(* dims that are known stay what they are; an initialised node stays initialised; the kind never changes *)
Definition dims_kept (n n' : node) : Prop :=
  nkind n' = nkind n /\
  (forall d, input_dim n = Some d -> input_dim n' = Some d) /\
  (forall d, output_dim n = Some d -> output_dim n' = Some d) /\
  (initialized n = true -> initialized n' = true).

Lemma dims_kept_refl (n : node) : dims_kept n n.
Proof. repeat split; auto. Qed.

Lemma dims_kept_trans (a b c : node) : dims_kept a b -> dims_kept b c -> dims_kept a c.
Proof.
  intros (K1 & I1 & O1 & N1) (K2 & I2 & O2 & N2). repeat split; intros; auto.
  congruence.
Qed.

Lemma set_in_kept (n n1 : node) (v : list nat) : set_in n v = ROk n1 ->
  dims_kept n n1 /\ input_dim n1 = Some v /\ output_dim n1 = output_dim n /\ initialized n1 = initialized n
  /\ aliased n1 = aliased n /\ trained n1 = trained n.
Proof.
  unfold set_in. destruct (input_dim n) as [d|] eqn:E.
  - destruct (lnat_eqb d v) eqn:Ev; [|discriminate]. intro H; inversion H; subst n1.
    apply lnat_eqb_eq in Ev. subst. repeat split; auto.
  - intro H; inversion H; subst n1. repeat split; simpl; auto. intros d Hd. congruence.
Qed.

Lemma set_out_kept (n n1 : node) (v : nat) : set_out n v = ROk n1 ->
  dims_kept n n1 /\ output_dim n1 = Some v /\ input_dim n1 = input_dim n /\ initialized n1 = initialized n
  /\ aliased n1 = aliased n /\ trained n1 = trained n.
Proof.
  unfold set_out. destruct (output_dim n) as [d|] eqn:E.
  - destruct (d =? v) eqn:Ev; [|discriminate]. intro H; inversion H; subst n1.
    apply Nat.eqb_eq in Ev. subst. repeat split; auto.
  - intro H; inversion H; subst n1. repeat split; simpl; auto. intros d Hd. congruence.
Qed.

(* well-formed node: once initialised it has both dims and a single-row 2-D state of width output_dim *)
Definition wf (n : node) : Prop :=
  initialized n = true ->
  exists d o, input_dim n = Some d /\ output_dim n = Some o /\ state_shape n = Some [1; o].

Lemma initialize_ok (n n1 : node) (xf : list nat) (yf : option nat) :
  initialize n xf yf = ROk n1 ->
  dims_kept n n1 /\ initialized n1 = true /\ input_dim n1 = Some xf /\
  (exists o, output_dim n1 = Some o /\ state_shape n1 = Some [1; o]) /\ aliased n1 = aliased n /\ trained n1 = trained n.
Proof.
  unfold initialize. destruct (derive_out n xf yf) as [o|]; [|discriminate].
  destruct (set_in n xf) as [na|] eqn:Ea; [|discriminate].
  destruct (set_out na o) as [nb|] eqn:Eb; [|discriminate].
  intro H; inversion H; subst n1; clear H. simpl.
  apply set_in_kept in Ea as (Ka & Ia & Oa & Na & Aa & Ta).
  apply set_out_kept in Eb as (Kb & Ob & Ib & Nb & Ab & Tb).
  destruct (dims_kept_trans _ _ _ Ka Kb) as (K & I & O & N).
  repeat split; simpl; auto; try congruence.
  exists o. split; auto.
Qed.

Lemma wf_initialize (n n1 : node) xf yf : initialize n xf yf = ROk n1 -> wf n1.
Proof.
  intros H _. apply initialize_ok in H as (_ & _ & I & (o & O & S) & _). exists xf, o. auto.
Qed.

Lemma dims_kept_bump_state (n : node) : dims_kept n (bump_state n).
Proof. repeat split; auto. Qed.
Lemma dims_kept_bump_params (n : node) b : dims_kept n (bump_params n b).
Proof. repeat split; auto. Qed.
Lemma dims_kept_clean (n : node) : dims_kept n (clean_buffers n).
Proof. repeat split; auto. Qed.

Lemma wf_bump_state (n : node) : wf n -> wf (bump_state n).
Proof.
  intros W Hi. destruct (W Hi) as (d & o & I & O & S). exists d, o. unfold bump_state; simpl. rewrite O. auto.
Qed.
Lemma wf_bump_params (n : node) b : wf n -> wf (bump_params n b).
Proof. intros W Hi. destruct (W Hi) as (d & o & I & O & S). exists d, o. auto. Qed.
Lemma wf_clean (n : node) : wf n -> wf (clean_buffers n).
Proof. intros W Hi. destruct (W Hi) as (d & o & I & O & S). exists d, o. auto. Qed.

Lemma dims_kept_set_teacher (n : node) t : dims_kept n (set_teacher n t).
Proof. repeat split; auto. Qed.
Lemma wf_set_teacher (n : node) t : wf n -> wf (set_teacher n t).
Proof. intros W Hi. destruct (W Hi) as (d & o & I & O & S). exists d, o. auto. Qed.
Lemma same_node_set_teacher (n : node) t : same_node n (set_teacher n t).
Proof. repeat split. Qed.

(* the node on which Node.train works once check_xy has (possibly) registered a teacher *)
Definition registered (n : node) (y' : ycheck) : node :=
  match y' with YTeacher td => set_teacher n (Some td) | _ => n end.

Lemma registered_kept (n : node) y' : dims_kept n (registered n y') /\ (wf n -> wf (registered n y')) /\ same_node n (registered n y').
Proof. destruct y'; simpl; repeat split; auto using wf_set_teacher. Qed.

(* "initialise if needed" *)
Definition init_if_needed (n : node) (xf : list nat) (yf : option nat) : res node :=
  if initialized n then ROk n else initialize n xf yf.

Lemma init_if_needed_ok (n n1 : node) xf yf :
  (if initialized n then ROk n else initialize n xf yf) = ROk n1 ->
  dims_kept n n1 /\ initialized n1 = true /\ (wf n -> wf n1) /\ (initialized n = true -> n1 = n).
Proof.
  destruct (initialized n) eqn:E.
  - intro H; inversion H; subst. split; [apply dims_kept_refl|auto].
  - intro H. pose proof (wf_initialize _ _ _ _ H) as W. apply initialize_ok in H as (K & I & _).
    split; [exact K|split; [exact I|split; [auto|discriminate]]].
Qed.

(* ------------------------------------------------------------------------------------------------ partial_fit *)
Lemma partial_fit_op_ok (n n1 : node) x y :
  partial_fit_op n x y = inl (ROk n1) ->
  dims_kept n n1 /\ initialized n1 = true /\ (wf n -> wf n1) /\ (initialized n = true -> n1 = n).
Proof.
  unfold partial_fit_op.
  destruct (seqs_of x) as [xs|]; [|discriminate].
  destruct (if match nkind n with KIPReservoir _ => true | _ => false end
            then Some (map (fun p => (fst p, 0)) xs)
            else match y with YData yd => seqs_of yd | _ => None end) as [ys|]; [|discriminate].
  destruct (negb _); [discriminate|].
  match goal with |- context [if negb (initialized n) && ?r then _ else _] => destruct (negb (initialized n) && r) end; [discriminate|].
  match goal with |- context [if initialized n then ROk n else initialize n ?a ?b] =>
    destruct (if initialized n then ROk n else initialize n a b) as [n2|] eqn:E end; [|discriminate].
  destruct (_ && _); [|discriminate].
  intro H; inversion H; subst n2. eapply init_if_needed_ok; eauto.
Qed.

(* ------------------------------------------------------------------------------------------------ one step *)
Lemma forward_op_after (n n' : node) x : after n (forward_op n x) = Some n' ->
  dims_kept n n' /\ (wf n -> wf n').
Proof.
  unfold forward_op. destruct (inputs_of (nkind n) x) as [[rows xf]|]; [|discriminate].
  destruct (if initialized n then ROk n else initialize n xf None) as [n1|] eqn:E.
  - apply init_if_needed_ok in E as (K & I & W & _).
    destruct (negb _); [discriminate|].
    destruct (nkind n1), (trained n1); simpl; intro H; inversion H; subst; clear H;
      (split; [first [exact K | eapply dims_kept_trans; [exact K|apply dims_kept_bump_state]]
              | intro Wn; first [apply wf_bump_state; auto | auto]]).
  - simpl. intro H; inversion H; subst. split; [apply dims_kept_refl|auto].
Qed.

Lemma set_teacher_kept (n m : node) t : dims_kept n m -> dims_kept n (set_teacher m t).
Proof. intro K. eapply dims_kept_trans; [exact K|apply dims_kept_set_teacher]. Qed.

Lemma train_op_after (n n' : node) x y yi : after n (train_op n x y yi) = Some n' ->
  dims_kept n n' /\ (wf n -> wf n') /\ teacher n' = None.
Proof.
  unfold train_op. destruct (seq2 x) as [[t f]|]; [|discriminate].
  set (ydata := match y with YData yd => seq2 yd | _ => None end). clearbody ydata.
  destruct (teacher n) as [td|].
  - assert (G : after n (match (if initialized n then ROk n else initialize n [f] (match ydata with Some (_, m) => if yi then Some m else td | None => td end)) with
       | RErr e => Err PInit e (set_teacher n None)
       | ROk n1 =>
           if negb (match input_dim n1 with Some d => lnat_eqb d [f] | None => false end) then Irregular
           else match td with
                | None => Err PCore RuntimeError (set_teacher n1 None)
                | Some tdim => if width n1 =? tdim
                               then Ok (set_teacher (bump_params (bump_state n1) false) None) (Some (t, width n1))
                               else Irregular
                end
       end) = Some n' -> dims_kept n n' /\ (wf n -> wf n') /\ teacher n' = None).
    { destruct (if initialized n then ROk n else initialize n [f] _) as [n1|] eqn:E.
      - apply init_if_needed_ok in E as (K & I & W & _).
        destruct (negb _); [discriminate|]. destruct td as [tdim|].
        + destruct (width n1 =? tdim); [|discriminate]. simpl. intro H; inversion H; subst; clear H. split; [|split; [|reflexivity]].
          * apply set_teacher_kept. eapply dims_kept_trans; [exact K|].
            eapply dims_kept_trans; [apply dims_kept_bump_state|apply dims_kept_bump_params].
          * intro Wn. apply wf_set_teacher, wf_bump_params, wf_bump_state; auto.
        + simpl. intro H; inversion H; subst. split; [apply set_teacher_kept; exact K|split; [intro Wn; apply wf_set_teacher; auto|reflexivity]].
      - simpl. intro H; inversion H; subst. split; [apply dims_kept_set_teacher|split; [apply wf_set_teacher|reflexivity]]. }
    destruct y; destruct ydata as [[ty m]|]; try exact G; discriminate.
  - destruct ydata as [[ty m]|]; [|discriminate]. destruct (negb _); [discriminate|].
    destruct (if initialized n then ROk n else initialize n [f] _) as [n1|] eqn:E.
    + apply init_if_needed_ok in E as (K & I & W & _).
      destruct (_ && _); [|discriminate]. simpl. intro H; inversion H; subst; clear H. split; [|split; [|reflexivity]].
      * apply set_teacher_kept. eapply dims_kept_trans; [exact K|].
        eapply dims_kept_trans; [apply dims_kept_bump_state|apply dims_kept_bump_params].
      * intro Wn. apply wf_set_teacher, wf_bump_params, wf_bump_state; auto.
    + simpl. intro H; inversion H; subst. split; [apply dims_kept_set_teacher|split; [apply wf_set_teacher|reflexivity]].
Qed.

Lemma step_after (n n' : node) (o : op) : after n (step n o) = Some n' -> dims_kept n n' /\ (wf n -> wf n').
Proof.
  unfold step. destruct (negb (supported (nkind n) o)).
  { simpl. intro H; inversion H; subst. split; [apply dims_kept_refl|auto]. }
  destruct o as [x|x|x y|x y|x y].
  - destruct (check_xy n x None false true false) as [[x' y']|e].
    + destruct (inputs_of (nkind n) x') as [[[|[|r]] xf]|]; try discriminate. apply forward_op_after.
    + simpl. intro H; inversion H; subst. split; [apply dims_kept_refl|auto].
  - destruct (check_xy n x None false true true) as [[x' y']|e].
    + apply forward_op_after.
    + simpl. intro H; inversion H; subst. split; [apply dims_kept_refl|auto].
  - destruct (check_xy n x y false false true) as [[x' y']|e].
    + fold (registered n y'). intro H.
      assert (A : after (registered n y') (train_op (registered n y') x' y' (y_iterable y)) = Some n').
      { destruct (train_op (registered n y') x' y' (y_iterable y)); simpl in *; exact H. }
      apply train_op_after in A as (K & W & _). destruct (registered_kept n y') as (K0 & W0 & _).
      split; [eapply dims_kept_trans; eauto|auto].
    + simpl. intro H; inversion H; subst. split; [apply dims_kept_refl|auto].
  - destruct (check_xy n x _ true false true) as [[x' y']|e].
    + destruct (partial_fit_op n x' y') as [[n1|e]|[]] eqn:E; simpl; try discriminate.
      * intro H; inversion H; subst. apply partial_fit_op_ok in E as (K & _ & W & _). auto.
      * intro H; inversion H; subst. split; [apply dims_kept_refl|auto].
    + simpl. intro H; inversion H; subst. split; [apply dims_kept_refl|auto].
  - destruct (check_xy n x _ true false true) as [[x' y']|e].
    + destruct (partial_fit_op n x' y') as [[n1|e]|[]] eqn:E; simpl; try discriminate.
      * apply partial_fit_op_ok in E as (K & _ & W & _).
        assert (Kc : forall m, dims_kept n1 m -> dims_kept n (clean_buffers m)).
        { intros m Km. eapply dims_kept_trans; [exact K|]. eapply dims_kept_trans; [exact Km|apply dims_kept_clean]. }
        set (nb := if match nkind n with KIPReservoir _ => true | _ => false end then bump_state n1 else n1).
        assert (Knb : dims_kept n1 nb /\ (wf n1 -> wf nb)).
        { unfold nb. destruct (match nkind n with KIPReservoir _ => true | _ => false end); split;
            auto using dims_kept_refl, dims_kept_bump_state, wf_bump_state. }
        clearbody nb. destruct Knb as (Knb & Wnb).
        destruct (nkind n1);
          try (match goal with |- context [if ?c then _ else _] => destruct c end);
          simpl; intro H; inversion H; subst; clear H;
          (split; [apply Kc; first [apply dims_kept_refl | eapply dims_kept_trans; [exact Knb|apply dims_kept_bump_params]]
                  | intro Wn; apply wf_clean; first [apply wf_bump_params; auto | auto]]).
      * intro H; inversion H; subst. split; [apply dims_kept_clean|apply wf_clean].
    + simpl. intro H; inversion H; subst. split; [apply dims_kept_clean|apply wf_clean].
Qed.

(* for every history *)
Lemma run_hist_kept (ops : list op) : forall n n', run_hist n ops = Some n' -> dims_kept n n' /\ (wf n -> wf n').
Proof.
  induction ops as [|o r IH]; intros n n'; simpl.
  - intro H; inversion H; subst. split; [apply dims_kept_refl|auto].
  - destruct (after n (step n o)) as [n1|] eqn:E; [|discriminate].
    intro H. apply step_after in E as (K1 & W1). apply IH in H as (K2 & W2).
    split; [eapply dims_kept_trans; eauto|auto].
Qed.

(* ------------------------------------------------------------------------------------------------ rejections *)
Definition is_fit (o : op) : bool := match o with OFit _ _ => true | _ => false end.

Lemma forward_op_err (n n' : node) x p e : forward_op n x = Err p e n' -> p = PCore \/ (p = PInit /\ n' = n).
Proof.
  unfold forward_op. destruct (inputs_of (nkind n) x) as [[rows xf]|]; [|discriminate].
  destruct (if initialized n then ROk n else initialize n xf None) as [n1|].
  - destruct (negb _); [discriminate|]. destruct (nkind n1), (trained n1); intro H; inversion H; auto.
  - intro H; inversion H; auto.
Qed.

Lemma train_op_err (n n' : node) x y yi p e : train_op n x y yi = Err p e n' ->
  p = PCore \/ (p = PInit /\ n' = set_teacher n None).
Proof.
  unfold train_op. destruct (seq2 x) as [[t f]|]; [|discriminate].
  set (ydata := match y with YData yd => seq2 yd | _ => None end). clearbody ydata.
  destruct (teacher n) as [td|].
  - assert (G : (match (if initialized n then ROk n else initialize n [f] (match ydata with Some (_, m) => if yi then Some m else td | None => td end)) with
       | RErr e => Err PInit e (set_teacher n None)
       | ROk n1 =>
           if negb (match input_dim n1 with Some d => lnat_eqb d [f] | None => false end) then Irregular
           else match td with
                | None => Err PCore RuntimeError (set_teacher n1 None)
                | Some tdim => if width n1 =? tdim
                               then Ok (set_teacher (bump_params (bump_state n1) false) None) (Some (t, width n1))
                               else Irregular
                end
       end) = Err p e n' -> p = PCore \/ (p = PInit /\ n' = set_teacher n None)).
    { destruct (if initialized n then ROk n else initialize n [f] _) as [n1|].
      - destruct (negb _); [discriminate|]. destruct td as [tdim|].
        + destruct (width n1 =? tdim); discriminate.
        + intro H; inversion H; auto.
      - intro H; inversion H; auto. }
    destruct y; destruct ydata as [[ty m]|]; try exact G; discriminate.
  - destruct ydata as [[ty m]|]; [|discriminate]. destruct (negb _); [discriminate|].
    destruct (if initialized n then ROk n else initialize n [f] _) as [n1|].
    + destruct (_ && _); discriminate.
    + intro H; inversion H; auto.
Qed.

Lemma set_teacher_id (n : node) : teacher n = None -> set_teacher n None = n.
Proof. destruct n; simpl. intro H; subst. reflexivity. Qed.

Lemma set_teacher_registered (n : node) y' : set_teacher (registered n y') None = set_teacher n None.
Proof. destruct y'; reflexivity. Qed.

Definition op_x (o : op) : data :=
  match o with OCall x | ORun x | OTrain x _ | OPartialFit x _ | OFit x _ => x end.
Definition op_y (o : op) : option data :=
  match o with OCall _ | ORun _ => None | OTrain _ y | OPartialFit _ y | OFit _ y => y end.

Lemma check_xy_teacher (n : node) x y ans ani ats x' td :
  check_xy n x y ans ani ats = ROk (x', YTeacher td) -> y = Some (DTeacher td).
Proof.
  unfold check_xy. destruct x; try discriminate;
  (match goal with |- context [check_n_sequences ?a ?b ?c ?d ?e] => destruct (check_n_sequences a b c d e) end; [|discriminate]);
  (destruct y as [yd|]; [|discriminate]);
  destruct yd as [? ?|?| | |td0];
  try (match goal with |- context [check_n_sequences ?a ?b ?c ?d ?e] => destruct (check_n_sequences a b c d e) end; discriminate);
  unfold register_teacher; destruct (has_online (nkind n)); try discriminate;
  destruct (output_dim n) as [o|]; destruct td0 as [t0|]; try (destruct (o =? t0)); try discriminate;
  intro H; inversion H; reflexivity.
Qed.

(* An exception raised before the core of the operation (no learning rule, validation, initialisation) leaves the
   node as it was; only fit additionally empties its offline buffers (clean_buffers), nothing else. *)
Lemma reject_before_change (n n' : node) (o : op) (p : phase) (e : exn) :
  step n o = Err p e n' -> p <> PCore ->
  same_node n n' /\
  (is_fit o = false \/ p = PSupport -> teacher n = None -> n' = n) /\
  (is_fit o = true -> p <> PSupport -> n' = clean_buffers n).
Proof.
  unfold step. destruct (negb (supported (nkind n) o)).
  { intro H; inversion H; subst. intros _. split; [apply same_node_refl|]. split; auto. intros _ F. congruence. }
  destruct o as [x|x|x y|x y|x y]; simpl is_fit.
  - destruct (check_xy n x None false true false) as [[x' y']|e0].
    + destruct (inputs_of (nkind n) x') as [[[|[|r]] xf]|]; try discriminate.
      intros H Hp. apply forward_op_err in H as [H|[H1 H2]]; [contradiction|subst].
      split; [apply same_node_refl|]. split; auto. discriminate.
    + intro H; inversion H; subst. intros _. split; [apply same_node_refl|]. split; auto. discriminate.
  - destruct (check_xy n x None false true true) as [[x' y']|e0].
    + intros H Hp. apply forward_op_err in H as [H|[H1 H2]]; [contradiction|subst].
      split; [apply same_node_refl|]. split; auto. discriminate.
    + intro H; inversion H; subst. intros _. split; [apply same_node_refl|]. split; auto. discriminate.
  - destruct (check_xy n x y false false true) as [[x' y']|e0] eqn:C.
    + fold (registered n y'). intros H Hp. apply train_op_err in H as [H|[H1 H2]]; [contradiction|subst].
      rewrite set_teacher_registered. split; [apply same_node_set_teacher|]. split; [|discriminate].
      intros _ Tn. apply set_teacher_id. exact Tn.
    + intro H; inversion H; subst. intros _. split; [apply same_node_refl|]. split; auto. discriminate.
  - destruct (check_xy n x _ true false true) as [[x' y']|e0].
    + destruct (partial_fit_op n x' y') as [[n1|e1]|[]]; try discriminate.
      intro H; inversion H; subst. intros _. split; [apply same_node_refl|]. split; auto. discriminate.
    + intro H; inversion H; subst. intros _. split; [apply same_node_refl|]. split; auto. discriminate.
  - destruct (check_xy n x _ true false true) as [[x' y']|e0].
    + destruct (partial_fit_op n x' y') as [[n1|e1]|[]]; try discriminate.
      * destruct (nkind n1); try discriminate.
        match goal with |- context [if ?c then _ else _] => destruct c end; [|discriminate].
        intro H; inversion H; subst. intro Hp; contradiction.
      * intro H; inversion H; subst. intros _. split; [apply same_node_clean|]. split; auto.
        intros [F|F]; discriminate.
    + intro H; inversion H; subst. intros _. split; [apply same_node_clean|]. split; auto.
      intros [F|F]; discriminate.
Qed.

(* an operation for which the node has no learning rule *)
Lemma unsupported_rejected (n : node) (o : op) : supported (nkind n) o = false -> step n o = Err PSupport TypeError n.
Proof. intro H. unfold step. rewrite H. reflexivity. Qed.

(* the exceptions of the checking phase are exactly the failures of check_xy *)
Lemma check_error_rejects (n : node) (o : op) : supported (nkind n) o = true ->
  forall e,
  match o with
  | OCall x => check_xy n x None false true false = RErr e
  | ORun x => check_xy n x None false true true = RErr e
  | OTrain x y => check_xy n x y false false true = RErr e
  | OPartialFit x y | OFit x y =>
      check_xy n x (if match nkind n with KIPReservoir _ => true | _ => false end then None else y) true false true = RErr e
  end ->
  exists n', step n o = Err PCheck e n' /\ same_node n n'.
Proof.
  intros S e H. unfold step. rewrite S. simpl. destruct o; rewrite H; eexists; split; try reflexivity;
    first [apply same_node_refl | apply same_node_clean].
Qed.

(* ------------------------------------------------------------------------------------------------ accepted operations *)
Lemma forward_op_ok (n n' : node) x out : forward_op n x = Ok n' out ->
  initialized n' = true /\
  exists rows xf, inputs_of (nkind n) x = Some (rows, xf) /\ out = Some (rows, width n') /\
    state_shape n' = match output_dim n' with Some o => Some [1; o] | None => state_shape n' end.
Proof.
  unfold forward_op. destruct (inputs_of (nkind n) x) as [[rows xf]|]; [|discriminate].
  destruct (if initialized n then ROk n else initialize n xf None) as [n1|] eqn:E; [|discriminate].
  apply init_if_needed_ok in E as (K & I & W & _).
  destruct (negb _); [discriminate|].
  assert (G : Ok (bump_state n1) (Some (rows, width n1)) = Ok n' out ->
              initialized n' = true /\ exists rows0 xf0, Some (rows, xf) = Some (rows0, xf0) /\ out = Some (rows0, width n') /\
              state_shape n' = match output_dim n' with Some o => Some [1; o] | None => state_shape n' end).
  { intro H; inversion H; subst. split; [exact I|]. exists rows, xf. repeat split.
    unfold bump_state; simpl. destruct (output_dim n1); reflexivity. }
  destruct (nkind n1), (trained n1); try exact G; discriminate.
Qed.

Lemma train_op_ok (n n' : node) x y yi out : train_op n x y yi = Ok n' out ->
  initialized n' = true /\ exists t f, seq2 x = Some (t, f) /\ out = Some (t, width n').
Proof.
  unfold train_op. destruct (seq2 x) as [[t f]|]; [|discriminate].
  set (ydata := match y with YData yd => seq2 yd | _ => None end). clearbody ydata.
  destruct (teacher n) as [td|].
  - assert (G : (match (if initialized n then ROk n else initialize n [f] (match ydata with Some (_, m) => if yi then Some m else td | None => td end)) with
       | RErr e => Err PInit e (set_teacher n None)
       | ROk n1 =>
           if negb (match input_dim n1 with Some d => lnat_eqb d [f] | None => false end) then Irregular
           else match td with
                | None => Err PCore RuntimeError (set_teacher n1 None)
                | Some tdim => if width n1 =? tdim
                               then Ok (set_teacher (bump_params (bump_state n1) false) None) (Some (t, width n1))
                               else Irregular
                end
       end) = Ok n' out -> initialized n' = true /\ exists t0 f0, Some (t, f) = Some (t0, f0) /\ out = Some (t0, width n')).
    { destruct (if initialized n then ROk n else initialize n [f] _) as [n1|] eqn:E; [|discriminate].
      apply init_if_needed_ok in E as (K & I & W & _).
      destruct (negb _); [discriminate|]. destruct td as [tdim|]; [|discriminate].
      destruct (width n1 =? tdim); [|discriminate]. intro H; inversion H; subst. split; [exact I|]. exists t, f. auto. }
    destruct y; destruct ydata as [[ty m]|]; try exact G; discriminate.
  - destruct ydata as [[ty m]|]; [|discriminate]. destruct (negb _); [discriminate|].
    destruct (if initialized n then ROk n else initialize n [f] _) as [n1|] eqn:E; [|discriminate].
    apply init_if_needed_ok in E as (K & I & W & _).
    destruct (_ && _); [|discriminate]. intro H; inversion H; subst. split; [exact I|]. exists t, f. auto.
Qed.

Lemma step_ok_initialized (n n' : node) (o : op) out : step n o = Ok n' out -> initialized n' = true.
Proof.
  unfold step. destruct (negb (supported (nkind n) o)); [discriminate|].
  destruct o as [x|x|x y|x y|x y].
  - destruct (check_xy n x None false true false) as [[x' y']|e0]; [|discriminate].
    destruct (inputs_of (nkind n) x') as [[[|[|r]] xf]|]; try discriminate.
    intro H. apply forward_op_ok in H. tauto.
  - destruct (check_xy n x None false true true) as [[x' y']|e0]; [|discriminate].
    intro H. apply forward_op_ok in H. tauto.
  - destruct (check_xy n x y false false true) as [[x' y']|e0]; [|discriminate].
    intro H. apply train_op_ok in H. tauto.
  - destruct (check_xy n x _ true false true) as [[x' y']|e0]; [|discriminate].
    destruct (partial_fit_op n x' y') as [[n1|e1]|[]] eqn:E; try discriminate.
    apply partial_fit_op_ok in E as (_ & I & _). intro H; inversion H; subst. exact I.
  - destruct (check_xy n x _ true false true) as [[x' y']|e0]; [|discriminate].
    destruct (partial_fit_op n x' y') as [[n1|e1]|[]] eqn:E; try discriminate.
    apply partial_fit_op_ok in E as (_ & I & _).
    destruct (nkind n1); try (match goal with |- context [if ?c then _ else _] => destruct c end); try discriminate;
      intro H; inversion H; subst; simpl;
      destruct (match nkind n with KIPReservoir _ => true | _ => false end); exact I.
Qed.

(* after any accepted operation the state is a single row of width output_dim *)
Lemma step_ok_state (n n' : node) (o : op) out : wf n -> step n o = Ok n' out ->
  exists w, output_dim n' = Some w /\ state_shape n' = Some [1; w].
Proof.
  intros W H. pose proof (step_ok_initialized _ _ _ _ H) as I.
  assert (A : after n (step n o) = Some n') by (rewrite H; reflexivity).
  apply step_after in A as (_ & W'). destruct (W' W I) as (d & w & _ & O & S). exists w. auto.
Qed.

(* ------------------------------------------------------------------------------------------------ rows *)
Ltac crush :=
  repeat match goal with
         | |- context [if ?c then _ else _] => destruct c eqn:?
         | |- context [match ?t with ROk _ => _ | RErr _ => _ end] => destruct t eqn:?
         end.

(* a checked array that is a regular 2-D (t, f) block has t = the number of timesteps of what was given *)
Lemma cns_rows (x x' : data) ed ans ani ats t f :
  check_n_sequences x ed ans ani ats = ROk x' -> seq2 x' = Some (t, f) -> t = timesteps1 x.
Proof.
  destruct x as [num sh|items| | |td]; destruct ed as [[|d [|d2 ed']]|]; simpl; try discriminate.
  - (* array, one expected dim *)
    destruct sh as [|a [|b [|c [|dd r]]]]; simpl; unfold check_one_sequence, check_vector, atleast_2d; simpl;
      crush; try discriminate; intro H; inversion H; subst; simpl; crush; try discriminate;
      intro G; inversion G; subst; reflexivity.
  - (* array, no expected dim *)
    unfold check_one_sequence, check_vector, atleast_2d.
    destruct sh as [|a [|b [|c r]]]; simpl; crush; try discriminate; intro H; inversion H; subst; simpl; crush;
      try discriminate; intro G; inversion G; subst; reflexivity.
  - (* list, one expected dim *)
    crush; try discriminate; intro H; inversion H; subst; discriminate.
  - crush; try discriminate; intro H; inversion H; subst; discriminate.
  - crush; try discriminate; intro H; inversion H; subst; discriminate.
  - (* number *)
    unfold check_one_sequence, check_vector. simpl. intro H; inversion H; subst. simpl. intro G; inversion G; reflexivity.
Qed.

(* a list given to call / run (allow_n_sequences = False, allow_n_inputs = True): the first item is checked on its own *)
Lemma cns_list_head (it : data) (r : list data) ed ats x' :
  check_n_sequences (DList (it :: r)) ed false true ats = ROk x' ->
  exists v r' ed1 ani1, x' = DList (v :: r') /\ check_n_sequences it ed1 false ani1 ats = ROk v.
Proof.
  destruct ed as [[|d [|d2 ed']]|]; simpl; try discriminate.
  - match goal with |- context [if ?c then _ else _] => destruct c end; [discriminate|].
    destruct (check_n_sequences it (Some [d]) false true ats) as [v|] eqn:E; [|discriminate].
    match goal with |- context [match ?t with ROk r' => ROk (v :: r') | RErr err => RErr err end] =>
      destruct t as [l|] end; [|discriminate].
    match goal with |- context [if ?c then _ else _] => destruct c end; [|discriminate].
    intro H; inversion H; subst. exists v, l, (Some [d]), true. auto.
  - destruct (check_n_sequences it None false false ats) as [v|] eqn:E; [|discriminate].
    match goal with |- context [match ?t with ROk r' => ROk (v :: r') | RErr err => RErr err end] =>
      destruct t as [l|] end; [|discriminate].
    intro H; inversion H; subst. exists v, l, None, false. auto.
Qed.

Lemma inputs_of_rows (k : kind) (x x' : data) ed ats rows xf :
  check_n_sequences x ed false true ats = ROk x' -> inputs_of k x' = Some (rows, xf) -> rows = timesteps x.
Proof.
  intros C I. destruct x' as [num sh|l| | |td]; unfold inputs_of in I; try discriminate.
  - destruct (seq2 (DArr num sh)) as [[t f]|] eqn:S; [|discriminate]. inversion I; subst.
    pose proof (cns_rows _ _ _ _ _ _ _ _ C S) as R. rewrite R.
    destruct x as [? ?|items| | |?]; try reflexivity.
    (* a list never becomes an array *)
    exfalso. clear - C. destruct ed as [[|d [|d2 ed']]|]; simpl in C; try discriminate;
      revert C; crush; try discriminate; intro H; inversion H.
  - destruct k; try discriminate. destruct l as [|v l']; [discriminate|].
    destruct (seqs_list (v :: l')) as [ps|] eqn:S; [|discriminate].
    destruct (forallb _ ps); [|discriminate]. inversion I; subst. clear I.
    simpl in S. destruct (seq2 v) as [[t f]|] eqn:Sv; [|discriminate]. destruct (seqs_list l'); [|discriminate].
    inversion S; subst. simpl.
    destruct x as [num sh|items| | |td].
    + exfalso. clear - C. destruct ed as [[|d [|d2 ed']]|]; simpl in C; try discriminate; revert C;
        unfold check_one_sequence, check_vector; crush; try discriminate; intro H; inversion H.
    + destruct items as [|it r].
      * exfalso. clear - C. destruct ed as [[|d [|d2 ed']]|]; simpl in C; try discriminate; inversion C.
      * apply cns_list_head in C as (v0 & r' & ed1 & ani1 & E & Cv). inversion E; subst.
        simpl. eapply cns_rows; eauto.
    + exfalso. clear - C. destruct ed as [[|d [|d2 ed']]|]; simpl in C; try discriminate; revert C;
        unfold check_one_sequence, check_vector; crush; try discriminate; intro H; inversion H.
    + exfalso. clear - C. destruct ed as [[|d [|d2 ed']]|]; simpl in C; try discriminate; revert C;
        unfold check_one_sequence, check_vector; crush; try discriminate; intro H; inversion H.
    + exfalso. clear - C. destruct ed as [[|d [|d2 ed']]|]; simpl in C; try discriminate; revert C;
        unfold check_one_sequence, check_vector; crush; try discriminate; intro H; inversion H.
Qed.


Lemma check_xy_x_ok (n : node) x y ans ani ats x' y' :
  check_xy n x y ans ani ats = ROk (x', y') -> check_n_sequences x (input_dim n) ans ani ats = ROk x'.
Proof.
  unfold check_xy. destruct x; try discriminate;
  (match goal with |- context [check_n_sequences ?a ?b ?c ?d ?e] => destruct (check_n_sequences a b c d e) as [x0|] end; [|discriminate]);
  (destruct y as [yd|]; [|intro H; inversion H; reflexivity]);
  destruct yd;
  try (match goal with |- context [check_n_sequences ?a ?b ?c ?d ?e] => destruct (check_n_sequences a b c d e) end;
       [intro H; inversion H; reflexivity|discriminate]);
  (destruct (register_teacher n dim); [intro H; inversion H; reflexivity|discriminate]).
Qed.

(* accepted run / call: exactly as many rows as timesteps, each of width output_dim *)
Lemma rows_run (n n' : node) x out : wf n -> step n (ORun x) = Ok n' out ->
  exists w, output_dim n' = Some w /\ out = Some (timesteps x, w).
Proof.
  intros W H. destruct (step_ok_state _ _ _ _ W H) as (w & O & S). exists w. split; [exact O|].
  revert H. unfold step. simpl. destruct (check_xy n x None false true true) as [[x' y']|e0] eqn:C; [|discriminate].
  intro H. apply forward_op_ok in H as (_ & rows & xf & I & Eo & _). subst out.
  apply check_xy_x_ok in C. rewrite (inputs_of_rows _ _ _ _ _ _ _ C I). unfold width. rewrite O. reflexivity.
Qed.

Lemma rows_call (n n' : node) x out : wf n -> step n (OCall x) = Ok n' out ->
  exists w, output_dim n' = Some w /\ out = Some (1, w) /\ timesteps x = 1.
Proof.
  intros W H. destruct (step_ok_state _ _ _ _ W H) as (w & O & S). exists w. split; [exact O|].
  revert H. unfold step. simpl. destruct (check_xy n x None false true false) as [[x' y']|e0] eqn:C; [|discriminate].
  destruct (inputs_of (nkind n) x') as [[[|[|r]] xf0]|] eqn:I0; try discriminate.
  intro H. apply forward_op_ok in H as (_ & rows & xf & I & Eo & _). subst out.
  rewrite I0 in I. inversion I; subst.
  apply check_xy_x_ok in C. rewrite <- (inputs_of_rows _ _ _ _ _ _ _ C I0). unfold width. rewrite O. auto.
Qed.

Lemma rows_train (n n' : node) x y out : wf n -> step n (OTrain x y) = Ok n' out ->
  exists w, output_dim n' = Some w /\ out = Some (timesteps1 x, w).
Proof.
  intros W H. destruct (step_ok_state _ _ _ _ W H) as (w & O & S). exists w. split; [exact O|].
  revert H. unfold step. destruct (negb _); [discriminate|].
  destruct (check_xy n x y false false true) as [[x' y']|e0] eqn:C; [|discriminate].
  intro H. apply train_op_ok in H as (_ & t & f & Sx & Eo). subst out.
  apply check_xy_x_ok in C. rewrite (cns_rows _ _ _ _ _ _ _ _ C Sx). unfold width. rewrite O. reflexivity.
Qed.

(* ------------------------------------------------------------------------------------------------ what the validation rejects *)
Lemma c1s_wrong (num : bool) (sh : list nat) (d f : nat) ats :
  tl (atleast_2d sh) = [f] -> f <> d -> exists e, check_one_sequence (DArr num sh) (Some [d]) ats = RErr e.
Proof.
  intros T F. unfold check_one_sequence, check_vector. destruct num; cbn [negb]; [|eauto].
  destruct (negb ats && (1 <? hd 0 (atleast_2d sh))); [eauto|].
  rewrite T, dims_ok_single. destruct (d =? f) eqn:E; [apply Nat.eqb_eq in E; congruence|eauto].
Qed.

(* an array whose feature size differs from the single expected dimension is rejected, whatever its rank
   (all axes non-empty) and whatever the flags *)
Lemma cns_wrong_feature (num : bool) (sh : list nat) (d : nat) ans ani ats :
  Forall (fun s => 1 <= s) sh -> feat sh <> d ->
  exists e, check_n_sequences (DArr num sh) (Some [d]) ans ani ats = RErr e.
Proof.
  intros P F. destruct sh as [|a [|b [|c [|dd r]]]]; unfold feat in F; simpl in F; simpl.
  - destruct (c1s_wrong num [] d 1 ats eq_refl F) as [e E]. rewrite E. eauto.
  - destruct (c1s_wrong num [a] d a ats eq_refl F) as [e E]. rewrite E. eauto.
  - destruct (c1s_wrong num [a; b] d b ats eq_refl F) as [e E]. rewrite E. eauto.
  - inversion P; subst. destruct a as [|a']; [lia|]. simpl.
    destruct (c1s_wrong num [b; c] d c ats eq_refl F) as [e E]. rewrite E. eauto.
  - eauto.
Qed.

Lemma cns_too_many_dims (num : bool) (sh : list nat) (d : nat) ans ani ats :
  4 <= length sh -> check_n_sequences (DArr num sh) (Some [d]) ans ani ats = RErr ValueError.
Proof. intro L. destruct sh as [|a [|b [|c [|dd r]]]]; simpl in L; try lia. reflexivity. Qed.

(* a non-numeric array (bool / object / str dtype) with no empty axis is rejected under every expectation and flags *)
Lemma cns_non_numeric (sh : list nat) ed ans ani ats :
  Forall (fun s => 1 <= s) sh -> exists e, check_n_sequences (DArr false sh) ed ans ani ats = RErr e.
Proof.
  intro P. destruct ed as [[|d [|d2 ed']]|]; simpl; eauto.
  destruct sh as [|a [|b [|c [|dd r]]]]; simpl; eauto.
  inversion P; subst. destruct a as [|a']; [lia|]. simpl. eauto.
Qed.

(* a str / dict / other non-array object is rejected *)
Lemma cns_other ed ans ani ats : exists e, check_n_sequences DOther ed ans ani ats = RErr e.
Proof. destruct ed as [[|d [|d2 ed']]|]; simpl; eauto. Qed.

(* a list given where a single array is required (call / run / train of an initialised single-input node) *)
Lemma cns_list_rejected (items : list data) (d : nat) ani ats :
  check_n_sequences (DList items) (Some [d]) false ani ats = RErr TypeError.
Proof. reflexivity. Qed.

Lemma check_xy_x_err (n : node) x y ans ani ats :
  (exists e, check_n_sequences x (input_dim n) ans ani ats = RErr e) -> exists e, check_xy n x y ans ani ats = RErr e.
Proof. intros [e H]. unfold check_xy. rewrite H. destruct x; eauto. Qed.

Lemma check_xy_y_err (n : node) x y ans ani ats :
  (forall td, y <> DTeacher td) ->
  (exists e, check_n_sequences y (option_map (fun d => [d]) (output_dim n)) ans false ats = RErr e) ->
  exists e, check_xy n x (Some y) ans ani ats = RErr e.
Proof.
  intros NT [e H]. unfold check_xy.
  destruct (check_n_sequences x (input_dim n) ans ani ats); [|destruct x; eauto].
  destruct y as [? ?|?| | |td]; try (rewrite H; destruct x; eauto).
  exfalso. apply (NT td). reflexivity.
Qed.

(* bad input data: rejected in the checking phase of every operation the node supports *)
Lemma bad_input_rejected (n : node) (o : op) :
  supported (nkind n) o = true ->
  (forall ans ani ats, exists e, check_n_sequences (op_x o) (input_dim n) ans ani ats = RErr e) ->
  exists e n', step n o = Err PCheck e n' /\ same_node n n'.
Proof.
  intros S B.
  destruct o as [x|x|x y|x y|x y]; simpl in B.
  - destruct (check_xy_x_err n x None false true false (B false true false)) as [e E]. exists e. apply check_error_rejects; auto.
  - destruct (check_xy_x_err n x None false true true (B false true true)) as [e E]. exists e. apply check_error_rejects; auto.
  - destruct (check_xy_x_err n x y false false true (B false false true)) as [e E]. exists e. apply check_error_rejects; auto.
  - destruct (check_xy_x_err n x (if match nkind n with KIPReservoir _ => true | _ => false end then None else y) true false true (B true false true)) as [e E].
    exists e. apply check_error_rejects; auto.
  - destruct (check_xy_x_err n x (if match nkind n with KIPReservoir _ => true | _ => false end then None else y) true false true (B true false true)) as [e E].
    exists e. apply check_error_rejects; auto.
Qed.

(* bad target data, for the operations that take a target on a supervised node *)
Lemma bad_target_rejected (n : node) (o : op) (y : data) :
  supported (nkind n) o = true -> op_y o = Some y -> (forall td, y <> DTeacher td) ->
  (match nkind n with KIPReservoir _ => False | _ => True end) ->
  (forall ans ats, exists e, check_n_sequences y (option_map (fun d => [d]) (output_dim n)) ans false ats = RErr e) ->
  exists e n', step n o = Err PCheck e n' /\ same_node n n'.
Proof.
  intros S Y NT K B.
  destruct o as [x|x|x y0|x y0|x y0]; simpl in Y; try discriminate; inversion Y; subst y0.
  - destruct (check_xy_y_err n x y false false true NT (B false true)) as [e E]. exists e. apply check_error_rejects; auto.
  - destruct (check_xy_y_err n x y true false true NT (B true true)) as [e E]. exists e. apply check_error_rejects; auto.
    destruct (nkind n); try exact E; contradiction.
  - destruct (check_xy_y_err n x y true false true NT (B true true)) as [e E]. exists e. apply check_error_rejects; auto.
    destruct (nkind n); try exact E; contradiction.
Qed.

(* a multi-input node (input_dim a tuple, Concat) rejects a list with the wrong number of inputs *)
Lemma cns_wrong_input_count (items : list data) (ed : list nat) ans ani ats :
  2 <= length ed -> length items <> length ed ->
  check_n_sequences (DList items) (Some ed) ans ani ats = RErr ValueError.
Proof.
  intros L N. destruct ed as [|d [|d2 ed']]; simpl in L; try lia. simpl.
  destruct (length items =? S (S (length ed'))) eqn:E; [apply Nat.eqb_eq in E; simpl in N; congruence|reflexivity].
Qed.

(* linking operands: accepted iff every (sender, receiver) pair passes the node-to-node check *)
Lemma link_check_spec (ss rs : list node) :
  link_check ss rs = ROk tt <-> Forall (fun s => Forall (fun r => link_1to1 s r = ROk tt) rs) ss.
Proof.
  induction ss as [|s ss IH]; simpl.
  - split; intro; [constructor|reflexivity].
  - destruct (forallb _ rs) eqn:E.
    + rewrite IH. split; intro H.
      * constructor; [|exact H]. apply Forall_forall. intros r Hr.
        rewrite forallb_forall in E. specialize (E r Hr). destruct (link_1to1 s r) as [[]|]; [reflexivity|discriminate].
      * inversion H; assumption.
    + split; intro H; [discriminate|]. inversion H as [|? ? Hs Hss]; subst. exfalso.
      assert (forallb (fun r => match link_1to1 s r with ROk _ => true | RErr _ => false end) rs = true).
      { apply forallb_forall. intros r Hr. rewrite Forall_forall in Hs. rewrite (Hs r Hr). reflexivity. }
      congruence.
Qed.

(* ------------------------------------------------------------------------------------------------ teacher nodes *)
Lemma initialize_teacher (n n1 : node) xf yf : initialize n xf yf = ROk n1 -> teacher n1 = teacher n.
Proof.
  unfold initialize, set_in, set_out. destruct (derive_out n xf yf) as [o|]; [|discriminate].
  destruct (input_dim n) as [d|]; [destruct (lnat_eqb d xf); [|discriminate]|];
    simpl; destruct (output_dim n) as [d'|]; try (destruct (d' =? o); [|discriminate]);
    intro H; inversion H; reflexivity.
Qed.

Lemma init_if_needed_teacher (n n1 : node) xf yf :
  (if initialized n then ROk n else initialize n xf yf) = ROk n1 -> teacher n1 = teacher n.
Proof. destruct (initialized n); [intro H; inversion H; reflexivity|apply initialize_teacher]. Qed.

(* a teacher node whose (known) output dimension differs from the node's is rejected by check_xy and is NOT registered:
   the node is literally unchanged *)
Lemma teacher_mismatch_rejected (n : node) (x : data) (o t : nat) :
  has_online (nkind n) = true -> output_dim n = Some o -> t <> o ->
  exists e, step n (OTrain x (Some (DTeacher (Some t)))) = Err PCheck e n.
Proof.
  intros S O T. unfold step. simpl. rewrite S. simpl. unfold check_xy, register_teacher. rewrite S, O.
  assert (E : (o =? t) = false) by (apply Nat.eqb_neq; congruence). rewrite E.
  destruct x; try (eexists; reflexivity);
    (match goal with |- context [check_n_sequences ?a ?b ?c ?d ?e] => destruct (check_n_sequences a b c d e) end);
    eexists; reflexivity.
Qed.

(* an accepted operation never leaves a teacher registered (train unregisters it; the others never register one) *)
Lemma step_ok_teacher (n n' : node) (o : op) out : step n o = Ok n' out -> teacher n = None -> teacher n' = None.
Proof.
  unfold step. destruct (negb (supported (nkind n) o)); [discriminate|].
  assert (F : forall x', forall n2 out2, forward_op n x' = Ok n2 out2 -> teacher n = None -> teacher n2 = None).
  { intros x' n2 out2. unfold forward_op. destruct (inputs_of (nkind n) x') as [[rows xf]|]; [|discriminate].
    destruct (if initialized n then ROk n else initialize n xf None) as [n1|] eqn:E; [|discriminate].
    apply init_if_needed_teacher in E. destruct (negb _); [discriminate|].
    destruct (nkind n1), (trained n1); try discriminate; intro H; inversion H; subst; simpl; congruence. }
  destruct o as [x|x|x y|x y|x y].
  - destruct (check_xy n x None false true false) as [[x' y']|e0]; [|discriminate].
    destruct (inputs_of (nkind n) x') as [[[|[|r]] xf]|]; try discriminate. apply F.
  - destruct (check_xy n x None false true true) as [[x' y']|e0]; [|discriminate]. apply F.
  - destruct (check_xy n x y false false true) as [[x' y']|e0]; [|discriminate].
    fold (registered n y'). intros H _.
    assert (A : after (registered n y') (train_op (registered n y') x' y' (y_iterable y)) = Some n') by (rewrite H; reflexivity).
    apply train_op_after in A. tauto.
  - destruct (check_xy n x _ true false true) as [[x' y']|e0]; [|discriminate].
    destruct (partial_fit_op n x' y') as [[n1|e1]|[]] eqn:E; try discriminate.
    intro H; inversion H; subst. clear H. revert E. unfold partial_fit_op.
    destruct (seqs_of x') as [xs|]; [|discriminate].
    match goal with |- context [match ?c with Some ys => _ | None => inr tt end] => destruct c as [ys|] end; [|discriminate].
    destruct (negb _); [discriminate|].
    match goal with |- context [if negb (initialized n) && ?r then _ else _] => destruct (negb (initialized n) && r) end; [discriminate|].
    match goal with |- context [if initialized n then ROk n else initialize n ?a ?b] =>
      destruct (if initialized n then ROk n else initialize n a b) as [n2|] eqn:E end; [|discriminate].
    apply init_if_needed_teacher in E. destruct (_ && _); [|discriminate]. intro H; inversion H; subst. congruence.
  - destruct (check_xy n x _ true false true) as [[x' y']|e0]; [|discriminate].
    destruct (partial_fit_op n x' y') as [[n1|e1]|[]] eqn:E; try discriminate.
    assert (T1 : teacher n1 = teacher n).
    { revert E. unfold partial_fit_op. destruct (seqs_of x') as [xs|]; [|discriminate].
      match goal with |- context [match ?c with Some ys => _ | None => inr tt end] => destruct c as [ys|] end; [|discriminate].
      destruct (negb _); [discriminate|].
      match goal with |- context [if negb (initialized n) && ?r then _ else _] => destruct (negb (initialized n) && r) end; [discriminate|].
      match goal with |- context [if initialized n then ROk n else initialize n ?a ?b] =>
        destruct (if initialized n then ROk n else initialize n a b) as [n2|] eqn:E end; [|discriminate].
      apply init_if_needed_teacher in E. destruct (_ && _); [|discriminate]. intro H; inversion H; subst. exact E. }
    destruct (nkind n1); try (match goal with |- context [if ?c then _ else _] => destruct c end); try discriminate;
      intro H; inversion H; subst; simpl;
      destruct (match nkind n with KIPReservoir _ => true | _ => false end); simpl; congruence.
Qed.

(* whatever its outcome (accepted, rejected in any phase), a train call leaves no teacher registered *)
Lemma train_clears_teacher (n n' : node) x y : after n (step n (OTrain x y)) = Some n' -> teacher n = None -> teacher n' = None.
Proof.
  unfold step. destruct (negb _); [simpl; intro H; inversion H; subst; auto|].
  destruct (check_xy n x y false false true) as [[x' y']|e0]; [|simpl; intro H; inversion H; subst; auto].
  fold (registered n y'). intros H _.
  assert (A : after (registered n y') (train_op (registered n y') x' y' (y_iterable y)) = Some n').
  { destruct (train_op (registered n y') x' y' (y_iterable y)); simpl in *; exact H. }
  apply train_op_after in A. tauto.
Qed.

(* a Model none of whose nodes has an offline rule refuses fit with TypeError, its nodes being exactly what they were *)
Lemma model_fit_unsupported (nodes : list node) :
  Forall (fun n => has_offline (nkind n) = false) nodes -> model_fit_guard nodes = Some (TypeError, nodes).
Proof.
  intro F. unfold model_fit_guard.
  assert (E : existsb (fun n => has_offline (nkind n)) nodes = false).
  { induction F as [|n l Hn _ IH]; simpl; [reflexivity|]. rewrite Hn, IH. reflexivity. }
  rewrite E. reflexivity.
Qed.
