(* The step [seq_op] of the generated Model.run (proofs/Gen_mrun2_eq.v: the OUTER with_state(reset, stateful) without a mapping around
   run_op with reset = False and from_state) IS the step of Mapping.run_seqs ([run_op m stateful reset from]), under NoDup (ids_of m):
   start_env composes (reset first, then from_state = both at once) and restore_st is idempotent (restoring to the inner snapshot and then to
   the outer one = restoring to the outer one), for every flag and both outcomes.  Hence the generated Model.run is Mapping.run_seqs.
   Environments are functions nat -> nstate: their equality is by functional extensionality (the one axiom used). *)
From Coq Require Import List Bool Arith Lia FunctionalExtensionality.
From RV Require Import base.Num base.LA base.PyColl base.PyColl2 base.PyColl3 base.MCallPrelude base.MRunPrelude.
From RV Require base.CtxPrelude.
From RV Require Import gen.Gen_mrun gen.Gen_mrun2 model.ModelSem model.Mapping proofs.ModelSem_proofs proofs.Gen_state_eq
  proofs.Gen_dispatch_eq proofs.Gen_mcall_eq proofs.Gen_mrun_eq proofs.Gen_mrun2_eq.
Import ListNotations.

Section Seqs.
Context {F : Type} `{Num F}.
Notation vec := (list F).
Notation env := (@env F).

Lemma nstate_ext (a b : @nstate F) : st a = st b -> hid a = hid b -> a = b.
Proof. destruct a, b; cbn; intros -> ->; reflexivity. Qed.

Lemma start_env_compose (m : @model F) reset from (e : env) :
  NoDup (ids_of m) ->
  start_env m false from (start_env m reset (fun _ => None) e) = start_env m reset from e.
Proof.
  intros Hnd. apply functional_extensionality. intros k. apply nstate_ext.
  - destruct (in_dec Nat.eq_dec k (ids_of m)) as [Hi|Hi].
    + unfold ids_of in Hi. apply in_map_iff in Hi. destruct Hi as (d & <- & Hd).
      rewrite !start_env_spec by assumption.
      destruct (from (nid d)); cbn; reflexivity.
    + rewrite !start_env_frame by assumption. reflexivity.
  - rewrite !start_env_hid. reflexivity.
Qed.

Lemma restore_st_twice ids (e e0 e1 : env) :
  restore_st ids e (restore_st ids e0 e1) = restore_st ids e e1.
Proof.
  apply functional_extensionality. intros k. apply nstate_ext.
  - rewrite !restore_st_spec. destruct (in_dec Nat.eq_dec k ids); reflexivity.
  - rewrite !restore_st_hid. reflexivity.
Qed.

(* the step of the generated loop = the step of Mapping.run_seqs *)
Theorem seq_op_is_run_op (m : @model F) stateful reset from steps (e : env) :
  NoDup (ids_of m) ->
  seq_op m stateful reset from steps e = run_op m stateful reset from steps e.
Proof.
  intros Hnd. unfold seq_op, run_op. rewrite start_env_compose by assumption.
  destruct (run_steps m steps (start_env m reset from e)) as [[e1 outs] ok].
  destruct stateful; [reflexivity|]. rewrite restore_st_twice. reflexivity.
Qed.

Theorem run_seqs2_is_run_seqs (m : @model F) stateful reset from :
  NoDup (ids_of m) ->
  forall seqs (e : env), run_seqs2 m stateful reset from seqs e = run_seqs m stateful reset from seqs e.
Proof.
  intros Hnd. induction seqs as [|s rest IH]; intros e; cbn [run_seqs2 run_seqs]; [reflexivity|].
  rewrite seq_op_is_run_op by assumption.
  destruct (run_op m stateful reset from s e) as [[e1 o] ok]. destruct ok; [|reflexivity]. rewrite IH. reflexivity.
Qed.

(* RUN: the generated Model.run is Mapping.run_seqs *)
Theorem gen_model_run_is_mapping_run_seqs (m : @model F) (RS : Type) (sel : RS -> env -> selstate vec)
    (out0 : node) (XD FD OUT : Type)
    (tdm : XD -> FD -> option (list (list (nat -> option vec)) * list (list (nat -> option vec))))
    (fm : list (wlog vec) -> RS -> OUT) (X : XD) (FB : FD) from stateful reset shift rs (w : cworld) xs fbs :
  NoDup (ids_of m) ->
  tdm X FB = Some (xs, fbs) -> xs <> [] -> fbs <> [] ->
  let '(w', r) := g_model_run m RS sel out0 XD FD OUT tdm fm X FB from stateful reset shift rs w in
  let '(e', outs, ok) := run_seqs m stateful reset from (map (fun p => combine (fst p) (snd p)) (combine xs fbs)) (cur w) in
  cur w' = e' /\ fbm w' = fbm w /\
  match r with
  | CtxPrelude.Ok o => ok = true /\ exists logs, o = fm logs rs /\ Forall2 (log_ok m RS sel out0 rs) logs outs
  | CtxPrelude.Exc _ => ok = false
  end.
Proof.
  intros Hnd Ht Hx Hfb.
  pose proof (gen_model_run_is_run_seqs m RS sel out0 XD FD OUT tdm fm X FB from stateful reset shift rs w xs fbs Ht Hx Hfb) as G.
  rewrite run_seqs2_is_run_seqs in G by assumption. exact G.
Qed.
(* the hypothesis is met by concrete models: a two-node chain 0 -> 1 (node 1 fed back by node 0), any forward functions *)
Example chain2_nodup (f0 f1 : vec -> hidden -> vec -> option vec -> option (vec * hidden)) :
  NoDup (ids_of (mkModel [mkND 0 f0 None 1; mkND 1 f1 (Some (FbNode 0)) 2] (fun n => if Nat.eqb n 1 then [0] else []) [1])).
Proof. cbn. repeat constructor; cbn; intuition discriminate. Qed.
End Seqs.
