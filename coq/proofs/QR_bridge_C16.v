(* C16, legacy part: the saved v0.2 ESN and the v0.3 ESN built by load_compat, run at Q, then embedded in R, ARE the same two
   models run at R on the embedded arrays and inputs.

   model/Store.v (part 2) is one term over [Num F].  [C16_load_compat_equiv] (props/C16.v, proofs/Legacy_proofs.v) is about
   its instance at R; the correspondence run (run/RunC16.v, [chk_legacy]) evaluates its instance at Q.  For every homomorphism
   [phi] of the class (base/NumHom.v), in particular [Q2R]: [split_win], [convert] (load_compat), [legacy_pre/step/out/run] and
   [v3_pre/step/out/run] commute with the entry-wise embedding of the two records, from any state and any initial feedback,
   for whole input sequences.  No shape hypothesis, no side condition.  The shape predicate [legacy_shaped] is number-free and
   is preserved in both directions.

   Activations.  The activation f and the feedback function g are arbitrary functions on the column; they only have to be
   related ([ev (f_Q v) = f_R (ev v)]).  Proved related:
   - the three feedback functions the runner knows ([gfun]: identity, x/2, relu) and their real counterparts [gfunR];
   - the TABLE activation of the runner.  [act_tab tab] is not an algebraic function: it looks its argument up (by the
     tolerance test [vclose]) in a list of (argument, result) pairs recorded from np.tanh along the observed run.  Its real
     counterpart [act_tabR] is the same lookup by the real inequality [vrclose] (decided by [Rle_dec]: definable and provably
     related, not executable).  So the R-side model of the verdict theorem is the ESN whose activation is that finite table.
     What stays trusted is exactly what was trusted before: the table replays np.tanh on the arguments met (the R-model with
     the true tanh is not claimed; the theorems of props/C16.v hold for EVERY activation, the table one included).

   The store / copy part of C16 ([chk_copy_model], [chk_node_copy]) contains no numbers (cell contents are nat tokens): there
   is nothing to bridge.  The replayed numeric history of copies (run/RunModel.v [chk_hist]) goes through model/ModelSem.v
   and is not bridged here. *)
From Coq Require Import Reals QArith Qreals List Bool Arith Lia Lra.
From RV Require Import base.Num base.LA base.NumHom model.Store proofs.Legacy_proofs run.RunC16.
Import ListNotations.
Close Scope Q_scope.
Close Scope R_scope.

Section BridgeC16.
Context {F G : Type} {NF : Num F} {NG : Num G} (phi : F -> G) {HH : NumHom phi}.
Local Notation ev := (map phi).
Local Notation em := (map (map phi)).

(* ---- embedding of the two records ---- *)
Definition elegacy (L : legacy (F:=F)) : legacy (F:=G) :=
  mkLegacy (lN L) (em (lW L)) (em (lWin L)) (lbias L) (option_map em (lWfb L)) (option_map em (lWout L)) (phi (llr L)).
Definition ewb (p : list (list F) * list F) : list (list G) * list G := (em (fst p), ev (snd p)).
Definition econv (E : v3esn (F:=F)) : v3esn (F:=G) :=
  mkV3 (em (vW E)) (em (vWin E)) (ev (vbias E)) (option_map em (vWfb E)) (phi (vlr E)) (option_map ewb (vWout E)).
Definition epair (p : list F * list F) : list G * list G := (ev (fst p), ev (snd p)).

(* ---- column slicing: W[:, 1:] and W[:, 0] ---- *)
Lemma em_map_tl (A : list (list F)) : em (map (@tl F) A) = map (@tl G) (em A).
Proof. rewrite !map_map. apply map_ext. intros; apply map_tl. Qed.
Lemma ev_map_hd (A : list (list F)) : ev (map (hd n0) A) = map (hd n0) (em A).
Proof. rewrite !map_map. apply map_ext. intros row. rewrite (map_hd phi), (hom_0 phi). reflexivity. Qed.
Lemma ev_add_bias (u : list F) : ev (add_bias u) = add_bias (ev u).
Proof. unfold add_bias. cbn. rewrite (hom_1 phi). reflexivity. Qed.

(* ---- load_compat ---- *)
Lemma e_split_win L : ewb (split_win L) = split_win (elegacy L).
Proof.
  unfold split_win, ewb. cbn [elegacy lbias lWin lN]. destruct (lbias L); cbn [fst snd].
  - rewrite em_map_tl, ev_map_hd. reflexivity.
  - rewrite (ev_vzeros phi). reflexivity.
Qed.
Lemma e_convert L : econv (convert L) = convert (elegacy L).
Proof.
  unfold convert. rewrite <- e_split_win. destruct (split_win L) as [Win b]. unfold ewb, econv. cbn.
  rewrite (em_transpose phi). f_equal. destruct (lWout L) as [Wo|]; [|reflexivity]. cbn. unfold ewb. cbn [fst snd].
  rewrite (em_transpose phi), em_map_tl, ev_map_hd. reflexivity.
Qed.

(* ---- shapes are number-free ---- *)
Lemma rows_len_em (A : list (list F)) n : (forall row, In row (em A) -> length row = n) <-> (forall row, In row A -> length row = n).
Proof.
  split; intros Hx row Hr.
  - rewrite <- (map_length phi row). apply Hx. apply in_map. exact Hr.
  - apply in_map_iff in Hr. destruct Hr as [r [<- Hr]]. rewrite map_length. apply Hx, Hr.
Qed.
Lemma e_legacy_shaped L : legacy_shaped (elegacy L) <-> legacy_shaped L.
Proof.
  unfold legacy_shaped. cbn [elegacy lW lN lWin lWout]. rewrite rows_len_em, map_length.
  destruct (lWout L) as [Wo|]; cbn [option_map]; [rewrite rows_len_em|]; reflexivity.
Qed.

(* ---- one step and whole runs, for any pair of related activations ---- *)
Section WithAct.
Variables (fF gF : list F -> list F) (fG gG : list G -> list G).
Hypothesis Hf : forall v, ev (fF v) = fG (ev v).
Hypothesis Hg : forall v, ev (gF v) = gG (ev v).

Lemma ev_legacy_pre L x u fb : ev (legacy_pre L gF x u fb) = legacy_pre (elegacy L) gG (ev x) (ev u) (ev fb).
Proof.
  unfold legacy_pre. cbn [elegacy lWin lbias lW lN lWfb].
  assert (E : ev (vadd (mv (lWin L) (if lbias L then add_bias u else u)) (vm x (lW L) (lN L)))
              = vadd (mv (em (lWin L)) (if lbias L then add_bias (ev u) else ev u)) (vm (ev x) (em (lW L)) (lN L))).
  { rewrite (ev_vadd phi), (ev_mv phi), (ev_vm phi). destruct (lbias L); [rewrite ev_add_bias|]; reflexivity. }
  destruct (lWfb L) as [Wfb|]; cbn [option_map]; [|exact E].
  rewrite (ev_vadd phi), E, (ev_mv phi), Hg. reflexivity.
Qed.
Lemma ev_legacy_step L x u fb : ev (legacy_step L fF gF x u fb) = legacy_step (elegacy L) fG gG (ev x) (ev u) (ev fb).
Proof.
  unfold legacy_step. rewrite (ev_vadd phi), !(ev_vscale phi), (hom_sub phi), (hom_1 phi), Hf, ev_legacy_pre. reflexivity.
Qed.
Lemma ev_legacy_out Wo x : ev (legacy_out Wo x) = legacy_out (em Wo) (ev x).
Proof. unfold legacy_out. rewrite (ev_mv phi), ev_add_bias. reflexivity. Qed.
Lemma e_legacy_run L us : forall x fb,
  map epair (legacy_run L fF gF x fb us) = legacy_run (elegacy L) fG gG (ev x) (ev fb) (em us).
Proof.
  induction us as [|u us IH]; intros x fb; [reflexivity|].
  cbn [legacy_run map]. rewrite <- ev_legacy_step. cbn [elegacy lWout lWfb].
  destruct (lWout L) as [Wo|]; destruct (lWfb L) as [Wfb|]; cbn [option_map]; unfold epair at 1; cbn [fst snd];
    rewrite ?ev_legacy_out; f_equal; rewrite <- ?ev_legacy_out; apply IH.
Qed.

Lemma ev_v3_pre E r u y : ev (v3_pre E gF r u y) = v3_pre (econv E) gG (ev r) (ev u) (ev y).
Proof.
  unfold v3_pre. cbn [econv vW vWin vbias vWfb].
  destruct (vWfb E) as [Wfb|]; cbn [option_map]; rewrite !(ev_vadd phi), !(ev_mv phi), ?Hg; reflexivity.
Qed.
Lemma ev_v3_step E r u y : ev (v3_step E fF gF r u y) = v3_step (econv E) fG gG (ev r) (ev u) (ev y).
Proof.
  unfold v3_step. rewrite (ev_vadd phi), !(ev_vscale phi), (hom_sub phi), (hom_1 phi), Hf, ev_v3_pre. reflexivity.
Qed.
Lemma ev_v3_out Wb r : ev (v3_out Wb r) = v3_out (ewb Wb) (ev r).
Proof. unfold v3_out, ewb. cbn [fst snd]. rewrite (ev_vadd phi), (ev_vm phi), map_length. reflexivity. Qed.
Lemma e_v3_run E us : forall r y,
  map epair (v3_run E fF gF r y us) = v3_run (econv E) fG gG (ev r) (ev y) (em us).
Proof.
  induction us as [|u us IH]; intros r y; [reflexivity|].
  cbn [v3_run map]. rewrite <- ev_v3_step. cbn [econv vWout vWfb].
  destruct (vWout E) as [Wb|]; destruct (vWfb E) as [Wfb|]; cbn [option_map]; unfold epair at 1; cbn [fst snd];
    rewrite ?ev_v3_out; f_equal; rewrite <- ?ev_v3_out; apply IH.
Qed.
(* the converted ESN of the embedded legacy ESN *)
Lemma e_convert_run L us r y :
  map epair (v3_run (convert L) fF gF r y us) = v3_run (convert (elegacy L)) fG gG (ev r) (ev y) (em us).
Proof. rewrite e_v3_run, e_convert. reflexivity. Qed.
End WithAct.
End BridgeC16.

(* ================================================================== the instance Q -> R *)
Notation legacy2r := (elegacy Q2R).
Notation conv2r := (econv Q2R).
Notation wb2r := (ewb Q2R).
Notation pairs2r := (map (epair Q2R)).

(* ---- the feedback functions of the runner and their real counterparts ---- *)
Definition gfunR (g : gkind) (v : list R) : list R :=
  match g with
  | GId => v
  | GHalf => map (fun a => (a / 2)%R) v
  | GRelu => map (fun a => if Rle_dec a 0 then 0%R else a) v
  end.
Lemma Q2R_half (a : Q) : Q2R (Qred (a / 2)%Q) = (Q2R a / 2)%R.
Proof.
  change (Qred (a / 2)%Q) with (ndiv a 2%Q). rewrite Q2R_ndiv. cbn. f_equal. unfold Q2R. cbn. lra.
Qed.
Lemma Q2R_relu (a : Q) : Q2R (if Qle_bool a 0 then 0%Q else a) = (if Rle_dec (Q2R a) 0 then 0%R else Q2R a).
Proof.
  change (Qle_bool a 0) with (nleb a n0). rewrite (Q2R_nleb a n0), Q2R_n0. cbn.
  destruct (Rle_dec (Q2R a) 0); [|reflexivity]. change 0%Q with (@n0 Q _). apply Q2R_n0.
Qed.
Lemma gfun_rel (g : gkind) (v : list Q) : qv2r (gfun g v) = gfunR g (qv2r v).
Proof.
  destruct g; cbn [gfun gfunR]; [reflexivity| |]; rewrite !map_map; apply map_ext; intros a; [apply Q2R_half | apply Q2R_relu].
Qed.

(* ---- the table activation: the same lookup, by the real tolerance inequality ---- *)
Definition rcloseb (m o : R) : bool := if Rle_dec (Rabs (m - o)) (Q2R tol * Rmax 1 (Rabs m)) then true else false.
Fixpoint vrcloseb (m o : list R) : bool :=
  match m, o with
  | [], [] => true
  | a :: m', b :: o' => rcloseb a b && vrcloseb m' o'
  | _, _ => false
  end.
Definition act_tabR (t : list (list R * list R)) (v : list R) : list R :=
  match find (fun p => vrcloseb v (fst p)) t with Some p => snd p | None => [] end.

Lemma rcloseb_iff m o : rcloseb m o = true <-> rclose m o.
Proof. unfold rcloseb, rclose. destruct (Rle_dec _ _); split; intros; auto; discriminate. Qed.
Lemma vrcloseb_iff m o : vrcloseb m o = true <-> vrclose m o.
Proof.
  revert o. induction m as [|a m IH]; intros [|b o]; cbn; split; intros Hx; try discriminate; try constructor; try (inversion Hx; fail).
  - apply andb_true_iff in Hx. apply rcloseb_iff, Hx.
  - apply andb_true_iff in Hx. apply IH, Hx.
  - inversion Hx; subst. apply andb_true_iff. split; [apply rcloseb_iff | apply IH]; assumption.
Qed.
(* [act_tabR] in plain terms: the result attached to the first recorded argument within tolerance of v, [] if there is none *)
Lemma act_tabR_spec (t : list (list R * list R)) (v : list R) :
  (exists p, In p t /\ vrclose v (fst p) /\ act_tabR t v = snd p) \/
  ((forall p, In p t -> ~ vrclose v (fst p)) /\ act_tabR t v = []).
Proof.
  unfold act_tabR. destruct (find (fun p => vrcloseb v (fst p)) t) as [p|] eqn:E.
  - left. exists p. apply find_some in E. destruct E as [Hin Hc]. repeat split; [exact Hin | apply vrcloseb_iff, Hc].
  - right. split; [|reflexivity]. intros p Hin Hc. apply vrcloseb_iff in Hc.
    pose proof (find_none _ _ E p Hin) as Hn. cbv beta in Hn. congruence.
Qed.
Lemma vclose_vrcloseb (m o : list Q) : vclose m o = vrcloseb (qv2r m) (qv2r o).
Proof.
  destruct (vclose m o) eqn:E1; destruct (vrcloseb (qv2r m) (qv2r o)) eqn:E2; try reflexivity; exfalso.
  - apply vclose_vrclose, vrcloseb_iff in E1. congruence.
  - apply vrcloseb_iff, vclose_vrclose in E2. congruence.
Qed.
Lemma act_tab_rel (tab : list (list Q * list Q)) (v : list Q) : qv2r (act_tab tab v) = act_tabR (pairs2r tab) (qv2r v).
Proof.
  unfold act_tab, act_tabR. induction tab as [|[a b] tab IH]; [reflexivity|].
  cbn [find map epair fst snd]. rewrite <- vclose_vrcloseb. destruct (vclose v a); [reflexivity | exact IH].
Qed.

(* ---- the runs, embedded ---- *)
(* any pair of related activations, any start state and initial feedback: the saved ESN *)
Lemma Qlegacy_run_embeds (L : legacy (F:=Q)) (fQ gQ : list Q -> list Q) (fR gR : list R -> list R) (x fb : list Q) (us : list (list Q)) :
  (forall v, qv2r (fQ v) = fR (qv2r v)) -> (forall v, qv2r (gQ v) = gR (qv2r v)) ->
  pairs2r (legacy_run L fQ gQ x fb us) = legacy_run (legacy2r L) fR gR (qv2r x) (qv2r fb) (qm2r us).
Proof. intros Hf Hg. apply (e_legacy_run Q2R fQ gQ fR gR Hf Hg). Qed.
(* ... and the ESN built by load_compat from it *)
Lemma Qconvert_embeds (L : legacy (F:=Q)) : conv2r (convert L) = convert (legacy2r L).
Proof. apply (e_convert Q2R). Qed.
Lemma Qconverted_run_embeds (L : legacy (F:=Q)) (fQ gQ : list Q -> list Q) (fR gR : list R -> list R) (r y : list Q) (us : list (list Q)) :
  (forall v, qv2r (fQ v) = fR (qv2r v)) -> (forall v, qv2r (gQ v) = gR (qv2r v)) ->
  pairs2r (v3_run (convert L) fQ gQ r y us) = v3_run (convert (legacy2r L)) fR gR (qv2r r) (qv2r y) (qm2r us).
Proof. intros Hf Hg. apply (e_convert_run Q2R fQ gQ fR gR Hf Hg). Qed.
(* one step of each *)
Lemma Qlegacy_step_embeds (L : legacy (F:=Q)) (fQ gQ : list Q -> list Q) (fR gR : list R -> list R) (x u fb : list Q) :
  (forall v, qv2r (fQ v) = fR (qv2r v)) -> (forall v, qv2r (gQ v) = gR (qv2r v)) ->
  qv2r (legacy_step L fQ gQ x u fb) = legacy_step (legacy2r L) fR gR (qv2r x) (qv2r u) (qv2r fb) /\
  qv2r (v3_step (convert L) fQ gQ x u fb) = v3_step (convert (legacy2r L)) fR gR (qv2r x) (qv2r u) (qv2r fb).
Proof.
  intros Hf Hg. split; [apply (ev_legacy_step Q2R fQ gQ fR gR Hf Hg)|].
  rewrite (ev_v3_step Q2R fQ gQ fR gR Hf Hg), (e_convert Q2R). reflexivity.
Qed.
Lemma Qlegacy_shaped (L : legacy (F:=Q)) : legacy_shaped (legacy2r L) <-> legacy_shaped L.
Proof. apply (e_legacy_shaped Q2R). Qed.

(* the boolean shape test of the runner implies the shape hypothesis of the theorems *)
Lemma shapedb_shaped (L : legacy (F:=Q)) : shapedb L = true -> legacy_shaped L.
Proof.
  unfold shapedb, legacy_shaped. intros Hx. repeat (apply andb_true_iff in Hx; destruct Hx as [Hx ?]).
  split; [|split].
  - intros row Hr. rewrite forallb_forall in Hx. apply Nat.eqb_eq, Hx, Hr.
  - apply Nat.eqb_eq. assumption.
  - destruct (lWout L) as [Wo|]; [|exact I]. intros row Hr.
    match goal with Hw : forallb _ Wo = true |- _ => rewrite forallb_forall in Hw; apply Nat.eqb_eq, Hw, Hr end.
Qed.

(* ================================================================== the verdict of the correspondence runner, read at R *)
Fixpoint pairs_close_R (m o : list (list R * list R)) : Prop :=
  match m, o with
  | [], [] => True
  | a :: m', b :: o' => vrclose (fst a) (fst b) /\ vrclose (snd a) (snd b) /\ pairs_close_R m' o'
  | _, _ => False
  end.
Definition omrclose (a b : option (list (list R))) : Prop :=
  match a, b with Some x, Some y => mrclose x y | None, None => True | _, _ => False end.
Definition owbrclose (a b : option (list (list R) * list R)) : Prop :=
  match a, b with
  | Some (W, bv), Some (W', bv') => mrclose W W' /\ vrclose bv bv'
  | None, None => True
  | _, _ => False
  end.

Lemma pairs_close_R_of (m o : list (list Q * list Q)) : pairs_close m o = true -> pairs_close_R (pairs2r m) (pairs2r o).
Proof.
  revert o. induction m as [|a m IH]; intros [|b o]; cbn [pairs_close pairs_close_R map]; intros Hx; try discriminate; try exact I.
  repeat (apply andb_true_iff in Hx; destruct Hx as [Hx ?]).
  unfold epair. cbn [fst snd]. repeat split; [apply vclose_vrclose; assumption | apply vclose_vrclose; assumption | apply IH; assumption].
Qed.
Lemma omrclose_of (a b : option (list (list Q))) : omclose a b = true -> omrclose (option_map qm2r a) (option_map qm2r b).
Proof. destruct a, b; cbn; intros Hx; try discriminate; try exact I. apply mclose_mrclose, Hx. Qed.

(* what the verdict says about the R instance: [L] the embedded saved ESN, [f] / [g] its activation and feedback function *)
Definition legacy_verdict_R (L : legacy (F:=R)) (f g : list R -> list R) (dout : nat) (us : list (list R))
    (o_saved o_loaded o_conv : list (list R * list R))
    (cW cWin : list (list R)) (cbias : list R) (cWfb : option (list (list R))) (cWout : option (list (list R) * list R)) : Prop :=
  let E := convert L in
  let x0 := vzeros (lN L) in let fb0 := vzeros dout in
  legacy_shaped L /\
  mrclose (vW E) cW /\ mrclose (vWin E) cWin /\ vrclose (vbias E) cbias /\ omrclose (vWfb E) cWfb /\ owbrclose (vWout E) cWout /\
  pairs_close_R (legacy_run L f g x0 fb0 us) o_saved /\
  pairs_close_R (legacy_run L f g x0 fb0 us) o_loaded /\
  pairs_close_R (v3_run E f g x0 fb0 us) o_conv.

(* for any real activation related to the table *)
Lemma chk_legacy_is_about_R_model_gen (L : legacy (F:=Q)) (tab : list (list Q * list Q)) (g : gkind) (dout : nat) (us : list (list Q))
      (o_saved o_loaded o_conv : list (list Q * list Q))
      (cW cWin : list (list Q)) (cbias : list Q) (cWfb : option (list (list Q))) (cWout : option (list (list Q) * list Q))
      (fR : list R -> list R) :
  (forall v, qv2r (act_tab tab v) = fR (qv2r v)) ->
  chk_legacy L tab g dout us o_saved o_loaded o_conv cW cWin cbias cWfb cWout = true ->
  legacy_verdict_R (legacy2r L) fR (gfunR g) dout (qm2r us) (pairs2r o_saved) (pairs2r o_loaded) (pairs2r o_conv)
                   (qm2r cW) (qm2r cWin) (qv2r cbias) (option_map qm2r cWfb) (option_map wb2r cWout).
Proof.
  intros Hf. unfold chk_legacy, legacy_verdict_R. cbv zeta. intros Hx.
  do 8 (apply andb_true_iff in Hx; destruct Hx as [Hx ?]).
  split; [apply (e_legacy_shaped Q2R), shapedb_shaped; exact Hx|].
  rewrite <- (e_convert Q2R L). cbn [elegacy lN econv vW vWin vbias vWfb vWout].
  rewrite <- !(ev_vzeros Q2R).
  rewrite <- (e_legacy_run Q2R (act_tab tab) (gfun g) fR (gfunR g) Hf (gfun_rel g)).
  rewrite <- (e_v3_run Q2R (act_tab tab) (gfun g) fR (gfunR g) Hf (gfun_rel g)).
  repeat split; try (apply mclose_mrclose; assumption); try (apply vclose_vrclose; assumption);
    try (apply pairs_close_R_of; assumption); try (apply omrclose_of; assumption).
  match goal with Hw : match vWout (convert L) with _ => _ end = true |- _ => revert Hw end.
  destruct (vWout (convert L)) as [[W b]|]; destruct cWout as [[W' b']|]; cbn; intros Hw; try discriminate; try exact I.
  apply andb_true_iff in Hw. split; [apply mclose_mrclose | apply vclose_vrclose]; apply Hw.
Qed.

(* with the real table lookup: no hypothesis left *)
Lemma chk_legacy_is_about_R_model (L : legacy (F:=Q)) (tab : list (list Q * list Q)) (g : gkind) (dout : nat) (us : list (list Q))
      (o_saved o_loaded o_conv : list (list Q * list Q))
      (cW cWin : list (list Q)) (cbias : list Q) (cWfb : option (list (list Q))) (cWout : option (list (list Q) * list Q)) :
  chk_legacy L tab g dout us o_saved o_loaded o_conv cW cWin cbias cWfb cWout = true ->
  legacy_verdict_R (legacy2r L) (act_tabR (pairs2r tab)) (gfunR g) dout (qm2r us) (pairs2r o_saved) (pairs2r o_loaded) (pairs2r o_conv)
                   (qm2r cW) (qm2r cWin) (qv2r cbias) (option_map qm2r cWfb) (option_map wb2r cWout).
Proof. apply chk_legacy_is_about_R_model_gen, act_tab_rel. Qed.

(* combined with convert_run (proofs/Legacy_proofs.v, over R): the embedded legacy ESN satisfies the shape hypothesis, so
   the theorem applies to it, and the rows OBSERVED on the ESN returned by load_compat are close to the run of the R-model
   of the SAVED ESN (and conversely the rows observed on the saved / loaded ESN are close to the run of the converted R-model) *)
Lemma chk_legacy_load_compat_R (L : legacy (F:=Q)) (tab : list (list Q * list Q)) (g : gkind) (dout : nat) (us : list (list Q))
      (o_saved o_loaded o_conv : list (list Q * list Q))
      (cW cWin : list (list Q)) (cbias : list Q) (cWfb : option (list (list Q))) (cWout : option (list (list Q) * list Q)) :
  chk_legacy L tab g dout us o_saved o_loaded o_conv cW cWin cbias cWfb cWout = true ->
  let LR := legacy2r L in let fR := act_tabR (pairs2r tab) in let gR := gfunR g in
  let x0 := vzeros (lN LR) in let fb0 := vzeros dout in
  v3_run (convert LR) fR gR x0 fb0 (qm2r us) = legacy_run LR fR gR x0 fb0 (qm2r us) /\
  pairs_close_R (legacy_run LR fR gR x0 fb0 (qm2r us)) (pairs2r o_conv) /\
  pairs_close_R (v3_run (convert LR) fR gR x0 fb0 (qm2r us)) (pairs2r o_saved) /\
  pairs_close_R (v3_run (convert LR) fR gR x0 fb0 (qm2r us)) (pairs2r o_loaded).
Proof.
  intros Hx. cbv zeta. apply chk_legacy_is_about_R_model in Hx. unfold legacy_verdict_R in Hx. cbv zeta in Hx.
  destruct Hx as [Hs [_ [_ [_ [_ [_ [H1 [H2 H3]]]]]]]].
  pose proof (convert_run (legacy2r L) (act_tabR (pairs2r tab)) (gfunR g) Hs (qm2r us) (vzeros (lN (legacy2r L))) (vzeros dout)) as Ec.
  rewrite Ec in H3 |- *. split; [reflexivity|]. repeat split; assumption.
Qed.

(* ---- a concrete instance: N = 2, input bias, feedback (x/2), trained readout, lr = 1/2; two inputs; the table holds the two
   arguments met (with arbitrary rational results).  The R-models' runs are the embedded Q runs. ---- *)
Definition exL : legacy (F:=Q) := mkLegacy 2 [[0;1];[0;0]]%Q [[1;1];[2;1]]%Q true (Some [[1];[1]]%Q) (Some [[0;1;2]]%Q) (1#2)%Q.
Definition extab : list (list Q * list Q) := [([2;3]%Q, [(1#2);(3#4)]%Q); ([(7#2);(19#4)]%Q, [(7#8);(15#16)]%Q)].
Definition exus : list (list Q) := [[1]; [2]]%Q.
Definition exrows : list (list Q * list Q) := [([(1#4);(3#8)]%Q, [1]%Q); ([(9#16);(21#32)]%Q, [(15#8)]%Q)].
Example chk_legacy_example :
  chk_legacy exL extab GHalf 1 exus exrows exrows exrows
             [[0;0];[1;0]]%Q [[1];[1]]%Q [1;2]%Q (Some [[1];[1]]%Q) (Some ([[1];[2]]%Q, [0]%Q)) = true.
Proof. vm_compute. reflexivity. Qed.
Example Qlegacy_run_example :
  legacy_run (legacy2r exL) (act_tabR (pairs2r extab)) (gfunR GHalf) (qv2r [0;0]%Q) (qv2r [0]%Q) (qm2r exus) = pairs2r exrows /\
  v3_run (convert (legacy2r exL)) (act_tabR (pairs2r extab)) (gfunR GHalf) (qv2r [0;0]%Q) (qv2r [0]%Q) (qm2r exus) = pairs2r exrows.
Proof.
  rewrite <- (Qlegacy_run_embeds exL (act_tab extab) (gfun GHalf) _ _ _ _ _ (act_tab_rel extab) (gfun_rel GHalf)).
  rewrite <- (Qconverted_run_embeds exL (act_tab extab) (gfun GHalf) _ _ _ _ _ (act_tab_rel extab) (gfun_rel GHalf)).
  split; vm_compute legacy_run; vm_compute v3_run; reflexivity.
Qed.
