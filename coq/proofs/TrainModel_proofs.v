(* Proofs about model/TrainModel.v (online training of a model), for every Num instance, every family of node forward
   functions and both learning rules; all by induction on the list of timesteps. *)
From Coq Require Import List Arith Bool Lia.
From RV Require Import base.Num base.LA model.ModelSem model.Online proofs.ModelSem_proofs model.TrainModel.
Import ListNotations.

Section Proofs.
Context {F : Type} `{Num F}.
Notation vec := (list F).
Notation env := (@env F).
Notation ndesc := (@ndesc F).
Notation model := (@model F).
Notation tmodel := (@tmodel F).
Notation tstep := (@tstep F).
Notation tstate := (@tstate F).
Notation params := (@params F).
Notation pover := (@pover F).

(* ------------------------------------------------------------------ the gate *)
Lemma mod0 k : 0 mod k = 0.
Proof. destruct k; [reflexivity|]. cbn. apply Nat.sub_diag. Qed.
Lemma gate_first k single : gate k single 0 = true.
Proof. unfold gate. rewrite mod0. reflexivity. Qed.
Lemma gate_shift k single i : 0 < k -> gate k single (i + k) = gate k single i.
Proof.
  intros Hk. unfold gate. replace ((i + k) mod k) with (i mod k); [reflexivity|].
  rewrite <- (Nat.mul_1_l k) at 2. rewrite Nat.mod_add by lia. reflexivity.
Qed.

(* ------------------------------------------------------------------ structure of with_params *)
Definition wp_nd (tm : tmodel) (P : params) (d : ndesc) : ndesc :=
  match find_r tm (nid d) with Some r => rdo_nd P d r | None => d end.
Lemma wp_nid tm P d : nid (wp_nd tm P d) = nid d.
Proof. unfold wp_nd. destruct (find_r tm (nid d)); reflexivity. Qed.
Lemma wp_nfb tm P d : nfb (wp_nd tm P d) = nfb d.
Proof. unfold wp_nd. destruct (find_r tm (nid d)); reflexivity. Qed.
Lemma wp_order tm P : order (with_params tm P) = map (wp_nd tm P) (order (base tm)).
Proof. reflexivity. Qed.

Lemma find_wp tm P n : forall ds,
  find (fun d => Nat.eqb (nid d) n) (map (wp_nd tm P) ds) = option_map (wp_nd tm P) (find (fun d => Nat.eqb (nid d) n) ds).
Proof.
  induction ds as [|d ds IH]; [reflexivity|]. cbn [map find]. rewrite wp_nid.
  destruct (Nat.eqb (nid d) n); [reflexivity|exact IH].
Qed.

(* which receivers are clamped, and with what, does not depend on the learned parameters *)
Lemma clamps_with_params tm P forced n : clamps (with_params tm P) forced n = clamps (base tm) forced n.
Proof.
  unfold clamps. rewrite wp_order, find_wp. destruct (find _ (order (base tm))) as [d|]; [|reflexivity].
  cbn [option_map]. rewrite wp_nfb. unfold forced_value. rewrite wp_nid, wp_nfb. reflexivity.
Qed.
Lemma proxies_with_params tm P forced (e : env) n : proxies (with_params tm P) forced e n = proxies (base tm) forced e n.
Proof.
  unfold proxies. rewrite wp_order, find_wp. destruct (find _ (order (base tm))) as [d|]; [|reflexivity].
  cbn [option_map]. rewrite wp_nfb. reflexivity.
Qed.

Lemma find_in_nodup (ds : list ndesc) d : NoDup (map nid ds) -> In d ds -> find (fun x => Nat.eqb (nid x) (nid d)) ds = Some d.
Proof.
  induction ds as [|a ds IH]; intros Hnd Hin; [destruct Hin|]. cbn in Hnd. inversion Hnd as [|? ? Hna Hnd']; subst.
  cbn [find]. destruct Hin as [->|Hin]; [rewrite Nat.eqb_refl; reflexivity|].
  destruct (Nat.eqb_spec (nid a) (nid d)) as [E|_]; [|apply IH; assumption].
  exfalso. apply Hna. rewrite E. apply in_map. assumption.
Qed.

(* the clamp of a receiver d of the model: the value forced under its own name, else under its node sender's *)
Lemma clamps_receiver (m : model) forced d src :
  NoDup (map nid (order m)) -> In d (order m) -> nfb d = Some src -> clamps m forced (nid d) = forced_value forced d.
Proof. intros Hnd Hin Hf. unfold clamps. rewrite (find_in_nodup _ _ Hnd Hin), Hf. reflexivity. Qed.

(* ------------------------------------------------------------------ forward depends on prev / clamp through fbvalue only *)
Lemma forward_from_fb_ext (m : model) prev1 c1 prev2 c2 ext : forall ds (e : env),
  (forall d, In d ds -> fbvalue d prev1 c1 = fbvalue d prev2 c2) ->
  forward_from m prev1 c1 ext ds e = forward_from m prev2 c2 ext ds e.
Proof.
  induction ds as [|d ds IH]; intros e Hfb; [reflexivity|]. cbn [forward_from]. unfold call_node.
  rewrite (Hfb d (or_introl eq_refl)).
  destruct (nfwd d _ _ _ _) as [[s' h']|]; [|reflexivity]. apply IH. intros x Hx. apply Hfb. right. assumption.
Qed.

(* ------------------------------------------------------------------ learning touches the proxies only under force_teachers *)
Definition lstep (tm : tmodel) (force : bool) (s : tstep) (e1 : env) (a : params * pover) (d : ndesc) : params * pover :=
  match find_r tm (nid d) with Some r => learn_node tm force s e1 a r | None => a end.
Lemma learn_all_unforced_pov tm s e1 : forall ds (acc : params * pover),
  snd (fold_left (lstep tm false s e1) ds acc) = snd acc.
Proof.
  induction ds as [|d ds IH]; intros acc; [reflexivity|]. cbn [fold_left]. rewrite IH. unfold lstep.
  destruct (find_r tm (nid d)) as [r|]; [|reflexivity]. unfold learn_node. destruct (target_of s e1 r); reflexivity.
Qed.

Lemma train_step_unforced_pov tm k single i prev s (S : tstate) : snd (fst (train_step tm k single false i prev s S)) = no_pov.
Proof.
  destruct S as [[e P] pov]. unfold train_step. destruct (forward _ _ _ _ _) as [e1 ok]. destruct ok; [|reflexivity].
  destruct (gate k single i); [|reflexivity].
  pose proof (learn_all_unforced_pov tm s e1 (order (base tm)) (P, no_pov)) as Hp. unfold learn_all.
  destruct (fold_left _ _ _) as [P1 pov1]. cbn in Hp. cbn. exact Hp.
Qed.

(* without force_teachers the previous step's targets play no role *)
Lemma train_step_unforced_prev tm k single i prev prev' s (S : tstate) :
  train_step tm k single false i prev s S = train_step tm k single false i prev' s S.
Proof. reflexivity. Qed.

(* ------------------------------------------------------------------ (c) parameters change on gated steps only *)
Lemma train_step_ungated_params tm k single force i prev s (S : tstate) :
  gate k single i = false -> snd (fst (fst (train_step tm k single force i prev s S))) = snd (fst S).
Proof.
  intros Hg. destruct S as [[e P] pov]. unfold train_step. rewrite Hg.
  destruct (forward _ _ _ _ _) as [e1 ok]. destruct ok; reflexivity.
Qed.
(* ... and then only those of the model's readouts *)
Lemma learn_all_params_frame tm force s e1 n : find_r tm n = None -> forall ds (acc : params * pover),
  fst (fold_left (lstep tm force s e1) ds acc) n = fst acc n.
Proof.
  intros Hn. induction ds as [|d ds IH]; intros acc; [reflexivity|]. cbn [fold_left]. rewrite IH. unfold lstep.
  destruct (find_r tm (nid d)) as [r|] eqn:Er; [|reflexivity]. unfold learn_node. destruct (target_of s e1 r); [|reflexivity].
  cbn [fst]. unfold pupd. destruct (Nat.eqb_spec n (rid r)) as [->|]; [|reflexivity].
  exfalso. unfold find_r in Er. apply find_some in Er. destruct Er as [Hin Heq]. apply Nat.eqb_eq in Heq.
  unfold find_r in Hn. pose proof (find_none _ _ Hn r Hin) as Hc. cbn in Hc. rewrite Nat.eqb_refl in Hc. discriminate.
Qed.

(* ------------------------------------------------------------------ the loop: concatenation *)
Definition last_opt (prev : option tstep) (xs : list tstep) : option tstep := fold_left (fun _ x => Some x) xs prev.

Lemma train_from_app tm k single force : forall xs ys i prev (S : tstate),
  train_from tm k single force i prev (xs ++ ys) S =
    let '(S1, o1, ok1) := train_from tm k single force i prev xs S in
    if ok1 then let '(S2, o2, ok2) := train_from tm k single force (i + length xs) (last_opt prev xs) ys S1 in (S2, o1 ++ o2, ok2)
    else (S1, o1, false).
Proof.
  induction xs as [|x xs IH]; intros ys i prev S; cbn [app train_from length last_opt fold_left].
  - rewrite Nat.add_0_r. destruct (train_from tm k single force i prev ys S) as [[S2 o2] ok2]. reflexivity.
  - destruct (train_step tm k single force i prev x S) as [S1 ok] eqn:E. destruct ok; [|reflexivity].
    rewrite IH. change (fold_left (fun _ x0 => Some x0) xs (Some x)) with (last_opt (Some x) xs).
    destruct (train_from tm k single force (Datatypes.S i) (Some x) xs S1) as [[S1' o1] ok1]. destruct ok1; [|reflexivity].
    replace (Datatypes.S i + length xs) with (i + Datatypes.S (length xs)) by lia.
    destruct (train_from tm k single force (i + Datatypes.S (length xs)) (last_opt (Some x) xs) ys S1') as [[S2 o2] ok2]. reflexivity.
Qed.

Lemma train_step_shift tm k single force i prev s (S : tstate) :
  0 < k -> train_step tm k single force (i + k) prev s S = train_step tm k single force i prev s S.
Proof. intros Hk. unfold train_step. rewrite gate_shift by assumption. reflexivity. Qed.

Lemma train_from_shift tm k single force : 0 < k -> forall xs i prev (S : tstate),
  train_from tm k single force (i + k) prev xs S = train_from tm k single force i prev xs S.
Proof.
  intros Hk. induction xs as [|x xs IH]; intros i prev S; cbn [train_from]; [reflexivity|].
  rewrite train_step_shift by assumption. destruct (train_step tm k single force i prev x S) as [S1 ok]. destruct ok; [|reflexivity].
  replace (Datatypes.S (i + k)) with (Datatypes.S i + k) by lia. rewrite IH. reflexivity.
Qed.
Lemma train_from_shift_mul tm k single force : 0 < k -> forall c xs i prev (S : tstate),
  train_from tm k single force (i + k * c) prev xs S = train_from tm k single force i prev xs S.
Proof.
  intros Hk. induction c as [|c IHc]; intros xs i prev S.
  - rewrite Nat.mul_0_r, Nat.add_0_r. reflexivity.
  - replace (i + k * Datatypes.S c) with ((i + k * c) + k) by lia. rewrite train_from_shift by assumption. apply IHc.
Qed.

(* `or seq_len == 1` adds nothing: the only step of a one-step call has index 0, where the gate is open anyway *)
Lemma train_from_single tm k force prev steps (S : tstate) :
  train_from tm k (length steps =? 1) force 0 prev steps S = train_from tm k false force 0 prev steps S.
Proof.
  destruct steps as [|s [|s2 rest]]; [reflexivity| |reflexivity].
  cbn [length Nat.eqb train_from]. unfold train_step. rewrite !gate_first. reflexivity.
Qed.

Lemma train_from_unforced_prev tm k single : forall xs i prev prev' (S : tstate),
  train_from tm k single false i prev xs S = train_from tm k single false i prev' xs S.
Proof. destruct xs as [|x xs]; intros; reflexivity. Qed.

Lemma train_from_unforced_pov tm k single : forall xs i prev (S : tstate),
  snd S = no_pov -> snd (fst (fst (train_from tm k single false i prev xs S))) = no_pov.
Proof.
  induction xs as [|x xs IH]; intros i prev S HS; cbn [train_from]; [exact HS|].
  pose proof (train_step_unforced_pov tm k single i prev x S) as Hp.
  destruct (train_step tm k single false i prev x S) as [S1 ok]. cbn in Hp. destruct ok; [|exact Hp].
  specialize (IH (Datatypes.S i) (Some x) S1 Hp).
  destruct (train_from tm k single false (Datatypes.S i) (Some x) xs S1) as [[S2 o2] ok2]. exact IH.
Qed.

(* ------------------------------------------------------------------ (a) CHUNKING, force_teachers = False *)
(* training on xs ++ ys = training on xs, then on ys from the (states, parameters) reached; outputs concatenated; a failure in the
   first part stops there.  Any cut for learn_every = 1, cuts at multiples of learn_every otherwise. *)
Theorem train_call_app_unforced tm k reset xs ys (eP : env * params) :
  0 < k -> length xs mod k = 0 ->
  train_call tm k false reset (xs ++ ys) eP =
    let '(e1, P1, o1, ok1) := train_call tm k false reset xs eP in
    if ok1 then let '(e2, P2, o2, ok2) := train_call tm k false false ys (e1, P1) in (e2, P2, o1 ++ o2, ok2)
    else (e1, P1, o1, false).
Proof.
  intros Hk Hm. unfold train_call. change (init_pov tm false) with (@no_pov F).
  rewrite !train_from_single, train_from_app. cbn [fst snd].
  set (S0 := (start_env (base tm) reset (fun _ => None) (fst eP), snd eP, @no_pov F)).
  pose proof (train_from_unforced_pov tm k false xs 0 None S0 eq_refl) as Hp.
  destruct (train_from tm k false false 0 None xs S0) as [[[[e1 P1] pov1] o1] ok1]. cbn in Hp. subst pov1. cbn [fst snd].
  destruct ok1; [|reflexivity].
  rewrite start_env_noop, train_from_single.
  apply Nat.mod_divides in Hm; [|lia]. destruct Hm as [c Hc]. rewrite Hc.
  rewrite (train_from_shift_mul tm k false false Hk c ys 0), (train_from_unforced_prev tm k false ys 0 _ None).
  destruct (train_from tm k false false 0 None ys (e1, P1, no_pov)) as [[[[e2 P2] pov2] o2] ok2]. reflexivity.
Qed.

(* any chunking into pieces whose lengths (all but the last) are multiples of learn_every *)
Fixpoint train_chunks (tm : tmodel) (k : nat) (chunks : list (list tstep)) (eP : env * params)
  : env * params * list (list vec) * bool :=
  match chunks with
  | [] => (fst eP, snd eP, [], true)
  | c :: rest =>
      let '(e1, P1, o1, ok1) := train_call tm k false false c eP in
      if ok1 then let '(e2, P2, o2, ok2) := train_chunks tm k rest (e1, P1) in (e2, P2, o1 ++ o2, ok2) else (e1, P1, o1, false)
  end.
Lemma train_call_nil tm k force (eP : env * params) : train_call tm k force false [] eP = (fst eP, snd eP, [], true).
Proof. unfold train_call. cbn. rewrite start_env_noop. reflexivity. Qed.
Theorem train_chunks_concat tm k : 0 < k -> forall chunks (eP : env * params),
  Forall (fun c => length c mod k = 0) (removelast chunks) ->
  train_chunks tm k chunks eP = train_call tm k false false (concat chunks) eP.
Proof.
  intros Hk. induction chunks as [|c rest IH]; intros eP Hall; cbn [train_chunks concat].
  - rewrite train_call_nil. reflexivity.
  - destruct rest as [|c2 rest].
    + cbn [train_chunks concat]. rewrite app_nil_r.
      destruct (train_call tm k false false c eP) as [[[e1 P1] o1] ok1]. destruct ok1; [rewrite app_nil_r|]; reflexivity.
    + cbn [removelast] in Hall. inversion Hall as [|? ? Hc Hrest]; subst.
      rewrite train_call_app_unforced by assumption.
      destruct (train_call tm k false false c eP) as [[[e1 P1] o1] ok1]. destruct ok1; [|reflexivity].
      rewrite IH by exact Hrest. reflexivity.
Qed.

(* ------------------------------------------------------------------ (a) CHUNKING, force_teachers = True *)
(* "modulo the first step": the whole call is the first chunk followed by the second chunk CONTINUED - started with the step
   counter, the previous step's targets and the frozen proxies where the first chunk left them *)
Theorem train_forced_continuation tm k xs ys (S : tstate) :
  train_from tm k false true 0 None (xs ++ ys) S =
    let '(S1, o1, ok1) := train_from tm k false true 0 None xs S in
    if ok1 then let '(S2, o2, ok2) := train_from tm k false true (length xs) (last_opt None xs) ys S1 in (S2, o1 ++ o2, ok2)
    else (S1, o1, false).
Proof. apply (train_from_app tm k false true xs ys 0 None S). Qed.

(* a fresh call on the second chunk gives the same result exactly when, at the cut, every node of the model is handed the same
   feedback value by both (the fresh call forces zeros - array targets through dispatch, teacher-node targets through the
   zero proxy - where the uninterrupted one forces the last targets of the first chunk) *)
Definition cut_agrees (tm : tmodel) (S1 : tstate) (lastx y0 : tstep) : Prop :=
  forall d, In d (order (with_params tm (snd (fst S1)))) ->
    fb_seen tm true (Some lastx) y0 S1 d = fb_seen tm true None y0 (fst (fst S1), snd (fst S1), init_pov tm true) d.

Lemma train_step_cut tm k i (S1 : tstate) lastx y0 :
  cut_agrees tm S1 lastx y0 ->
  train_step tm k false true i (Some lastx) y0 S1 = train_step tm k false true i None y0 (fst (fst S1), snd (fst S1), init_pov tm true).
Proof.
  destruct S1 as [[e P] pov]. unfold cut_agrees, fb_seen, train_step. cbn [fst snd]. intros Hc.
  unfold forward. rewrite (forward_from_fb_ext _ _ _ _ _ _ _ _ Hc). reflexivity.
Qed.

Theorem train_call_app_forced tm k reset xs lastx y0 ys (eP : env * params) :
  0 < k -> length (xs ++ [lastx]) mod k = 0 ->
  (forall S1 o1, train_from tm k false true 0 None (xs ++ [lastx])
                   (start_env (base tm) reset (fun _ => None) (fst eP), snd eP, init_pov tm true) = (S1, o1, true) ->
                 cut_agrees tm S1 lastx y0) ->
  train_call tm k true reset ((xs ++ [lastx]) ++ y0 :: ys) eP =
    let '(e1, P1, o1, ok1) := train_call tm k true reset (xs ++ [lastx]) eP in
    if ok1 then let '(e2, P2, o2, ok2) := train_call tm k true false (y0 :: ys) (e1, P1) in (e2, P2, o1 ++ o2, ok2)
    else (e1, P1, o1, false).
Proof.
  intros Hk Hm Hcut. unfold train_call. rewrite !train_from_single, train_from_app. cbn [fst snd].
  set (S0 := (start_env (base tm) reset (fun _ => None) (fst eP), snd eP, init_pov tm true)) in *.
  destruct (train_from tm k false true 0 None (xs ++ [lastx]) S0) as [[S1 o1] ok1] eqn:E1.
  destruct ok1; [|reflexivity].
  specialize (Hcut S1 o1 eq_refl). rewrite start_env_noop, train_from_single.
  assert (Hl : last_opt None (xs ++ [lastx]) = Some lastx) by (unfold last_opt; rewrite fold_left_app; reflexivity).
  rewrite Hl. apply Nat.mod_divides in Hm; [|lia]. destruct Hm as [c Hc]. rewrite Hc.
  rewrite (train_from_shift_mul tm k false true Hk c (y0 :: ys) 0). cbn [train_from].
  rewrite (train_step_cut tm k 0 S1 lastx y0 Hcut).
  destruct S1 as [[e1 P1] pov1]. cbn [fst snd].
  destruct (train_step tm k false true 0 None y0 (e1, P1, init_pov tm true)) as [S2 ok2]. destruct ok2; [|reflexivity].
  destruct (train_from tm k false true 1 (Some y0) ys S2) as [[[[e3 P3] pov3] o3] ok3]. reflexivity.
Qed.

(* a model without feedback connections: the condition holds trivially, forced or not *)
Lemma cut_agrees_no_feedback tm S1 lastx y0 :
  (forall d, In d (order (base tm)) -> nfb d = None) -> cut_agrees tm S1 lastx y0.
Proof.
  intros Hno d Hd. destruct S1 as [[e P] pov]. unfold fb_seen, fbvalue. cbn [fst snd] in *.
  rewrite wp_order in Hd. apply in_map_iff in Hd. destruct Hd as (d0 & <- & Hd0). rewrite wp_nfb, (Hno d0 Hd0). reflexivity.
Qed.

(* ------------------------------------------------------------------ (b) FORCING *)
(* force_teachers = True, ARRAY targets: a receiver d of the model whose sender is readout r (and that is not itself given
   targets) is handed zeros of the target's length at the first step of a call and the PREVIOUS step's target afterwards -
   whatever the parameters, the states and the frozen proxies are *)
Lemma fb_seen_clamped tm force prev s (S : tstate) d r v :
  NoDup (map nid (order (base tm))) -> In d (order (base tm)) -> nfb d = Some (FbNode r) ->
  forced_of force prev s (nid d) = None -> forced_of force prev s r = Some v ->
  fb_seen tm force prev s S d = Some v.
Proof.
  intros Hnd Hin Hf Hown Hr. destruct S as [[e P] pov]. unfold fb_seen, fbvalue. rewrite Hf, clamps_with_params.
  rewrite (clamps_receiver (base tm) _ d _ Hnd Hin Hf). unfold forced_value. rewrite Hown, Hf, Hr. reflexivity.
Qed.

Theorem fb_seen_forced_first tm s (S : tstate) d r y :
  NoDup (map nid (order (base tm))) -> In d (order (base tm)) -> nfb d = Some (FbNode r) ->
  stgt s (nid d) = None -> stgt s r = Some y ->
  fb_seen tm true None s S d = Some (vzeros (length y)).
Proof.
  intros Hnd Hin Hf Hown Hr. apply (fb_seen_clamped tm true None s S d r _ Hnd Hin Hf); cbn [forced_of]; unfold zeros_like.
  - rewrite Hown. reflexivity.
  - rewrite Hr. reflexivity.
Qed.
Theorem fb_seen_forced_later tm p s (S : tstate) d r y :
  NoDup (map nid (order (base tm))) -> In d (order (base tm)) -> nfb d = Some (FbNode r) ->
  stgt p (nid d) = None -> stgt p r = Some y ->
  fb_seen tm true (Some p) s S d = Some y.
Proof. intros Hnd Hin Hf Hown Hr. apply (fb_seen_clamped tm true (Some p) s S d r _ Hnd Hin Hf); assumption. Qed.

(* when nothing is forced under the receiver's or the sender's name, the receiver reads the sender's `_state_proxy`:
   the value frozen by the previous step's learning if any, else the sender's state at the end of the previous step *)
Lemma fb_seen_proxy tm force prev s e P pov d r :
  NoDup (map nid (order (base tm))) -> In d (order (base tm)) -> nfb d = Some (FbNode r) ->
  forced_of force prev s (nid d) = None -> forced_of force prev s r = None ->
  fb_seen tm force prev s (e, P, pov) d = Some (match pov r with Some v => v | None => st (e r) end).
Proof.
  intros Hnd Hin Hf Hown Hr. unfold fb_seen, fbvalue. rewrite Hf, clamps_with_params.
  rewrite (clamps_receiver (base tm) _ d _ Hnd Hin Hf). unfold forced_value. rewrite Hown, Hf, Hr.
  f_equal. rewrite proxies_with_params. unfold proxies.
  destruct (find _ (order (base tm))) as [d'|]; [rewrite Hr; destruct (nfb d')|]; unfold ovr; destruct (pov r); reflexivity.
Qed.

(* force_teachers = False: the readout's own previous output (the state the call started from at its first step) *)
Theorem fb_seen_unforced tm prev s e P d r :
  nfb d = Some (FbNode r) -> fb_seen tm false prev s (e, P, no_pov) d = Some (st (e r)).
Proof.
  intros Hf. unfold fb_seen, fbvalue. cbn [forced_of]. rewrite Hf, clamps_unforced, proxies_unforced. reflexivity.
Qed.

(* the frozen proxy a gated learning step leaves on a readout taught by a teacher node: the teacher's output of that step *)
Lemma learn_all_pov_other tm force s e1 n :
  forall (ds : list ndesc) (acc : params * pover), ~ In n (map nid ds) ->
  (forall (d : ndesc) (r : @rspec F), In d ds -> find_r tm (nid d) = Some r -> rid r = nid d) ->
  snd (fold_left (lstep tm force s e1) ds acc) n = snd acc n.
Proof.
  induction ds as [|d ds IH]; intros acc Hn Hid; [reflexivity|]. cbn [fold_left]. cbn in Hn.
  rewrite IH; [|tauto|intros; eapply Hid; [right|]; eassumption]. unfold lstep.
  destruct (find_r tm (nid d)) as [r|] eqn:Er; [|reflexivity]. unfold learn_node.
  destruct (target_of s e1 r); [|reflexivity]. destruct force; [|reflexivity]. cbn [snd].
  rewrite (Hid d r (or_introl eq_refl) Er). destruct (Nat.eqb_spec n (nid d)) as [->|]; [tauto|reflexivity].
Qed.
Lemma learn_all_eq tm force s e1 (acc : params * pover) :
  learn_all tm force s e1 acc = fold_left (lstep tm force s e1) (order (base tm)) acc.
Proof. reflexivity. Qed.
Lemma find_r_rid (tm : tmodel) n (r : @rspec F) : find_r tm n = Some r -> rid r = n.
Proof. unfold find_r. intros Hf. apply find_some in Hf. destruct Hf as [_ Hf]. apply Nat.eqb_eq. exact Hf. Qed.

(* a learning step leaves on a readout taught by node t the proxy  st (e1 t), whatever it started from *)
Lemma learn_all_pov_teacher (tm : tmodel) s e1 (acc : params * pover) (r : @rspec F) t (dr : ndesc) :
  NoDup (map nid (order (base tm))) -> In dr (order (base tm)) -> find_r tm (nid dr) = Some r -> rtgt r = TNode t ->
  snd (learn_all tm true s e1 acc) (nid dr) = Some (st (e1 t)).
Proof.
  intros Hnd Hin Hr Ht. rewrite learn_all_eq. apply in_split in Hin. destruct Hin as (pre & suf & Ho). rewrite Ho in *.
  rewrite fold_left_app. cbn [fold_left]. rewrite map_app in Hnd. cbn [map] in Hnd.
  apply NoDup_remove_2 in Hnd.
  rewrite learn_all_pov_other; [| |].
  - unfold lstep. rewrite Hr. unfold learn_node, target_of. rewrite Ht. cbn [snd]. rewrite (find_r_rid _ _ _ Hr), Nat.eqb_refl. reflexivity.
  - intros Hc. apply Hnd. apply in_or_app. right. assumption.
  - intros d r' _ Hf. apply (find_r_rid _ _ _ Hf).
Qed.

(* the proxy a SUCCESSFUL teacher-forced step leaves on a readout taught by node t: the teacher's output of that step,
   whether learn_every selected the step or not (Model.train since 7fe3c48) *)
Lemma train_step_pov_teacher (tm : tmodel) k single i prev s (S : tstate) e1 P1 pov1 (r : @rspec F) t (dr : ndesc) :
  NoDup (map nid (order (base tm))) -> In dr (order (base tm)) -> find_r tm (nid dr) = Some r -> rtgt r = TNode t ->
  train_step tm k single true i prev s S = ((e1, P1, pov1), true) ->
  pov1 (nid dr) = Some (st (e1 t)).
Proof.
  intros Hnd Hin Hr Ht Hs. destruct S as [[e P] pov]. unfold train_step in Hs.
  destruct (forward _ _ _ _ _) as [e1' ok]. destruct ok; [|discriminate].
  destruct (gate k single i).
  - pose proof (learn_all_pov_teacher tm s e1' (P, taught_pov tm true (fun _ t0 => st (e1' t0))) r t dr Hnd Hin Hr Ht) as Hp.
    destruct (learn_all tm true s e1' _) as [P1' pov1']. inversion Hs; subst. exact Hp.
  - inversion Hs; subst. unfold taught_pov. rewrite Hr, Ht. reflexivity.
Qed.

(* force_teachers = True, TEACHER NODE targets: forced exactly like array targets.  After every successful step the receiver
   is handed the teacher node's output of that step, independently of learn_every ... *)
Theorem fb_seen_teacher_later tm k single i prev s s' (S : tstate) e1 P1 pov1 (d dr : ndesc) (r : @rspec F) t :
  NoDup (map nid (order (base tm))) -> In d (order (base tm)) -> nfb d = Some (FbNode (nid dr)) ->
  In dr (order (base tm)) -> find_r tm (nid dr) = Some r -> rtgt r = TNode t ->
  stgt s (nid d) = None -> stgt s (nid dr) = None ->
  train_step tm k single true i prev s S = ((e1, P1, pov1), true) ->
  fb_seen tm true (Some s) s' (e1, P1, pov1) d = Some (st (e1 t)).
Proof.
  intros Hnd Hin Hf Hinr Hr Ht Hown Hsr Hs.
  rewrite (fb_seen_proxy tm true (Some s) s' e1 P1 pov1 d (nid dr) Hnd Hin Hf Hown Hsr).
  rewrite (train_step_pov_teacher tm k single i prev s S e1 P1 pov1 r t dr Hnd Hinr Hr Ht Hs). reflexivity.
Qed.
(* ... and at the first step of every call zeros of the readout's output dimension *)
Theorem fb_seen_teacher_first (tm : tmodel) s e P (d : ndesc) rn (r : @rspec F) t :
  NoDup (map nid (order (base tm))) -> In d (order (base tm)) -> nfb d = Some (FbNode rn) ->
  find_r tm rn = Some r -> rtgt r = TNode t ->
  stgt s (nid d) = None -> stgt s rn = None ->
  fb_seen tm true None s (e, P, init_pov tm true) d = Some (vzeros (rodim r)).
Proof.
  intros Hnd Hin Hf Hr Ht Hown Hsr.
  rewrite (fb_seen_proxy tm true None s e P (init_pov tm true) d rn Hnd Hin Hf); cbn [forced_of]; unfold zeros_like.
  - unfold init_pov, taught_pov. rewrite Hr, Ht. reflexivity.
  - rewrite Hown. reflexivity.
  - rewrite Hsr. reflexivity.
Qed.

(* ------------------------------------------------------------------ trace level: what [tstate_after] hands to [fb_seen] *)
Lemma tstate_after_prev tm k single force : forall steps i prev (S : tstate) j dflt,
  j <= length steps ->
  snd (tstate_after tm k single force i prev steps S j) = match j with 0 => prev | Datatypes.S j' => Some (nth j' steps dflt) end.
Proof.
  induction steps as [|s steps IH]; intros i prev S j dflt Hj; cbn in Hj.
  - assert (j = 0) by lia. subst. reflexivity.
  - destruct j as [|j]; [reflexivity|]. cbn [tstate_after]. rewrite (IH _ _ _ j dflt) by lia.
    destruct j; reflexivity.
Qed.

(* one more step of the trace *)
Lemma tstate_after_succ tm k single force dflt : forall steps i prev (S : tstate) j,
  j < length steps ->
  tstate_after tm k single force i prev steps S (Datatypes.S j) =
    (let '(Sj, pj) := tstate_after tm k single force i prev steps S j in
     (fst (train_step tm k single force (i + j) pj (nth j steps dflt) Sj), Some (nth j steps dflt))).
Proof.
  induction steps as [|s steps IH]; intros i prev S j Hj; cbn in Hj; [lia|].
  destruct j as [|j].
  - cbn [tstate_after nth]. rewrite Nat.add_0_r. destruct steps; reflexivity.
  - change (tstate_after tm k single force i prev (s :: steps) S (Datatypes.S (Datatypes.S j)))
      with (tstate_after tm k single force (Datatypes.S i) (Some s) steps (fst (train_step tm k single force i prev s S)) (Datatypes.S j)).
    rewrite IH by lia. cbn [tstate_after nth]. replace (Datatypes.S i + j) with (i + Datatypes.S j) by lia. reflexivity.
Qed.
(* in a successful call every step succeeded *)
Lemma train_from_ok_step tm k single force dflt : forall steps i prev (S S2 : tstate) outs j,
  train_from tm k single force i prev steps S = (S2, outs, true) -> j < length steps ->
  let '(Sj, pj) := tstate_after tm k single force i prev steps S j in
  snd (train_step tm k single force (i + j) pj (nth j steps dflt) Sj) = true.
Proof.
  induction steps as [|s steps IH]; intros i prev S S2 outs j Hr Hj; cbn in Hj; [lia|]. cbn [train_from] in Hr.
  destruct (train_step tm k single force i prev s S) as [S1 ok] eqn:E. destruct ok; [|discriminate].
  destruct (train_from tm k single force (Datatypes.S i) (Some s) steps S1) as [[S3 o3] ok3] eqn:E3.
  assert (ok3 = true) by (inversion Hr; reflexivity). subst ok3.
  destruct j as [|j].
  - cbn [tstate_after nth]. rewrite Nat.add_0_r, E. reflexivity.
  - cbn [tstate_after nth]. rewrite E. cbn [fst]. replace (i + Datatypes.S j) with (Datatypes.S i + j) by lia.
    apply (IH _ _ _ _ _ j E3). lia.
Qed.

(* C05 at the level of a whole call with array targets: at step j the receiver is handed zeros (j = 0) or Y[j-1] *)
Theorem train_forced_feedback_trace tm k single steps (S0 : tstate) j d r dflt :
  NoDup (map nid (order (base tm))) -> In d (order (base tm)) -> nfb d = Some (FbNode r) ->
  (forall s, In s steps -> stgt s (nid d) = None /\ exists y, stgt s r = Some y) ->
  j < length steps ->
  let '(Sj, pj) := tstate_after tm k single true 0 None steps S0 j in
  fb_seen tm true pj (nth j steps dflt) Sj d =
    match j with
    | 0 => option_map (fun y => vzeros (length y)) (stgt (nth 0 steps dflt) r)
    | Datatypes.S j' => stgt (nth j' steps dflt) r
    end.
Proof.
  intros Hnd Hin Hf Hall Hj.
  pose proof (tstate_after_prev tm k single true steps 0 None S0 j dflt (Nat.lt_le_incl _ _ Hj)) as Hp.
  destruct (tstate_after tm k single true 0 None steps S0 j) as [Sj pj]. cbn [snd] in Hp. subst pj.
  destruct j as [|j'].
  - destruct (Hall (nth 0 steps dflt) (nth_In _ _ Hj)) as [Hown [y Hy]]. rewrite Hy. cbn [option_map].
    apply (fb_seen_forced_first tm _ Sj d r y Hnd Hin Hf Hown Hy).
  - assert (Hj' : j' < length steps) by lia.
    destruct (Hall (nth j' steps dflt) (nth_In _ _ Hj')) as [Hown [y Hy]]. rewrite Hy.
    apply (fb_seen_forced_later tm _ _ Sj d r y Hnd Hin Hf Hown Hy).
Qed.

(* ... and without force_teachers: the readout's state at the end of the previous step (the pre-call state at j = 0) *)
Lemma tstate_after_unforced_pov tm k single : forall steps i prev (S : tstate) j,
  snd S = no_pov -> snd (fst (tstate_after tm k single false i prev steps S j)) = no_pov.
Proof.
  induction steps as [|s steps IH]; intros i prev S j HS; destruct j; cbn [tstate_after]; try exact HS.
  apply IH. apply train_step_unforced_pov.
Qed.
Theorem train_unforced_feedback_trace tm k single steps e0 P0 j d r dflt :
  nfb d = Some (FbNode r) ->
  let '(Sj, pj) := tstate_after tm k single false 0 None steps (e0, P0, no_pov) j in
  fb_seen tm false pj (nth j steps dflt) Sj d = Some (st (fst (fst Sj) r)).
Proof.
  intros Hf. pose proof (tstate_after_unforced_pov tm k single steps 0 None (e0, P0, no_pov) j eq_refl) as Hp.
  destruct (tstate_after tm k single false 0 None steps (e0, P0, no_pov) j) as [[[e P] pov] pj]. cbn in Hp. subst pov.
  apply fb_seen_unforced. assumption.
Qed.

(* C05 at the level of a whole successful call with TEACHER-NODE targets: at step j the receiver is handed zeros (j = 0) or the
   teacher node's output of step j-1 - whatever learn_every is *)
Theorem train_teacher_feedback_trace (tm : tmodel) k single steps (e0 : env) (P0 : params) S2 outs j (d dr : ndesc) (r : @rspec F) t dflt :
  NoDup (map nid (order (base tm))) -> In d (order (base tm)) -> nfb d = Some (FbNode (nid dr)) ->
  In dr (order (base tm)) -> find_r tm (nid dr) = Some r -> rtgt r = TNode t ->
  (forall s, In s steps -> stgt s (nid d) = None /\ stgt s (nid dr) = None) ->
  train_from tm k single true 0 None steps (e0, P0, init_pov tm true) = (S2, outs, true) ->
  j < length steps ->
  let '(Sj, pj) := tstate_after tm k single true 0 None steps (e0, P0, init_pov tm true) j in
  fb_seen tm true pj (nth j steps dflt) Sj d =
    Some (match j with 0 => vzeros (rodim r) | Datatypes.S _ => st (fst (fst Sj) t) end).
Proof.
  intros Hnd Hin Hf Hinr Hr Ht Hall Hrun Hj. destruct j as [|j].
  - cbn [tstate_after]. destruct steps as [|s0 steps]; [cbn in Hj; lia|]. cbn [tstate_after nth].
    destruct (Hall s0 (or_introl eq_refl)) as [Hown Hsr].
    apply (fb_seen_teacher_first tm s0 e0 P0 d (nid dr) r t Hnd Hin Hf Hr Ht Hown Hsr).
  - assert (Hj' : j < length steps) by lia.
    rewrite (tstate_after_succ tm k single true dflt steps 0 None _ j Hj').
    pose proof (train_from_ok_step tm k single true dflt steps 0 None _ S2 outs j Hrun Hj') as Hok.
    destruct (tstate_after tm k single true 0 None steps (e0, P0, init_pov tm true) j) as [Sj pj].
    destruct (train_step tm k single true (0 + j) pj (nth j steps dflt) Sj) as [[[e1 P1] pov1] ok] eqn:E.
    cbn [snd] in Hok. subst ok. cbn [fst].
    destruct (Hall (nth j steps dflt) (nth_In _ _ Hj')) as [Hown Hsr].
    apply (fb_seen_teacher_later tm k single (0 + j) pj (nth j steps dflt) _ Sj e1 P1 pov1 d dr r t Hnd Hin Hf Hinr Hr Ht Hown Hsr E).
Qed.

(* ------------------------------------------------------------------ (c) forced training: states independent of learn_every / parameters *)
(* U: a set of nodes closed under predecessors, containing no readout, whose feedback receivers are all fed by readouts with
   array targets, or by readouts taught by a teacher node that belongs to U.  Two teacher-forced trainings of the same model on
   the same steps - whatever their learn_every, their step counters and their readout parameters - give the nodes of U the
   same states at every step. *)
Section Indep.
Variable tm : tmodel.
Variable U : nat -> Prop.
Hypothesis U_closed : forall n p, U n -> In p (parents (base tm) n) -> U p.
Hypothesis U_plain : forall n, U n -> find_r tm n = None.
Hypothesis Hnd : NoDup (map nid (order (base tm))).

Definition agreeU (e e' : env) : Prop := forall n, U n -> e n = e' n.
(* readout r (a node of the model) is taught by node t of U *)
Definition taughtU (r : nat) (t : nat) : Prop :=
  (exists rs : @rspec F, find_r tm r = Some rs /\ rtgt rs = TNode t) /\ U t /\ exists dr : ndesc, In dr (order (base tm)) /\ nid dr = r.
Definition povU (pov pov' : pover) : Prop := forall r t, taughtU r t -> exists v, pov r = Some v /\ pov' r = Some v.
Definition fb_forcedU (forced : nat -> option vec) : Prop :=
  forall d, In d (order (base tm)) -> U (nid d) ->
    nfb d = None \/ exists r, nfb d = Some (FbNode r) /\ forced (nid d) = None /\
                              ((exists v, forced r = Some v) \/ (forced r = None /\ exists t, taughtU r t)).

Lemma fbvalue_agreeU P P' forced (e e' : env) pov pov' (d : ndesc) :
  fb_forcedU forced -> povU pov pov' -> In d (order (base tm)) -> U (nid d) ->
  fbvalue d (proxies (with_params tm P) forced (ovr pov e)) (clamps (with_params tm P) forced) =
  fbvalue d (proxies (with_params tm P') forced (ovr pov' e')) (clamps (with_params tm P') forced).
Proof.
  intros Hfb Hpov Hd Hn. unfold fbvalue.
  destruct (Hfb d Hd Hn) as [Hno|(r & Hf & Hown & Hcase)]; [rewrite Hno; reflexivity|].
  rewrite Hf, !clamps_with_params, (clamps_receiver (base tm) _ d _ Hnd Hd Hf). unfold forced_value. rewrite Hown, Hf.
  destruct Hcase as [[v Hr]|[Hr [t Ht]]]; rewrite Hr; [reflexivity|].
  destruct (Hpov r t Ht) as (v & Hv & Hv'). rewrite !proxies_with_params. unfold proxies.
  destruct (find _ (order (base tm))) as [d'|]; [rewrite Hr; destruct (nfb d')|]; unfold ovr; rewrite Hv, Hv'; reflexivity.
Qed.

Lemma forward_from_agreeU P P' prev prev' c c' ext : forall ds (e e' e1 e1' : env),
  (forall d, In d ds -> In d (order (base tm))) ->
  (forall d, In d (order (base tm)) -> U (nid d) -> fbvalue d prev c = fbvalue d prev' c') -> agreeU e e' ->
  forward_from (with_params tm P) prev c ext (map (wp_nd tm P) ds) e = (e1, true) ->
  forward_from (with_params tm P') prev' c' ext (map (wp_nd tm P') ds) e' = (e1', true) ->
  agreeU e1 e1'.
Proof.
  induction ds as [|d ds IH]; intros e e' e1 e1' Hsub Hfb Hag H1 H2; cbn [map forward_from] in H1, H2.
  - inversion H1; inversion H2; subst. assumption.
  - unfold call_node in H1, H2. rewrite !wp_nid in H1, H2.
    destruct (nfwd (wp_nd tm P d) _ _ _ _) as [[s1 h1]|] eqn:E1; [|discriminate].
    destruct (nfwd (wp_nd tm P' d) _ _ _ _) as [[s2 h2]|] eqn:E2; [|discriminate].
    refine (IH _ _ _ _ (fun x Hx => Hsub x (or_intror Hx)) Hfb _ H1 H2).
    intros n Hn. unfold upd. destruct (Nat.eqb_spec n (nid d)) as [->|Hne]; [|apply Hag; assumption].
    (* d is in U: same forward function, same own state, same input, same feedback value *)
    assert (Hd : In d (order (base tm))) by (apply Hsub; left; reflexivity).
    unfold wp_nd in E1, E2. rewrite (U_plain _ Hn) in E1, E2.
    assert (G : gather (with_params tm P) e ext (nid d) = gather (with_params tm P') e' ext (nid d)).
    { unfold gather. cbn [parents with_params]. f_equal. f_equal. apply map_ext_in. intros p Hp.
      rewrite (Hag p (U_closed _ _ Hn Hp)). reflexivity. }
    rewrite (Hag _ Hn), G, (Hfb d Hd Hn) in E1. rewrite E1 in E2. inversion E2; subst. reflexivity.
Qed.

Lemma train_step_agreeU k k' single single' i i' prev s (e e' : env) P P' pov pov' S1 S1' :
  fb_forcedU (forced_of true prev s) -> agreeU e e' -> povU pov pov' ->
  train_step tm k single true i prev s (e, P, pov) = (S1, true) ->
  train_step tm k' single' true i' prev s (e', P', pov') = (S1', true) ->
  agreeU (fst (fst S1)) (fst (fst S1')) /\ povU (snd S1) (snd S1').
Proof.
  intros Hfb Hag Hpov H1 H2.
  assert (Hag1 : agreeU (fst (fst S1)) (fst (fst S1'))).
  { unfold train_step, forward in H1, H2. rewrite !wp_order in H1, H2.
    destruct (forward_from (with_params tm P) _ _ _ _ e) as [e1 ok1] eqn:E1.
    destruct (forward_from (with_params tm P') _ _ _ _ e') as [e1' ok1'] eqn:E2.
    destruct ok1; [|discriminate]. destruct ok1'; [|discriminate].
    pose proof (forward_from_agreeU P P' _ _ _ _ _ (order (base tm)) e e' e1 e1' (fun _ Hx => Hx)
                  (fun d Hd Hn => fbvalue_agreeU P P' _ e e' pov pov' d Hfb Hpov Hd Hn) Hag E1 E2) as Hr.
    destruct (if gate k single i then _ else _) as [Pa pa] in H1. destruct (if gate k' single' i' then _ else _) as [Pb pb] in H2.
    inversion H1; inversion H2; subst. exact Hr. }
  split; [exact Hag1|].
  intros r t [(rs & Hrs & Ht) [Hu (dr & Hdr & <-)]].
  destruct S1 as [[e1 P1] pov1], S1' as [[e1' P1'] pov1']. cbn [fst snd] in *.
  exists (st (e1 t)). split.
  - apply (train_step_pov_teacher tm k single i prev s _ e1 P1 pov1 rs t dr Hnd Hdr Hrs Ht H1).
  - rewrite (Hag1 t Hu). apply (train_step_pov_teacher tm k' single' i' prev s _ e1' P1' pov1' rs t dr Hnd Hdr Hrs Ht H2).
Qed.

Definition selU (o o' : list vec) : Prop :=
  forall idx d, nth_error (order (base tm)) idx = Some d -> U (nid d) -> nth_error o idx = nth_error o' idx.
Lemma all_states_selU (e e' : env) : agreeU e e' -> selU (all_states (base tm) e) (all_states (base tm) e').
Proof.
  intros Hag idx d Hd Hu. unfold all_states. rewrite !nth_error_map, Hd. cbn. rewrite (Hag _ Hu). reflexivity.
Qed.

Theorem train_forced_states_indep k k' single single' : forall steps i i' prev (S S' S2 S2' : tstate) outs outs',
  (forall p s, In s steps -> (p = prev \/ exists s0, In s0 steps /\ p = Some s0) -> fb_forcedU (forced_of true p s)) ->
  agreeU (fst (fst S)) (fst (fst S')) -> povU (snd S) (snd S') ->
  train_from tm k single true i prev steps S = (S2, outs, true) ->
  train_from tm k' single' true i' prev steps S' = (S2', outs', true) ->
  agreeU (fst (fst S2)) (fst (fst S2')) /\ Forall2 selU outs outs'.
Proof.
  induction steps as [|s steps IH]; intros i i' prev S S' S2 S2' outs outs' Hfb Hag Hpov H1 H2; cbn [train_from] in H1, H2.
  - inversion H1; inversion H2; subst. split; [assumption|constructor].
  - destruct S as [[e P] pov], S' as [[e' P'] pov'].
    destruct (train_step tm k single true i prev s (e, P, pov)) as [S1 ok1] eqn:E1.
    destruct (train_step tm k' single' true i' prev s (e', P', pov')) as [S1' ok1'] eqn:E2.
    destruct ok1; [|discriminate]. destruct ok1'; [|discriminate].
    assert (Hst : agreeU (fst (fst S1)) (fst (fst S1')) /\ povU (snd S1) (snd S1')).
    { eapply train_step_agreeU; eauto. apply Hfb; [left; reflexivity|left; reflexivity]. }
    destruct Hst as [Hag1 Hpov1].
    destruct (train_from tm k single true (Datatypes.S i) (Some s) steps S1) as [[S3 o3] ok3] eqn:E3.
    destruct (train_from tm k' single' true (Datatypes.S i') (Some s) steps S1') as [[S3' o3'] ok3'] eqn:E4.
    inversion H1; inversion H2; subst.
    destruct (IH _ _ _ _ _ _ _ _ _ (fun p x Hx Hp => Hfb p x (or_intror Hx)
                 (match Hp with
                  | or_introl Hpe => or_intror (ex_intro _ s (conj (or_introl eq_refl) Hpe))
                  | or_intror (ex_intro _ s0 (conj Hs0 Hpe)) => or_intror (ex_intro _ s0 (conj (or_intror Hs0) Hpe))
                  end)) Hag1 Hpov1 E3 E4) as [Hfin Hout].
    split; [exact Hfin|]. constructor; [apply all_states_selU; exact Hag1|exact Hout].
Qed.
End Indep.

(* the same for whole calls: every receiver of U is fed by a readout that has an array target at every step, or by a readout
   taught by a teacher node of U (and then no array is given under either name) *)
Theorem train_call_forced_states_indep (tm : tmodel) (U : nat -> Prop) k k' reset steps (e : env) (P P' : params)
        e1 P1 o1 e1' P1' o1' :
  (forall n p, U n -> In p (parents (base tm) n) -> U p) -> (forall n, U n -> find_r tm n = None) ->
  NoDup (map nid (order (base tm))) ->
  (forall s (d : ndesc), In s steps -> In d (order (base tm)) -> U (nid d) ->
     nfb d = None \/ exists r, nfb d = Some (FbNode r) /\ stgt s (nid d) = None /\
                               ((exists y, stgt s r = Some y) \/ (stgt s r = None /\ exists t, taughtU tm U r t))) ->
  train_call tm k true reset steps (e, P) = (e1, P1, o1, true) ->
  train_call tm k' true reset steps (e, P') = (e1', P1', o1', true) ->
  agreeU U e1 e1' /\ Forall2 (selU tm U) o1 o1'.
Proof.
  intros Hc Hp Hnd Harr H1 H2. unfold train_call in H1, H2. cbn [fst snd] in H1, H2.
  destruct (train_from tm k _ true 0 None steps _) as [[S2 outs] ok] eqn:E1.
  destruct (train_from tm k' _ true 0 None steps _) as [[S2' outs'] ok'] eqn:E2.
  inversion H1; inversion H2; subst.
  refine (train_forced_states_indep tm U Hc Hp Hnd k k' _ _ steps 0 0 None _ _ _ _ _ _ _ _ _ E1 E2).
  - intros p s Hs Hpp d Hd Hu. destruct Hpp as [->|(s0 & Hs0 & ->)]; cbn [forced_of].
    + destruct (Harr s d Hs Hd Hu) as [Hno|(r & Hf & Hown & Hcase)]; [left; assumption|right].
      exists r. unfold zeros_like. rewrite Hown. split; [assumption|]. split; [reflexivity|].
      destruct Hcase as [[y Hy]|[Hy Ht]]; rewrite Hy; [left; eexists; reflexivity|right; auto].
    + destruct (Harr s0 d Hs0 Hd Hu) as [Hno|(r & Hf & Hown & Hcase)]; [left; assumption|right]. exists r. auto.
  - intros n _. reflexivity.
  - intros r t [(rs & Hrs & Ht) _]. cbn [snd]. exists (vzeros (rodim rs)). unfold init_pov, taught_pov. rewrite Hrs, Ht. auto.
Qed.

End Proofs.
