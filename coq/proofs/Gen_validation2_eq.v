(* Tie (T) of C12, second unit: register_teacher, _check_node_io and check_xy GENERATED from the current source (gen/Gen_validation2.v,
   translator tools/vlib/py2coq_val2.py, vocabulary base/ValPrelude2.v) against the hand model model/Shapes.v.

   What Shapes.v models: check_xy for a NODE caller (Shapes.check_xy / Shapes.register_teacher), with the teacher registration returned
   as a value (YTeacher td) that Shapes.step then stores with set_teacher.  What Shapes.v does NOT model: the Model-caller branch of
   _check_node_io (receiver_nodes, name-keyed mappings, the `fitted` exemption, one registration per trainable node).  For that branch the
   statements below are about the generated code itself (executed, and a universal frame lemma), not an equality with a hand model. *)
From Coq Require Import List Arith Bool Lia.
From RV Require Import model.Shapes base.ValPrelude base.ValPrelude2 gen.Gen_validation gen.Gen_validation2 proofs.Gen_validation_eq.
Import ListNotations.

(* ------------------------------------------------------------------------------------------------ embedding of the model's node *)
Definition out_obj (o : option nat) : pyobj := match o with Some d => PInt d | None => PNone end.

(* the Python node object a model node stands for: any name, any `fitted` flag, any content of the teacher slot *)
Definition pn_of (name : nat) (fitted : bool) (slot : option data) (n : node) : pynode :=
  mkPyNode name (emb (input_dim n)) (out_obj (output_dim n)) (has_online (nkind n)) fitted slot.

Definition opt_val (y : option data) : pyval := match y with Some d => VData d | None => VNone end.

(* the heap after  caller._teacher = <teacher>  *)
Definition registered (pn : pynode) (t : data) (h : heap) : heap := fst (set_teacher (CNode pn) t h).

(* the model's answer, read as (heap, exception | (x_new, y_new)): a refusal and a plain acceptance leave the heap as it was; a teacher
   node given as target is registered and check_xy returns None for y_new *)
Definition spec_xy (pn : pynode) (r : res (data * ycheck)) (h : heap) : heap * res (pyval * pyval) :=
  match r with
  | RErr e => (h, RErr e)
  | ROk (x', YNone) => (h, ROk (VData x', VNone))
  | ROk (x', YData y') => (h, ROk (VData x', VData y'))
  | ROk (x', YTeacher td) => (registered pn (DTeacher td) h, ROk (VData x', VNone))
  end.

(* ------------------------------------------------------------------------------------------------ register_teacher *)
Lemma gen_register_teacher_eq (pn : pynode) (td : option nat) (o : option nat) (h : heap) :
  Gen_validation2.register_teacher (CNode pn) (DTeacher td) (out_obj o) h
  = match o, td with
    | Some o', Some t => if o' =? t then (registered pn (DTeacher td) h, ROk tt) else (h, RErr ValueError)
    | _, _ => (registered pn (DTeacher td) h, ROk tt)
    end.
Proof.
  unfold Gen_validation2.register_teacher, registered, mbind, mlift, mret, mraise.
  destruct td as [t|]; destruct o as [o'|]; cbn; try reflexivity.
  destruct (o' =? t); reflexivity.
Qed.

(* a refused registration changes nothing, for ANY caller, teacher object and expected dimension *)
Lemma gen_register_teacher_refusal_frame (c : pycaller) (t : data) (ed : pyobj) (h h' : heap) (e : exn) :
  Gen_validation2.register_teacher c t ed h = (h', RErr e) -> h' = h.
Proof.
  unfold Gen_validation2.register_teacher, mbind, mlift, mret, mraise.
  destruct (teacher_is_initialized t) as [[|]|e0]; cbn.
  - destruct (teacher_output_dim t) as [td|e1]; cbn; [|intros E; inversion E; reflexivity].
    destruct (negb (obj_is_none ed) && negb (obj_is_none td) && negb (obj_eqb ed td)); cbn.
    + intros E; inversion E; reflexivity.
    + destruct c; cbn; intros E; inversion E.
  - destruct c; cbn; intros E; inversion E.
  - intros E; inversion E; reflexivity.
Qed.

(* ------------------------------------------------------------------------------------------------ _check_node_io, Node caller *)
Lemma gen_check_node_io_input (x : data) (ed : pyobj) (c : pycaller) (ans ani ats : bool) (h : heap) :
  Gen_validation2.check_node_io (VData x) None ed c IoInput ans ani ats h
  = if is_node x then (h, RErr TypeError)
    else match Gen_validation.check_n_sequences x ed ans ani ats with
         | ROk x' => (h, ROk (VData x'))
         | RErr e => (h, RErr e)
         end.
Proof.
  unfold Gen_validation2.check_node_io, mbind, mlift, mret, mraise. cbn [val_data iotype_eqb].
  destruct (is_node x); [reflexivity|].
  destruct (Gen_validation.check_n_sequences x ed ans ani ats) as [x'|e]; [|reflexivity].
  rewrite andb_false_r. reflexivity.
Qed.

Lemma gen_check_node_io_target (y : data) (ed : pyobj) (pn : pynode) (ans ani ats : bool) (h : heap) :
  Gen_validation2.check_node_io (VData y) None ed (CNode pn) IoTarget ans ani ats h
  = if is_node y then
      if pn_online pn then
        match Gen_validation2.register_teacher (CNode pn) y ed h with
        | (h', ROk _) => (h', ROk VNone)
        | (h', RErr e) => (h', RErr e)
        end
      else (h, RErr TypeError)
    else match Gen_validation.check_n_sequences y ed ans ani ats with
         | ROk y' => (h, ROk (VData y'))
         | RErr e => (h, RErr e)
         end.
Proof.
  unfold Gen_validation2.check_node_io, mbind, mlift, mret, mraise. cbn [val_data iotype_eqb caller_is_trained_online].
  destruct (is_node y).
  - destruct (pn_online pn); [|reflexivity].
    destruct (Gen_validation2.register_teacher (CNode pn) y ed h) as [h' [u|e]]; reflexivity.
  - destruct (Gen_validation.check_n_sequences y ed ans ani ats) as [y'|e]; [|reflexivity].
    cbn [val_len]. rewrite andb_false_r. reflexivity.
Qed.

(* ------------------------------------------------------------------------------------------------ check_xy, Node caller *)
Lemma out_obj_cns (y : data) (o : option nat) (ans ani ats : bool) :
  Gen_validation.check_n_sequences y (out_obj o) ans ani ats
  = Shapes.check_n_sequences y (option_map (fun d => [d]) o) ans ani ats.
Proof.
  destruct o as [d|]; cbn [out_obj option_map].
  - apply gen_check_n_sequences_int.
  - exact (gen_check_n_sequences_all y None ans ani ats).
Qed.

(* THE equality: the translated check_xy, called as Node.call / run / train / partial_fit / fit call it (input_dim and output_dim left to
   their default None), on the node object of a model node, is the model's check_xy — same refusals with the same exception class and an
   untouched heap, same checked descriptors, and a teacher node given as target is registered exactly when the model says YTeacher *)
Theorem gen_check_xy_node (n : node) (name : nat) (fitted : bool) (slot : option data) (x : data) (y : option data)
        (ans ani ats : bool) (h : heap) :
  Gen_validation2.check_xy (CNode (pn_of name fitted slot n)) (VData x) (opt_val y) PNone PNone ans ani ats h
  = spec_xy (pn_of name fitted slot n) (Shapes.check_xy n x y ans ani ats) h.
Proof.
  set (pn := pn_of name fitted slot n).
  unfold Gen_validation2.check_xy.
  cbn [obj_is_none caller_has_input_dim caller_has_input_nodes caller_has_trainable_nodes caller_has_output_dim andb].
  unfold mbind at 1. cbn [mlift caller_input_dim].
  unfold mbind at 1. rewrite gen_check_node_io_input.
  unfold Shapes.check_xy.
  assert (Ein : pn_input_dim pn = emb (input_dim n)) by reflexivity. rewrite Ein.
  rewrite gen_check_n_sequences_all.
  destruct x as [num sh|items| | |td0]; cbn [is_node];
    try (cbn [spec_xy]; reflexivity).
  all: match goal with |- context [Shapes.check_n_sequences ?a ?b ?c ?d ?e] =>
         destruct (Shapes.check_n_sequences a b c d e) as [x'|e0] end; cbn [spec_xy]; try reflexivity.
  all: destruct y as [yd|]; cbn [opt_val val_is_none negb]; try (cbn [mret spec_xy]; reflexivity).
  all: unfold mbind at 1; cbn [mlift caller_output_dim];
       unfold mbind at 1; rewrite gen_check_node_io_target;
       assert (Eout : pn_output_dim pn = out_obj (output_dim n)) by reflexivity; rewrite Eout;
       assert (Eon : pn_online pn = has_online (nkind n)) by reflexivity; rewrite Eon;
       rewrite out_obj_cns.
  all: destruct yd as [ynum ysh|yitems| | |td]; cbn [is_node];
       try (match goal with |- context [Shapes.check_n_sequences ?a ?b ?c ?d ?e] =>
              destruct (Shapes.check_n_sequences a b c d e) as [y'|e1] end; cbn [spec_xy mret]; reflexivity).
  all: unfold Shapes.register_teacher; destruct (has_online (nkind n)); [|cbn [spec_xy]; reflexivity];
       rewrite gen_register_teacher_eq;
       destruct (output_dim n) as [o|]; destruct td as [t|]; try (cbn [spec_xy mret]; reflexivity);
       destruct (o =? t); cbn [spec_xy mret]; reflexivity.
Qed.

(* consequences, in the words of the property *)
Corollary gen_check_xy_node_refusal_frame (n : node) (name : nat) (fitted : bool) (slot : option data) (x : data) (y : option data)
          (ans ani ats : bool) (h h' : heap) (e : exn) :
  Gen_validation2.check_xy (CNode (pn_of name fitted slot n)) (VData x) (opt_val y) PNone PNone ans ani ats h = (h', RErr e) ->
  h' = h /\ Shapes.check_xy n x y ans ani ats = RErr e.
Proof.
  rewrite gen_check_xy_node. destruct (Shapes.check_xy n x y ans ani ats) as [[x' [|y'|td]]|e0]; cbn [spec_xy]; intros E; inversion E.
  split; reflexivity.
Qed.

(* what the translated check refuses, the operations refuse in the checking phase with the node literally unchanged *)
Corollary gen_check_xy_train_rejects (n : node) (name : nat) (fitted : bool) (slot : option data) (x : data) (y : option data)
          (h h' : heap) (e : exn) : supported (nkind n) (OTrain x y) = true ->
  Gen_validation2.check_xy (CNode (pn_of name fitted slot n)) (VData x) (opt_val y) PNone PNone false false true h = (h', RErr e) ->
  h' = h /\ step n (OTrain x y) = Err PCheck e n.
Proof.
  intros S E. apply gen_check_xy_node_refusal_frame in E. destruct E as [-> E]. split; [reflexivity|].
  unfold step. rewrite S. cbn [negb]. rewrite E. reflexivity.
Qed.

(* ------------------------------------------------------------------------------------------------ Model caller: the generated code itself *)
(* two online readouts a, b (output_dim 1) of one model; the target mapping gives a an initialised teacher node and b an array of the
   wrong width: the call is REFUSED (ValueError) and the heap it leaves has the teacher registered on a — check_xy does not undo it (this is the
   state Model.train now cleans up in its `except`: finding late-rejection:teacher-stays-registered:model). *)
Definition ex_a : pynode := mkPyNode 1 (PInt 4) (PInt 1) true false None.
Definition ex_b : pynode := mkPyNode 2 (PInt 4) (PInt 1) true false None.
Definition ex_model : pymodel := mkPyModel [mkPyNode 0 (PInt 3) (PInt 4) false false None] [ex_a; ex_b] (PInt 3) PNone.

Lemma gen_check_xy_model_refusal_keeps_teacher :
  Gen_validation2.check_xy (CModel ex_model) (VData (DArr true [12; 3]))
                           (VMap [(1, DTeacher (Some 1)); (2, DArr true [12; 3])]) PNone PNone false false true [ex_a; ex_b]
  = ([with_teacher ex_a (Some (DTeacher (Some 1))); ex_b], RErr ValueError).
Proof. vm_compute. reflexivity. Qed.

(* more of the Model-caller branch, executed: i0 the input node; a, b online readouts (output 1); f an offline readout already FITTED,
   g an offline readout not fitted (output 2).  x is not a mapping: it is given to every input node under its name. *)
Definition ex_i0 : pynode := mkPyNode 0 (PInt 3) (PInt 4) false false None.
Definition ex_f : pynode := mkPyNode 3 (PInt 4) (PInt 2) false true None.
Definition ex_g : pynode := mkPyNode 4 (PInt 4) (PInt 2) false false None.
Definition ex_mdl (tr : list pynode) : pycaller := CModel (mkPyModel [ex_i0] tr (PInt 3) PNone).
Definition ex_X : pyval := VData (DArr true [12; 3]).

Lemma gen_check_xy_model_examples :
  (* a: teacher registered and popped; b: array checked against OUTPUT_dim 1; f has no target but is fitted: skipped *)
  Gen_validation2.check_xy (ex_mdl [ex_a; ex_b; ex_f]) ex_X (VMap [(1, DTeacher (Some 1)); (2, DArr true [12; 1])]) PNone PNone false false true
                           [ex_i0; ex_a; ex_b; ex_f]
  = ([ex_i0; with_teacher ex_a (Some (DTeacher (Some 1))); ex_b; ex_f], ROk (VMap [(0, DArr true [12; 3])], VMap [(2, DArr true [12; 1])])) /\
  (* g has no target and is NOT fitted: ValueError *)
  snd (Gen_validation2.check_xy (ex_mdl [ex_a; ex_b; ex_g]) ex_X (VMap [(1, DTeacher (Some 1)); (2, DArr true [12; 1])]) PNone PNone false false true
                                [ex_i0; ex_a; ex_b; ex_g]) = RErr ValueError /\
  (* a teacher node for an offline readout: TypeError, nothing registered *)
  Gen_validation2.check_xy (ex_mdl [ex_f]) ex_X (VMap [(3, DTeacher (Some 2))]) PNone PNone false false true [ex_i0; ex_f]
  = ([ex_i0; ex_f], RErr TypeError) /\
  (* every target is a teacher node: y_new is None *)
  Gen_validation2.check_xy (ex_mdl [ex_a]) ex_X (VMap [(1, DTeacher (Some 1))]) PNone PNone false false true [ex_i0; ex_a]
  = ([ex_i0; with_teacher ex_a (Some (DTeacher (Some 1)))], ROk (VMap [(0, DArr true [12; 3])], VNone)) /\
  (* an INPUT mapping without the input node: ValueError (the `fitted` exemption is for targets only) *)
  snd (Gen_validation2.check_xy (ex_mdl [ex_f]) (VMap [(9, DArr true [12; 3])]) VNone PNone PNone false false true [ex_i0; ex_f]) = RErr ValueError /\
  (* a target that is not a mapping is given to every trainable node *)
  snd (Gen_validation2.check_xy (ex_mdl [ex_a; ex_b]) ex_X (VData (DArr true [12; 1])) PNone PNone false false true [ex_i0; ex_a; ex_b])
  = ROk (VMap [(0, DArr true [12; 3])], VMap [(1, DArr true [12; 1]); (2, DArr true [12; 1])]).
Proof. vm_compute. repeat split. Qed.

(* ------------------------------------------------------------------------------------------------ inputs never register anything *)
Lemma for_nodes_frame {St : Type} (body : pynode -> St -> M St) :
  (forall n st h, fst (body n st h) = h) -> forall l st h, fst (for_nodes body l st h) = h.
Proof.
  intros Hb. induction l as [|n r IH]; intros st h; cbn [for_nodes]; [reflexivity|].
  unfold mbind. specialize (Hb n st h). destruct (body n st h) as [h1 [st'|e]]; cbn [fst] in *; subst h1; [apply IH|reflexivity].
Qed.

Ltac frame_step :=
  repeat match goal with
         | |- fst (mbind (mlift ?r) _ _) = _ => unfold mbind at 1; unfold mlift at 1; destruct r; cbn [fst]; try reflexivity
         | |- fst ((if ?c then _ else _) _) = _ => destruct c
         | |- fst ((let _ := _ in _) _) = _ => cbv zeta
         | |- fst (mret _ _) = _ => reflexivity
         | |- fst (mraise _ _) = _ => reflexivity
         end.

(* the translated _check_node_io with io_type = "input", for ANY caller (Node or Model), data, receiver nodes and flags, accepted or
   refused: the heap is returned as it was given (register_teacher is only reachable for a target) *)
Theorem gen_check_node_io_input_frame (x : pyval) (rn : option (list pynode)) (ed : pyobj) (c : pycaller) (ans ani ats : bool) (h : heap) :
  fst (Gen_validation2.check_node_io x rn ed c IoInput ans ani ats h) = h.
Proof.
  assert (Hbody : forall n (m : list (nat * data)) h0,
            fst ((fun node x_new =>
                    if negb (map_mem (pn_name node) x_new) then
                      (if iotype_eqb IoInput IoTarget && pn_fitted node then mret x_new else mraise ValueError)
                    else mbind (mlift (map_get x_new (pn_name node))) (fun t1 =>
                         if is_node t1 then mraise TypeError
                         else let dim := pn_input_dim node in
                              mbind (mlift (map_get x_new (pn_name node))) (fun t6 =>
                              mbind (mlift (Gen_validation.check_n_sequences t6 dim ans ani ats)) (fun t7 =>
                              let x_new := map_set x_new (pn_name node) t7 in mret x_new)))) n m h0) = h0).
  { intros n m h0. cbn beta. frame_step. }
  unfold Gen_validation2.check_node_io. destruct rn as [nodes|].
  - cbn [iotype_eqb]. destruct (negb (is_mapping x)).
    + cbv zeta. unfold mbind at 1.
      match goal with |- fst (match for_nodes ?b ?l ?s ?hh with _ => _ end) = _ =>
        pose proof (for_nodes_frame b) as F; specialize (F (fun n st h0 => Hbody n st h0) l s hh);
        destruct (for_nodes b l s hh) as [h1 [m'|e]]; cbn [fst] in F; subst h1 end; [|reflexivity].
      rewrite andb_false_r. reflexivity.
    + unfold mbind at 1. unfold mlift at 1. destruct (map_copy x) as [m0|e]; [|reflexivity]. cbv zeta. unfold mbind at 1.
      match goal with |- fst (match for_nodes ?b ?l ?s ?hh with _ => _ end) = _ =>
        pose proof (for_nodes_frame b) as F; specialize (F (fun n st h0 => Hbody n st h0) l s hh);
        destruct (for_nodes b l s hh) as [h1 [m'|e]]; cbn [fst] in F; subst h1 end; [|reflexivity].
      rewrite andb_false_r. reflexivity.
  - cbn [iotype_eqb]. destruct (is_node (val_data x)); [reflexivity|].
    unfold mbind at 1. unfold mlift at 1.
    destruct (Gen_validation.check_n_sequences (val_data x) ed ans ani ats); [|reflexivity].
    cbv zeta. rewrite andb_false_r. reflexivity.
Qed.
