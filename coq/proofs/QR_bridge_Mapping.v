(* C02, family "mapping": the data plumbing of model/Mapping.v run at Q, then embedded in R, IS the plumbing run at R on the embedded data.

   model/Mapping.v is polymorphic in the type of one row (to_ragged_seq_set, build_mapping, check_io, unfold_mapping,
   to_data_mapping) and in the type of one returned array (dd_add, fold_many, fold_mapping); allocate_returned_states has no
   data at all.  The bridge for that part is therefore NATURALITY: every plumbing function commutes with [map f] on rows, for
   every [f : A -> B] (part 1); instantiated with f := map Q2R this says that the nesting form, the keys and their order, the
   numbers and lengths of sequences and the raised / not raised outcome are the same at R, and that the values are the
   embedded ones.  The only numeric part, [model_run] (the loop of Model.run over the sequences on top of ModelSem.run_op), is
   related with the lemmas of proofs/QR_bridge_Model.v (part 2).  Part 3: a verdict [true] of every [chk_*] of
   run/RunMapping.v is a statement about the R-instance on the embedded data (same form, values within the tolerance).
   No shape hypothesis, no side condition, no functional extensionality. *)
From Coq Require Import Reals QArith Qreals List Bool Arith ZArith.
From RV Require Import base.Num base.LA base.NumHom model.ModelSem model.ProxySem model.Kinds model.Mapping proofs.QR_bridge_Model.
Import ListNotations.
Close Scope Q_scope.

(* ================================================================== (1) naturality of the plumbing *)
Definition dmap {X Y : Type} (g : X -> Y) (m : dict X) : dict Y := map (fun p => (fst p, g (snd p))) m.

Lemma keys_dmap {X Y} (g : X -> Y) m : keys (dmap g m) = keys m.
Proof. unfold keys, dmap. rewrite map_map. apply map_ext. reflexivity. Qed.
Lemma length_dmap {X Y} (g : X -> Y) m : length (dmap g m) = length m.
Proof. apply map_length. Qed.
Lemma lookup_dmap {X Y} (g : X -> Y) k m : lookup k (dmap g m) = option_map g (lookup k m).
Proof.
  unfold lookup, dmap. induction m as [|p m IH]; cbn [map find fst snd]; [reflexivity|].
  destruct (Nat.eqb (fst p) k); [reflexivity | exact IH].
Qed.
Lemma forallb_map' {X Y} (h : Y -> bool) (k : X -> Y) l : forallb h (map k l) = forallb (fun x => h (k x)) l.
Proof. induction l as [|x l IH]; cbn [map forallb]; [reflexivity | rewrite IH; reflexivity]. Qed.
Lemma forallb_ext' {X} (h k : X -> bool) l : (forall x, h x = k x) -> forallb h l = forallb k l.
Proof. intros E. induction l as [|x l IH]; cbn [forallb]; [reflexivity | rewrite E, IH; reflexivity]. Qed.
Lemma Forall2_map_same {X Y Z} (P : Y -> Z -> Prop) (a : X -> Y) (b : X -> Z) l :
  (forall t, P (a t) (b t)) -> Forall2 P (map a l) (map b l).
Proof. intros Hp. induction l; cbn [map]; constructor; auto. Qed.

Section Naturality.
Context {A B : Type} (f : A -> B).
Local Notation mf := (map f).
Local Notation mmf := (map (map f)).

Definition mapv (v : value A) : value B :=
  match v with
  | VArr1 r => VArr1 (f r)
  | VArr2 s => VArr2 (mf s)
  | VArr3 l => VArr3 (mmf l)
  | VList l => VList (mmf l)
  end.
Definition mapd (d : data A) : data B :=
  match d with
  | DVal v => DVal (mapv v)
  | DMap m => DMap (dmap mapv m)
  end.

Lemma is_sequence_set_nat v : is_sequence_set (mapv v) = is_sequence_set v.
Proof. destruct v; reflexivity. Qed.
Lemma ragged_of_nat v : ragged_of (mapv v) = mmf (ragged_of v).
Proof. destruct v; reflexivity. Qed.
Lemma build_mapping_nat nodes d io : build_mapping nodes (mapd d) io = dmap mmf (build_mapping nodes d io).
Proof.
  unfold build_mapping. destruct d as [v|m]; cbn [mapd to_ragged_seq_set].
  - rewrite ragged_of_nat. unfold dmap. rewrite map_map. reflexivity.
  - unfold dmap. rewrite !map_map. apply map_ext. intros p. cbn [fst snd]. rewrite ragged_of_nat. reflexivity.
Qed.
Lemma check_io_nat recv (m : dict (list (list A))) io : check_io recv (dmap mmf m) io = check_io recv m io.
Proof. unfold check_io. rewrite keys_dmap. reflexivity. Qed.
Definition um_body {row : Type} (l0 : list (list row)) (dm : dict (list (list row))) : option (list (dict (list row))) :=
  if forallb (fun p => Nat.eqb (length (snd p)) (length l0)) dm
  then Some (map (fun i => map (fun p => (fst p, nth i (snd p) [])) dm) (seq 0 (length l0)))
  else None.
Lemma um_body_nat l0 (dm : dict (list (list A))) : um_body (mmf l0) (dmap mmf dm) = option_map (map (dmap mf)) (um_body l0 dm).
Proof.
  unfold um_body.
  assert (E : forallb (fun p : nat * list (list B) => Nat.eqb (length (snd p)) (length (mmf l0))) (dmap mmf dm)
              = forallb (fun p : nat * list (list A) => Nat.eqb (length (snd p)) (length l0)) dm).
  { unfold dmap. rewrite forallb_map'. apply forallb_ext'. intros p. cbn [fst snd]. rewrite !map_length. reflexivity. }
  rewrite E. destruct (forallb _ dm); cbn [option_map]; [|reflexivity].
  f_equal. rewrite map_length, map_map. apply map_ext. intros i. unfold dmap. rewrite !map_map. apply map_ext. intros p.
  cbn [fst snd]. f_equal. change (@nil B) with (mf (@nil A)). apply map_nth.
Qed.
Lemma unfold_mapping_nat (dm : dict (list (list A))) :
  unfold_mapping (dmap mmf dm) = option_map (map (dmap mf)) (unfold_mapping dm).
Proof.
  destruct dm as [|[k l0] r]; [reflexivity|].
  change (unfold_mapping ((k, l0) :: r)) with (um_body l0 ((k, l0) :: r)).
  change (unfold_mapping (dmap mmf ((k, l0) :: r))) with (um_body (mmf l0) (dmap mmf ((k, l0) :: r))).
  apply um_body_nat.
Qed.
Definition map_dm (p : list (dict (list A)) * list (option (dict (list A)))) : list (dict (list B)) * list (option (dict (list B))) :=
  (map (dmap mf) (fst p), map (option_map (dmap mf)) (snd p)).
Lemma to_data_mapping_nat mm X Y :
  to_data_mapping mm (mapd X) (option_map mapd Y) = option_map map_dm (to_data_mapping mm X Y).
Proof.
  unfold to_data_mapping. cbv zeta. rewrite build_mapping_nat, check_io_nat.
  destruct (negb (check_io (mm_inputs mm) _ IoInput)); [reflexivity|].
  destruct Y as [y|]; cbn [option_map].
  - rewrite build_mapping_nat, check_io_nat.
    destruct (negb (check_io (trainable_nodes mm) _ IoTarget)); [reflexivity|].
    rewrite unfold_mapping_nat. destruct (unfold_mapping (build_mapping (mm_inputs mm) X IoInput)) as [xs|]; cbn [option_map]; [|reflexivity].
    destruct (build_mapping (trainable_nodes mm) y IoTarget) as [|p ym] eqn:Ey.
    + cbn [dmap map option_map]. unfold map_dm. cbn [fst snd]. rewrite map_length, map_repeat'. reflexivity.
    + rewrite unfold_mapping_nat. cbn [dmap map]. destruct (unfold_mapping (p :: ym)) as [ys|]; cbn [option_map]; [|reflexivity].
      unfold map_dm. cbn [fst snd]. rewrite !map_map. reflexivity.
  - cbn [negb]. rewrite unfold_mapping_nat.
    destruct (unfold_mapping (build_mapping (mm_inputs mm) X IoInput)) as [xs|]; cbn [option_map]; [|reflexivity].
    unfold map_dm. cbn [fst snd]. rewrite map_length, map_repeat'. reflexivity.
Qed.
End Naturality.

Section NaturalityFold.
Context {X Y : Type} (g : X -> Y).
Local Notation mg := (map g).
Definition mapres (r : result X) : result Y :=
  match r with
  | RBare a => RBare (g a)
  | RBareList l => RBareList (mg l)
  | RDict m => RDict (dmap g m)
  | RDictList m => RDictList (dmap mg m)
  | RErr => RErr
  end.
Lemma dd_add_nat m k v : dd_add (dmap mg m) k (g v) = dmap mg (dd_add m k v).
Proof.
  unfold dd_add. rewrite keys_dmap. destruct (memb k (keys m)); unfold dmap.
  - rewrite !map_map. apply map_ext. intros p. cbn [fst snd]. destruct (Nat.eqb (fst p) k); cbn [fst snd]; [rewrite map_app|]; reflexivity.
  - rewrite map_app. reflexivity.
Qed.
Lemma fold_one_nat s : forall acc,
  fold_left (fun acc2 p => dd_add acc2 (fst p) (snd p)) (dmap g s) (dmap mg acc)
  = dmap mg (fold_left (fun acc2 p => dd_add acc2 (fst p) (snd p)) s acc).
Proof.
  induction s as [|p s IH]; intros acc; cbn [dmap map fold_left fst snd]; [reflexivity|].
  rewrite dd_add_nat. apply IH.
Qed.
Lemma fold_many_from_nat states : forall acc,
  fold_left (fun acc s => fold_left (fun acc2 p => dd_add acc2 (fst p) (snd p)) s acc) (map (dmap g) states) (dmap mg acc)
  = dmap mg (fold_left (fun acc s => fold_left (fun acc2 p => dd_add acc2 (fst p) (snd p)) s acc) states acc).
Proof.
  induction states as [|s states IH]; intros acc; cbn [map fold_left]; [reflexivity|].
  rewrite fold_one_nat. apply IH.
Qed.
Lemma fold_many_nat states : fold_many (map (dmap g) states) = dmap mg (fold_many states).
Proof. unfold fold_many. apply (fold_many_from_nat states []). Qed.
Lemma fold_mapping_nat mm states rs : fold_mapping mm (map (dmap g) states) rs = mapres (fold_mapping mm states rs).
Proof.
  assert (Hmany : forall st : list (dict X),
            (let sm := fold_many (map (dmap g) st) in
             if Nat.eqb (length sm) 1 && rs_is_none rs
             then match mm_outputs mm with
                  | o :: _ => RBareList (match lookup (mn_name o) sm with Some l => l | None => [] end)
                  | [] => RErr
                  end
             else RDictList sm)
            = mapres (let sm := fold_many st in
                      if Nat.eqb (length sm) 1 && rs_is_none rs
                      then match mm_outputs mm with
                           | o :: _ => RBareList (match lookup (mn_name o) sm with Some l => l | None => [] end)
                           | [] => RErr
                           end
                      else RDictList sm)).
  { intros st. cbv zeta. rewrite fold_many_nat, length_dmap.
    destruct (Nat.eqb (length (fold_many st)) 1 && rs_is_none rs); [|reflexivity].
    destruct (mm_outputs mm) as [|o outs]; [reflexivity|]. rewrite lookup_dmap. destruct (lookup (mn_name o) (fold_many st)); reflexivity. }
  destruct states as [|s [|s2 r]].
  - exact (Hmany []).
  - cbn [map]. unfold fold_mapping. rewrite length_dmap.
    destruct (Nat.eqb (length s) 1 && rs_is_none rs); [|reflexivity].
    destruct (mm_outputs mm) as [|o outs]; [reflexivity|]. rewrite lookup_dmap. destruct (lookup (mn_name o) s); reflexivity.
  - exact (Hmany (s :: s2 :: r)).
Qed.
End NaturalityFold.

(* ================================================================== (2) Model.run over the sequences *)
Section BridgeRun.
Context {F G : Type} {NF : Num F} {NG : Num G} (phi : F -> G) {HH : NumHom phi}.
Local Notation ev := (map phi).
Local Notation em := (map (map phi)).

Lemma steps_of_rel (xm : dict (list (list F))) : steps_rel phi (steps_of xm) (steps_of (dmap em xm)).
Proof.
  unfold steps_of.
  assert (E : match dmap em xm with [] => 0 | (_, s) :: _ => length s end = match xm with [] => 0 | (_, s) :: _ => length s end).
  { destruct xm as [|[k s] r]; cbn [dmap map fst snd]; [reflexivity | apply map_length]. }
  rewrite E. unfold steps_rel. apply Forall2_map_same. intros t. cbn [fst snd]. split; intros n; [|reflexivity].
  rewrite lookup_dmap. destruct (lookup n xm) as [s|]; cbn [option_map]; [apply nth_error_map | reflexivity].
Qed.
Lemma with_outputs_rel m m' names : m_rel phi m m' -> m_rel phi (with_outputs m names) (with_outputs m' names).
Proof. intros (Ho & Hp & _). unfold with_outputs, m_rel. cbn [order parents outputs]. repeat split; assumption. Qed.
Lemma run_seqs_rel m m' stateful reset from from' seqs seqs' :
  m_rel phi m m' -> opt_rel phi from from' -> Forall2 (steps_rel phi) seqs seqs' ->
  forall e e', env_rel phi e e' ->
  env_rel phi (fst (fst (run_seqs m stateful reset from seqs e))) (fst (fst (run_seqs m' stateful reset from' seqs' e'))) /\
  snd (fst (run_seqs m' stateful reset from' seqs' e')) = map (map em) (snd (fst (run_seqs m stateful reset from seqs e))) /\
  snd (run_seqs m' stateful reset from' seqs' e') = snd (run_seqs m stateful reset from seqs e).
Proof.
  intros Hm Hf Hs. induction Hs as [|s s' seqs seqs' Hs1 _ IH]; intros e e' He; cbn [run_seqs].
  - repeat split. exact He.
  - pose proof (run_op_rel phi m m' stateful reset from from' s s' e e' Hm Hf Hs1 He) as (H1 & H2 & H3).
    destruct (run_op m stateful reset from s e) as [[e1 o] ok], (run_op m' stateful reset from' s' e') as [[e1' o'] ok'].
    cbn [fst snd] in H1, H2, H3. subst ok' o'. destruct ok; [|repeat split; exact H1].
    pose proof (IH e1 e1' H1) as (I1 & I2 & I3).
    destruct (run_seqs m stateful reset from seqs e1) as [[e2 os] ok2], (run_seqs m' stateful reset from' seqs' e1') as [[e2' os'] ok2'].
    cbn [fst snd] in *. subst. repeat split. exact I1.
Qed.
Lemma states_of_seq_nat names (outs : list (list (list F))) : states_of_seq names (map em outs) = dmap em (states_of_seq names outs).
Proof.
  unfold states_of_seq, dmap. rewrite map_map. apply map_ext. intros ip. cbn [fst snd]. f_equal.
  rewrite !map_map. apply map_ext. intros step. change (@nil G) with (ev (@nil F)). apply map_nth.
Qed.

Theorem model_run_rel mm m m' stateful reset from from' X rs e e' :
  m_rel phi m m' -> opt_rel phi from from' -> env_rel phi e e' ->
  env_rel phi (fst (fst (model_run mm m stateful reset from X rs e)))
              (fst (fst (model_run mm m' stateful reset from' (mapd ev X) rs e'))) /\
  snd (fst (model_run mm m' stateful reset from' (mapd ev X) rs e')) = mapres em (snd (fst (model_run mm m stateful reset from X rs e))) /\
  snd (model_run mm m' stateful reset from' (mapd ev X) rs e') = snd (model_run mm m stateful reset from X rs e).
Proof.
  intros Hm Hf He. unfold model_run.
  pose proof (to_data_mapping_nat ev mm X None) as E. cbn [option_map] in E. rewrite E. clear E.
  destruct (to_data_mapping mm X None) as [[xs ys]|]; cbn [option_map map_dm fst snd]; [|repeat split; exact He].
  destruct (allocate_returned_states mm rs) as [names|]; [|repeat split; exact He].
  destruct xs as [|x xs]; [repeat split; exact He|].
  cbn [map].
  assert (Hs : Forall2 (steps_rel phi) (steps_of x :: map steps_of xs) (steps_of (dmap em x) :: map steps_of (map (dmap em) xs))).
  { constructor; [apply steps_of_rel|]. rewrite map_map. apply Forall2_map_same. intros t. apply steps_of_rel. }
  pose proof (run_seqs_rel _ _ stateful reset from from' _ _ (with_outputs_rel m m' names Hm) Hf Hs e e' He) as (H1 & H2 & H3).
  destruct (run_seqs (with_outputs m names) stateful reset from (steps_of x :: map steps_of xs) e) as [[e1 outs] ok],
           (run_seqs (with_outputs m' names) stateful reset from' (steps_of (dmap em x) :: map steps_of (map (dmap em) xs)) e') as [[e1' outs'] ok'].
  cbn [fst snd] in *. subst ok' outs'. repeat split; [exact H1|].
  destruct ok; [|reflexivity]. rewrite map_map.
  rewrite (map_ext (fun o => states_of_seq names (map em o)) (fun o => dmap em (states_of_seq names o)) (states_of_seq_nat names)).
  rewrite <- (map_map (states_of_seq names) (dmap em)). apply fold_mapping_nat.
Qed.
End BridgeRun.

(* ================================================================== (3) the runner run/RunMapping.v, read at R *)
From RV Require Import run.RunModel run.RunMapping.

(* same form (keys and their order, lengths, Some / None), components related *)
Definition dict_relP {Y} (P : Y -> Y -> Prop) (a b : dict Y) : Prop :=
  Forall2 (fun p q => fst p = fst q /\ P (snd p) (snd q)) a b.
Definition opt_relP {Y} (P : Y -> Y -> Prop) (a b : option Y) : Prop :=
  match a, b with
  | None, None => True
  | Some x, Some y => P x y
  | _, _ => False
  end.
Definition result_relR (a b : result (list (list R))) : Prop :=
  match a, b with
  | RBare x, RBare y => mrclose x y
  | RBareList x, RBareList y => Forall2 mrclose x y
  | RDict x, RDict y => dict_relP mrclose x y
  | RDictList x, RDictList y => dict_relP (Forall2 mrclose) x y
  | RErr, RErr => True
  | _, _ => False
  end.

Lemma list_eqb_rel {X Y} (c : X -> X -> bool) (P : Y -> Y -> Prop) (g : X -> Y) :
  (forall x y, c x y = true -> P (g x) (g y)) -> forall a b, list_eqb c a b = true -> Forall2 P (map g a) (map g b).
Proof.
  intros Hc. induction a as [|x a IH]; intros [|y b]; cbn [list_eqb map]; intros Hx; try discriminate; [constructor|].
  apply andb_true_iff in Hx. constructor; [apply Hc, Hx | apply IH, Hx].
Qed.
Lemma dict_eqb_rel {X Y} (c : X -> X -> bool) (P : Y -> Y -> Prop) (g : X -> Y) :
  (forall x y, c x y = true -> P (g x) (g y)) -> forall a b, dict_eqb c a b = true -> dict_relP P (dmap g a) (dmap g b).
Proof.
  intros Hc a b. unfold dict_eqb, dict_relP, dmap. apply list_eqb_rel. intros p q Hx. cbn [fst snd].
  apply andb_true_iff in Hx. split; [apply Nat.eqb_eq, Hx | apply Hc, Hx].
Qed.
Lemma opt_eqb_rel {X Y} (c : X -> X -> bool) (P : Y -> Y -> Prop) (g : X -> Y) :
  (forall x y, c x y = true -> P (g x) (g y)) -> forall a b, opt_eqb c a b = true -> opt_relP P (option_map g a) (option_map g b).
Proof. intros Hc [x|] [y|]; cbn; intros Hx; try discriminate; [apply Hc, Hx | exact I]. Qed.
Lemma mclose_R x y : mclose x y = true -> mrclose (qm2r x) (qm2r y).
Proof. apply mclose_mrclose. Qed.
Lemma result_eqb_rel a b : result_eqb a b = true -> result_relR (mapres qm2r a) (mapres qm2r b).
Proof.
  destruct a, b; cbn [result_eqb mapres result_relR]; intros Hx; try discriminate; try exact I.
  - apply mclose_R, Hx.
  - revert Hx. apply list_eqb_rel, mclose_R.
  - revert Hx. apply dict_eqb_rel, mclose_R.
  - revert Hx. apply dict_eqb_rel. apply list_eqb_rel, mclose_R.
Qed.

(* ---- the five plumbing checks ---- *)
Theorem chk_build_mapping_is_about_R (nodes : list mnode) (d : data qv) (target : bool) (obs : dict (list qsq)) :
  chk_build_mapping nodes d target obs = true ->
  dict_relP (Forall2 mrclose) (build_mapping nodes (mapd qv2r d) (if target then IoTarget else IoInput)) (dmap (map qm2r) obs).
Proof.
  unfold chk_build_mapping. rewrite build_mapping_nat. apply dict_eqb_rel. apply list_eqb_rel, mclose_R.
Qed.
Theorem chk_unfold_is_about_R (dm : dict (list qsq)) (obs : option (list (dict qsq))) :
  chk_unfold dm obs = true ->
  opt_relP (Forall2 (dict_relP mrclose)) (unfold_mapping (dmap (map qm2r) dm)) (option_map (map (dmap qm2r)) obs).
Proof.
  unfold chk_unfold. rewrite unfold_mapping_nat. apply opt_eqb_rel. apply list_eqb_rel. apply dict_eqb_rel, mclose_R.
Qed.
Definition tdm_relR (a b : list (dict (list (list R))) * list (option (dict (list (list R))))) : Prop :=
  Forall2 (dict_relP mrclose) (fst a) (fst b) /\ Forall2 (opt_relP (dict_relP mrclose)) (snd a) (snd b).
Theorem chk_to_data_mapping_is_about_R (mm : mmodel) (X : data qv) (Y : option (data qv))
        (obs : option (list (dict qsq) * list (option (dict qsq)))) :
  chk_to_data_mapping mm X Y obs = true ->
  opt_relP tdm_relR (to_data_mapping mm (mapd qv2r X) (option_map (mapd qv2r) Y)) (option_map (map_dm qv2r) obs).
Proof.
  unfold chk_to_data_mapping. rewrite to_data_mapping_nat. apply opt_eqb_rel. intros a b Hx.
  apply andb_true_iff in Hx. unfold tdm_relR, map_dm. cbn [fst snd]. split.
  - revert Hx. intros [Hx _]. revert Hx. apply list_eqb_rel. apply dict_eqb_rel, mclose_R.
  - revert Hx. intros [_ Hx]. revert Hx. apply list_eqb_rel. apply opt_eqb_rel. apply dict_eqb_rel, mclose_R.
Qed.
Theorem chk_fold_is_about_R (mm : mmodel) (states : list (dict qsq)) (rs : rstates) (obs : result qsq) :
  chk_fold mm states rs obs = true -> result_relR (fold_mapping mm (map (dmap qm2r) states) rs) (mapres qm2r obs).
Proof. unfold chk_fold. rewrite fold_mapping_nat. apply result_eqb_rel. Qed.
(* allocate_returned_states has no data: the verdict is an equality *)
Lemma list_eqb_nat_eq a : forall b, list_eqb Nat.eqb a b = true -> a = b.
Proof.
  induction a as [|x a IH]; intros [|y b]; cbn [list_eqb]; intros Hx; try discriminate; [reflexivity|].
  apply andb_true_iff in Hx. destruct Hx as [H1 H2]. apply Nat.eqb_eq in H1. subst y. f_equal. apply IH, H2.
Qed.
Theorem chk_alloc_is_exact (mm : mmodel) (rs : rstates) (obs : option (list nat)) :
  chk_alloc mm rs obs = true -> allocate_returned_states mm rs = obs.
Proof.
  unfold chk_alloc. destruct (allocate_returned_states mm rs) as [a|], obs as [b|]; cbn [opt_eqb]; intros Hx; try discriminate; [|reflexivity].
  f_equal. apply list_eqb_nat_eq, Hx.
Qed.

(* ---- Model.run on a scenario model ---- *)
Definition model_runR (nodes : list snode) (sm : smodel) (mm : mmodel) (stateful reset : bool) (from : list (nat * qv))
           (X : data qv) (rs : rstates) (e : env (F:=R)) : env (F:=R) * result (list (list R)) * bool :=
  model_run mm (to_modelR nodes sm) stateful reset (assoc (eal from)) (mapd qv2r X) rs e.

Lemma model_runR_rel nodes sm mm stateful reset from X rs e eR : env_rel Q2R e eR ->
  env_rel Q2R (fst (fst (model_run mm (to_model nodes sm) stateful reset (assoc from) X rs e)))
              (fst (fst (model_runR nodes sm mm stateful reset from X rs eR))) /\
  snd (fst (model_runR nodes sm mm stateful reset from X rs eR))
    = mapres qm2r (snd (fst (model_run mm (to_model nodes sm) stateful reset (assoc from) X rs e))) /\
  snd (model_runR nodes sm mm stateful reset from X rs eR) = snd (model_run mm (to_model nodes sm) stateful reset (assoc from) X rs e).
Proof.
  intros He. unfold model_runR. apply (model_run_rel Q2R); [apply to_model_rel | apply assoc_eal | exact He].
Qed.

Theorem chk_model_run_is_about_R_model (nodes : list snode) (sm : smodel) (mm : mmodel) (stateful reset : bool)
        (from : list (nat * qv)) (X : data qv) (rs : rstates) (ook : bool) (ores : result qsq) (ostates : list (nat * qv)) :
  chk_model_run nodes sm mm stateful reset from X rs ook ores ostates = true ->
  let r := model_runR nodes sm mm stateful reset from X rs (init_envR nodes) in
  is_topo (assoc_list (mparents sm)) [] (morder sm) = true /\
  snd r = ook /\ (snd r = true -> result_relR (snd (fst r)) (mapres qm2r ores)) /\ states_okR (fst (fst r)) ostates.
Proof.
  unfold chk_model_run. cbv zeta.
  pose proof (model_runR_rel nodes sm mm stateful reset from X rs _ _ (init_env_rel nodes)) as (H1 & H2 & H3).
  destruct (model_run mm (to_model nodes sm) stateful reset (assoc from) X rs (init_env nodes)) as [[e1 res] ok],
           (model_runR nodes sm mm stateful reset from X rs (init_envR nodes)) as [[e1R resR] okR].
  cbn [fst snd] in *. subst okR resR. intros Hx.
  apply andb_true_iff in Hx. destruct Hx as [Hx Hst]. apply andb_true_iff in Hx. destruct Hx as [Hx Hres].
  apply andb_true_iff in Hx. destruct Hx as [Ht Hok]. apply eqb_prop in Hok. subst ook. repeat split.
  - exact Ht.
  - intros E. rewrite E in Hres. apply result_eqb_rel, Hres.
  - eapply states_ok_R; eassumption.
Qed.

Theorem chk_model_run2_is_about_R_model (nodes : list snode) (sm : smodel) (mm : mmodel)
        (st1 rst1 : bool) (X1 : data qv) (rs1 : rstates) (ores1 : result qsq)
        (st2 rst2 : bool) (X2 : data qv) (rs2 : rstates) (ores2 : result qsq) (ostates : list (nat * qv)) :
  chk_model_run2 nodes sm mm st1 rst1 X1 rs1 ores1 st2 rst2 X2 rs2 ores2 ostates = true ->
  let r1 := model_runR nodes sm mm st1 rst1 [] X1 rs1 (init_envR nodes) in
  let r2 := model_runR nodes sm mm st2 rst2 [] X2 rs2 (fst (fst r1)) in
  is_topo (assoc_list (mparents sm)) [] (morder sm) = true /\
  snd r1 = true /\ snd r2 = true /\ result_relR (snd (fst r1)) (mapres qm2r ores1) /\ result_relR (snd (fst r2)) (mapres qm2r ores2) /\
  states_okR (fst (fst r2)) ostates.
Proof.
  unfold chk_model_run2. cbv zeta.
  assert (Hn : forall n, (fun _ : nat => @None (list R)) n = option_map qv2r ((fun _ : nat => @None qv) n)) by reflexivity.
  assert (HR : forall st rst X rs eR, model_runR nodes sm mm st rst [] X rs eR
                                   = model_run mm (to_modelR nodes sm) st rst (assoc (eal [])) (mapd qv2r X) rs eR) by reflexivity.
  pose proof (model_run_rel Q2R mm _ _ st1 rst1 (fun _ => None) (assoc (eal [])) X1 rs1 _ _ (to_model_rel nodes sm) Hn (init_env_rel nodes))
    as (H1 & H2 & H3).
  rewrite <- HR in H1, H2, H3.
  destruct (model_run mm (to_model nodes sm) st1 rst1 (fun _ => None) X1 rs1 (init_env nodes)) as [[e1 res1] ok1],
           (model_runR nodes sm mm st1 rst1 [] X1 rs1 (init_envR nodes)) as [[e1R res1R] ok1R].
  cbn [fst snd] in *. subst ok1R res1R.
  pose proof (model_run_rel Q2R mm _ _ st2 rst2 (fun _ => None) (assoc (eal [])) X2 rs2 _ _ (to_model_rel nodes sm) Hn H1) as (I1 & I2 & I3).
  rewrite <- HR in I1, I2, I3.
  destruct (model_run mm (to_model nodes sm) st2 rst2 (fun _ => None) X2 rs2 e1) as [[e2 res2] ok2],
           (model_runR nodes sm mm st2 rst2 [] X2 rs2 e1R) as [[e2R res2R] ok2R].
  cbn [fst snd] in *. subst ok2R res2R. intros Hx.
  apply andb_true_iff in Hx. destruct Hx as [Hx Hst]. apply andb_true_iff in Hx. destruct Hx as [Hx Hr2].
  apply andb_true_iff in Hx. destruct Hx as [Hx Hr1]. apply andb_true_iff in Hx. destruct Hx as [Hx Hok2].
  apply andb_true_iff in Hx. destruct Hx as [Ht Hok1]. repeat split; try assumption.
  - apply result_eqb_rel, Hr1.
  - apply result_eqb_rel, Hr2.
  - eapply states_ok_R; eassumption.
Qed.

Print Assumptions to_data_mapping_nat.
Print Assumptions fold_mapping_nat.
Print Assumptions model_run_rel.
Print Assumptions chk_to_data_mapping_is_about_R.
Print Assumptions chk_model_run_is_about_R_model.
Print Assumptions chk_model_run2_is_about_R_model.
