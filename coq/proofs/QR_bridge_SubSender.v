(* C05 (family `subsender`): the sub-model feedback sender model run at Q, then embedded in R, IS that model run at R on the
   embedded data.

   model/SubSender.v (ProxySem's per-node record + the `_fb_flag` bits + the per-node counters of forward entries, with the
   reduced-sender mechanism of DistantFeedback.call_distant_node) is a single term over [Num F]; its correspondence runner
   run/RunSubSender.v ([chk_subsender]) is evaluated at F := Q.  Here, in the style of proofs/QR_bridge_Model.v:
   (1) for every homomorphism [phi] of the class (base/NumHom.v), every function of SubSender.v maps related sub-model senders,
       related models, related states and related inputs to related results with the SAME success flag.  The [lenv] part of a
       state is related point-wise by [lenv_rel]; flags and counters are number-free, hence point-wise EQUAL ([ss_rel]); no
       functional extensionality is used;
   (2) [chk_subsender_is_about_R_model]: a verdict [true] of the runner implies that the R-instance history has, operation by
       operation, the observed success flag, outputs within the tolerance of the observed ones when it succeeds, node states
       within the tolerance, the observed `_fb_flag` bits and forward-entry counters, and the observed at-rest flag. *)
From Coq Require Import Reals QArith Qreals List Bool Arith ZArith.
From RV Require Import base.Num base.LA base.NumHom model.ModelSem model.ProxySem model.Kinds model.SubSender proofs.QR_bridge_Model.
Import ListNotations.
Close Scope Q_scope.

Section BridgeSub.
Context {F G : Type} {NF : Num F} {NG : Num G} (phi : F -> G) {HH : NumHom phi}.
Local Notation ev := (map phi).
Local Notation em := (map (map phi)).

(* ================================================================== (1) model/SubSender.v *)
Definition ss_rel (s : @sstate F) (s' : @sstate G) : Prop :=
  lenv_rel phi (le s) (le s') /\ (forall n, fl s' n = fl s n) /\ (forall n, cn s' n = cn s n).
Definition sub_rel (sd : @subm F) (sd' : @subm G) : Prop :=
  s_nodes sd' = s_nodes sd /\ s_ins sd' = s_ins sd /\ s_outs sd' = s_outs sd /\
  Forall2 (nd_rel phi) (s_red sd) (s_red sd') /\ forall n, s_par sd' n = s_par sd n.
Definition sm_rel (sm : nat -> option (@subm F)) (sm' : nat -> option (@subm G)) : Prop :=
  forall n, match sm n, sm' n with Some a, Some b => sub_rel a b | None, None => True | _, _ => False end.
Definition sres2_rel (r : @sstate F * bool) (r' : @sstate G * bool) : Prop := ss_rel (fst r) (fst r') /\ snd r' = snd r.
Definition sres3_rel (r : @sstate F * list (list (list F)) * bool) (r' : @sstate G * list (list (list G)) * bool) : Prop :=
  ss_rel (fst (fst r)) (fst (fst r')) /\ snd (fst r') = map em (snd (fst r)) /\ snd r' = snd r.

Lemma flip_rel (f f' : nat -> bool) n : (forall k, f' k = f k) -> forall k, flip f' n k = flip f n k.
Proof. intros Hf k. unfold flip. rewrite (Hf k). reflexivity. Qed.
Lemma bump_rel (c c' : nat -> nat) n : (forall k, c' k = c k) -> forall k, bump c' n k = bump c n k.
Proof. intros Hc k. unfold bump. rewrite (Hc k). reflexivity. Qed.
Lemma on_le_rel (f : @lenv F -> @lenv F) (f' : @lenv G -> @lenv G) s s' :
  (forall e e', lenv_rel phi e e' -> lenv_rel phi (f e) (f' e')) -> ss_rel s s' -> ss_rel (on_le f s) (on_le f' s').
Proof. intros Hf (He & Hfl & Hc). unfold on_le, ss_rel. cbn [le fl cn]. split; [apply Hf, He | split; assumption]. Qed.

Lemma apply_node_rel d d' x fb s s' : nd_rel phi d d' -> ss_rel s s' ->
  sres2_rel (apply_node d x fb s) (apply_node d' (ev x) (option_map ev fb) s').
Proof.
  intros (Hi & _ & _ & Hf) (He & Hfl & Hc). unfold apply_node. cbv zeta.
  rewrite Hi, (lst_rel phi _ _ _ He), (lhid_rel phi _ _ _ He), Hf.
  destruct (nfwd d _ _ _ _) as [[s1 h1]|]; cbn [eres option_map fst snd].
  - split; [|reflexivity]. cbn [fst]. split; [|split]; cbn [le fl cn].
    + apply (lupd_rel phi); [exact He|]. rewrite (proxy_rel phi _ _ _ He), (clamp_rel phi _ _ _ He). reflexivity.
    + apply flip_rel, Hfl.
    + apply bump_rel, Hc.
  - split; [|reflexivity]. cbn [fst]. split; [|split]; cbn [le fl cn]; [exact He | exact Hfl | apply bump_rel, Hc].
Qed.

(* the flags are only point-wise equal: by induction on the list of the sender's nodes *)
Lemma flags_equal_rel s s' sd sd' : ss_rel s s' -> sub_rel sd sd' -> flags_equal s' sd' = flags_equal s sd.
Proof.
  intros (_ & Hfl & _) (Hn & _). unfold flags_equal. rewrite Hn. clear Hn. destruct (s_nodes sd) as [|n rest]; [reflexivity|].
  induction rest as [|k rest IH]; cbn [forallb]; [reflexivity|]. rewrite IH, !Hfl. reflexivity.
Qed.
Lemma distant_inputs_rel sd sd' e e' n : sub_rel sd sd' -> lenv_rel phi e e' ->
  distant_inputs sd' e' n = ev (distant_inputs sd e n).
Proof.
  intros (_ & Hin & _ & _ & Hp) He. unfold distant_inputs. rewrite Hin, Hp, concat_map, map_map. f_equal.
  apply map_ext. intros p. apply (state_proxy_rel phi), He.
Qed.
Lemma red_from_rel sd sd' (ind : nat -> list F) (ind' : nat -> list G) ds ds' :
  sub_rel sd sd' -> (forall n, ind' n = ev (ind n)) -> Forall2 (nd_rel phi) ds ds' ->
  forall s s', ss_rel s s' -> sres2_rel (red_from sd ind ds s) (red_from sd' ind' ds' s').
Proof.
  intros Hsd Hind Hds. induction Hds as [|d d' ds ds' Hd _ IH]; intros s s' Hs; cbn [red_from]; cbv zeta.
  - split; [exact Hs | reflexivity].
  - destruct Hs as (He & Hfl & Hc).
    pose proof (fb_read_rel phi d d' (le s) (le s') Hd He) as (H1 & H2).
    destruct (fb_read d (le s)) as [fb e1], (fb_read d' (le s')) as [fb' e1']. cbn [fst snd] in H1, H2. subst fb'.
    assert (Ex : concat (map (fun p => lst (le s' p)) (filter (fun p => negb (memb p (s_ins sd'))) (s_par sd' (nid d')))) ++ ind' (nid d')
                 = ev (concat (map (fun p => lst (le s p)) (filter (fun p => negb (memb p (s_ins sd))) (s_par sd (nid d)))) ++ ind (nid d))).
    { destruct Hsd as (_ & Hin & _ & _ & Hp). destruct Hd as (Hi & _). rewrite Hi, Hin, Hp, Hind, map_app, concat_map, map_map.
      f_equal. f_equal. apply map_ext. intros p. apply (lst_rel phi), He. }
    rewrite Ex.
    match goal with |- context [apply_node d ?x fb _] =>
      pose proof (apply_node_rel d d' x fb (mkSS e1 (fl s) (cn s)) (mkSS e1' (fl s') (cn s')) Hd (conj H2 (conj Hfl Hc))) as (A1 & A2) end.
    destruct (apply_node d _ fb _) as [s2 ok], (apply_node d' _ _ _) as [s2' ok']. cbn [fst snd] in A1, A2. subst ok'.
    destruct ok; [apply IH, A1 | split; [exact A1 | reflexivity]].
Qed.
Lemma red_model_rel sd sd' : sub_rel sd sd' -> m_rel phi (red_model sd) (red_model sd').
Proof.
  intros (_ & _ & Hout & Hred & Hp). unfold red_model, m_rel. cbn [order parents outputs]. split; [exact Hred | split; [exact Hp | exact Hout]].
Qed.
Lemma run_reduced_rel sd sd' s s' : sub_rel sd sd' -> ss_rel s s' -> sres2_rel (run_reduced sd s) (run_reduced sd' s').
Proof.
  intros Hsd Hs. unfold run_reduced. cbv zeta.
  pose proof (red_model_rel sd sd' Hsd) as Hm.
  assert (Hind : forall n, distant_inputs sd' (le s') n = ev (distant_inputs sd (le s) n)).
  { intros n. apply distant_inputs_rel; [exact Hsd | apply Hs]. }
  pose proof Hsd as (_ & _ & _ & Hred & _).
  pose proof (red_from_rel sd sd' _ _ _ _ Hsd Hind Hred s s' Hs) as B1.
  pose proof (red_from_rel sd sd' _ _ _ _ Hsd Hind Hred _ _
                (on_le_rel _ _ s s' (load_proxys_rel phi _ _ true Hm) Hs)) as (H1 & H2).
  destruct (red_from sd _ (s_red sd) (on_le _ s)) as [s1 ok], (red_from sd' _ (s_red sd') (on_le _ s')) as [s1' ok'].
  cbn [fst snd] in H1, H2. subst ok'.
  assert (B2 : sres2_rel (on_le (clean_proxys (red_model sd)) s1, ok) (on_le (clean_proxys (red_model sd')) s1', ok)).
  { split; [|reflexivity]. cbn [fst]. apply on_le_rel; [apply (clean_proxys_rel phi), Hm | exact H1]. }
  revert B1 B2. destruct Hred as [|d d' ds ds' Hd Hds]; [intros _ B2; exact B2|].
  destruct Hds as [|d2 d2' ds ds' Hd2 Hds]; intros B1 B2; [exact B1 | exact B2].
Qed.

Lemma cdn_rel sm sm' d d' s s' : sm_rel sm sm' -> nd_rel phi d d' -> ss_rel s s' ->
  fst (fst (cdn sm' d' s')) = option_map ev (fst (fst (cdn sm d s))) /\
  ss_rel (snd (fst (cdn sm d s))) (snd (fst (cdn sm' d' s'))) /\
  snd (cdn sm' d' s') = snd (cdn sm d s).
Proof.
  intros Hsm Hd Hs. unfold cdn. pose proof Hd as (Hi & _). rewrite Hi. pose proof (Hsm (nid d)) as Hsd.
  destruct (sm (nid d)) as [sd|], (sm' (nid d)) as [sd'|]; try contradiction.
  - pose proof Hs as (He & Hfl & Hc). rewrite (clamp_rel phi _ _ (nid d) He).
    destruct (clamp (le s (nid d))) as [v|]; cbn [option_map].
    + cbn [fst snd]. split; [reflexivity|]. split; [|reflexivity]. apply on_le_rel; [|exact Hs].
      intros e e' Hee. apply (set_clamp_rel phi e e' (nid d) None Hee).
    + rewrite (flags_equal_rel s s' sd sd' Hs Hsd). pose proof Hsd as (_ & _ & Hout & _). destruct (flags_equal s sd).
      * cbn [fst snd]. split; [|split; [exact Hs | reflexivity]]. cbn [option_map]. f_equal.
        rewrite Hout, concat_map, map_map. f_equal. apply map_ext. intros o. apply (state_proxy_rel phi), He.
      * pose proof (run_reduced_rel sd sd' s s' Hsd Hs) as (R1 & R2).
        destruct (run_reduced sd s) as [s1 ok], (run_reduced sd' s') as [s1' ok']. cbn [fst snd] in R1, R2 |- *. subst ok'.
        split; [|split; [exact R1 | reflexivity]]. cbn [option_map]. f_equal.
        rewrite Hout, concat_map, map_map. f_equal. apply map_ext. intros o. apply (lst_rel phi), R1.
  - pose proof (fb_read_rel phi d d' (le s) (le s') Hd (proj1 Hs)) as (H1 & H2).
    destruct (fb_read d (le s)) as [fb e1], (fb_read d' (le s')) as [fb' e1']. cbn [fst snd] in H1, H2 |- *.
    split; [exact H1|]. split; [|reflexivity]. split; [exact H2 | split; apply Hs].
Qed.
Lemma node_call_rel sm sm' d d' x s s' : sm_rel sm sm' -> nd_rel phi d d' -> ss_rel s s' ->
  sres2_rel (node_call sm d x s) (node_call sm' d' (ev x) s').
Proof.
  intros Hsm Hd Hs. unfold node_call. pose proof (cdn_rel sm sm' d d' s s' Hsm Hd Hs) as (C1 & C2 & C3).
  destruct (cdn sm d s) as [[fb s1] okr], (cdn sm' d' s') as [[fb' s1'] okr']. cbn [fst snd] in C1, C2, C3. subst fb' okr'.
  destruct okr; [apply apply_node_rel; assumption|]. split; [|reflexivity]. cbn [fst].
  destruct C2 as (He & Hfl & Hc). pose proof Hd as (Hi & _). rewrite Hi.
  split; [|split]; cbn [le fl cn]; [exact He | exact Hfl | apply bump_rel, Hc].
Qed.
Lemma call_node_s_rel m m' sm sm' ext ext' s s' d d' :
  m_rel phi m m' -> sm_rel sm sm' -> opt_rel phi ext ext' -> ss_rel s s' -> nd_rel phi d d' ->
  sres2_rel (call_node_s m sm ext s d) (call_node_s m' sm' ext' s' d').
Proof.
  intros Hm Hsm Hx Hs Hd. unfold call_node_s. pose proof Hd as (Hi & _).
  rewrite Hi, (gather_ll_rel phi m m' (le s) (le s') ext ext' _ Hm (proj1 Hs) Hx). apply node_call_rel; assumption.
Qed.
Lemma forward_from_s_rel m m' sm sm' ext ext' ds ds' :
  m_rel phi m m' -> sm_rel sm sm' -> opt_rel phi ext ext' -> Forall2 (nd_rel phi) ds ds' ->
  forall s s', ss_rel s s' -> sres2_rel (forward_from_s m sm ext ds s) (forward_from_s m' sm' ext' ds' s').
Proof.
  intros Hm Hsm Hx Hds. induction Hds as [|d d' ds ds' Hd _ IH]; intros s s' Hs; cbn [forward_from_s].
  - split; [exact Hs | reflexivity].
  - pose proof (call_node_s_rel m m' sm sm' ext ext' s s' d d' Hm Hsm Hx Hs Hd) as (H1 & H2).
    destruct (call_node_s m sm ext s d) as [s1 ok], (call_node_s m' sm' ext' s' d') as [s1' ok'].
    cbn [fst snd] in H1, H2. subst ok'. destruct ok; [apply IH, H1 | split; [exact H1 | reflexivity]].
Qed.
Lemma forward_s_rel m m' sm sm' ext ext' s s' :
  m_rel phi m m' -> sm_rel sm sm' -> opt_rel phi ext ext' -> ss_rel s s' ->
  sres2_rel (forward_s m sm ext s) (forward_s m' sm' ext' s').
Proof. intros Hm Hsm Hx Hs. apply forward_from_s_rel; try assumption. apply Hm. Qed.

Lemma with_feedback_s_rel forced forced' sf ds ds' (body : @sstate F -> @sstate F * bool) (body' : @sstate G -> @sstate G * bool) :
  opt_rel phi forced forced' -> Forall2 (nd_rel phi) ds ds' ->
  (forall s s', ss_rel s s' -> sres2_rel (body s) (body' s')) ->
  forall s s', ss_rel s s' -> sres2_rel (with_feedback_s forced sf ds body s) (with_feedback_s forced' sf ds' body' s').
Proof.
  intros Hf Hds Hb. induction Hds as [|d d' ds ds' Hd _ IH]; intros s s' Hs; cbn [with_feedback_s]; cbv zeta; [apply Hb, Hs|].
  pose proof (IH _ _ (on_le_rel (fun e => fb_enter forced e d) (fun e => fb_enter forced' e d') s s'
                        (fun e e' He => fb_enter_rel phi forced forced' e e' d d' Hf He Hd) Hs)) as (H1 & H2).
  destruct (with_feedback_s forced sf ds body _) as [s2 ok], (with_feedback_s forced' sf ds' body' _) as [s2' ok'].
  cbn [fst snd] in H1, H2. subst ok'. split; [|reflexivity]. cbn [fst].
  pose proof Hd as (Hi & _). rewrite Hi, (proxy_rel phi _ _ (nid d) (proj1 Hs)). apply on_le_rel; [|exact H1].
  intros e e' He. apply (fb_exit_rel phi); assumption.
Qed.
Lemma step_s_rel m m' sm sm' forced forced' ext ext' s s' :
  m_rel phi m m' -> sm_rel sm sm' -> opt_rel phi forced forced' -> opt_rel phi ext ext' -> ss_rel s s' ->
  sres2_rel (step_s m sm forced ext s) (step_s m' sm' forced' ext' s').
Proof.
  intros Hm Hsm Hf Hx Hs. unfold step_s.
  pose proof (with_feedback_s_rel forced forced' false (order m) (order m') (forward_s m sm ext) (forward_s m' sm' ext') Hf (proj1 Hm)
                (fun a a' Ha => forward_s_rel m m' sm sm' ext ext' a a' Hm Hsm Hx Ha) s s' Hs) as (H1 & H2).
  destruct (with_feedback_s forced false (order m) _ s) as [s1 ok], (with_feedback_s forced' false (order m') _ s') as [s1' ok'].
  cbn [fst snd] in H1, H2. subst ok'. destruct ok; (split; [|reflexivity]); cbn [fst]; [|exact H1].
  apply on_le_rel; [apply (load_proxys_rel phi), Hm | exact H1].
Qed.
Lemma run_steps_s_rel m m' sm sm' steps steps' : m_rel phi m m' -> sm_rel sm sm' -> steps_rel phi steps steps' ->
  forall s s', ss_rel s s' -> sres3_rel (run_steps_s m sm steps s) (run_steps_s m' sm' steps' s').
Proof.
  intros Hm Hsm Hst. induction Hst as [|[ext forced] [ext' forced'] steps steps' (Hx & Hf) _ IH]; intros s s' Hs; cbn [run_steps_s].
  - repeat split; apply Hs.
  - cbn [fst snd] in Hx, Hf.
    pose proof (step_s_rel m m' sm sm' forced forced' ext ext' s s' Hm Hsm Hf Hx Hs) as (H1 & H2).
    destruct (step_s m sm forced ext s) as [s1 ok], (step_s m' sm' forced' ext' s') as [s1' ok']. cbn [fst snd] in H1, H2. subst ok'.
    destruct ok; [|split; [exact H1 | split; reflexivity]].
    pose proof (IH s1 s1' H1) as (I1 & I2 & I3).
    destruct (run_steps_s m sm steps s1) as [[s2 outs] ok2], (run_steps_s m' sm' steps' s1') as [[s2' outs'] ok2'].
    cbn [fst snd] in I1, I2, I3. subst. split; [exact I1 | split; [|reflexivity]]. cbn [fst snd map].
    rewrite (out_states_ll_rel phi m m' (le s1) (le s1') Hm (proj1 H1)). reflexivity.
Qed.
Lemma run_s_rel m m' sm sm' steps steps' s s' : m_rel phi m m' -> sm_rel sm sm' -> steps_rel phi steps steps' -> ss_rel s s' ->
  sres3_rel (run_s m sm steps s) (run_s m' sm' steps' s').
Proof.
  intros Hm Hsm Hst Hs. unfold run_s.
  pose proof (run_steps_s_rel m m' sm sm' steps steps' Hm Hsm Hst _ _
                (on_le_rel _ _ s s' (load_proxys_rel phi m m' true Hm) Hs)) as (H1 & H2 & H3).
  destruct (run_steps_s m sm steps _) as [[s1 outs] ok], (run_steps_s m' sm' steps' _) as [[s1' outs'] ok']. cbn [fst snd] in *.
  split; [|split; assumption]. apply on_le_rel; [apply (clean_proxys_rel phi), Hm | exact H1].
Qed.
Lemma call_s_rel m m' sm sm' forced forced' ext ext' s s' :
  m_rel phi m m' -> sm_rel sm sm' -> opt_rel phi forced forced' -> opt_rel phi ext ext' -> ss_rel s s' ->
  sres3_rel (call_s m sm forced ext s) (call_s m' sm' forced' ext' s').
Proof.
  intros Hm Hsm Hf Hx Hs. unfold call_s.
  pose proof (with_feedback_s_rel forced forced' true (order m) (order m') (forward_s m sm ext) (forward_s m' sm' ext') Hf (proj1 Hm)
                (fun a a' Ha => forward_s_rel m m' sm sm' ext ext' a a' Hm Hsm Hx Ha) _ _
                (on_le_rel _ _ s s' (load_proxys_rel phi m m' true Hm) Hs)) as (H1 & H2).
  destruct (with_feedback_s forced true (order m) _ _) as [s1 ok], (with_feedback_s forced' true (order m') _ _) as [s1' ok'].
  cbn [fst snd] in H1, H2. subst ok'. split; [|split; [|reflexivity]]; cbn [fst snd].
  - apply on_le_rel; [apply (clean_proxys_rel phi), Hm | exact H1].
  - destruct ok; [|reflexivity]. cbn [map]. rewrite (out_states_ll_rel phi m m' (le s1) (le s1') Hm (proj1 H1)). reflexivity.
Qed.

End BridgeSub.

(* ================================================================== (2) the runner run/RunSubSender.v, read at R *)
From RV Require Import run.RunModel run.RunSubSender.

(* ---- the R-instance of the scenario interpreter: the same text as [srun_one], on the R-models / R-senders of the scenario and
        on the embedded data of the operation ---- *)
Definition raisingR (d : ndesc (F:=R)) : ndesc (F:=R) := mkND (nid d) (fun _ _ _ _ => None) (nfb d) (odim d).
Definition ndesc_ofR (nodes : list snode) (fail : list nat) (i : nat) : list (ndesc (F:=R)) :=
  match find (fun s => Nat.eqb (sid s) i) nodes with
  | Some s => [if memb i fail then raisingR (to_ndescR s) else to_ndescR s]
  | None => []
  end.
Definition model_ofR (nodes : list snode) (fail : list nat) (m : smodel) : model (F:=R) :=
  mkModel (flat_map (ndesc_ofR nodes fail) (morder m)) (assoc_list (mparents m)) (mouts m).
Definition sub_ofR (nodes : list snode) (fail : list nat) (s : ssub) : subm (F:=R) :=
  mkSub (sall s) (sinp s) (sout s) (flat_map (ndesc_ofR nodes fail) (sredo s)) (assoc_list (sparents s)).
Definition subs_ofR (nodes : list snode) (fail : list nat) (subs : list ssub) : nat -> option (subm (F:=R)) :=
  fun n => match find (fun s => Nat.eqb (srecv s) n) subs with Some s => Some (sub_ofR nodes fail s) | None => None end.

Fixpoint calls_fromR (sm : nat -> option (subm (F:=R))) (d : ndesc (F:=R)) (xs : list (list R)) (s : sstate (F:=R))
  : sstate (F:=R) * bool :=
  match xs with
  | [] => (s, true)
  | x :: rest => let '(s1, ok) := node_call sm d x s in if ok then calls_fromR sm d rest s1 else (s1, false)
  end.

Definition srun_oneR (nodes : list snode) (models : list smodel) (subs : list ssub) (o : sop) (s : sstate (F:=R))
  : sstate (F:=R) * list (list (list R)) * bool :=
  match o with
  | SRun mi X shift FB fail =>
      match nth_error models mi with
      | Some sm => run_s (model_ofR nodes fail sm) (subs_ofR nodes fail subs) (stepsR X shift FB) s
      | None => (s, [], false)
      end
  | SCallM mi x fb fail =>
      match nth_error models mi with
      | Some sm => call_s (model_ofR nodes fail sm) (subs_ofR nodes fail subs) (assoc (eal fb)) (assoc (eal x)) s
      | None => (s, [], false)
      end
  | SCallN n x fail =>
      match ndesc_ofR nodes fail n with
      | d :: _ => let '(s1, ok) := node_call (subs_ofR nodes fail subs) d (qv2r x) s in (s1, [], ok)
      | [] => (s, [], false)
      end
  | SWithFb n v xs =>
      match ndesc_ofR nodes [] n with
      | d :: _ =>
          let saved := proxy (le s n) in
          let '(s1, ok) := calls_fromR (subs_ofR nodes [] subs) d (map qv2r xs)
                             (on_le (fun e => fb_enter (fun k => if Nat.eqb k n then Some (qv2r v) else None) e d) s) in
          (on_le (fun e => fb_exit false saved e d) s1, [], ok)
      | [] => (s, [], false)
      end
  end.

Definition init_sstateR (nodes : list snode) : sstate (F:=R) := fresh (init_envR_ll nodes).

(* ---- what a verdict [true] says about the R-instance history: operation by operation, the observed success flag; when it
        succeeds, outputs within the tolerance of the observed ones; afterwards (also after a failure) the states of the listed
        nodes within the tolerance, exactly the observed `_fb_flag` bits and forward-entry counters, the observed at-rest flag;
        then the rest of the history from the state this operation left ---- *)
Fixpoint shist_okR (nodes : list snode) (models : list smodel) (subs : list ssub) (l : list (sop * sobs)) (s : sstate (F:=R)) : Prop :=
  match l with
  | [] => True
  | (o, ob) :: rest =>
      let r := srun_oneR nodes models subs o s in
      snd r = so_ok ob /\ (snd r = true -> mmrclose (snd (fst r)) (map qm2r (so_outs ob))) /\
      states_okR_ll (le (fst (fst r))) (so_states ob) /\
      Forall (fun p => fl (fst (fst r)) (fst p) = snd p) (so_flags ob) /\
      Forall (fun p => cn (fst (fst r)) (fst p) = snd p) (so_calls ob) /\
      at_restbR nodes (le (fst (fst r))) = so_rest ob /\
      shist_okR nodes models subs rest (fst (fst r))
  end.

(* ---- the R-models / R-senders of a scenario are related to the Q ones; so are the initial states ---- *)
Lemma ndesc_of_rel nodes fail i : Forall2 (nd_rel Q2R) (ndesc_of nodes fail i) (ndesc_ofR nodes fail i).
Proof.
  unfold ndesc_of, ndesc_ofR. destruct (find (fun s => Nat.eqb (sid s) i) nodes) as [s|]; [|constructor].
  constructor; [|constructor]. destruct (memb i fail).
  - unfold nd_rel, raising, raisingR, to_ndesc, to_ndescR. cbn [nid nfb odim nfwd]. repeat split.
  - unfold nd_rel, to_ndesc, to_ndescR. cbn [nid nfb odim nfwd]. repeat split. exact (kfwd_rel Q2R (skind s)).
Qed.
Lemma flat_ndesc_of_rel nodes fail l :
  Forall2 (nd_rel Q2R) (flat_map (ndesc_of nodes fail) l) (flat_map (ndesc_ofR nodes fail) l).
Proof.
  induction l as [|i l IH]; cbn [flat_map]; [constructor|]. apply Forall2_app; [apply ndesc_of_rel | exact IH].
Qed.
Lemma model_of_rel nodes fail sm : m_rel Q2R (model_of nodes fail sm) (model_ofR nodes fail sm).
Proof.
  unfold model_of, model_ofR, m_rel. cbn [order parents outputs]. split; [apply flat_ndesc_of_rel | split; reflexivity].
Qed.
Lemma sub_of_rel nodes fail s : sub_rel Q2R (sub_of nodes fail s) (sub_ofR nodes fail s).
Proof.
  unfold sub_of, sub_ofR, sub_rel. cbn [s_nodes s_ins s_outs s_red s_par].
  split; [reflexivity|]. split; [reflexivity|]. split; [reflexivity|]. split; [apply flat_ndesc_of_rel | reflexivity].
Qed.
Lemma subs_of_rel nodes fail subs : sm_rel Q2R (subs_of nodes fail subs) (subs_ofR nodes fail subs).
Proof.
  intros n. unfold subs_of, subs_ofR. destruct (find (fun s => Nat.eqb (srecv s) n) subs) as [s|]; [apply sub_of_rel | exact I].
Qed.
Lemma init_sstate_rel nodes : ss_rel Q2R (init_sstate nodes) (init_sstateR nodes).
Proof.
  unfold init_sstate, init_sstateR, fresh, ss_rel. cbn [le fl cn]. split; [apply init_env_ll_rel | split; reflexivity].
Qed.

(* ---- one operation ---- *)
Lemma calls_from_rel sm smR d dR xs : sm_rel Q2R sm smR -> nd_rel Q2R d dR ->
  forall s sR, ss_rel Q2R s sR -> sres2_rel Q2R (calls_from sm d xs s) (calls_fromR smR dR (map qv2r xs) sR).
Proof.
  intros Hsm Hd. induction xs as [|x xs IH]; intros s sR Hs; cbn [calls_from calls_fromR map].
  - split; [exact Hs | reflexivity].
  - pose proof (node_call_rel Q2R sm smR d dR x s sR Hsm Hd Hs) as (H1 & H2).
    destruct (node_call sm d x s) as [s1 ok], (node_call smR dR (qv2r x) sR) as [s1R okR].
    cbn [fst snd] in H1, H2. subst okR. destruct ok; [apply IH, H1 | split; [exact H1 | reflexivity]].
Qed.
Lemma srun_one_rel nodes models subs o s sR : ss_rel Q2R s sR ->
  sres3_rel Q2R (srun_one nodes models subs o s) (srun_oneR nodes models subs o sR).
Proof.
  intros Hs. destruct o as [mi X shift FB fail | mi x fb fail | n x fail | n v xs]; cbn [srun_one srun_oneR]; cbv zeta.
  - destruct (nth_error models mi) as [sm|]; [|split; [exact Hs | split; reflexivity]].
    apply (run_s_rel Q2R); [apply model_of_rel | apply subs_of_rel | apply steps_relR | exact Hs].
  - destruct (nth_error models mi) as [sm|]; [|split; [exact Hs | split; reflexivity]].
    apply (call_s_rel Q2R); [apply model_of_rel | apply subs_of_rel | apply assoc_eal | apply assoc_eal | exact Hs].
  - pose proof (ndesc_of_rel nodes fail n) as Hd.
    destruct (ndesc_of nodes fail n) as [|d ds], (ndesc_ofR nodes fail n) as [|dR dsR]; try (inversion Hd; fail).
    + split; [exact Hs | split; reflexivity].
    + inversion Hd as [|? ? ? ? Hd1 _]; subst.
      pose proof (node_call_rel Q2R _ _ d dR x s sR (subs_of_rel nodes fail subs) Hd1 Hs) as (H1 & H2).
      destruct (node_call (subs_of nodes fail subs) d x s) as [s1 ok], (node_call (subs_ofR nodes fail subs) dR (qv2r x) sR) as [s1R okR].
      cbn [fst snd] in H1, H2 |- *. subst okR. split; [exact H1 | split; reflexivity].
  - pose proof (ndesc_of_rel nodes [] n) as Hd.
    destruct (ndesc_of nodes [] n) as [|d ds], (ndesc_ofR nodes [] n) as [|dR dsR]; try (inversion Hd; fail).
    + split; [exact Hs | split; reflexivity].
    + inversion Hd as [|? ? ? ? Hd1 _]; subst.
      assert (Hf : opt_rel Q2R (fun k => if Nat.eqb k n then Some v else None) (fun k => if Nat.eqb k n then Some (qv2r v) else None)).
      { intros k. destruct (Nat.eqb k n); reflexivity. }
      pose proof (calls_from_rel _ _ d dR xs (subs_of_rel nodes [] subs) Hd1 _ _
                    (on_le_rel Q2R _ _ s sR (fun e e' He => fb_enter_rel Q2R _ _ e e' d dR Hf He Hd1) Hs)) as (H1 & H2).
      destruct (calls_from _ d xs _) as [s1 ok], (calls_fromR _ dR _ _) as [s1R okR].
      cbn [fst snd] in H1, H2 |- *. subst okR. split; [|split; reflexivity].
      rewrite (proxy_rel Q2R _ _ n (proj1 Hs)). apply (on_le_rel Q2R); [|exact H1].
      intros e e' He. apply (fb_exit_rel Q2R); assumption.
Qed.

(* ---- whole histories ---- *)
Lemma chk_sops_R nodes models subs l :
  forall s sR, ss_rel Q2R s sR -> chk_sops nodes models subs l s = true -> shist_okR nodes models subs l sR.
Proof.
  induction l as [|[o ob] l IH]; intros s sR Hs; cbn [chk_sops shist_okR]; [trivial|].
  unfold chk_sop. pose proof (srun_one_rel nodes models subs o s sR Hs) as (H1 & H2 & H3).
  destruct (srun_one nodes models subs o s) as [[s1 outs] ok], (srun_oneR nodes models subs o sR) as [[s1R outsR] okR].
  cbn [fst snd] in *. subst. intros Hx. apply andb_true_iff in Hx. destruct Hx as [Hx Hrest].
  apply andb_true_iff in Hx. destruct Hx as [Hx Hat]. apply andb_true_iff in Hx. destruct Hx as [Hx Hcn].
  apply andb_true_iff in Hx. destruct Hx as [Hx Hfl]. apply andb_true_iff in Hx. destruct Hx as [Hx Hst].
  apply andb_true_iff in Hx. destruct Hx as [Hok Houts].
  apply eqb_prop in Hok. subst ok. destruct H1 as (He & Hf & Hc).
  split; [reflexivity|]. split; [|split; [|split; [|split; [|split]]]].
  - intros E. rewrite E in Houts. apply mmclose_mmrclose, Houts.
  - eapply states_ok_ll_R; eassumption.
  - rewrite forallb_forall in Hfl. apply Forall_forall. intros p Hp. rewrite Hf. apply eqb_prop, Hfl, Hp.
  - rewrite forallb_forall in Hcn. apply Forall_forall. intros p Hp. rewrite Hc. apply Nat.eqb_eq, Hcn, Hp.
  - apply eqb_prop in Hat. rewrite (at_restb_R nodes (le s1) (le s1R) He). symmetry. exact Hat.
  - eapply IH; [|eassumption]. split; [exact He | split; assumption].
Qed.

Theorem chk_subsender_is_about_R_model (nodes : list snode) (models : list smodel) (subs : list ssub) (l : list (sop * sobs)) :
  chk_subsender nodes models subs l = true -> topo_ok models = true /\ shist_okR nodes models subs l (init_sstateR nodes).
Proof.
  unfold chk_subsender. intros Hx. apply andb_true_iff in Hx. destruct Hx as [Ht Hx]. split; [exact Ht|].
  eapply chk_sops_R; [apply init_sstate_rel | exact Hx].
Qed.

(* the lifting lemmas hold for every homomorphism of the class and are closed under the global context; the standard axioms
   of Coq's reals enter only through the instance [Q2R_hom] and the type R itself *)
Print Assumptions chk_subsender_is_about_R_model.
Print Assumptions run_s_rel.
Print Assumptions call_s_rel.
Print Assumptions cdn_rel.
