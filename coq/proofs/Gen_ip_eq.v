(* Tie (T) for the intrinsic-plasticity clause of C10: gaussian_gradients, exp_gradients, apply_gradients, ip and ip_activation as
   GENERATED on this run from the current source text of nodes/reservoirs/intrinsic_plasticity.py (coq/gen/Gen_ip.v) are, at R,
   the per-unit rule of model/Online.v (ip_units / ip_arg) about which C10_ip_step, C10_ip_per_unit and C10_ip_count are stated. *)
From Coq Require Import Reals Lra List Bool Arith Lia.
From RV Require Import base.Num base.LA base.GenPrelude gen.Gen_ip model.Online.
Import ListNotations.
Open Scope R_scope.

Notation rvec := (list R).

(* numpy's vectorised expressions in "map normal form" *)
Lemma vscale_map (c : R) (f : R -> R) (l : rvec) : vscale c (map f l) = map (fun t => c * f t) l.
Proof. unfold vscale. rewrite map_map. reflexivity. Qed.
Lemma vzip_map2 (h : R -> R -> R) (f g : R -> R) : forall l : rvec, vzip h (map f l) (map g l) = map (fun t => h (f t) (g t)) l.
Proof. induction l as [|x l IH]; [reflexivity|]. simpl. f_equal. exact IH. Qed.
Lemma vmul_map2 (f g : R -> R) (l : rvec) : vmul (map f l) (map g l) = map (fun t => f t * g t) l.
Proof. exact (vzip_map2 nmul f g l). Qed.
Lemma vadd_map2 (f g : R -> R) (l : rvec) : vadd (map f l) (map g l) = map (fun t => f t + g t) l.
Proof. exact (vzip_map2 nadd f g l). Qed.
Lemma map_id_R (l : rvec) : l = map (fun t => t) l.
Proof. now rewrite map_id. Qed.

(* delta_b of the two rules, as one function of the unit's output *)
Lemma gen_gaussian_db (x y a : rvec) (mu sigma eta : R) :
  snd (GenIP.gaussian_gradients x y a mu sigma eta) = map (fun t => gauss_db t mu sigma eta) y.
Proof.
  unfold GenIP.gaussian_gradients. cbn [snd].
  rewrite (map_id_R y) at 2 3 4. rewrite vmul_map2. rewrite (vscale_map mu). rewrite !map_map.
  rewrite (vadd_map2 (fun t => nsub (nadd (nmul (nofZ 2) (nmul sigma sigma)) n1) (t * t)) (fun t => mu * t)).
  rewrite (map_id_R y) at 1. rewrite map_map.
  rewrite (vmul_map2 (fun t => ndiv t (nmul sigma sigma))). rewrite map_map. rewrite vscale_map.
  apply map_ext. intros t. unfold gauss_db, n2. cbn. replace 2 with (1 + 1) by lra. reflexivity.
Qed.
Lemma gen_exp_db (x y a : rvec) (mu eta : R) :
  snd (GenIP.exp_gradients x y a mu eta) = map (fun t => exp_db t mu eta) y.
Proof.
  unfold GenIP.exp_gradients. cbn [snd].
  rewrite (map_id_R y) at 1 2 3. rewrite vmul_map2. rewrite (vscale_map (nadd (nofZ 2) (ndiv n1 mu))). rewrite !map_map.
  rewrite (vadd_map2 (fun t => nsub n1 (nadd (nofZ 2) (ndiv n1 mu) * t)) (fun t => ndiv (t * t) mu)). rewrite vscale_map.
  apply map_ext. intros t. unfold exp_db, n2. cbn. replace 2 with (1 + 1) by lra. reflexivity.
Qed.
Lemma gen_gaussian_da (x y a : rvec) (mu sigma eta : R) :
  fst (GenIP.gaussian_gradients x y a mu sigma eta)
  = vadd (map (fun t => eta / t) a) (vmul (snd (GenIP.gaussian_gradients x y a mu sigma eta)) x).
Proof. reflexivity. Qed.
Lemma gen_exp_da (x y a : rvec) (mu eta : R) :
  fst (GenIP.exp_gradients x y a mu eta) = vadd (map (fun t => eta / t) a) (vmul (snd (GenIP.exp_gradients x y a mu eta)) x).
Proof. reflexivity. Qed.

(* the whole update of (a, b), all units at once = the per-unit rule of the model *)
Lemma ip_units_vectorised (tr : bool) (mu sigma eta : R) : forall xs ys a b : rvec,
  length ys = length xs -> length a = length xs -> length b = length xs ->
  let db := map (fun t => if tr then gauss_db t mu sigma eta else exp_db t mu eta) ys in
  (vadd a (vadd (map (fun t => eta / t) a) (vmul db xs)), vadd b db) = ip_units tr mu sigma eta xs ys a b.
Proof.
  induction xs as [|x xs IH]; intros [|y ys] [|a0 a] [|b0 b] Hy Ha Hb; cbn in Hy, Ha, Hb; try discriminate; [reflexivity|].
  cbn zeta in *. specialize (IH ys a b ltac:(lia) ltac:(lia) ltac:(lia)).
  cbn [ip_units map]. rewrite <- IH. unfold ip_unit, ip_da. cbn. reflexivity.
Qed.

Lemma gen_ip_eq (tr : bool) (mu sigma eta : R) (xs ys a b : rvec) :
  length ys = length xs -> length a = length xs -> length b = length xs ->
  GenIP.ip a b mu sigma eta tr xs ys = ip_units tr mu sigma eta xs ys a b.
Proof.
  intros Hy Ha Hb. rewrite <- (ip_units_vectorised tr mu sigma eta xs ys a b Hy Ha Hb). cbn zeta.
  unfold GenIP.ip, GenIP.apply_gradients. destruct tr.
  - rewrite (surjective_pairing (GenIP.gaussian_gradients xs ys a mu sigma eta)).
    rewrite gen_gaussian_da, gen_gaussian_db. reflexivity.
  - rewrite (surjective_pairing (GenIP.exp_gradients xs ys a mu eta)).
    rewrite gen_exp_da, gen_exp_db. reflexivity.
Qed.

(* ip_activation: f(a * state + b) *)
Lemma gen_ip_activation_eq (f : rvec -> rvec) (st : ipst (F:=R)) (x : rvec) :
  GenIP.ip_activation (ia st) (ib st) x f = f (ip_arg st x).
Proof. reflexivity. Qed.
