(* C19: lemmas about model/Metrics.v at F := R. *)
From Coq Require Import List Arith Bool ZArith Reals Lra Lia Psatz.
From RV Require Import base.Num base.LA base.BSum model.Metrics.
Import ListNotations.
Open Scope R_scope.

Notation vec := (list R).
Notation mat := (list (list R)).

(* x |-> a x + b applied entrywise *)
Definition aff (a b : R) (x : R) : R := a * x + b.

(* ---------------------------------------------------------------- basics *)
Lemma nofnat_R n : nofnat (F:=R) n = INR n.
Proof. unfold nofnat; numR. symmetry; apply INR_IZR_INZ. Qed.

Lemma vsum_cons (x : R) v : vsum (x :: v) = x + vsum v.
Proof. reflexivity. Qed.
Lemma vsum_map_scal c (v : vec) : vsum (map (fun x => c * x) v) = c * vsum v.
Proof. induction v; simpl; numR; [ring | rewrite IHv; ring]. Qed.
Lemma vsum_map_aff a b (v : vec) : vsum (map (aff a b) v) = a * vsum v + b * INR (length v).
Proof.
  induction v as [|x v IH]; [simpl; numR; ring|].
  change (length (x :: v)) with (S (length v)). rewrite S_INR. simpl; numR. rewrite IH. unfold aff. ring.
Qed.
Lemma vsum_ge0 (v : vec) : Forall (fun x => 0 <= x) v -> 0 <= vsum v.
Proof. induction 1; simpl; numR; lra. Qed.
Lemma vsum_bsum (v : vec) : vsum v = bsum (length v) (fun i => nth i v 0).
Proof. induction v as [|x v IH]; [reflexivity|]. simpl length. rewrite bsum_shift. simpl; numR. rewrite IH. reflexivity. Qed.

Lemma sq_R (x : R) : sq x = x * x.
Proof. reflexivity. Qed.
Lemma sqdiff_ge0 : forall y p : vec, Forall (fun x => 0 <= x) (sqdiff y p).
Proof. induction y as [|a y IH]; intros [|b p]; simpl; constructor; [unfold sq; numR; nra | apply IH]. Qed.
Lemma sqdiff_length : forall y p : vec, length y = length p -> length (sqdiff y p) = length y.
Proof. intros; unfold sqdiff; apply length_vzip; assumption. Qed.

Lemma mean_nil : mean (F:=R) [] = 0.
Proof. unfold mean; simpl; numR. unfold Rdiv; ring. Qed.
Lemma mean_ge0 (v : vec) : Forall (fun x => 0 <= x) v -> 0 <= mean v.
Proof.
  intros Hv. destruct v as [|x v]; [rewrite mean_nil; lra|].
  unfold mean. rewrite nofnat_R. numR. apply Rmult_le_pos; [apply vsum_ge0; assumption|].
  apply Rlt_le, Rinv_0_lt_compat. apply lt_0_INR. simpl; lia.
Qed.
Lemma mse1_ge0 (y p : vec) : 0 <= mse1 y p.
Proof. apply mean_ge0, sqdiff_ge0. Qed.

Lemma INR_len_nz {A} (v : list A) : v <> [] -> INR (length v) <> 0.
Proof. destruct v; [congruence|]. intros _. apply not_0_INR. simpl; lia. Qed.

(* ---------------------------------------------------------------- mse = (1/n) sum (y_i - p_i)^2 *)
Lemma mse1_def (y p : vec) : length y = length p ->
  mse1 y p = / INR (length y) * bsum (length y) (fun i => (nth i y 0 - nth i p 0) * (nth i y 0 - nth i p 0)).
Proof.
  intros Hl. unfold mse1, mean. rewrite vsum_bsum, sqdiff_length, nofnat_R by assumption. numR.
  unfold Rdiv. rewrite Rmult_comm. f_equal. apply bsum_ext; intros i Hi.
  unfold sqdiff. rewrite nth_vzip by assumption. reflexivity.
Qed.

(* ---------------------------------------------------------------- rmse *)
Definition rmseR (y p : vec) : R := sqrt (mse1 y p).
Definition nrmseR (k : normk) (y p : vec) : R := rmseR y p / norm1 k y.

Lemma rmse_sq (y p : vec) : rmseR y p * rmseR y p = mse1 y p /\ 0 <= rmseR y p.
Proof. split; [apply sqrt_sqrt, mse1_ge0 | apply sqrt_pos]. Qed.
Lemma nrmse_sq (k : normk) (y p : vec) : norm1 k y <> 0 ->
  nrmseR k y p * nrmseR k y p = mse1 y p / (norm1 k y * norm1 k y).
Proof. intros Hn. unfold nrmseR. destruct (rmse_sq y p) as [E _]. rewrite <- E. field. assumption. Qed.

(* ---------------------------------------------------------------- affine maps *)
Lemma sqdiff_aff a b : forall y p : vec,
  sqdiff (map (aff a b) y) (map (aff a b) p) = map (fun e => (a * a) * e) (sqdiff y p).
Proof. induction y as [|u y IH]; intros [|v p]; simpl; try reflexivity. f_equal; [unfold sq, aff; numR; ring | apply IH]. Qed.

Lemma mean_aff a b (v : vec) : v <> [] -> mean (map (aff a b) v) = a * mean v + b.
Proof.
  intros Hv. unfold mean. rewrite vsum_map_aff, map_length, nofnat_R. numR. field. apply INR_len_nz; assumption.
Qed.
Lemma mse1_aff a b (y p : vec) : mse1 (map (aff a b) y) (map (aff a b) p) = a * a * mse1 y p.
Proof.
  unfold mse1, mean. rewrite sqdiff_aff, vsum_map_scal, map_length. numR. unfold Rdiv; ring.
Qed.
Lemma center_aff a b (v : vec) : v <> [] -> center (map (aff a b) v) = map (fun x => a * x) (center v).
Proof.
  intros Hv. unfold center. rewrite mean_aff by assumption. rewrite !map_map. apply map_ext; intros x.
  unfold aff; numR; ring.
Qed.
Lemma sstot_aff a b (v : vec) : v <> [] -> sstot (map (aff a b) v) = a * a * sstot v.
Proof.
  intros Hv. unfold sstot. rewrite center_aff by assumption. rewrite map_map.
  rewrite <- vsum_map_scal. rewrite map_map. f_equal. apply map_ext; intros x. unfold sq; numR; ring.
Qed.
Lemma var1_aff a b (v : vec) : v <> [] -> var1 (map (aff a b) v) = a * a * var1 v.
Proof.
  intros Hv. unfold var1. change (mean (map sq (center ?w))) with (ndiv (sstot w) (nofnat (length (map sq (center w))))).
  unfold mean. fold (sstot (map (aff a b) v)). fold (sstot v). rewrite sstot_aff by assumption.
  unfold center. rewrite !map_length. numR. unfold Rdiv; ring.
Qed.
Lemma sstot_nil : sstot (F:=R) [] = 0.
Proof. reflexivity. Qed.

Lemma rsquare1_aff a b (y p : vec) : a <> 0 -> sstot y <> 0 ->
  rsquare1 (map (aff a b) y) (map (aff a b) p) = rsquare1 y p.
Proof.
  intros Ha HD. assert (Hy : y <> []) by (intros ->; apply HD, sstot_nil).
  unfold rsquare1. rewrite sstot_aff, sqdiff_aff, vsum_map_scal by assumption. numR. field. split; assumption.
Qed.

Lemma rmseR_aff a b (y p : vec) : rmseR (map (aff a b) y) (map (aff a b) p) = Rabs a * rmseR y p.
Proof.
  unfold rmseR. rewrite mse1_aff. rewrite sqrt_mult; [| nra | apply mse1_ge0].
  f_equal. change (a * a) with (Rsqr a). apply sqrt_Rsqr_abs.
Qed.

(* max / min / peak-to-peak *)
Lemma nmax_aff a b x y : 0 < a -> nmax (aff a b x) (aff a b y) = aff a b (nmax x y).
Proof. intros Ha. unfold nmax, aff; numR. destruct (Rlt_dec (a * x + b) (a * y + b)), (Rlt_dec x y); try reflexivity; exfalso; nra. Qed.
Lemma nmin_aff a b x y : 0 < a -> nmin (aff a b x) (aff a b y) = aff a b (nmin x y).
Proof. intros Ha. unfold nmin, aff; numR. destruct (Rlt_dec (a * y + b) (a * x + b)), (Rlt_dec y x); try reflexivity; exfalso; nra. Qed.
Lemma vmax_aff a b (v : vec) : 0 < a -> v <> [] -> vmax (map (aff a b) v) = aff a b (vmax v).
Proof.
  intros Ha Hv. destruct v as [|x v]; [congruence|]. simpl. clear Hv. revert x.
  induction v as [|z v IH]; intros x; simpl; [reflexivity|]. rewrite IH. apply nmax_aff; assumption.
Qed.
Lemma vmin_aff a b (v : vec) : 0 < a -> v <> [] -> vmin (map (aff a b) v) = aff a b (vmin v).
Proof.
  intros Ha Hv. destruct v as [|x v]; [congruence|]. simpl. clear Hv. revert x.
  induction v as [|z v IH]; intros x; simpl; [reflexivity|]. rewrite IH. apply nmin_aff; assumption.
Qed.
Lemma ptp_aff a b (v : vec) : 0 < a -> v <> [] -> ptp (map (aff a b) v) = a * ptp v.
Proof. intros Ha Hv. unfold ptp. rewrite vmax_aff, vmin_aff by assumption. unfold aff; numR; ring. Qed.

(* ---------------------------------------------------------------- R^2 *)
Lemma sqdiff_self (y : vec) : vsum (sqdiff y y) = 0.
Proof. induction y as [|a y IH]; simpl; numR; [reflexivity|]. unfold sqdiff in IH. rewrite IH. unfold sq; numR; ring. Qed.
Lemma rsquare1_perfect (y : vec) : sstot y <> 0 -> rsquare1 y y = 1.
Proof. intros HD. unfold rsquare1. rewrite sqdiff_self. numR. field. assumption. Qed.

Lemma vzip_repeat (f : R -> R -> R) (c : R) : forall y : vec, vzip f y (repeat c (length y)) = map (fun x => f x c) y.
Proof. induction y; simpl; [reflexivity | f_equal; assumption]. Qed.
Lemma rsquare1_mean_predictor (y : vec) : sstot y <> 0 -> rsquare1 y (repeat (mean y) (length y)) = 0.
Proof.
  intros HD. unfold rsquare1. unfold sqdiff. rewrite vzip_repeat.
  replace (map (fun x => sq (nsub x (mean y))) y) with (map sq (center y)) by (unfold center; apply map_map).
  fold (sstot y). numR. field. assumption.
Qed.
Lemma rsquare1_le_1 (y p : vec) : 0 < sstot y -> rsquare1 y p <= 1.
Proof.
  intros HD. unfold rsquare1. numR. assert (0 <= vsum (sqdiff y p)) by apply vsum_ge0, sqdiff_ge0.
  assert (0 <= vsum (sqdiff y p) / sstot y); [|lra]. apply Rmult_le_pos; [assumption|]. apply Rlt_le, Rinv_0_lt_compat; assumption.
Qed.

(* ---------------------------------------------------------------- nrmse under a y + b *)
Lemma nrmse_minmax_aff a b (y p : vec) : 0 < a -> ptp y <> 0 ->
  nrmseR Minmax (map (aff a b) y) (map (aff a b) p) = nrmseR Minmax y p.
Proof.
  intros Ha Hn. assert (Hy : y <> []) by (intros ->; apply Hn; unfold ptp; simpl; numR; ring).
  unfold nrmseR, norm1. rewrite rmseR_aff, ptp_aff, Rabs_right by (assumption || lra). field. split; [assumption|lra].
Qed.
Lemma nrmse_var_aff a b (y p : vec) : 0 < a -> var1 y <> 0 ->
  nrmseR Var (map (aff a b) y) (map (aff a b) p) = nrmseR Var y p / a.
Proof.
  intros Ha Hn. assert (Hy : y <> []) by (intros ->; apply Hn; unfold var1; simpl; apply mean_nil).
  unfold nrmseR, norm1. rewrite rmseR_aff, var1_aff, Rabs_right by (assumption || lra). field. split; [assumption|lra].
Qed.
Lemma nrmse_mean_aff a b (y p : vec) : 0 < a -> y <> [] ->
  nrmseR Mean (map (aff a b) y) (map (aff a b) p) = a * rmseR y p / (a * mean y + b).
Proof.
  intros Ha Hy. unfold nrmseR, norm1. rewrite rmseR_aff, mean_aff, Rabs_right by (assumption || lra). reflexivity.
Qed.
