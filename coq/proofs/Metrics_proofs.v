(* C19: lemmas about model/Metrics.v at F := R. *)
From Coq Require Import List Arith Bool ZArith Reals Lra Lia Psatz.
From RV Require Import base.Num base.LA base.BSum model.Metrics.
Import ListNotations.
Open Scope R_scope.

Notation vec := (list R).
Notation mat := (list (list R)).

(* x |-> a x + b applied entrywise *)
Definition aff (a b : R) (x : R) : R := a * x + b.

(* ---------------------------------------------------------------- basics *)
Lemma nofnat_R n : nofnat (F:=R) n = INR n.
Proof. unfold nofnat; numR. symmetry; apply INR_IZR_INZ. Qed.

Lemma vsum_cons (x : R) v : vsum (x :: v) = x + vsum v.
Proof. reflexivity. Qed.
Lemma vsum_map_scal c (v : vec) : vsum (map (fun x => c * x) v) = c * vsum v.
Proof. induction v; simpl; numR; [ring | rewrite IHv; ring]. Qed.
Lemma vsum_map_aff a b (v : vec) : vsum (map (aff a b) v) = a * vsum v + b * INR (length v).
Proof.
  induction v as [|x v IH]; [simpl; numR; ring|].
  change (length (x :: v)) with (S (length v)). rewrite S_INR. simpl; numR. rewrite IH. unfold aff. ring.
Qed.
Lemma vsum_ge0 (v : vec) : Forall (fun x => 0 <= x) v -> 0 <= vsum v.
Proof. induction 1; simpl; numR; lra. Qed.
Lemma vsum_bsum (v : vec) : vsum v = bsum (length v) (fun i => nth i v 0).
Proof. induction v as [|x v IH]; [reflexivity|]. simpl length. rewrite bsum_shift. simpl; numR. rewrite IH. reflexivity. Qed.

Lemma sq_R (x : R) : sq x = x * x.
Proof. reflexivity. Qed.
Lemma sqdiff_ge0 : forall y p : vec, Forall (fun x => 0 <= x) (sqdiff y p).
Proof. unfold sqdiff. induction y as [|a y IH]; intros [|b p]; simpl; try apply Forall_nil. apply Forall_cons; [exact (Rle_0_sqr _) | apply IH]. Qed.
Lemma sqdiff_length : forall y p : vec, length y = length p -> length (sqdiff y p) = length y.
Proof. intros; unfold sqdiff; apply length_vzip; assumption. Qed.

Lemma mean_nil : mean (F:=R) [] = 0.
Proof. unfold mean; simpl; numR. unfold Rdiv; ring. Qed.
Lemma mean_ge0 (v : vec) : Forall (fun x => 0 <= x) v -> 0 <= mean v.
Proof.
  intros Hv. destruct v as [|x v]; [rewrite mean_nil; lra|].
  unfold mean. rewrite nofnat_R. numR. apply Rmult_le_pos; [apply vsum_ge0; assumption|].
  apply Rlt_le, Rinv_0_lt_compat. apply lt_0_INR. simpl; lia.
Qed.
Lemma mse1_ge0 (y p : vec) : 0 <= mse1 y p.
Proof. apply mean_ge0, sqdiff_ge0. Qed.

Lemma INR_len_nz {A} (v : list A) : v <> [] -> INR (length v) <> 0.
Proof. destruct v; [congruence|]. intros _. apply not_0_INR. simpl; lia. Qed.

(* ---------------------------------------------------------------- mse = (1/n) sum (y_i - p_i)^2 *)
Lemma mse1_def (y p : vec) : length y = length p ->
  mse1 y p = / INR (length y) * bsum (length y) (fun i => (nth i y 0 - nth i p 0) * (nth i y 0 - nth i p 0)).
Proof.
  intros Hl. unfold mse1, mean. rewrite vsum_bsum, sqdiff_length, nofnat_R by assumption. numR.
  unfold Rdiv. rewrite Rmult_comm. f_equal. apply bsum_ext; intros i Hi.
  unfold sqdiff. rewrite nth_vzip by assumption. reflexivity.
Qed.

(* ---------------------------------------------------------------- rmse *)
Definition rmseR (y p : vec) : R := sqrt (mse1 y p).
Definition nrmseR (k : normk) (y p : vec) : R := rmseR y p / norm1 k y.

Lemma rmseR_sq (y p : vec) : rmseR y p * rmseR y p = mse1 y p /\ 0 <= rmseR y p.
Proof. split; [apply sqrt_sqrt, mse1_ge0 | apply sqrt_pos]. Qed.
Lemma nrmseR_sq (k : normk) (y p : vec) : norm1 k y <> 0 ->
  nrmseR k y p * nrmseR k y p = mse1 y p / (norm1 k y * norm1 k y).
Proof. intros Hn. unfold nrmseR. destruct (rmseR_sq y p) as [E _]. rewrite <- E. field. assumption. Qed.

(* ---------------------------------------------------------------- affine maps *)
Lemma sqdiff_aff a b : forall y p : vec,
  sqdiff (map (aff a b) y) (map (aff a b) p) = map (fun e => (a * a) * e) (sqdiff y p).
Proof. unfold sqdiff. induction y as [|u y IH]; intros [|v p]; simpl; try reflexivity. f_equal; [unfold sq, aff; numR; ring | apply IH]. Qed.

Lemma mean_aff a b (v : vec) : v <> [] -> mean (map (aff a b) v) = a * mean v + b.
Proof.
  intros Hv. unfold mean. rewrite vsum_map_aff, map_length, nofnat_R. numR. field. apply INR_len_nz; assumption.
Qed.
Lemma mse1_aff a b (y p : vec) : mse1 (map (aff a b) y) (map (aff a b) p) = a * a * mse1 y p.
Proof.
  unfold mse1, mean. rewrite sqdiff_aff, vsum_map_scal, map_length. numR. unfold Rdiv; ring.
Qed.
Lemma center_aff a b (v : vec) : v <> [] -> center (map (aff a b) v) = map (fun x => a * x) (center v).
Proof.
  intros Hv. unfold center. rewrite mean_aff by assumption. rewrite !map_map. apply map_ext; intros x.
  unfold aff; numR; ring.
Qed.
Lemma sstot_aff a b (v : vec) : v <> [] -> sstot (map (aff a b) v) = a * a * sstot v.
Proof.
  intros Hv. unfold sstot. rewrite center_aff by assumption. rewrite map_map.
  rewrite <- vsum_map_scal. rewrite map_map. f_equal. apply map_ext; intros x. unfold sq; numR; ring.
Qed.
Lemma var1_aff a b (v : vec) : v <> [] -> var1 (map (aff a b) v) = a * a * var1 v.
Proof.
  intros Hv. unfold var1. change (mean (map sq (center ?w))) with (ndiv (sstot w) (nofnat (length (map sq (center w))))).
  unfold mean. fold (sstot (map (aff a b) v)). fold (sstot v). rewrite sstot_aff by assumption.
  unfold center. rewrite !map_length. numR. unfold Rdiv; ring.
Qed.
Lemma sstot_nil : sstot (F:=R) [] = 0.
Proof. reflexivity. Qed.

Lemma rsquare1_aff a b (y p : vec) : a <> 0 -> sstot y <> 0 ->
  rsquare1 (map (aff a b) y) (map (aff a b) p) = rsquare1 y p.
Proof.
  intros Ha HD. assert (Hy : y <> []) by (intros ->; apply HD, sstot_nil).
  unfold rsquare1. rewrite sstot_aff, sqdiff_aff, vsum_map_scal by assumption. numR. field. split; assumption.
Qed.

Lemma rmseR_aff a b (y p : vec) : rmseR (map (aff a b) y) (map (aff a b) p) = Rabs a * rmseR y p.
Proof.
  unfold rmseR. rewrite mse1_aff. rewrite sqrt_mult; [| nra | apply mse1_ge0].
  f_equal. change (a * a) with (Rsqr a). apply sqrt_Rsqr_abs.
Qed.

(* max / min / peak-to-peak *)
Lemma nmax_aff a b x y : 0 < a -> nmax (aff a b x) (aff a b y) = aff a b (nmax x y).
Proof. intros Ha. unfold nmax, aff; numR. destruct (Rlt_dec (a * x + b) (a * y + b)), (Rlt_dec x y); try reflexivity; exfalso; nra. Qed.
Lemma nmin_aff a b x y : 0 < a -> nmin (aff a b x) (aff a b y) = aff a b (nmin x y).
Proof. intros Ha. unfold nmin, aff; numR. destruct (Rlt_dec (a * y + b) (a * x + b)), (Rlt_dec y x); try reflexivity; exfalso; nra. Qed.
Lemma vmax_aff a b (v : vec) : 0 < a -> v <> [] -> vmax (map (aff a b) v) = aff a b (vmax v).
Proof.
  intros Ha Hv. destruct v as [|x v]; [congruence|]. simpl. clear Hv. revert x.
  induction v as [|z v IH]; intros x; simpl; [reflexivity|]. rewrite IH. apply nmax_aff; assumption.
Qed.
Lemma vmin_aff a b (v : vec) : 0 < a -> v <> [] -> vmin (map (aff a b) v) = aff a b (vmin v).
Proof.
  intros Ha Hv. destruct v as [|x v]; [congruence|]. simpl. clear Hv. revert x.
  induction v as [|z v IH]; intros x; simpl; [reflexivity|]. rewrite IH. apply nmin_aff; assumption.
Qed.
Lemma ptp_aff a b (v : vec) : 0 < a -> v <> [] -> ptp (map (aff a b) v) = a * ptp v.
Proof. intros Ha Hv. unfold ptp. rewrite vmax_aff, vmin_aff by assumption. unfold aff; numR; ring. Qed.

(* ---------------------------------------------------------------- R^2 *)
Lemma sqdiff_self (y : vec) : vsum (sqdiff y y) = 0.
Proof. unfold sqdiff. induction y as [|a y IH]; [reflexivity|]. cbn [vzip]. rewrite vsum_cons, IH. unfold sq; numR; ring. Qed.
Lemma rsquare1_perfect (y : vec) : sstot y <> 0 -> rsquare1 y y = 1.
Proof. intros HD. unfold rsquare1. rewrite sqdiff_self. numR. field. assumption. Qed.

Lemma vzip_repeat (f : R -> R -> R) (c : R) : forall y : vec, vzip f y (repeat c (length y)) = map (fun x => f x c) y.
Proof. induction y; simpl; [reflexivity | f_equal; assumption]. Qed.
Lemma rsquare1_mean_predictor (y : vec) : sstot y <> 0 -> rsquare1 y (repeat (mean y) (length y)) = 0.
Proof.
  intros HD. unfold rsquare1. unfold sqdiff. rewrite vzip_repeat.
  replace (map (fun x => sq (nsub x (mean y))) y) with (map sq (center y)) by (unfold center; apply map_map).
  fold (sstot y). numR. field. assumption.
Qed.
Lemma rsquare1_le_1 (y p : vec) : 0 < sstot y -> rsquare1 y p <= 1.
Proof.
  intros HD. unfold rsquare1. numR. assert (0 <= vsum (sqdiff y p)) by apply vsum_ge0, sqdiff_ge0.
  assert (0 <= vsum (sqdiff y p) / sstot y); [|lra]. apply Rmult_le_pos; [assumption|]. apply Rlt_le, Rinv_0_lt_compat; assumption.
Qed.

(* ---------------------------------------------------------------- nrmse under a y + b *)
Lemma nrmse_minmax_aff a b (y p : vec) : 0 < a -> ptp y <> 0 ->
  nrmseR Minmax (map (aff a b) y) (map (aff a b) p) = nrmseR Minmax y p.
Proof.
  intros Ha Hn. assert (Hy : y <> []) by (intros ->; apply Hn; unfold ptp; simpl; numR; ring).
  unfold nrmseR, norm1. rewrite rmseR_aff, ptp_aff, Rabs_right by (assumption || lra). field. split; [assumption|lra].
Qed.
Lemma nrmse_var_aff a b (y p : vec) : 0 < a -> var1 y <> 0 ->
  nrmseR Var (map (aff a b) y) (map (aff a b) p) = nrmseR Var y p / a.
Proof.
  intros Ha Hn. assert (Hy : y <> []) by (intros ->; apply Hn; unfold var1; simpl; apply mean_nil).
  unfold nrmseR, norm1. rewrite rmseR_aff, var1_aff, Rabs_right by (assumption || lra). field. split; [assumption|lra].
Qed.
Lemma nrmse_mean_aff a b (y p : vec) : 0 < a -> y <> [] ->
  nrmseR Mean (map (aff a b) y) (map (aff a b) p) = a * rmseR y p / (a * mean y + b).
Proof.
  intros Ha Hy. unfold nrmseR, norm1. rewrite rmseR_aff, mean_aff, Rabs_right by (assumption || lra). reflexivity.
Qed.

(* ---------------------------------------------------------------- _check_arrays *)
Lemma lnat_eqb_eq : forall a b, lnat_eqb a b = true <-> a = b.
Proof.
  induction a as [|x a IH]; intros [|y b]; simpl; split; intros E; try congruence; try discriminate.
  - apply andb_true_iff in E as [H1 H2]. apply Nat.eqb_eq in H1. apply IH in H2. congruence.
  - inversion E; subst. rewrite Nat.eqb_refl. apply IH. reflexivity.
Qed.
Lemma check_mismatch (y p : arr R) : shape y <> shape p -> check_arrays y p = None.
Proof.
  intros Hs. unfold check_arrays. destruct (lnat_eqb (shape y) (shape p)) eqn:E; [|reflexivity].
  apply lnat_eqb_eq in E; contradiction.
Qed.
Lemma check_match (y p : arr R) : shape y = shape p -> check_arrays y p = Some (y, p).
Proof. intros Hs. unfold check_arrays. replace (lnat_eqb (shape y) (shape p)) with true; [reflexivity|]. symmetry; apply lnat_eqb_eq; assumption. Qed.
Lemma check_iff (y p : arr R) : check_arrays y p = None <-> shape y <> shape p.
Proof.
  split; [|apply check_mismatch]. intros E Hs. rewrite check_match in E by assumption. discriminate.
Qed.

Lemma reduce_mismatch {T} dw (y p : arr R) (f1 : vec -> vec -> T) f0 : shape y <> shape p -> reduce dw y p f1 f0 = None.
Proof. intros Hs. unfold reduce. rewrite check_mismatch by assumption. reflexivity. Qed.

Lemma mismatch_rejected (y p : arr R) : shape y <> shape p -> forall dw,
  mse dw y p = None /\ rmse_sq dw y p = None /\ rsquare dw y p = None /\
  (forall k, nrmse_parts dw k y p = None) /\ (forall nv, nrmse_parts_nv dw nv y p = None).
Proof.
  intros Hs dw. unfold rmse_sq, mse, rsquare, nrmse_parts, nrmse_parts_nv.
  repeat split; intros; rewrite reduce_mismatch by assumption; reflexivity.
Qed.

Lemma global_metrics (y p : arr R) : shape y = shape p ->
  mse false y p = Some (RS (mse1 (flat y) (flat p))) /\
  rsquare false y p = Some (RS (rsquare1 (flat y) (flat p))) /\
  (forall k, nrmse_parts false k y p = Some (inl (mse1 (flat y) (flat p), norm1 k (flat y)))).
Proof.
  intros Hs. unfold mse, rsquare, nrmse_parts, reduce. rewrite check_match by assumption. repeat split.
Qed.
(* a 1-D array with dimensionwise=True: axis 0 is the only axis, the result is the same scalar *)
Lemma dimwise_1d (y p : vec) : length y = length p ->
  mse true (A1 y) (A1 p) = Some (RS (mse1 y p)) /\ rsquare true (A1 y) (A1 p) = Some (RS (rsquare1 y p)).
Proof.
  intros Hl. unfold mse, rsquare, reduce. rewrite check_match by (simpl; congruence). split; reflexivity.
Qed.

(* ---------------------------------------------------------------- axis-0 reductions are column-wise *)
Definition rect (c : nat) (m : mat) : Prop := Forall (fun r => length r = c) m.

Lemma nth_map_seq {A} (f : nat -> A) c j d : (j < c)%nat -> nth j (map f (seq 0 c)) d = f j.
Proof.
  intros Hj. rewrite (nth_indep _ d (f 0%nat)) by (rewrite map_length, seq_length; assumption).
  rewrite map_nth. rewrite seq_nth by assumption. reflexivity.
Qed.
Lemma list_eq_seq (l : vec) c : length l = c -> l = map (fun j => nth j l 0) (seq 0 c).
Proof.
  intros Hl. apply nth_ext with (d:=0) (d':=0).
  - rewrite map_length, seq_length; assumption.
  - intros j Hj. rewrite nth_map_seq by lia. reflexivity.
Qed.
Lemma vzip_map_map {A} (g : R -> R -> R) (f1 f2 : A -> R) (l : list A) :
  vzip g (map f1 l) (map f2 l) = map (fun j => g (f1 j) (f2 j)) l.
Proof. induction l; simpl; [reflexivity | f_equal; assumption]. Qed.
Lemma col_length j (m : mat) : length (col j m) = length m.
Proof. apply map_length. Qed.
Lemma sum0_cons c r (m : mat) : sum0 c (r :: m) = vzip Rplus r (sum0 c m).
Proof. reflexivity. Qed.

Lemma sum0_length c m : rect c m -> length (sum0 c m) = c.
Proof.
  induction 1 as [|r m Hr Hm IH]; [apply repeat_length|].
  rewrite sum0_cons, length_vzip; [assumption | lia].
Qed.
Lemma sum0_nth c m j : rect c m -> (j < c)%nat -> nth j (sum0 c m) 0 = vsum (col j m).
Proof.
  induction 1 as [|r m Hr Hm IH]; intros Hj.
  - unfold sum0; simpl. unfold vzeros. apply nth_repeat.
  - rewrite sum0_cons, nth_vzip by (try rewrite sum0_length; auto; lia). rewrite IH by assumption. reflexivity.
Qed.
Lemma sum0_cols c m : rect c m -> sum0 c m = map (fun j => vsum (col j m)) (seq 0 c).
Proof.
  intros Hm. etransitivity; [apply (list_eq_seq _ c), sum0_length; assumption|].
  apply map_ext_in; intros j Hj. apply in_seq in Hj. apply sum0_nth; [assumption | lia].
Qed.
Lemma mean0_cols c m : rect c m -> mean0 c m = map (fun j => mean (col j m)) (seq 0 c).
Proof.
  intros Hm. unfold mean0. rewrite sum0_cols by assumption. rewrite map_map. apply map_ext; intros j.
  unfold mean. rewrite col_length. reflexivity.
Qed.
Lemma mean0_nth c m j : rect c m -> (j < c)%nat -> nth j (mean0 c m) 0 = mean (col j m).
Proof. intros Hm Hj. rewrite mean0_cols by assumption. exact (nth_map_seq (fun j => mean (col j m)) c j 0 Hj). Qed.
Lemma mean0_length c m : rect c m -> length (mean0 c m) = c.
Proof. intros Hm. unfold mean0. rewrite map_length. apply sum0_length; assumption. Qed.

Lemma msqdiff_rect c : forall y p, rect c y -> rect c p -> rect c (msqdiff y p).
Proof.
  unfold msqdiff. induction y as [|r y IH]; intros [|s p] Hy Hp; cbn [combine map]; try apply Forall_nil.
  inversion Hy; inversion Hp; subst. apply Forall_cons; [|apply IH; assumption].
  cbn [fst snd]. rewrite sqdiff_length; congruence.
Qed.
Lemma msqdiff_col c j : forall y p, rect c y -> rect c p -> (j < c)%nat ->
  col j (msqdiff y p) = sqdiff (col j y) (col j p).
Proof.
  unfold msqdiff, col. induction y as [|r y IH]; intros [|s p] Hy Hp Hj; cbn [combine map]; try reflexivity.
  inversion Hy; inversion Hp; subst. cbn [fst snd].
  change (sqdiff (nth j r n0 :: ?a) (nth j s n0 :: ?b)) with (sq (nth j r 0 - nth j s 0) :: sqdiff a b).
  f_equal; [|apply IH; assumption].
  unfold sqdiff. rewrite nth_vzip by lia. reflexivity.
Qed.
Lemma mse0_cols c y p : rect c y -> rect c p ->
  mse0 c y p = map (fun j => mse1 (col j y) (col j p)) (seq 0 c).
Proof.
  intros Hy Hp. unfold mse0. rewrite mean0_cols by (apply msqdiff_rect; assumption).
  apply map_ext_in; intros j Hj. apply in_seq in Hj. unfold mse1. rewrite (msqdiff_col c) by (auto; lia). reflexivity.
Qed.

Lemma subrow_rect c m mu : rect c m -> length mu = c -> rect c (subrow m mu).
Proof.
  intros Hm Hmu. unfold subrow. induction Hm as [|r m Hr Hm IH]; simpl; [apply Forall_nil|].
  apply Forall_cons; [|assumption]. unfold vsub. rewrite length_vzip; congruence.
Qed.
Lemma subrow_col c j m mu : rect c m -> length mu = c -> (j < c)%nat ->
  col j (subrow m mu) = map (fun x => x - nth j mu 0) (col j m).
Proof.
  intros Hm Hmu Hj. unfold subrow, col. rewrite !map_map. apply map_ext_in; intros r Hr.
  unfold rect in Hm. rewrite Forall_forall in Hm. specialize (Hm r Hr).
  unfold vsub. rewrite nth_vzip by lia. reflexivity.
Qed.
Lemma msq_rect c m : rect c m -> rect c (msq m).
Proof. intros Hm. unfold msq. induction Hm; simpl; [apply Forall_nil|]. apply Forall_cons; [rewrite map_length|]; assumption. Qed.
Lemma msq_col c j m : rect c m -> (j < c)%nat -> col j (msq m) = map sq (col j m).
Proof.
  intros Hm Hj. unfold msq, col. rewrite !map_map. apply map_ext_in; intros r Hr.
  unfold rect in Hm. rewrite Forall_forall in Hm. specialize (Hm r Hr).
  apply nth_map_R. lia.
Qed.
Lemma centered_rect c m : rect c m -> rect c (msq (subrow m (mean0 c m))).
Proof. intros Hm. apply msq_rect, subrow_rect; [assumption | apply mean0_length; assumption]. Qed.
Lemma centered_col c j m : rect c m -> (j < c)%nat ->
  col j (msq (subrow m (mean0 c m))) = map sq (center (col j m)).
Proof.
  intros Hm Hj. rewrite (msq_col c) by (try apply subrow_rect; try apply mean0_length; assumption).
  rewrite (subrow_col c) by (try apply mean0_length; assumption). rewrite mean0_nth by assumption. reflexivity.
Qed.
Lemma rsquare0_cols c y p : rect c y -> rect c p ->
  rsquare0 c y p = map (fun j => rsquare1 (col j y) (col j p)) (seq 0 c).
Proof.
  intros Hy Hp. unfold rsquare0. rewrite !sum0_cols by (try apply msqdiff_rect; try apply centered_rect; assumption).
  rewrite vzip_map_map. apply map_ext_in; intros j Hj. apply in_seq in Hj.
  rewrite (msqdiff_col c), centered_col by (auto; lia). reflexivity.
Qed.
Lemma var0_cols c m : rect c m -> var0 c m = map (fun j => var1 (col j m)) (seq 0 c).
Proof.
  intros Hm. unfold var0. rewrite mean0_cols by (apply centered_rect; assumption).
  apply map_ext_in; intros j Hj. apply in_seq in Hj. rewrite centered_col by (auto; lia). reflexivity.
Qed.

Lemma fold_ext_nth c (g : R -> R -> R) : forall (m : mat) (r : vec) j, length r = c -> rect c m -> (j < c)%nat ->
  length (fold_right (vzip g) r m) = c /\
  nth j (fold_right (vzip g) r m) 0 = fold_right g (nth j r 0) (col j m).
Proof.
  induction m as [|s m IH]; intros r j Hr Hm Hj.
  - split; [assumption | reflexivity].
  - apply Forall_cons_iff in Hm as [Hs Hm].
    destruct (IH r j Hr Hm Hj) as [L N].
    cbn [fold_right col map]. split.
    + rewrite length_vzip; lia.
    + rewrite nth_vzip by lia. rewrite N. reflexivity.
Qed.
Lemma fold_ext_length c (g : R -> R -> R) (m : mat) (r : vec) : length r = c -> rect c m ->
  length (fold_right (vzip g) r m) = c.
Proof.
  intros Hr Hm. induction Hm as [|s m Hs Hm IH]; [assumption|]. cbn [fold_right]. rewrite length_vzip; lia.
Qed.
Lemma fold_ext_cols c (g : R -> R -> R) (m : mat) (r : vec) : length r = c -> rect c m ->
  fold_right (vzip g) r m = map (fun j => fold_right g (nth j r 0) (col j m)) (seq 0 c).
Proof.
  intros Hr Hm. etransitivity; [apply (list_eq_seq _ c); apply fold_ext_length; assumption|].
  apply map_ext_in; intros j Hj. apply in_seq in Hj. apply (fold_ext_nth c); (assumption || lia).
Qed.
Lemma max0_cols c m : m <> [] -> rect c m -> max0 m = map (fun j => vmax (col j m)) (seq 0 c).
Proof.
  intros Hne Hm. destruct m as [|r m]; [congruence|]. apply Forall_cons_iff in Hm as [Hr Hm].
  unfold max0. rewrite (fold_ext_cols c) by assumption. reflexivity.
Qed.
Lemma min0_cols c m : m <> [] -> rect c m -> min0 m = map (fun j => vmin (col j m)) (seq 0 c).
Proof.
  intros Hne Hm. destruct m as [|r m]; [congruence|]. apply Forall_cons_iff in Hm as [Hr Hm].
  unfold min0. rewrite (fold_ext_cols c) by assumption. reflexivity.
Qed.
Lemma ptp0_cols c m : m <> [] -> rect c m -> ptp0 m = map (fun j => ptp (col j m)) (seq 0 c).
Proof.
  intros Hne Hm. unfold ptp0, vsub. rewrite (max0_cols c), (min0_cols c) by assumption. apply vzip_map_map.
Qed.
Lemma norm0_cols k c m : m <> [] -> rect c m -> norm0 k c m = map (fun j => norm1 k (col j m)) (seq 0 c).
Proof.
  intros Hne Hm. destruct k; simpl.
  - apply ptp0_cols; assumption.
  - apply var0_cols; assumption.
  - apply mean0_cols; assumption.
  - unfold q1q3_0, cols. apply map_map.
Qed.
Lemma combine_map_map {A B C} (f : A -> B) (g : A -> C) (l : list A) :
  combine (map f l) (map g l) = map (fun j => (f j, g j)) l.
Proof. induction l; simpl; [reflexivity | f_equal; assumption]. Qed.

(* the dimensionwise switch on a 2-D / 3-D array = the 1-D metric of every feature column of its rows *)
Lemma dimwise_columnwise (y p : arr R) (my mp : mat) (c : nat) :
  shape y = shape p -> rows2 y = Some my -> rows2 p = Some mp -> nfeat y = c ->
  rect c my -> rect c mp -> my <> [] ->
  mse true y p = Some (RV (map (fun j => mse1 (col j my) (col j mp)) (seq 0 c))) /\
  rsquare true y p = Some (RV (map (fun j => rsquare1 (col j my) (col j mp)) (seq 0 c))) /\
  (forall k, nrmse_parts true k y p =
             Some (inr (map (fun j => (mse1 (col j my) (col j mp), norm1 k (col j my))) (seq 0 c)))).
Proof.
  intros Hs Hy Hp Hc Ry Rp Hne. unfold mse, rsquare, nrmse_parts, reduce.
  rewrite check_match, Hy, Hp, Hc by assumption. repeat split; cbn [tores].
  - rewrite mse0_cols by assumption. reflexivity.
  - rewrite rsquare0_cols by assumption. reflexivity.
  - intros k. rewrite mse0_cols, (norm0_cols k c) by assumption. rewrite combine_map_map. reflexivity.
Qed.

(* ---------------------------------------------------------------- effective_spectral_radius: lr W + (1 - lr) I *)
Lemma unitv_length : forall n i, length (unitv (F:=R) n i) = n.
Proof. induction n; intros i; simpl; [reflexivity|]. destruct i; simpl; [unfold vzeros; rewrite repeat_length | rewrite IHn]; reflexivity. Qed.
Lemma unitv_nth : forall n i j, (i < n)%nat -> (j < n)%nat ->
  nth j (unitv (F:=R) n i) 0 = if Nat.eqb i j then 1 else 0.
Proof.
  induction n; intros i j Hi Hj; [lia|]. destruct i, j; simpl; try reflexivity.
  - unfold vzeros. apply nth_repeat.
  - apply IHn; lia.
Qed.
Lemma nth_mscale (c : R) (A : mat) i : nth i (mscale c A) [] = vscale c (nth i A []).
Proof. unfold mscale. exact (map_nth (vscale c) A [] i). Qed.
Lemma eff_matrix_entry (lr : R) (W : mat) n i j : length W = n -> rect n W -> (i < n)%nat -> (j < n)%nat ->
  mget (eff_matrix lr W) i j = lr * mget W i j + (1 - lr) * (if Nat.eqb i j then 1 else 0).
Proof.
  intros HW HR Hi Hj. unfold mget, eff_matrix, madd. rewrite HW.
  assert (Hrow : length (nth i W []) = n).
  { unfold rect in HR. rewrite Forall_forall in HR. apply HR. apply nth_In. lia. }
  change (@nil R) with ((fun p : vec * vec => vadd (fst p) (snd p)) ([], [])) at 1.
  rewrite map_nth. rewrite combine_nth by (unfold mscale, eye; rewrite !map_length, seq_length; assumption).
  cbn [fst snd]. rewrite !nth_mscale.
  unfold eye. rewrite nth_map_seq by assumption.
  unfold vadd, vscale. rewrite nth_vzip by (rewrite !map_length, ?unitv_length; lia).
  rewrite (nth_map_R _ _ _ 0) by lia. rewrite (nth_map_R _ _ _ 0) by (rewrite unitv_length; lia).
  rewrite unitv_nth by assumption. reflexivity.
Qed.

(* ---------------------------------------------------------------- quantiles: a monotone affine map commutes with the sort *)
Lemma nleb_aff a b x y : 0 < a -> nleb (aff a b x) (aff a b y) = nleb x y.
Proof. intros Ha. unfold aff; numR. destruct (Rle_dec (a * x + b) (a * y + b)), (Rle_dec x y); try reflexivity; exfalso; nra. Qed.
Lemma insert_aff a b x (l : vec) : 0 < a -> insert (aff a b x) (map (aff a b) l) = map (aff a b) (insert x l).
Proof.
  intros Ha. induction l as [|y l IH]; [reflexivity|]. cbn [insert map]. rewrite nleb_aff by assumption.
  destruct (nleb x y); cbn [map]; [reflexivity | f_equal; assumption].
Qed.
Lemma isort_aff a b (v : vec) : 0 < a -> isort (map (aff a b) v) = map (aff a b) (isort v).
Proof.
  intros Ha. unfold isort. induction v as [|x v IH]; cbn [map fold_right]; [reflexivity|].
  rewrite IH. apply insert_aff; assumption.
Qed.
Lemma insert_length x (l : vec) : length (insert x l) = S (length l).
Proof. induction l as [|y l IH]; [reflexivity|]. cbn [insert]. destruct (nleb x y); simpl; [reflexivity | rewrite IH; reflexivity]. Qed.
Lemma isort_length (v : vec) : length (isort v) = length v.
Proof. unfold isort. induction v as [|x v IH]; [reflexivity|]. cbn [fold_right]. rewrite insert_length, IH. reflexivity. Qed.

Lemma quantile_aff_gen a b (qa qb : nat) (v : vec) : 0 < a -> (qa <= qb)%nat -> (0 < qb)%nat -> v <> [] ->
  quantile qa qb (map (aff a b) v) = aff a b (quantile qa qb v).
Proof.
  intros Ha Hq Hb Hv. unfold quantile. rewrite isort_aff by assumption. rewrite map_length.
  set (n := length v). assert (Hn : (0 < n)%nat) by (subst n; destruct v; [congruence | simpl; lia]).
  set (lo := (qa * (n - 1) / qb)%nat).
  assert (Hlo : (lo <= n - 1)%nat).
  { apply Nat.div_le_upper_bound; [lia|]. apply Nat.mul_le_mono_r; assumption. }
  numR. rewrite !(nth_map_R _ _ _ 0) by (rewrite isort_length; fold n; lia).
  unfold aff. ring.
Qed.
Lemma quantile_aff a b (v : vec) : 0 < a -> v <> [] ->
  quantile 1 4 (map (aff a b) v) = aff a b (quantile 1 4 v) /\
  quantile 3 4 (map (aff a b) v) = aff a b (quantile 3 4 v).
Proof. intros Ha Hv. split; apply quantile_aff_gen; (assumption || lia). Qed.
Lemma q1q3_aff a b (v : vec) : 0 < a -> v <> [] -> q1q3 (map (aff a b) v) = a * q1q3 v.
Proof. intros Ha Hv. unfold q1q3. destruct (quantile_aff a b v Ha Hv) as [-> ->]. unfold aff; numR; ring. Qed.
Lemma nrmse_q1q3_aff a b (y p : vec) : 0 < a -> q1q3 y <> 0 ->
  nrmseR Q1Q3 (map (aff a b) y) (map (aff a b) p) = nrmseR Q1Q3 y p.
Proof.
  intros Ha Hn. assert (Hy : y <> []) by (intros ->; apply Hn; unfold q1q3, quantile; simpl; numR; ring).
  unfold nrmseR, norm1. rewrite rmseR_aff, q1q3_aff, Rabs_right by (assumption || lra). field. split; [assumption|lra].
Qed.
