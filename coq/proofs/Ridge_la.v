(* C04, part 1: (a) ridge regression at index level (finite sums): gap identity, optimality, uniqueness;
                (b) entries and shapes of the list-level matrix operations of base/LA.v at R. *)
From Coq Require Import Reals Lra Lia Arith List Bool.
From RV Require Import base.Num base.LA base.ListX base.BSum.
Import ListNotations.
Open Scope R_scope.

(* ------------------------------------------------------------------------------------------------ *)
(* (a) index level, one output coordinate: x t i = regressor i at retained step t, y t = target      *)
Section RidgeIdx.
Variables (T n : nat) (x : nat -> nat -> R) (y : nat -> R) (lam : R).
Hypothesis Hlam : 0 < lam.
Definition ipred (w : nat -> R) (t : nat) := bsum n (fun i => x t i * w i).
Definition iJ (w : nat -> R) :=
  bsum T (fun t => (ipred w t - y t) * (ipred w t - y t)) + lam * bsum n (fun i => w i * w i).
(* regularised normal equations, one per coordinate: (X^T X + lam I) w = X^T y *)
Definition inormal (w : nat -> R) :=
  forall i, (i < n)%nat -> bsum T (fun t => x t i * (ipred w t - y t)) + lam * w i = 0.

Lemma ipred_plus w d t : ipred (fun i => w i + d i) t = ipred w t + ipred d t.
Proof. unfold ipred. rewrite <- bsum_plus. apply bsum_ext; intros; ring. Qed.

Theorem ridge_gap w d : inormal w ->
  iJ (fun i => w i + d i) - iJ w = bsum T (fun t => ipred d t * ipred d t) + lam * bsum n (fun i => d i * d i).
Proof.
  intros Hn. unfold iJ.
  assert (Hc : bsum T (fun t => (ipred w t - y t) * ipred d t) = - lam * bsum n (fun i => w i * d i)).
  { unfold ipred at 2.
    transitivity (bsum T (fun t => bsum n (fun i => d i * (x t i * (ipred w t - y t))))).
    { apply bsum_ext; intros t _. rewrite <- bsum_scal. apply bsum_ext; intros; ring. }
    rewrite bsum_swap.
    transitivity (bsum n (fun i => d i * (- lam * w i))).
    { apply bsum_ext; intros i Hi. rewrite bsum_scal. f_equal. specialize (Hn i Hi). lra. }
    rewrite <- bsum_scal. apply bsum_ext; intros; ring. }
  transitivity (bsum T (fun t => (ipred w t - y t) * (ipred w t - y t) + 2 * ((ipred w t - y t) * ipred d t) + ipred d t * ipred d t)
                + lam * bsum n (fun i => w i * w i + 2 * (w i * d i) + d i * d i)
                - (bsum T (fun t => (ipred w t - y t) * (ipred w t - y t)) + lam * bsum n (fun i => w i * w i))).
  { f_equal. f_equal. - apply bsum_ext; intros t _. rewrite ipred_plus. ring. - f_equal. apply bsum_ext; intros; ring. }
  rewrite !bsum_plus, !bsum_scal, Hc. ring.
Qed.

Lemma iJ_ext w w' : (forall i, (i < n)%nat -> w i = w' i) -> iJ w = iJ w'.
Proof.
  intros E. unfold iJ, ipred. f_equal.
  - apply bsum_ext; intros t _.
    assert (bsum n (fun i => x t i * w i) = bsum n (fun i => x t i * w' i)) as -> by (apply bsum_ext; intros; rewrite E; auto).
    reflexivity.
  - f_equal. apply bsum_ext; intros; rewrite E; auto.
Qed.

Lemma ridge_gap' w w' : inormal w ->
  iJ w' - iJ w = bsum T (fun t => ipred (fun i => w' i - w i) t * ipred (fun i => w' i - w i) t)
                 + lam * bsum n (fun i => (w' i - w i) * (w' i - w i)).
Proof.
  intros Hn. rewrite <- (ridge_gap w (fun i => w' i - w i) Hn).
  f_equal. apply iJ_ext. intros; ring.
Qed.

Corollary ridge_optimal w w' : inormal w -> iJ w <= iJ w'.
Proof.
  intros Hn. pose proof (ridge_gap' w w' Hn) as E.
  pose proof (bsum_sq_ge0 T (ipred (fun i => w' i - w i))). pose proof (bsum_sq_ge0 n (fun i => w' i - w i)). nra.
Qed.

Corollary ridge_unique w w' : inormal w -> iJ w' = iJ w -> forall i, (i < n)%nat -> w' i = w i.
Proof.
  intros Hn HJ i Hi. pose proof (ridge_gap' w w' Hn) as E.
  pose proof (bsum_sq_ge0 T (ipred (fun i => w' i - w i))). pose proof (bsum_sq_ge0 n (fun i => w' i - w i)).
  assert (Z : bsum n (fun i => (w' i - w i) * (w' i - w i)) = 0) by nra.
  pose proof (bsum_sq_0 n (fun i => w' i - w i) Z i Hi). cbv beta in *. lra.
Qed.

(* strict form: any other parameter vector has a strictly larger objective *)
Corollary ridge_strict w w' i : inormal w -> (i < n)%nat -> w' i <> w i -> iJ w < iJ w'.
Proof.
  intros Hn Hi Hne. destruct (Rle_lt_or_eq_dec _ _ (ridge_optimal w w' Hn)) as [|E]; [assumption|].
  exfalso. apply Hne. apply (ridge_unique w w' Hn); auto.
Qed.

(* two solutions of the normal equations coincide: X^T X + lam I has a trivial kernel *)
Corollary inormal_unique w w' : inormal w -> inormal w' -> forall i, (i < n)%nat -> w' i = w i.
Proof.
  intros H1 H2. apply ridge_unique; [assumption|].
  pose proof (ridge_optimal w w' H1). pose proof (ridge_optimal w' w H2). lra.
Qed.
End RidgeIdx.

(* ------------------------------------------------------------------------------------------------ *)
(* (b) list-level linear algebra at R                                                               *)
Notation vecR := (list R).
Notation matR := (list (list R)).

Fixpoint lsum {A} (l : list A) (f : A -> R) : R := match l with [] => 0 | a :: l' => f a + lsum l' f end.

Lemma lsum_app {A} (l1 l2 : list A) f : lsum (l1 ++ l2) f = lsum l1 f + lsum l2 f.
Proof. induction l1; simpl; [lra| rewrite IHl1; lra]. Qed.
Lemma lsum_ext {A} (l : list A) f g : (forall a, In a l -> f a = g a) -> lsum l f = lsum l g.
Proof. induction l; intros E; simpl; [reflexivity|]. rewrite E by (left; reflexivity). rewrite IHl; auto. intros; apply E; right; assumption. Qed.
Lemma lsum_bsum {A} (l : list A) f d : lsum l f = bsum (length l) (fun t => f (nth t l d)).
Proof. induction l; [reflexivity|]. cbn [length]. rewrite bsum_shift. simpl. rewrite IHl. reflexivity. Qed.
Lemma lsum_bsum_swap {A} (l : list A) m (g : A -> nat -> R) :
  lsum l (fun a => bsum m (fun k => g a k)) = bsum m (fun k => lsum l (fun a => g a k)).
Proof. induction l; simpl; [rewrite bsum_0; reflexivity|]. rewrite IHl, <- bsum_plus. reflexivity. Qed.
Lemma lsum_combine_map_l {A B C} (g : A -> B) (l : list A) (l' : list C) f :
  lsum (combine (map g l) l') f = lsum (combine l l') (fun p => f (g (fst p), snd p)).
Proof. revert l'; induction l; intros [|c l']; simpl; try reflexivity. rewrite IHl. reflexivity. Qed.
Lemma lsum_combine_diag {A} (l : list A) f : lsum (combine l l) f = lsum l (fun a => f (a, a)).
Proof. induction l; simpl; [reflexivity|]. rewrite IHl. reflexivity. Qed.
Lemma combine_app_eq {A B} (a1 a2 : list A) (b1 b2 : list B) :
  length a1 = length b1 -> combine (a1 ++ a2) (b1 ++ b2) = combine a1 b1 ++ combine a2 b2.
Proof. revert b1; induction a1; intros [|b b1] E; simpl in *; try discriminate; [reflexivity|]. rewrite IHa1; auto. Qed.
Lemma lsum_combine_bsum {A B} (a : list A) (b : list B) f n da db : length a = n -> length b = n ->
  lsum (combine a b) f = bsum n (fun t => f (nth t a da, nth t b db)).
Proof.
  intros Ha Hb. rewrite (lsum_bsum _ _ (da, db)). rewrite combine_length, Ha, Hb, Nat.min_id.
  apply bsum_ext; intros t Ht. rewrite combine_nth by congruence. reflexivity.
Qed.

Lemma nth_map_lt {A B} (f : A -> B) (l : list A) i d d' : (i < length l)%nat -> nth i (map f l) d' = f (nth i l d).
Proof. revert i; induction l; intros [|i] Hi; simpl in *; try lia; auto. apply IHl. lia. Qed.

Definition shape (r c : nat) (A : matR) : Prop := length A = r /\ Forall (fun row => length row = c) A.

Lemma shape_row r c A i : shape r c A -> (i < r)%nat -> length (nth i A []) = c.
Proof. intros [Hl Hf] Hi. rewrite Forall_forall in Hf. apply Hf. apply nth_In. lia. Qed.

Lemma nth_vzeros k j : nth j (vzeros (F:=R) k) 0 = 0.
Proof. revert j; induction k; intros [|j]; simpl; auto. Qed.
Lemma length_vzeros k : length (vzeros (F:=R) k) = k.
Proof. apply repeat_length. Qed.
Lemma length_vscale (c : R) v : length (vscale c v) = length v.
Proof. apply map_length. Qed.
Lemma nth_vscale (c : R) v j : nth j (vscale c v) 0 = c * nth j v 0.
Proof. revert j; induction v; intros [|j]; simpl; numR; try ring. apply IHv. Qed.
Lemma dot_comm (a b : vecR) : dot a b = dot b a.
Proof. revert b; induction a; intros [|y b]; simpl; auto. rewrite IHa. numR. ring. Qed.

(* v @ A  (row vector times matrix) *)
Lemma vm_spec : forall (v : vecR) (A : matR) nc, length v = length A -> Forall (fun r => length r = nc) A ->
  length (vm v A nc) = nc /\
  forall j, (j < nc)%nat -> nth j (vm v A nc) 0 = lsum (combine v A) (fun p => fst p * nth j (snd p) 0).
Proof.
  induction v as [|x v IH]; intros [|r A] nc Hl Hf; simpl in Hl; try discriminate.
  - simpl. split; [apply length_vzeros| intros; apply nth_vzeros].
  - inversion Hf as [|? ? Hr Hf']; subst. destruct (IH A (length r)) as [L N]; [lia|assumption|].
    cbn [vm]. unfold vadd. split.
    + rewrite length_vzip; rewrite length_vscale; [reflexivity| symmetry; exact L].
    + intros j Hj. rewrite nth_vzip; [| rewrite length_vscale; symmetry; exact L | rewrite length_vscale; exact Hj].
      rewrite nth_vscale, N by assumption. simpl. numR. reflexivity.
Qed.

Lemma transpose_spec : forall nc (A : matR), length (transpose A nc) = nc /\
  forall i, (i < nc)%nat -> nth i (transpose A nc) [] = map (fun row => nth i row 0) A.
Proof.
  induction nc as [|k IH]; intros A; [split; [reflexivity| intros; lia]|].
  destruct (IH (map (@tl R) A)) as [L N]. cbn [transpose]. split; [simpl; rewrite L; reflexivity|].
  intros [|i] Hi; cbn [nth].
  - apply map_ext. intros [|a row]; reflexivity.
  - rewrite N by lia. rewrite map_map. apply map_ext. intros [|a row]; simpl; [destruct i; reflexivity| reflexivity].
Qed.
Lemma transpose_rows_len : forall nc (A : matR), Forall (fun r => length r = length A) (transpose A nc).
Proof.
  induction nc as [|k IH]; intros A; cbn [transpose]; constructor.
  - apply map_length.
  - specialize (IH (map (@tl R) A)). rewrite map_length in IH. exact IH.
Qed.
Lemma shape_transpose r c (A : matR) : length A = r -> shape c r (transpose A c).
Proof. intros E. split; [apply transpose_spec|]. rewrite <- E. apply transpose_rows_len. Qed.
Lemma mget_transpose (A : matR) nc i k : (i < nc)%nat -> (k < length A)%nat -> mget (transpose A nc) i k = mget A k i.
Proof.
  intros Hi Hk. unfold mget. destruct (transpose_spec nc A) as [_ N]. rewrite N by assumption.
  numR. rewrite (nth_map_lt _ _ _ []) by assumption. reflexivity.
Qed.

(* (A^T B)[i][j] = sum over rows t of A[t][i] * B[t][j] *)
Lemma mget_mm_transpose (A B : matR) na nb i j :
  length A = length B -> Forall (fun r => length r = nb) B -> (i < na)%nat -> (j < nb)%nat ->
  mget (mm (transpose A na) B nb) i j = lsum (combine A B) (fun p => nth i (fst p) 0 * nth j (snd p) 0).
Proof.
  intros Hl Hf Hi Hj. unfold mget, mm. destruct (transpose_spec na A) as [L N].
  rewrite (nth_map_lt _ _ _ []) by lia. rewrite N by assumption.
  destruct (vm_spec (map (fun row => nth i row 0) A) B nb) as [_ V]; [rewrite map_length; exact Hl| exact Hf|].
  numR. rewrite V by assumption. rewrite lsum_combine_map_l. reflexivity.
Qed.
Lemma shape_mm_transpose (A B : matR) na nb :
  length A = length B -> Forall (fun r => length r = nb) B -> shape na nb (mm (transpose A na) B nb).
Proof.
  intros Hl Hf. unfold mm. split; [rewrite map_length; apply transpose_spec|].
  apply Forall_map. pose proof (transpose_rows_len na A) as HT. rewrite Forall_forall in *. intros r Hr.
  apply vm_spec; [rewrite (HT r Hr); exact Hl| rewrite Forall_forall; exact Hf].
Qed.

(* A W  (general product), entries as index sums *)
Lemma mget_mm (A W : matR) n m i k : shape n m W -> length (nth i A []) = n -> (i < length A)%nat -> (k < m)%nat ->
  mget (mm A W m) i k = bsum n (fun j => mget A i j * mget W j k).
Proof.
  intros [HW1 HW2] Hr Hi Hk. unfold mget, mm. rewrite (nth_map_lt _ _ _ []) by assumption.
  destruct (vm_spec (nth i A []) W m) as [_ V]; [congruence| exact HW2|]. numR. rewrite V by assumption.
  rewrite (lsum_combine_bsum _ _ _ n 0 []) by assumption. reflexivity.
Qed.
Lemma shape_mm (A W : matR) r n m : shape r n A -> shape n m W -> shape r m (mm A W m).
Proof.
  intros [HA1 HA2] [HW1 HW2]. unfold mm. split; [rewrite map_length; exact HA1|]. apply Forall_map.
  rewrite Forall_forall in *. intros row Hrow. apply vm_spec; [rewrite (HA2 row Hrow); congruence| rewrite Forall_forall; exact HW2].
Qed.

Lemma mget_madd (A B : matR) r c i j : shape r c A -> shape r c B -> (i < r)%nat -> (j < c)%nat ->
  mget (madd A B) i j = mget A i j + mget B i j.
Proof.
  intros HA HB Hi Hj. unfold mget, madd. pose proof (shape_row _ _ _ i HA Hi) as RA. pose proof (shape_row _ _ _ i HB Hi) as RB.
  destruct HA as [LA _], HB as [LB _].
  rewrite (nth_map_lt _ _ _ ([], [])) by (rewrite combine_length; lia).
  rewrite combine_nth by congruence. cbn [fst snd]. unfold vadd. numR. rewrite nth_vzip by congruence. reflexivity.
Qed.
Lemma shape_madd (A B : matR) r c : shape r c A -> shape r c B -> shape r c (madd A B).
Proof.
  intros [LA FA] [LB FB]. unfold madd. split; [rewrite map_length, combine_length; lia|].
  rewrite Forall_forall in *. intros row Hrow. apply in_map_iff in Hrow as [[a b] [E Hin]]. subst row. cbn [fst snd].
  unfold vadd. rewrite length_vzip; [apply FA; eapply in_combine_l; eauto|].
  rewrite (FA a), (FB b); [reflexivity| eapply in_combine_r; eauto| eapply in_combine_l; eauto].
Qed.
Lemma mget_mscale (c : R) (A : matR) i j : (i < length A)%nat -> mget (mscale c A) i j = c * mget A i j.
Proof. intros Hi. unfold mget, mscale. rewrite (nth_map_lt _ _ _ []) by assumption. numR. apply nth_vscale. Qed.
Lemma shape_mscale (c : R) A r k : shape r k A -> shape r k (mscale c A).
Proof.
  intros [L Fa]. unfold mscale. split; [rewrite map_length; exact L|]. apply Forall_map.
  rewrite Forall_forall in *. intros row Hrow. rewrite length_vscale. auto.
Qed.
Lemma mget_mzeros r c i j : (i < r)%nat -> mget (mzeros (F:=R) r c) i j = 0.
Proof. intros Hi. unfold mget, mzeros. rewrite nth_repeat_any by assumption. numR. apply nth_vzeros. Qed.
Lemma shape_mzeros r c : shape r c (mzeros r c).
Proof. unfold mzeros. split; [apply repeat_length|]. rewrite Forall_forall. intros x Hx. apply repeat_spec in Hx. subst. apply length_vzeros. Qed.

Lemma length_unitv : forall n i, length (unitv (F:=R) n i) = n.
Proof. induction n; intros [|i]; simpl; auto. rewrite length_vzeros. reflexivity. Qed.
Lemma nth_unitv : forall n i j, (i < n)%nat -> nth j (unitv (F:=R) n i) 0 = if Nat.eqb j i then 1 else 0.
Proof.
  induction n; intros i j Hi; [lia|]. destruct i as [|i]; destruct j as [|j]; simpl; numR; try reflexivity.
  - apply nth_vzeros.
  - apply IHn. lia.
Qed.
Lemma mget_eye n i j : (i < n)%nat -> mget (eye (F:=R) n) i j = if Nat.eqb j i then 1 else 0.
Proof.
  intros Hi. unfold mget, eye. rewrite (nth_map_lt _ _ _ O) by (rewrite seq_length; assumption).
  rewrite seq_nth by assumption. numR. apply nth_unitv. assumption.
Qed.
Lemma shape_eye n : shape n n (eye n).
Proof. unfold eye. split; [rewrite map_length, seq_length; reflexivity|]. apply Forall_map. rewrite Forall_forall. intros; apply length_unitv. Qed.
