(* C11: lemmas about model/TrainSem.v (frame properties of every operation, lifted to histories; session isolation). *)
From Coq Require Import List Arith Bool Lia.
From RV Require Import model.TrainSem.
Import ListNotations.

Section Proofs.
Context {P L St Row A : Type}.
Variable acc0 : P -> A.
Variable acc_step : P -> A -> list Row -> option (list Row) -> A.
Variable bk_buf : P -> A -> option L.
Variable bk_def : P -> list (list Row) -> list (list Row) -> option L.
Variable train_fn : P -> L -> St -> list Row -> option (list Row) -> L * St.
Variable fwd : P -> L -> St -> list Row -> St.
#[local] Set Default Proof Using "acc0 acc_step bk_buf bk_def train_fn fwd".
Notation node := (node P L St Row A).
Notation store := (list node).
Notation op := (op Row).
Notation D := (list Row * option (list Row))%type.
Notation step := (step acc0 acc_step bk_buf bk_def train_fn fwd).
Notation run_ops := (run_ops acc0 acc_step bk_buf bk_def train_fn fwd).
Notation fit := (fit acc0 acc_step bk_buf bk_def).
Notation never_targeted := (never_targeted acc0 acc_step bk_buf bk_def train_fn fwd).

(* ================================================================== helpers *)
Notation init_buffers := (init_buffers acc0).
Notation partial_backward := (partial_backward acc_step).
Notation pstep := (pstep acc_step).
Notation pf_loop := (pf_loop acc_step).
Notation partial_fit := (partial_fit acc0 acc_step).
Notation backward := (backward bk_buf bk_def).
Notation finish := (finish bk_buf bk_def).
Notation train := (train train_fn).
Notation run := (run fwd).
Notation run_all := (run_all fwd).
Notation mseq := (mseq acc0 acc_step).
Notation mloop := (mloop acc0 acc_step).
Notation mfinish := (mfinish acc0 acc_step bk_buf bk_def).
Notation model_fit := (model_fit acc0 acc_step bk_buf bk_def fwd).
Notation mtrain1 := (mtrain1 train_fn).
Notation model_train := (model_train train_fn fwd).

(* ---------------- pointwise relations between a node and its successor ---------------- *)
Definition pr (n n' : node) : Prop :=
  n_kind n' = n_kind n /\ n_fixed n' = n_fixed n /\ n_trainable n' = n_trainable n /\ (alias_wf n -> alias_wf n').
Definition prl (n n' : node) : Prop := pr n n' /\ n_learned n' = n_learned n.
Definition pr0 (n n' : node) : Prop :=
  n_kind n' = n_kind n /\ n_fixed n' = n_fixed n /\ (n_trainable n = false -> n_trainable n' = false) /\
  (alias_wf n -> alias_wf n').
Definition pr0l (n n' : node) : Prop := pr0 n n' /\ n_learned n' = n_learned n.

Ltac split4 := split; [|split; [|split]].
Ltac split3 := split; [|split].
Ltac prs := unfold prl, pr0l, pr, pr0, alias_wf; simpl; repeat split; auto; intros; try discriminate; try congruence.

Lemma pr_refl n : pr n n.
Proof. unfold pr; split4; auto. Qed.
Lemma pr_trans a b d : pr a b -> pr b d -> pr a d.
Proof. intros (K1&F1&T1&A1) (K2&F2&T2&A2). split4; try congruence; auto. Qed.
Lemma prl_refl n : prl n n.
Proof. split; [apply pr_refl | reflexivity]. Qed.
Lemma prl_trans a b d : prl a b -> prl b d -> prl a d.
Proof. intros (H1&L1) (H2&L2). split; [eapply pr_trans; eauto | congruence]. Qed.
Lemma prl_pr a b : prl a b -> pr a b.
Proof. intros [H _]; exact H. Qed.
Lemma pr0_refl n : pr0 n n.
Proof. unfold pr0; split4; auto. Qed.
Lemma pr0_trans a b d : pr0 a b -> pr0 b d -> pr0 a d.
Proof. intros (K1&F1&T1&A1) (K2&F2&T2&A2). split4; try congruence; auto. Qed.
Lemma pr_pr0 a b : pr a b -> pr0 a b.
Proof. intros (K1&F1&T1&A1). split4; auto. intros; congruence. Qed.

Lemma pr_offline a b : pr a b -> is_trained_offline b = is_trained_offline a.
Proof. intros (K&_&T&_). unfold is_trained_offline. rewrite K, T. reflexivity. Qed.
Lemma pr_online a b : pr a b -> is_trained_online b = is_trained_online a.
Proof. intros (K&_&T&_). unfold is_trained_online. rewrite K, T. reflexivity. Qed.

Lemma set_fitted_prl b n : prl n (set_fitted b n).
Proof. prs. Qed.
Lemma set_learned_pr l n : pr n (set_learned l n).
Proof. prs. Qed.
Lemma clean_buffers_prl n : prl n (clean_buffers n).
Proof. prs. Qed.
Lemma init_buffers_prl n : prl n (init_buffers n).
Proof.
  unfold TrainSem.init_buffers. destruct (n_kind n) eqn:K; try apply prl_refl.
  destruct (n_buffers n) eqn:Bf; try apply prl_refl. prs.
Qed.
Lemma partial_backward_prl n x y : prl n (partial_backward n x y).
Proof.
  unfold TrainSem.partial_backward.
  destruct (n_kind n) eqn:K; try (destruct (n_aliased n) eqn:Al); prs.
Qed.
Lemma pstep_prl w n d n' : pstep w n d = Some n' -> prl n n'.
Proof.
  unfold TrainSem.pstep. destruct (length (fst d) <=? w); intros H; inversion H; subst.
  apply partial_backward_prl.
Qed.
Lemma pf_loop_prl w seqs : forall n n' ok, pf_loop w n seqs = (n', ok) -> prl n n'.
Proof.
  induction seqs as [|d r IH]; simpl; intros n n' ok H.
  - inversion H; subst; apply prl_refl.
  - destruct (pstep w n d) as [n1|] eqn:E.
    + eapply prl_trans; [eapply pstep_prl; eauto | eapply IH; eauto].
    + inversion H; subst; apply prl_refl.
Qed.
Lemma partial_fit_prl w n seqs n' o : partial_fit w n seqs = (n', o) -> prl n n'.
Proof.
  unfold TrainSem.partial_fit. destruct (is_trained_offline n).
  - destruct (pf_loop w (init_buffers n) seqs) as [n1 ok] eqn:E. intros H; inversion H; subst.
    eapply prl_trans; [apply init_buffers_prl | eapply pf_loop_prl; eauto].
  - intros H; inversion H; subst; apply prl_refl.
Qed.
Lemma finish_pr c n n' o : finish c n = (n', o) -> pr n n' /\ (o <> Done -> n_learned n' = n_learned n).
Proof.
  unfold TrainSem.finish. destruct (backward n) as [l|]; intros H; inversion H; subst.
  - split; [prs | intros; congruence].
  - destruct (cl_bk c); prs.
Qed.
Lemma fit_pr c w n seqs n' o :
  fit c w n seqs = (n', o) ->
  pr n n' /\ (is_trained_offline n = false -> n' = n) /\ (o <> Done -> n_learned n' = n_learned n).
Proof.
  unfold TrainSem.fit. destruct (is_trained_offline n) eqn:T.
  - assert (H0 : prl n (set_fitted false n)) by apply set_fitted_prl.
    destruct seqs as [sq|].
    + destruct (pf_loop w (init_buffers (set_fitted false n)) sq) as [n1 ok] eqn:E.
      apply pf_loop_prl in E.
      assert (H1 : prl n n1).
      { eapply prl_trans; [exact H0|]. eapply prl_trans; [apply init_buffers_prl | exact E]. }
      destruct ok.
      * intros H; apply finish_pr in H. destruct H as [H2 H3]. split; [|split].
        -- eapply pr_trans; [apply prl_pr; exact H1 | exact H2].
        -- intros; discriminate.
        -- intros Ho. rewrite (H3 Ho). apply H1.
      * intros H; inversion H; subst. 
        assert (H2 : prl n (if cl_pf_node c then clean_buffers n1 else n1)).
        { destruct (cl_pf_node c); [eapply prl_trans; [exact H1 | apply clean_buffers_prl] | exact H1]. }
        split; [apply H2 | split; [intros; discriminate | intros; apply H2]].
    + intros H; apply finish_pr in H. destruct H as [H2 H3]. split; [|split].
      * eapply pr_trans; [apply prl_pr; exact H0 | exact H2].
      * intros; discriminate.
      * intros Ho. rewrite (H3 Ho). apply H0.
  - intros H; inversion H; subst. split; [apply pr_refl | split; auto].
Qed.
Lemma train_pr n d n' o : train n d = (n', o) -> pr n n' /\ (is_trained_online n = false -> n' = n).
Proof.
  unfold TrainSem.train. destruct (is_trained_online n).
  - destruct (train_fn _ _ _ _ _) as [l s]. intros H; inversion H; subst. split; [prs | intros; discriminate].
  - intros H; inversion H; subst. split; [apply pr_refl | auto].
Qed.
Lemma run_sbs (n : node) x : same_but_state n (run n x).
Proof. unfold same_but_state; simpl. repeat split; reflexivity. Qed.
Lemma run_prl n x : prl n (run n x).
Proof. prs. Qed.
Lemma set_trainable_pr0l v n : pr0l n (set_trainable v n).
Proof.
  unfold set_trainable, is_trained_offline, is_trained_online.
  destruct (n_trainable n) eqn:T; simpl.
  - destruct (has_offline (n_kind n) || has_online (n_kind n)); prs.
  - prs.
Qed.

(* ---------------- stores ---------------- *)
Lemma upd_length i f (st : store) : length (upd i f st) = length st.
Proof. revert i; induction st as [|a st IH]; intros i; destruct i; simpl; auto. Qed.
Lemma nth_upd_eq i f (st : store) : nth_error (upd i f st) i = option_map f (nth_error st i).
Proof. revert i; induction st as [|a st IH]; intros i; destruct i; simpl; auto. Qed.
Lemma nth_upd_neq i j f (st : store) : j <> i -> nth_error (upd i f st) j = nth_error st j.
Proof.
  revert i j; induction st as [|a st IH]; intros i j H; destruct i, j; simpl; auto; try congruence.
Qed.

Definition srel (R : node -> node -> Prop) (st st' : store) : Prop :=
  length st' = length st /\
  forall i n, nth_error st i = Some n -> exists n', nth_error st' i = Some n' /\ R n n'.

Section Srel.
Variable R : node -> node -> Prop.
Let R_refl_t := forall n, R n n.
Let R_trans_t := forall a b d, R a b -> R b d -> R a d.

Lemma srel_refl (R_refl : R_refl_t) st : srel R st st.
Proof. split; eauto. Qed.
Lemma srel_trans (R_trans : R_trans_t) a b d : srel R a b -> srel R b d -> srel R a d.
Proof.
  intros [L1 H1] [L2 H2]. split; [congruence|]. intros i n Hn.
  destruct (H1 i n Hn) as (n1&E1&R1). destruct (H2 i n1 E1) as (n2&E2&R2). eauto.
Qed.
Lemma srel_upd (R_refl : R_refl_t) i f st : (forall n, nth_error st i = Some n -> R n (f n)) -> srel R st (upd i f st).
Proof.
  intros Hf. split; [apply upd_length|]. intros j n Hj. destruct (Nat.eq_dec j i) as [->|Hne].
  - rewrite nth_upd_eq, Hj. simpl. eauto.
  - rewrite nth_upd_neq by exact Hne. eauto.
Qed.
Lemma srel_put (R_refl : R_refl_t) i n' st : (forall n, nth_error st i = Some n -> R n n') -> srel R st (put i n' st).
Proof. intros H. unfold put. apply srel_upd; [exact R_refl | exact H]. Qed.
Lemma upd_all_srel (R_refl : R_refl_t) (R_trans : R_trans_t) f : (forall n, R n (f n)) -> forall l st, srel R st (upd_all l f st).
Proof.
  intros Hf. unfold upd_all. induction l as [|a l IH]; simpl; intros st.
  - apply srel_refl; exact R_refl.
  - eapply srel_trans; [exact R_trans | | apply IH]. apply srel_upd; [exact R_refl|]. intros; apply Hf.
Qed.
Lemma run_all_srel (R_refl : R_refl_t) (R_trans : R_trans_t) : (forall n x, R n (run n x)) -> forall xs st, srel R st (run_all xs st).
Proof.
  intros Hf. unfold TrainSem.run_all. induction xs as [|a l IH]; simpl; intros st.
  - apply srel_refl; exact R_refl.
  - eapply srel_trans; [exact R_trans | | apply IH]. apply srel_upd; [exact R_refl|]. intros; apply Hf.
Qed.
Lemma on_node_srel (R_refl : R_refl_t) i f st : (forall n n' o, f n = (n', o) -> R n n') -> srel R st (fst (on_node i f st)).
Proof.
  intros Hf. unfold on_node. destruct (nth_error st i) as [n|] eqn:E.
  - destruct (f n) as [n' o] eqn:Ef. simpl. apply srel_put; [exact R_refl|]. intros n0 H0. rewrite E in H0. inversion H0; subst. eapply Hf; eauto.
  - simpl. apply srel_refl; exact R_refl.
Qed.
End Srel.

Lemma srel_mono (R R' : node -> node -> Prop) st st' : (forall a b, R a b -> R' a b) -> srel R st st' -> srel R' st st'.
Proof.
  intros HR [HL H]. split; [exact HL|]. intros i n Hn. destruct (H i n Hn) as (n'&E&Hr). eauto.
Qed.
Lemma srel_get (R : node -> node -> Prop) st st' i n n' : srel R st st' -> nth_error st i = Some n -> nth_error st' i = Some n' -> R n n'.
Proof. intros [_ H] Hn Hn'. destruct (H i n Hn) as (m&E&Hr). congruence. Qed.
Lemma srel_inv (R : node -> node -> Prop) st st' i m : srel R st st' -> nth_error st' i = Some m -> exists n, nth_error st i = Some n /\ R n m.
Proof.
  intros [HL H] Hm. destruct (nth_error st i) as [n|] eqn:E.
  - destruct (H i n E) as (n'&E'&Hr). exists n. split; [reflexivity | congruence].
  - apply nth_error_None in E. rewrite <- HL in E. apply nth_error_None in E. congruence.
Qed.
Lemma srel_Forall (R : node -> node -> Prop) (Q : node -> Prop) st st' :
  (forall n n', R n n' -> Q n -> Q n') -> srel R st st' -> Forall Q st -> Forall Q st'.
Proof.
  intros HQ Hs HF. rewrite Forall_forall in *. intros x Hin. apply In_nth_error in Hin. destruct Hin as [i Hi].
  destruct (srel_inv _ _ _ _ _ Hs Hi) as (n&Hn&Hr). eapply HQ; [exact Hr|]. apply HF. eapply nth_error_In; eauto.
Qed.

Lemma on_node_nth i f (st : store) j :
  nth_error (fst (on_node i f st)) j =
  if j =? i then option_map (fun n => fst (f n)) (nth_error st j) else nth_error st j.
Proof.
  unfold on_node. destruct (j =? i) eqn:Eji.
  - apply Nat.eqb_eq in Eji; subst j. destruct (nth_error st i) as [n|] eqn:E.
    + simpl. destruct (f n) as [n' o]. simpl. unfold put. rewrite nth_upd_eq, E. reflexivity.
    + simpl. exact E.
  - apply Nat.eqb_neq in Eji. destruct (nth_error st i) as [n|] eqn:E.
    + destruct (f n) as [n' o]. simpl. unfold put. apply nth_upd_neq. exact Eji.
    + reflexivity.
Qed.

Ltac srefl := apply srel_refl; first [exact prl_refl | exact pr_refl | exact pr0_refl].
Ltac strans := eapply srel_trans; [first [exact prl_trans | exact pr_trans | exact pr0_trans] | | ].

(* ---------------- the loops of Model.fit / Model.train ---------------- *)
Lemma mseq_srel w ds : forall st st' ok, mseq w st ds = (st', ok) -> srel prl st st'.
Proof.
  induction ds as [|[i d] r IH]; simpl; intros st st' ok H.
  - inversion H; subst. srefl.
  - destruct (nth_error st i) as [n|] eqn:E; [|eapply IH; eauto].
    destruct (is_trained_offline n); [|eapply IH; eauto].
    destruct (pstep w (init_buffers n) d) as [n1|] eqn:Ep.
    + strans; [|eapply IH; eauto]. apply srel_put; [exact prl_refl|].
      intros n0 H0. rewrite E in H0. inversion H0; subst.
      eapply prl_trans; [apply init_buffers_prl | eapply pstep_prl; eauto].
    + inversion H; subst. srefl.
Qed.
Lemma mloop_srel w seqs : forall st st' ok, mloop w st seqs = (st', ok) -> srel prl st st'.
Proof.
  induction seqs as [|s r IH]; simpl; intros st st' ok H.
  - inversion H; subst. srefl.
  - destruct (mseq w st s) as [st1 ok1] eqn:E. apply mseq_srel in E. destruct ok1.
    + strans; [exact E | eapply IH; eauto].
    + inversion H; subst. exact E.
Qed.
Lemma mfinish_srel c l : forall st st' ok, mfinish c st l = (st', ok) -> srel pr st st'.
Proof.
  induction l as [|a l IH]; simpl; intros st st' ok H.
  - inversion H; subst. srefl.
  - destruct (nth_error st a) as [n|] eqn:E; [|eapply IH; eauto].
    destruct (fit c 0 n None) as [n' o] eqn:Ef.
    assert (Hp : srel pr st (put a n' st)).
    { apply srel_put; [exact pr_refl|]. intros n0 H0. rewrite E in H0. inversion H0; subst.
      destruct (fit_pr _ _ _ _ _ _ Ef) as [Hpr _]. exact Hpr. }
    destruct o; try (inversion H; subst; exact Hp).
    strans; [exact Hp | eapply IH; eauto].
Qed.
Lemma mfinish_unch c l i : ~ In i l -> forall (st st' : store) ok, mfinish c st l = (st', ok) -> nth_error st' i = nth_error st i.
Proof.
  induction l as [|a l IH]; simpl; intros Hni st st' ok H.
  - inversion H; subst. reflexivity.
  - assert (Hai : i <> a) by (intro; subst; apply Hni; left; reflexivity).
    assert (Hl : ~ In i l) by (intro; apply Hni; right; assumption).
    destruct (nth_error st a) as [n|] eqn:E; [|eapply IH; eauto].
    destruct (fit c 0 n None) as [n' o] eqn:Ef.
    destruct o; try (inversion H; subst; unfold put; apply nth_upd_neq; exact Hai).
    rewrite (IH Hl _ _ _ H). unfold put; apply nth_upd_neq; exact Hai.
Qed.

Lemma mtrain1_srel st p : srel pr st (mtrain1 st p).
Proof.
  unfold TrainSem.mtrain1. destruct (nth_error st (fst p)) as [n|] eqn:E; [|srefl].
  destruct (is_trained_online n); [|srefl].
  destruct (train n (snd p)) as [n' o] eqn:Et. simpl. apply srel_put; [exact pr_refl|].
  intros n0 H0. rewrite E in H0. inversion H0; subst. destruct (train_pr _ _ _ _ Et) as [Hpr _]. exact Hpr.
Qed.
Lemma mtrain1_keep (st : store) p i n :
  nth_error st i = Some n -> (i <> fst p \/ is_trained_online n = false) -> nth_error (mtrain1 st p) i = Some n.
Proof.
  intros Hn Hor. unfold TrainSem.mtrain1. destruct (nth_error st (fst p)) as [m|] eqn:E; [|exact Hn].
  destruct (is_trained_online m) eqn:Em; [|exact Hn].
  unfold put. rewrite nth_upd_neq; [exact Hn|]. intro; subst i.
  destruct Hor as [Hne|Ho]; [congruence|]. rewrite E in Hn. inversion Hn; subst. congruence.
Qed.
Lemma mtrain_fold_srel ds : forall st, srel pr st (fold_left mtrain1 ds st).
Proof.
  induction ds as [|p r IH]; simpl; intros st; [srefl|]. strans; [apply mtrain1_srel | apply IH].
Qed.
Lemma mtrain_fold_keep ds : forall (st : store) i n,
  nth_error st i = Some n -> (existsb (fun p : nat * D => i =? fst p) ds = false \/ is_trained_online n = false) ->
  nth_error (fold_left mtrain1 ds st) i = Some n.
Proof.
  induction ds as [|p r IH]; simpl; intros st i n Hn Hor; [exact Hn|].
  apply IH.
  - apply mtrain1_keep; [exact Hn|]. destruct Hor as [H|H]; [|right; exact H].
    apply orb_false_iff in H. destruct H as [H _]. left. apply Nat.eqb_neq. exact H.
  - destruct Hor as [H|H]; [|right; exact H]. apply orb_false_iff in H. destruct H as [_ H]. left; exact H.
Qed.

Definition mf_body (c : cfg) (offl ms : list nat) (w : nat) (runs : list (nat * list Row))
           (seqs : list (list (nat * D))) (st : store) : store * outcome :=
  let st1 := run_all runs (upd_all ms init_buffers st) in
  let '(st2, ok) := mloop w st1 seqs in
  if ok then
    let '(st3, ok3) := mfinish c st2 offl in
    if ok3 then (st3, Done)
    else (if cl_bk c then upd_all offl clean_buffers st3 else st3, FailedBackward)
  else (if cl_pf_model c then upd_all offl clean_buffers st2 else st2, FailedPartial).

Lemma model_fit_cases c ms w runs seqs st :
  (filter (offline_at st) ms = [] /\ model_fit c ms w runs seqs st = (st, Rejected)) \/
  (filter (offline_at st) ms <> [] /\
   model_fit c ms w runs seqs st = mf_body c (filter (offline_at st) ms) ms w runs seqs st).
Proof.
  unfold TrainSem.model_fit, mf_body. destruct (filter (offline_at st) ms) eqn:E.
  - left; split; reflexivity.
  - right; split; [discriminate | reflexivity].
Qed.

Lemma maybe_clean_srel (b : bool) l (s : store) : srel prl s (if b then upd_all l clean_buffers s else s).
Proof.
  destruct b; [|srefl]. apply upd_all_srel; [exact prl_refl | exact prl_trans | exact clean_buffers_prl].
Qed.

Lemma init_run_srel ms runs st : srel prl st (run_all runs (upd_all ms init_buffers st)).
Proof.
  strans.
  - apply upd_all_srel; [exact prl_refl | exact prl_trans | exact init_buffers_prl].
  - apply run_all_srel; [exact prl_refl | exact prl_trans | exact run_prl].
Qed.

Lemma mf_body_frame c offl ms w runs seqs st :
  srel pr st (fst (mf_body c offl ms w runs seqs st)) /\
  forall i n n', ~ In i offl -> nth_error st i = Some n ->
                 nth_error (fst (mf_body c offl ms w runs seqs st)) i = Some n' -> n_learned n' = n_learned n.
Proof.
  unfold mf_body; cbv zeta.
  pose proof (init_run_srel ms runs st) as H1.
  destruct (mloop w (run_all runs (upd_all ms init_buffers st)) seqs) as [st2 ok] eqn:E2.
  apply mloop_srel in E2.
  assert (H2 : srel prl st st2) by (strans; [exact H1 | exact E2]).
  destruct ok.
  - destruct (mfinish c st2 offl) as [st3 ok3] eqn:E3.
    pose proof (mfinish_srel _ _ _ _ _ E3) as H3.
    assert (H4 : srel pr st st3).
    { strans; [|exact H3]. eapply srel_mono; [exact prl_pr | exact H2]. }
    assert (HL : forall i n n3, ~ In i offl -> nth_error st i = Some n -> nth_error st3 i = Some n3 ->
                                n_learned n3 = n_learned n).
    { intros i n n3 Hni Hn Hn3. rewrite (mfinish_unch _ _ _ Hni _ _ _ E3) in Hn3.
      exact (proj2 (srel_get _ _ _ _ _ _ H2 Hn Hn3)). }
    destruct ok3; simpl.
    + split; [exact H4 | exact HL].
    + pose proof (maybe_clean_srel (cl_bk c) offl st3) as Hc. split.
      * strans; [exact H4|]. eapply srel_mono; [exact prl_pr | exact Hc].
      * intros i n n' Hni Hn Hn'. destruct (srel_inv _ _ _ _ _ Hc Hn') as (n3&Hn3&Hr).
        rewrite (proj2 Hr). eapply HL; eauto.
  - simpl. pose proof (maybe_clean_srel (cl_pf_model c) offl st2) as Hc.
    assert (H5 : srel prl st (if cl_pf_model c then upd_all offl clean_buffers st2 else st2))
      by (strans; [exact H2 | exact Hc]).
    split.
    + eapply srel_mono; [exact prl_pr | exact H5].
    + intros i n n' Hni Hn Hn'. exact (proj2 (srel_get _ _ _ _ _ _ H5 Hn Hn')).
Qed.

Lemma model_fit_frame c ms w runs seqs st :
  srel pr st (fst (model_fit c ms w runs seqs st)) /\
  forall i n n', nth_error st i = Some n -> nth_error (fst (model_fit c ms w runs seqs st)) i = Some n' ->
                 targets st (OMFit ms w runs seqs) i = false -> n_learned n' = n_learned n.
Proof.
  destruct (model_fit_cases c ms w runs seqs st) as [[E Hm]|[E Hm]]; rewrite Hm.
  - simpl. split; [srefl | intros; congruence].
  - destruct (mf_body_frame c (filter (offline_at st) ms) ms w runs seqs st) as [Ha Hb].
    split; [exact Ha|]. intros i n n' Hn Hn' Ht. eapply Hb; eauto.
    intro Hin. apply filter_In in Hin. destruct Hin as [Hin Hoff]. simpl in Ht. rewrite Hoff, andb_true_r in Ht.
    assert (Hex : existsb (Nat.eqb i) ms = true).
    { apply existsb_exists. exists i. split; [exact Hin | apply Nat.eqb_refl]. }
    congruence.
Qed.

Lemma model_train_frame ms runs ds st :
  srel pr st (fst (model_train ms runs ds st)) /\
  forall i n n', nth_error st i = Some n -> nth_error (fst (model_train ms runs ds st)) i = Some n' ->
                 targets st (OMTrain ms runs ds) i = false -> n_learned n' = n_learned n.
Proof.
  unfold TrainSem.model_train.
  destruct (existsb _ ms); simpl.
  - split; [srefl | intros; congruence].
  - assert (H1 : srel prl st (run_all runs st))
      by (apply run_all_srel; [exact prl_refl | exact prl_trans | exact run_prl]).
    split.
    + strans; [eapply srel_mono; [exact prl_pr | exact H1] | apply mtrain_fold_srel].
    + intros i n n' Hn Hn' Ht. rewrite Hn in Ht.
      destruct (proj2 H1 i n Hn) as (n1&E1&Hr).
      rewrite (mtrain_fold_keep ds _ i n1 E1) in Hn'.
      * inversion Hn'; subst. exact (proj2 Hr).
      * rewrite (pr_online _ _ (proj1 Hr)). apply andb_false_iff in Ht. exact Ht.
Qed.

(* ---------------- one step ---------------- *)
Definition not_freeze (o : op) : Prop := match o with OFreeze _ _ => False | _ => True end.

Lemma step_pr c st o : not_freeze o -> srel pr st (fst (step c st o)).
Proof.
  destruct o; simpl; intros Hnf.
  - eapply srel_mono; [exact prl_pr|]. apply run_all_srel; [exact prl_refl | exact prl_trans | exact run_prl].
  - apply on_node_srel; [exact pr_refl|]. intros n n' o H. apply prl_pr. eapply partial_fit_prl; eauto.
  - apply on_node_srel; [exact pr_refl|]. intros n n' o H. destruct (fit_pr _ _ _ _ _ _ H) as [Hp _]. exact Hp.
  - apply on_node_srel; [exact pr_refl|]. intros n n' o H. destruct (train_pr _ _ _ _ H) as [Hp _]. exact Hp.
  - contradiction.
  - apply model_fit_frame.
  - apply model_train_frame.
Qed.

Lemma step_pr0 c st o : srel pr0 st (fst (step c st o)).
Proof.
  destruct o; try (apply srel_mono with (R := pr); [exact pr_pr0 | apply step_pr; exact I]).
  simpl. apply srel_upd; [exact pr0_refl|]. intros n _. apply set_trainable_pr0l.
Qed.

Lemma step_learned c st o i n n' :
  nth_error st i = Some n -> nth_error (fst (step c st o)) i = Some n' -> targets st o i = false ->
  n_learned n' = n_learned n.
Proof.
  destruct o as [xs|j w seqs|j w seqs|j d|j v|ms w runs seqs|ms runs ds]; simpl; intros Hn Hn' Ht.
  - assert (H1 : srel prl st (run_all xs st))
      by (apply run_all_srel; [exact prl_refl | exact prl_trans | exact run_prl]).
    exact (proj2 (srel_get _ _ _ _ _ _ H1 Hn Hn')).
  - assert (H1 : srel prl st (fst (on_node j (fun n => partial_fit w n seqs) st))).
    { apply on_node_srel; [exact prl_refl|]. intros m m' o H. eapply partial_fit_prl; eauto. }
    exact (proj2 (srel_get _ _ _ _ _ _ H1 Hn Hn')).
  - rewrite on_node_nth in Hn'. destruct (i =? j) eqn:Eij.
    + rewrite Hn in Hn'. simpl in Hn'. inversion Hn'; subst n'. simpl in Ht.
      unfold offline_at in Ht. rewrite Hn in Ht.
      destruct (fit c w n seqs) as [m o] eqn:Ef. destruct (fit_pr _ _ _ _ _ _ Ef) as (_&H&_).
      simpl. rewrite (H Ht). reflexivity.
    + congruence.
  - rewrite on_node_nth in Hn'. destruct (i =? j) eqn:Eij.
    + rewrite Hn in Hn'. simpl in Hn'. inversion Hn'; subst n'. simpl in Ht. rewrite Hn in Ht.
      destruct (train n d) as [m o] eqn:Ef. destruct (train_pr _ _ _ _ Ef) as (_&H).
      simpl. rewrite (H Ht). reflexivity.
    + congruence.
  - assert (H1 : srel pr0l st (upd j (set_trainable v) st)).
    { apply srel_upd; [intros m; split; [apply pr0_refl | reflexivity]|]. intros m _. apply set_trainable_pr0l. }
    exact (proj2 (srel_get _ _ _ _ _ _ H1 Hn Hn')).
  - eapply (proj2 (model_fit_frame c ms w runs seqs st)); eauto.
  - eapply (proj2 (model_train_frame ms runs ds st)); eauto.
Qed.

Lemma run_ops_cons c st o ops : run_ops c st (o :: ops) = run_ops c (fst (step c st o)) ops.
Proof. reflexivity. Qed.
Lemma run_ops_snoc c st h o : run_ops c st (h ++ [o]) = fst (step c (run_ops c st h) o).
Proof. unfold TrainSem.run_ops. rewrite fold_left_app. reflexivity. Qed.
Lemma run_ops_pr0 c ops : forall st, srel pr0 st (run_ops c st ops).
Proof.
  induction ops as [|o r IH]; intros st.
  - simpl. srefl.
  - rewrite run_ops_cons. strans; [apply step_pr0 | apply IH].
Qed.

Lemma offline_at_inv (st : store) i :
  offline_at st i = true -> exists n, nth_error st i = Some n /\ is_trained_offline n = true.
Proof. unfold offline_at. destruct (nth_error st i) as [n|]; [eauto | discriminate]. Qed.
Lemma offline_trainable (n : node) : is_trained_offline n = true -> n_trainable n = true.
Proof. unfold is_trained_offline. intros H. apply andb_true_iff in H. apply H. Qed.
Lemma online_trainable (n : node) : is_trained_online n = true -> n_trainable n = true.
Proof. unfold is_trained_online. intros H. apply andb_true_iff in H. apply H. Qed.

Lemma sbs_refl (n : node) : same_but_state n n.
Proof. unfold same_but_state. repeat split; reflexivity. Qed.
Lemma sbs_trans (a b d : node) : same_but_state a b -> same_but_state b d -> same_but_state a d.
Proof.
  unfold same_but_state. intros (?&?&?&?&?&?&?&?&?) (?&?&?&?&?&?&?&?&?). repeat split; congruence.
Qed.

(* ================================================================== the statements *)

(* ---------------- T1: inference is pure ---------------- *)
Lemma inference_pure (c : cfg) (st : store) (xs : list (nat * list Row)) :
  let st' := fst (step c st (ORun xs)) in
  length st' = length st /\
  forall i n, nth_error st i = Some n -> exists n', nth_error st' i = Some n' /\ same_but_state n n'.
Proof.
  simpl. exact (run_all_srel same_but_state sbs_refl sbs_trans run_sbs xs st).
Qed.

(* ---------------- T2: what a single operation may touch ---------------- *)
Lemma step_frame (c : cfg) (st : store) (o : op) :
  let st' := fst (step c st o) in
  length st' = length st /\
  forall i n, nth_error st i = Some n ->
    exists n', nth_error st' i = Some n' /\ n_kind n' = n_kind n /\ n_fixed n' = n_fixed n /\
               (targets st o i = false -> n_learned n' = n_learned n).
Proof.
  intros st'. subst st'. destruct (step_pr0 c st o) as [HL H]. split; [exact HL|].
  intros i n Hn. destruct (H i n Hn) as (n'&E&K&F&_). exists n'. split4; auto.
  intros Ht. eapply step_learned; eauto.
Qed.

(* a target is a trainable node with the learning rule the operation uses *)
Lemma targets_trainable (st : store) (o : op) (i : nat) :
  targets st o i = true ->
  exists n, nth_error st i = Some n /\ n_trainable n = true /\
            (is_trained_offline n = true \/ is_trained_online n = true).
Proof.
  destruct o as [xs|j w seqs|j w seqs|j d|j v|ms w runs seqs|ms runs ds]; simpl; try discriminate; intros H;
    apply andb_true_iff in H; destruct H as [_ H].
  - apply offline_at_inv in H. destruct H as (n&Hn&Ho). exists n. split3; auto. apply offline_trainable; exact Ho.
  - destruct (nth_error st i) as [n|]; [|discriminate]. exists n. split3; auto. apply online_trainable; exact H.
  - apply offline_at_inv in H. destruct H as (n&Hn&Ho). exists n. split3; auto. apply offline_trainable; exact Ho.
  - destruct (nth_error st i) as [n|]; [|discriminate]. exists n. split3; auto. apply online_trainable; exact H.
Qed.

(* ... lifted to every history *)
Lemma fixed_forever (c : cfg) (ops : list op) (st : store) :
  let st' := run_ops c st ops in
  length st' = length st /\
  forall i n, nth_error st i = Some n ->
    exists n', nth_error st' i = Some n' /\ n_kind n' = n_kind n /\ n_fixed n' = n_fixed n.
Proof.
  intros st'. subst st'. destruct (run_ops_pr0 c ops st) as [HL H]. split; [exact HL|].
  intros i n Hn. destruct (H i n Hn) as (n'&E&K&F&_). exists n'. auto.
Qed.

Lemma untargeted_learned_forever (c : cfg) (ops : list op) (st : store) (i : nat) (n : node) :
  nth_error st i = Some n -> never_targeted c st ops i ->
  exists n', nth_error (run_ops c st ops) i = Some n' /\ n_learned n' = n_learned n.
Proof.
  revert st n. induction ops as [|o r IH]; intros st n Hn Hnt.
  - exists n. split; [exact Hn | reflexivity].
  - simpl in Hnt. destruct Hnt as [Ht Hr]. rewrite run_ops_cons.
    destruct (step_pr0 c st o) as [_ H]. destruct (H i n Hn) as (n1&E1&_).
    assert (L1 : n_learned n1 = n_learned n) by (eapply step_learned; eauto).
    destruct (IH _ _ E1 Hr) as (n'&E'&L'). exists n'. split; [exact E' | congruence].
Qed.

(* a node that is not trainable (a reservoir; a frozen readout) keeps all its parameters and stays untrainable,
   whatever is done to it or to the models that contain it *)
Lemma frozen_forever (c : cfg) (ops : list op) (st : store) (i : nat) (n : node) :
  nth_error st i = Some n -> n_trainable n = false ->
  exists n', nth_error (run_ops c st ops) i = Some n' /\
             n_kind n' = n_kind n /\ n_fixed n' = n_fixed n /\ n_learned n' = n_learned n /\ n_trainable n' = false.
Proof.
  revert st n. induction ops as [|o r IH]; intros st n Hn Htr.
  - exists n. auto.
  - rewrite run_ops_cons.
    destruct (step_pr0 c st o) as [_ H]. destruct (H i n Hn) as (n1&E1&K1&F1&T1&_).
    assert (L1 : n_learned n1 = n_learned n).
    { eapply step_learned; eauto. destruct (targets st o i) eqn:Et; [|reflexivity].
      apply targets_trainable in Et. destruct Et as (m&Em&Tm&_). congruence. }
    destruct (IH _ _ E1 (T1 Htr)) as (n'&E'&K'&F'&L'&T'). exists n'.
    split; [exact E'|]. split4; congruence.
Qed.

(* the alias flag is a faithful representation: flag set => one list under both names, along every history *)
Lemma alias_wf_forever (c : cfg) (ops : list op) (st : store) :
  Forall alias_wf st -> Forall alias_wf (run_ops c st ops).
Proof.
  apply srel_Forall with (R := pr0); [|apply run_ops_pr0]. intros n n' (_&_&_&H). exact H.
Qed.

(* ---------------- T3: sessions ---------------- *)
Definition cl (n : node) : Prop := session_clean n /\ n_aliased n = true.
Lemma clean_buffers_cl n : cl (clean_buffers n).
Proof. unfold cl, session_clean; simpl; auto. Qed.

Lemma fit_completed_clean (c : cfg) (w : nat) (n n' : node) (seqs : option (list D)) :
  fit c w n seqs = (n', Done) -> session_clean n' /\ n_aliased n' = true /\ n_fitted n' = true.
Proof.
  unfold TrainSem.fit. destruct (is_trained_offline n); [|discriminate].
  assert (Hfin : forall m, finish c m = (n', Done) ->
                           session_clean n' /\ n_aliased n' = true /\ n_fitted n' = true).
  { intros m. unfold TrainSem.finish. destruct (backward m); intros H; inversion H; subst.
    unfold session_clean; simpl; auto. }
  destruct seqs as [sq|]; [|apply Hfin].
  destruct (pf_loop w (init_buffers (set_fitted false n)) sq) as [n1 ok]. destruct ok; [apply Hfin | discriminate].
Qed.

Lemma fit_failed_clean_HEAD (w : nat) (n n' : node) (seqs : option (list D)) (o : outcome) :
  fit HEAD w n seqs = (n', o) -> o = FailedPartial \/ o = FailedBackward ->
  session_clean n' /\ n_aliased n' = true /\ n_learned n' = n_learned n.
Proof.
  intros H Ho.
  assert (HL : n_learned n' = n_learned n).
  { destruct (fit_pr _ _ _ _ _ _ H) as (_&_&HL). apply HL. destruct Ho; subst; discriminate. }
  assert (HC : cl n').
  { unfold TrainSem.fit in H. destruct (is_trained_offline n); [|inversion H; subst; destruct Ho; discriminate].
    assert (Hfin : forall m, finish HEAD m = (n', o) -> cl n').
    { intros m. unfold TrainSem.finish. destruct (backward m); intros H'; inversion H'; subst; simpl;
        apply clean_buffers_cl. }
    destruct seqs as [sq|]; [|apply Hfin with (1 := H)].
    destruct (pf_loop w (init_buffers (set_fitted false n)) sq) as [n1 ok]. destruct ok.
    - apply Hfin with (1 := H).
    - inversion H; subst; simpl. apply clean_buffers_cl. }
  destruct HC as [a b]. split3; auto.
Qed.

(* two nodes that a training session cannot tell apart *)
Definition sess_eq (n1 n2 : node) : Prop :=
  n_kind n1 = n_kind n2 /\ n_fixed n1 = n_fixed n2 /\ n_buffers n1 = n_buffers n2 /\ n_X n1 = n_X n2 /\
  n_Y n1 = n_Y n2 /\ (n_kind n1 <> KBuf -> n_aliased n1 = n_aliased n2).

Ltac sess_start n1 n2 :=
  destruct n1 as [k1 p1 l1 s1 t1 f1 b1 x1 y1 a1], n2 as [k2 p2 l2 s2 t2 f2 b2 x2 y2 a2];
  unfold sess_eq; simpl; intros (->&->&->&->&->&Al).

Lemma sess_set_fitted b n1 n2 : sess_eq n1 n2 -> sess_eq (set_fitted b n1) (set_fitted b n2).
Proof. unfold sess_eq; simpl; auto. Qed.
Lemma sess_init n1 n2 : sess_eq n1 n2 -> sess_eq (init_buffers n1) (init_buffers n2).
Proof.
  sess_start n1 n2. unfold TrainSem.init_buffers; simpl. destruct k2; try destruct b2; simpl; repeat split; auto.
Qed.
Lemma sess_pb x y n1 n2 : sess_eq n1 n2 -> sess_eq (partial_backward n1 x y) (partial_backward n2 x y).
Proof.
  sess_start n1 n2. unfold TrainSem.partial_backward; simpl.
  destruct k2; try (assert (E : a1 = a2) by (apply Al; discriminate); subst a1; destruct a2);
    simpl; repeat split; auto.
Qed.
Lemma sess_pstep w d n1 n2 :
  sess_eq n1 n2 ->
  match pstep w n1 d, pstep w n2 d with
  | Some a, Some b => sess_eq a b
  | None, None => True
  | _, _ => False
  end.
Proof. intros H. unfold TrainSem.pstep. destruct (length (fst d) <=? w); auto. apply sess_pb; exact H. Qed.
Lemma sess_pf_loop w seqs : forall n1 n2, sess_eq n1 n2 ->
  snd (pf_loop w n1 seqs) = snd (pf_loop w n2 seqs) /\ sess_eq (fst (pf_loop w n1 seqs)) (fst (pf_loop w n2 seqs)).
Proof.
  induction seqs as [|d r IH]; simpl; intros n1 n2 H.
  - split; auto.
  - pose proof (sess_pstep w d _ _ H) as Hp.
    destruct (pstep w n1 d), (pstep w n2 d); try contradiction.
    + apply IH; exact Hp.
    + simpl; auto.
Qed.
Lemma sess_backward n1 n2 : sess_eq n1 n2 -> backward n1 = backward n2.
Proof. sess_start n1 n2. unfold TrainSem.backward; simpl. reflexivity. Qed.
Lemma sess_finish c n1 n2 :
  sess_eq n1 n2 ->
  snd (finish c n1) = snd (finish c n2) /\
  (snd (finish c n1) = Done -> n_learned (fst (finish c n1)) = n_learned (fst (finish c n2))).
Proof.
  intros H. unfold TrainSem.finish. rewrite (sess_backward _ _ H).
  destruct (backward n2); simpl; split; auto; discriminate.
Qed.

(* a fit that starts without session data is a function of the data it is given (and of the fixed side of the node) *)
Lemma fit_function_of_data (c : cfg) (w : nat) (n1 n2 : node) (seqs : option (list D)) :
  n_kind n1 = n_kind n2 -> n_fixed n1 = n_fixed n2 -> n_trainable n1 = n_trainable n2 ->
  session_clean n1 -> session_clean n2 -> (n_kind n1 = KDef -> n_aliased n1 = n_aliased n2) ->
  snd (fit c w n1 seqs) = snd (fit c w n2 seqs) /\
  (snd (fit c w n1 seqs) = Done -> n_learned (fst (fit c w n1 seqs)) = n_learned (fst (fit c w n2 seqs))).
Proof.
  intros K F T C1 C2 Al. unfold TrainSem.fit.
  assert (E : is_trained_offline n2 = is_trained_offline n1)
    by (unfold is_trained_offline; rewrite K, T; reflexivity).
  rewrite E. destruct (is_trained_offline n1) eqn:T1; [|simpl; split; [reflexivity | discriminate]].
  assert (S0 : sess_eq n1 n2).
  { destruct C1 as (b1&x1&y1), C2 as (b2&x2&y2). unfold sess_eq. repeat split; try congruence.
    intros Hk. apply Al. unfold is_trained_offline in T1. apply andb_true_iff in T1. destruct T1 as [_ T1].
    revert T1 Hk. destruct (n_kind n1); simpl; intros; try discriminate; [contradiction Hk; reflexivity | reflexivity]. }
  pose proof (sess_set_fitted false _ _ S0) as S1.
  destruct seqs as [sq|].
  - pose proof (sess_pf_loop w sq _ _ (sess_init _ _ S1)) as [Hs Hq].
    destruct (pf_loop w (init_buffers (set_fitted false n1)) sq) as [m1 ok1].
    destruct (pf_loop w (init_buffers (set_fitted false n2)) sq) as [m2 ok2].
    simpl in Hs, Hq. subst ok2. destruct ok1.
    + apply sess_finish; exact Hq.
    + simpl. split; [reflexivity | discriminate].
  - apply sess_finish; exact S1.
Qed.

Definition clean_at (st : store) (i : nat) : Prop := exists n, nth_error st i = Some n /\ cl n.

Lemma upd_all_cons a l f (st : store) : upd_all (a :: l) f st = upd_all l f (upd a f st).
Proof. reflexivity. Qed.
Lemma upd_clean_pres j st i : clean_at st i -> clean_at (upd j clean_buffers st) i.
Proof.
  intros (n&Hn&Hc). destruct (Nat.eq_dec i j) as [->|Hne].
  - exists (clean_buffers n). rewrite nth_upd_eq, Hn. split; [reflexivity | apply clean_buffers_cl].
  - exists n. rewrite nth_upd_neq by exact Hne. auto.
Qed.
Lemma upd_all_clean_pres l : forall st i, clean_at st i -> clean_at (upd_all l clean_buffers st) i.
Proof.
  induction l as [|a l IH]; intros st i H; [exact H|]. rewrite upd_all_cons. apply IH. apply upd_clean_pres. exact H.
Qed.
Lemma upd_all_clean l : forall st i, In i l -> i < length st -> clean_at (upd_all l clean_buffers st) i.
Proof.
  induction l as [|a l IH]; intros st i Hin Hlt; [contradiction|]. rewrite upd_all_cons.
  destruct (Nat.eq_dec a i) as [->|Hne].
  - apply upd_all_clean_pres. destruct (nth_error st i) as [n|] eqn:E; [|apply nth_error_None in E; lia].
    exists (clean_buffers n). rewrite nth_upd_eq, E. split; [reflexivity | apply clean_buffers_cl].
  - apply IH; [destruct Hin; [contradiction | assumption] | rewrite upd_length; exact Hlt].
Qed.

Lemma mfinish_pres_clean c l : forall st st' i, clean_at st i -> mfinish c st l = (st', true) -> clean_at st' i.
Proof.
  induction l as [|a l IH]; simpl; intros st st' i Hc H.
  - inversion H; subst. exact Hc.
  - destruct (nth_error st a) as [n|] eqn:E; [|eapply IH; eauto].
    destruct (fit c 0 n None) as [n' o] eqn:Ef. destruct o; try discriminate H.
    eapply IH; [|exact H]. destruct Hc as (m&Hm&Hcm). destruct (Nat.eq_dec i a) as [->|Hne].
    + exists n'. unfold put; rewrite nth_upd_eq, E. split; [reflexivity|].
      destruct (fit_completed_clean _ _ _ _ _ Ef) as (a1&a2&_). split; assumption.
    + exists m. unfold put; rewrite nth_upd_neq by exact Hne. auto.
Qed.
Lemma mfinish_done c l : forall st st' i, mfinish c st l = (st', true) -> In i l -> i < length st -> clean_at st' i.
Proof.
  induction l as [|a l IH]; simpl; intros st st' i H Hin Hlt; [contradiction|].
  destruct (nth_error st a) as [n|] eqn:E.
  - destruct (fit c 0 n None) as [n' o] eqn:Ef. destruct o; try discriminate H.
    destruct (Nat.eq_dec a i) as [->|Hne].
    + eapply mfinish_pres_clean; [|exact H]. exists n'. unfold put; rewrite nth_upd_eq, E. split; [reflexivity|].
      destruct (fit_completed_clean _ _ _ _ _ Ef) as (a1&a2&_). split; assumption.
    + eapply IH; [exact H | destruct Hin; [contradiction | assumption] | unfold put; rewrite upd_length; exact Hlt].
  - destruct (Nat.eq_dec a i) as [->|Hne]; [apply nth_error_None in E; lia|].
    eapply IH; [exact H | destruct Hin; [contradiction | assumption] | exact Hlt].
Qed.

(* after Model.fit (HEAD), whatever its outcome except Rejected, every offline-trainable member is clean *)
Lemma model_fit_clean_HEAD (ms : list nat) (w : nat) (runs : list (nat * list Row)) (seqs : list (list (nat * D)))
      (st st' : store) (o : outcome) (i : nat) :
  step HEAD st (OMFit ms w runs seqs) = (st', o) -> o <> Rejected -> In i ms -> offline_at st i = true ->
  exists n', nth_error st' i = Some n' /\ session_clean n' /\ n_aliased n' = true.
Proof.
  simpl. intros H Ho Hin Hoff. change (clean_at st' i).
  destruct (model_fit_cases HEAD ms w runs seqs st) as [[E Hm]|[E Hm]]; rewrite Hm in H.
  { inversion H; subst. congruence. }
  assert (Hio : In i (filter (offline_at st) ms)) by (apply filter_In; auto).
  assert (Hlt : i < length st).
  { apply offline_at_inv in Hoff. destruct Hoff as (n&Hn&_). apply nth_error_Some. congruence. }
  remember (filter (offline_at st) ms) as offl eqn:Heq. clear Heq E Hm.
  unfold mf_body in H; cbv zeta in H.
  pose proof (init_run_srel ms runs st) as H1.
  destruct (mloop w (run_all runs (upd_all ms init_buffers st)) seqs) as [st2 ok] eqn:E2.
  apply mloop_srel in E2.
  assert (L2 : length st2 = length st) by (rewrite (proj1 E2), (proj1 H1); reflexivity).
  destruct ok.
  - destruct (mfinish HEAD st2 offl) as [st3 ok3] eqn:E3. destruct ok3.
    + inversion H; subst. eapply mfinish_done; eauto. lia.
    + simpl in H. inversion H; subst. apply upd_all_clean; auto.
      rewrite (proj1 (mfinish_srel _ _ _ _ _ E3)). lia.
  - simpl in H. inversion H; subst. apply upd_all_clean; auto. lia.
Qed.

Lemma after_fit_clean (st : store) (h : list op) (o : op) (i : nat) (m : node) :
  fit_on i o -> nth_error (run_ops HEAD st (h ++ [o])) i = Some m -> is_trained_offline m = true ->
  snd (step HEAD (run_ops HEAD st h) o) <> Rejected -> cl m.
Proof.
  rewrite run_ops_snoc. set (s := run_ops HEAD st h). intros Hf Hm Hoff Hrej.
  destruct o as [xs|j w seqs|j w seqs|j d|j v|ms w runs seqs|ms runs ds]; simpl in Hf; try contradiction.
  - subst j. simpl in Hm, Hrej. unfold on_node in Hm, Hrej.
    destruct (nth_error s i) as [n|] eqn:E; [|simpl in Hrej; congruence].
    destruct (fit HEAD w n seqs) as [n' oc] eqn:Ef. simpl in Hm, Hrej.
    unfold put in Hm; rewrite nth_upd_eq, E in Hm; simpl in Hm. inversion Hm; subst n'.
    destruct oc.
    + destruct (fit_completed_clean _ _ _ _ _ Ef) as (a&b&_). split; assumption.
    + congruence.
    + destruct (fit_failed_clean_HEAD _ _ _ _ _ Ef (or_introl eq_refl)) as (a&b&_). split; assumption.
    + destruct (fit_failed_clean_HEAD _ _ _ _ _ Ef (or_intror eq_refl)) as (a&b&_). split; assumption.
  - pose proof (step_pr HEAD s (OMFit ms w runs seqs) I) as Hpr.
    destruct (step HEAD s (OMFit ms w runs seqs)) as [s' oc] eqn:Es. simpl in Hm, Hrej, Hpr.
    destruct (srel_inv _ _ _ _ _ Hpr Hm) as (n&Hn&Hr).
    assert (Hoffs : offline_at s i = true).
    { unfold offline_at. rewrite Hn. rewrite <- (pr_offline _ _ Hr). exact Hoff. }
    destruct (model_fit_clean_HEAD _ _ _ _ _ _ _ _ Es Hrej Hf Hoffs) as (n'&Hn'&Hc).
    rewrite Hm in Hn'. inversion Hn'; subst n'. exact Hc.
Qed.

(* Session isolation over histories (HEAD): take ANY two histories, from any two stores, whose last operation is an offline
   fit -- Node.fit on node i or Model.fit of a model containing it -- completed or failed.  If node i has the same class and
   fixed side in both and is (still) trainable with an offline rule, then the next Node.fit of node i on the same data
   ends the same way in both, and when it completes it computes the same learned parameters. *)
Lemma session_isolated (st1 st2 : store) (h1 h2 : list op) (o1 o2 : op) (i : nat) (m1 m2 : node)
      (w : nat) (seqs : option (list D)) :
  fit_on i o1 -> fit_on i o2 ->
  nth_error (run_ops HEAD st1 (h1 ++ [o1])) i = Some m1 -> nth_error (run_ops HEAD st2 (h2 ++ [o2])) i = Some m2 ->
  n_kind m1 = n_kind m2 -> n_fixed m1 = n_fixed m2 -> is_trained_offline m1 = true -> is_trained_offline m2 = true ->
  snd (step HEAD (run_ops HEAD st1 h1) o1) <> Rejected -> snd (step HEAD (run_ops HEAD st2 h2) o2) <> Rejected ->
  snd (fit HEAD w m1 seqs) = snd (fit HEAD w m2 seqs) /\
  (snd (fit HEAD w m1 seqs) = Done -> n_learned (fst (fit HEAD w m1 seqs)) = n_learned (fst (fit HEAD w m2 seqs))).
Proof.
  intros F1 F2 M1 M2 K F O1 O2 R1 R2.
  destruct (after_fit_clean _ _ _ _ _ F1 M1 O1 R1) as [C1 A1].
  destruct (after_fit_clean _ _ _ _ _ F2 M2 O2 R2) as [C2 A2].
  apply fit_function_of_data; auto.
  - rewrite (offline_trainable _ O1), (offline_trainable _ O2). reflexivity.
  - intros _. congruence.
Qed.

(* re-fitting a buffer node (Ridge) after a completed or failed fit = fitting a fresh node *)
Lemma refit_buf_equals_fresh (st : store) (h : list op) (o : op) (i : nat) (m : node) (l0 : L) (s0 : St)
      (w : nat) (seqs : option (list D)) :
  fit_on i o -> nth_error (run_ops HEAD st (h ++ [o])) i = Some m -> n_kind m = KBuf -> n_trainable m = true ->
  snd (step HEAD (run_ops HEAD st h) o) <> Rejected ->
  let f := fresh KBuf (n_fixed m) l0 s0 in
  snd (fit HEAD w m seqs) = snd (fit HEAD w f seqs) /\
  (snd (fit HEAD w m seqs) = Done -> n_learned (fst (fit HEAD w m seqs)) = n_learned (fst (fit HEAD w f seqs))).
Proof.
  intros Hf Hm K T Hrej f.
  assert (O : is_trained_offline m = true) by (unfold is_trained_offline; rewrite K, T; reflexivity).
  destruct (after_fit_clean _ _ _ _ _ Hf Hm O Hrej) as [C Al].
  subst f. apply fit_function_of_data; simpl; auto.
  - unfold session_clean; simpl; auto.
  - intros; congruence.
Qed.

(* a default-buffer node whose two lists are NOT aliased re-fits like a fresh node *)
Lemma refit_default_unaliased (c : cfg) (n : node) (l0 : L) (s0 : St) (w : nat) (seqs : option (list D)) :
  n_kind n = KDef -> n_trainable n = true -> session_clean n -> n_aliased n = false ->
  let f := fresh KDef (n_fixed n) l0 s0 in
  snd (fit c w n seqs) = snd (fit c w f seqs) /\
  (snd (fit c w n seqs) = Done -> n_learned (fst (fit c w n seqs)) = n_learned (fst (fit c w f seqs))).
Proof.
  intros K T C Al f. subst f. apply fit_function_of_data; simpl; auto.
  unfold session_clean; simpl; auto.
Qed.

End Proofs.
