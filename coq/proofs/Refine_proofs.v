(* Refinement: the low-level model of proxy / clamp management (model/ProxySem.v) implements the tidy model
   (model/ModelSem.v), for every Num instance and every family of node forward functions.
   R1: [at_rest] (no proxy, no clamp anywhere) is re-established by every public operation, failing ones included.
   R2: from an at-rest state run_op_ll / call_op_ll / reset_op_ll compute what ModelSem.run_op / reset_op compute.
   R3: the one-step feedback delay, chunking and stateless preservation restated for the low-level model. *)
From Coq Require Import List Arith Bool Lia.
From RV Require Import base.Num base.LA model.ModelSem model.ProxySem proofs.ModelSem_proofs.
Import ListNotations.

Section Refine.
Context {F : Type} `{Num F}.
Notation vec := (list F).
Notation env := (@env F).
Notation lenv := (@lenv F).
Notation lnode := (@lnode F).
Notation ndesc := (@ndesc F).
Notation model := (@model F).

(* ------------------------------------------------------------------ basic facts *)
Lemma lupd_same (e : lenv) n x : lupd e n x n = x.
Proof. unfold lupd. rewrite Nat.eqb_refl. reflexivity. Qed.
Lemma lupd_other (e : lenv) n x k : k <> n -> lupd e n x k = e k.
Proof. intros Hn. unfold lupd. destruct (Nat.eqb_spec k n); [contradiction|reflexivity]. Qed.

Lemma lnode_eq (a b : lnode) :
  lst a = lst b -> lhid a = lhid b -> proxy a = proxy b -> clamp a = clamp b -> a = b.
Proof. destruct a, b; cbn; intros -> -> -> ->; reflexivity. Qed.

(* the invariant of the public interface: between operations no node holds a proxy and no receiver is clamped *)
Definition at_rest (e : lenv) : Prop := forall n, proxy (e n) = None /\ clamp (e n) = None.
(* the abstraction relation: same states and hidden memories *)
Definition R (el : lenv) (e : env) : Prop := forall n, lst (el n) = st (e n) /\ lhid (el n) = hid (e n).

Lemma R_abs (el : lenv) : R el (abs el).
Proof. intros n. split; reflexivity. Qed.
Lemma R_abs_eq (el : lenv) (e : env) : R el e -> forall n, abs el n = e n.
Proof. intros HR n. destruct (HR n) as [Hs Hh]. apply nstate_eq; cbn; assumption. Qed.
Lemma inject_at_rest (e : env) : at_rest (inject e).
Proof. intros n. split; reflexivity. Qed.
Lemma inject_R (e : env) : R (inject e) e.
Proof. intros n. split; reflexivity. Qed.
Lemma R_fields (el el' : lenv) (e : env) :
  R el e -> (forall n, lst (el' n) = lst (el n) /\ lhid (el' n) = lhid (el n)) -> R el' e.
Proof. intros HR Hf n. destruct (HR n), (Hf n). split; congruence. Qed.

(* ------------------------------------------------------------------ lookup of a node description by id *)
Definition findn (ds : list ndesc) (n : nat) : option ndesc := find (fun d => Nat.eqb (nid d) n) ds.

Lemma findn_none ds n : ~ In n (map nid ds) -> findn ds n = None.
Proof.
  unfold findn. induction ds as [|a ds IH]; intros Hn; cbn; [reflexivity|]. cbn in Hn.
  destruct (Nat.eqb_spec (nid a) n); [tauto|]. apply IH. tauto.
Qed.
Lemma findn_some ds n d : findn ds n = Some d -> In d ds /\ nid d = n.
Proof.
  unfold findn. intros Hf. apply find_some in Hf. destruct Hf as [Hi He]. apply Nat.eqb_eq in He. tauto.
Qed.
Lemma findn_in ds d : NoDup (map nid ds) -> In d ds -> findn ds (nid d) = Some d.
Proof.
  unfold findn. induction ds as [|a ds IH]; intros Hnd Hin; [destruct Hin|].
  cbn in Hnd. inversion Hnd as [|? ? Hna Hnd']; subst. cbn.
  destruct Hin as [->|Hin]; [rewrite Nat.eqb_refl; reflexivity|].
  destruct (Nat.eqb_spec (nid a) (nid d)) as [E|E].
  - exfalso. apply Hna. rewrite E. apply in_map. assumption.
  - apply IH; assumption.
Qed.
Lemma findn_is_some ds n : In n (map nid ds) -> exists d, findn ds n = Some d.
Proof.
  intros Hin. destruct (findn ds n) as [d|] eqn:E; [eauto|]. exfalso.
  apply in_map_iff in Hin. destruct Hin as (d & Hd & Hi).
  unfold findn in E. apply (find_none _ _ E) in Hi. rewrite Hd, Nat.eqb_refl in Hi. discriminate.
Qed.

(* ------------------------------------------------------------------ `for node in nodes` loops *)
Lemma map_nodes_find (t : ndesc -> lnode -> lnode) : forall ds (e : lenv) n, NoDup (map nid ds) ->
  map_nodes t ds e n = match findn ds n with Some d => t d (e n) | None => e n end.
Proof.
  unfold map_nodes, findn. induction ds as [|a ds IH]; intros e n Hnd; cbn; [reflexivity|].
  cbn in Hnd. inversion Hnd as [|? ? Hna Hnd']; subst.
  rewrite IH by assumption.
  destruct (Nat.eqb_spec (nid a) n) as [E|E].
  - subst n. fold (findn ds (nid a)). rewrite findn_none by assumption. apply lupd_same.
  - rewrite lupd_other by congruence. reflexivity.
Qed.
Lemma map_nodes_field {B} (f : lnode -> B) (t : ndesc -> lnode -> lnode) :
  (forall d x, f (t d x) = f x) -> forall ds (e : lenv) n, f (map_nodes t ds e n) = f (e n).
Proof.
  intros Ht. unfold map_nodes. induction ds as [|a ds IH]; intros e n; cbn; [reflexivity|].
  rewrite IH. unfold lupd. destruct (Nat.eqb_spec n (nid a)); [subst; apply Ht|reflexivity].
Qed.
Lemma map_nodes_frame (t : ndesc -> lnode -> lnode) : forall ds (e : lenv) n,
  ~ In n (map nid ds) -> map_nodes t ds e n = e n.
Proof.
  unfold map_nodes. induction ds as [|a ds IH]; intros e n Hn; cbn; [reflexivity|]. cbn in Hn.
  rewrite IH by tauto. apply lupd_other. intros ->. tauto.
Qed.

Lemma restore_lst_fields (snap : lenv) : forall ids (e : lenv) n,
  lhid (restore_lst ids snap e n) = lhid (e n) /\ proxy (restore_lst ids snap e n) = proxy (e n) /\
  clamp (restore_lst ids snap e n) = clamp (e n).
Proof.
  unfold restore_lst. induction ids as [|i ids IH]; intros e n; cbn; [tauto|].
  destruct (IH (set_lst e i (lst (snap i))) n) as (A & B & C). rewrite A, B, C.
  unfold set_lst, lupd. destruct (Nat.eqb_spec n i); [subst|]; cbn; tauto.
Qed.

(* two folds that keep R at each step keep R *)
Lemma fold_sim {A} (gl : lenv -> A -> lenv) (g : env -> A -> env) :
  (forall el e a, R el e -> R (gl el a) (g e a)) ->
  forall l el e, R el e -> R (fold_left gl l el) (fold_left g l e).
Proof. intros Hs. induction l as [|a l IH]; intros el e HR; cbn; [assumption|]. apply IH, Hs, HR. Qed.

Lemma R_set_st (el : lenv) (e : env) n v : R el e -> R (set_lst el n v) (set_st e n v).
Proof.
  intros HR k. unfold set_lst, set_st, lupd, upd. destruct (Nat.eqb_spec k n); [subst; cbn; split; [reflexivity|apply HR]|apply HR].
Qed.
Lemma R_lupd_lst (el : lenv) (e : env) n v : R el e -> R (lupd el n (with_lst (el n) v)) (set_st e n v).
Proof. exact (R_set_st el e n v). Qed.

Lemma start_env_sim (m : model) reset from (el : lenv) (e : env) :
  R el e -> R (start_env_ll m reset from el) (start_env m reset from e).
Proof.
  unfold start_env_ll, map_nodes, start_env. apply fold_sim. clear el e. intros el e d HR.
  destruct (from (nid d)) as [v|]; [apply R_lupd_lst; assumption|].
  destruct reset; [apply R_lupd_lst; assumption|].
  intros k. unfold lupd. destruct (Nat.eqb_spec k (nid d)); [subst|]; apply HR.
Qed.
Lemma start_env_ll_rest (m : model) reset from (el : lenv) n :
  proxy (start_env_ll m reset from el n) = proxy (el n) /\ clamp (start_env_ll m reset from el n) = clamp (el n).
Proof.
  unfold start_env_ll. split; apply map_nodes_field; intros d x;
    (destruct (from (nid d)); [reflexivity|destruct reset; reflexivity]).
Qed.
Lemma restore_sim ids (sl : lenv) (s : env) (el : lenv) (e : env) :
  R sl s -> R el e -> R (restore_lst ids sl el) (restore_st ids s e).
Proof.
  intros HS. unfold restore_lst, restore_st. apply fold_sim. clear el e. intros el e n HR.
  destruct (HS n) as [-> _]. apply R_set_st. assumption.
Qed.
Lemma reset_sim (m : model) (el : lenv) (e : env) : R el e -> R (reset_op_ll m el) (reset_op m e).
Proof.
  unfold reset_op_ll, map_nodes, reset_op. apply fold_sim. clear el e. intros el e d HR. apply R_lupd_lst. assumption.
Qed.

(* load / clean *)
Lemma load_proxys_fields (m : model) keep (e : lenv) n :
  lst (load_proxys m keep e n) = lst (e n) /\ lhid (load_proxys m keep e n) = lhid (e n) /\
  clamp (load_proxys m keep e n) = clamp (e n).
Proof.
  unfold load_proxys. repeat split; apply map_nodes_field; intros d x; destruct (proxy x); try destruct keep; reflexivity.
Qed.
Lemma clean_proxys_fields (m : model) (e : lenv) n :
  lst (clean_proxys m e n) = lst (e n) /\ lhid (clean_proxys m e n) = lhid (e n) /\
  clamp (clean_proxys m e n) = clamp (e n).
Proof. unfold clean_proxys. repeat split; apply map_nodes_field; intros d x; reflexivity. Qed.
Lemma map_nodes_const {B} (f : lnode -> B) (c : B) (t : ndesc -> lnode -> lnode) :
  (forall d x, f (t d x) = c) -> forall ds (e : lenv) n, In n (map nid ds) -> f (map_nodes t ds e n) = c.
Proof.
  intros Ht. induction ds as [|a ds IH]; intros e n Hin; [destruct Hin|].
  change (map_nodes t (a :: ds) e) with (map_nodes t ds (lupd e (nid a) (t a (e (nid a))))).
  destruct (in_dec Nat.eq_dec n (map nid ds)) as [Hi|Hi]; [apply IH; assumption|].
  rewrite map_nodes_frame by assumption. destruct Hin as [<-|Hin]; [|contradiction]. rewrite lupd_same. apply Ht.
Qed.
Lemma clean_proxys_proxy (m : model) (e : lenv) n :
  proxy (clean_proxys m e n) = if in_dec Nat.eq_dec n (ids_of m) then None else proxy (e n).
Proof.
  unfold clean_proxys, ids_of. destruct (in_dec Nat.eq_dec n (map nid (order m))) as [Hi|Hi].
  - apply (map_nodes_const proxy None); [reflexivity|assumption].
  - rewrite map_nodes_frame by assumption. reflexivity.
Qed.

(* ------------------------------------------------------------------ the loop invariant of Model._run *)
(* between two steps: nothing clamped, every node of the model holds its own current state as proxy,
   no node outside the model holds one *)
Definition ready (m : model) (e : lenv) : Prop :=
  (forall n, clamp (e n) = None) /\
  (forall n, In n (ids_of m) -> proxy (e n) = Some (lst (e n))) /\
  (forall n, ~ In n (ids_of m) -> proxy (e n) = None).
(* what is left of it after a failing step *)
Definition quiet (m : model) (e : lenv) : Prop :=
  (forall n, clamp (e n) = None) /\ (forall n, ~ In n (ids_of m) -> proxy (e n) = None).

Lemma ready_quiet (m : model) (e : lenv) : ready m e -> quiet m e.
Proof. intros (A & _ & C). split; assumption. Qed.
Lemma at_rest_quiet (m : model) (e : lenv) : at_rest e -> quiet m e.
Proof. intros Hr. split; intros n; intros; apply Hr. Qed.

Lemma load_proxys_proxy (m : model) keep (e : lenv) n : NoDup (ids_of m) ->
  proxy (load_proxys m keep e n) =
    if in_dec Nat.eq_dec n (ids_of m)
    then (match proxy (e n) with Some p => if keep then Some p else Some (lst (e n)) | None => Some (lst (e n)) end)
    else proxy (e n).
Proof.
  intros Hnd. unfold load_proxys. rewrite map_nodes_find by exact Hnd.
  destruct (in_dec Nat.eq_dec n (ids_of m)) as [Hi|Hi].
  - destruct (findn_is_some _ _ Hi) as [d ->]. destruct (proxy (e n)) eqn:Ep; [destruct keep|]; cbn; try rewrite Ep; reflexivity.
  - unfold ids_of in Hi. rewrite findn_none by assumption. reflexivity.
Qed.

Lemma load_ready (m : model) keep (e : lenv) : NoDup (ids_of m) ->
  quiet m e -> (keep = true -> forall n, In n (ids_of m) -> proxy (e n) = None) -> ready m (load_proxys m keep e).
Proof.
  intros Hnd [Hc Ho] Hk. split; [|split]; intros n.
  - destruct (load_proxys_fields m keep e n) as (_ & _ & ->). apply Hc.
  - intros Hi. rewrite load_proxys_proxy by assumption. destruct (load_proxys_fields m keep e n) as (-> & _ & _).
    destruct (in_dec Nat.eq_dec n (ids_of m)); [|contradiction].
    destruct keep; [rewrite (Hk eq_refl n Hi); reflexivity|]. destruct (proxy (e n)); reflexivity.
  - intros Hi. rewrite load_proxys_proxy by assumption. destruct (in_dec Nat.eq_dec n (ids_of m)); [contradiction|]. apply Ho, Hi.
Qed.
Lemma clean_at_rest (m : model) (e : lenv) : quiet m e -> at_rest (clean_proxys m e).
Proof.
  intros [Hc Ho] n. split.
  - rewrite clean_proxys_proxy. destruct (in_dec Nat.eq_dec n (ids_of m)); [reflexivity|apply Ho; assumption].
  - destruct (clean_proxys_fields m e n) as (_ & _ & ->). apply Hc.
Qed.
Lemma clean_R (m : model) (el : lenv) (e : env) : R el e -> R (clean_proxys m el) e.
Proof. intros HR. apply (R_fields el); [assumption|]. intros n. destruct (clean_proxys_fields m el n) as (A & B & _). tauto. Qed.
Lemma load_R (m : model) keep (el : lenv) (e : env) : R el e -> R (load_proxys m keep el) e.
Proof. intros HR. apply (R_fields el); [assumption|]. intros n. destruct (load_proxys_fields m keep el n) as (A & B & _). tauto. Qed.

(* ------------------------------------------------------------------ one node call *)
(* what a call can do to the mechanism's fields: proxies are never written, clamps are only consumed,
   only the called node changes *)
Lemma call_node_ll_fields (m : model) ext (e e' : lenv) d ok :
  call_node_ll m ext e d = (e', ok) ->
  (forall n, proxy (e' n) = proxy (e n)) /\
  (forall n, clamp (e' n) = clamp (e n) \/ (n = nid d /\ clamp (e' n) = None)) /\
  (forall n, n <> nid d -> e' n = e n).
Proof.
  unfold call_node_ll, fb_read. intros Hc.
  destruct (nfb d) as [src|].
  - destruct (clamp (e (nid d))) as [v|] eqn:Ec.
    + destruct (nfwd d _ _ _ _) as [[s' h']|]; inversion Hc; subst; clear Hc; repeat split; intros n; try intros Hn;
        unfold set_clamp, lupd; destruct (Nat.eqb_spec n (nid d)); subst; cbn; try rewrite Nat.eqb_refl; cbn; auto; try contradiction.
    + destruct (nfwd d _ _ _ _) as [[s' h']|]; inversion Hc; subst; clear Hc; repeat split; intros n; try intros Hn;
        unfold lupd; destruct (Nat.eqb_spec n (nid d)); subst; cbn; auto; try contradiction.
  - destruct (nfwd d _ _ _ _) as [[s' h']|]; inversion Hc; subst; clear Hc; repeat split; intros n; try intros Hn;
      unfold lupd; destruct (Nat.eqb_spec n (nid d)); subst; cbn; auto; try contradiction.
Qed.

Lemma forward_from_ll_fields (m : model) ext : forall ds (e e' : lenv) ok,
  forward_from_ll m ext ds e = (e', ok) ->
  (forall n, proxy (e' n) = proxy (e n)) /\
  (forall n, clamp (e n) = None -> clamp (e' n) = None) /\
  (forall n, ~ In n (map nid ds) -> e' n = e n).
Proof.
  induction ds as [|d ds IH]; intros e e' ok Hf; cbn in Hf.
  - inversion Hf; subst. repeat split; auto.
  - destruct (call_node_ll m ext e d) as [e1 ok1] eqn:Ec.
    destruct (call_node_ll_fields _ _ _ _ _ _ Ec) as (P1 & C1 & F1).
    destruct ok1.
    + destruct (IH _ _ _ Hf) as (P2 & C2 & F2). repeat split.
      * intros n. rewrite P2. apply P1.
      * intros n Hn. apply C2. destruct (C1 n) as [->|[_ ->]]; [assumption|reflexivity].
      * intros n Hn. cbn in Hn. rewrite F2 by tauto. apply F1. intros ->. tauto.
    + inversion Hf; subst. repeat split.
      * apply P1.
      * intros n Hn. destruct (C1 n) as [->|[_ ->]]; [assumption|reflexivity].
      * intros n Hn. cbn in Hn. apply F1. intros ->. tauto.
Qed.

Lemma gather_sim (m : model) (el : lenv) (e : env) ext n : R el e -> gather_ll m el ext n = gather m e ext n.
Proof.
  intros HR. unfold gather_ll, gather. f_equal. f_equal. apply map_ext. intros p. apply HR.
Qed.

(* the value read by a receiver, against ModelSem.fbvalue over ANY frozen environment P and clamp table C that
   describe the current proxies and clamp *)
Lemma fb_read_sim (d : ndesc) (el : lenv) (P : env) (C : nat -> option vec) :
  (forall n, state_proxy el n = st (P n)) ->
  (nfb d <> None -> clamp (el (nid d)) = C (nid d)) ->
  fst (fb_read d el) = fbvalue d P C /\
  (forall n, lst (snd (fb_read d el) n) = lst (el n) /\ lhid (snd (fb_read d el) n) = lhid (el n) /\
             proxy (snd (fb_read d el) n) = proxy (el n)).
Proof.
  intros HP HC. unfold fb_read, fbvalue. destruct (nfb d) as [src|]; [|cbn; auto].
  rewrite <- HC by discriminate. destruct (clamp (el (nid d))) as [v|]; cbn [fst snd].
  - split; [reflexivity|]. intros n. unfold set_clamp, lupd. destruct (Nat.eqb_spec n (nid d)); [subst|]; cbn; auto.
  - split; [|auto]. f_equal. destruct src as [s|outs]; [apply HP|]. f_equal. apply map_ext. intros o. apply HP.
Qed.

Lemma call_node_sim (m : model) ext (P : env) C (el : lenv) (e : env) d :
  R el e -> (forall n, state_proxy el n = st (P n)) -> (nfb d <> None -> clamp (el (nid d)) = C (nid d)) ->
  snd (call_node_ll m ext el d) = snd (call_node m P C ext e d) /\
  R (fst (call_node_ll m ext el d)) (fst (call_node m P C ext e d)).
Proof.
  intros HR HP HC. destruct (fb_read_sim d el P C HP HC) as [Hv Hf].
  unfold call_node_ll, call_node. destruct (fb_read d el) as [fb e1]. cbn [fst snd] in Hv, Hf. subst fb.
  assert (HR1 : R e1 e). { apply (R_fields el); [assumption|]. intros n. destruct (Hf n) as (A & B & _). tauto. }
  rewrite (gather_sim m e1 e ext (nid d) HR1). destruct (HR1 (nid d)) as [-> ->].
  destruct (nfwd d _ _ _ _) as [[s' h']|]; cbn [fst snd]; split; try reflexivity; [|assumption].
  intros k. unfold lupd, upd. destruct (Nat.eqb_spec k (nid d)); [cbn; tauto|apply HR1].
Qed.

(* forward over a suffix of the execution order *)
Lemma forward_from_sim (m : model) ext (P : env) C : forall ds (el : lenv) (e : env),
  NoDup (map nid ds) -> R el e ->
  (forall n, state_proxy el n = st (P n)) ->
  (forall n, In n (map nid ds) -> proxy (el n) <> None) ->
  (forall d, In d ds -> nfb d <> None -> clamp (el (nid d)) = C (nid d)) ->
  snd (forward_from_ll m ext ds el) = snd (forward_from m P C ext ds e) /\
  R (fst (forward_from_ll m ext ds el)) (fst (forward_from m P C ext ds e)).
Proof.
  induction ds as [|d ds IH]; intros el e Hnd HR HP Hpx HC; cbn [forward_from_ll forward_from]; [cbn; tauto|].
  cbn in Hnd. inversion Hnd as [|? ? Hna Hnd']; subst.
  destruct (call_node_sim m ext P C el e d HR HP (HC d (or_introl eq_refl))) as [Hok HR1].
  destruct (call_node_ll m ext el d) as [el1 ok1] eqn:Ecl. destruct (call_node m P C ext e d) as [e1 ok] eqn:Ec.
  cbn [fst snd] in Hok, HR1. subst ok1.
  destruct (call_node_ll_fields _ _ _ _ _ _ Ecl) as (P1 & C1 & F1).
  destruct ok; [|cbn; tauto].
  apply IH; try assumption.
  - intros n. destruct (Nat.eq_dec n (nid d)) as [->|Hne].
    + rewrite <- HP. unfold state_proxy. rewrite P1.
      destruct (proxy (el (nid d))) eqn:Ep; [reflexivity|]. exfalso. apply (Hpx (nid d)); [left; reflexivity|assumption].
    + rewrite <- HP. unfold state_proxy. rewrite (F1 n Hne). reflexivity.
  - intros n Hn. rewrite P1. apply Hpx. right. assumption.
  - intros d' Hd' Hfb. rewrite F1; [apply HC; [right; assumption|assumption]|].
    intros Heq. apply Hna. rewrite <- Heq. apply in_map. assumption.
Qed.

(* ------------------------------------------------------------------ with_feedback *)
(* entering one node's context, as an update of that node only *)
Definition tenter (forced : nat -> option vec) (d : ndesc) (x : lnode) : lnode :=
  match nfb d with
  | Some _ => match forced_value forced d with Some v => with_clamp x (Some v) | None => x end
  | None => match forced (nid d) with Some v => with_proxy x (Some v) | None => x end
  end.
Lemma fb_enter_at forced (e : lenv) d k :
  fb_enter forced e d k = if Nat.eqb k (nid d) then tenter forced d (e k) else e k.
Proof.
  unfold fb_enter, tenter.
  destruct (nfb d); [destruct (forced_value forced d)|destruct (forced (nid d))];
    unfold set_clamp, set_proxy, lupd; destruct (Nat.eqb_spec k (nid d)); subst; reflexivity.
Qed.
Lemma fb_enter_all_find forced : forall ds (e : lenv) n, NoDup (map nid ds) ->
  fb_enter_all forced ds e n = match findn ds n with Some d => tenter forced d (e n) | None => e n end.
Proof.
  unfold fb_enter_all, findn. induction ds as [|a ds IH]; intros e n Hnd; cbn; [reflexivity|].
  cbn in Hnd. inversion Hnd as [|? ? Hna Hnd']; subst.
  rewrite IH by assumption. rewrite fb_enter_at.
  destruct (Nat.eqb_spec (nid a) n) as [E|E].
  - subst n. fold (findn ds (nid a)). rewrite findn_none by assumption. rewrite Nat.eqb_refl. reflexivity.
  - destruct (Nat.eqb_spec n (nid a)); [congruence|]. reflexivity.
Qed.

(* leaving all the contexts, node by node *)
Definition exit_spec (sf : bool) (ds : list ndesc) (e e2 : lenv) (n : nat) : lnode :=
  match findn ds n with
  | Some d => match nfb d with
              | Some _ => with_clamp (e2 n) None
              | None => if sf then e2 n else with_proxy (e2 n) (proxy (e n))
              end
  | None => e2 n
  end.
Lemma with_feedback_ll_spec forced sf (body : lenv -> lenv * bool) : forall ds (e : lenv), NoDup (map nid ds) ->
  snd (with_feedback_ll forced sf ds body e) = snd (body (fb_enter_all forced ds e)) /\
  forall n, fst (with_feedback_ll forced sf ds body e) n = exit_spec sf ds e (fst (body (fb_enter_all forced ds e))) n.
Proof.
  induction ds as [|d ds IH]; intros e Hnd; cbn [with_feedback_ll fb_enter_all fold_left].
  - split; reflexivity.
  - cbn in Hnd. inversion Hnd as [|? ? Hna Hnd']; subst.
    destruct (IH (fb_enter forced e d) Hnd') as [Hok Hsp]. unfold fb_enter_all in Hok, Hsp.
    destruct (with_feedback_ll forced sf ds body (fb_enter forced e d)) as [e2 ok]. cbn [fst snd] in *.
    split; [assumption|]. intros n. unfold exit_spec, findn. cbn [find]. fold (findn ds n).
    destruct (Nat.eqb_spec (nid d) n) as [E|E].
    + subst n. unfold fb_exit.
      assert (He2 : e2 (nid d) = fst (body (fold_left (fb_enter forced) ds (fb_enter forced e d))) (nid d)).
      { rewrite Hsp. unfold exit_spec. rewrite findn_none by assumption. reflexivity. }
      destruct (nfb d); [|destruct sf]; unfold set_clamp, set_proxy; try rewrite lupd_same; rewrite ?He2; reflexivity.
    + assert (Hx : fb_exit sf (proxy (e (nid d))) e2 d n = e2 n).
      { unfold fb_exit. destruct (nfb d); [|destruct sf]; unfold set_clamp, set_proxy; try rewrite lupd_other by congruence; reflexivity. }
      rewrite Hx, Hsp. unfold exit_spec. rewrite fb_enter_at. destruct (Nat.eqb_spec n (nid d)); [congruence|]. reflexivity.
Qed.

(* with_feedback { forward } against ModelSem.step, from the loop invariant *)
Lemma wf_forward_sim (m : model) forced sf ext (el : lenv) (e : env) :
  NoDup (ids_of m) -> ready m el -> R el e ->
  snd (with_feedback_ll forced sf (order m) (forward_ll m ext) el) = snd (step m forced ext e) /\
  R (fst (with_feedback_ll forced sf (order m) (forward_ll m ext) el)) (fst (step m forced ext e)) /\
  quiet m (fst (with_feedback_ll forced sf (order m) (forward_ll m ext) el)) /\
  (sf = false -> forall n, proxy (fst (with_feedback_ll forced sf (order m) (forward_ll m ext) el) n) = proxy (el n)).
Proof.
  intros Hnd (Hc & Hpi & Hpo) HR. unfold ids_of in *.
  destruct (with_feedback_ll_spec forced sf (forward_ll m ext) (order m) el Hnd) as [Hok Hsp].
  set (elin := fb_enter_all forced (order m) el) in *.
  assert (Hin : forall n, elin n = match findn (order m) n with Some d => tenter forced d (el n) | None => el n end)
    by (intros n; apply fb_enter_all_find; assumption).
  assert (Hinf : forall n, lst (elin n) = lst (el n) /\ lhid (elin n) = lhid (el n)).
  { intros n. rewrite Hin. destruct (findn (order m) n) as [d|]; [|tauto].
    unfold tenter. destruct (nfb d); [destruct (forced_value forced d)|destruct (forced (nid d))]; cbn; tauto. }
  assert (HRin : R elin e) by (apply (R_fields el); assumption).
  assert (HP : forall n, state_proxy elin n = st (proxies m forced e n)).
  { intros n. unfold state_proxy, proxies. rewrite Hin. fold (findn (order m) n).
    destruct (findn (order m) n) as [d|] eqn:Ef.
    - destruct (findn_some _ _ _ Ef) as [Hd Hid]. assert (Hi : In n (map nid (order m))) by (rewrite <- Hid; apply in_map; assumption).
      unfold tenter. destruct (nfb d).
      + destruct (forced_value forced d); cbn; rewrite (Hpi n Hi); apply HR.
      + rewrite Hid. destruct (forced n); cbn; [reflexivity|]. rewrite (Hpi n Hi). apply HR.
    - destruct (proxy (el n)) eqn:Ep; [|apply HR].
      rewrite Hpo in Ep; [discriminate|]. intros Hi. destruct (findn_is_some _ _ Hi) as [d Hd]. congruence. }
  assert (Hpx : forall n, In n (map nid (order m)) -> proxy (elin n) <> None).
  { intros n Hi. rewrite Hin. destruct (findn_is_some _ _ Hi) as [d ->]. unfold tenter.
    destruct (nfb d); [destruct (forced_value forced d)|destruct (forced (nid d))]; cbn; try rewrite (Hpi n Hi); discriminate. }
  assert (HC : forall d, In d (order m) -> nfb d <> None -> clamp (elin (nid d)) = clamps m forced (nid d)).
  { intros d Hd Hfb. rewrite Hin. unfold clamps. fold (findn (order m) (nid d)). rewrite (findn_in _ _ Hnd Hd).
    unfold tenter. destruct (nfb d); [|congruence]. destruct (forced_value forced d); cbn; [reflexivity|apply Hc]. }
  destruct (forward_from_sim m ext (proxies m forced e) (clamps m forced) (order m) elin e Hnd HRin HP Hpx HC) as [Hok2 HR2].
  fold (forward_ll m ext elin) in Hok2, HR2. fold (forward m (proxies m forced e) (clamps m forced) ext e) in Hok2, HR2.
  fold (step m forced ext e) in Hok2, HR2.
  destruct (forward_ll m ext elin) as [el2 ok2] eqn:Ef. cbn [fst snd] in *.
  unfold forward_ll in Ef. destruct (forward_from_ll_fields _ _ _ _ _ _ Ef) as (P2 & C2 & F2).
  split; [congruence|].
  assert (Hcin : forall n d, findn (order m) n = Some d -> nfb d = None -> clamp (elin n) = None).
  { intros n d Hf Hn. rewrite Hin, Hf. unfold tenter. rewrite Hn. destruct (forced (nid d)); cbn; apply Hc. }
  split; [|split; [split|]].
  - apply (R_fields el2); [assumption|]. intros n. rewrite Hsp. unfold exit_spec.
    destruct (findn (order m) n) as [d|]; [|tauto]. destruct (nfb d); [|destruct sf]; cbn; tauto.
  - intros n. rewrite Hsp. unfold exit_spec. destruct (findn (order m) n) as [d|] eqn:Efn.
    + destruct (nfb d) eqn:En; [reflexivity|]. destruct sf; cbn; apply C2, (Hcin n d Efn En).
    + apply C2. rewrite Hin, Efn. apply Hc.
  - intros n Hn. rewrite Hsp. unfold exit_spec. rewrite findn_none by assumption. rewrite P2, Hin.
    rewrite findn_none by assumption. apply Hpo, Hn.
  - intros -> n. rewrite Hsp. unfold exit_spec. destruct (findn (order m) n) as [d|] eqn:Efn.
    + destruct (nfb d) eqn:En; cbn; [|reflexivity]. rewrite P2, Hin, Efn. unfold tenter. rewrite En.
      destruct (forced_value forced d); reflexivity.
    + rewrite P2, Hin, Efn. reflexivity.
Qed.

(* one step of Model._run *)
Lemma step_sim (m : model) forced ext (el : lenv) (e : env) :
  NoDup (ids_of m) -> ready m el -> R el e ->
  snd (step_ll m forced ext el) = snd (step m forced ext e) /\
  R (fst (step_ll m forced ext el)) (fst (step m forced ext e)) /\
  quiet m (fst (step_ll m forced ext el)) /\
  (snd (step m forced ext e) = true -> ready m (fst (step_ll m forced ext el))).
Proof.
  intros Hnd Hr HR. destruct (wf_forward_sim m forced false ext el e Hnd Hr HR) as (Hok & HR1 & Hq & Hp).
  unfold step_ll. destruct (with_feedback_ll forced false (order m) (forward_ll m ext) el) as [el1 ok1]. cbn [fst snd] in *.
  destruct ok1; cbn [fst snd].
  - split; [assumption|]. split; [apply load_R; assumption|].
    assert (Hrd : ready m (load_proxys m false el1)) by (apply load_ready; [assumption|assumption|discriminate]).
    split; [apply ready_quiet; assumption|intros _; assumption].
  - split; [assumption|]. split; [assumption|]. split; [assumption|]. intros Ht. congruence.
Qed.

Lemma out_states_sim (m : model) (el : lenv) (e : env) : R el e -> out_states_ll m el = out_states m e.
Proof. intros HR. unfold out_states_ll, out_states. apply map_ext. intros o. apply HR. Qed.

Lemma run_steps_sim (m : model) : NoDup (ids_of m) -> forall steps (el : lenv) (e : env),
  ready m el -> R el e ->
  let '(el', outs_l, ok_l) := run_steps_ll m steps el in
  let '(e', outs, ok) := run_steps m steps e in
  outs_l = outs /\ ok_l = ok /\ R el' e' /\ quiet m el' /\ (ok = true -> ready m el').
Proof.
  intros Hnd. induction steps as [|[ext forced] steps IH]; intros el e Hr HR; cbn [run_steps_ll run_steps].
  - split; [reflexivity|]. split; [reflexivity|]. split; [assumption|]. split; [apply ready_quiet; assumption|intros _; assumption].
  - destruct (step_sim m forced ext el e Hnd Hr HR) as (Hok & HR1 & Hq & Hrd).
    destruct (step_ll m forced ext el) as [el1 ok1]. destruct (step m forced ext e) as [e1 ok]. cbn [fst snd] in *. subst ok1.
    destruct ok.
    + specialize (IH el1 e1 (Hrd eq_refl) HR1).
      destruct (run_steps_ll m steps el1) as [[el2 o2l] ok2l]. destruct (run_steps m steps e1) as [[e2 o2] ok2].
      destruct IH as (-> & -> & HR2 & Hq2 & Hrd2). rewrite (out_states_sim m el1 e1 HR1).
      split; [reflexivity|]. split; [reflexivity|]. split; [assumption|]. split; assumption.
    + split; [reflexivity|]. split; [reflexivity|]. split; [assumption|]. split; [assumption|discriminate].
Qed.

(* Model._run *)
Lemma run_ll_sim (m : model) steps (el : lenv) (e : env) : NoDup (ids_of m) -> at_rest el -> R el e ->
  let '(el', outs_l, ok_l) := run_ll m steps el in
  let '(e', outs, ok) := run_steps m steps e in
  outs_l = outs /\ ok_l = ok /\ R el' e' /\ at_rest el'.
Proof.
  intros Hnd Hrest HR. unfold run_ll.
  assert (Hr : ready m (load_proxys m true el)).
  { apply load_ready; [assumption|apply at_rest_quiet; assumption|]. intros _ n _. apply Hrest. }
  pose proof (run_steps_sim m Hnd steps _ e Hr (load_R m true el e HR)) as Hs.
  destruct (run_steps_ll m steps (load_proxys m true el)) as [[el1 o1] ok1]. destruct (run_steps m steps e) as [[e1 o] ok].
  destruct Hs as (-> & -> & HR1 & Hq & _).
  split; [reflexivity|]. split; [reflexivity|]. split; [apply clean_R; assumption|apply clean_at_rest; assumption].
Qed.

Lemma restore_at_rest ids (snap e : lenv) : at_rest e -> at_rest (restore_lst ids snap e).
Proof. intros Hr n. destruct (restore_lst_fields snap ids e n) as (_ & -> & ->). apply Hr. Qed.
Lemma start_env_at_rest (m : model) reset from (e : lenv) : at_rest e -> at_rest (start_env_ll m reset from e).
Proof. intros Hr n. destruct (start_env_ll_rest m reset from e n) as [-> ->]. apply Hr. Qed.

(* ------------------------------------------------------------------ R2: the public operations *)
Theorem run_op_ll_sim (m : model) stateful reset from steps (el : lenv) (e : env) :
  NoDup (ids_of m) -> at_rest el -> R el e ->
  let '(el', outs_l, ok_l) := run_op_ll m stateful reset from steps el in
  let '(e', outs, ok) := run_op m stateful reset from steps e in
  outs_l = outs /\ ok_l = ok /\ R el' e' /\ at_rest el'.
Proof.
  intros Hnd Hrest HR. unfold run_op_ll, run_op.
  pose proof (run_ll_sim m steps _ _ Hnd (start_env_at_rest m reset from el Hrest) (start_env_sim m reset from el e HR)) as Hs.
  destruct (run_ll m steps (start_env_ll m reset from el)) as [[el1 o1] ok1].
  destruct (run_steps m steps (start_env m reset from e)) as [[e1 o] ok].
  destruct Hs as (-> & -> & HR1 & Hr1). split; [reflexivity|]. split; [reflexivity|].
  destruct stateful; (split; [|try apply restore_at_rest; assumption]); [assumption|apply restore_sim; assumption].
Qed.

(* stated with the abstraction function *)
Theorem run_op_ll_refines (m : model) stateful reset from steps (el : lenv) :
  NoDup (ids_of m) -> at_rest el ->
  let '(el', outs_l, ok_l) := run_op_ll m stateful reset from steps el in
  let '(e', outs, ok) := run_op m stateful reset from steps (abs el) in
  outs_l = outs /\ ok_l = ok /\ (forall n, abs el' n = e' n) /\ at_rest el'.
Proof.
  intros Hnd Hrest. pose proof (run_op_ll_sim m stateful reset from steps el (abs el) Hnd Hrest (R_abs el)) as Hs.
  destruct (run_op_ll m stateful reset from steps el) as [[el1 o1] ok1].
  destruct (run_op m stateful reset from steps (abs el)) as [[e1 o] ok].
  destruct Hs as (A & B & C & D). split; [assumption|]. split; [assumption|]. split; [apply R_abs_eq; assumption|assumption].
Qed.

(* Model.call = the one-step run *)
Theorem call_op_ll_sim (m : model) stateful reset from ext forced (el : lenv) (e : env) :
  NoDup (ids_of m) -> at_rest el -> R el e ->
  let '(el', outs_l, ok_l) := call_op_ll m stateful reset from ext forced el in
  let '(e', outs, ok) := run_op m stateful reset from [(ext, forced)] e in
  outs_l = outs /\ ok_l = ok /\ R el' e' /\ at_rest el'.
Proof.
  intros Hnd Hrest HR. unfold call_op_ll, run_op. cbn [run_steps].
  set (el0 := start_env_ll m reset from el). set (e0 := start_env m reset from e).
  assert (Hr0 : at_rest el0) by (apply start_env_at_rest; assumption).
  assert (HR0 : R el0 e0) by (apply start_env_sim; assumption).
  assert (Hrd : ready m (load_proxys m true el0)).
  { apply load_ready; [assumption|apply at_rest_quiet; assumption|]. intros _ n _. apply Hr0. }
  destruct (wf_forward_sim m forced stateful ext _ e0 Hnd Hrd (load_R m true el0 e0 HR0)) as (Hok & HR1 & Hq & _).
  destruct (with_feedback_ll forced stateful (order m) (forward_ll m ext) (load_proxys m true el0)) as [el1 ok1].
  destruct (step m forced ext e0) as [e1 ok]. cbn [fst snd] in *. subst ok1.
  assert (Hq2 : quiet m (if stateful then el1 else restore_lst (ids_of m) el el1)).
  { destruct stateful; [assumption|]. destruct Hq as [Qc Qp]. split; intros n; [|intros Hn];
      destruct (restore_lst_fields el (ids_of m) el1 n) as (_ & Ep & Ec); [rewrite Ec|rewrite Ep]; auto. }
  assert (HR2 : R (if stateful then el1 else restore_lst (ids_of m) el el1) (if stateful then e1 else restore_st (ids_of m) e e1)).
  { destruct stateful; [assumption|apply restore_sim; assumption]. }
  destruct ok; (split; [|split; [reflexivity|split; [apply clean_R; assumption|apply clean_at_rest; assumption]]]).
  - rewrite (out_states_sim m el1 e1 HR1). reflexivity.
  - reflexivity.
Qed.

Theorem reset_op_ll_sim (m : model) (el : lenv) (e : env) :
  at_rest el -> R el e -> R (reset_op_ll m el) (reset_op m e) /\ at_rest (reset_op_ll m el).
Proof.
  intros Hrest HR. split; [apply reset_sim; assumption|]. intros n. unfold reset_op_ll.
  split; [rewrite (map_nodes_field proxy)|rewrite (map_nodes_field clamp)]; try apply Hrest; reflexivity.
Qed.

(* ------------------------------------------------------------------ R1: at_rest is the invariant of the interface *)
Theorem at_rest_invariant (m : model) (el : lenv) : NoDup (ids_of m) -> at_rest el ->
  (forall stateful reset from steps, at_rest (fst (fst (run_op_ll m stateful reset from steps el)))) /\
  (forall stateful reset from ext forced, at_rest (fst (fst (call_op_ll m stateful reset from ext forced el)))) /\
  at_rest (reset_op_ll m el).
Proof.
  intros Hnd Hrest. split; [|split].
  - intros stateful reset from steps.
    pose proof (run_op_ll_sim m stateful reset from steps el (abs el) Hnd Hrest (R_abs el)) as Hs.
    destruct (run_op_ll m stateful reset from steps el) as [[el1 o1] ok1].
    destruct (run_op m stateful reset from steps (abs el)) as [[e1 o] ok]. apply Hs.
  - intros stateful reset from ext forced.
    pose proof (call_op_ll_sim m stateful reset from ext forced el (abs el) Hnd Hrest (R_abs el)) as Hs.
    destruct (call_op_ll m stateful reset from ext forced el) as [[el1 o1] ok1].
    destruct (run_op m stateful reset from [(ext, forced)] (abs el)) as [[e1 o] ok]. apply Hs.
  - apply (reset_op_ll_sim m el (abs el) Hrest (R_abs el)).
Qed.

(* ------------------------------------------------------------------ R3: consequences for the low-level model *)
(* C05, the mechanism: a receiver called anywhere in a step - after a prefix [pre] of the execution order has already
   run and possibly overwritten the sender's `_state` - reads what the sender's proxy held when the step began. *)
Lemma fb_read_frozen (m : model) ext pre (d : ndesc) s (elin elmid : lenv) ok v :
  nfb d = Some (FbNode s) ->
  clamp (elin (nid d)) = None ->
  (proxy (elin s) = Some v \/ (proxy (elin s) = None /\ lst (elin s) = v /\ ~ In s (map nid pre))) ->
  forward_from_ll m ext pre elin = (elmid, ok) ->
  fst (fb_read d elmid) = Some v.
Proof.
  intros Hfb Hc Hs Hf. destruct (forward_from_ll_fields _ _ _ _ _ _ Hf) as (P & C & Fr).
  unfold fb_read. rewrite Hfb, (C _ Hc). cbn. f_equal. unfold state_proxy. rewrite P.
  destruct Hs as [->|(-> & <- & Hn)]; [reflexivity|]. rewrite (Fr s Hn). reflexivity.
Qed.

Lemma fb_enter_all_none (ds : list ndesc) (e : lenv) n : NoDup (map nid ds) ->
  fb_enter_all (fun _ => None) ds e n = e n.
Proof.
  intros Hnd. rewrite fb_enter_all_find by assumption. destruct (findn ds n) as [d|]; [|reflexivity].
  unfold tenter, forced_value. destruct (nfb d) as [[?|?]|]; reflexivity.
Qed.

Lemma lenv_after_sim (m : model) : NoDup (ids_of m) -> forall k steps (el : lenv) (e : env),
  ready m el -> R el e -> lsteps_ok m steps el k = true ->
  ready m (lenv_after m steps el k) /\ R (lenv_after m steps el k) (env_after m steps e k).
Proof.
  intros Hnd. induction k as [|k IH]; intros steps el e Hr HR Hok; [destruct steps as [|[? ?] ?]; simpl; split; assumption|].
  destruct steps as [|[ext forced] steps]; [simpl; split; assumption|]. cbn [lenv_after env_after lsteps_ok] in *.
  destruct (step_sim m forced ext el e Hnd Hr HR) as (Ho & HR1 & _ & Hrd).
  destruct (step_ll m forced ext el) as [el1 ok1]. cbn [fst snd] in *. destruct ok1; [|discriminate].
  apply IH; auto.
Qed.

(* C05 at run level: inside Model._run started from rest, if the first k steps succeeded then during step k (taken
   without forced feedback) receiver d - wherever it sits in the execution order - is handed the state its sender had
   at the end of step k-1, which is the state ModelSem says the sender had. *)
Theorem run_feedback_delay_ll (m : model) (d : ndesc) s pre suf steps (el0 : lenv) k ext (elmid : lenv) okmid :
  NoDup (ids_of m) -> at_rest el0 ->
  order m = pre ++ d :: suf -> nfb d = Some (FbNode s) ->
  lsteps_ok m steps (load_proxys m true el0) k = true ->
  let elk := lenv_after m steps (load_proxys m true el0) k in
  forward_from_ll m ext pre (fb_enter_all (fun _ => None) (order m) elk) = (elmid, okmid) ->
  fst (fb_read d elmid) = Some (lst (elk s)) /\
  lst (elk s) = st (env_after m steps (abs el0) k s).
Proof.
  intros Hnd Hrest Ho Hfb Hok elk Hf.
  assert (Hr0 : ready m (load_proxys m true el0)).
  { apply load_ready; [assumption|apply at_rest_quiet; assumption|]. intros _ n _. apply Hrest. }
  destruct (lenv_after_sim m Hnd k steps _ (abs el0) Hr0 (load_R m true el0 _ (R_abs el0)) Hok) as [(Hc & Hpi & Hpo) HRk].
  fold elk in Hc, Hpi, Hpo, HRk. split; [|apply HRk].
  unfold ids_of in *.
  eapply fb_read_frozen; [exact Hfb| | |exact Hf].
  - rewrite fb_enter_all_none by assumption. apply Hc.
  - rewrite fb_enter_all_none by assumption.
    destruct (in_dec Nat.eq_dec s (map nid (order m))) as [Hi|Hi]; [left; apply Hpi; assumption|].
    right. split; [apply Hpo; assumption|]. split; [reflexivity|].
    intros Hp. apply Hi. rewrite Ho, map_app. apply in_or_app. left. assumption.
Qed.

(* C07: Model._run over xs ++ ys is Model._run over xs, then over ys - both seams are at rest *)
Theorem run_ll_app (m : model) xs ys (el : lenv) : NoDup (ids_of m) -> at_rest el ->
  let '(e12, o12, ok12) := run_ll m (xs ++ ys) el in
  let '(e1, o1, ok1) := run_ll m xs el in
  if ok1 then let '(e2, o2, ok2) := run_ll m ys e1 in o12 = o1 ++ o2 /\ ok12 = ok2 /\ (forall n, e12 n = e2 n)
  else o12 = o1 /\ ok12 = false /\ (forall n, e12 n = e1 n).
Proof.
  intros Hnd Hrest.
  pose proof (run_ll_sim m (xs ++ ys) el (abs el) Hnd Hrest (R_abs el)) as H12.
  pose proof (run_ll_sim m xs el (abs el) Hnd Hrest (R_abs el)) as H1.
  rewrite run_steps_app in H12.
  destruct (run_ll m (xs ++ ys) el) as [[e12 o12] ok12]. destruct (run_ll m xs el) as [[e1 o1] ok1].
  destruct (run_steps m xs (abs el)) as [[a1 p1] k1]. destruct H1 as (-> & -> & HR1 & Hr1).
  assert (Heq : forall (x y : lenv) (a : env), R x a -> R y a -> at_rest x -> at_rest y -> forall n, x n = y n).
  { intros x y a Hx Hy Rx Ry n. destruct (Hx n), (Hy n), (Rx n), (Ry n). apply lnode_eq; congruence. }
  destruct k1.
  - pose proof (run_ll_sim m ys e1 a1 Hnd Hr1 HR1) as H2.
    destruct (run_ll m ys e1) as [[e2 o2] ok2]. destruct (run_steps m ys a1) as [[a2 p2] k2].
    destruct H12 as (-> & -> & HR12 & Hr12). destruct H2 as (-> & -> & HR2 & Hr2).
    split; [reflexivity|]. split; [reflexivity|]. apply (Heq _ _ a2); assumption.
  - destruct H12 as (-> & -> & HR12 & Hr12). split; [reflexivity|]. split; [reflexivity|]. apply (Heq _ _ a1); assumption.
Qed.

(* C08: a stateful=False Model.run leaves every `_state` as it was, failing or not - and leaves no proxy or clamp behind *)
Theorem stateless_preserves_state_ll (m : model) reset from steps (el el' : lenv) outs ok :
  NoDup (ids_of m) -> at_rest el ->
  run_op_ll m false reset from steps el = (el', outs, ok) ->
  (forall n, lst (el' n) = lst (el n)) /\ at_rest el'.
Proof.
  intros Hnd Hrest Hrun.
  pose proof (run_op_ll_sim m false reset from steps el (abs el) Hnd Hrest (R_abs el)) as Hs. rewrite Hrun in Hs.
  destruct (run_op m false reset from steps (abs el)) as [[e1 o] k] eqn:E.
  destruct Hs as (_ & _ & HR & Hr). split; [|assumption]. intros n.
  destruct (HR n) as [-> _]. rewrite (stateless_preserves_state m reset from steps _ _ _ _ E n). reflexivity.
Qed.

(* from rest the `keep` flag of the initial load is irrelevant: it only matters when a proxy is already there *)
Lemma load_keep_irrelevant_at_rest (m : model) (el : lenv) : NoDup (ids_of m) -> at_rest el ->
  forall n, load_proxys m true el n = load_proxys m false el n.
Proof.
  intros Hnd Hr n.
  destruct (load_proxys_fields m true el n) as (A1 & B1 & C1), (load_proxys_fields m false el n) as (A2 & B2 & C2).
  apply lnode_eq; try congruence. rewrite !load_proxys_proxy by assumption. destruct (Hr n) as [-> _]. reflexivity.
Qed.

End Refine.
