(* C09, tie (T) for the parallel glue of reservoirpy/nodes/esn.py: the definitions GENERATED on this run (coq/gen/Gen_parallel.v, translator
   tools/vlib/py2coq_par.py, vocabulary base/ParPrelude.v) against model/Conc.v.

   * gen_sort_and_unpack_eq_model   : generated _sort_and_unpack on `readout`-only results = PList (Conc.sort_and_unpack (idx, payload))
   * gen_sort_and_unpack_input_order: hence for EVERY arrival order of the pairs, the per-sequence outputs in input order
   * gen_ESN_run_input_order        : generated ESN.run, any execution / completion order of the tasks: outputs in input order, and the state
                                      carried over is the one reached at the end of the LAST input sequence (task i carries index i and (x_i, y_i))
   * gen_fit_lock_rule              : generated lock rule = (workers > 1 or workers < 0) and backend != "sequential"
   * gen_fit_tasks_own_data         : the k-th fit task receives (x_k, y_k), the shared lock, the warm-up
   * gen_fit_failure_cleans         : a failing task => the exception is re-raised and clean_buffers has been applied
   No axioms. *)
From Coq Require Import List Arith Bool ZArith Lia Permutation.
From Coq Require String.
From RV Require Import base.ParPrelude model.Conc proofs.Conc_proofs gen.Gen_parallel.
Import ListNotations.
Import String.StringSyntax.
Delimit Scope string_scope with string.
Open Scope bool_scope.

(* ---------------------------------------------------------------- sorted(key) vs the model's insertion sort *)
Section SortTie.
Context {A B : Type}.
Variable k : A -> nat.
Variable g : A -> nat * B.
Hypothesis gk : forall a, fst (g a) = k a.

Lemma insert_key_map (p : A) (l : list A) : map g (insert_key k p l) = insert_by_idx (g p) (map g l).
Proof. induction l as [|q l IH]; cbn; [reflexivity|]. rewrite !gk. destruct (k p <=? k q); cbn; [reflexivity|]. rewrite IH. reflexivity. Qed.

Lemma py_sorted_map (l : list A) : map g (py_sorted k l) = sort_by_idx (map g l).
Proof. induction l as [|p l IH]; cbn; [reflexivity|]. rewrite insert_key_map, IH. reflexivity. Qed.
End SortTie.

Lemma insert_key_length {A} (k : A -> nat) p l : length (insert_key k p l) = S (length l).
Proof. induction l as [|q l IH]; cbn; [reflexivity|]. destruct (k p <=? k q); cbn; [reflexivity|]. rewrite IH. reflexivity. Qed.
Lemma py_sorted_length {A} (k : A -> nat) (l : list A) : length (py_sorted k l) = length l.
Proof. induction l as [|p l IH]; cbn; [reflexivity|]. rewrite insert_key_length, IH. reflexivity. Qed.

(* py_sorted on the index of whole result tuples: any permutation of results numbered 0..n-1 is put back in input order *)
Lemma py_sorted_input_order {A} (k : A -> nat) (results arrived : list A) :
  map k results = seq 0 (length results) -> Permutation arrived results -> py_sorted k arrived = results.
Proof.
  intros Hk HP.
  assert (E : map snd (map (fun a => (k a, a)) (py_sorted k arrived)) = py_sorted k arrived) by (rewrite map_map; cbn; apply map_id).
  rewrite <- E. rewrite (py_sorted_map k (fun a => (k a, a))) by reflexivity.
  change (Conc.sort_and_unpack (map (fun a => (k a, a)) arrived) = results).
  apply sort_and_unpack_input_order.
  rewrite HP. unfold Conc.enumerate. rewrite <- Hk.
  clear. induction results as [|r rs IH]; cbn; [reflexivity|]. constructor. exact IH.
Qed.

(* ---------------------------------------------------------------- _sort_and_unpack *)
Section Unpack.
Context {V L RS : Type}.
Definition wrap (t : nat * V * L) : nat * pdict V * L := (fst (fst t), [("readout"%string, snd (fst t))], snd t).
Definition pair_of (t : nat * V * L) : nat * V := (fst (fst t), snd (fst t)).

Lemma list_comp_readout (l : list (nat * V * L)) :
  list_comp (map wrap l) (fun s => bind (dict_get (tup1 s) "readout"%string) (fun v => Ok v)) = Ok (map (fun t => snd (fst t)) l).
Proof. induction l as [|t l IH]; cbn; [reflexivity|]. rewrite IH. reflexivity. Qed.

Lemma py_sorted_wrap (l : list (nat * V * L)) :
  py_sorted (fun s => tup0 s) (map wrap l) = map wrap (py_sorted (fun t => fst (fst t)) l).
Proof.
  induction l as [|t l IH]; cbn; [reflexivity|]. rewrite IH. generalize (py_sorted (fun t0 => fst (fst t0)) l). intros m.
  induction m as [|q m IHm]; cbn; [reflexivity|]. destruct (fst (fst t) <=? fst (fst q)); cbn; [reflexivity|]. rewrite IHm. reflexivity.
Qed.

Lemma sorted_payloads (l : list (nat * V * L)) :
  map (fun t => snd (fst t)) (py_sorted (fun t => fst (fst t)) l) = Conc.sort_and_unpack (map pair_of l).
Proof.
  unfold Conc.sort_and_unpack. rewrite <- (py_sorted_map (fun t => fst (fst t)) pair_of) by reflexivity.
  rewrite map_map. reflexivity.
Qed.

(* generated _sort_and_unpack = the model's sort_and_unpack (two or more sequences: a list; exactly one: the item itself) *)
Theorem gen_sort_and_unpack_eq_model (tr : list (nat * V * L)) :
  2 <= length tr ->
  GenPar.sort_and_unpack_ (map wrap tr) (@None RS) = Ok (UVal (PList (Conc.sort_and_unpack (map pair_of tr)))).
Proof.
  intros Hn. unfold GenPar.sort_and_unpack_. rewrite py_sorted_wrap. rewrite <- sorted_payloads.
  assert (Hl : length (py_sorted (fun t => fst (fst t)) tr) = length tr) by apply py_sorted_length.
  destruct (py_sorted (fun t => fst (fst t)) tr) as [|t0 [|t1 m]] eqn:E; cbn in Hl; try lia.
  cbn [map list_get nth_error bind wrap tup1 fst snd dict_keys].
  unfold dict_comp. cbn [dict_comp_from].
  match goal with |- context [list_comp ?l _] => change l with (map wrap (t0 :: t1 :: m)) end.
  rewrite list_comp_readout. cbn. reflexivity.
Qed.

Theorem gen_sort_and_unpack_single (i : nat) (v : V) (l : L) :
  GenPar.sort_and_unpack_ [wrap (i, v, l)] (@None RS) = Ok (UVal (PItem v)).
Proof. reflexivity. Qed.

(* whatever the order in which the (index, states, last states) triples come back: the readout outputs in input order *)
Theorem gen_sort_and_unpack_input_order (outs : list V) (arrived : list (nat * V * L)) :
  2 <= length outs -> Permutation (map pair_of arrived) (Conc.enumerate outs) ->
  GenPar.sort_and_unpack_ (map wrap arrived) (@None RS) = Ok (UVal (PList outs)).
Proof.
  intros Hn HP. rewrite gen_sort_and_unpack_eq_model.
  - rewrite (sort_and_unpack_input_order V outs _ HP). reflexivity.
  - apply Permutation_length in HP. rewrite map_length in HP. unfold Conc.enumerate in HP.
    rewrite combine_length, seq_length, Nat.min_id in HP. lia.
Qed.
End Unpack.

(* ---------------------------------------------------------------- Parallel(...)(delayed(f)(args) for ...) *)
Section Par.
Context {T T' R R' : Type}.
Lemma parallel_map_in (order : list nat) (f : T' -> R) (m : T -> T') (l : list T) :
  parallel order f (map m l) = parallel order (fun e => f (m e)) l.
Proof. unfold parallel. induction order as [|j o IH]; cbn; [reflexivity|]. rewrite IH, nth_error_map. destruct (nth_error l j); reflexivity. Qed.
Lemma parallel_ext (order : list nat) (f g : T -> R) (l : list T) : (forall t, f t = g t) -> parallel order f l = parallel order g l.
Proof. intros E. unfold parallel. induction order as [|j o IH]; cbn; [reflexivity|]. rewrite IH. destruct (nth_error l j); [rewrite E|]; reflexivity. Qed.
Lemma parallel_map_out (order : list nat) (f : T -> R) (h : R -> R') (l : list T) :
  map h (parallel order f l) = parallel order (fun e => h (f e)) l.
Proof. unfold parallel. induction order as [|j o IH]; cbn; [reflexivity|]. rewrite map_app, IH. destruct (nth_error l j); reflexivity. Qed.
Lemma flat_map_map_in {A B C} (g : B -> list C) (h : A -> B) (l : list A) : flat_map g (map h l) = flat_map (fun x => g (h x)) l.
Proof. induction l as [|a l IH]; cbn; [reflexivity|]. rewrite IH. reflexivity. Qed.
Lemma parallel_identity_order (f : T -> R) (l : list T) : parallel (seq 0 (length l)) f l = map f l.
Proof. unfold parallel. induction l as [|a l IH]; cbn; [reflexivity|]. rewrite <- seq_shift, flat_map_map_in. cbn. rewrite IH. reflexivity. Qed.
(* every task is executed exactly once: the results are a permutation of the per-task results *)
Lemma parallel_perm (order : list nat) (f : T -> R) (l : list T) :
  Permutation order (seq 0 (length l)) -> Permutation (parallel order f l) (map f l).
Proof. intros HP. rewrite <- parallel_identity_order. unfold parallel. apply Permutation_flat_map. exact HP. Qed.
End Par.

Lemma list_last_cons2 {A} (a b : A) (l : list A) : list_last (a :: b :: l) = list_last (b :: l).
Proof. unfold list_last. cbn [rev]. destruct (rev l ++ [b]) eqn:E; [destruct (rev l); discriminate|]. reflexivity. Qed.
Lemma list_last_enum {A} (P : list A) : forall m p, list_last P = Ok p -> exists i, list_last (combine (seq m (length P)) P) = Ok (i, p).
Proof.
  induction P as [|a [|b l] IH]; intros m p H.
  - discriminate.
  - cbn in H. injection H as <-. exists m. reflexivity.
  - rewrite list_last_cons2 in H. destruct (IH (S m) p H) as [i Hi]. exists i.
    change (combine (seq m (length (a :: b :: l))) (a :: b :: l)) with ((m, a) :: (S m, b) :: combine (seq (S (S m)) (length l)) l).
    rewrite list_last_cons2. exact Hi.
Qed.
Lemma list_last_map {A B} (h : A -> B) (l : list A) a : list_last l = Ok a -> list_last (map h l) = Ok (h a).
Proof. unfold list_last. rewrite <- map_rev. destruct (rev l); [discriminate|]. intros E. injection E as <-. reflexivity. Qed.
Lemma enum_fst {A} (P : list A) : forall m, map fst (combine (seq m (length P)) P) = seq m (length P).
Proof. induction P as [|a P IH]; intros m; cbn; [reflexivity|]. rewrite IH. reflexivity. Qed.
Lemma enum_map {A B} (h : A -> B) (P : list A) : forall m,
  map (fun e => (fst e, h (snd e))) (combine (seq m (length P)) P) = combine (seq m (length (map h P))) (map h P).
Proof. induction P as [|a P IH]; intros m; cbn; [reflexivity|]. rewrite IH. reflexivity. Qed.

(* ---------------------------------------------------------------- ESN.run *)
Section Run.
Context {T_esn T_x T_fb RS T_fs T_st T_re T_sh V L1 L2 : Type}.
Variable body_states : T_esn -> T_x -> T_fb -> option RS -> T_fs -> T_st -> T_re -> T_sh -> pdict V.
Variable body_last : T_esn -> T_x -> T_fb -> option RS -> T_fs -> T_st -> T_re -> T_sh -> L1 * L2.
Variables (self : T_esn) (fs : T_fs) (st : T_st) (re : T_re) (sh : T_sh).
Variable out : T_x -> T_fb -> V.
(* return_states=None: _run_fn hands back the readout output only (_allocate_returned_states) *)
Hypothesis readout_only : forall x y, body_states self x y None fs st re sh = [("readout"%string, out x y)].

Let f0 (e : nat * (T_x * T_fb)) : nat * V * (L1 * L2) :=
  (fst e, out (fst (snd e)) (snd (snd e)), body_last self (fst (snd e)) (snd (snd e)) None fs st re sh).

Theorem gen_ESN_run_input_order (order : list nat) (X : list T_x) (F : list T_fb) (xl : T_x) (yl : T_fb) :
  2 <= length (combine X F) ->
  Permutation order (seq 0 (length (combine X F))) ->
  list_last (combine X F) = Ok (xl, yl) ->
  GenPar.ESN_run body_states body_last order self X F fs st re sh None =
    Ok (fst (body_last self xl yl None fs st re sh), snd (body_last self xl yl None fs st re sh),
        UVal (PList (map (fun p => out (fst p) (snd p)) (combine X F)))).
Proof.
  intros Hn HP Hlast. unfold GenPar.ESN_run, py_zip, py_enumerate. set (P := combine X F) in *.
  set (E := combine (seq 0 (length P)) P).
  assert (HE : length E = length P) by (unfold E; rewrite combine_length, seq_length; apply Nat.min_id).
  rewrite parallel_map_in.
  rewrite (parallel_ext order _ (fun e => wrap (f0 e))).
  2:{ intros [i [x y]]. unfold GenPar.run_fn_, wrap, f0. cbn. rewrite readout_only. destruct (body_last self x y None fs st re sh); reflexivity. }
  rewrite <- (parallel_map_out order f0 wrap E).
  set (tr := parallel order f0 E).
  assert (Htr : Permutation tr (map f0 E)) by (apply parallel_perm; rewrite HE; exact HP).
  (* the sorted results are the per-task results in input order *)
  rewrite (py_sorted_input_order (fun s => tup0 s) (map wrap (map f0 E))).
  2:{ rewrite !map_map. cbn. rewrite !map_length, HE. unfold E. apply enum_fst. }
  2:{ apply Permutation_map. exact Htr. }
  destruct (list_last_enum P 0 (xl, yl) Hlast) as [i Hi]. fold E in Hi.
  rewrite (list_last_map wrap _ _ (list_last_map f0 _ _ Hi)). cbn [bind].
  unfold wrap at 1, f0 at 1. cbn [tup2 fst snd].
  destruct (body_last self xl yl None fs st re sh) as [a b] eqn:EL.
  rewrite (gen_sort_and_unpack_input_order (map (fun p => out (fst p) (snd p)) P) tr).
  - unfold f0. cbn [fst snd]. rewrite EL. reflexivity.
  - rewrite map_length. exact Hn.
  - rewrite Htr, map_map. unfold Conc.enumerate, E. rewrite <- enum_map. reflexivity.
Qed.
End Run.

(* ---------------------------------------------------------------- ESN.fit *)
(* the model's condition for running the accumulation under a lock (tools/props/c09.py esn_uses_lock, which selects [use_lock] of model/Conc.v
   in the schedule replay): (workers > 1 or workers < 0) and backend != "sequential" *)
Definition model_use_lock (workers : Z) (backend_is_sequential : bool) : bool :=
  ((1 <? workers)%Z || (workers <? 0)%Z) && negb backend_is_sequential.

Theorem gen_fit_lock_rule (workers : Z) (backend : option String.string) :
  GenPar.ESN_fit_use_lock workers backend =
  model_use_lock workers (match backend with Some b => String.eqb b "sequential"%string | None => false end).
Proof. unfold GenPar.ESN_fit_use_lock, model_use_lock, backend_ne. rewrite Z.gtb_ltb. destruct backend; reflexivity. Qed.

Theorem gen_fit_tasks_own_data {T_esn T_x T_y LK T_w : Type} (new_lock : LK) (self : T_esn) (X : list T_x) (Y : list T_y) (warmup : T_w)
    (workers : Z) (backend : option String.string) (k : nat) (x : T_x) (y : T_y) :
  nth_error X k = Some x -> nth_error Y k = Some y ->
  nth_error (GenPar.ESN_fit_tasks new_lock self X Y warmup workers backend) k =
    Some (self, x, y, (if model_use_lock workers (match backend with Some b => String.eqb b "sequential"%string | None => false end)
                       then Some new_lock else None), warmup)
  /\ length (GenPar.ESN_fit_tasks new_lock self X Y warmup workers backend) = Nat.min (length X) (length Y).
Proof.
  intros HX HY. unfold GenPar.ESN_fit_tasks, py_zip. rewrite nth_error_map, map_length, combine_length, gen_fit_lock_rule. split; [|reflexivity].
  assert (HC : nth_error (combine X Y) k = Some (x, y)).
  { revert Y k HX HY. induction X as [|a X IH]; intros [|b Y] [|k] HX HY; try discriminate; cbn in *.
    - congruence.
    - apply IH; assumption. }
  rewrite HC. reflexivity.
Qed.

(* except Exception: self.readout.clean_buffers(); raise -- and the normal completion *)
Section FitOutcome.
Context {W LS T_esn T_x T_y LK T_w : Type}.
Variable pf : T_esn * T_x * T_y * option LK * T_w -> W -> W * res LS.
Variables (ib cb rf : W -> W) (srs : LS -> W -> W).

Theorem gen_fit_failure_cleans (order : list nat) (nl : LK) (self : T_esn) (X : list T_x) (Y : list T_y) (wu : T_w) (workers : Z)
    (backend : option String.string) (w w' : W) (e : pexc) :
  parallel_w order pf (GenPar.ESN_fit_tasks nl self X Y wu workers backend) (ib w) = (w', Raise e) ->
  GenPar.ESN_fit pf ib cb rf srs order nl self X Y wu workers backend w = (cb w', Raise e).
Proof. intros Hp. unfold GenPar.ESN_fit, try_reraise. rewrite Hp. reflexivity. Qed.

Theorem gen_fit_success (order : list nat) (nl : LK) (self : T_esn) (X : list T_x) (Y : list T_y) (wu : T_w) (workers : Z)
    (backend : option String.string) (w w' : W) (ls : list LS) (l : LS) :
  parallel_w order pf (GenPar.ESN_fit_tasks nl self X Y wu workers backend) (ib w) = (w', Ok ls) -> list_last ls = Ok l ->
  GenPar.ESN_fit pf ib cb rf srs order nl self X Y wu workers backend w = (rf (srs l w'), Ok tt).
Proof. intros Hp Hl. unfold GenPar.ESN_fit, try_reraise. rewrite Hp, Hl. reflexivity. Qed.
End FitOutcome.
