(* Tie (T) for the offline staging of Model.fit (C06): get_offline_subgraphs, _get_required_nodes and _get_links as GENERATED on
   this run from the current text of reservoirpy/utils/graphflow.py (coq/gen/Gen_staging.v, vocabulary base/PyColl.v +
   base/PyColl2.v) against the hand-written model/FitSem.v (get_offline_subgraphs, stages_loop, scan_step, required_from,
   get_links) about which the C06 staging theorems are stated.

   Parameters of the generated code and what is assumed about them:
     ord_n k s          the order in which Python iterates over the set s at conversion site k      : Permutation (ord_n k s) s
                        (sites 0, 1: list(entrypoints) / list(endpoints); site 2: `for n in previous` of _get_links; site 3:
                        the comprehension over `currs` of _get_required_nodes)
     sorted_by_name l   `sorted(list(edges), key=parent.name + child.name)`: the theorem is stated for an edge list that is
                        already in that order (srt (g_edges g) = g_edges g) -- this IS the convention of FitSem.v's g_edges
     is_trained_offline the attribute; agrees with the model's labelling on the nodes of the graph (off n = offline g n)
     is_trained_online  no node of the graph carries both rules (off n = true -> onl n = false): for a node with both, the real
                        loop never terminates -- open finding fit-staging:offline-and-online-node-hangs
   and NoDup (g_nodes g).  Fuel: S (S |nodes|) for the generated `while` (= the model's S |nodes|, which tests its condition
   before spending fuel).
   Representation: a generated set is SOME duplicate-free list; `trained` / `included` / `fitted` agree with the model's lists as
   SETS (they are only ever tested for membership), the stage node lists and edge lists are EQUAL as lists, the `links`
   dictionary of a stage is a PERMUTATION of the model's association list (its order is the iteration order of the Python set
   `previous`), and EQUAL to it when site 2 iterates in representation order (ord_n 2 s = s).
   No wf / acyclicity hypothesis is needed for the equalities. *)
From Coq Require Import List Arith Lia Bool Permutation ZArith.
From RV Require Import base.PyColl base.PyColl2 gen.Gen_staging model.FitSem proofs.FitSem_staging_proofs.
Import ListNotations.

(* ------------------------------------------------------------------ Python collections on nodes *)
Lemma pyin_mem (n : nat) (l : list nat) : py_in n l = mem n l.
Proof. reflexivity. Qed.

Definition seteq (a b : list nat) : Prop := forall x, In x a <-> In x b.

Lemma mem_seteq a b x : seteq a b -> mem x a = mem x b.
Proof. intros E. destruct (mem x b) eqn:Hb.
  - apply mem_In. apply E. now apply mem_In.
  - apply mem_false. intros Hi. apply mem_false in Hb. apply Hb. now apply E. Qed.
Lemma seteq_refl a : seteq a a.
Proof. intros x; tauto. Qed.
Lemma set_add_seteq a b x : seteq a b -> seteq (set_add a x) (x :: b).
Proof. intros E y. unfold set_add. rewrite pyin_mem. destruct (mem x a) eqn:Hx.
  - apply mem_In in Hx. simpl. split; [intros Hy; right; now apply E | intros [<-|Hy]; [exact Hx | now apply E]].
  - rewrite in_app_iff. simpl. rewrite (E y). tauto. Qed.

Lemma filter_neq_In2 (x y : nat) l : In y (filter (fun z => negb (py_eqb x z)) l) <-> In y l /\ y <> x.
Proof. rewrite filter_In. destruct (py_eqb_spec x y); simpl; intuition congruence. Qed.
Lemma py_set_In2 (x : nat) l : In x (py_set l) <-> In x l.
Proof. induction l as [|y l IH]; simpl; [tauto|]. rewrite filter_neq_In2, IH.
  destruct (Nat.eq_dec y x); [subst; tauto|]. intuition congruence. Qed.
Lemma NoDup_filter2 {A} (f : A -> bool) l : NoDup l -> NoDup (filter f l).
Proof. induction 1; simpl; [constructor|]. destruct (f x); auto. constructor; auto. rewrite filter_In. tauto. Qed.
Lemma py_set_NoDup2 (l : list nat) : NoDup (py_set l).
Proof. induction l as [|y l IH]; simpl; constructor.
  - rewrite filter_neq_In2. tauto.
  - now apply NoDup_filter2. Qed.
Lemma filter_neq_notin2 (x : nat) l : ~ In x l -> filter (fun z => negb (py_eqb x z)) l = l.
Proof. induction l as [|y l IH]; intros Hn; cbn [filter]; [reflexivity|].
  destruct (py_eqb_spec x y); cbn [negb].
  - exfalso. apply Hn. simpl; auto.
  - rewrite IH; auto. intros Hi. apply Hn. simpl; auto. Qed.
Lemma py_set_nodup_id (l : list nat) : NoDup l -> py_set l = l.
Proof. induction 1 as [|x l Hx Hnd IH]; cbn [py_set]; [reflexivity|]. rewrite IH. now rewrite filter_neq_notin2. Qed.
Lemma set_diff_In2 (x : nat) a b : In x (set_diff a b) <-> In x a /\ ~ In x b.
Proof. unfold set_diff. rewrite filter_In, negb_true_iff, pyin_mem, mem_false. tauto. Qed.
Lemma set_union_In2 (x : nat) a b : In x (set_union a b) <-> In x a \/ In x b.
Proof. unfold set_union. rewrite in_app_iff, set_diff_In2.
  destruct (mem x a) eqn:E; [apply mem_In in E | apply mem_false in E]; tauto. Qed.

Lemma set_eqb_seteq a b a' b' : seteq a a' -> seteq b b' -> py_set_eqb a b = set_eqb a' b'.
Proof. intros Ea Eb. unfold py_set_eqb, set_eqb, subset.
  assert (H1 : forall a b a' b', seteq a a' -> seteq b b' ->
               forallb (fun x : nat => py_in x b) a = true -> forallb (fun x => mem x b') a' = true).
  { intros p q p' q' Ep Eq Hf. rewrite forallb_forall in *. intros x Hx. rewrite <- (mem_seteq q q' x Eq).
    apply Hf. now apply Ep. }
  assert (H2 : forall a b a' b', seteq a a' -> seteq b b' ->
               forallb (fun x : nat => py_in x b) a = forallb (fun x => mem x b') a').
  { intros p q p' q' Ep Eq. destruct (forallb (fun x => mem x q') p') eqn:Hr.
    - apply (H1 p' q' p q); auto; intros x; [symmetry; apply Ep | symmetry; apply Eq].
    - destruct (forallb (fun x : nat => py_in x q) p) eqn:Hl; [|reflexivity].
      rewrite (H1 p q p' q' Ep Eq Hl) in Hr. discriminate. }
  rewrite (H2 a b a' b' Ea Eb), (H2 b a b' a' Eb Ea). reflexivity. Qed.

(* ------------------------------------------------------------------ defaultdict built by find_parents_and_children *)
Section DD.
Lemma dd_lookup_set2 (d : ddict node node) k v k' :
  dd_lookup (dd_set d k v) k' = if Nat.eqb k' k then Some v else dd_lookup d k'.
Proof. induction d as [|[k0 v0] d IH]; simpl.
  - reflexivity.
  - change (py_eqb k k0) with (Nat.eqb k k0). change (py_eqb k' k0) with (Nat.eqb k' k0).
    destruct (Nat.eqb_spec k k0); simpl; change (py_eqb k' k0) with (Nat.eqb k' k0).
    + subst. destruct (Nat.eqb_spec k' k0); reflexivity.
    + rewrite IH. destruct (Nat.eqb_spec k' k0), (Nat.eqb_spec k' k); try reflexivity. congruence. Qed.

Definition opt_app (o : option (list node)) (l : list node) : option (list node) :=
  match o with Some a => Some (a ++ l) | None => match l with [] => None | _ => Some l end end.

Lemma pc_fold_lookup (E : list edge) : forall (P C : ddict node node) v,
  let r := pure_for E (fun '(parents, children) edge_ =>
             let '(parent, child) := edge_ in
             let parents := dd_iadd parents child [parent] in
             let children := dd_iadd children parent [child] in (parents, children)) (P, C) in
  dd_lookup (fst r) v = opt_app (dd_lookup P v) (parents_in E v) /\
  dd_lookup (snd r) v = opt_app (dd_lookup C v) (children_in E v).
Proof.
  induction E as [|[p c] E IH]; intros P C v; cbn zeta.
  - unfold pure_for, parents_in, children_in. simpl. split.
    + destruct (dd_lookup P v); simpl; now rewrite ?app_nil_r.
    + destruct (dd_lookup C v); simpl; now rewrite ?app_nil_r.
  - unfold pure_for in *. cbn [fold_left]. cbn zeta in IH.
    destruct (IH (dd_iadd P c [p]) (dd_iadd C p [c]) v) as [H1 H2]. rewrite H1, H2. clear IH H1 H2.
    unfold dd_iadd, dd_getitem, dd_get. rewrite !dd_lookup_set2.
    unfold parents_in, children_in. cbn [filter map fst snd].
    rewrite (Nat.eqb_sym v c), (Nat.eqb_sym v p).
    split.
    + destruct (Nat.eqb_spec c v); subst; cbn [map fst snd].
      * destruct (dd_lookup P v); simpl; rewrite <- ?app_assoc; reflexivity.
      * reflexivity.
    + destruct (Nat.eqb_spec p v); subst; cbn [map fst snd].
      * destruct (dd_lookup C v); simpl; rewrite <- ?app_assoc; reflexivity.
      * reflexivity.
Qed.
End DD.

(* ------------------------------------------------------------------ small list facts *)
Lemma py_all_map {A} (f : A -> bool) l : py_all (map f l) = forallb f l.
Proof. unfold py_all. induction l as [|x l IH]; simpl; [reflexivity|]. now rewrite IH. Qed.

Lemma skipn_cons_inv {A} : forall k (l : list A) a r, skipn k l = a :: r -> nth_error l k = Some a /\ skipn (S k) l = r.
Proof. induction k as [|k IH]; intros l a r H.
  - destruct l as [|x l]; simpl in H; [discriminate|]. inversion H; subst. split; reflexivity.
  - destruct l as [|x l]; simpl in H; [discriminate|]. apply IH in H. exact H. Qed.

Lemma py_getitem_nat {A} (l : list A) k a : nth_error l k = Some a -> py_getitem l (Z.of_nat k) = Val a.
Proof. intros Hn. unfold py_getitem.
  assert (Hk : k < length l) by (apply nth_error_Some; congruence).
  replace (Z.of_nat k <? 0)%Z with false by (symmetry; apply Z.ltb_ge; lia).
  replace (0 <=? Z.of_nat k)%Z with true by (symmetry; apply Z.leb_le; lia).
  replace (Z.of_nat k <? Z.of_nat (length l))%Z with true by (symmetry; apply Z.ltb_lt; lia).
  cbn [andb]. rewrite Nat2Z.id, Hn. reflexivity. Qed.

Lemma nth_error_last {A} (l : list A) d : l <> [] -> nth_error l (length l - 1) = Some (last l d).
Proof. induction l as [|x l IH]; intros Hne; [congruence|]. destruct l as [|y l]; [reflexivity|].
  cbn [length]. replace (S (S (length l)) - 1) with (S (length (y :: l) - 1)) by (cbn [length]; lia).
  cbn [nth_error]. rewrite IH by congruence. reflexivity. Qed.

Lemma py_getitem_last {A} (l : list A) d : l <> [] -> py_getitem l (- 1)%Z = Val (last l d).
Proof. intros Hne. unfold py_getitem.
  assert (Hl : 0 < length l) by (destruct l; [congruence|simpl; lia]).
  replace (-1 <? 0)%Z with true by reflexivity.
  replace (0 <=? Z.of_nat (length l) + -1)%Z with true by (symmetry; apply Z.leb_le; lia).
  replace (Z.of_nat (length l) + -1 <? Z.of_nat (length l))%Z with true by (symmetry; apply Z.ltb_lt; lia).
  cbn [andb]. replace (Z.to_nat (Z.of_nat (length l) + -1)) with (length l - 1) by lia.
  rewrite (nth_error_last l d Hne). reflexivity. Qed.

Lemma last_map {A B} (f : A -> B) l d : last (map f l) (f d) = f (last l d).
Proof. induction l as [|x l IH]; [reflexivity|]. destruct l as [|y l]; [reflexivity|]. exact IH. Qed.

Lemma dd_set_fresh (d : ddict node node) k v : dd_lookup d k = None -> dd_set d k v = d ++ [(k, v)].
Proof. induction d as [|[k0 v0] d IH]; simpl; [reflexivity|].
  destruct (k =? k0); intros H; [discriminate|]. now rewrite IH. Qed.

Lemma forallb_ext2 {A} (f h : A -> bool) l : (forall x, f x = h x) -> forallb f l = forallb h l.
Proof. intros E. induction l as [|x l IH]; simpl; [reflexivity|]. now rewrite E, IH. Qed.

Lemma Forall2_eq_eq {A} (a b : list A) : Forall2 eq a b -> a = b.
Proof. induction 1; congruence. Qed.

(* ================================================================== the generated staging against model/FitSem.v *)
Section GenEq.
Variable ord_n : nat -> list node -> list node.
Variable srt : list edge -> list edge.
Variables off onl : node -> bool.
Hypothesis Hord : forall k s, Permutation (ord_n k s) s.
Variable g : graph.
Hypothesis Hsrt : srt (g_edges g) = g_edges g.
Hypothesis Hoff : forall n, off n = offline g n.
Hypothesis Honl : forall n, In n (g_nodes g) -> off n = true -> onl n = false.
Hypothesis Hnd : NoDup (g_nodes g).

Notation g_ee := (GenStaging.find_entries_and_exits ord_n).
Notation g_pc := (GenStaging.find_parents_and_children srt).
Notation g_links := (GenStaging._get_links ord_n).
Notation g_req := (GenStaging._get_required_nodes ord_n off).
Notation g_stg := (GenStaging.get_offline_subgraphs ord_n srt off onl).

Definition Ginputs := fst (g_ee (g_nodes g) (g_edges g)).
Definition Goutputs := snd (g_ee (g_nodes g) (g_edges g)).
Definition GP := fst (g_pc (g_edges g)).
Definition GC := snd (g_pc (g_edges g)).
Definition Gofflines := py_set (filter (fun n => andb (off n) (negb (onl n))) (g_nodes g)).

Lemma ord_mem k s x : mem x (ord_n k s) = mem x s.
Proof. apply mem_seteq. intros y. split; apply Permutation_in; [apply Hord | apply Permutation_sym, Hord]. Qed.

Lemma recv_In (E : list edge) x : In x (py_set (map (fun '(_, n) => n) E)) <-> exists e, In e E /\ snd e = x.
Proof. rewrite py_set_In2, in_map_iff. split.
  - intros [[a b] [H1 H2]]. exists (a, b). auto.
  - intros [[a b] [H1 H2]]. exists (a, b). auto. Qed.
Lemma send_In (E : list edge) x : In x (py_set (map (fun '(n, _) => n) E)) <-> exists e, In e E /\ fst e = x.
Proof. rewrite py_set_In2, in_map_iff. split.
  - intros [[a b] [H1 H2]]. exists (a, b). auto.
  - intros [[a b] [H1 H2]]. exists (a, b). auto. Qed.
Lemma is_input_spec n : is_input g n = true <-> ~ exists e, In e (g_edges g) /\ snd e = n.
Proof. unfold is_input. rewrite negb_true_iff. split.
  - intros Hf [e [He Hs]]. assert (Ht : existsb (fun e => snd e =? n) (g_edges g) = true).
    { apply existsb_exists. exists e. split; auto. now apply Nat.eqb_eq. } congruence.
  - intros Hn. destruct (existsb _ _) eqn:Hx; [|reflexivity]. exfalso. apply Hn.
    apply existsb_exists in Hx as [e [He Hs]]. exists e. split; auto. now apply Nat.eqb_eq. Qed.
Lemma is_output_spec n : is_output g n = true <-> ~ exists e, In e (g_edges g) /\ fst e = n.
Proof. unfold is_output. rewrite negb_true_iff. split.
  - intros Hf [e [He Hs]]. assert (Ht : existsb (fun e => fst e =? n) (g_edges g) = true).
    { apply existsb_exists. exists e. split; auto. now apply Nat.eqb_eq. } congruence.
  - intros Hn. destruct (existsb _ _) eqn:Hx; [|reflexivity]. exfalso. apply Hn.
    apply existsb_exists in Hx as [e [He Hs]]. exists e. split; auto. now apply Nat.eqb_eq. Qed.

(* `node in inputs` / `node not in outputs` on the nodes of the graph *)
Lemma inputs_spec n : In n (g_nodes g) -> mem n Ginputs = is_input g n.
Proof. intros Hn. unfold Ginputs, GenStaging.find_entries_and_exits. cbv zeta. cbn [fst]. rewrite ord_mem.
  apply eq_true_iff_eq. rewrite mem_In, is_input_spec, set_union_In2, !set_diff_In2, recv_In, send_In, py_set_In2.
  destruct (In_dec_nat n (map fst (g_edges g))) as [Hs|Hs].
  - assert (Hs' : exists e, In e (g_edges g) /\ fst e = n) by (apply in_map_iff in Hs as [e [H1 H2]]; exists e; auto). tauto.
  - assert (Hs' : ~ exists e, In e (g_edges g) /\ fst e = n).
    { intros [e [H1 H2]]. apply Hs. apply in_map_iff. exists e. auto. } tauto. Qed.
Lemma outputs_spec n : In n (g_nodes g) -> mem n Goutputs = is_output g n.
Proof. intros Hn. unfold Goutputs, GenStaging.find_entries_and_exits. cbv zeta. cbn [snd]. rewrite ord_mem.
  apply eq_true_iff_eq. rewrite mem_In, is_output_spec, set_union_In2, !set_diff_In2, recv_In, send_In, py_set_In2.
  destruct (In_dec_nat n (map snd (g_edges g))) as [Hs|Hs].
  - assert (Hs' : exists e, In e (g_edges g) /\ snd e = n) by (apply in_map_iff in Hs as [e [H1 H2]]; exists e; auto). tauto.
  - assert (Hs' : ~ exists e, In e (g_edges g) /\ snd e = n).
    { intros [e [H1 H2]]. apply Hs. apply in_map_iff. exists e. auto. } tauto. Qed.

(* the dictionaries: `parents.get(n)` is None exactly for an entry node; `children.get(n, [])` *)
Lemma pc_lookup v : dd_lookup GP v = opt_app None (parents g v) /\ dd_lookup GC v = opt_app None (children g v).
Proof. unfold GP, GC, GenStaging.find_parents_and_children. cbv zeta. rewrite Hsrt.
  pose proof (pc_fold_lookup (g_edges g) [] [] v) as Hf. cbv zeta in Hf.
  destruct (pure_for (g_edges g) _ _) as [P C] eqn:Er in Hf |- *. exact Hf. Qed.
Lemma parents_lookup v : is_input g v = false -> dd_lookup GP v = Some (parents g v).
Proof. intros Hi. rewrite (proj1 (pc_lookup v)). simpl. destruct (parents g v) eqn:Hp; [|reflexivity].
  apply is_input_parents in Hp. congruence. Qed.
Lemma children_get v : dd_get GC v [] = children g v.
Proof. unfold dd_get. rewrite (proj2 (pc_lookup v)). simpl. destruct (children g v); reflexivity. Qed.

Lemma offlines_seteq : seteq Gofflines (filter (offline g) (g_nodes g)).
Proof. intros x. unfold Gofflines. rewrite py_set_In2, !filter_In, <- Hoff. split.
  - intros [Hx Hb]. apply andb_true_iff in Hb. tauto.
  - intros [Hx Hb]. split; auto. rewrite Hb, (Honl x Hx Hb). reflexivity. Qed.

(* ------------------------------------------------------------------ the loops of the generated get_offline_subgraphs, copied
   here; [gen_staging_unfold] (by reflexivity) is the junction with the text generated on this run: a change of the source that
   changes the generated term breaks it. *)
Definition gcond (included : list nat) (node_ : nat) : py bool :=
  if (py_in node_ Ginputs) then Val true else (py_let it__9 := (py_iter (dd_lookup GP node_)) in
  Val (py_all (map (fun p => (py_in p included)) it__9))).

Definition gscan : list nat * list nat * list nat -> nat -> py (list nat * list nat * list nat) :=
  fun '(trained, subnodes, included) node_ =>
  py_let c__10 := gcond included node_ in
  let '(trained, subnodes, included) := (if c__10 then
  let '(trained, subnodes, included) := (if (andb (off node_) (negb (py_in node_ trained))) then
  let trained := set_add trained node_ in
  let subnodes := list_append subnodes node_ in
  (trained, subnodes, included)
  else
  let subnodes := (if (negb (py_in node_ Goutputs)) then
  let subnodes := list_append subnodes node_ in
  subnodes
  else
  subnodes) in
  let included := set_add included node_ in
  (trained, subnodes, included)) in
  (trained, subnodes, included)
  else
  (trained, subnodes, included)) in
  Val (trained, subnodes, included).

Definition wstate := (list nat * list nat * list (list nat * list (nat * nat)) * list nat)%type.
Definition gwcond : wstate -> bool :=
  fun '(trained, included, subgraphs, _nodes) => (negb (py_set_eqb trained Gofflines)).
Definition gwbody : wstate -> py wstate :=
  fun '(trained, included, subgraphs, _nodes) =>
  let subnodes := ([] : list nat) in
  py_bind (py_for _nodes gscan (trained, subnodes, included)) (fun '(trained, subnodes, included) =>
  let subedges := (filter (fun edge_ => (andb (py_in (fst edge_) subnodes) (py_in (snd edge_) subnodes))) (g_edges g)) in
  let subgraphs := list_append subgraphs (subnodes, subedges) in
  let _nodes := (filter (fun n => (negb (py_in n included))) (g_nodes g)) in
  Val (trained, included, subgraphs, _nodes)).
Definition gwfinal : wstate -> py (list (list nat * list (nat * nat) * ddict nat nat)) :=
  fun '(trained, included, subgraphs, _nodes) =>
  py_let required := (g_req subgraphs GC) in
  Val (combine subgraphs required).

Lemma gen_staging_unfold fuel :
  g_stg fuel (g_nodes g) (g_edges g) =
  py_bind (py_while fuel gwcond gwbody ([], [], [], g_nodes g)) gwfinal.
Proof. unfold GenStaging.get_offline_subgraphs, gwcond, gwbody, gwfinal, gscan, gcond, Ginputs, Goutputs, GP, GC, Gofflines.
  cbv zeta.
  destruct (g_ee (g_nodes g) (g_edges g)) as [en ex]. destruct (g_pc (g_edges g)) as [P C]. reflexivity. Qed.

(* ---- `for node in _nodes:` = fold_left scan_step *)
Lemma gcond_spec inc incl n : In n (g_nodes g) -> seteq inc incl ->
  gcond inc n = Val (is_input g n || forallb (fun p => mem p incl) (parents g n)).
Proof. intros Hn E. unfold gcond. rewrite pyin_mem, (inputs_spec n Hn). destruct (is_input g n) eqn:Hi; [reflexivity|].
  rewrite (parents_lookup n Hi). cbn [py_iter py_bind orb]. rewrite py_all_map. f_equal.
  apply forallb_ext2. intros p. rewrite pyin_mem. now apply mem_seteq. Qed.

Lemma gscan_step tr sub inc trn incl n sub' incl' trn' : In n (g_nodes g) -> seteq tr trn -> seteq inc incl ->
  scan_step g (sub, incl, trn) n = (sub', incl', trn') ->
  exists tr' inc', gscan (tr, sub, inc) n = Val (tr', sub', inc') /\ seteq tr' trn' /\ seteq inc' incl'.
Proof. intros Hn Et Ei. unfold gscan, scan_step. rewrite (gcond_spec inc incl n Hn Ei). cbn [py_bind].
  destruct (is_input g n || forallb (fun p => mem p incl) (parents g n)).
  - rewrite Hoff, (pyin_mem n tr), (mem_seteq tr trn n Et). destruct (offline g n && negb (mem n trn)).
    + intros H; inversion H; subst. eexists; eexists; split; [reflexivity|]. split; [now apply set_add_seteq|exact Ei].
    + rewrite (pyin_mem n Goutputs), (outputs_spec n Hn). intros H; inversion H; subst.
      destruct (is_output g n); cbn [negb]; (eexists; eexists; split; [reflexivity|]; split; [exact Et|now apply set_add_seteq]).
  - intros H; inversion H; subst. eexists; eexists; split; [reflexivity|]. auto. Qed.

Lemma gfor_sim : forall todo tr sub inc trn incl sub' incl' trn', (forall n, In n todo -> In n (g_nodes g)) ->
  seteq tr trn -> seteq inc incl ->
  fold_left (scan_step g) todo (sub, incl, trn) = (sub', incl', trn') ->
  exists tr' inc', py_for todo gscan (tr, sub, inc) = Val (tr', sub', inc') /\ seteq tr' trn' /\ seteq inc' incl'.
Proof. induction todo as [|n todo IH]; intros tr sub inc trn incl sub' incl' trn' Hin Et Ei Hf.
  - simpl in Hf. inversion Hf; subst. exists tr, inc. auto.
  - cbn [fold_left] in Hf. destruct (scan_step g (sub, incl, trn) n) as [[s1 i1] t1] eqn:Hs.
    destruct (gscan_step tr sub inc trn incl n s1 i1 t1 (Hin n (or_introl eq_refl)) Et Ei Hs) as [tr1 [inc1 [Hg [Et1 Ei1]]]].
    cbn [py_for]. rewrite Hg. apply (IH tr1 s1 inc1 t1 i1); auto. intros m Hm. apply Hin. now right. Qed.

(* ---- `while trained != offlines:` = stages_loop (the model tests its condition before spending fuel) *)
Lemma stages_loop_eq fuel todo incl trn acc :
  stages_loop g fuel todo incl trn acc =
  if set_eqb trn (filter (offline g) (g_nodes g)) then Some (rev acc) else
  match fuel with
  | O => None
  | S f => let '(sub, incl', trn') := fold_left (scan_step g) todo ([], incl, trn) in
           let subedges := filter (fun e => mem (fst e) sub && mem (snd e) sub) (g_edges g) in
           stages_loop g f (filter (fun n => negb (mem n incl')) (g_nodes g)) incl' trn' ((sub, subedges) :: acc)
  end.
Proof. destruct fuel; reflexivity. Qed.

Lemma py_while_S {St} f (cond : St -> bool) body s :
  py_while (S f) cond body s =
  if cond s then match body s with Val s' => py_while f cond body s' | Exc e => Exc e | OutOfFuel => OutOfFuel end else Val s.
Proof. reflexivity. Qed.
Lemma gwcond_eq tr inc sg nd trn : seteq tr trn ->
  gwcond (tr, inc, sg, nd) = negb (set_eqb trn (filter (offline g) (g_nodes g))).
Proof. intros Et. unfold gwcond. f_equal. exact (set_eqb_seteq tr Gofflines trn _ Et offlines_seteq). Qed.

Lemma gwbody_sim todo incl trn acc tr inc s1 i1 t1 : (forall n, In n todo -> In n (g_nodes g)) ->
  seteq tr trn -> seteq inc incl ->
  fold_left (scan_step g) todo ([], incl, trn) = (s1, i1, t1) ->
  exists tr1 inc1, seteq tr1 t1 /\ seteq inc1 i1 /\
    gwbody (tr, inc, rev acc, todo) =
    Val (tr1, inc1, rev ((s1, filter (fun e => mem (fst e) s1 && mem (snd e) s1) (g_edges g)) :: acc),
         filter (fun n => negb (mem n i1)) (g_nodes g)).
Proof. intros Hin Et Ei Hs. unfold gwbody. cbv zeta.
  destruct (gfor_sim todo tr [] inc trn incl s1 i1 t1 Hin Et Ei Hs) as [tr1 [inc1 [Hg [Et1 Ei1]]]].
  exists tr1, inc1. split; [exact Et1|]. split; [exact Ei1|].
  unfold node in *. rewrite Hg. cbn [py_bind]. unfold list_append. cbn [rev]. do 2 f_equal.
  apply filter_ext. intros n. f_equal. exact (mem_seteq inc1 i1 n Ei1). Qed.

Lemma gwhile_sim : forall f todo incl trn acc tr inc, (forall n, In n todo -> In n (g_nodes g)) ->
  seteq tr trn -> seteq inc incl ->
  match stages_loop g f todo incl trn acc with
  | Some subs => exists tr' inc' nd', py_while (S f) gwcond gwbody (tr, inc, rev acc, todo) = Val (tr', inc', subs, nd')
  | None => py_while (S f) gwcond gwbody (tr, inc, rev acc, todo) = OutOfFuel
  end.
Proof. induction f as [|f IH]; intros todo incl trn acc tr inc Hin Et Ei.
  - rewrite stages_loop_eq, py_while_S, (gwcond_eq tr inc (rev acc) todo trn Et).
    destruct (set_eqb trn (filter (offline g) (g_nodes g))); cbn [negb].
    + do 3 eexists; reflexivity.
    + destruct (fold_left (scan_step g) todo ([], incl, trn)) as [[s1 i1] t1] eqn:Hs.
      destruct (gwbody_sim todo incl trn acc tr inc s1 i1 t1 Hin Et Ei Hs) as [tr1 [inc1 [_ [_ Hb]]]].
      rewrite Hb. reflexivity.
  - rewrite stages_loop_eq, py_while_S, (gwcond_eq tr inc (rev acc) todo trn Et).
    destruct (set_eqb trn (filter (offline g) (g_nodes g))); cbn [negb].
    + do 3 eexists; reflexivity.
    + destruct (fold_left (scan_step g) todo ([], incl, trn)) as [[s1 i1] t1] eqn:Hs.
      destruct (gwbody_sim todo incl trn acc tr inc s1 i1 t1 Hin Et Ei Hs) as [tr1 [inc1 [Et1 [Ei1 Hb]]]].
      rewrite Hb. cbv zeta. apply IH; auto. intros n Hn. apply filter_In in Hn. tauto. Qed.

(* stage node lists are duplicate-free *)
Lemma scan_sub_nodup : forall todo sub incl trn, NoDup (sub ++ todo) ->
  NoDup (fst (fst (fold_left (scan_step g) todo (sub, incl, trn)))).
Proof. induction todo as [|n todo IH]; intros sub incl trn Hnd'.
  - simpl. now rewrite app_nil_r in Hnd'.
  - cbn [fold_left]. unfold scan_step at 2.
    assert (H1 : NoDup ((sub ++ [n]) ++ todo)) by (now rewrite <- app_assoc).
    assert (H2 : NoDup (sub ++ todo)) by (eapply NoDup_remove_1; exact Hnd').
    destruct (is_input g n || forallb (fun p => mem p incl) (parents g n)); [|apply IH; exact H2].
    destruct (offline g n && negb (mem n trn)); [apply IH; exact H1|].
    destruct (is_output g n); apply IH; assumption. Qed.

Lemma loop_nodup : forall f todo incl trn acc subs, NoDup todo -> Forall (fun p => NoDup (fst p)) acc ->
  stages_loop g f todo incl trn acc = Some subs -> Forall (fun p : list nat * list (nat * nat) => NoDup (fst p)) subs.
Proof. induction f as [|f IH]; intros todo incl trn acc subs Ht Ha; rewrite stages_loop_eq;
    destruct (set_eqb trn (filter (offline g) (g_nodes g))); try discriminate;
    try (intros H; inversion H; subst; apply Forall_rev; exact Ha).
  pose proof (scan_sub_nodup todo [] incl trn Ht) as Hs.
  destruct (fold_left (scan_step g) todo ([], incl, trn)) as [[s1 i1] t1]. cbn [fst] in Hs. cbv zeta.
  apply IH; [now apply NoDup_filter2 | constructor; auto]. Qed.

(* ------------------------------------------------------------------ _get_links *)
(* what one node of `previous` contributes to the links dictionary *)
Definition LF (nexts : list nat) (n : nat) : list (nat * list nat) :=
  if mem n nexts then [] else match filter (fun c => mem c nexts) (children g n) with [] => [] | cs => [(n, cs)] end.
Lemma get_links_LF previous nexts : get_links g previous nexts = flat_map (LF nexts) previous.
Proof. reflexivity. Qed.
Lemma LF_ext a b n : seteq a b -> LF a n = LF b n.
Proof. intros E. unfold LF. rewrite (mem_seteq a b n E).
  rewrite (filter_ext (fun c => mem c a) (fun c => mem c b)); [reflexivity|]. intros c. now apply mem_seteq. Qed.

Definition glstep (nexts : list nat) (children : ddict nat nat) : ddict nat nat -> nat -> ddict nat nat :=
  fun links n =>
  let next_children := ([] : list nat) in
  let next_children := (if (negb (py_in n nexts)) then
  let next_children := (map (fun c => (node_name c)) (filter (fun c => (py_in c nexts)) (dd_get children n []))) in
  next_children
  else
  next_children) in
  let links := (if (Nat.ltb 0 (length next_children)) then
  let links := dd_set links (node_name n) next_children in
  links
  else
  links) in
  links.
Lemma glinks_unfold previous nexts children :
  g_links previous nexts children = fold_left (glstep nexts children) (ord_n 2 previous) [].
Proof. reflexivity. Qed.

Lemma glstep_fold nexts : forall l acc, NoDup l -> (forall n, In n l -> dd_lookup acc n = None) ->
  fold_left (glstep nexts GC) l acc = acc ++ flat_map (LF nexts) l.
Proof. induction l as [|n l IH]; intros acc Hndl Hfresh.
  - simpl. now rewrite app_nil_r.
  - inversion Hndl as [|? ? Hn Hndl']; subst. cbn [fold_left flat_map].
    assert (Hstep : glstep nexts GC acc n = acc ++ LF nexts n /\
                    forall m, In m l -> dd_lookup (glstep nexts GC acc n) m = None).
    { unfold glstep, LF, node_name. cbv zeta. rewrite (pyin_mem n nexts), children_get.
      destruct (mem n nexts); cbn [negb length Nat.ltb Nat.leb].
      - rewrite app_nil_r. split; [reflexivity|]. intros m Hm. apply Hfresh. now right.
      - rewrite map_id. change (fun c : nat => py_in c nexts) with (fun c => mem c nexts).
        destruct (filter (fun c => mem c nexts) (children g n)) as [|c cs]; cbn [length Nat.ltb Nat.leb].
        + rewrite app_nil_r. split; [reflexivity|]. intros m Hm. apply Hfresh. now right.
        + split; [apply dd_set_fresh, Hfresh; now left|].
          intros m Hm. rewrite dd_lookup_set2. destruct (Nat.eqb_spec m n); [subst; contradiction|]. apply Hfresh. now right. }
    destruct Hstep as [Hs1 Hs2]. rewrite IH; auto. rewrite Hs1, <- app_assoc. reflexivity. Qed.

Lemma glinks_spec previous nexts : NoDup previous -> g_links previous nexts GC = flat_map (LF nexts) (ord_n 2 previous).
Proof. intros Hp. rewrite glinks_unfold, glstep_fold; [reflexivity| |reflexivity].
  eapply Permutation_NoDup; [apply Permutation_sym, Hord | exact Hp]. Qed.

(* ------------------------------------------------------------------ _get_required_nodes *)
(* R: how a generated links dictionary is related to the model's association list.  Only the iteration order of the Python
   set `previous` (site 2) separates them. *)
Variable R : list (nat * list nat) -> list (nat * list nat) -> Prop.
Hypothesis R_ord : forall f l, R (flat_map f (ord_n 2 l)) (flat_map f l).

Definition greq_body (subgraphs : list (list nat * list (nat * nat))) (children : ddict nat nat) :
    list (ddict nat nat) * list nat -> nat -> py (list (ddict nat nat) * list nat) :=
  fun '(req, fitted) i =>
  py_let ix__2 := (py_getitem subgraphs (((Z.of_nat i) - 1))%Z) in
  let currs := (py_set (fst ix__2)) in
  py_let ix__4 := (py_getitem subgraphs ((Z.of_nat i))%Z) in
  let nexts := (py_set (fst ix__4)) in
  let req := list_append req (g_links currs nexts children) in
  let fitted := set_union fitted (py_set (filter (fun node_ => (off node_)) (ord_n 3 currs))) in
  Val (req, fitted).
Definition greq_final (subgraphs : list (list nat * list (nat * nat))) (children : ddict nat nat) :
    list (ddict nat nat) * list nat -> py (list (ddict nat nat)) :=
  fun '(req, fitted) =>
  py_let ix__6 := (py_getitem subgraphs ((- 1))%Z) in
  let nexts := (py_set (filter (fun n => (andb (off n) (negb (py_in n fitted)))) (fst ix__6))) in
  py_let ix__8 := (py_getitem subgraphs ((- 1))%Z) in
  let currs := (py_set (filter (fun n => (orb (negb (off n)) (py_in n fitted))) (fst ix__8))) in
  let req := list_append req (g_links currs nexts children) in
  Val req.
Lemma greq_unfold subgraphs children :
  g_req subgraphs children =
  py_bind (py_for (py_range 1 (length subgraphs)) (greq_body subgraphs children) ([], [])) (greq_final subgraphs children).
Proof. reflexivity. Qed.

(* the model's required_from, split into its loop and its last entry *)
Fixpoint req_loop (fitted : list nat) (subs : list (list nat)) : list (list (nat * list nat)) * list nat :=
  match subs with
  | cur :: ((nxt :: _) as rest) =>
      let '(r, f) := req_loop (filter (offline g) cur ++ fitted) rest in (get_links g cur nxt :: r, f)
  | _ => ([], fitted)
  end.
Definition req_last (fitted last : list nat) : list (nat * list nat) :=
  get_links g (filter (fun n => negb (offline g n) || mem n fitted) last) (filter (fun n => offline g n && negb (mem n fitted)) last).
Lemma req_loop_cons fitted cur nxt rest :
  req_loop fitted (cur :: nxt :: rest) =
  let '(r, f) := req_loop (filter (offline g) cur ++ fitted) (nxt :: rest) in (get_links g cur nxt :: r, f).
Proof. reflexivity. Qed.
Lemma required_from_loop : forall subs fitted, subs <> [] ->
  required_from g fitted subs = fst (req_loop fitted subs) ++ [req_last (snd (req_loop fitted subs)) (last subs [])].
Proof. induction subs as [|cur subs IH]; intros fitted Hne; [congruence|].
  destruct subs as [|nxt rest]; [reflexivity|].
  change (required_from g fitted (cur :: nxt :: rest))
    with (get_links g cur nxt :: required_from g (filter (offline g) cur ++ fitted) (nxt :: rest)).
  change (req_loop fitted (cur :: nxt :: rest))
    with (let '(r, f) := req_loop (filter (offline g) cur ++ fitted) (nxt :: rest) in (get_links g cur nxt :: r, f)).
  change (last (cur :: nxt :: rest) []) with (last (nxt :: rest) (@nil nat)).
  rewrite IH by congruence.
  destruct (req_loop (filter (offline g) cur ++ fitted) (nxt :: rest)) as [r f]. reflexivity. Qed.

Section Req.
Variable SUBS : list (list nat * list (nat * nat)).
Hypothesis HSnd : Forall (fun p : list nat * list (nat * nat) => NoDup (fst p)) SUBS.

Lemma greq_loop : forall sfx k req fit fitm, skipn k SUBS = sfx -> sfx <> [] -> seteq fit fitm ->
  exists R' fit', py_for (seq (S k) (length sfx - 1)) (greq_body SUBS GC) (req, fit) = Val (req ++ R', fit') /\
                  Forall2 R R' (fst (req_loop fitm (map fst sfx))) /\ seteq fit' (snd (req_loop fitm (map fst sfx))).
Proof. induction sfx as [|cur sfx IH]; intros k req fit fitm Hk Hne Ef; [congruence|].
  destruct sfx as [|nxt rest].
  - exists [], fit. cbn. rewrite app_nil_r. auto.
  - destruct (skipn_cons_inv k SUBS cur (nxt :: rest) Hk) as [Hc Hk1].
    destruct (skipn_cons_inv (S k) SUBS nxt rest Hk1) as [Hn _].
    assert (Hcnd : NoDup (fst cur)).
    { rewrite Forall_forall in HSnd. apply HSnd. eapply nth_error_In; eauto. }
    cbn [length]. replace (S (S (length rest)) - 1) with (S (length rest)) by lia. cbn [seq py_for].
    unfold greq_body at 1.
    replace (Z.of_nat (S k) - 1)%Z with (Z.of_nat k) by lia.
    rewrite (py_getitem_nat SUBS k cur Hc). cbn [py_bind]. cbv zeta.
    rewrite (py_getitem_nat SUBS (S k) nxt Hn). cbn [py_bind].
    rewrite (py_set_nodup_id (fst cur) Hcnd).
    set (fit1 := set_union fit (py_set (filter (fun node_ => off node_) (ord_n 3 (fst cur))))).
    assert (Ef1 : seteq fit1 (filter (offline g) (fst cur) ++ fitm)).
    { intros x. unfold fit1. rewrite set_union_In2, py_set_In2, in_app_iff, !filter_In, Hoff, (Ef x).
      split.
      - intros [H|[H1 H2]]; [now right|left; split; auto]. eapply Permutation_in; [apply Hord | exact H1].
      - intros [[H1 H2]|H]; [right; split; auto|now left]. eapply Permutation_in; [apply Permutation_sym, Hord | exact H1]. }
    destruct (IH (S k) (list_append req (g_links (fst cur) (py_set (fst nxt)) GC)) fit1
                 (filter (offline g) (fst cur) ++ fitm) Hk1 ltac:(congruence) Ef1) as [R1 [fit' [Hf [HR Hfit]]]].
    cbn [length] in Hf. replace (S (length rest) - 0) with (S (length rest)) in Hf by lia.
    replace (S (length rest) - 1) with (length rest) in Hf by lia.
    exists (g_links (fst cur) (py_set (fst nxt)) GC :: R1), fit'.
    cbn [map]. rewrite req_loop_cons. cbn [map] in HR, Hfit.
    destruct (req_loop (filter (offline g) (fst cur) ++ fitm) (fst nxt :: map fst rest)) as [r f]. cbn [fst snd] in *.
    split; [|split; [|exact Hfit]].
    + unfold node in *. rewrite Hf. unfold list_append. now rewrite <- app_assoc.
    + constructor; [|exact HR]. rewrite (glinks_spec _ _ Hcnd), get_links_LF.
      rewrite (flat_map_ext (LF (py_set (fst nxt))) (LF (fst nxt))); [apply R_ord|].
      intros a. apply LF_ext. intros x. apply py_set_In2. Qed.

Lemma greq_spec : SUBS <> [] ->
  exists req, g_req SUBS GC = Val req /\ Forall2 R req (required_from g [] (map fst SUBS)).
Proof. intros Hne. rewrite greq_unfold. unfold py_range.
  destruct (greq_loop SUBS 0 [] [] [] eq_refl Hne (seteq_refl [])) as [R' [fit' [Hf [HR Hfit]]]].
  cbn [app] in Hf. unfold edge, node in *. rewrite Hf. cbn [py_bind]. unfold greq_final.
  rewrite (py_getitem_last SUBS ([], []) Hne). cbn [py_bind]. cbv zeta.
  assert (Hlnd : NoDup (fst (last SUBS ([], [])))).
  { rewrite Forall_forall in HSnd. apply HSnd. destruct (exists_last Hne) as [l' [a Ha]]. rewrite Ha, last_last.
    apply in_or_app. right. now left. }
  eexists. split; [reflexivity|].
  rewrite required_from_loop by (destruct SUBS; [congruence|discriminate]).
  unfold list_append. apply Forall2_app; [exact HR|]. constructor; [|constructor].
  change (last (map fst SUBS) []) with (last (map fst SUBS) (fst (@nil nat, @nil (nat * nat)))). rewrite last_map. unfold req_last.
  set (lastn := fst (last SUBS ([], []))) in *. set (fm := snd (req_loop [] (map fst SUBS))) in *.
  rewrite !py_set_nodup_id by (now apply NoDup_filter2).
  rewrite (glinks_spec _ _ (NoDup_filter2 _ _ Hlnd)), get_links_LF.
  assert (E1 : filter (fun n => negb (off n) || py_in n fit') lastn = filter (fun n => negb (offline g n) || mem n fm) lastn).
  { apply filter_ext. intros n. rewrite Hoff, (pyin_mem n fit'), (mem_seteq fit' fm n Hfit). reflexivity. }
  assert (E2 : filter (fun n => off n && negb (py_in n fit')) lastn = filter (fun n => offline g n && negb (mem n fm)) lastn).
  { apply filter_ext. intros n. rewrite Hoff, (pyin_mem n fit'), (mem_seteq fit' fm n Hfit). reflexivity. }
  unfold node in *. rewrite E1, E2. apply R_ord. Qed.
End Req.

(* ------------------------------------------------------------------ get_offline_subgraphs *)
Definition gfuel : nat := S (S (length (g_nodes g))).

Theorem gen_staging_R :
  match stages_loop g (S (length (g_nodes g))) (g_nodes g) [] [] [] with
  | None => g_stg gfuel (g_nodes g) (g_edges g) = OutOfFuel
  | Some [] => g_stg gfuel (g_nodes g) (g_edges g) = Exc IndexError
  | Some subs => exists req, g_stg gfuel (g_nodes g) (g_edges g) = Val (combine subs req) /\
                             Forall2 R req (required_from g [] (map fst subs))
  end.
Proof.
  unfold gfuel. rewrite gen_staging_unfold.
  pose proof (gwhile_sim (S (length (g_nodes g))) (g_nodes g) [] [] [] [] [] (fun n H => H) (seteq_refl _) (seteq_refl _)) as Hw.
  pose proof (loop_nodup (S (length (g_nodes g))) (g_nodes g) [] [] []) as Hn.
  destruct (stages_loop g (S (length (g_nodes g))) (g_nodes g) [] [] []) as [subs|].
  - destruct Hw as [tr' [inc' [nd' Hw]]]. cbn [rev] in Hw. unfold edge, node in *. rewrite Hw. cbn [py_bind]. unfold gwfinal.
    specialize (Hn subs Hnd (Forall_nil _) eq_refl).
    destruct subs as [|s0 subs]; [reflexivity|].
    destruct (greq_spec (s0 :: subs) Hn ltac:(discriminate)) as [req [Hq HR]].
    unfold edge, node in *. rewrite Hq. exists req. split; [reflexivity|exact HR].
  - cbn [rev] in Hw. unfold edge, node in *. rewrite Hw. reflexivity.
Qed.
End GenEq.

(* ------------------------------------------------------------------ stage level *)
Definition unstage (s : stage) : list nat * list (nat * nat) * list (nat * list nat) := (s_nodes s, s_edges s, s_rel s).
Definition mkstage (p : list nat * list (nat * nat) * list (nat * list nat)) : stage :=
  mkStage (fst (fst p)) (snd (fst p)) (snd p).

Lemma combine_rel (R : list (nat * list nat) -> list (nat * list nat) -> Prop) :
  forall (subs : list (list nat * list (nat * nat))) req reqm, Forall2 R req reqm -> length reqm = length subs ->
  map (fun x => fst (fst x)) (combine subs req) = map s_nodes (map mkstage (combine subs reqm)) /\
  map (fun x => snd (fst x)) (combine subs req) = map s_edges (map mkstage (combine subs reqm)) /\
  Forall2 (fun x s => R (snd x) (s_rel s)) (combine subs req) (map mkstage (combine subs reqm)).
Proof. induction subs as [|s subs IH]; intros req reqm HR Hl.
  - simpl. auto.
  - destruct HR as [|r rm req reqm Hr HR]; [discriminate|]. simpl in Hl.
    destruct (IH req reqm HR ltac:(lia)) as [H1 [H2 H3]]. cbn [combine map]. rewrite H1, H2.
    split; [reflexivity|]. split; [reflexivity|]. constructor; auto. Qed.

Section Top.
Variable ord_n : nat -> list node -> list node.
Variable srt : list edge -> list edge.
Variables off onl : node -> bool.
Hypothesis Hord : forall k s, Permutation (ord_n k s) s.
Variable g : graph.
Hypothesis Hsrt : srt (g_edges g) = g_edges g.
Hypothesis Hoff : forall n, off n = offline g n.
Hypothesis Honl : forall n, In n (g_nodes g) -> off n = true -> onl n = false.
Hypothesis Hnd : NoDup (g_nodes g).

Notation g_stg := (GenStaging.get_offline_subgraphs ord_n srt off onl (gfuel g) (g_nodes g) (g_edges g)).

(* for EVERY iteration order of the Python sets: same stages, same node lists, same edge lists; the relations of every stage
   are the model's up to the order of the dictionary entries *)
Theorem gen_staging_is_model_perm :
  match FitSem.get_offline_subgraphs g with
  | Some stg => exists out, g_stg = Val out /\
                  map (fun x => fst (fst x)) out = map s_nodes stg /\ map (fun x => snd (fst x)) out = map s_edges stg /\
                  Forall2 (fun x s => Permutation (snd x) (s_rel s)) out stg
  | None => g_stg = OutOfFuel \/ g_stg = Exc IndexError
  end.
Proof.
  pose proof (gen_staging_R ord_n srt off onl Hord g Hsrt Hoff Honl Hnd (@Permutation _)
                (fun f l => Permutation_flat_map f (Hord 2 l))) as H.
  unfold FitSem.get_offline_subgraphs.
  destruct (stages_loop g (S (length (g_nodes g))) (g_nodes g) [] [] []) as [[|s0 subs]|]; [right; exact H| |left; exact H].
  destruct H as [req [Hq HR]]. exists (combine (s0 :: subs) req). split; [exact Hq|].
  apply (combine_rel (@Permutation _) (s0 :: subs) req _ HR). rewrite length_required_from. apply map_length. Qed.

(* when the set `previous` of _get_links is iterated in its representation order: EQUAL *)
Theorem gen_staging_is_model : (forall s, ord_n 2 s = s) ->
  match FitSem.get_offline_subgraphs g with
  | Some stg => g_stg = Val (map unstage stg)
  | None => g_stg = OutOfFuel \/ g_stg = Exc IndexError
  end.
Proof.
  intros Hid.
  pose proof (gen_staging_R ord_n srt off onl Hord g Hsrt Hoff Honl Hnd eq
                (fun f l => f_equal (flat_map f) (Hid l))) as H.
  unfold FitSem.get_offline_subgraphs.
  destruct (stages_loop g (S (length (g_nodes g))) (g_nodes g) [] [] []) as [[|s0 subs]|]; [right; exact H| |left; exact H].
  destruct H as [req [Hq HR]]. apply Forall2_eq_eq in HR. subst req. rewrite Hq. f_equal.
  rewrite map_map. symmetry. etransitivity; [|apply map_id]. apply map_ext. intros [[a b] c]. reflexivity. Qed.

(* ---- transfer of the unbounded staging theorems (proofs/FitSem_staging_proofs.v) to the generated code ---- *)
Hypothesis Hwf : wf_dagb g = true.

(* the generated `while trained != offlines` never runs out of fuel, never raises TypeError (`for p in parents.get(node)`), and
   the only exception is the IndexError of `subgraphs[-1]` for a model without offline node *)
Theorem gen_staging_terminates :
  (filter (offline g) (g_nodes g) = [] /\ g_stg = Exc IndexError) \/
  (filter (offline g) (g_nodes g) <> [] /\ exists out, g_stg = Val out).
Proof.
  pose proof gen_staging_is_model_perm as H. destruct (staging_terminates g Hwf) as [[subs Hs] Hnone].
  destruct (FitSem.get_offline_subgraphs g) as [stg|] eqn:Hg.
  - right. split.
    + intros Hf. apply Hnone in Hf. discriminate.
    + destruct H as [out [Ho _]]. exists out. exact Ho.
  - left. split; [now apply Hnone|].
    unfold FitSem.get_offline_subgraphs in Hg. rewrite Hs in Hg.
    pose proof (gen_staging_R ord_n srt off onl Hord g Hsrt Hoff Honl Hnd (@Permutation _)
                  (fun f l => Permutation_flat_map f (Hord 2 l))) as HR.
    rewrite Hs in HR. destruct subs as [|s0 subs]; [exact HR|discriminate]. Qed.

(* every offline node is trained in exactly one stage of the staging returned by the generated code *)
Theorem gen_staging_trains_each_once out :
  g_stg = Val out ->
  let T := train_sets g [] (map (fun x => fst (fst x)) out) in
  NoDup (concat T) /\ (forall v, In v (concat T) <-> (In v (g_nodes g) /\ offline g v = true)).
Proof.
  intros Ho. pose proof gen_staging_is_model_perm as H.
  destruct (FitSem.get_offline_subgraphs g) as [stg|] eqn:Hg.
  - destruct H as [out' [Ho' [Hn _]]]. rewrite Ho in Ho'. inversion Ho'; subst out'. rewrite Hn.
    exact (staging_trains_each_once g Hwf stg Hg).
  - destruct H as [H|H]; rewrite Ho in H; discriminate. Qed.
End Top.
