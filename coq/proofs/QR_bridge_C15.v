(* C15: the verdict [chk_pair] of the correspondence runner (run/RunC01.v), read at R.

   [chk_pair] runs model/Reservoir.v at Q from two start states on the same inputs, compares both trajectories with what
   reservoirpy returned, certifies sigma (sigma >= 0, sigma^2 >= squared Frobenius norm of W) and evaluates EXACTLY, on the
   model's own rational numbers, the squared contraction inequality of C15_step_contraction_squared at every step
       |xa[t] - xb[t]|^2 <= rho^2 * |xa[t-1] - xb[t-1]|^2,   rho = (1 - lr) + lr * sigma,
   and (when [box]) that every component stays in [-1, 1].
   With proofs/QR_bridge_C01.v (the run at Q embeds onto the run at R) and the order part of [NumHom] (Qle_bool reflects <= on
   the embedded reals), [chk_pair ... = true] implies those very inequalities OVER R for the R-instance of the model -- the
   object of the theorems of props/C15.v -- on the embedded parameters, start states and inputs; the Frobenius certificate is
   delivered in the form C15_frobenius_bound consumes.  Exact activations only (identity, relu, hard-tanh, x/2); no other side
   condition. *)
From Coq Require Import Reals QArith Qreals List Bool Arith Lra.
From RV Require Import base.Num base.LA base.NumHom model.Reservoir proofs.ESP_proofs proofs.QR_bridge_C01.
Import ListNotations.
Close Scope Q_scope.
Close Scope R_scope.

(* the runner's [contracting], as a proposition over R *)
Fixpoint contractingR (rho2 prev : R) (ds : list R) : Prop :=
  match ds with
  | [] => True
  | d :: ds' => (d <= rho2 * prev)%R /\ contractingR rho2 d ds'
  end.
(* consequence: geometric decay of the squared distances *)
Lemma contractingR_geometric (rho2 : R) : (0 <= rho2)%R -> forall ds prev, contractingR rho2 prev ds ->
  forall t, t < length ds -> (nth t ds 0 <= rho2 ^ (S t) * prev)%R.
Proof.
  intros H0 ds. induction ds as [|d ds IH]; intros prev Hc t Ht; [inversion Ht|].
  destruct Hc as [Hd Hc]. destruct t as [|t].
  - cbn [nth]. simpl pow. lra.
  - cbn [nth]. cbn [length] in Ht. apply Nat.succ_lt_mono in Ht. specialize (IH d Hc t Ht).
    apply Rle_trans with (1 := IH).
    assert (Hp : (0 <= rho2 ^ S t)%R) by (apply pow_le, H0).
    replace (rho2 ^ S (S t) * prev)%R with (rho2 ^ S t * (rho2 * prev))%R by (simpl pow; ring).
    apply Rmult_le_compat_l; assumption.
Qed.
Definition in_boxR (v : list R) : Prop := Forall (fun x => (-1 <= x <= 1)%R) v.

From RV Require Import run.RunC01.

Lemma Q2R_0c : Q2R 0%Q = 0%R.
Proof. change (Q2R 0) with (Q2R n0). apply Q2R_n0. Qed.
Lemma Q2R_1c : Q2R 1%Q = 1%R.
Proof. change (Q2R 1) with (Q2R n1). apply Q2R_n1. Qed.

(* squared distance and squared Frobenius norm: the runner's rational functions embed onto the real ones of the theorems *)
Lemma Q2R_dist2 (a b : list Q) : Q2R (dist2 a b) = vnorm2 (vsub (qv2r a) (qv2r b)).
Proof. unfold dist2. rewrite (hom_vnorm2 Q2R), (ev_vsub Q2R). reflexivity. Qed.
Lemma Q2R_frob2 (W : list (list Q)) : Q2R (RunC01.frob2 W) = ESP_proofs.frob2 (qm2r W).
Proof.
  induction W as [|row W IH]; [apply Q2R_0c|].
  change (Q2R (Qred (vnorm2 row + RunC01.frob2 W)) = (vnorm2 (qv2r row) + ESP_proofs.frob2 (qm2r W))%R).
  rewrite Q2R_Qred, Q2R_plus, IH, (hom_vnorm2 Q2R). reflexivity.
Qed.
Lemma Q2R_dists (oa ob : list (list Q)) :
  map Q2R (map (fun p => dist2 (fst p) (snd p)) (combine oa ob))
  = map (fun p => vnorm2 (vsub (fst p) (snd p))) (combine (qm2r oa) (qm2r ob)).
Proof.
  revert ob. induction oa as [|a oa IH]; intros [|b ob]; cbn [combine map fst snd]; try reflexivity.
  rewrite Q2R_dist2, IH. reflexivity.
Qed.
Lemma contracting_R (rho2 prev : Q) (ds : list Q) :
  contracting rho2 prev ds = true -> contractingR (Q2R rho2) (Q2R prev) (map Q2R ds).
Proof.
  revert prev. induction ds as [|d ds IH]; intros prev Hx; cbn [contracting map contractingR] in *; [exact I|].
  apply andb_true_iff in Hx. destruct Hx as [Hd Hc]. split; [|apply IH, Hc].
  apply Qle_bool_iff, Qle_Rle in Hd. rewrite Q2R_Qred, Q2R_mult in Hd. exact Hd.
Qed.
Lemma in_box_R (v : list Q) : in_box v = true -> in_boxR (qv2r v).
Proof.
  unfold in_box, in_boxR. induction v as [|x v IH]; cbn; intros Hx; constructor.
  - apply andb_true_iff in Hx. destruct Hx as [Hx _]. apply andb_true_iff in Hx. destruct Hx as [Hl Hu].
    apply Qle_bool_iff, Qle_Rle in Hl. apply Qle_bool_iff, Qle_Rle in Hu. rewrite Q2R_opp, Q2R_1c in Hl. rewrite Q2R_1c in Hu. lra.
  - apply andb_true_iff in Hx. apply IH, Hx.
Qed.
Lemma all_in_box_R (o : list (list Q)) : forallb in_box o = true -> Forall in_boxR (qm2r o).
Proof.
  induction o as [|v o IH]; cbn; intros Hx; constructor; apply andb_true_iff in Hx; [apply in_box_R | apply IH]; apply Hx.
Qed.

Lemma chk_pair_is_about_R_model (W Win : list (list Q)) (bias : list Q) (lr sigma : Q) (act : actc) (box : bool)
    (ra rb : list Q) (us : list (list Q)) (outsa outsb : list (list Q)) :
  exact_act act = true ->
  chk_pair W Win bias lr sigma act box ra rb us outsa outsb = true ->
  let cR := cfg2r (mkcfg W Win bias None (LrS lr) act AId) (act_funR act) (act_funR AId) in
  let xs := map in2r (map mkin (combine us (map (fun _ => []) us))) in
  let oa := run_outputs Internal cR ([], qv2r ra) xs in
  let ob := run_outputs Internal cR ([], qv2r rb) xs in
  let rho := ((1 - Q2R lr) + Q2R lr * Q2R sigma)%R in
  mrclose oa (qm2r outsa) /\ mrclose ob (qm2r outsb) /\
  (0 <= Q2R sigma)%R /\ (ESP_proofs.frob2 (qm2r W) <= Q2R sigma * Q2R sigma)%R /\ (0 <= Q2R lr <= 1)%R /\
  contractingR (rho * rho)%R (vnorm2 (vsub (qv2r ra) (qv2r rb))) (map (fun p => vnorm2 (vsub (fst p) (snd p))) (combine oa ob)) /\
  (box = true -> Forall in_boxR oa /\ Forall in_boxR ob).
Proof.
  intros Ea. unfold chk_pair. cbv zeta.
  set (c := mkcfg W Win bias None (LrS lr) act AId).
  set (xs := map mkin (combine us (map (fun _ => []) us))).
  assert (Ha : forall v, qv2r (ract c v) = act_funR act (qv2r v)) by (apply act_fun_rel, Ea).
  assert (Hf : forall v, qv2r (rfbact c v) = act_funR AId (qv2r v)) by (apply act_fun_rel; reflexivity).
  change ([], qv2r ra) with (st2r ([], ra)). change ([], qv2r rb) with (st2r ([], rb)).
  rewrite <- !(em_run_outputs Q2R c _ _ Ha Hf).
  intros Hx. repeat (apply andb_true_iff in Hx; destruct Hx as [Hx ?]).
  repeat match goal with Hq : Qle_bool _ _ = true |- _ => apply Qle_bool_iff, Qle_Rle in Hq end.
  rewrite ?Q2R_0c, ?Q2R_1c, ?Q2R_Qred, ?Q2R_mult in *.
  split; [apply mclose_mrclose; assumption|]. split; [apply mclose_mrclose; assumption|].
  split; [assumption|]. split; [rewrite <- Q2R_frob2; assumption|]. split; [split; assumption|]. split.
  - match goal with Hc : contracting _ _ _ = true |- _ => apply contracting_R in Hc; rename Hc into HC end.
    rewrite Q2R_dist2, Q2R_dists, !Q2R_Qred, Q2R_mult, Q2R_Qred, Q2R_plus, Q2R_minus, Q2R_mult, Q2R_1c in HC. exact HC.
  - intros ->. match goal with Hb : (negb true || _) = true |- _ => cbn in Hb; apply andb_true_iff in Hb; destruct Hb as [Hb1 Hb2] end.
    split; apply all_in_box_R; assumption.
Qed.

(* the premise is satisfiable: 2 units, hard-tanh, lr = 1/2, sigma = 7/8 (sigma^2 = 49/64 >= 9/16 = |W|_F^2), three steps from
   two different start states; observed rows = the exact ones *)
Definition c15_W : list (list Q) := [[(1#2)%Q; 0%Q]; [(1#4)%Q; (1#2)%Q]].
Definition c15_Win : list (list Q) := [[1%Q]; [(-2#1)%Q]].
Definition c15_us : list (list Q) := [[(1#4)%Q]; [(-1#2)%Q]; [(3#1)%Q]].
Definition c15_run (r0 : list Q) : list (list Q) :=
  run_outputs Internal (mkcfg c15_W c15_Win [(1#2)%Q; 0%Q] None (LrS (1#2)%Q) AHard AId) ([], r0)
              (map mkin (combine c15_us (map (fun _ => []) c15_us))).
Example chk_pair_example :
  chk_pair c15_W c15_Win [(1#2)%Q; 0%Q] (1#2)%Q (7#8)%Q AHard true [1%Q; 1%Q] [(-1#1)%Q; 0%Q] c15_us
           (c15_run [1%Q; 1%Q]) (c15_run [(-1#1)%Q; 0%Q]) = true /\
  c15_run [1%Q; 1%Q] <> c15_run [(-1#1)%Q; 0%Q].
Proof. split; [vm_compute; reflexivity | vm_compute; discriminate]. Qed.
