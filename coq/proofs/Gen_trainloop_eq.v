(* Tie (T) for the ONLINE TRAINING LOOP of C10: the loop GENERATED on this run from the current text of reservoirpy/_base.py :: train
   (coq/gen/Gen_trainloop.v, translator tools/vlib/py2coq_loop.py, vocabulary base/LoopPrelude.v) IS the loop model of model/Online.v
   ([train] / [train_loop]) the theorems C10_gate / C10_output_pre_update / C10_rls_invariant are about -- for every sequence, every
   learn_every, call_node on and off, teachers forced or not, targets from a teacher node or from Y or absent.  For every Num instance.

   The generated code is generic in the operations on the node (Section variables).  Here they are instantiated with the node the hand model
   describes: a learner state [St] with a forward function [fwd] and a learning step [upd] that reads the node's CURRENT state as its prediction
   (readouts/base.py _compute_error: prediction = node.state()), plus what the hand model leaves implicit and the loop can touch:
   the current state, the LOG of set_state_proxy calls, and the stream of values a registered teacher node will deliver. *)
From Coq Require Import List Arith Bool Lia.
From RV Require Import base.Num base.LA base.ListX base.LoopPrelude model.Online proofs.Online_loop_proofs gen.Gen_trainloop.
Import ListNotations.

(* ------------------------------------------------------------------ list facts *)
Section Lists.
Context {A : Type}.

Lemma last_cons_default (l : list A) : forall a d, last (a :: l) d = last l a.
Proof. induction l as [|b l IH]; intros a d; [reflexivity|]. change (last (a :: b :: l) d) with (last (b :: l) d). rewrite !IH. reflexivity. Qed.

Lemma skipn_S_tl (l : list A) m : skipn (S m) l = skipn m (tl l).
Proof. destruct l; cbn [tl skipn]; [rewrite skipn_nil|]; reflexivity. Qed.

Lemma nth_S_tl (l : list A) j d : nth (S j) l d = nth j (tl l) d.
Proof. destruct l; cbn [tl nth]; [destruct j|]; reflexivity. Qed.

End Lists.

Section SetRow.
Context {F : Type} `{Num F}.
Notation vec := (list F).

Lemma np_set_row_length (M : list vec) i s : i < length M -> length (np_set_row M i s) = length M.
Proof.
  intros Hi. unfold np_set_row. rewrite app_length, firstn_length_le by lia.
  destruct (skipn i M) as [|r rest] eqn:E.
  - exfalso. assert (L : length (skipn i M) = 0) by (rewrite E; reflexivity). rewrite skipn_length in L. lia.
  - assert (L : length (skipn i M) = S (length rest)) by (rewrite E; reflexivity). rewrite skipn_length in L. cbn [length]. lia.
Qed.

Lemma np_set_row_firstn (M : list vec) i s : i < length M -> firstn (S i) (np_set_row M i s) = firstn i M ++ [s].
Proof.
  intros Hi. unfold np_set_row.
  destruct (skipn i M) as [|r rest] eqn:E.
  - exfalso. assert (L : length (skipn i M) = 0) by (rewrite E; reflexivity). rewrite skipn_length in L. lia.
  - rewrite firstn_app, firstn_length_le by lia. replace (S i - i) with 1 by lia.
    rewrite firstn_all2 by (rewrite firstn_length_le; lia). reflexivity.
Qed.

Lemma np_zeros2_length r c : length (np_zeros2 (F:=F) r c) = r.
Proof. apply repeat_length. Qed.
End SetRow.

Lemma py_for_ext {A S} (it : list A) (b1 b2 : A -> S -> S) st : (forall a s, b1 a s = b2 a s) -> py_for it b1 st = py_for it b2 st.
Proof. intros E. unfold py_for. revert st. induction it as [|a it IH]; intros st; cbn [fold_left]; [reflexivity|]. rewrite E. apply IH. Qed.

(* ------------------------------------------------------------------ the node of the hand model *)
Section TrainLoopEq.
Context {F : Type} `{Num F} {St : Type}.
Notation vec := (list F).
Notation mat := (list (list F)).
Variable fwd : St -> vec -> vec.
Variable upd : St -> vec -> vec -> vec -> St.          (* state, x, y, prediction: exactly Online.v's *)

Record world := { w_st : St;                            (* the learned parameters (Online.v's state) *)
                  w_cur : vec;                          (* node.state() *)
                  w_proxy : list (option vec);          (* the arguments of the set_state_proxy calls so far, oldest first *)
                  w_teach : option (list vec) }.        (* node._teacher: None, or the values the teacher node will deliver, next first *)

(* a missing target (y = None) reaches the learning step as the empty vector *)
Definition oy (y : option vec) : vec := match y with Some v => v | None => [] end.

Definition i_has_teacher (w : world) : bool := match w_teach w with Some _ => true | None => false end.
Definition i_teacher_call (w : world) : world * vec :=
  ({| w_st := w_st w; w_cur := w_cur w; w_proxy := w_proxy w; w_teach := option_map (@tl vec) (w_teach w) |},
   match w_teach w with Some ts => hd [] ts | None => [] end).
(* _base.call: forward with the current parameters; the result becomes the node's state *)
Definition i_call (w : world) (x : vec) : world * vec :=
  ({| w_st := w_st w; w_cur := fwd (w_st w) x; w_proxy := w_proxy w; w_teach := w_teach w |}, fwd (w_st w) x).
Definition i_state (w : world) : vec := w_cur w.
Definition i_set_proxy (w : world) (y : option vec) : world :=
  {| w_st := w_st w; w_cur := w_cur w; w_proxy := w_proxy w ++ [y]; w_teach := w_teach w |}.
(* node._train(node, x=x, y=y): the learning step; its prediction is node.state() *)
Definition i_train (w : world) (x : vec) (y : option vec) : world :=
  {| w_st := upd (w_st w) x (oy y) (w_cur w); w_cur := w_cur w; w_proxy := w_proxy w; w_teach := w_teach w |}.
(* the context manager when it changes nothing: from_state=None, stateful=True, reset=False (C08) *)
Definition ws_plain (A : Type) (w : world) (fs : option vec) (sf rs : bool) (body : world -> world * A) : world * A := body w.

(* the generated loop on that node, under any context manager WS *)
Definition gtrain (odim : nat) WS := GenTrainLoop.train world (fun _ => odim) i_has_teacher i_teacher_call i_call i_state i_set_proxy i_train WS.

(* what the loop's forward pass is: the node's forward function when call_node, the (never changing) current state otherwise *)
Definition fwdc (cn : bool) (c : vec) : St -> vec -> vec := if cn then fwd else fun _ _ => c.

(* the target of step i, counted from step a on: the teacher's (i - a)-th next value | Y[i] | None *)
Definition y_at (Y : option mat) (T : option (list vec)) (a i : nat) : option vec :=
  match T with
  | Some ts => Some (nth (i - a) ts [])
  | None => match Y with Some Y => Some (nth i Y []) | None => None end
  end.
(* the samples of steps a .. a+m-1 as the hand model takes them *)
Definition xy_of (X : mat) (Y : option mat) (T : option (list vec)) (a m : nat) : list (vec * vec) :=
  map (fun i => (nth i X [], oy (y_at Y T a i))) (seq a m).

(* one iteration of the loop, on the hand model's node *)
Definition step1 (cn ft : bool) (k : nat) (single : bool) (X : mat) (Y : option mat) (i : nat) (st : world * mat) : world * mat :=
  let '(w, states) := st in
  let x := nth i X [] in
  let '(w1, y) := if i_has_teacher w then let '(w', t) := i_teacher_call w in (w', Some t)
                  else (w, match Y with Some Y => Some (nth i Y []) | None => None end) in
  let '(w2, s) := if cn then i_call w1 x else (w1, i_state w1) in
  let w3 := if ft then i_set_proxy w2 y else w2 in
  let w4 := if gate k single i then i_train w3 x y else w3 in
  (w4, np_set_row states i s).

Lemma y_at_shift Y T a i : S a <= i -> y_at Y (option_map (@tl vec) T) (S a) i = y_at Y T a i.
Proof.
  intros Hi. unfold y_at. destruct T as [ts|]; cbn [option_map]; [|reflexivity].
  replace (i - a) with (S (i - S a)) by lia. rewrite nth_S_tl. reflexivity.
Qed.

(* the loop invariant: folding the iteration over steps a .. a+m-1 IS Online.v's train_loop from position a on those samples *)
Lemma loop_inv (cn ft : bool) (k : nat) (single : bool) (X : mat) (Y : option mat) : forall m a (w : world) (states : mat),
  length states = a + m ->
  let T := w_teach w in
  let R := train_loop (fwdc cn (w_cur w)) upd k single a (w_st w) (xy_of X Y T a m) in
  fold_left (fun st i => step1 cn ft k single X Y i st) (seq a m) (w, states) =
    ({| w_st := fst R; w_cur := last (snd R) (w_cur w);
        w_proxy := w_proxy w ++ (if ft then map (y_at Y T a) (seq a m) else []);
        w_teach := option_map (skipn m) T |},
     firstn a states ++ snd R).
Proof.
  induction m as [|m IH]; intros a w states Hl; cbn zeta.
  - cbn [seq fold_left xy_of map train_loop fst snd last]. rewrite !app_nil_r.
    rewrite firstn_all2 by lia. destruct w as [s c p [ts|]], ft; cbn; rewrite ?app_nil_r; reflexivity.
  - cbn [seq fold_left]. unfold xy_of. cbn [seq map]. fold (xy_of X Y (w_teach w) a (S m)).
    (* the first iteration *)
    set (x := nth a X []). set (y := y_at Y (w_teach w) a a).
    set (p := fwdc cn (w_cur w) (w_st w) x).
    set (s1 := if gate k single a then upd (w_st w) x (oy y) p else w_st w).
    set (w4 := {| w_st := s1; w_cur := p; w_proxy := w_proxy w ++ (if ft then [y] else []);
                  w_teach := option_map (@tl vec) (w_teach w) |}).
    assert (E1 : step1 cn ft k single X Y a (w, states) = (w4, np_set_row states a p)).
    { unfold step1, w4, s1, p, y, x, y_at, fwdc, i_has_teacher, i_teacher_call, i_call, i_state, i_set_proxy, i_train.
      rewrite Nat.sub_diag.
      destruct w as [s c pr [ts|]]; cbn [w_st w_cur w_proxy w_teach option_map];
        destruct cn, ft, (gate k single a); cbn [w_st w_cur w_proxy w_teach option_map oy];
        rewrite ?app_nil_r; try reflexivity; destruct ts; reflexivity. }
    rewrite E1.
    rewrite (IH (S a) w4 (np_set_row states a p)) by (rewrite np_set_row_length; lia).
    cbn zeta. cbn [w_st w_cur w_proxy w_teach w4].
    (* the samples of the remaining steps are the same *)
    assert (EX : xy_of X Y (option_map (@tl vec) (w_teach w)) (S a) m = map (fun i => (nth i X [], oy (y_at Y (w_teach w) a i))) (seq (S a) m)).
    { unfold xy_of. apply map_ext_in. intros i Hi. apply in_seq in Hi. rewrite y_at_shift by lia. reflexivity. }
    rewrite EX.
    assert (EF : fwdc cn p = fwdc cn (w_cur w)).
    { unfold p, fwdc. destruct cn; reflexivity. }
    rewrite EF.
    cbn [train_loop]. fold x y p s1.
    destruct (train_loop (fwdc cn (w_cur w)) upd k single (S a) s1 _) as [s2 outs] eqn:ER.
    cbn [fst snd].
    f_equal.
    + f_equal.
      * symmetry. apply last_cons_default.
      * rewrite <- app_assoc. f_equal. destruct ft; [|reflexivity]. cbn [app map]. f_equal.
        apply map_ext_in. intros i Hi. apply in_seq in Hi. apply y_at_shift. lia.
      * destruct (w_teach w) as [ts|]; cbn [option_map]; [|reflexivity]. rewrite skipn_S_tl. reflexivity.
    + rewrite np_set_row_firstn by lia. rewrite <- app_assoc. reflexivity.
Qed.

(* ------------------------------------------------------------------ the generated function *)
(* Under ANY context manager WS (that only looks at what its body computes), the generated train is WS applied to the generated loop *)
Theorem gen_train_under_with_state (odim : nat) (WS : forall A : Type, world -> option vec -> bool -> bool -> (world -> world * A) -> world * A) :
  (forall A w fs sf rs (b1 b2 : world -> world * A), (forall w', b1 w' = b2 w') -> WS A w fs sf rs b1 = WS A w fs sf rs b2) ->
  forall w X Y cn ft k fs sf rs,
  gtrain odim WS w X Y cn ft k fs sf rs = WS mat w fs sf rs (fun w' => gtrain odim ws_plain w' X Y cn ft k None true false).
Proof.
  intros Hext w X Y cn ft k fs sf rs. unfold gtrain, GenTrainLoop.train.
  match goal with |- (let '(a, b) := ?P in (a, b)) = _ => transitivity P; [destruct P; reflexivity|] end.
  apply Hext. intros w'. unfold ws_plain.
  match goal with |- ?P = (let '(a, b) := ?Q in (a, b)) => change Q with P; destruct P; reflexivity end.
Qed.

(* MAIN: the generated train (plain context manager) is Online.v's [train] on the samples the loop reads, with forward function [fwdc];
   the learned state, the node's final state, every set_state_proxy call, the teacher's position and the returned rows *)
Theorem gen_train_eq (odim : nat) (w : world) (X : mat) (Y : option mat) (cn ft : bool) (k : nat) fs sf rs :
  let T := w_teach w in
  let xy := xy_of X Y T 0 (length X) in
  let R := train (fwdc cn (w_cur w)) upd k (w_st w) xy in
  gtrain odim ws_plain w X Y cn ft k fs sf rs =
    ({| w_st := fst R; w_cur := last (snd R) (w_cur w);
        w_proxy := w_proxy w ++ (if ft then map (y_at Y T 0) (seq 0 (length X)) else []);
        w_teach := option_map (skipn (length X)) T |},
     snd R).
Proof.
  cbn zeta. unfold gtrain, GenTrainLoop.train, ws_plain.
  assert (ES : (if py_gt (np_shape0 X) 1 then py_progress (py_range (np_shape0 X)) else py_range (np_shape0 X)) = seq 0 (length X)).
  { destruct (py_gt (np_shape0 X) 1); reflexivity. }
  rewrite ES.
  rewrite (py_for_ext _ _ (step1 cn ft k (length X =? 1) X Y)).
  2:{ intros i [w' states]. unfold step1, gate, py_eq, py_mod, np_shape0, np_atleast_2d_row, np_row.
      destruct (i_has_teacher w'); [destruct (i_teacher_call w')|]; destruct Y, cn, ft; try destruct (i_call _ _); reflexivity. }
  unfold py_for.
  rewrite (loop_inv cn ft k (length X =? 1) X Y (length X) 0 w) by (rewrite np_zeros2_length; reflexivity).
  cbn zeta. cbn [firstn app]. unfold train.
  replace (length (xy_of X Y (w_teach w) 0 (length X))) with (length X) by (unfold xy_of; rewrite map_length, seq_length; reflexivity).
  reflexivity.
Qed.

(* ------------------------------------------------------------------ the samples, in the usual cases *)
Lemma map_nth_seq {A} (l : list A) d : map (fun i => nth i l d) (seq 0 (length l)) = l.
Proof.
  induction l as [|a l IH]; [reflexivity|]. cbn [length seq map nth]. f_equal.
  rewrite <- seq_shift, map_map. exact IH.
Qed.

(* arrays X, Y of the same length, no teacher node: the samples are the rows, paired *)
Lemma xy_of_arrays (xy : list (vec * vec)) :
  xy_of (map fst xy) (Some (map snd xy)) None 0 (length (map fst xy)) = xy.
Proof.
  unfold xy_of, y_at, oy. rewrite map_length.
  induction xy as [|[x y] xy IH]; [reflexivity|]. cbn [length seq map nth fst snd]. f_equal.
  rewrite <- seq_shift, map_map. exact IH.
Qed.

(* a registered teacher node delivering ys (one value per step): it is what the learner sees, whatever Y is *)
Lemma xy_of_teacher (xs ys : list vec) (Y : option mat) : length ys = length xs ->
  xy_of xs Y (Some ys) 0 (length xs) = combine xs ys.
Proof.
  unfold xy_of, y_at, oy. revert ys. induction xs as [|x xs IH]; intros [|y ys] Hl; cbn [length] in *; try lia; [reflexivity|].
  cbn [seq map nth combine Nat.sub]. f_equal. rewrite <- seq_shift, map_map. rewrite <- (IH ys) by lia.
  apply map_ext. intros i. rewrite !Nat.sub_0_r. reflexivity.
Qed.

(* ------------------------------------------------------------------ corollaries used by props/C10.v *)
(* supervised by arrays *)
Theorem gen_train_arrays_eq (odim : nat) (s : St) (c : vec) (pr : list (option vec)) (xy : list (vec * vec)) (cn ft : bool) (k : nat) fs sf rs :
  let w := {| w_st := s; w_cur := c; w_proxy := pr; w_teach := None |} in
  let R := train (fwdc cn c) upd k s xy in
  gtrain odim ws_plain w (map fst xy) (Some (map snd xy)) cn ft k fs sf rs =
    ({| w_st := fst R; w_cur := last (snd R) c; w_proxy := pr ++ (if ft then map (fun p => Some (snd p)) xy else []); w_teach := None |}, snd R).
Proof.
  cbn zeta. rewrite gen_train_eq. cbn [w_st w_cur w_proxy w_teach option_map]. rewrite xy_of_arrays.
  f_equal. f_equal. f_equal. destruct ft; [|reflexivity].
  unfold y_at. rewrite map_length, <- (map_length snd xy).
  rewrite <- (map_map (fun i => nth i (map snd xy) []) Some), map_nth_seq, map_map. reflexivity.
Qed.

(* supervised by a teacher node (Y ignored) *)
Theorem gen_train_teacher_eq (odim : nat) (s : St) (c : vec) (pr : list (option vec)) (xs ys more : list vec) (Y : option mat) (cn ft : bool) (k : nat) fs sf rs :
  length ys = length xs ->
  let w := {| w_st := s; w_cur := c; w_proxy := pr; w_teach := Some (ys ++ more) |} in
  let R := train (fwdc cn c) upd k s (combine xs ys) in
  gtrain odim ws_plain w xs Y cn ft k fs sf rs =
    ({| w_st := fst R; w_cur := last (snd R) c; w_proxy := pr ++ (if ft then map Some ys else []); w_teach := Some more |}, snd R).
Proof.
  intros Hl. cbn zeta. rewrite gen_train_eq. cbn [w_st w_cur w_proxy w_teach option_map].
  assert (EX : xy_of xs Y (Some (ys ++ more)) 0 (length xs) = combine xs ys).
  { rewrite <- (xy_of_teacher xs ys Y Hl). unfold xy_of. apply map_ext_in. intros i Hi. apply in_seq in Hi.
    unfold y_at. rewrite app_nth1 by lia. reflexivity. }
  rewrite EX. f_equal. f_equal.
  - f_equal. destruct ft; [|reflexivity]. unfold y_at. rewrite <- Hl.
    rewrite <- (map_nth_seq ys []) at 2. rewrite map_map. apply map_ext_in. intros i Hi. apply in_seq in Hi.
    rewrite Nat.sub_0_r, app_nth1 by lia. reflexivity.
  - rewrite <- Hl, skipn_app, skipn_all, Nat.sub_diag. reflexivity.
Qed.

(* C10_gate and C10_output_pre_update, transferred to the GENERATED loop (arrays; call_node on: the forward function is the node's) *)
Theorem gen_train_gate (odim : nat) (s : St) (c : vec) pr (xy : list (vec * vec)) (cn ft : bool) (k : nat) fs sf rs :
  let w := {| w_st := s; w_cur := c; w_proxy := pr; w_teach := None |} in
  w_st (fst (gtrain odim ws_plain w (map fst xy) (Some (map snd xy)) cn ft k fs sf rs))
  = fold_left (learn1 (fwdc cn c) upd) (selected k xy) s.
Proof. cbn zeta. rewrite gen_train_arrays_eq. cbn [fst w_st]. apply train_gate. Qed.

Theorem gen_train_output_pre_update (odim : nat) (s : St) (c : vec) pr (xy : list (vec * vec)) (cn ft : bool) (k : nat) fs sf rs i d dx :
  i < length xy ->
  let w := {| w_st := s; w_cur := c; w_proxy := pr; w_teach := None |} in
  nth i (snd (gtrain odim ws_plain w (map fst xy) (Some (map snd xy)) cn ft k fs sf rs)) d
  = fwdc cn c (fst (train_loop (fwdc cn c) upd k (length xy =? 1) 0 s (firstn i xy))) (fst (nth i xy dx)).
Proof. intros Hi. cbn zeta. rewrite gen_train_arrays_eq. cbn [snd]. apply train_output_pre_update. exact Hi. Qed.

(* set_state_proxy is called once per step with that step's target when teachers are forced, and NEVER otherwise *)
Theorem gen_train_proxy (odim : nat) (s : St) (c : vec) pr (xy : list (vec * vec)) (cn ft : bool) (k : nat) fs sf rs :
  let w := {| w_st := s; w_cur := c; w_proxy := pr; w_teach := None |} in
  w_proxy (fst (gtrain odim ws_plain w (map fst xy) (Some (map snd xy)) cn ft k fs sf rs))
  = pr ++ (if ft then map (fun p => Some (snd p)) xy else []).
Proof. cbn zeta. rewrite gen_train_arrays_eq. reflexivity. Qed.

End TrainLoopEq.

(* ================================================================================================================
   The wrapper reservoirpy/node.py :: Node.train, translated into the `outcome` monad of base/LoopPrelude.v (GenTrainLoop.node_method_train).
   No hand model exists for it; the statements below are proved ABOUT THE GENERATED DEFINITION, for arbitrary operations on the node
   (every one of them a Section variable: nothing is assumed about check_xy, initialize, the loop's operations, with_state). *)
Section NodeTrain.
Context {F : Type} `{Num F} {W UX UY : Type}.
Notation vec := (list F).
Notation mat := (list (list F)).
Variables (output_dim : W -> nat) (has_teacher : W -> bool) (teacher_call : W -> W * vec) (bcall : W -> vec -> W * vec) (nstate : W -> vec)
          (set_proxy : W -> option vec -> W) (ntrain : W -> vec -> option vec -> W)
          (WS : forall A : Type, W -> option vec -> bool -> bool -> (W -> W * A) -> W * A).
Variables (online : W -> bool) (check_xy : W -> UX -> UY -> outcome W (mat * option mat)) (initialized : W -> bool) (has_iter : UY -> bool)
          (initialize : W -> vec -> option vec -> outcome W unit) (init_buffers : W -> outcome W unit) (unregister : W -> W).

(* the generated loop and the generated wrapper on those operations *)
Definition gloop := GenTrainLoop.train W output_dim has_teacher teacher_call bcall nstate set_proxy ntrain WS.
Definition gnode := GenTrainLoop.node_method_train W output_dim has_teacher teacher_call bcall nstate set_proxy ntrain WS
                      UX UY online check_xy initialized has_iter initialize init_buffers unregister.

(* the loop as Node.train calls it: ITS `call` is the loop's call_node, force_teachers is force_teachers (the two are swapped between the signatures) *)
Definition run_loop (w : W) (X_ : mat) (Y_ : option mat) (force_teachers call : bool) (k : nat) fs sf rs : outcome W mat :=
  let '(w', states) := gloop w X_ Y_ call force_teachers k fs sf rs in Done (unregister w') states.

(* a node without an online rule: TypeError, nothing touched, check_xy not even called *)
Theorem gnode_refuses w X Y ft cl k fs sf rs : online w = false -> gnode w X Y ft cl k fs sf rs = Raised w TypeError.
Proof. intros E. unfold gnode, GenTrainLoop.node_method_train. rewrite E. reflexivity. Qed.

(* refused by check_xy: its exception, the world as check_xy left it (the try block has not been entered) *)
Theorem gnode_check_raises w X Y ft cl k fs sf rs w1 e :
  online w = true -> check_xy w X Y = Raised w1 e -> gnode w X Y ft cl k fs sf rs = Raised w1 e.
Proof. intros E C. unfold gnode, GenTrainLoop.node_method_train. rewrite E, C. reflexivity. Qed.

(* an initialised node: the loop on the checked arrays, then the teacher is un-registered *)
Theorem gnode_initialized w X Y ft cl k fs sf rs w1 X_ Y_ :
  online w = true -> check_xy w X Y = Done w1 (X_, Y_) -> initialized w1 = true ->
  gnode w X Y ft cl k fs sf rs = run_loop w1 X_ Y_ ft cl k fs sf rs.
Proof.
  intros E C I. unfold gnode, GenTrainLoop.node_method_train, run_loop, gloop. rewrite E, C. cbn [negb obind]. rewrite I. cbn [negb].
  destruct (GenTrainLoop.train _ _ _ _ _ _ _ _ _ _ _ _ _ _ _ _ _ _) as [w' st]. reflexivity.
Qed.

(* first use: initialize(x = X_[0], y = Y_[0] if Y is iterable else None), then initialize_buffers, then the loop, then un-registration;
   a failing initialisation still un-registers the teacher *)
Theorem gnode_first_use w X Y ft cl k fs sf rs w1 x0 Xr Y_ y0 :
  online w = true -> check_xy w X Y = Done w1 (x0 :: Xr, Y_) -> initialized w1 = false ->
  (if has_iter Y then exists Yr, Y_ = Some (match y0 with Some r => r | None => [] end :: Yr) /\ y0 <> None else y0 = None) ->
  gnode w X Y ft cl k fs sf rs =
    match initialize w1 x0 y0 with
    | Raised w2 e => Raised (unregister w2) e
    | Done w2 _ => match init_buffers w2 with
                   | Raised w3 e => Raised (unregister w3) e
                   | Done w3 _ => run_loop w3 (x0 :: Xr) Y_ ft cl k fs sf rs
                   end
    end.
Proof.
  intros E C I HY. unfold gnode, GenTrainLoop.node_method_train, run_loop, gloop. rewrite E, C. cbn [negb obind]. rewrite I.
  cbn [negb py_index0 obind]. unfold np_atleast_2d_row.
  destruct (has_iter Y).
  - destruct HY as [Yr [-> Hy]]. destruct y0 as [r|]; [|congruence]. cbn [py_opt_index0 py_index0 obind].
    destruct (initialize w1 x0 (Some r)) as [w2 []|w2 e]; cbn [obind py_try_finally]; [|reflexivity].
    destruct (init_buffers w2) as [w3 []|w3 e]; cbn [obind py_try_finally]; [|reflexivity].
    destruct (GenTrainLoop.train _ _ _ _ _ _ _ _ _ _ _ _ _ _ _ _ _ _) as [w' st]. reflexivity.
  - subst y0.
    destruct (initialize w1 x0 None) as [w2 []|w2 e]; cbn [obind py_try_finally]; [|reflexivity].
    destruct (init_buffers w2) as [w3 []|w3 e]; cbn [obind py_try_finally]; [|reflexivity].
    destruct (GenTrainLoop.train _ _ _ _ _ _ _ _ _ _ _ _ _ _ _ _ _ _) as [w' st]. reflexivity.
Qed.

(* what follows the first-use test once x_init / y_init are known *)
Definition init_then_loop (w1 : W) (x0 : vec) (y0 : option vec) (X_ : mat) (Y_ : option mat) (ft cl : bool) (k : nat) fs sf rs : outcome W mat :=
  match initialize w1 x0 y0 with
  | Raised w2 e => Raised (unregister w2) e
  | Done w2 _ => match init_buffers w2 with
                 | Raised w3 e => Raised (unregister w3) e
                 | Done w3 _ => run_loop w3 X_ Y_ ft cl k fs sf rs
                 end
  end.

Theorem gnode_first_use_with_target w X Y ft cl k fs sf rs w1 x0 Xr r Yr :
  online w = true -> check_xy w X Y = Done w1 (x0 :: Xr, Some (r :: Yr)) -> initialized w1 = false -> has_iter Y = true ->
  gnode w X Y ft cl k fs sf rs = init_then_loop w1 x0 (Some r) (x0 :: Xr) (Some (r :: Yr)) ft cl k fs sf rs.
Proof.
  intros E C I HI. unfold init_then_loop. apply (gnode_first_use w X Y ft cl k fs sf rs w1 x0 Xr (Some (r :: Yr)) (Some r) E C I).
  rewrite HI. exists Yr. split; [reflexivity|discriminate].
Qed.

Theorem gnode_first_use_without_target w X Y ft cl k fs sf rs w1 x0 Xr Y_ :
  online w = true -> check_xy w X Y = Done w1 (x0 :: Xr, Y_) -> initialized w1 = false -> has_iter Y = false ->
  gnode w X Y ft cl k fs sf rs = init_then_loop w1 x0 None (x0 :: Xr) Y_ ft cl k fs sf rs.
Proof.
  intros E C I HI. unfold init_then_loop. apply (gnode_first_use w X Y ft cl k fs sf rs w1 x0 Xr Y_ None E C I).
  rewrite HI. reflexivity.
Qed.


(* once check_xy has accepted the data, EVERY path -- normal or raising -- ends with the un-registration of the teacher *)
Theorem gnode_always_unregisters w X Y ft cl k fs sf rs w1 p :
  online w = true -> check_xy w X Y = Done w1 p -> exists w', world_of (gnode w X Y ft cl k fs sf rs) = unregister w'.
Proof.
  intros E C. unfold gnode, GenTrainLoop.node_method_train. rewrite E, C. destruct p as [X_ Y_]. cbn [negb obind].
  destruct (initialized w1); cbn [negb].
  - destruct (GenTrainLoop.train _ _ _ _ _ _ _ _ _ _ _ _ _ _ _ _ _ _) as [w' st]. eexists. reflexivity.
  - destruct X_ as [|x0 Xr]; cbn [py_index0 obind py_try_finally world_of]; [eexists; reflexivity|].
    destruct (has_iter Y).
    + destruct Y_ as [[|y0 Yr]|]; cbn [py_opt_index0 py_index0 obind py_try_finally world_of]; try (eexists; reflexivity).
      destruct (initialize _ _ _) as [w2 []|w2 e]; cbn [obind py_try_finally world_of]; [|eexists; reflexivity].
      destruct (init_buffers w2) as [w3 []|w3 e]; cbn [obind py_try_finally world_of]; [|eexists; reflexivity].
      destruct (GenTrainLoop.train _ _ _ _ _ _ _ _ _ _ _ _ _ _ _ _ _ _) as [w' st]. eexists. reflexivity.
    + destruct (initialize _ _ _) as [w2 []|w2 e]; cbn [obind py_try_finally world_of]; [|eexists; reflexivity].
      destruct (init_buffers w2) as [w3 []|w3 e]; cbn [obind py_try_finally world_of]; [|eexists; reflexivity].
      destruct (GenTrainLoop.train _ _ _ _ _ _ _ _ _ _ _ _ _ _ _ _ _ _) as [w' st]. eexists. reflexivity.
Qed.
End NodeTrain.
