(* C09 — proofs about model/Conc.v: the lock invariant, the any-schedule theorem, mutual exclusion, the sequential
   schedule terminates, the lost update without the lock, and _sort_and_unpack.  No axioms. *)
From Coq Require Import List Arith Bool Lia ZArith Permutation Sorted.
From RV Require Import model.Conc.
Import ListNotations.

(* ------------------------------------------------------------------ commutative monoid of contributions *)
Section Monoid.
Variable A : Type.
Variable add : A -> A -> A.
Variable zero : A.
Hypothesis add_assoc : forall a b c, add a (add b c) = add (add a b) c.
Hypothesis add_comm : forall a b, add a b = add b a.
Hypothesis add_0_r : forall a, add a zero = a.

Definition msum (l : list A) : A := fold_right add zero l.

Lemma add_0_l a : add zero a = a.
Proof. rewrite add_comm. apply add_0_r. Qed.

Lemma msum_app l1 l2 : msum (l1 ++ l2) = add (msum l1) (msum l2).
Proof. induction l1 as [|a l1 IH]; cbn; [symmetry; apply add_0_l|]. fold (msum (l1 ++ l2)). rewrite IH.
  apply add_assoc. Qed.

Lemma msum_perm l l' : Permutation l l' -> msum l = msum l'.
Proof.
  induction 1 as [|x l l' _ IH|x y l|l l' l'' _ IH1 _ IH2]; cbn.
  - reflexivity.
  - fold (msum l) (msum l'). rewrite IH. reflexivity.
  - fold (msum l). rewrite !add_assoc. f_equal. apply add_comm.
  - congruence.
Qed.

Lemma msum_concat (ls : list (list A)) : msum (concat ls) = msum (map msum ls).
Proof. induction ls as [|l ls IH]; cbn; [reflexivity|]. rewrite msum_app. fold (msum (map msum ls)). congruence. Qed.

(* successive accumulation into a buffer that starts at a0 (the partial_fit calls) *)
Lemma fold_left_add_msum (l : list A) a0 : fold_left add l a0 = add a0 (msum l).
Proof. revert a0; induction l as [|a l IH]; intros a0; cbn; [symmetry; apply add_0_r|].
  rewrite IH. fold (msum l). symmetry. apply add_assoc. Qed.

(* ---------------------------------------------------------------- the transition system *)
Variable c d : nat -> A.

Fixpoint total (cnt : pc A -> bool) (e : nat -> A) (n : nat) (f : nat -> pc A) : A :=
  match n with O => zero | S k => add (total cnt e k f) (if cnt (f k) then e k else zero) end.

Lemma total_upd_ge cnt e n f w p : n <= w -> total cnt e n (upd f w p) = total cnt e n f.
Proof. induction n; intros Hn; cbn; [reflexivity|]. rewrite IHn by lia. unfold upd.
  destruct (Nat.eqb_spec n w); [lia|reflexivity]. Qed.

Lemma total_upd_same cnt e n f w p : cnt p = cnt (f w) -> total cnt e n (upd f w p) = total cnt e n f.
Proof. intros Hc. induction n; cbn; [reflexivity|]. rewrite IHn. unfold upd.
  destruct (Nat.eqb_spec n w) as [->|]; [rewrite Hc|]; reflexivity. Qed.

Lemma total_upd_count cnt e n f w p : w < n -> cnt (f w) = false -> cnt p = true ->
  total cnt e n (upd f w p) = add (total cnt e n f) (e w).
Proof.
  induction n; intros Hw Hf Hp; [lia|]. cbn. destruct (Nat.eq_dec w n) as [->|Hne].
  - rewrite total_upd_ge by lia. unfold upd. rewrite Nat.eqb_refl, Hp, Hf, add_0_r. reflexivity.
  - rewrite IHn by (auto; lia). unfold upd at 1. destruct (Nat.eqb_spec n w); [lia|].
    rewrite <- !add_assoc. f_equal. apply add_comm.
Qed.

Lemma total_all_done cnt e n f : (forall w, w < n -> cnt (f w) = true) -> total cnt e n f = msum (map e (seq 0 n)).
Proof.
  induction n; intros Hd; [reflexivity|]. cbn [total]. rewrite IHn by (intros; apply Hd; lia). rewrite Hd by lia.
  rewrite seq_S, map_app, msum_app. cbn. rewrite add_0_r. reflexivity.
Qed.

Lemma total_start cnt e n : cnt Start = false -> total cnt e n (fun _ => Start) = zero.
Proof. intros Hs. induction n; cbn; [reflexivity|]. rewrite IHn, Hs. apply add_0_r. Qed.

Section Locked.
Variable n : nat.        (* number of tasks: ids 0..n-1 *)
Variable X0 Y0 : A.

Notation stepL := (step add true c d).
Notation runL := (run add true c d).

(* What is true after every prefix of every schedule when the lock is used. *)
Record Inv (s : st A) : Prop := {
  iX : XXT s = add X0 (total countedX c n (pcs s));
  iY : YXT s = add Y0 (total countedY d n (pcs s));
  iL : forall w, w < n -> (inside (pcs s w) = true <-> lock s = Some w);
  iRX : forall w t, w < n -> pcs s w = ReadX t -> t = XXT s;
  iRY : forall w t, w < n -> pcs s w = ReadY t -> t = YXT s;
  iLk : forall w, lock s = Some w -> w < n }.

Lemma Inv_init : Inv (init X0 Y0).
Proof. split; cbn.
  - rewrite total_start by reflexivity. symmetry; apply add_0_r.
  - rewrite total_start by reflexivity. symmetry; apply add_0_r.
  - intros w _. split; discriminate.
  - intros w t _ E; discriminate.
  - intros w t _ E; discriminate.
  - intros w E; discriminate. Qed.

Ltac updc v w := unfold upd; destruct (Nat.eqb_spec v w) as [->|?].

Lemma Inv_step s w : w < n -> Inv s -> Inv (stepL s w).
Proof.
  intros Hw HI. pose proof HI as [iX iY iL iRX iRY iLk]. unfold step. destruct (pcs s w) eqn:Hp.
  - (* Start: acquire *) destruct (lock s) as [h|] eqn:Hl; [exact HI|].
    split; cbn [XXT YXT lock pcs].
    + rewrite total_upd_same by (rewrite Hp; reflexivity). exact iX.
    + rewrite total_upd_same by (rewrite Hp; reflexivity). exact iY.
    + intros v Hv. updc v w; cbn; [tauto|].
      rewrite iL by auto. split; [discriminate| intros E; inversion E; congruence].
    + intros v t Hv. updc v w; [discriminate| apply iRX; auto].
    + intros v t Hv. updc v w; [discriminate| apply iRY; auto].
    + intros v E; inversion E; subst; auto.
  - (* Held: read XXT *) split; cbn [XXT YXT lock pcs].
    + rewrite total_upd_same by (rewrite Hp; reflexivity). exact iX.
    + rewrite total_upd_same by (rewrite Hp; reflexivity). exact iY.
    + intros v Hv. updc v w; cbn; [|apply iL; auto]. rewrite <- iL by auto. rewrite Hp. cbn. tauto.
    + intros v t Hv. updc v w; [intros E; inversion E; auto| apply iRX; auto].
    + intros v t Hv. updc v w; [discriminate| apply iRY; auto].
    + auto.
  - (* ReadX t: write XXT *)
    assert (Ht : t = XXT s) by (eapply iRX; eauto). subst t.
    assert (Hlw : lock s = Some w) by (apply iL; auto; rewrite Hp; reflexivity).
    split; cbn [XXT YXT lock pcs].
    + rewrite total_upd_count by (auto; rewrite Hp; reflexivity). rewrite iX at 1. symmetry; apply add_assoc.
    + rewrite total_upd_same by (rewrite Hp; reflexivity). exact iY.
    + intros v Hv. updc v w; cbn; [tauto| apply iL; auto].
    + (* nobody else is between its read and its write *)
      intros v t Hv. updc v w; [discriminate|]. intros Hr. exfalso.
      assert (lock s = Some v) by (apply iL; auto; rewrite Hr; reflexivity). congruence.
    + intros v t Hv. updc v w; [discriminate| apply iRY; auto].
    + auto.
  - (* WroteX: read YXT *) split; cbn [XXT YXT lock pcs].
    + rewrite total_upd_same by (rewrite Hp; reflexivity). exact iX.
    + rewrite total_upd_same by (rewrite Hp; reflexivity). exact iY.
    + intros v Hv. updc v w; cbn; [|apply iL; auto]. rewrite <- iL by auto. rewrite Hp. cbn. tauto.
    + intros v t Hv. updc v w; [discriminate| apply iRX; auto].
    + intros v t Hv. updc v w; [intros E; inversion E; auto| apply iRY; auto].
    + auto.
  - (* ReadY t: write YXT *)
    assert (Ht : t = YXT s) by (eapply iRY; eauto). subst t.
    assert (Hlw : lock s = Some w) by (apply iL; auto; rewrite Hp; reflexivity).
    split; cbn [XXT YXT lock pcs].
    + rewrite total_upd_same by (rewrite Hp; reflexivity). exact iX.
    + rewrite total_upd_count by (auto; rewrite Hp; reflexivity). rewrite iY at 1. symmetry; apply add_assoc.
    + intros v Hv. updc v w; cbn; [tauto| apply iL; auto].
    + intros v t Hv. updc v w; [discriminate| apply iRX; auto].
    + intros v t Hv. updc v w; [discriminate|]. intros Hr. exfalso.
      assert (lock s = Some v) by (apply iL; auto; rewrite Hr; reflexivity). congruence.
    + auto.
  - (* WroteY: release *)
    assert (Hlw : lock s = Some w) by (apply iL; auto; rewrite Hp; reflexivity).
    split; cbn [XXT YXT lock pcs].
    + rewrite total_upd_same by (rewrite Hp; reflexivity). exact iX.
    + rewrite total_upd_same by (rewrite Hp; reflexivity). exact iY.
    + intros v Hv. updc v w; cbn.
      * split; discriminate.
      * split; [|discriminate]. intros Hi. apply iL in Hi; auto. congruence.
    + intros v t Hv. updc v w; [discriminate| apply iRX; auto].
    + intros v t Hv. updc v w; [discriminate| apply iRY; auto].
    + intros v E; discriminate.
  - exact HI.
Qed.

Lemma Inv_run sched : forall s0, Inv s0 -> Forall (fun w => w < n) sched -> Inv (runL s0 sched).
Proof. unfold run. induction sched as [|w sched IH]; intros s0 H0 Hs; cbn; auto.
  inversion Hs; subst. apply IH; auto. apply Inv_step; auto. Qed.

Lemma Inv_reachable sched : Forall (fun w => w < n) sched -> Inv (runL (init X0 Y0) sched).
Proof. intros; apply Inv_run; [apply Inv_init|assumption]. Qed.

(* every schedule, every number of tasks, every contribution list *)
Theorem locked_any_schedule sched :
  Forall (fun w => w < n) sched ->
  let s := runL (init X0 Y0) sched in
  (forall w, w < n -> pcs s w = Done) ->
  XXT s = add X0 (msum (map c (seq 0 n))) /\ YXT s = add Y0 (msum (map d (seq 0 n))).
Proof.
  intros Hs s Hdone. pose proof (Inv_reachable sched Hs) as HI. fold s in HI. split.
  - rewrite (iX _ HI). f_equal. apply total_all_done. intros w Hw. rewrite Hdone by auto. reflexivity.
  - rewrite (iY _ HI). f_equal. apply total_all_done. intros w Hw. rewrite Hdone by auto. reflexivity.
Qed.

(* at every moment: at most one task inside the section; the shared buffers hold exactly the contributions of the
   tasks that have performed their write (nothing lost, nothing counted twice) *)
Theorem locked_mutual_exclusion sched v w :
  Forall (fun w => w < n) sched -> v < n -> w < n ->
  let s := runL (init X0 Y0) sched in
  inside (pcs s v) = true -> inside (pcs s w) = true -> v = w.
Proof.
  intros Hs Hv Hw s Iv Iw. pose proof (Inv_reachable sched Hs) as HI. fold s in HI.
  apply (iL _ HI) in Iv; auto. apply (iL _ HI) in Iw; auto. congruence.
Qed.

Theorem locked_partial_sums sched :
  Forall (fun w => w < n) sched ->
  let s := runL (init X0 Y0) sched in
  XXT s = add X0 (total countedX c n (pcs s)) /\ YXT s = add Y0 (total countedY d n (pcs s)).
Proof. intros Hs s. pose proof (Inv_reachable sched Hs) as HI. fold s in HI. split; [apply (iX _ HI)|apply (iY _ HI)]. Qed.
End Locked.

(* ---------------------------------------------------------------- a terminating schedule exists for every n
   (so the hypothesis "all tasks are Done" of locked_any_schedule is satisfiable), with or without the lock *)
Section SeqSchedule.
Variable ul : bool.
Notation stepU := (step add ul c d).
Notation runU := (run add ul c d).

Lemma step_other s w v : v <> w -> pcs (stepU s w) v = pcs s v.
Proof.
  intros Hv. unfold step. destruct (pcs s w); try reflexivity;
  try (destruct ul; [destruct (lock s)|]); try reflexivity; cbn [pcs]; unfold upd;
  destruct (Nat.eqb_spec v w); try contradiction; reflexivity.
Qed.

(* one step of w from each program point, when w is not blocked *)
Lemma step_self s w :
  (pcs s w = Start -> lock s = None ->
     pcs (stepU s w) w = Held /\ lock (stepU s w) = (if ul then Some w else None)) /\
  (forall l, lock s = l -> pcs s w = Held -> pcs (stepU s w) w = ReadX (XXT s) /\ lock (stepU s w) = l) /\
  (forall l t, lock s = l -> pcs s w = ReadX t -> pcs (stepU s w) w = WroteX /\ lock (stepU s w) = l) /\
  (forall l, lock s = l -> pcs s w = WroteX -> pcs (stepU s w) w = ReadY (YXT s) /\ lock (stepU s w) = l) /\
  (forall l t, lock s = l -> pcs s w = ReadY t -> pcs (stepU s w) w = WroteY /\ lock (stepU s w) = l) /\
  (forall l, lock s = l -> pcs s w = WroteY ->
     pcs (stepU s w) w = Done /\ lock (stepU s w) = (if ul then None else l)).
Proof.
  repeat split; intros; unfold step;
  repeat match goal with H : pcs s w = _ |- _ => rewrite H; clear H end;
  try (destruct ul); repeat match goal with H : lock s = _ |- _ => try rewrite H; clear H end;
  cbn [pcs lock]; unfold upd; rewrite ?Nat.eqb_refl; try reflexivity; try assumption.
Qed.

Lemma six_steps s w : pcs s w = Start -> lock s = None ->
  let s' := runU s (repeat w 6) in
  pcs s' w = Done /\ lock s' = None /\ (forall v, v <> w -> pcs s' v = pcs s v).
Proof.
  intros Hp Hl. cbn [repeat run fold_left]. split; [|split].
  - destruct (step_self s w) as (A1 & _). destruct (A1 Hp Hl) as [P1 L1].
    set (s1 := stepU s w) in *.
    destruct (step_self s1 w) as (_ & A2 & _). destruct (A2 _ L1 P1) as [P2 L2].
    set (s2 := stepU s1 w) in *.
    destruct (step_self s2 w) as (_ & _ & A3 & _). destruct (A3 _ _ L2 P2) as [P3 L3].
    set (s3 := stepU s2 w) in *.
    destruct (step_self s3 w) as (_ & _ & _ & A4 & _). destruct (A4 _ L3 P3) as [P4 L4].
    set (s4 := stepU s3 w) in *.
    destruct (step_self s4 w) as (_ & _ & _ & _ & A5 & _). destruct (A5 _ _ L4 P4) as [P5 L5].
    set (s5 := stepU s4 w) in *.
    destruct (step_self s5 w) as (_ & _ & _ & _ & _ & A6). destruct (A6 _ L5 P5) as [P6 L6].
    exact P6.
  - destruct (step_self s w) as (A1 & _). destruct (A1 Hp Hl) as [P1 L1].
    set (s1 := stepU s w) in *.
    destruct (step_self s1 w) as (_ & A2 & _). destruct (A2 _ L1 P1) as [P2 L2].
    set (s2 := stepU s1 w) in *.
    destruct (step_self s2 w) as (_ & _ & A3 & _). destruct (A3 _ _ L2 P2) as [P3 L3].
    set (s3 := stepU s2 w) in *.
    destruct (step_self s3 w) as (_ & _ & _ & A4 & _). destruct (A4 _ L3 P3) as [P4 L4].
    set (s4 := stepU s3 w) in *.
    destruct (step_self s4 w) as (_ & _ & _ & _ & A5 & _). destruct (A5 _ _ L4 P4) as [P5 L5].
    set (s5 := stepU s4 w) in *.
    destruct (step_self s5 w) as (_ & _ & _ & _ & _ & A6). destruct (A6 _ L5 P5) as [P6 L6].
    rewrite L6. destruct ul; reflexivity.
  - intros v Hv. rewrite !step_other by assumption. reflexivity.
Qed.

Lemma run_app s l1 l2 : runU s (l1 ++ l2) = runU (runU s l1) l2.
Proof. unfold run. apply fold_left_app. Qed.

Lemma seq_schedule_from k : forall m s,
  lock s = None -> (forall w, m <= w -> pcs s w = Start) ->
  lock (runU s (flat_map (fun w => repeat w 6) (seq m k))) = None /\
  (forall w, m <= w < m + k -> pcs (runU s (flat_map (fun w => repeat w 6) (seq m k))) w = Done) /\
  (forall w, w < m -> pcs (runU s (flat_map (fun w => repeat w 6) (seq m k))) w = pcs s w).
Proof.
  induction k as [|k IH]; intros m s Hl Hst.
  - replace (flat_map (fun w => repeat w 6) (seq m 0)) with (@nil nat) by reflexivity.
    replace (runU s []) with s by reflexivity.
    split; [assumption|]. split; [intros; lia| reflexivity].
  - replace (flat_map (fun w => repeat w 6) (seq m (S k)))
      with (repeat m 6 ++ flat_map (fun w => repeat w 6) (seq (S m) k)) by reflexivity.
    rewrite run_app.
    destruct (six_steps s m (Hst m (le_n _)) Hl) as (P & L & O).
    remember (runU s (repeat m 6)) as s1 eqn:E1. clear E1.
    destruct (IH (S m) s1 L) as (L' & D' & O').
    { intros w Hw. rewrite O by lia. apply Hst. lia. }
    split; [exact L'|]. split.
    + intros w Hw. destruct (Nat.eq_dec w m) as [->|Hne].
      * rewrite O' by lia. exact P.
      * apply D'. lia.
    + intros w Hw. rewrite O' by lia. apply O. lia.
Qed.

(* the sequential schedule terminates all n tasks, with or without the lock *)
Lemma seq_schedule_done n X0 Y0 :
  Forall (fun w => w < n) (seq_schedule n) /\
  (forall w, w < n -> pcs (runU (init X0 Y0) (seq_schedule n)) w = Done).
Proof.
  split.
  - unfold seq_schedule. apply Forall_forall. intros w Hin. apply in_flat_map in Hin. destruct Hin as (v & Hv & Hr).
    apply repeat_spec in Hr. subst. apply in_seq in Hv. lia.
  - intros w Hw. destruct (seq_schedule_from n 0 (init X0 Y0) eq_refl (fun _ _ => eq_refl)) as (_ & D & _).
    apply D. lia.
Qed.
End SeqSchedule.
End Monoid.

Arguments msum {A}. Arguments total {A}.

(* ---------------------------------------------------------------- without the lock: a lost update *)
Open Scope Z_scope.
Definition c_wit (w : nat) : Z := match w with O => 1 | _ => 10 end.
Definition d_wit (w : nat) : Z := match w with O => 100 | _ => 1000 end.
Definition sched_wit : list nat := [0;1;0;1;0;1;0;1;0;1;0;1]%nat.

Lemma unlocked_lost_update :
  exists (c d : nat -> Z) (sched : list nat),
    Forall (fun w => (w < 2)%nat) sched /\
    let s := run Z.add false c d (init 0 0) sched in
    (forall w, (w < 2)%nat -> pcs s w = Done) /\
    XXT s <> 0 + msum Z.add 0 (map c (seq 0 2)) /\ YXT s <> 0 + msum Z.add 0 (map d (seq 0 2)) /\
    XXT s = 0 + c 1%nat /\ YXT s = 0 + d 1%nat.
Proof.
  exists c_wit, d_wit, sched_wit. split.
  - unfold sched_wit. repeat constructor.
  - cbv zeta. split.
    + intros w Hw. destruct w as [|[|w]]; [vm_compute; reflexivity | vm_compute; reflexivity | lia].
    + vm_compute. repeat split; discriminate.
Qed.
Close Scope Z_scope.

(* ---------------------------------------------------------------- _sort_and_unpack *)
Section SortProofs.
Variable B : Type.
Notation kle := (fun p q : nat * B => fst p <= fst q).
Notation klt := (fun p q : nat * B => fst p < fst q).

Lemma insert_perm (p : nat * B) l : Permutation (insert_by_idx p l) (p :: l).
Proof. induction l as [|q l IH]; cbn; [reflexivity|]. destruct (fst p <=? fst q); [reflexivity|].
  rewrite IH. apply perm_swap. Qed.

Lemma sort_perm (l : list (nat * B)) : Permutation (sort_by_idx l) l.
Proof. induction l as [|p l IH]; cbn; [reflexivity|]. rewrite insert_perm. constructor. exact IH. Qed.

Lemma insert_sorted (p : nat * B) l : StronglySorted kle l -> StronglySorted kle (insert_by_idx p l).
Proof.
  induction l as [|q l IH]; intros Hs; cbn.
  - constructor; constructor.
  - inversion Hs as [|? ? Hs' Hf]; subst. destruct (Nat.leb_spec (fst p) (fst q)) as [Hle|Hlt].
    + constructor; [exact Hs|]. constructor; [exact Hle|].
      eapply Forall_impl; [|exact Hf]. cbn. intros; lia.
    + constructor; [apply IH; exact Hs'|].
      eapply Permutation_Forall; [symmetry; apply insert_perm|]. constructor; [cbn; lia|exact Hf].
Qed.

Lemma sort_sorted (l : list (nat * B)) : StronglySorted kle (sort_by_idx l).
Proof. induction l as [|p l IH]; cbn; [constructor|]. apply insert_sorted. exact IH. Qed.

Lemma sorted_perm_unique (l1 : list (nat * B)) : forall l2,
  StronglySorted klt l1 -> StronglySorted kle l2 -> Permutation l1 l2 -> l1 = l2.
Proof.
  induction l1 as [|a l1 IH]; intros l2 H1 H2 HP.
  - apply Permutation_nil in HP. congruence.
  - destruct l2 as [|b l2]; [apply Permutation_sym, Permutation_nil in HP; discriminate|].
    inversion H1 as [|? ? H1' F1]; subst. inversion H2 as [|? ? H2' F2]; subst.
    assert (Hab : a = b).
    { assert (Ia : In a (b :: l2)) by (eapply Permutation_in; [exact HP|left; reflexivity]).
      assert (Ib : In b (a :: l1)) by (eapply Permutation_in; [symmetry; exact HP|left; reflexivity]).
      destruct Ia as [E|Ia]; [congruence|]. destruct Ib as [E|Ib]; [congruence|].
      rewrite Forall_forall in F1, F2. specialize (F1 _ Ib). specialize (F2 _ Ia). cbn in F1, F2. lia. }
    subst b. f_equal. apply IH; auto. eapply Permutation_cons_inv; exact HP.
Qed.

Lemma enumerate_from_sorted (rs : list B) : forall m, StronglySorted klt (combine (seq m (length rs)) rs).
Proof.
  induction rs as [|r rs IH]; intros m; cbn; [constructor|]. constructor; [apply IH|].
  apply Forall_forall. intros q Hq. destruct q as [i x]. apply in_combine_l in Hq. apply in_seq in Hq. cbn. lia.
Qed.

Lemma enumerate_from_snd (rs : list B) : forall m, map snd (combine (seq m (length rs)) rs) = rs.
Proof. induction rs as [|r rs IH]; intros m; cbn; [reflexivity|]. rewrite IH. reflexivity. Qed.

Theorem sort_and_unpack_input_order (results : list B) (arrived : list (nat * B)) :
  Permutation arrived (enumerate results) -> sort_and_unpack arrived = results.
Proof.
  intros HP. unfold sort_and_unpack.
  replace (sort_by_idx arrived) with (enumerate results); [apply enumerate_from_snd|].
  apply sorted_perm_unique; [apply enumerate_from_sorted | apply sort_sorted |].
  rewrite sort_perm. symmetry. exact HP.
Qed.
End SortProofs.
