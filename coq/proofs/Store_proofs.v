(* C16 - lemmas about the object store model (model/Store.v, part 1): freshness of copies, frame property for
   arbitrary writes, bisimulation of a copy with its original, name registry of a copied model. *)
From Coq Require Import List Arith Bool Lia.
From Coq Require String.
From RV Require Import base.Num base.LA model.Store.
Import ListNotations.

Section HeapProofs.
Variable D V : Type.
Notation cell := (cell D V).
Notation heap := (heap D V).
Notation store := (store D V).

(* allocation discipline: nothing lives at or above the allocation pointer *)
Definition wf (s : store) : Prop := forall j, next s <= j -> hp s j = None.

(* ---- index_of / ren_of ---- *)
Lemma index_of_nth j : forall l k, index_of j l = Some k -> nth_error l k = Some j.
Proof.
  induction l as [|i l IH]; intros k Hk; simpl in *; [discriminate|].
  destruct (Nat.eqb_spec i j) as [->|Hne].
  - inversion Hk; subst. reflexivity.
  - destruct (index_of j l) as [k'|] eqn:E; [|discriminate]. inversion Hk; subst. simpl. apply IH. reflexivity.
Qed.
Lemma index_of_lt j : forall l k, index_of j l = Some k -> k < length l.
Proof. intros l k Hk. apply index_of_nth in Hk. apply nth_error_Some. rewrite Hk. discriminate. Qed.
Lemma index_of_in j : forall l, In j l -> exists k, index_of j l = Some k.
Proof.
  induction l as [|i l IH]; intros Hin; simpl in *; [contradiction|].
  destruct (Nat.eqb_spec i j) as [->|Hne]; [eexists; reflexivity|].
  destruct Hin as [->|Hin]; [congruence|]. destruct (IH Hin) as [k ->]. eexists; reflexivity.
Qed.
Lemma index_of_notin j : forall l, ~ In j l -> index_of j l = None.
Proof.
  induction l as [|i l IH]; intros Hn; simpl in *; [reflexivity|].
  destruct (Nat.eqb_spec i j) as [->|Hne]; [exfalso; apply Hn; left; reflexivity|].
  rewrite IH; [reflexivity|]. intros Hc. apply Hn. right. exact Hc.
Qed.

Lemma ren_fresh base ids i : In i ids -> base <= ren_of base ids i < base + length ids.
Proof. intros Hin. unfold ren_of. destruct (index_of_in i ids Hin) as [k Hk]. rewrite Hk. pose proof (index_of_lt _ _ _ Hk). lia. Qed.
Lemma ren_out base ids j : ~ In j ids -> ren_of base ids j = j.
Proof. intros Hn. unfold ren_of. rewrite (index_of_notin j ids Hn). reflexivity. Qed.
Lemma ren_inj base ids a b : In a ids -> In b ids -> ren_of base ids a = ren_of base ids b -> a = b.
Proof.
  intros Ha Hb. unfold ren_of. destruct (index_of_in a ids Ha) as [ka Hka]. destruct (index_of_in b ids Hb) as [kb Hkb].
  rewrite Hka, Hkb. intros E. assert (ka = kb) by lia. subst kb.
  apply index_of_nth in Hka. apply index_of_nth in Hkb. congruence.
Qed.

(* ---- deepcopy_cells ---- *)
Lemma dc_next (s : store) ids : next (fst (deepcopy_cells s ids)) = next s + length ids.
Proof. reflexivity. Qed.
Lemma dc_reg (s : store) ids : reg (fst (deepcopy_cells s ids)) = reg s.
Proof. reflexivity. Qed.
Lemma dc_ren (s : store) ids : snd (deepcopy_cells s ids) = ren_of (next s) ids.
Proof. reflexivity. Qed.
Lemma dc_old (s : store) ids j : j < next s -> hp (fst (deepcopy_cells s ids)) j = hp s j.
Proof. intros Hj. simpl. destruct (Nat.leb_spec (next s) j); [lia|]. reflexivity. Qed.
Lemma dc_new (s : store) ids i : In i ids ->
  hp (fst (deepcopy_cells s ids)) (ren_of (next s) ids i) = option_map (copy_cell (reg s) (ren_of (next s) ids)) (hp s i).
Proof.
  intros Hin. simpl. unfold ren_of at 1 2 3. destruct (index_of_in i ids Hin) as [k Hk]. rewrite Hk.
  pose proof (index_of_lt _ _ _ Hk) as Hlt.
  destruct (Nat.leb_spec (next s) (next s + k)); [|lia]. destruct (Nat.ltb_spec (next s + k) (next s + length ids)); [|lia].
  simpl. replace (next s + k - next s) with k by lia. rewrite (index_of_nth _ _ _ Hk). reflexivity.
Qed.
Lemma dc_wf (s : store) ids : wf s -> wf (fst (deepcopy_cells s ids)).
Proof.
  intros Hwf j Hj. rewrite dc_next in Hj. simpl.
  destruct (Nat.leb_spec (next s) j); [|lia]. destruct (Nat.ltb_spec j (next s + length ids)); [lia|]. simpl.
  apply Hwf. lia.
Qed.

(* ---- frame property of writes ---- *)
Lemma apply_write_other (w : write D V) (h : heap) j : fst w <> j -> apply_write w h j = h j.
Proof.
  intros Hne. unfold apply_write. destruct (h (fst w)); [|reflexivity]. unfold hupd.
  destruct (Nat.eqb_spec j (fst w)); [congruence|reflexivity].
Qed.
Lemma apply_writes_frame (P : nat -> Prop) (ws : list (write D V)) : forall (h : heap) j,
  Forall (fun w => P (fst w)) ws -> ~ P j -> apply_writes ws h j = h j.
Proof.
  induction ws as [|w ws IH]; intros h j Hall Hj; [reflexivity|]. inversion Hall; subst.
  unfold apply_writes in *. simpl. rewrite IH by assumption. apply apply_write_other. intros E. apply Hj. rewrite <- E. assumption.
Qed.

(* every copied cell is fresh, the existing cells are not touched, a closed set of cells is copied to a closed set *)
Lemma copy_fresh (s : store) ids i : wf s -> In i ids ->
  next s <= ren_of (next s) ids i < next (fst (deepcopy_cells s ids)) /\ hp s (ren_of (next s) ids i) = None.
Proof.
  intros Hwf Hin. pose proof (ren_fresh (next s) ids i Hin) as Hr. rewrite dc_next. split; [exact Hr|]. apply Hwf. lia.
Qed.
Definition closed (h : heap) (ids : list nat) : Prop :=
  forall i c, In i ids -> h i = Some c -> incl (cfb c) ids.
Lemma closedb_closed h ids : closedb h ids = true -> closed h ids.
Proof.
  unfold closedb, closed. rewrite forallb_forall. intros Hb i c Hin Hc j Hj. specialize (Hb i Hin). rewrite Hc in Hb.
  rewrite forallb_forall in Hb. specialize (Hb j Hj). apply existsb_exists in Hb. destruct Hb as [x [Hx Hxe]].
  apply Nat.eqb_eq in Hxe. subst. exact Hx.
Qed.
Lemma copy_closed (s : store) ids i c' : closed (hp s) ids -> In i ids ->
  hp (fst (deepcopy_cells s ids)) (ren_of (next s) ids i) = Some c' -> forall j, In j (cfb c') -> next s <= j < next s + length ids.
Proof.
  intros Hcl Hin Hc j Hj. rewrite dc_new in Hc by assumption. destruct (hp s i) as [c|] eqn:E; [|discriminate].
  simpl in Hc. inversion Hc; subst c'. simpl in Hj. apply in_map_iff in Hj. destruct Hj as [j0 [<- Hj0]].
  apply ren_fresh. exact (Hcl i c Hin E j0 Hj0).
Qed.

Lemma copy_frame (s : store) ids (ws : list (write D V)) : wf s ->
  let s' := fst (deepcopy_cells s ids) in
  (Forall (fun w => fst w < next s) ws -> forall j, next s <= j -> apply_writes ws (hp s') j = hp s' j) /\
  (Forall (fun w => next s <= fst w) ws -> forall j, j < next s -> apply_writes ws (hp s') j = hp s j).
Proof.
  intros Hwf s'. split; intros Hall j Hj.
  - apply (apply_writes_frame (fun i => i < next s)); [exact Hall|lia].
  - rewrite (apply_writes_frame (fun i => next s <= i)); [apply dc_old; exact Hj|exact Hall|lia].
Qed.

(* ---- bisimulation ---- *)
Section Bisim.
Variable X : Type.
Variable fwd : D -> V -> list (option V) -> X -> list (option V) -> D * V.
Variable ren : nat -> nat.
Variable ids : list nat.
Hypothesis ren_injective : forall a b, In a ids -> In b ids -> ren a = ren b -> a = b.

Definition csim (c c' : cell) : Prop :=
  cdata c' = cdata c /\ cstate c' = cstate c /\ cfb c' = map ren (cfb c) /\ incl (cfb c) ids.
Definition osim (o o' : option cell) : Prop :=
  match o, o' with Some c, Some c' => csim c c' | None, None => True | _, _ => False end.
Definition sim (h h' : heap) : Prop := forall i, In i ids -> osim (h i) (h' (ren i)).

Lemma sim_stof h h' i : sim h h' -> In i ids -> stof h' (ren i) = stof h i.
Proof.
  intros Hs Hin. specialize (Hs i Hin). unfold stof, osim in *.
  destruct (h i) as [c|], (h' (ren i)) as [c'|]; simpl; try contradiction; [|reflexivity].
  destruct Hs as [_ [-> _]]. reflexivity.
Qed.
Lemma sim_stof_map h h' ps : sim h h' -> incl ps ids -> map (stof h') (map ren ps) = map (stof h) ps.
Proof.
  intros Hs. induction ps as [|p ps IH]; intros Hinc; [reflexivity|]. simpl.
  rewrite (sim_stof h h' p Hs) by (apply Hinc; left; reflexivity). rewrite IH; [reflexivity|].
  intros x Hx. apply Hinc. right. exact Hx.
Qed.

Definition ord_in (ord : list (nat * list nat)) : Prop := forall p, In p ord -> In (fst p) ids /\ incl (snd p) ids.

Lemma hforward_sim prev prev' : sim prev prev' -> forall ord xs cur cur', sim cur cur' -> ord_in ord ->
  sim (hforward fwd prev cur ord xs) (hforward fwd prev' cur' (rename_ord ren ord) xs).
Proof.
  intros Hp. induction ord as [|[i ps] ord IH]; intros xs cur cur' Hc Hord; [exact Hc|].
  destruct xs as [|x xs]; [exact Hc|]. simpl.
  assert (Hi : In i ids /\ incl ps ids) by (apply (Hord (i, ps)); left; reflexivity). destruct Hi as [Hi Hps].
  pose proof (Hc i Hi) as Hci. unfold osim in Hci.
  destruct (cur i) as [c|] eqn:Ec, (cur' (ren i)) as [c'|] eqn:Ec'; try contradiction; [|exact Hc].
  destruct Hci as [Hd [Hst [Hfb Hinc]]].
  rewrite Hd, Hst, Hfb, (sim_stof_map cur cur' ps Hc Hps), (sim_stof_map prev prev' (cfb c) Hp Hinc).
  destruct (fwd (cdata c) (cstate c) (map (stof cur) ps) x (map (stof prev) (cfb c))) as [d' v'].
  apply IH.
  - intros j Hj. unfold hupd. destruct (Nat.eqb_spec j i) as [->|Hne].
    + rewrite Nat.eqb_refl. simpl. repeat split; try reflexivity; assumption.
    + destruct (Nat.eqb_spec (ren j) (ren i)) as [E|_]; [exfalso; apply Hne; apply ren_injective; assumption|].
      apply Hc. exact Hj.
  - intros p Hp'. apply Hord. right. exact Hp'.
Qed.

Lemma hrun_sim ord outs : ord_in ord -> incl outs ids -> forall xss h h', sim h h' ->
  snd (hrun fwd h' (rename_ord ren ord) (map ren outs) xss) = snd (hrun fwd h ord outs xss) /\
  sim (fst (hrun fwd h ord outs xss)) (fst (hrun fwd h' (rename_ord ren ord) (map ren outs) xss)).
Proof.
  intros Hord Houts. induction xss as [|xs xss IH]; intros h h' Hs; [split; [reflexivity|exact Hs]|].
  simpl. assert (Hs1 : sim (hstep fwd h ord xs) (hstep fwd h' (rename_ord ren ord) xs))
    by (apply hforward_sim; assumption).
  destruct (IH _ _ Hs1) as [Ho Hf].
  destruct (hrun fwd (hstep fwd h ord xs) ord outs xss) as [h2 o] eqn:E1.
  destruct (hrun fwd (hstep fwd h' (rename_ord ren ord) xs) (rename_ord ren ord) (map ren outs) xss) as [h2' o'] eqn:E2.
  simpl in *. split; [|exact Hf]. rewrite Ho. f_equal. apply sim_stof_map; assumption.
Qed.
End Bisim.

(* a copy of a closed set of cells is similar to the original, whatever is written to the original's side afterwards *)
Lemma copy_sim (s : store) ids (ws : list (write D V)) : wf s -> closed (hp s) ids ->
  Forall (fun w => fst w < next s) ws ->
  sim (ren_of (next s) ids) ids (hp s) (apply_writes ws (hp (fst (deepcopy_cells s ids)))).
Proof.
  intros Hwf Hcl Hall i Hin.
  destruct (copy_frame s ids ws Hwf) as [Hf _]. rewrite (Hf Hall) by (apply ren_fresh; exact Hin).
  rewrite dc_new by exact Hin. unfold osim. destruct (hp s i) as [c|] eqn:E; simpl; [|exact I].
  repeat split; try reflexivity. exact (Hcl i c Hin E).
Qed.
(* the original, seen through the identity renaming, is similar to itself whatever is written to the copy's side *)
Lemma orig_sim (s : store) ids (ws : list (write D V)) : wf s -> closed (hp s) ids -> (forall i, In i ids -> i < next s) ->
  Forall (fun w => next s <= fst w) ws ->
  sim (fun i => i) ids (hp s) (apply_writes ws (hp (fst (deepcopy_cells s ids)))).
Proof.
  intros Hwf Hcl Hlt Hall i Hin.
  destruct (copy_frame s ids ws Hwf) as [_ Hf]. rewrite (Hf Hall) by (apply Hlt; exact Hin).
  unfold osim. destruct (hp s i) as [c|] eqn:E; [|exact I].
  repeat split; try reflexivity. - symmetry. apply map_id. - exact (Hcl i c Hin E).
Qed.
Lemma rename_ord_id ord : rename_ord (fun i : nat => i) ord = ord.
Proof. unfold rename_ord. induction ord as [|[i ps] ord IH]; [reflexivity|]. simpl. rewrite map_id, IH. reflexivity. Qed.


(* ---- a run only writes the cells it executes ---- *)
Lemma hforward_frame {X} (fwd : D -> V -> list (option V) -> X -> list (option V) -> D * V) prev j :
  forall ord xs (cur : heap), ~ In j (map fst ord) -> hforward fwd prev cur ord xs j = cur j.
Proof.
  induction ord as [|[i ps] ord IH]; intros xs cur Hn; [reflexivity|]. destruct xs as [|x xs]; [reflexivity|]. simpl in *.
  destruct (cur i) as [c|] eqn:E; [|reflexivity].
  destruct (fwd (cdata c) (cstate c) (map (stof cur) ps) x (map (stof prev) (cfb c))) as [d' v'].
  rewrite IH by (intros Hc; apply Hn; right; exact Hc). unfold hupd.
  destruct (Nat.eqb_spec j i) as [->|_]; [exfalso; apply Hn; left; reflexivity|reflexivity].
Qed.
Lemma hrun_frame {X} (fwd : D -> V -> list (option V) -> X -> list (option V) -> D * V) ord outs j :
  ~ In j (map fst ord) -> forall xss (h : heap), fst (hrun fwd h ord outs xss) j = h j.
Proof.
  intros Hn. induction xss as [|xs xss IH]; intros h; [reflexivity|]. simpl.
  specialize (IH (hstep fwd h ord xs)). destruct (hrun fwd (hstep fwd h ord xs) ord outs xss) as [h2 o]. simpl in *.
  rewrite IH. apply hforward_frame. exact Hn.
Qed.

(* ---- the two directions of "behaves like the original and shares nothing with it" ---- *)
Lemma copy_same_outputs {X} (fwd : D -> V -> list (option V) -> X -> list (option V) -> D * V)
      (s : store) ids (ws : list (write D V)) ord outs xss :
  wf s -> closedb (hp s) ids = true -> Forall (fun w => fst w < next s) ws -> ord_in ids ord -> incl outs ids ->
  snd (hrun fwd (apply_writes ws (hp (fst (deepcopy_cells s ids))))
            (rename_ord (snd (deepcopy_cells s ids)) ord) (map (snd (deepcopy_cells s ids)) outs) xss)
  = snd (hrun fwd (hp s) ord outs xss).
Proof.
  intros Hwf Hcl Hall Hord Houts. rewrite dc_ren.
  apply (hrun_sim X fwd (ren_of (next s) ids) ids (ren_inj (next s) ids) ord outs Hord Houts xss).
  apply copy_sim; [exact Hwf|apply closedb_closed; exact Hcl|exact Hall].
Qed.
Lemma original_unaffected {X} (fwd : D -> V -> list (option V) -> X -> list (option V) -> D * V)
      (s : store) ids (ws : list (write D V)) ord outs xss :
  wf s -> closedb (hp s) ids = true -> (forall i, In i ids -> i < next s) ->
  Forall (fun w => next s <= fst w) ws -> ord_in ids ord -> incl outs ids ->
  snd (hrun fwd (apply_writes ws (hp (fst (deepcopy_cells s ids)))) ord outs xss) = snd (hrun fwd (hp s) ord outs xss).
Proof.
  intros Hwf Hcl Hlt Hall Hord Houts.
  pose proof (hrun_sim X fwd (fun i => i) ids (fun a b _ _ E => E) ord outs Hord Houts xss (hp s)
                (apply_writes ws (hp (fst (deepcopy_cells s ids))))
                (orig_sim s ids ws Hwf (closedb_closed _ _ Hcl) Hlt Hall)) as [Ho _].
  rewrite rename_ord_id, map_id in Ho. exact Ho.
Qed.

(* ---- Node.copy ---- *)
Lemma node_copy_spec (s : store) i c nm s' n : wf s -> hp s i = Some c ->
  node_copy s i nm false = Some (s', n) ->
  n = next s /\ hp s' n = Some (mkCell (ccls c) nm (cdata c) (cstate c) (cfb c)) /\
  (forall j, j < next s -> hp s' j = hp s j) /\ next s' = S (next s) /\ reg s' = (ccls c, nm) :: reg s.
Proof.
  intros Hwf Hc. unfold node_copy. rewrite Hc. destruct (registered (reg s) (ccls c) nm); [discriminate|].
  intros E. inversion E; subst; clear E. simpl. repeat split; try reflexivity.
  - unfold hupd. rewrite Nat.eqb_refl. reflexivity.
  - intros j Hj. unfold hupd. destruct (Nat.eqb_spec j (next s)); [lia|reflexivity].
Qed.

(* ---- the registry of a copied model ---- *)
Lemma find_nodup_in (l : list (str * nat)) k v :
  NoDup (map fst l) -> In (k, v) l -> find (fun p => String.eqb (fst p) k) l = Some (k, v).
Proof.
  induction l as [|[k0 v0] l IH]; intros Hnd Hin; [contradiction|]. simpl in *. inversion Hnd; subst.
  destruct Hin as [E|Hin].
  - inversion E; subst. rewrite String.eqb_refl. reflexivity.
  - destruct (String.eqb_spec k0 k) as [->|_]; [|apply IH; assumption].
    exfalso. apply H1. apply in_map_iff. exists (k, v). split; [reflexivity|exact Hin].
Qed.
Lemma dict_get_nodup (l : list (str * nat)) k v : NoDup (map fst l) -> In (k, v) l -> dict_get l k = Some v.
Proof.
  intros Hnd Hin. unfold dict_get. rewrite (find_nodup_in (rev l) k v); [reflexivity| |apply in_rev; rewrite rev_involutive; exact Hin].
  rewrite map_rev. apply NoDup_rev. exact Hnd.
Qed.

Lemma deepcopy_model_registry (s : store) m :
  mreg m = init_registry (hp s) (mnodes m) ->
  let '(s', m', ren) := deepcopy_model s m in
  mreg m' = init_registry (hp s') (mnodes m').
Proof.
  intros Hreg. unfold deepcopy_model. destruct (deepcopy s (mnodes m)) as [s' ren] eqn:E. simpl.
  rewrite Hreg. unfold init_registry. rewrite !map_map. reflexivity.
Qed.

Lemma supports_ops (s : store) m : mreg m = init_registry (hp s) (mnodes m) ->
  let '(s', m', ren) := deepcopy_model s m in
  NoDup (map (name_of (hp s')) (mnodes m')) ->
  (forall n, In n (mnodes m') -> get_node m' (name_of (hp s') n) = Some n) /\ named_ops_defined (hp s') m' = true.
Proof.
  intros Hreg. pose proof (deepcopy_model_registry s m Hreg) as H.
  destruct (deepcopy_model s m) as [[s' m'] ren]. intros Hnd.
  assert (Hget : forall n, In n (mnodes m') -> get_node m' (name_of (hp s') n) = Some n).
  { intros n Hn. unfold get_node. rewrite H. apply dict_get_nodup.
    - unfold init_registry. rewrite map_map. simpl. exact Hnd.
    - unfold init_registry. apply in_map_iff. exists n. split; [reflexivity|exact Hn]. }
  split; [exact Hget|]. unfold named_ops_defined. apply forallb_forall. intros n Hn. rewrite (Hget n Hn). apply Nat.eqb_refl.
Qed.
End HeapProofs.
