(* Tie (T) for the legacy part of C16.
   (1) coq/gen/Gen_legacy.v is GENERATED on every run from the current text of reservoirpy/compat/_base.py
       (_ESNBase._get_next_state, _ESNBase.compute_outputs; tools/vlib/la_specs_legacy.py on top of tools/vlib/py2coq_la.py).
       Here, at R (x @ A.T = A x needs commutativity): the generated state update equals the noisy legacy step
       [legacy_step_noisy] - the documented v0.2 recurrence with its three uniform draws - and, with noise gains 0, the hand
       model [legacy_step] of model/Store.v; the generated compute_outputs equals [legacy_out] row by row.
   (2) coq/gen/Gen_compat.v is EXTRACTED on every run from reservoirpy/compat/__init__.py load_compat
       (tools/vlib/py2coq_compat.py): which saved array / attribute, transposed or sliced how, goes into which keyword of
       Reservoir(...) / Ridge(...) / ESN(...).  Here: read through what the v0.3 nodes do with those keywords
       ([v3_of_kwargs]: Reservoir.initialize splits the bias column off Win when input_bias, Ridge takes the (1, dim_out) bias row),
       the extracted table is the hand-written conversion map [convert] of model/Store.v.
   Hence C16_load_compat_equiv applies to the translated step and the extracted conversion ([gen_load_compat_step]).
   A source change (W @ x, noise outside the leak term, Win.T dropped, bias column last, Wout reshaped ...) changes a generated term
   and one of these proofs stops checking. *)
From Coq Require Import Reals Lra List Arith Lia Bool.
From RV Require Import base.Num base.LA base.GenPrelude model.Store proofs.Legacy_proofs gen.Gen_legacy gen.Gen_compat.
Import ListNotations.
Open Scope R_scope.

Notation rvec := (list R).
Notation rmat := (list (list R)).

(* ---------------------------------------------------------------- the dimension-free operations of the generated code *)
Lemma mcols_transpose_S (A : rmat) k : mcols (transpose A (S k)) = length A.
Proof. unfold mcols. simpl. apply map_length. Qed.

(* x @ A.T = A x   (A rectangular with at least one column, or empty) *)
Lemma vmm_mT (A : rmat) (x : rvec) d : (forall row, In row A -> length row = S d) -> vmm x (mT A) = mv A x.
Proof.
  intros Hrows. destruct A as [|r A].
  - unfold vmm, mT. simpl. destruct x; reflexivity.
  - unfold vmm, mT. assert (Hc : mcols (r :: A) = S d) by (unfold mcols; apply Hrows; left; reflexivity).
    rewrite Hc, mcols_transpose_S. apply vm_transpose_r. exact Hrows.
Qed.
(* x @ W with the number of columns read off W *)
Lemma vmm_vm (W : rmat) (x : rvec) n : length W = n -> (forall row, In row W -> length row = n) -> vmm x W = vm x W n.
Proof.
  intros Hl Hrows. unfold vmm. destruct W as [|r W].
  - simpl in Hl. subst n. reflexivity.
  - f_equal. unfold mcols. apply Hrows. left. reflexivity.
Qed.
Lemma vscale0 (xi : rvec) : vscale 0 xi = vzeros (length xi).
Proof. unfold vscale, vzeros. induction xi as [|a xi IH]; [reflexivity|]. cbn [map length repeat]. f_equal; [numR; ring|exact IH]. Qed.
Lemma vadd_zeros_ge : forall (a : rvec) n, (length a <= n)%nat -> vadd a (vzeros n) = a.
Proof.
  unfold vadd, vzeros. induction a as [|x a IH]; intros n Hl; [reflexivity|].
  destruct n as [|n]; simpl in *; [lia|]. f_equal; [numR; ring|apply IH; lia].
Qed.
Lemma vadd_noise0 (a xi : rvec) : (length a <= length xi)%nat -> vadd a (vscale 0 xi) = a.
Proof. intros Hl. rewrite vscale0. apply vadd_zeros_ge. exact Hl. Qed.

(* ---------------------------------------------------------------- the saved arrays as the generated code reads them *)
Definition c_has_fb (L : legacy (F:=R)) : bool := match lWfb L with Some _ => true | None => false end.
Definition c_Wfb (L : legacy (F:=R)) : rmat := match lWfb L with Some Wfb => Wfb | None => [] end.
Definition c_has_wout (L : legacy (F:=R)) : bool := match lWout L with Some _ => true | None => false end.
Definition c_Wout (L : legacy (F:=R)) : rmat := match lWout L with Some Wo => Wo | None => [] end.

(* numpy arrays are rectangular: what legacy_shaped does not already say *)
Definition legacy_rect (L : legacy (F:=R)) : Prop :=
  length (lW L) = lN L /\
  (exists d, forall row, In row (lWin L) -> length row = S d) /\
  match lWfb L with Some Wfb => exists k, forall row, In row Wfb -> length row = S k | None => True end.

(* the v0.2 recurrence with its noise terms (compat/_base.py, docstring of ESN):
   x' = (1 - lr) x + lr (f((u~ + g_in xi_in) Win^T + x W + (g(y) + g_out xi_fb) Wfb^T) + g_rc xi_rc) *)
Definition legacy_pre_noisy (L : legacy (F:=R)) (g : rvec -> rvec) (gin gout : R) (xin xfb : rvec) (x u fb : rvec) : rvec :=
  let x1 := vadd (mv (lWin L) (vadd (if lbias L then add_bias u else u) (vscale gin xin))) (vm x (lW L) (lN L)) in
  match lWfb L with Some Wfb => vadd x1 (mv Wfb (vadd (g fb) (vscale gout xfb))) | None => x1 end.
Definition legacy_step_noisy (L : legacy (F:=R)) (f g : rvec -> rvec) (gin grc gout : R) (xin xrc xfb : rvec) (x u fb : rvec) : rvec :=
  vadd (vscale (nsub n1 (llr L)) x) (vscale (llr L) (vadd (f (legacy_pre_noisy L g gin gout xin xfb x u fb)) (vscale grc xrc))).

Section Step.
Variable L : legacy (F:=R).
Variables f g : rvec -> rvec.
Hypothesis Hshape : legacy_shaped L.
Hypothesis Hrect : legacy_rect L.

(* _get_next_state, any noise gains and draws *)
Lemma gen_step_noisy (gin grc gout : R) (xin xrc xfb x u fb : rvec) :
  GenLegacy.get_next_state (lW L) (lWin L) (c_Wfb L) (lbias L) (llr L) f g gin grc gout (c_has_fb L) xin xrc xfb u fb x
  = legacy_step_noisy L f g gin grc gout xin xrc xfb x u fb.
Proof.
  destruct Hshape as [HW _]. destruct Hrect as [HlW [[d HWin] HWfb]].
  unfold GenLegacy.get_next_state, legacy_step_noisy, legacy_pre_noisy, c_has_fb, c_Wfb, add_bias_row, add_bias.
  rewrite (vmm_mT (lWin L) _ d HWin), (vmm_vm (lW L) x (lN L) HlW HW).
  destruct (lWfb L) as [Wfb|].
  - destruct HWfb as [k HWfb]. rewrite (vmm_mT Wfb _ k HWfb). destruct (lbias L); reflexivity.
  - destruct (lbias L); reflexivity.
Qed.

(* with noise gains 0 (draws of the shapes numpy gives them, or longer): the hand model *)
Lemma legacy_step_noisy_0 (xin xrc xfb x u fb : rvec) :
  (length (if lbias L then add_bias u else u) <= length xin)%nat ->
  (length (g fb) <= length xfb)%nat ->
  (length (f (legacy_pre L g x u fb)) <= length xrc)%nat ->
  legacy_step_noisy L f g 0 0 0 xin xrc xfb x u fb = legacy_step L f g x u fb.
Proof.
  intros Hin Hfb Hrc. unfold legacy_step_noisy.
  assert (Hpre : legacy_pre_noisy L g 0 0 xin xfb x u fb = legacy_pre L g x u fb).
  { unfold legacy_pre_noisy, legacy_pre. rewrite (vadd_noise0 _ xin Hin). destruct (lWfb L); [rewrite (vadd_noise0 _ xfb Hfb)|]; reflexivity. }
  rewrite Hpre, (vadd_noise0 _ xrc Hrc). reflexivity.
Qed.

Lemma gen_step_eq (xin xrc xfb x u fb : rvec) :
  (length (if lbias L then add_bias u else u) <= length xin)%nat ->
  (length (g fb) <= length xfb)%nat ->
  (length (f (legacy_pre L g x u fb)) <= length xrc)%nat ->
  GenLegacy.get_next_state (lW L) (lWin L) (c_Wfb L) (lbias L) (llr L) f g 0 0 0 (c_has_fb L) xin xrc xfb u fb x
  = legacy_step L f g x u fb.
Proof. intros Hin Hfb Hrc. rewrite gen_step_noisy. apply legacy_step_noisy_0; assumption. Qed.

(* compute_outputs: every row of every sequence of states goes through legacy_out; without Wout it raises *)
Lemma gen_outputs_eq (Wo : rmat) (seqs : list rmat) (verbose : bool) : lWout L = Some Wo ->
  GenLegacyOut.compute_outputs (c_Wout L) (c_has_wout L) seqs verbose = Some (map (map (legacy_out Wo)) seqs).
Proof.
  intros HWo. destruct Hshape as [_ [_ HWout]]. rewrite HWo in HWout.
  unfold GenLegacyOut.compute_outputs, c_Wout, c_has_wout. rewrite HWo. f_equal.
  apply map_ext. intros s. unfold mmul, mm, add_bias_mat. rewrite map_map. apply map_ext. intros r.
  change (vm (n1 :: r) (mT Wo) (mcols (mT Wo))) with (vmm (n1 :: r) (mT Wo)).
  rewrite (vmm_mT Wo _ (lN L) HWout). reflexivity.
Qed.
Lemma gen_outputs_none (seqs : list rmat) (verbose : bool) : lWout L = None ->
  GenLegacyOut.compute_outputs (c_Wout L) (c_has_wout L) seqs verbose = None.
Proof. intros HWo. unfold GenLegacyOut.compute_outputs, c_has_wout. rewrite HWo. reflexivity. Qed.
End Step.

(* ---------------------------------------------------------------- load_compat: the extracted keyword table *)
(* What the v0.3 nodes do with the keywords they receive (hand-written; tie H checks it: the correspondence compares the arrays of
   [convert L] with the arrays observed on the nodes built by load_compat):
   Reservoir.initialize - with input_bias and a Win that carries one more column than the input, bias = Win[:, :1] and
   Win = Win[:, 1:]; otherwise bias = zeros(units);  Ridge - Wout (N, dim_out) and bias (1, dim_out) given as arrays are used as they
   are, the readout computes x @ Wout + bias;  no saved Wout (the `zeros` initializer): not trained. *)
Definition v3_of_kwargs (units : nat) (lr : R) (input_bias : bool) (W Win : rmat) (Wfb : option rmat) (Wout bias : option rmat) : v3esn :=
  let '(Win', b) := if input_bias then (map (@tl R) Win, map (hd 0) Win) else (Win, vzeros units) in
  mkV3 W Win' b Wfb lr (match Wout, bias with Some Wo, Some bm => Some (Wo, hd [] bm) | _, _ => None end).

(* the saved directory as load_compat reads it (GenCompat.saved, fixed text): the arrays and attributes of the legacy record
   (matrices['W'], ['Win'], .get('Wfb'), .get('Wout'); attr N, lr, in_bias) plus what the model's record does not carry *)
Record sidecar := mkSide { s_dout : nat; s_fbfunc : option (rvec -> rvec); s_act : option (rvec -> rvec);
                           s_gin : option R; s_grc : option R; s_gout : option R; s_idf : rvec -> rvec; s_tanhf : rvec -> rvec }.
Definition saved_of (L : legacy (F:=R)) (e : sidecar) : GenCompat.saved (F:=R) :=
  GenCompat.mkSaved (lW L) (lWin L) (lWfb L) (lWout L) (lN L) (s_dout e) (llr L) (lbias L) (s_gin e) (s_grc e) (s_gout e)
                    (s_fbfunc e) (s_act e) (s_idf e) (s_tanhf e).
Definition extracted_convert (s : GenCompat.saved (F:=R)) : v3esn :=
  v3_of_kwargs (GenCompat.reservoir_units s) (GenCompat.reservoir_lr s) (GenCompat.reservoir_input_bias s)
               (GenCompat.reservoir_W s) (GenCompat.reservoir_Win s) (GenCompat.reservoir_Wfb s)
               (GenCompat.ridge_Wout s) (GenCompat.ridge_bias s).

(* a saved readout has at least one output row *)
Definition legacy_wout_nonempty (L : legacy (F:=R)) : Prop := match lWout L with Some Wo => Wo <> [] | None => True end.

Lemma mT_square (W : rmat) n : length W = n -> (forall row, In row W -> length row = n) -> mT W = transpose W n.
Proof.
  intros Hl Hrows. unfold mT. destruct W as [|r W].
  - simpl in Hl. subst n. reflexivity.
  - f_equal. unfold mcols. apply Hrows. left. reflexivity.
Qed.
Lemma map_skipn1_tl (A : rmat) : map (skipn 1) A = map (@tl R) A.
Proof. apply map_ext. intros [|a r]; reflexivity. Qed.
Lemma hd_firstn1 (A : rmat) : map (hd 0) (map (firstn 1) A) = map (hd 0) A.
Proof. rewrite map_map. apply map_ext. intros [|a r]; reflexivity. Qed.

(* Wout = W[:, 1:].T and bias = W[:, :1].T of a (dim_out, 1 + N) array, dim_out >= 1 *)
Lemma extracted_wout (Wo : rmat) n : Wo <> [] -> (forall row, In row Wo -> length row = S n) ->
  mT (map (skipn 1) Wo) = transpose (map (@tl R) Wo) n /\ hd [] (mT (map (firstn 1) Wo)) = map (hd 0) Wo.
Proof.
  intros Hne Hrows. destruct Wo as [|r Wo]; [congruence|].
  assert (Hr : length r = S n) by (apply Hrows; left; reflexivity). destruct r as [|a r]; [discriminate|]. split.
  - rewrite map_skipn1_tl. unfold mT. f_equal. simpl in *. lia.
  - unfold mT. replace (mcols (map (firstn 1) ((a :: r) :: Wo))) with 1%nat by reflexivity.
    cbn [transpose hd]. apply hd_firstn1.
Qed.

(* the extracted table, read through the nodes, IS the conversion map of model/Store.v *)
Lemma extracted_convert_eq (L : legacy (F:=R)) (e : sidecar) : legacy_shaped L -> length (lW L) = lN L -> legacy_wout_nonempty L ->
  extracted_convert (saved_of L e) = convert L.
Proof.
  intros [HW [_ HWout]] HlW Hne. unfold extracted_convert, saved_of, convert, split_win, v3_of_kwargs, legacy_wout_nonempty in *.
  unfold GenCompat.reservoir_units, GenCompat.reservoir_lr, GenCompat.reservoir_input_bias, GenCompat.reservoir_W,
    GenCompat.reservoir_Win, GenCompat.reservoir_Wfb, GenCompat.ridge_Wout, GenCompat.ridge_bias.
  cbn [GenCompat.m_W GenCompat.m_Win GenCompat.m_Wfb GenCompat.m_Wout GenCompat.a_N GenCompat.a_lr GenCompat.a_in_bias].
  rewrite (mT_square (lW L) (lN L) HlW HW).
  destruct (lWout L) as [Wo|]; [|destruct (lbias L); reflexivity].
  destruct (extracted_wout Wo (lN L) Hne HWout) as [E1 E2]. rewrite E1, E2. destruct (lbias L); reflexivity.
Qed.

(* the function and noise keywords: the saved feedback function and activation (identity / tanh when none was saved), the three
   noise gains (noise_out of v0.2 is noise_fb of v0.3; 0 when absent), the output dimension, feedback connection iff a Wfb was saved *)
Definition default0 (o : option R) : R := match o with Some a => a | None => 0 end.
Lemma extracted_functions (L : legacy (F:=R)) (e : sidecar) :
  GenCompat.reservoir_fb_activation (saved_of L e) = match s_fbfunc e with Some h => h | None => s_idf e end /\
  GenCompat.reservoir_activation (saved_of L e) = match s_act e with Some h => h | None => s_tanhf e end.
Proof. split; reflexivity. Qed.
Lemma extracted_noise (L : legacy (F:=R)) (e : sidecar) :
  GenCompat.reservoir_noise_in (saved_of L e) = default0 (s_gin e) /\
  GenCompat.reservoir_noise_rc (saved_of L e) = default0 (s_grc e) /\
  GenCompat.reservoir_noise_fb (saved_of L e) = default0 (s_gout e).
Proof. repeat split. Qed.
Lemma extracted_feedback (L : legacy (F:=R)) (e : sidecar) :
  GenCompat.esn_feedback (saved_of L e) = c_has_fb L /\ GenCompat.ridge_input_bias (saved_of L e) = true /\
  GenCompat.ridge_output_dim (saved_of L e) = s_dout e /\ vWfb (extracted_convert (saved_of L e)) = lWfb L.
Proof.
  unfold GenCompat.esn_feedback, GenCompat.ridge_output_dim, c_has_fb, extracted_convert, v3_of_kwargs, saved_of, GenCompat.reservoir_Wfb,
    GenCompat.reservoir_input_bias. cbn [GenCompat.m_Wfb GenCompat.a_in_bias GenCompat.a_dim_out].
  destruct (lWfb L), (lbias L); repeat split.
Qed.

(* ---------------------------------------------------------------- C16_load_compat_equiv for the translated / extracted code *)
Section Equiv.
Variable L : legacy (F:=R).
Variable e : sidecar.
Variables f g : rvec -> rvec.
Hypothesis Hshape : legacy_shaped L.
Hypothesis Hrect : legacy_rect L.
Hypothesis Hne : legacy_wout_nonempty L.
Hypothesis Hf : s_act e = Some f.
Hypothesis Hg : s_fbfunc e = Some g.

(* one step of the v0.3 ESN described by the extracted keyword table (its activation and feedback function being the extracted ones:
   the saved f and g) = the TRANSLATED _get_next_state of the saved v0.2 ESN, noise gains 0 *)
Theorem gen_load_compat_step (xin xrc xfb x u fb : rvec) :
  (length (if lbias L then add_bias u else u) <= length xin)%nat ->
  (length (g fb) <= length xfb)%nat ->
  (length (f (legacy_pre L g x u fb)) <= length xrc)%nat ->
  v3_step (extracted_convert (saved_of L e)) (GenCompat.reservoir_activation (saved_of L e)) (GenCompat.reservoir_fb_activation (saved_of L e)) x u fb
  = GenLegacy.get_next_state (lW L) (lWin L) (c_Wfb L) (lbias L) (llr L) f g 0 0 0 (c_has_fb L) xin xrc xfb u fb x.
Proof.
  intros Hin Hfb Hrc. rewrite (gen_step_eq L f g Hshape Hrect xin xrc xfb x u fb Hin Hfb Hrc).
  destruct (extracted_functions L e) as [Eg Ef]. rewrite Eg, Ef, Hf, Hg.
  rewrite (extracted_convert_eq L e Hshape (proj1 Hrect) Hne). apply convert_step. exact Hshape.
Qed.

(* the readout of that v0.3 ESN on every state row = the TRANSLATED compute_outputs *)
Theorem gen_load_compat_outputs (Wo : rmat) (seqs : list rmat) (verbose : bool) : lWout L = Some Wo ->
  exists Wb, vWout (extracted_convert (saved_of L e)) = Some Wb /\
             GenLegacyOut.compute_outputs (c_Wout L) (c_has_wout L) seqs verbose = Some (map (map (v3_out Wb)) seqs).
Proof.
  intros HWo. rewrite (extracted_convert_eq L e Hshape (proj1 Hrect) Hne).
  assert (HWb : exists Wb, vWout (convert L) = Some Wb /\ forall x, v3_out Wb x = legacy_out Wo x).
  { destruct (convert_out L Hshape Wo [] HWo) as [Wb [HWb _]]. exists Wb. split; [exact HWb|]. intros x.
    destruct (convert_out L Hshape Wo x HWo) as [Wb' [HWb' Hout]]. rewrite HWb in HWb'. injection HWb' as <-. exact Hout. }
  destruct HWb as [Wb [HWb Hout]]. exists Wb. split; [exact HWb|].
  rewrite (gen_outputs_eq L Hshape Wo seqs verbose HWo). f_equal. apply map_ext. intros s. apply map_ext. intros r. symmetry. apply Hout.
Qed.

(* whole runs: the v0.3 ESN of the extracted table follows the model's legacy run (C16_load_compat_equiv transferred) *)
Theorem gen_load_compat_run (x fb : rvec) (us : list rvec) :
  v3_run (extracted_convert (saved_of L e)) (GenCompat.reservoir_activation (saved_of L e)) (GenCompat.reservoir_fb_activation (saved_of L e)) x fb us
  = legacy_run L f g x fb us.
Proof.
  destruct (extracted_functions L e) as [Eg Ef]. rewrite Eg, Ef, Hf, Hg.
  rewrite (extracted_convert_eq L e Hshape (proj1 Hrect) Hne). apply convert_run. exact Hshape.
Qed.
End Equiv.

Lemma gen_load_compat_equiv (L : legacy (F:=R)) (e : sidecar) (f g : rvec -> rvec) :
  legacy_shaped L -> legacy_rect L -> legacy_wout_nonempty L -> s_act e = Some f -> s_fbfunc e = Some g ->
  let E := extracted_convert (saved_of L e) in
  let fE := GenCompat.reservoir_activation (saved_of L e) in let gE := GenCompat.reservoir_fb_activation (saved_of L e) in
  (forall xin xrc xfb x u fb,
     (length (if lbias L then add_bias u else u) <= length xin)%nat -> (length (g fb) <= length xfb)%nat ->
     (length (f (legacy_pre L g x u fb)) <= length xrc)%nat ->
     v3_step E fE gE x u fb
     = GenLegacy.get_next_state (lW L) (lWin L) (c_Wfb L) (lbias L) (llr L) f g 0 0 0 (c_has_fb L) xin xrc xfb u fb x) /\
  (forall Wo seqs verbose, lWout L = Some Wo ->
     exists Wb, vWout E = Some Wb /\
                GenLegacyOut.compute_outputs (c_Wout L) (c_has_wout L) seqs verbose = Some (map (map (v3_out Wb)) seqs)) /\
  (forall x fb us, v3_run E fE gE x fb us = legacy_run L f g x fb us).
Proof.
  intros Hs Hr Hne Hf Hg. split; [|split].
  - exact (gen_load_compat_step L e f g Hs Hr Hne Hf Hg).
  - intros Wo seqs verbose. exact (gen_load_compat_outputs L e Hs Hr Hne Wo seqs verbose).
  - exact (gen_load_compat_run L e f g Hs Hr Hne Hf Hg).
Qed.

(* non-vacuity of the shape hypotheses *)
Lemma gen_rect_example :
  let L := (mkLegacy 2 [[0;1];[2;0]] [[1;1];[0;1]] true (Some [[1];[1]]) (Some [[1;2;3]]) (1/2))%R in
  legacy_shaped L /\ legacy_rect L /\ legacy_wout_nonempty L.
Proof.
  cbv zeta. unfold legacy_shaped, legacy_rect, legacy_wout_nonempty. simpl. repeat split.
  - intros row [<-|[<-|[]]]; reflexivity.
  - intros row [<-|[]]; reflexivity.
  - exists 1%nat. intros row [<-|[<-|[]]]; reflexivity.
  - exists 0%nat. intros row [<-|[<-|[]]]; reflexivity.
  - discriminate.
Qed.
