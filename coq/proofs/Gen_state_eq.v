(* Tie (T) of C08: the functions GENERATED from the current source of Node.zero_state / state / reset / _flag_feedback / with_state
   (reservoirpy/node.py), call (reservoirpy/_base.py) and Model.reset / Model.with_state (reservoirpy/model.py) -- coq/gen/Gen_state.v,
   vocabulary base/CtxPrelude.v -- against the hand model model/ModelSem.v the theorems of C08 are stated about.

   Part 1 (heap level, no hand model): what each generated function does to the heap of node objects, for EVERY body of the `with`
   statement and both of its outcomes; the generated Node.with_state is [with_cm] of an explicit (enter, exit) pair.
   Part 2: through [abs] (forget `_is_initialized`, `_output_dim`, `_fb_flag`) these are start_env / restore_st / reset_op / run_op of
   ModelSem.  Hypotheses, stated where used: node names are distinct; the nodes are initialised, their `_state` is an array and
   `_output_dim` an int (the state of a model after initialize()); the arrays handed to check_one_sequence are accepted by it (its
   rejections are C12's subject; what a rejected from_state leaves behind is [gen_with_state_rejected]). *)
From Coq Require Import List Arith Bool Lia.
From RV Require Import base.Num base.LA base.CtxPrelude gen.Gen_state model.ModelSem proofs.ModelSem_proofs.
Import ListNotations.

Section HeapLevel.
Context {F : Type} `{Num F} {P X : Type}.
Variable check_ok : option nat -> list F -> bool.
Variable fw : nat -> @obj F P -> X -> option (list F * P).
Notation vec := (list F).
Notation hp := (@heap F P).
Notation obj := (@obj F P).

Notation g_zero_state := (@GenState.Node_zero_state F _ P).
Notation g_state := (@GenState.Node_state F P).
Notation g_reset := (@GenState.Node_reset F _ P check_ok).
Notation g_flag := (@GenState.Node_flag_feedback F P).
Notation g_with_state := (GenState.Node_with_state check_ok).
Notation g_call := (@GenState.call F _ P X check_ok fw).
Notation g_mreset := (@GenState.Model_reset F _ P check_ok).
Notation g_mwith_state := (GenState.Model_with_state check_ok).

Lemma hupd_same (h : hp) n o : hupd h n o n = o.
Proof. unfold hupd. rewrite Nat.eqb_refl. reflexivity. Qed.
Lemma hupd_other (h : hp) n o k : k <> n -> hupd h n o k = h k.
Proof. intros Hk. unfold hupd. destruct (Nat.eqb_spec k n); [contradiction|reflexivity]. Qed.

(* ------------------------------------------------------------------------------------------------ Node.zero_state, state, reset *)
Definition zero_of (o : obj) : option vec := match a_output_dim o with Some k => Some (vzeros k) | None => None end.

Lemma gen_zero_state (h : hp) n : g_zero_state n h = (h, Ok (zero_of (h n))).
Proof.
  unfold GenState.Node_zero_state, zero_of, bind, rd, ret, raise, np_zeros_row.
  destruct (a_output_dim (h n)) eqn:E; cbn; rewrite ?E; reflexivity.
Qed.

Lemma gen_state (h : hp) n : g_state n h = (h, Ok (if a_is_initialized (h n) then a_state (h n) else None)).
Proof. unfold GenState.Node_state, bind, rd, ret. destruct (a_is_initialized (h n)); reflexivity. Qed.

(* reset(): the zero state of the node's output dimension; nothing else is written *)
Lemma gen_reset_none (h : hp) n : g_reset n None h = (hupd h n (set_state (h n) (zero_of (h n))), Ok tt).
Proof. unfold GenState.Node_reset. unfold bind at 1. rewrite gen_zero_state. reflexivity. Qed.
(* reset(to_state=v): v when check_one_sequence accepts it; else the check's exception and NOTHING written *)
Lemma gen_reset_some (h : hp) n v :
  g_reset n (Some v) h = if check_ok (a_output_dim (h n)) v then (hupd h n (set_state (h n) (Some v)), Ok tt) else (h, Exc CheckError).
Proof.
  unfold GenState.Node_reset, bind, rd, ret, py_check_one_sequence, wr_state, py_astype.
  destruct (check_ok (a_output_dim (h n)) v); reflexivity.
Qed.

Lemma gen_flag_feedback (h : hp) n : g_flag n h = (hupd h n (set_fb_flag (h n) (negb (a_fb_flag (h n)))), Ok tt).
Proof. reflexivity. Qed.

(* ------------------------------------------------------------------------------------------------ Node.with_state as an (enter, exit) pair *)
(* the state the body starts from: the given one | zero when reset | the current one *)
Definition start_state (o : obj) (state : option vec) (reset : bool) : option vec :=
  match state with Some v => Some v | None => if reset then zero_of o else a_state o end.
(* `self.reset(to_state=state)` at the entry hands that array (the zero state and the node's own current state included) to
   check_one_sequence; a None reaching it (no output dimension / no state yet) means zero_state() and no check *)
Definition enter_check (o : obj) (state : option vec) (reset : bool) : bool :=
  match start_state o state reset with Some v => check_ok (a_output_dim o) v | None => true end.
Definition entered_state (o : obj) (state : option vec) (reset : bool) : option vec :=
  match start_state o state reset with Some v => Some v | None => zero_of o end.

Lemma gen_reset (h : hp) n s :
  g_reset n s h = match s with
                  | Some v => if check_ok (a_output_dim (h n)) v then (hupd h n (set_state (h n) (Some v)), Ok tt) else (h, Exc CheckError)
                  | None => (hupd h n (set_state (h n) (zero_of (h n))), Ok tt)
                  end.
Proof. destruct s; [apply gen_reset_some|apply gen_reset_none]. Qed.

(* enter: the code before the yield; hands the saved `current_state` to the exit *)
Definition ws_enter (n : nat) (state : option vec) (reset : bool) : M hp (option vec) :=
  fun h => if negb (a_is_initialized (h n)) then (h, Exc RuntimeError)
           else if enter_check (h n) state reset then (hupd h n (set_state (h n) (entered_state (h n) state reset)), Ok (a_state (h n)))
           else (h, Exc CheckError).
(* exit: the `finally` clause *)
Definition ws_exit (n : nat) (stateful : bool) (saved : option vec) : M hp unit :=
  fun h => if stateful then (h, Ok tt) else (hupd h n (set_state (h n) saved), Ok tt).

Lemma tail_eq {A : Type} (n : nat) (stateful : bool) (cur : option vec) (body : M hp A) (h0 : hp) :
  bind (try_finally body (if negb stateful then bind (wr_state n cur) (fun _ => ret tt) else ret tt)) (fun r => ret r) h0
  = try_finally body (ws_exit n stateful cur) h0.
Proof.
  unfold bind, try_finally, ret, wr_state, ws_exit. destruct (body h0) as [h1 r].
  destruct stateful; cbn; destruct r; reflexivity.
Qed.

Lemma with_cm_unfold {V A : Type} (enter : M hp V) (exit_ : V -> M hp unit) (body : M hp A) (h : hp) :
  with_cm enter exit_ body h = match enter h with (h0, Ok v) => try_finally body (exit_ v) h0 | (h0, Exc e) => (h0, Exc e) end.
Proof. reflexivity. Qed.

Theorem gen_with_state_is_cm {A : Type} n state stateful reset (body : M hp A) (h : hp) :
  g_with_state n state stateful reset body h = with_cm (ws_enter n state reset) (ws_exit n stateful) body h.
Proof.
  rewrite with_cm_unfold. unfold GenState.Node_with_state, ws_enter.
  unfold bind at 1. unfold rd at 1.
  destruct (a_is_initialized (h n)) eqn:Hi; cbn [negb]; [|reflexivity].
  unfold bind at 1. unfold rd at 1.
  unfold enter_check, entered_state, start_state.
  destruct state as [v|]; [|destruct reset].
  - unfold bind at 1. rewrite gen_reset. destruct (check_ok (a_output_dim (h n)) v); [|reflexivity]. apply tail_eq.
  - unfold bind at 1. rewrite gen_zero_state. unfold bind at 1. rewrite gen_reset.
    destruct (zero_of (h n)) as [z|]; [destruct (check_ok (a_output_dim (h n)) z); [|reflexivity]|]; apply tail_eq.
  - unfold bind at 1. rewrite gen_reset.
    destruct (a_state (h n)) as [z|]; [destruct (check_ok (a_output_dim (h n)) z); [|reflexivity]|]; apply tail_eq.
Qed.

(* every outcome of `with node.with_state(state, stateful, reset): body`, for every body *)
Theorem gen_with_state_uninitialized {A : Type} n state stateful reset (body : M hp A) (h : hp) :
  a_is_initialized (h n) = false -> g_with_state n state stateful reset body h = (h, Exc RuntimeError).
Proof. intros Hi. rewrite gen_with_state_is_cm, with_cm_unfold. unfold ws_enter. rewrite Hi. reflexivity. Qed.
(* a state refused by check_one_sequence: the body is not run and nothing has been written *)
Theorem gen_with_state_rejected {A : Type} n state stateful reset (body : M hp A) (h : hp) :
  a_is_initialized (h n) = true -> enter_check (h n) state reset = false ->
  g_with_state n state stateful reset body h = (h, Exc CheckError).
Proof. intros Hi Hc. rewrite gen_with_state_is_cm, with_cm_unfold. unfold ws_enter. rewrite Hi, Hc. reflexivity. Qed.
(* otherwise: the body runs from the given | zero | current state; afterwards `_state` is put back unless stateful -- whether the
   body returned or raised ([r] is its outcome, handed on unchanged); nothing else of the heap is touched by the context itself *)
Theorem gen_with_state_outcomes {A : Type} n state stateful reset (body : M hp A) (h : hp) :
  a_is_initialized (h n) = true -> enter_check (h n) state reset = true ->
  g_with_state n state stateful reset body h =
    (let h0 := hupd h n (set_state (h n) (entered_state (h n) state reset)) in
     let '(h1, r) := body h0 in
     ((if stateful then h1 else hupd h1 n (set_state (h1 n) (a_state (h n)))), r)).
Proof.
  intros Hi Hc. rewrite gen_with_state_is_cm, with_cm_unfold. unfold ws_enter. rewrite Hi, Hc. cbn [negb].
  unfold try_finally, ws_exit. cbv zeta. destruct (body _) as [h1 r]. destruct stateful; reflexivity.
Qed.

(* stateful=False: `_state` of the node afterwards is `_state` before -- no hypothesis: any body, any outcome of it, any argument,
   initialised or not, accepted by the check or not *)
Theorem gen_with_state_restores {A : Type} n state reset (body : M hp A) (h h' : hp) r :
  g_with_state n state false reset body h = (h', r) -> a_state (h' n) = a_state (h n).
Proof.
  destruct (a_is_initialized (h n)) eqn:Hi.
  - destruct (enter_check (h n) state reset) eqn:Hc.
    + rewrite gen_with_state_outcomes by assumption. cbv zeta. destruct (body _) as [h1 r1]. intros E. inversion E; subst.
      rewrite hupd_same. reflexivity.
    + rewrite gen_with_state_rejected by assumption. intros E. inversion E; subst. reflexivity.
  - rewrite gen_with_state_uninitialized by assumption. intros E. inversion E; subst. reflexivity.
Qed.

(* ------------------------------------------------------------------------------------------------ _base.call *)
(* the node object the forward function sees, and the object the call leaves behind *)
Definition call_obj0 (o : obj) (from : option vec) (reset : bool) : obj := set_state o (entered_state o from reset).
Definition call_result (n : nat) (x : X) (o : obj) (from : option vec) (stateful reset : bool) : obj * outcome vec :=
  let o0 := call_obj0 o from reset in
  match fw n o0 x with
  | Some (s, p) => (mkObj (if stateful then Some s else a_state o) (a_is_initialized o) (a_output_dim o) (negb (a_fb_flag o)) p, Ok s)
  | None => (set_state o0 (if stateful then a_state o0 else a_state o), Exc ForwardError)
  end.

Theorem gen_call_spec n x from stateful reset (h : hp) :
  a_is_initialized (h n) = true -> enter_check (h n) from reset = true ->
  let '(h', r) := g_call n x from stateful reset h in
  r = snd (call_result n x (h n) from stateful reset) /\
  h' n = fst (call_result n x (h n) from stateful reset) /\ forall k, k <> n -> h' k = h k.
Proof.
  intros Hi Hc. unfold GenState.call. unfold bind at 1. rewrite gen_with_state_outcomes by assumption. cbv zeta.
  unfold call_result, call_obj0.
  unfold bind at 1. unfold py_forward at 1. rewrite hupd_same.
  destruct (fw n (set_state (h n) (entered_state (h n) from reset)) x) as [[s p]|].
  - unfold bind, wr_state, ret. rewrite gen_flag_feedback. rewrite !hupd_same. cbn [fst snd].
    split; [reflexivity|]. destruct stateful.
    + rewrite hupd_same. split; [reflexivity|]. intros k Hk. rewrite !hupd_other by assumption. reflexivity.
    + rewrite !hupd_same. split; [reflexivity|]. intros k Hk. rewrite !hupd_other by assumption. reflexivity.
  - cbn [fst snd]. split; [reflexivity|]. destruct stateful.
    + rewrite hupd_same. split; [destruct (h n); reflexivity|]. intros k Hk. rewrite !hupd_other by assumption. reflexivity.
    + rewrite !hupd_same. split; [reflexivity|]. intros k Hk. rewrite !hupd_other by assumption. reflexivity.
Qed.

(* stateful=False call: `_state` afterwards is `_state` before, whether the forward function returned or raised *)
Theorem gen_call_stateless_restores n x from reset (h h' : hp) r :
  g_call n x from false reset h = (h', r) -> a_state (h' n) = a_state (h n).
Proof.
  unfold GenState.call. unfold bind at 1. destruct (g_with_state _ _ _ _ _ _) as [h1 r1] eqn:E.
  apply gen_with_state_restores in E. destruct r1; intros E2; inversion E2; subst; exact E.
Qed.

(* ------------------------------------------------------------------------------------------------ folds of `_state` assignments *)
(* for n in nodes: n._state = new n <n as it is then> *)
Definition set_all (new : nat -> obj -> option vec) (nodes : list nat) (h : hp) : hp :=
  fold_left (fun acc n => hupd acc n (set_state (acc n) (new n (acc n)))) nodes h.
Lemma set_all_pt (new : nat -> obj -> option vec) : forall nodes (h : hp) k, NoDup nodes ->
  set_all new nodes h k = if in_dec Nat.eq_dec k nodes then set_state (h k) (new k (h k)) else h k.
Proof.
  unfold set_all. induction nodes as [|n rest IH]; intros h k Hnd; [reflexivity|].
  inversion Hnd as [|? ? Hn Hnd']; subst. cbn [fold_left]. rewrite IH by assumption.
  destruct (Nat.eq_dec k n) as [->|Hk].
  - destruct (in_dec Nat.eq_dec n rest) as [Hi|_]; [contradiction|]. rewrite hupd_same.
    destruct (in_dec Nat.eq_dec n (n :: rest)) as [_|Hi]; [reflexivity|]. exfalso. apply Hi. left. reflexivity.
  - rewrite !hupd_other by assumption.
    destruct (in_dec Nat.eq_dec k rest) as [Hi|Hi], (in_dec Nat.eq_dec k (n :: rest)) as [Hj|Hj]; try reflexivity.
    + exfalso. apply Hj. right. assumption.
    + exfalso. destruct Hj as [Hj|Hj]; [congruence|contradiction].
Qed.
(* the exits of an ExitStack: last entered, first left *)
Definition unset_all (saved : nat -> option vec) (nodes : list nat) (h1 : hp) : hp :=
  fold_right (fun n acc => hupd acc n (set_state (acc n) (saved n))) h1 nodes.
Lemma unset_all_pt (saved : nat -> option vec) : forall nodes (h1 : hp) k, NoDup nodes ->
  unset_all saved nodes h1 k = if in_dec Nat.eq_dec k nodes then set_state (h1 k) (saved k) else h1 k.
Proof.
  unfold unset_all. induction nodes as [|n rest IH]; intros h1 k Hnd; [reflexivity|].
  inversion Hnd as [|? ? Hn Hnd']; subst. cbn [fold_right].
  destruct (Nat.eq_dec k n) as [->|Hk].
  - rewrite hupd_same. rewrite IH by assumption. destruct (in_dec Nat.eq_dec n rest) as [Hi|_]; [contradiction|].
    destruct (in_dec Nat.eq_dec n (n :: rest)) as [_|Hi]; [reflexivity|]. exfalso. apply Hi. left. reflexivity.
  - rewrite hupd_other by assumption. rewrite IH by assumption.
    destruct (in_dec Nat.eq_dec k rest) as [Hi|Hi], (in_dec Nat.eq_dec k (n :: rest)) as [Hj|Hj]; try reflexivity.
    + exfalso. apply Hj. right. assumption.
    + exfalso. destruct Hj as [Hj|Hj]; [congruence|contradiction].
Qed.
Lemma unset_all_cons (saved : nat -> option vec) n rest (h1 : hp) :
  unset_all saved (n :: rest) h1 = hupd (unset_all saved rest h1) n (set_state (unset_all saved rest h1 n) (saved n)).
Proof. reflexivity. Qed.
Lemma unset_all_ext (s1 s2 : nat -> option vec) : forall nodes (h1 : hp),
  (forall n, In n nodes -> s1 n = s2 n) -> unset_all s1 nodes h1 = unset_all s2 nodes h1.
Proof.
  unfold unset_all. induction nodes as [|n rest IH]; intros h1 Hs; [reflexivity|]. cbn [fold_right].
  rewrite (IH h1) by (intros; apply Hs; right; assumption). rewrite (Hs n) by (left; reflexivity). reflexivity.
Qed.

(* ------------------------------------------------------------------------------------------------ Model.reset *)
Lemma gen_mreset_none : forall nodes (h : hp), g_mreset nodes None h = (set_all (fun _ o => zero_of o) nodes h, Ok tt).
Proof.
  unfold GenState.Model_reset, set_all. intros nodes h. unfold bind at 1.
  assert (E : forall nodes (h : hp), py_for nodes (fun node => bind (g_reset node None) (fun _ => ret tt)) h
              = (fold_left (fun acc n => hupd acc n (set_state (acc n) (zero_of (acc n)))) nodes h, Ok tt)).
  { induction nodes0 as [|n rest IH]; intros h0; [reflexivity|]. cbn [py_for fold_left]. unfold bind at 1. unfold bind at 1.
    rewrite gen_reset_none. unfold ret at 1. apply IH. }
  rewrite E. reflexivity.
Qed.

(* Model.reset(to_state=d) for a dict of arrays that check_one_sequence accepts: node by node in the dict's order *)
Definition dict_val (o : obj) (v : option vec) : option vec := match v with Some s => Some s | None => zero_of o end.
Lemma gen_mreset_some nodes : forall (d : @pydict F) (h : hp),
  (forall k s, In (k, Some s) d -> check_ok (a_output_dim (h k)) s = true) ->
  g_mreset nodes (Some d) h = (fold_left (fun acc kv => hupd acc (fst kv) (set_state (acc (fst kv)) (dict_val (acc (fst kv)) (snd kv)))) d h, Ok tt).
Proof.
  unfold GenState.Model_reset, dict_items. intros d h Hc. unfold bind at 1.
  assert (E : forall (d : @pydict F) (h : hp), (forall k s, In (k, Some s) d -> check_ok (a_output_dim (h k)) s = true) ->
              py_for d (fun '(node_name, current_state) => bind (g_reset node_name current_state) (fun _ => ret tt)) h
              = (fold_left (fun acc kv => hupd acc (fst kv) (set_state (acc (fst kv)) (dict_val (acc (fst kv)) (snd kv)))) d h, Ok tt)).
  { induction d0 as [|[k v] rest IH]; intros h0 Hc0; [reflexivity|]. cbn [py_for fold_left fst snd]. unfold bind at 1. unfold bind at 1.
    rewrite gen_reset. assert (Hstep : (match v with
        | Some v0 => if check_ok (a_output_dim (h0 k)) v0 then (hupd h0 k (set_state (h0 k) (Some v0)), Ok tt) else (h0, Exc CheckError)
        | None => (hupd h0 k (set_state (h0 k) (zero_of (h0 k))), Ok tt) end) = (hupd h0 k (set_state (h0 k) (dict_val (h0 k) v)), @Ok unit tt)).
    { destruct v as [s0|]; [|reflexivity]. rewrite (Hc0 k s0) by (left; reflexivity). reflexivity. }
    rewrite Hstep. unfold ret at 1. apply IH. intros k' s' Hin.
    assert (Hd : a_output_dim (hupd h0 k (set_state (h0 k) (dict_val (h0 k) v)) k') = a_output_dim (h0 k')).
    { unfold hupd. destruct (Nat.eqb_spec k' k); [subst; reflexivity|reflexivity]. }
    rewrite Hd. apply Hc0. right. assumption. }
  rewrite E by assumption. reflexivity.
Qed.

(* ------------------------------------------------------------------------------------------------ Model.with_state, ExitStack path *)
Definition enter_new (from : nat -> option vec) (reset : bool) : nat -> obj -> option vec := fun n o => entered_state o (from n) reset.

Lemma gen_exit_stack {A : Type} (from : nat -> option vec) stateful reset (body : M hp A) : forall nodes (h : hp), NoDup nodes ->
  (forall n, In n nodes -> a_is_initialized (h n) = true /\ enter_check (h n) (from n) reset = true) ->
  exit_stack (map (fun node => let value := from node in g_with_state node value stateful reset) nodes) body h =
    (let h0 := set_all (enter_new from reset) nodes h in
     let '(h1, r) := body h0 in
     ((if stateful then h1 else unset_all (fun n => a_state (h n)) nodes h1), r)).
Proof.
  induction nodes as [|n rest IH]; intros h Hnd Hok.
  - cbn. destruct (body h) as [h1 r]. destruct stateful; reflexivity.
  - inversion Hnd as [|? ? Hn Hnd']; subst. cbn [map exit_stack]. cbv zeta.
    destruct (Hok n (or_introl eq_refl)) as [Hi Hc].
    rewrite gen_with_state_outcomes by assumption. cbv zeta.
    change (entered_state (h n) (from n) reset) with (enter_new from reset n (h n)).
    set (h0' := hupd h n (set_state (h n) (enter_new from reset n (h n)))).
    assert (Hsame : forall k, In k rest -> h0' k = h k).
    { intros k Hk. unfold h0'. apply hupd_other. intros ->. contradiction. }
    rewrite IH; [|assumption|intros k Hk; rewrite Hsame by assumption; apply Hok; right; assumption].
    cbv zeta. unfold set_all at 2. cbn [fold_left]. fold h0'.
    change (fold_left (fun acc n0 => hupd acc n0 (set_state (acc n0) (enter_new from reset n0 (acc n0)))) rest h0')
      with (set_all (enter_new from reset) rest h0').
    destruct (body (set_all (enter_new from reset) rest h0')) as [h1 r]. destruct stateful; [reflexivity|].
    rewrite unset_all_cons.
    rewrite (unset_all_ext (fun n0 => a_state (h0' n0)) (fun n0 => a_state (h n0))) by (intros k Hk; rewrite Hsame by assumption; reflexivity).
    reflexivity.
Qed.

Lemma bind_ret {A : Type} (m : M hp A) (h : hp) : bind m (fun r => ret r) h = m h.
Proof. unfold bind, ret. destruct (m h) as [h1 [a|e]]; reflexivity. Qed.

(* state is a dict (or None with reset=True): the ExitStack of the nodes' contexts, entered in self.nodes order *)
Theorem gen_mwith_state_exitstack {A : Type} nodes (state : @mstate F) stateful reset (body : M hp A) (h : hp) :
  mstate_is_ndarray state = false -> andb (mstate_is_none state) (negb reset) = false -> NoDup nodes ->
  (forall n, In n nodes -> a_is_initialized (h n) = true /\ enter_check (h n) (mstate_dict state n) reset = true) ->
  g_mwith_state nodes state stateful reset body h =
    (let h0 := set_all (enter_new (mstate_dict state) reset) nodes h in
     let '(h1, r) := body h0 in
     ((if stateful then h1 else unset_all (fun n => a_state (h n)) nodes h1), r)).
Proof.
  intros Ha Hs Hnd Hok. unfold GenState.Model_with_state. rewrite Hs, Ha.
  destruct (mstate_is_none state) eqn:Hn.
  - destruct state; try discriminate. rewrite bind_ret.
    apply (gen_exit_stack (fun _ => None) stateful reset body nodes h Hnd Hok).
  - rewrite bind_ret. apply (gen_exit_stack (mstate_dict state) stateful reset body nodes h Hnd Hok).
Qed.
Theorem gen_mwith_state_ndarray {A : Type} nodes stateful reset (body : M hp A) (h : hp) :
  g_mwith_state nodes SArray stateful reset body h = (h, Exc TypeError).
Proof. reflexivity. Qed.

(* state=None, reset=False: the snapshot path -- no entry code at all; exit = Model.reset(to_state = {name: state()}) unless stateful *)
Lemma gen_state_map : forall nodes (h : hp),
  py_map nodes (fun n => bind (g_state n) (fun t1 => ret t1)) h
  = (h, Ok (map (fun n => if a_is_initialized (h n) then a_state (h n) else None) nodes)).
Proof.
  induction nodes as [|n rest IH]; intros h; [reflexivity|]. cbn [py_map map]. unfold bind at 1. rewrite bind_ret, gen_state.
  unfold bind at 1. rewrite IH. reflexivity.
Qed.
Lemma fold_combine_map {B : Type} (f : B -> nat * option vec -> B) (g : nat -> option vec) : forall nodes (b : B),
  fold_left f (combine nodes (map g nodes)) b = fold_left (fun acc n => f acc (n, g n)) nodes b.
Proof. induction nodes as [|n rest IH]; intros b; [reflexivity|]. cbn. apply IH. Qed.
Lemma in_combine_map (g : nat -> option vec) : forall nodes k v, In (k, v) (combine nodes (map g nodes)) -> In k nodes /\ v = g k.
Proof.
  induction nodes as [|n rest IH]; intros k v Hin; [destruct Hin|]. cbn in Hin. destruct Hin as [E|Hin].
  - inversion E; subst. split; [left; reflexivity|reflexivity].
  - destruct (IH k v Hin) as [Hk Hv]. split; [right; assumption|assumption].
Qed.

Theorem gen_mwith_state_snapshot {A : Type} nodes stateful (body : M hp A) (h : hp) :
  (forall n, In n nodes -> a_is_initialized (h n) = true) ->
  (stateful = false -> forall n s, In n nodes -> a_state (h n) = Some s -> check_ok (a_output_dim (fst (body h) n)) s = true) ->
  g_mwith_state nodes SNone stateful false body h =
    (let '(h1, r) := body h in
     ((if stateful then h1 else set_all (fun n o => dict_val o (a_state (h n))) nodes h1), r)).
Proof.
  intros Hi Hc. unfold GenState.Model_with_state. cbn [mstate_is_none negb andb].
  destruct stateful; cbn [negb].
  - rewrite bind_ret. unfold try_finally, ret. destruct (body h) as [h1 r]. reflexivity.
  - unfold bind at 1. rewrite gen_state_map.
    rewrite (map_ext_in _ (fun n => a_state (h n))) by (intros n Hn; rewrite Hi by assumption; reflexivity).
    rewrite bind_ret. unfold try_finally. specialize (Hc eq_refl). destruct (body h) as [h1 r]. cbn [fst] in Hc.
    unfold bind at 1. unfold dict_of. rewrite gen_mreset_some.
    + unfold ret. rewrite fold_combine_map. reflexivity.
    + intros k s Hin. apply in_combine_map in Hin. destruct Hin as [Hk Hv]. apply Hc; [assumption|symmetry; assumption].
Qed.

End HeapLevel.

(* ================================================================================================== Part 2: against model/ModelSem.v *)
Section ModelLevel.
Context {F : Type} `{Num F}.
Variable check_ok : option nat -> list F -> bool.
Notation vec := (list F).
Notation hp := (@heap F (@hidden F)).
Notation obj := (@obj F (@hidden F)).
Notation env := (@env F).
Notation ndesc := (@ndesc F).
Notation model := (@model F).

(* the ModelSem environment a heap of node objects stands for: `_state` and the params; the rest is forgotten *)
Definition sv (o : obj) : vec := match a_state o with Some v => v | None => [] end.
Definition habs (h : hp) : env := fun n => mkNS (sv (h n)) (a_params (h n)).
Lemma habs_st (h : hp) k : st (habs h k) = sv (h k).
Proof. reflexivity. Qed.
Lemma habs_hid (h : hp) k : hid (habs h k) = a_params (h k).
Proof. reflexivity. Qed.
(* what the context managers never write *)
Definition same_meta (a b : hp) : Prop :=
  forall k, a_is_initialized (a k) = a_is_initialized (b k) /\ a_output_dim (a k) = a_output_dim (b k) /\ a_fb_flag (a k) = a_fb_flag (b k).
(* the heap of an initialised model: every node initialised, its `_output_dim` the model's, its `_state` an array *)
Definition heap_good (m : model) (h : hp) : Prop :=
  forall d, In d (order m) ->
    a_is_initialized (h (nid d)) = true /\ a_output_dim (h (nid d)) = Some (odim d) /\ exists v, a_state (h (nid d)) = Some v.
(* the arrays the entry hands to check_one_sequence (given | zero | current) are accepted by it *)
Definition starts_accepted (m : model) (reset : bool) (from : nat -> option vec) (h : hp) : Prop :=
  forall d, In d (order m) -> check_ok (Some (odim d)) (st (start_env m reset from (habs h) (nid d))) = true.

Lemma start_env_frame (m : model) reset from : forall (e : env) k, ~ In k (ids_of m) -> start_env m reset from e k = e k.
Proof.
  unfold start_env, ids_of. induction (order m) as [|d ds IH]; intros e k Hk; [reflexivity|]. cbn [fold_left]. cbn in Hk.
  rewrite IH by tauto. destruct (from (nid d)); [apply set_st_other; intros ->; tauto|].
  destruct reset; [apply set_st_other; intros ->; tauto|reflexivity].
Qed.
Lemma start_env_hid (m : model) reset from : forall (e : env) k, hid (start_env m reset from e k) = hid (e k).
Proof.
  unfold start_env. induction (order m) as [|d ds IH]; intros e k; [reflexivity|]. cbn [fold_left]. rewrite IH.
  destruct (from (nid d)); [apply set_st_hid|]. destruct reset; [apply set_st_hid|reflexivity].
Qed.

Lemma in_ids (m : model) k : In k (ids_of m) -> exists d, In d (order m) /\ nid d = k.
Proof. unfold ids_of. intros Hk. apply in_map_iff in Hk. destruct Hk as (d & E & Hd). exists d. split; assumption. Qed.

(* the entry of one node, in ModelSem's terms *)
Lemma entered_is_start (m : model) reset from (h : hp) d :
  In d (order m) -> NoDup (ids_of m) -> heap_good m h ->
  start_state (h (nid d)) (from (nid d)) reset = Some (st (start_env m reset from (habs h) (nid d))).
Proof.
  intros Hd Hnd Hg. destruct (Hg d Hd) as (Hi & Ho & v & Hv). rewrite start_env_spec by assumption.
  unfold start_state, zero_of, habs, sv. cbn [st]. rewrite Ho, Hv. destruct (from (nid d)); [reflexivity|]. destruct reset; reflexivity.
Qed.

Theorem gen_model_with_state_is_model {A : Type} (m : model) (state : @mstate F) stateful reset (body : M hp A) (h : hp) :
  NoDup (ids_of m) -> heap_good m h -> mstate_is_ndarray state = false ->
  starts_accepted m reset (mstate_dict state) h ->
  (forall h0 k, a_output_dim (fst (body h0) k) = a_output_dim (h0 k)) ->
  exists h0 : hp,
    (forall k, habs h0 k = start_env m reset (mstate_dict state) (habs h) k) /\ same_meta h0 h /\
    let '(h1, r) := body h0 in
    let '(h2, r2) := GenState.Model_with_state check_ok (ids_of m) state stateful reset body h in
    r2 = r /\ same_meta h2 h1 /\
    forall k, habs h2 k = (if stateful then habs h1 else restore_st (ids_of m) (habs h) (habs h1)) k.
Proof.
  intros Hnd Hg Ha Hacc Hdim.
  destruct (andb (mstate_is_none state) (negb reset)) eqn:Hs.
  - (* snapshot path *)
    apply andb_prop in Hs. destruct Hs as [Hn Hr]. destruct state; try discriminate. destruct reset; try discriminate.
    exists h. split; [|split].
    + intros k. cbn [mstate_dict]. rewrite start_env_noop. reflexivity.
    + intros k. tauto.
    + rewrite (gen_mwith_state_snapshot check_ok).
      * destruct (body h) as [h1 r] eqn:Hb. split; [reflexivity|]. destruct stateful.
        { split; [intros k; tauto|reflexivity]. }
        split.
        { intros k. rewrite set_all_pt by assumption. destruct (in_dec Nat.eq_dec k (ids_of m)); cbn; tauto. }
        intros k. apply nstate_eq.
        { rewrite restore_st_spec, !habs_st. rewrite set_all_pt by assumption. destruct (in_dec Nat.eq_dec k (ids_of m)) as [Hk|Hk]; [|reflexivity].
          destruct (in_ids m k Hk) as (d & Hd & <-). destruct (Hg d Hd) as (_ & _ & v & Hv).
          unfold sv. cbn [set_state a_state]. rewrite Hv. reflexivity. }
        { rewrite restore_st_hid, !habs_hid. rewrite set_all_pt by assumption. destruct (in_dec Nat.eq_dec k (ids_of m)); reflexivity. }
      * intros n Hn'. destruct (in_ids m n Hn') as (d & Hd & <-). apply (Hg d Hd).
      * intros _ n s Hn' Hst. destruct (in_ids m n Hn') as (d & Hd & <-). rewrite Hdim. destruct (Hg d Hd) as (_ & Ho & _).
        rewrite Ho. specialize (Hacc d Hd). rewrite start_env_spec in Hacc by assumption. cbn [mstate_dict] in Hacc.
        unfold habs, sv in Hacc. cbn [st] in Hacc. rewrite Hst in Hacc. exact Hacc.
  - (* ExitStack path *)
    set (from := mstate_dict state) in *.
    assert (Hok : forall n, In n (ids_of m) -> a_is_initialized (h n) = true /\ enter_check check_ok (h n) (from n) reset = true).
    { intros n Hn'. destruct (in_ids m n Hn') as (d & Hd & <-). destruct (Hg d Hd) as (Hi & Ho & _). split; [assumption|].
      unfold enter_check. rewrite (entered_is_start m reset from h d Hd Hnd Hg). rewrite Ho. apply Hacc. assumption. }
    exists (set_all (enter_new from reset) (ids_of m) h).
    assert (Hent : forall k, In k (ids_of m) -> entered_state (h k) (from k) reset = Some (st (start_env m reset from (habs h) k))).
    { intros k Hk. destruct (in_ids m k Hk) as (d & Hd & <-). unfold entered_state.
      rewrite (entered_is_start m reset from h d Hd Hnd Hg). reflexivity. }
    split; [|split].
    + intros k. apply nstate_eq.
      * rewrite habs_st. rewrite set_all_pt by assumption. destruct (in_dec Nat.eq_dec k (ids_of m)) as [Hk|Hk].
        { unfold sv, enter_new. cbn [set_state a_state]. rewrite Hent by assumption. reflexivity. }
        { rewrite start_env_frame by assumption. reflexivity. }
      * rewrite habs_hid, start_env_hid. rewrite set_all_pt by assumption. destruct (in_dec Nat.eq_dec k (ids_of m)); reflexivity.
    + intros k. rewrite set_all_pt by assumption. destruct (in_dec Nat.eq_dec k (ids_of m)); cbn; tauto.
    + subst from. rewrite (gen_mwith_state_exitstack check_ok) by assumption. cbv zeta.
      destruct (body (set_all (enter_new (mstate_dict state) reset) (ids_of m) h)) as [h1 r]. split; [reflexivity|]. destruct stateful.
      { split; [intros k; tauto|reflexivity]. }
      split.
      { intros k. rewrite unset_all_pt by assumption. destruct (in_dec Nat.eq_dec k (ids_of m)); cbn; tauto. }
      intros k. apply nstate_eq.
      { rewrite restore_st_spec, !habs_st. rewrite unset_all_pt by assumption. destruct (in_dec Nat.eq_dec k (ids_of m)) as [Hk|Hk]; [|reflexivity].
        destruct (in_ids m k Hk) as (d & Hd & <-). destruct (Hg d Hd) as (_ & _ & v & Hv).
        unfold sv. cbn [set_state a_state]. rewrite Hv. reflexivity. }
      { rewrite restore_st_hid, !habs_hid. rewrite unset_all_pt by assumption. destruct (in_dec Nat.eq_dec k (ids_of m)); reflexivity. }
Qed.

(* ------------------------------------------------------------------------------------------------ Model.reset() = reset_op *)
Lemma reset_op_frame (m : model) : forall (e : env) k, ~ In k (ids_of m) -> reset_op m e k = e k.
Proof.
  unfold reset_op, ids_of. induction (order m) as [|d ds IH]; intros e k Hk; [reflexivity|]. cbn [fold_left]. cbn in Hk.
  rewrite IH by tauto. apply set_st_other. intros ->. tauto.
Qed.

Theorem gen_model_reset_is_reset_op (m : model) (h : hp) :
  NoDup (ids_of m) -> (forall d, In d (order m) -> a_output_dim (h (nid d)) = Some (odim d)) ->
  let '(h', r) := GenState.Model_reset check_ok (ids_of m) None h in
  r = Ok tt /\ same_meta h' h /\ forall k, habs h' k = reset_op m (habs h) k.
Proof.
  intros Hnd Ho. rewrite gen_mreset_none. split; [reflexivity|]. split.
  - intros k. rewrite set_all_pt by assumption. destruct (in_dec Nat.eq_dec k (ids_of m)); cbn; tauto.
  - intros k. destruct (reset_op_spec m (habs h) k) as [Hh Hs]. apply nstate_eq.
    + rewrite habs_st. rewrite set_all_pt by assumption. destruct (in_dec Nat.eq_dec k (ids_of m)) as [Hk|Hk].
      * destruct (in_ids m k Hk) as (d & Hd & <-). rewrite (Hs d Hd Hnd). unfold sv, zero_of. cbn [set_state a_state].
        rewrite (Ho d Hd). reflexivity.
      * rewrite reset_op_frame by assumption. reflexivity.
    + rewrite Hh, !habs_hid. rewrite set_all_pt by assumption. destruct (in_dec Nat.eq_dec k (ids_of m)); reflexivity.
Qed.

(* ------------------------------------------------------------------------------------------------ _base.call = run_op on one step *)
(* the forward function of ModelSem's node d as a function of the node object; its input is (gathered input, feedback value) *)
Definition fw_of (d : ndesc) : nat -> obj -> vec * option vec -> option (vec * @hidden F) :=
  fun _ o x => nfwd d (sv o) (a_params o) (fst x) (snd x).
Definition one_node (d : ndesc) (par : nat -> list nat) : model := mkModel [d] par [nid d].

Theorem gen_call_is_run_op (d : ndesc) par from stateful reset ext forced (h : hp) :
  heap_good (one_node d par) h -> starts_accepted (one_node d par) reset from h ->
  let m := one_node d par in
  let e0 := start_env m reset from (habs h) in
  let x := (gather m e0 ext (nid d), fbvalue d (proxies m forced e0) (clamps m forced)) in
  let '(h', r) := GenState.call check_ok (fw_of d) (nid d) x (from (nid d)) stateful reset h in
  let '(e', outs, ok) := run_op m stateful reset from [(ext, forced)] (habs h) in
  (forall k, habs h' k = e' k) /\
  a_fb_flag (h' (nid d)) = (if ok then negb (a_fb_flag (h (nid d))) else a_fb_flag (h (nid d))) /\
  match r with Ok s => ok = true /\ outs = [[s]] | Exc _ => ok = false /\ outs = [] end.
Proof.
  intros Hg Hacc m e0 x.
  assert (Hnd : NoDup (ids_of m)) by (cbn; constructor; [intros []|constructor]).
  assert (Hd : In d (order m)) by (left; reflexivity).
  pose proof (entered_is_start m reset from h d Hd Hnd Hg) as Hst. fold e0 in Hst.
  destruct (Hg d Hd) as (Hi & Ho & v & Hv).
  assert (Hc : enter_check check_ok (h (nid d)) (from (nid d)) reset = true).
  { unfold enter_check. rewrite Hst, Ho. apply Hacc. assumption. }
  pose proof (gen_call_spec check_ok (fw_of d) (nid d) x (from (nid d)) stateful reset h Hi Hc) as Hsp.
  destruct (GenState.call check_ok (fw_of d) (nid d) x (from (nid d)) stateful reset h) as [h' r].
  destruct Hsp as (Hr & Hn & Hoth).
  unfold call_result, call_obj0, entered_state in Hr, Hn. rewrite Hst in Hr, Hn.
  unfold fw_of in Hr, Hn. unfold sv at 1 in Hr. unfold sv at 1 in Hn. cbn [set_state a_state a_params] in Hr, Hn.
  assert (Hh0 : a_params (h (nid d)) = hid (e0 (nid d))) by (unfold e0; rewrite start_env_hid; reflexivity).
  rewrite Hh0 in Hr, Hn.
  assert (He0 : forall k, k <> nid d -> e0 k = habs h k).
  { intros k Hk. unfold e0. apply start_env_frame. cbn. intros [E|[]]. congruence. }
  subst m. unfold run_op. fold e0. cbn [run_steps]. unfold step, forward. cbn [order one_node forward_from]. unfold call_node.
  change (gather (one_node d par) e0 ext (nid d)) with (fst x). change (fbvalue d (proxies (one_node d par) forced e0) (clamps (one_node d par) forced)) with (snd x).
  destruct (nfwd d (st (e0 (nid d))) (hid (e0 (nid d))) (fst x) (snd x)) as [[s' hd']|].
  - cbn [fst snd] in Hr, Hn. subst r. split; [|split].
    + intros k. destruct (Nat.eq_dec k (nid d)) as [->|Hk].
      * unfold habs at 1. rewrite Hn. cbn [a_state a_params]. destruct stateful.
        { rewrite upd_same. reflexivity. }
        { cbn [ids_of order one_node map restore_st fold_left]. unfold set_st. rewrite !upd_same. cbn [st hid]. unfold sv. reflexivity. }
      * unfold habs at 1. rewrite Hoth by assumption. destruct stateful.
        { rewrite upd_other by assumption. rewrite He0 by assumption. reflexivity. }
        { cbn [ids_of order one_node map restore_st fold_left]. rewrite set_st_other by assumption.
          rewrite upd_other by assumption. rewrite He0 by assumption. reflexivity. }
    + rewrite Hn. reflexivity.
    + split; [reflexivity|]. unfold out_states. cbn [outputs one_node map]. rewrite upd_same. reflexivity.
  - cbn [fst snd] in Hr, Hn. subst r. split; [|split].
    + intros k. destruct (Nat.eq_dec k (nid d)) as [->|Hk].
      * unfold habs at 1. rewrite Hn. destruct stateful.
        { cbn [set_state a_state a_params]. apply nstate_eq; [reflexivity|]. cbn [hid]. exact Hh0. }
        { cbn [ids_of order one_node map restore_st fold_left]. unfold set_st. rewrite !upd_same. cbn [set_state a_state a_params sv].
          apply nstate_eq; [reflexivity|]. cbn [hid]. exact Hh0. }
      * unfold habs at 1. rewrite Hoth by assumption. destruct stateful.
        { rewrite He0 by assumption. reflexivity. }
        { cbn [ids_of order one_node map restore_st fold_left]. rewrite set_st_other by assumption. rewrite He0 by assumption. reflexivity. }
    + rewrite Hn. destruct stateful; reflexivity.
    + split; reflexivity.
Qed.

End ModelLevel.
