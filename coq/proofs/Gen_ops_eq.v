(* Tie (T) of C03, second unit: `concat_multi_inputs` as translated on this run from the current source text of
   reservoirpy/ops.py (coq/gen/Gen_ops.v, by tools/vlib/py2coq_ops.py on top of py2coq_graph.py; vocabulary base/PyColl.v)
   builds the node set and the edge set of the hand model [Graph.cmi], with the same identity supply:
   [nm v := new_concat 0 v] (the object created by `Concat()` -- allocation site 0 -- in the loop iteration for node v).

   Representation differences (stated precisely):
   * Python returns `list(new_nodes), list(new_edges)`, lists made from SETS: the generated code returns [ord_n 0 s] / [ord_e 0 s]
     (any permutation of the duplicate-free list s); [Graph.cmi] returns [nodup] of a flat_map in the order of V.  The two
     are therefore compared as duplicate-free lists with the same elements ([same_set]); nothing about the order is (or
     could be) claimed.
   * the generated code reads `parents[node]` from the defaultdict built by the generated find_parents_and_children on
     [srt E] (= `sorted(edges, key=names)`); [Graph.cmi] uses [parents E v].  Only the in-degree (a length) and the SET
     of parents matter, both invariant under the permutation [srt] ([cmi_srt_nodes], [cmi_srt_edges]).
   * the defaultdict reads `parents[node]` insert the missing keys ([dd_touch]); this never changes a value read later
     ([dd_getitem_touch]).  The write-only registry `concatenated` is [tt].
   * duplicates in [V] : both sides then name the SAME Concat [nm v] twice, whereas Python would create two objects; the
     statements about the real code are for pairwise distinct nodes (Model passes sets / duplicate-free lists).
   The junction with the generated text is [gen_cmi_unfold] (by reflexivity): when ops.py changes, the regenerated
   definition no longer matches [body] and that lemma -- hence every theorem below -- stops compiling. *)
From Coq Require Import List Arith Lia Bool Permutation.
From RV Require Import base.PyColl gen.Gen_graphflow gen.Gen_ops model.Graph proofs.Graph_proofs proofs.Graph_ops_proofs
  proofs.Gen_graphflow_eq.
Import ListNotations.

Lemma dd_getitem_touch {K V} `{PyEq K} (d : ddict K V) k k' : dd_getitem (dd_touch d k) k' = dd_getitem d k'.
Proof. unfold dd_touch. destruct (dd_lookup d k) eqn:Hl; auto.
  rewrite dd_getitem_set. destruct (py_eqb_spec k' k); auto. subst. unfold dd_getitem, dd_get. now rewrite Hl. Qed.

Lemma perm_filter {A} (f : A -> bool) l l' : Permutation l l' -> Permutation (filter f l) (filter f l').
Proof. induction 1; simpl.
  - constructor.
  - destruct (f x); auto.
  - destruct (f x), (f y); try apply perm_swap; apply Permutation_refl.
  - eapply perm_trans; eauto. Qed.

Lemma parents_perm E1 E2 v : Permutation E1 E2 -> Permutation (parents E1 v) (parents E2 v).
Proof. intros Hp. unfold parents. apply Permutation_map. now apply perm_filter. Qed.
Lemma children_perm E1 E2 v : Permutation E1 E2 -> Permutation (children E1 v) (children E2 v).
Proof. intros Hp. unfold children. apply Permutation_map. now apply perm_filter. Qed.

Lemma wrapped_perm isc E1 E2 v : Permutation E1 E2 -> wrapped isc E1 v = wrapped isc E2 v.
Proof. intros Hp. unfold wrapped, indeg. now rewrite (Permutation_length (parents_perm E1 E2 v Hp)). Qed.

Lemma cmi_srt_nodes isc nm V E1 E2 x : Permutation E1 E2 -> In x (cmi_nodes isc nm V E1) <-> In x (cmi_nodes isc nm V E2).
Proof. intros Hp. rewrite !cmi_nodes_In. split; (intros [Hx|[v [Hv [Hw ->]]]]; [left; auto | right; exists v; repeat split; auto]).
  - now rewrite <- (wrapped_perm isc E1 E2 v Hp).
  - now rewrite (wrapped_perm isc E1 E2 v Hp). Qed.

Lemma cmi_srt_edges isc nm V E1 E2 e : Permutation E1 E2 -> In e (cmi_edges isc nm V E1) <-> In e (cmi_edges isc nm V E2).
Proof. intros Hp. destruct e as [p c]. rewrite !cmi_edges_In.
  assert (Hin : forall a, In a E1 <-> In a E2).
  { intros a. split; [apply (Permutation_in _ Hp) | apply (Permutation_in _ (Permutation_sym Hp))]. }
  split; intros [v [Hv H]]; exists v; (split; [exact Hv|]).
  - rewrite <- (wrapped_perm isc E1 E2 v Hp). destruct (wrapped isc E1 v); rewrite <- Hin; exact H.
  - rewrite (wrapped_perm isc E1 E2 v Hp). destruct (wrapped isc E2 v); rewrite Hin; exact H. Qed.

(* two duplicate-free enumerations of the same finite set *)
Definition same_set {A} (l m : list A) : Prop := NoDup l /\ NoDup m /\ forall x, In x l <-> In x m.

Section GenOpsEq.
Variable ord_n : nat -> list node -> list node.
Variable ord_e : nat -> list edge -> list edge.
Variable srt : list edge -> list edge.
Variable isc : node -> bool.
Variable new_concat : nat -> node -> node.
Hypothesis Hord_n : forall k s, Permutation (ord_n k s) s.
Hypothesis Hord_e : forall k s, Permutation (ord_e k s) s.
Hypothesis Hsrt : forall l, Permutation (srt l) l.

Definition g_cmi := GenOps.concat_multi_inputs ord_n ord_e srt isc new_concat.
Definition g_nm : node -> node := new_concat 0.

Definition cstate := (ddict node node * list node * list edge * unit)%type.

(* the loop body of the generated definition, copied *)
Definition body : cstate -> node -> cstate := fun '(parents, new_nodes, new_edges, concatenated) node_ =>
let parents := (dd_touch parents node_) in
let indegree := (length (dd_getitem parents node_)) in
let '(new_nodes, new_edges, parents, concatenated) := (if (andb (Nat.ltb 1 indegree) (negb (isc node_))) then
let concat := (new_concat 0 node_) in
let new_nodes := set_union new_nodes (py_set [concat; node_]) in
let parents := (dd_touch parents node_) in
let new_edges := set_union new_edges (py_set ((map (fun p => (p, concat)) (dd_getitem parents node_)) ++ [(concat, node_)])) in
let parents := (dd_touch parents node_) in
(new_nodes, new_edges, parents, concatenated)
else
let new_nodes := set_union new_nodes (py_set [node_]) in
let parents := (dd_touch parents node_) in
let new_edges := set_union new_edges (py_set (map (fun p => (p, node_)) (dd_getitem parents node_))) in
(new_nodes, new_edges, parents, concatenated)) in
(parents, new_nodes, new_edges, concatenated).

Lemma gen_cmi_unfold V E : g_cmi V E =
  let '(parents, _) := GenGraphflow.find_parents_and_children srt E in
  let '(_, new_nodes, new_edges, _) := pure_for V body (parents, [], [], tt) in
  (ord_n 0 new_nodes, ord_e 0 new_edges).
Proof. reflexivity. Qed.

Section Loop.
Variable E : list edge.

Definition pinv (P : ddict node node) : Prop := forall v, dd_getitem P v = parents E v.

Lemma body_spec P N A u x : pinv P ->
  exists P' u', body (P, N, A, u) x =
    (P', set_union N (py_set (if wrapped isc E x then [g_nm x; x] else [x])),
     set_union A (py_set (if wrapped isc E x then map (fun p => (p, g_nm x)) (parents E x) ++ [(g_nm x, x)]
                          else map (fun p => (p, x)) (parents E x))), u') /\ pinv P'.
Proof. intros HP. unfold body. cbv zeta. rewrite !dd_getitem_touch, HP.
  change (andb (Nat.ltb 1 (length (parents E x))) (negb (isc x))) with (wrapped isc E x).
  destruct (wrapped isc E x); eexists; eexists; (split; [reflexivity|]); intros v; rewrite !dd_getitem_touch; apply HP. Qed.

Lemma loop_spec l : forall P N A u, pinv P -> NoDup N -> NoDup A ->
  exists P' N' A' u', pure_for l body (P, N, A, u) = (P', N', A', u') /\ NoDup N' /\ NoDup A' /\
    (forall x, In x N' <-> In x N \/ In x (cmi_nodes isc g_nm l E)) /\
    (forall e, In e A' <-> In e A \/ In e (cmi_edges isc g_nm l E)).
Proof. induction l as [|x l IH]; intros P N A u HP HN HA.
  - exists P, N, A, u. simpl. repeat split; auto; tauto.
  - destruct (body_spec P N A u x HP) as [P1 [u1 [Hb HP1]]].
    unfold pure_for in *. cbn [fold_left]. rewrite Hb.
    match goal with |- context [fold_left body l (P1, ?N1, ?A1, u1)] =>
      destruct (IH P1 N1 A1 u1 HP1) as [P' [N' [A' [u' [Hf [HN' [HA' [HNi HAi]]]]]]]] end.
    { apply set_union_NoDup; auto. apply py_set_NoDup. }
    { apply set_union_NoDup; auto. apply py_set_NoDup. }
    exists P', N', A', u'. split; [exact Hf|]. split; [exact HN'|]. split; [exact HA'|]. split.
    + intros y. rewrite HNi, set_union_In, py_set_In. unfold cmi_nodes. cbn [flat_map]. rewrite in_app_iff. tauto.
    + intros e. rewrite HAi, set_union_In, py_set_In. unfold cmi_edges. cbn [flat_map]. rewrite in_app_iff. tauto.
Qed.
End Loop.

(* ------------------------------------------------------------------ generated concat_multi_inputs = Graph.cmi, as sets *)
Theorem gen_cmi_is_model (V : list node) (E : list edge) :
  same_set (fst (g_cmi V E)) (fst (cmi isc g_nm V E)) /\ same_set (snd (g_cmi V E)) (snd (cmi isc g_nm V E)).
Proof.
  rewrite gen_cmi_unfold.
  assert (HP : pinv (srt E) (fst (GenGraphflow.find_parents_and_children srt E))).
  { intros v. exact (proj1 (gen_parents_children srt E v)). }
  destruct (GenGraphflow.find_parents_and_children srt E) as [P0 C0]. cbn [fst] in HP. cbv beta iota.
  destruct (loop_spec (srt E) V P0 [] [] tt HP (NoDup_nil _) (NoDup_nil _)) as [P' [N' [A' [u' [Hf [HN [HA [HNi HAi]]]]]]]].
  cbv delta [Graph.node PyColl.node Graph.edge PyColl.edge] in *. rewrite Hf. cbn [fst snd cmi]. split; (split; [|split]).
  - exact (Permutation_NoDup (Permutation_sym (Hord_n 0 N')) HN).
  - apply NoDup_nodup.
  - intros x. rewrite nodup_In. rewrite <- (cmi_srt_nodes isc g_nm V (srt E) E x (Hsrt E)).
    split.
    + intros Hi. apply (Permutation_in _ (Hord_n 0 N')) in Hi. apply HNi in Hi as [[]|Hi]. exact Hi.
    + intros Hi. apply (Permutation_in _ (Permutation_sym (Hord_n 0 N'))). apply HNi. now right.
  - exact (Permutation_NoDup (Permutation_sym (Hord_e 0 A')) HA).
  - apply NoDup_nodup.
  - intros e. rewrite nodup_In. rewrite <- (cmi_srt_edges isc g_nm V (srt E) E e (Hsrt E)).
    split.
    + intros Hi. apply (Permutation_in _ (Hord_e 0 A')) in Hi. apply HAi in Hi as [[]|Hi]. exact Hi.
    + intros Hi. apply (Permutation_in _ (Permutation_sym (Hord_e 0 A'))). apply HAi. now right.
Qed.

(* ------------------------------------------------------------------ transfer of the fan-in theorems to the generated code *)
Lemma same_set_perm {A} (l m : list A) : same_set l m -> Permutation l m.
Proof. intros [Hl [Hm Hi]]. now apply NoDup_Permutation. Qed.

Section Transfer.
Variables (V : list node) (E : list edge).
Hypothesis Hwf : wf V E.
Hypothesis Hfresh : forall v, In v V -> ~ In (g_nm v) V.
Hypothesis Hinj : forall u v, In u V -> In v V -> g_nm u = g_nm v -> u = v.

Theorem gen_cmi_fanin_once v : In v V -> isc v = false -> 1 < indeg E v ->
  In (g_nm v) (fst (g_cmi V E)) /\ parents (snd (g_cmi V E)) v = [g_nm v] /\ children (snd (g_cmi V E)) (g_nm v) = [v] /\
  NoDup (parents (snd (g_cmi V E)) (g_nm v)) /\ (forall p, In p (parents (snd (g_cmi V E)) (g_nm v)) <-> In (p, v) E).
Proof. intros Hv Hc Hd.
  destruct (gen_cmi_is_model V E) as [HsN HsE].
  destruct (cmi_fanin_once isc g_nm V E Hwf Hfresh Hinj v Hv Hc Hd) as [H1 [H2 [H3 [H4 H5]]]].
  pose proof (same_set_perm _ _ HsE) as Hp.
  split; [apply (proj2 (proj2 HsN)); exact H1|]. split; [|split; [|split]].
  - pose proof (parents_perm _ _ v Hp) as Hq. rewrite H2 in Hq. apply Permutation_sym in Hq.
    now apply Permutation_length_1_inv in Hq.
  - pose proof (children_perm _ _ (g_nm v) Hp) as Hq. rewrite H3 in Hq. apply Permutation_sym in Hq.
    now apply Permutation_length_1_inv in Hq.
  - exact (Permutation_NoDup (Permutation_sym (parents_perm _ _ (g_nm v) Hp)) H4).
  - intros p. rewrite <- H5. split; apply Permutation_in; [|apply Permutation_sym]; exact (parents_perm _ _ (g_nm v) Hp).
Qed.

Theorem gen_cmi_others_unchanged v p : In v V -> (isc v = true \/ indeg E v <= 1) ->
  (In (p, v) (snd (g_cmi V E)) <-> In (p, v) E).
Proof. intros Hv Hc. rewrite <- (cmi_other_edges_unchanged isc g_nm V E Hfresh Hinj v p Hv Hc).
  exact (proj2 (proj2 (proj2 (gen_cmi_is_model V E))) (p, v)). Qed.
End Transfer.
End GenOpsEq.

(* ------------------------------------------------------------------ generated _link_1to1 = Graph.link_1to1
   An operand (Node or Model) is a [node]: the identity of the Python object.  [repr n a]: the object n is what the hand
   model calls the [value] a -- a bare node (not a Model, not a FrozenModel: FrozenModel is a subclass of Model) or a
   non-frozen Model whose four properties read the four fields.  Under [repr] the generated function returns EXACTLY the
   lists of [Graph.link_1to1] (same order, same duplicates: only list operations are involved), unless some new edge
   joins two initialised nodes of different dimensions, in which case it raises ValueError.
   NB the source tests `isinstance(node, FrozenModel)` on the LEAKED loop variable `node` (= node2) where node1 / node2 is
   meant; the translation keeps that ([let node_ := node2]); under [repr] neither operand is frozen, so it is harmless. *)
Section GenLinkEq.
Variables is_model is_frozen_model is_initialized : node -> bool.
Variables attr_nodes attr_input_nodes attr_output_nodes : node -> list node.
Variable attr_edges : node -> list edge.
Variable dim : Type.
Variables output_dim input_dim : node -> dim.
Variable dim_eqb : dim -> dim -> bool.

Definition g_link := GenOps._link_1to1 is_model is_frozen_model is_initialized attr_nodes attr_input_nodes attr_output_nodes
  attr_edges dim output_dim input_dim dim_eqb.

Definition repr (n : node) (a : value) : Prop :=
  match a with
  | VNode k => n = k /\ is_model n = false /\ is_frozen_model n = false
  | VModel m => is_model n = true /\ is_frozen_model n = false /\ attr_nodes n = mNodes m /\ attr_edges n = mEdges m /\
                attr_input_nodes n = mIn m /\ attr_output_nodes n = mOut m
  end.

(* the test made on every new edge: both ends initialised and sender.output_dim != receiver.input_dim *)
Definition dim_clash (e : edge) : bool :=
  is_initialized (fst e) && (is_initialized (snd e) && negb (dim_eqb (output_dim (fst e)) (input_dim (snd e)))).

Lemma check_loop (l : list edge) :
  py_for l (fun (_ : unit) '(sender, receiver) =>
     if (andb (is_initialized sender) (andb (is_initialized receiver) (negb (dim_eqb (output_dim sender) (input_dim receiver)))))
     then Exc ValueError else Val tt) tt
  = if existsb dim_clash l then Exc ValueError else Val tt.
Proof. induction l as [|[s r] l IH]; simpl; auto. unfold dim_clash at 1. simpl.
  destruct (is_initialized s && (is_initialized r && negb (dim_eqb (output_dim s) (input_dim r)))); simpl; auto. Qed.

Theorem gen_link_1to1_is_model (n1 n2 : node) (a b : value) : repr n1 a -> repr n2 b ->
  g_link n1 n2 = if existsb dim_clash (list_prod (v_outs a) (v_ins b)) then Exc ValueError else Val (link_1to1 a b).
Proof. intros Ha Hb. unfold g_link, GenOps._link_1to1. cbv zeta. unfold pure_for. cbn [fold_left]. rewrite check_loop.
  unfold link_1to1.
  destruct a as [ka|ma], b as [kb|mb]; cbn [repr] in Ha, Hb; cbn [v_nodes v_edges v_outs v_ins].
  - destruct Ha as [-> [Ha1 Ha2]], Hb as [-> [Hb1 Hb2]]. rewrite Ha1, Hb1. cbn [andb app].
    destruct (existsb dim_clash _); reflexivity.
  - destruct Ha as [-> [Ha1 Ha2]], Hb as [Hb1 [Hb2 [Hb3 [Hb4 [Hb5 Hb6]]]]]. rewrite Ha1, Hb1, Hb2, Hb3, Hb4, Hb5. cbn [andb negb app].
    destruct (existsb dim_clash _); reflexivity.
  - destruct Ha as [Ha1 [Ha2 [Ha3 [Ha4 [Ha5 Ha6]]]]], Hb as [-> [Hb1 Hb2]]. rewrite Ha1, Ha2, Ha3, Ha4, Ha6, Hb1, Hb2. cbn [andb negb app].
    rewrite ?app_nil_r. destruct (existsb dim_clash _); reflexivity.
  - destruct Ha as [Ha1 [Ha2 [Ha3 [Ha4 [Ha5 Ha6]]]]], Hb as [Hb1 [Hb2 [Hb3 [Hb4 [Hb5 Hb6]]]]].
    rewrite Ha1, Ha2, Ha3, Ha4, Ha6, Hb1, Hb2, Hb3, Hb4, Hb5. cbn [andb negb app].
    rewrite <- ?app_assoc. destruct (existsb dim_clash _); reflexivity.
Qed.

(* no dimension clash (in particular: some end of every new edge is not initialised yet): the model's lists, exactly *)
Corollary gen_link_1to1_ok (n1 n2 : node) (a b : value) : repr n1 a -> repr n2 b ->
  (forall s r, In s (v_outs a) -> In r (v_ins b) -> dim_clash (s, r) = false) ->
  g_link n1 n2 = Val (link_1to1 a b).
Proof. intros Ha Hb Hd. rewrite (gen_link_1to1_is_model n1 n2 a b Ha Hb).
  destruct (existsb dim_clash _) eqn:Hx; auto. apply existsb_exists in Hx as [[s r] [Hi Hc]].
  apply in_prod_iff in Hi as [Hs Hr]. rewrite (Hd s r Hs Hr) in Hc. discriminate. Qed.
End GenLinkEq.

(* ------------------------------------------------------------------ generated merge = Graph.merge_graph_l, as node / edge SETS
   `merge(model, *models, inplace, name)` as translated on this run (vocabulary base/PyColl4.v).  Representation (precisely):
   * an element of `*models` is an [operand]: an object or a list / tuple of objects; [objs := flat_map opnd_flat models] is the
     flattened `operands` list of the source; the hand model takes the flattened list of [value]s [bs] directly
     ([Graph.merge_graph_l a bs]); [Forall2 mrepr objs bs] relates the two ([mrepr] = [repr] of the link section and
     `isinstance(x, _Node)`; a nested list is an object that is not a _Node: TypeError, outside [mrepr]).
   * not in place: the generated function returns [MNew V E] = `Model(nodes=list(all_nodes), edges=list(all_edges), name=name)`
     where V / E are lists made from Python SETS ([ord_n 1] / [ord_e 1] of duplicate-free lists): compared with the [nodup]
     lists of [merge_graph_l] as duplicate-free enumerations of the same set ([same_set]); no claim about order.
     The constructor call itself (Concat insertion, entries / exits, sort) is NOT translated: [Graph.mk_model], tie H.
   * in place: [MUpdate model V E] = `model.update_graph(all_nodes, all_edges)`; V / E enumerate the union over the operands
     ONLY ([merge_graph_l] of the operands around an empty left side); the union with the nodes of `model` itself is made
     inside Model.update_graph (not translated: [Graph.update_graph], tie H).  A left operand that is not a non-frozen
     Model: ValueError, AFTER the operands have been checked (TypeError wins).
   The junction with the generated text is [gen_merge_unfold] (by reflexivity, [mbody] / [mleft] copied from the generated text). *)
From RV Require Import base.PyColl4.

Section GenMergeEq.
Variable ord_n : nat -> list node -> list node.
Variable ord_e : nat -> list edge -> list edge.
Hypothesis Hord_n : forall k s, Permutation (ord_n k s) s.
Hypothesis Hord_e : forall k s, Permutation (ord_e k s) s.
Variables is_model is_frozen_model is_node : node -> bool.
Variables attr_nodes attr_input_nodes attr_output_nodes : node -> list node.
Variable attr_edges : node -> list edge.

Definition g_merge := GenOps.merge ord_n ord_e is_model is_frozen_model is_node attr_nodes attr_edges.

Definition mrepr (n : node) (a : value) : Prop :=
  repr is_model is_frozen_model attr_nodes attr_input_nodes attr_output_nodes attr_edges n a /\ is_node n = true.

Definition mstate := (list node * list edge)%type.

(* the body of the main loop and the "add left side model nodes" step of the generated definition, copied *)
Definition mbody : mstate -> node -> py4 mstate := fun '(all_nodes, all_edges) m =>
py4_bind (if (andb (is_model m) (negb (is_frozen_model m))) then
let all_nodes := set_union all_nodes (py_set (attr_nodes m)) in
let all_edges := set_union all_edges (py_set (attr_edges m)) in
Val4 (all_nodes, all_edges)
else
py4_bind (if (is_node m) then
let all_nodes := set_union all_nodes (py_set [m]) in
Val4 all_nodes
else
Exc4 TypeError) (fun all_nodes =>
Val4 (all_nodes, all_edges))) (fun '(all_nodes, all_edges) =>
Val4 (all_nodes, all_edges)).

Definition mleft (model : node) : mstate -> mstate := fun '(all_nodes, all_edges) =>
(if (andb (is_model model) (negb (is_frozen_model model))) then
let all_nodes := set_union all_nodes (py_set (attr_nodes model)) in
let all_edges := set_union all_edges (py_set (attr_edges model)) in
(all_nodes, all_edges)
else
let all_nodes := set_union all_nodes (py_set [model]) in
(all_nodes, all_edges)).

Lemma gen_merge_unfold model models inplace name : g_merge model models inplace name =
  if is_node model then
    py4_bind (py4_for (pure_for models (fun operands m => operands ++ opnd_flat m) []) mbody ([], []))
      (fun '(all_nodes, all_edges) =>
         if inplace then
           if orb (negb (is_model model)) (is_frozen_model model) then Exc4 (Py ValueError)
           else Val4 (MUpdate model all_nodes all_edges)
         else let '(all_nodes, all_edges) := mleft model (all_nodes, all_edges) in
              Val4 (MNew (ord_n 1 all_nodes) (ord_e 1 all_edges)))
  else Exc4 TypeError.
Proof. reflexivity. Qed.

Lemma flatten_loop (models : list operand) : forall acc,
  pure_for models (fun operands m => operands ++ opnd_flat m) acc = acc ++ flat_map opnd_flat models.
Proof. unfold pure_for. induction models as [|m l IH]; intros acc; cbn [fold_left flat_map].
  - now rewrite app_nil_r.
  - rewrite IH. now rewrite app_assoc. Qed.

Lemma mbody_spec N A n a : mrepr n a ->
  mbody (N, A) n = Val4 (set_union N (py_set (v_nodes a)), match a with VNode _ => A | VModel _ => set_union A (py_set (v_edges a)) end).
Proof. intros [Hr Hn]. unfold mbody. destruct a as [k|m]; cbn [repr] in Hr; cbn [v_nodes v_edges].
  - destruct Hr as [-> [H1 H2]]. rewrite H1, Hn. reflexivity.
  - destruct Hr as [H1 [H2 [H3 [H4 _]]]]. rewrite H1, H2, H3, H4. reflexivity. Qed.

Lemma mloop_spec objs bs : Forall2 mrepr objs bs -> forall N A, NoDup N -> NoDup A ->
  exists N' A', py4_for objs mbody (N, A) = Val4 (N', A') /\ NoDup N' /\ NoDup A' /\
    (forall x, In x N' <-> In x N \/ In x (flat_map v_nodes bs)) /\
    (forall e, In e A' <-> In e A \/ In e (flat_map v_edges bs)).
Proof. induction 1 as [|n a objs bs Hr Hf IH]; intros N A HN HA.
  - exists N, A. cbn. repeat split; auto; tauto.
  - cbn [py4_for]. rewrite (mbody_spec N A n a Hr).
    match goal with |- context [py4_for objs mbody (?N1, ?A1)] =>
      destruct (IH N1 A1) as [N' [A' [Hl [HN' [HA' [HNi HAi]]]]]] end.
    { apply set_union_NoDup; auto. apply py_set_NoDup. }
    { destruct a; auto. apply set_union_NoDup; auto. apply py_set_NoDup. }
    exists N', A'. split; [exact Hl|]. split; [exact HN'|]. split; [exact HA'|]. split.
    + intros x. rewrite HNi, set_union_In, py_set_In. cbn [flat_map]. rewrite in_app_iff. tauto.
    + intros e. rewrite HAi. cbn [flat_map]. rewrite in_app_iff. destruct a as [k|m]; cbn [v_edges].
      * cbn [In]. tauto.
      * rewrite set_union_In, py_set_In. tauto.
Qed.

Lemma mleft_spec N A n a : mrepr n a -> NoDup N -> NoDup A ->
  exists N' A', mleft n (N, A) = (N', A') /\ NoDup N' /\ NoDup A' /\
    (forall x, In x N' <-> In x N \/ In x (v_nodes a)) /\ (forall e, In e A' <-> In e A \/ In e (v_edges a)).
Proof. intros [Hr Hn] HN HA. unfold mleft. destruct a as [k|m]; cbn [repr] in Hr; cbn [v_nodes v_edges].
  - destruct Hr as [-> [H1 H2]]. rewrite H1. cbn [andb]. eexists; eexists. split; [reflexivity|].
    split; [apply set_union_NoDup; auto; apply py_set_NoDup|]. split; [exact HA|]. split.
    + intros x. now rewrite set_union_In, py_set_In.
    + intros e. cbn [In]. tauto.
  - destruct Hr as [H1 [H2 [H3 [H4 _]]]]. rewrite H1, H2, H3, H4. cbn [andb negb]. eexists; eexists. split; [reflexivity|].
    split; [apply set_union_NoDup; auto; apply py_set_NoDup|]. split; [apply set_union_NoDup; auto; apply py_set_NoDup|]. split.
    + intros x. now rewrite set_union_In, py_set_In.
    + intros e. now rewrite set_union_In, py_set_In.
Qed.

(* merge(model, *models) / `model & other`: a NEW Model built from the node set / edge set of [Graph.merge_graph_l] *)
Theorem gen_merge_is_model (model : node) (models : list operand) (name : unit) (a : value) (bs : list value) :
  mrepr model a -> Forall2 mrepr (flat_map opnd_flat models) bs ->
  exists V E, g_merge model models false name = Val4 (MNew V E) /\
    same_set V (fst (merge_graph_l a bs)) /\ same_set E (snd (merge_graph_l a bs)).
Proof. intros Ha Hbs. rewrite gen_merge_unfold. rewrite (proj2 Ha). rewrite flatten_loop. cbn [app].
  destruct (mloop_spec _ _ Hbs [] [] (NoDup_nil _) (NoDup_nil _)) as [N1 [A1 [Hl [HN1 [HA1 [HN1i HA1i]]]]]].
  cbv delta [Graph.node PyColl.node Graph.edge PyColl.edge] in *. rewrite Hl. cbn [py4_bind].
  destruct (mleft_spec N1 A1 model a Ha HN1 HA1) as [N2 [A2 [Hm [HN2 [HA2 [HN2i HA2i]]]]]].
  cbv delta [Graph.node PyColl.node Graph.edge PyColl.edge] in *. rewrite Hm. eexists; eexists. split; [reflexivity|]. cbn [merge_graph_l fst snd]. split; (split; [|split]).
  - exact (Permutation_NoDup (Permutation_sym (Hord_n 1 N2)) HN2).
  - apply NoDup_nodup.
  - intros x. rewrite nodup_In, in_app_iff. split.
    + intros Hi. apply (Permutation_in _ (Hord_n 1 N2)) in Hi. apply HN2i in Hi as [Hi|Hi]; [|now right].
      apply HN1i in Hi as [[]|Hi]. now left.
    + intros Hi. apply (Permutation_in _ (Permutation_sym (Hord_n 1 N2))). apply HN2i. destruct Hi as [Hi|Hi]; [|now right].
      left. apply HN1i. now right.
  - exact (Permutation_NoDup (Permutation_sym (Hord_e 1 A2)) HA2).
  - apply NoDup_nodup.
  - intros e. rewrite nodup_In, in_app_iff. split.
    + intros Hi. apply (Permutation_in _ (Hord_e 1 A2)) in Hi. apply HA2i in Hi as [Hi|Hi]; [|now right].
      apply HA1i in Hi as [[]|Hi]. now left.
    + intros Hi. apply (Permutation_in _ (Permutation_sym (Hord_e 1 A2))). apply HA2i. destruct Hi as [Hi|Hi]; [|now right].
      left. apply HA1i. now right.
Qed.

(* merge(model, *models, inplace=True) / `model &= other`: hands the union over the OPERANDS to model.update_graph *)
Theorem gen_merge_inplace (model : node) (models : list operand) (name : unit) (m : Graph.model) (bs : list value) :
  mrepr model (VModel m) -> Forall2 mrepr (flat_map opnd_flat models) bs ->
  exists V E, g_merge model models true name = Val4 (MUpdate model V E) /\
    same_set V (nodup Nat.eq_dec (flat_map v_nodes bs)) /\ same_set E (nodup edge_eq_dec (flat_map v_edges bs)).
Proof. intros Ha Hbs. rewrite gen_merge_unfold. rewrite (proj2 Ha). rewrite flatten_loop. cbn [app].
  destruct (mloop_spec _ _ Hbs [] [] (NoDup_nil _) (NoDup_nil _)) as [N1 [A1 [Hl [HN1 [HA1 [HN1i HA1i]]]]]].
  cbv delta [Graph.node PyColl.node Graph.edge PyColl.edge] in *. rewrite Hl. cbn [py4_bind]. destruct Ha as [[H1 [H2 _]] _]. rewrite H1, H2. cbn [negb orb].
  exists N1, A1. split; [reflexivity|]. split; (split; [assumption|split; [apply NoDup_nodup|]]).
  - intros x. rewrite nodup_In, HN1i. cbn [In]. tauto.
  - intros e. rewrite nodup_In, HA1i. cbn [In]. tauto.
Qed.

(* in place on a bare node: ValueError (the operands being acceptable) *)
Theorem gen_merge_inplace_node (model : node) (models : list operand) (name : unit) (k : node) (bs : list value) :
  mrepr model (VNode k) -> Forall2 mrepr (flat_map opnd_flat models) bs ->
  g_merge model models true name = Exc4 (Py ValueError).
Proof. intros Ha Hbs. rewrite gen_merge_unfold. rewrite (proj2 Ha). rewrite flatten_loop. cbn [app].
  destruct (mloop_spec _ _ Hbs [] [] (NoDup_nil _) (NoDup_nil _)) as [N1 [A1 [Hl _]]].
  cbv delta [Graph.node PyColl.node Graph.edge PyColl.edge] in *. rewrite Hl. cbn [py4_bind]. destruct Ha as [[_ [H1 _]] _]. rewrite H1. reflexivity. Qed.

(* a left operand that is not a _Node: TypeError, whatever the rest *)
Theorem gen_merge_not_node (model : node) (models : list operand) (inplace : bool) (name : unit) :
  is_node model = false -> g_merge model models inplace name = Exc4 TypeError.
Proof. intros H. rewrite gen_merge_unfold. now rewrite H. Qed.
End GenMergeEq.

(* ------------------------------------------------------------------ generated link = Graph.link_graph, as node / edge SETS
   `link(node1, node2, name)` as translated on this run (py2coq_ops v3; `_check_all_nodes` pinned by its exact text).
   Representation (precisely):
   * node1 / node2 are [operand]s: an object ([ONode]) or a Sequence of objects ([OSeq]: `isinstance(x, Sequence)` and
     `isinstance(x, Iterable)` hold exactly for [OSeq]; a str or another Iterable is outside the representation).  The hand model
     takes the two lists of [value]s directly ([Graph.link_graph ls rs]); [Forall2 lrepr (opnd_flat o) ls] relates them
     ([lrepr] = [repr] of the _link_1to1 section -- in particular not a FrozenModel -- and `isinstance(x, _Node)`).
   * the generated function returns [MNew V E] = `Model(nodes=list(nodes), edges=list(edges), name=name)`, V / E lists made from
     Python SETS ([ord_n 2] / [ord_e 2] of duplicate-free lists): compared with the [nodup] lists of [link_graph] as duplicate-free
     enumerations of the same set ([same_set]); no claim about order.  The constructor call (Concat insertion, entries / exits,
     sort) is NOT translated: [Graph.mk_model], tie H.  The `frozens` list is erased to a [list unit] (only its length is used).
   * errors: an element that is not a _Node -> TypeError (first); else a FrozenModel operand / element -> TypeError; else a
     dimension clash on some new edge -> ValueError (raised by the lifted _link_1to1: [Exc4 (Py ValueError)]).
   The junction with the generated text is by unfolding [GenOps.link] (cbv): when ops.py changes the proofs stop compiling. *)
Section GenLinkNEq.
Variable ord_n : nat -> list node -> list node.
Variable ord_e : nat -> list edge -> list edge.
Hypothesis Hord_n : forall k s, Permutation (ord_n k s) s.
Hypothesis Hord_e : forall k s, Permutation (ord_e k s) s.
Variables is_model is_frozen_model is_initialized is_node : node -> bool.
Variables attr_nodes attr_input_nodes attr_output_nodes : node -> list node.
Variable attr_edges : node -> list edge.
Variable dim : Type.
Variables output_dim input_dim : node -> dim.
Variable dim_eqb : dim -> dim -> bool.

Definition g_linkN := GenOps.link ord_n ord_e is_model is_frozen_model is_initialized is_node attr_nodes attr_input_nodes
  attr_output_nodes attr_edges dim output_dim input_dim dim_eqb.
Let g1 := g_link is_model is_frozen_model is_initialized attr_nodes attr_input_nodes attr_output_nodes attr_edges dim
  output_dim input_dim dim_eqb.
Let rp := repr is_model is_frozen_model attr_nodes attr_input_nodes attr_output_nodes attr_edges.
Let clash := dim_clash is_initialized dim output_dim input_dim dim_eqb.

Definition lrepr (n : node) (a : value) : Prop := rp n a /\ is_node n = true.
Definition no_clash (a b : value) : Prop := forall s r, In s (v_outs a) -> In r (v_ins b) -> clash (s, r) = false.

Definition lstate := (list node * list edge)%type.
(* the body of the inner loop, copied from the generated text *)
Definition lbody (left_ : node) : lstate -> node -> py4 lstate := fun '(nodes, edges) right_ =>
  py4_bind (py4_lift (g1 left_ right_)) (fun '(new_nodes, new_edges) =>
  let nodes := set_union nodes (py_set new_nodes) in
  let edges := set_union edges (py_set new_edges) in
  Val4 (nodes, edges)).
Definition lloops (l1 l2 : list node) : py4 lstate :=
  py4_for l1 (fun '(nodes, edges) left_ =>
    py4_bind (py4_for l2 (lbody left_) (nodes, edges)) (fun '(nodes, edges) => Val4 (nodes, edges))) ([], []).

Lemma check_elems (l : list node) :
  py4_for l (fun (_ : unit) n => if negb (is_node n) then Exc4 TypeError else Val4 tt) tt
  = if forallb is_node l then Val4 tt else Exc4 TypeError.
Proof. induction l as [|x l IH]; cbn; auto. destruct (is_node x); cbn; auto. Qed.

Lemma check_all_spec o1 o2 :
  GenOps.check_all_nodes is_node [o1; o2]
  = if forallb is_node (opnd_flat o1 ++ opnd_flat o2) then Val4 tt else Exc4 TypeError.
Proof. unfold GenOps.check_all_nodes. rewrite forallb_app.
  destruct o1 as [n1|l1], o2 as [n2|l2]; cbn [py4_for opnd_flat forallb]; rewrite ?check_elems, ?andb_true_r;
    cbv delta [Graph.node PyColl.node Graph.edge PyColl.edge] in *.
  - destruct (is_node n1), (is_node n2); reflexivity.
  - destruct (is_node n1); cbn; [|reflexivity]. destruct (forallb is_node l2); reflexivity.
  - destruct (forallb is_node l1); cbn; [|reflexivity]. destruct (is_node n2); reflexivity.
  - destruct (forallb is_node l1); cbn; [|reflexivity]. destruct (forallb is_node l2); reflexivity.
Qed.

Definition frozen_count (o : operand) : list unit := map (fun _ => tt) (filter is_frozen_model (opnd_flat o)).

(* the generated link, in closed form: the two checks, then the double loop *)
Lemma gen_linkN_unfold o1 o2 name : g_linkN o1 o2 name =
  if forallb is_node (opnd_flat o1 ++ opnd_flat o2) then
    if 0 <? length (frozen_count o1 ++ frozen_count o2) then Exc4 TypeError
    else py4_bind (lloops (opnd_flat o1) (opnd_flat o2)) (fun '(nodes, edges) => Val4 (MNew (ord_n 2 nodes) (ord_e 2 edges)))
  else Exc4 TypeError.
Proof. unfold g_linkN, GenOps.link. rewrite check_all_spec.
  destruct (forallb is_node _); [|reflexivity]. cbn [py4_bind]. unfold frozen_count.
  destruct o1 as [n1|l1], o2 as [n2|l2]; cbn [opnd_flat filter map app]; cbv zeta.
  - destruct (is_frozen_model n1), (is_frozen_model n2); reflexivity.
  - destruct (is_frozen_model n1); reflexivity.
  - destruct (is_frozen_model n2); cbn [map app]; rewrite ?app_nil_r; reflexivity.
  - reflexivity.
Qed.

Lemma frozen_none o : Forall (fun n => is_frozen_model n = false) (opnd_flat o) -> frozen_count o = [].
Proof. unfold frozen_count. induction 1 as [|x l Hx _ IH]; cbn; auto. rewrite Hx. exact IH. Qed.

Lemma lbody_spec N A l r a b : rp l a -> rp r b -> no_clash a b ->
  lbody l (N, A) r = Val4 (set_union N (py_set (fst (link_1to1 a b))), set_union A (py_set (snd (link_1to1 a b)))).
Proof. intros Ha Hb Hc. unfold lbody, g1. rewrite (gen_link_1to1_ok _ _ _ _ _ _ _ _ _ _ _ l r a b Ha Hb Hc).
  cbn [py4_lift py4_bind]. destruct (link_1to1 a b); reflexivity. Qed.

Lemma linner_spec l a : rp l a -> forall rs bs, Forall2 lrepr rs bs -> (forall b, In b bs -> no_clash a b) ->
  forall N A, NoDup N -> NoDup A ->
  exists N' A', py4_for rs (lbody l) (N, A) = Val4 (N', A') /\ NoDup N' /\ NoDup A' /\
    (forall x, In x N' <-> In x N \/ In x (flat_map (fun r => fst (link_1to1 a r)) bs)) /\
    (forall e, In e A' <-> In e A \/ In e (flat_map (fun r => snd (link_1to1 a r)) bs)).
Proof. intros Ha. induction 1 as [|r b rs bs Hr Hf IH]; intros Hc N A HN HA.
  - exists N, A. cbn. repeat split; auto; tauto.
  - cbn [py4_for]. rewrite (lbody_spec N A l r a b Ha (proj1 Hr) (Hc b (or_introl eq_refl))).
    match goal with |- context [py4_for rs (lbody l) (?N1, ?A1)] =>
      destruct (IH (fun b' Hb' => Hc b' (or_intror Hb')) N1 A1) as [N' [A' [Hl [HN' [HA' [HNi HAi]]]]]] end.
    { apply set_union_NoDup; auto. apply py_set_NoDup. }
    { apply set_union_NoDup; auto. apply py_set_NoDup. }
    exists N', A'. split; [exact Hl|]. split; [exact HN'|]. split; [exact HA'|]. split.
    + intros x. rewrite HNi, set_union_In, py_set_In. cbn [flat_map]. rewrite in_app_iff. tauto.
    + intros e. rewrite HAi, set_union_In, py_set_In. cbn [flat_map]. rewrite in_app_iff. tauto.
Qed.

Lemma louter_spec rs bs : Forall2 lrepr rs bs -> forall ls as_, Forall2 lrepr ls as_ ->
  (forall a b, In a as_ -> In b bs -> no_clash a b) ->
  forall N A, NoDup N -> NoDup A ->
  exists N' A', py4_for ls (fun '(nodes, edges) left_ =>
      py4_bind (py4_for rs (lbody left_) (nodes, edges)) (fun '(nodes, edges) => Val4 (nodes, edges))) (N, A) = Val4 (N', A') /\
    NoDup N' /\ NoDup A' /\
    (forall x, In x N' <-> In x N \/ In x (flat_map (fun l => flat_map (fun r => fst (link_1to1 l r)) bs) as_)) /\
    (forall e, In e A' <-> In e A \/ In e (flat_map (fun l => flat_map (fun r => snd (link_1to1 l r)) bs) as_)).
Proof. intros Hrs. induction 1 as [|l a ls as_ Hl Hf IH]; intros Hc N A HN HA.
  - exists N, A. cbn. repeat split; auto; tauto.
  - cbn [py4_for].
    destruct (linner_spec l a (proj1 Hl) rs bs Hrs (fun b Hb => Hc a b (or_introl eq_refl) Hb) N A HN HA)
      as [N1 [A1 [H1 [HN1 [HA1 [HN1i HA1i]]]]]].
    cbv delta [Graph.node PyColl.node Graph.edge PyColl.edge] in *. rewrite H1. cbn [py4_bind].
    destruct (IH (fun a' b' Ha' Hb' => Hc a' b' (or_intror Ha') Hb') N1 A1 HN1 HA1) as [N' [A' [H2 [HN' [HA' [HNi HAi]]]]]].
    exists N', A'. split; [exact H2|]. split; [exact HN'|]. split; [exact HA'|]. split.
    + intros x. rewrite HNi, HN1i. cbn [flat_map]. rewrite in_app_iff. tauto.
    + intros e. rewrite HAi, HA1i. cbn [flat_map]. rewrite in_app_iff. tauto.
Qed.

Lemma lrepr_checks l vs : Forall2 lrepr l vs -> forallb is_node l = true /\ Forall (fun n => is_frozen_model n = false) l.
Proof. induction 1 as [|n a l vs [Hr Hn] _ [IH1 IH2]]; cbn; [split; auto|]. rewrite Hn, IH1. split; auto. constructor; auto.
  destruct a; cbn in Hr; tauto. Qed.

Theorem gen_link_is_model (o1 o2 : operand) (name : unit) (ls rs : list value) :
  Forall2 lrepr (opnd_flat o1) ls -> Forall2 lrepr (opnd_flat o2) rs ->
  (forall a b, In a ls -> In b rs -> no_clash a b) ->
  exists V E, g_linkN o1 o2 name = Val4 (MNew V E) /\
    same_set V (fst (link_graph ls rs)) /\ same_set E (snd (link_graph ls rs)).
Proof. intros H1 H2 Hc. rewrite gen_linkN_unfold.
  destruct (lrepr_checks _ _ H1) as [Hn1 Hf1], (lrepr_checks _ _ H2) as [Hn2 Hf2].
  cbv delta [Graph.node PyColl.node Graph.edge PyColl.edge] in *.
  rewrite forallb_app, Hn1, Hn2, (frozen_none o1 Hf1), (frozen_none o2 Hf2). cbn [andb app length Nat.ltb Nat.leb].
  unfold lloops.
  destruct (louter_spec _ _ H2 _ _ H1 Hc [] [] (NoDup_nil _) (NoDup_nil _)) as [N [A [Hl [HN [HA [HNi HAi]]]]]].
  cbv delta [Graph.node PyColl.node Graph.edge PyColl.edge] in *. rewrite Hl. cbn [py4_bind].
  eexists; eexists. split; [reflexivity|]. cbn [link_graph fst snd]. split; (split; [|split]).
  - exact (Permutation_NoDup (Permutation_sym (Hord_n 2 N)) HN).
  - apply NoDup_nodup.
  - intros x. rewrite nodup_In. split.
    + intros Hi. apply (Permutation_in _ (Hord_n 2 N)) in Hi. apply HNi in Hi as [[]|Hi]. exact Hi.
    + intros Hi. apply (Permutation_in _ (Permutation_sym (Hord_n 2 N))). apply HNi. now right.
  - exact (Permutation_NoDup (Permutation_sym (Hord_e 2 A)) HA).
  - apply NoDup_nodup.
  - intros e. rewrite nodup_In. split.
    + intros Hi. apply (Permutation_in _ (Hord_e 2 A)) in Hi. apply HAi in Hi as [[]|Hi]. exact Hi.
    + intros Hi. apply (Permutation_in _ (Permutation_sym (Hord_e 2 A))). apply HAi. now right.
Qed.

(* error cases: an element that is not a _Node; a FrozenModel among _Nodes *)
Theorem gen_link_not_node (o1 o2 : operand) (name : unit) :
  forallb is_node (opnd_flat o1 ++ opnd_flat o2) = false -> g_linkN o1 o2 name = Exc4 TypeError.
Proof. intros H. rewrite gen_linkN_unfold, H. reflexivity. Qed.

Theorem gen_link_frozen (o1 o2 : operand) (name : unit) :
  existsb is_frozen_model (opnd_flat o1 ++ opnd_flat o2) = true -> g_linkN o1 o2 name = Exc4 TypeError.
Proof. intros H. rewrite gen_linkN_unfold. destruct (forallb is_node _); [|reflexivity].
  replace (0 <? length (frozen_count o1 ++ frozen_count o2)) with true; [reflexivity|].
  unfold frozen_count. rewrite <- map_app, <- filter_app, map_length. symmetry. apply Nat.ltb_lt.
  apply existsb_exists in H as [x [Hi Hx]].
  assert (Hin : In x (filter is_frozen_model (opnd_flat o1 ++ opnd_flat o2))) by (apply filter_In; auto).
  destruct (filter _ _); [destruct Hin|cbn; lia]. Qed.
End GenLinkNEq.

(* ------------------------------------------------------------------ generated link: the ValueError case, in general
   Under the same [Forall2 lrepr] correspondence (hence: every element a _Node, none frozen), the generated `link` raises
   ValueError (lifted: [Exc4 (Py ValueError)]) IF AND ONLY IF some pair (left element, right element) visited by the nested loops
   has a new edge (sender in the outputs of the left, receiver in the inputs of the right) joining two initialised nodes of
   different dimensions; otherwise it returns [Val4 (MNew ..)] ([gen_link_is_model]). *)
Section GenLinkClash.
Variable ord_n : nat -> list node -> list node.
Variable ord_e : nat -> list edge -> list edge.
Variables is_model is_frozen_model is_initialized is_node : node -> bool.
Variables attr_nodes attr_input_nodes attr_output_nodes : node -> list node.
Variable attr_edges : node -> list edge.
Variable dim : Type.
Variables output_dim input_dim : node -> dim.
Variable dim_eqb : dim -> dim -> bool.

Let gN := g_linkN ord_n ord_e is_model is_frozen_model is_initialized is_node attr_nodes attr_input_nodes
  attr_output_nodes attr_edges dim output_dim input_dim dim_eqb.
Let g1 := g_link is_model is_frozen_model is_initialized attr_nodes attr_input_nodes attr_output_nodes attr_edges dim
  output_dim input_dim dim_eqb.
Let rp := repr is_model is_frozen_model attr_nodes attr_input_nodes attr_output_nodes attr_edges.
Let lrp := lrepr is_model is_frozen_model is_node attr_nodes attr_input_nodes attr_output_nodes attr_edges.
Let clash := dim_clash is_initialized dim output_dim input_dim dim_eqb.
Let lb := lbody is_model is_frozen_model is_initialized attr_nodes attr_input_nodes attr_output_nodes attr_edges dim
  output_dim input_dim dim_eqb.

(* some new edge of the pair (a, b) joins two initialised nodes of different dimensions *)
Definition has_clash (a b : value) : bool := existsb clash (list_prod (v_outs a) (v_ins b)).
(* some pair produced by the nested loops clashes *)
Definition any_clash (ls rs : list value) : bool := existsb (fun a => existsb (has_clash a) rs) ls.

Lemma lbody_dich N A l r a b : rp l a -> rp r b ->
  if has_clash a b then lb l (N, A) r = Exc4 (Py ValueError) else exists N' A', lb l (N, A) r = Val4 (N', A').
Proof. intros Ha Hb. unfold lb, lbody, has_clash, clash.
  rewrite (gen_link_1to1_is_model _ _ _ _ _ _ _ _ _ _ _ l r a b Ha Hb).
  destruct (existsb _ _); cbn [py4_lift py4_bind]; [reflexivity|]. destruct (link_1to1 a b). eexists; eexists; reflexivity. Qed.

Lemma linner_dich l a : rp l a -> forall rs bs, Forall2 lrp rs bs -> forall N A,
  if existsb (has_clash a) bs then py4_for rs (lb l) (N, A) = Exc4 (Py ValueError)
  else exists N' A', py4_for rs (lb l) (N, A) = Val4 (N', A').
Proof. intros Ha. induction 1 as [|r b rs bs Hr Hf IH]; intros N A.
  - cbn. eexists; eexists; reflexivity.
  - cbn [py4_for existsb]. pose proof (lbody_dich N A l r a b Ha (proj1 Hr)) as Hd.
    destruct (has_clash a b); cbn [orb].
    + rewrite Hd. reflexivity.
    + destruct Hd as [N1 [A1 Hd]]. rewrite Hd. apply IH.
Qed.

Lemma louter_dich rs bs : Forall2 lrp rs bs -> forall ls as_, Forall2 lrp ls as_ -> forall N A,
  let loop := py4_for ls (fun '(nodes, edges) left_ =>
      py4_bind (py4_for rs (lb left_) (nodes, edges)) (fun '(nodes, edges) => Val4 (nodes, edges))) (N, A) in
  if any_clash as_ bs then loop = Exc4 (Py ValueError) else exists N' A', loop = Val4 (N', A').
Proof. intros Hrs. induction 1 as [|l a ls as_ Hl Hf IH]; intros N A; cbv zeta.
  - cbn. eexists; eexists; reflexivity.
  - cbn [py4_for any_clash existsb]. pose proof (linner_dich l a (proj1 Hl) rs bs Hrs N A) as Hd.
    cbv delta [Graph.node PyColl.node Graph.edge PyColl.edge] in *.
    destruct (existsb (has_clash a) bs); cbn [orb].
    + rewrite Hd. reflexivity.
    + destruct Hd as [N1 [A1 Hd]]. rewrite Hd. cbn [py4_bind]. apply IH.
Qed.

(* the generated link under the correspondence: ValueError exactly when some visited pair clashes, a new Model otherwise *)
Theorem gen_link_clash_dich (o1 o2 : operand) (name : unit) (ls rs : list value) :
  Forall2 lrp (opnd_flat o1) ls -> Forall2 lrp (opnd_flat o2) rs ->
  if any_clash ls rs then gN o1 o2 name = Exc4 (Py ValueError) else exists V E, gN o1 o2 name = Val4 (MNew V E).
Proof. intros H1 H2. unfold gN. rewrite gen_linkN_unfold.
  destruct (lrepr_checks is_model is_frozen_model is_initialized is_node attr_nodes attr_input_nodes attr_output_nodes attr_edges
              dim output_dim input_dim dim_eqb _ _ H1) as [Hn1 Hf1],
           (lrepr_checks is_model is_frozen_model is_initialized is_node attr_nodes attr_input_nodes attr_output_nodes attr_edges
              dim output_dim input_dim dim_eqb _ _ H2) as [Hn2 Hf2].
  cbv delta [Graph.node PyColl.node Graph.edge PyColl.edge] in *.
  rewrite forallb_app, Hn1, Hn2, (frozen_none _ o1 Hf1), (frozen_none _ o2 Hf2). cbn [andb app length Nat.ltb Nat.leb].
  unfold lloops. pose proof (louter_dich _ _ H2 _ _ H1 [] []) as Hd. cbv zeta in Hd.
  cbv delta [Graph.node PyColl.node Graph.edge PyColl.edge] in *.
  destruct (any_clash ls rs).
  - unfold lb in Hd. rewrite Hd. reflexivity.
  - destruct Hd as [N [A Hd]]. unfold lb in Hd. rewrite Hd. cbn [py4_bind]. eexists; eexists; reflexivity.
Qed.

Lemma any_clash_spec ls rs : any_clash ls rs = true <->
  exists a b s r, In a ls /\ In b rs /\ In s (v_outs a) /\ In r (v_ins b) /\ clash (s, r) = true.
Proof. unfold any_clash, has_clash. split.
  - intros H. apply existsb_exists in H as [a [Ha H]]. apply existsb_exists in H as [b [Hb H]].
    apply existsb_exists in H as [[s r] [Hi Hc]]. apply in_prod_iff in Hi as [Hs Hr]. exists a, b, s, r. auto.
  - intros [a [b [s [r [Ha [Hb [Hs [Hr Hc]]]]]]]]. apply existsb_exists. exists a. split; [exact Ha|].
    apply existsb_exists. exists b. split; [exact Hb|]. apply existsb_exists. exists (s, r). split; [|exact Hc].
    apply in_prod_iff. auto.
Qed.

(* the iff: ValueError <-> some (sender output, receiver input) pair produced by the nested loops joins two initialised nodes
   of different dimensions *)
Theorem gen_link_dim_clash (o1 o2 : operand) (name : unit) (ls rs : list value) :
  Forall2 lrp (opnd_flat o1) ls -> Forall2 lrp (opnd_flat o2) rs ->
  (gN o1 o2 name = Exc4 (Py ValueError) <->
   exists a b s r, In a ls /\ In b rs /\ In s (v_outs a) /\ In r (v_ins b) /\ clash (s, r) = true).
Proof. intros H1 H2. rewrite <- any_clash_spec. pose proof (gen_link_clash_dich o1 o2 name ls rs H1 H2) as Hd.
  destruct (any_clash ls rs).
  - split; auto.
  - destruct Hd as [V [E Hd]]. rewrite Hd. split; discriminate.
Qed.
End GenLinkClash.
