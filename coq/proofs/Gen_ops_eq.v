(* Tie (T) of C03, second unit: `concat_multi_inputs` as translated on this run from the current source text of
   reservoirpy/ops.py (coq/gen/Gen_ops.v, by tools/vlib/py2coq_ops.py on top of py2coq_graph.py; vocabulary base/PyColl.v)
   builds the node set and the edge set of the hand model [Graph.cmi], with the same identity supply:
   [nm v := new_concat 0 v] (the object created by `Concat()` -- allocation site 0 -- in the loop iteration for node v).

   Representation differences (stated precisely):
   * Python returns `list(new_nodes), list(new_edges)`, lists made from SETS: the generated code returns [ord_n 0 s] / [ord_e 0 s]
     (any permutation of the duplicate-free list s); [Graph.cmi] returns [nodup] of a flat_map in the order of V.  The two
     are therefore compared as duplicate-free lists with the same elements ([same_set]); nothing about the order is (or
     could be) claimed.
   * the generated code reads `parents[node]` from the defaultdict built by the generated find_parents_and_children on
     [srt E] (= `sorted(edges, key=names)`); [Graph.cmi] uses [parents E v].  Only the in-degree (a length) and the SET
     of parents matter, both invariant under the permutation [srt] ([cmi_srt_nodes], [cmi_srt_edges]).
   * the defaultdict reads `parents[node]` insert the missing keys ([dd_touch]); this never changes a value read later
     ([dd_getitem_touch]).  The write-only registry `concatenated` is [tt].
   * duplicates in [V] : both sides then name the SAME Concat [nm v] twice, whereas Python would create two objects; the
     statements about the real code are for pairwise distinct nodes (Model passes sets / duplicate-free lists).
   The junction with the generated text is [gen_cmi_unfold] (by reflexivity): when ops.py changes, the regenerated
   definition no longer matches [body] and that lemma -- hence every theorem below -- stops compiling. *)
From Coq Require Import List Arith Lia Bool Permutation.
From RV Require Import base.PyColl gen.Gen_graphflow gen.Gen_ops model.Graph proofs.Graph_proofs proofs.Graph_ops_proofs
  proofs.Gen_graphflow_eq.
Import ListNotations.

Lemma dd_getitem_touch {K V} `{PyEq K} (d : ddict K V) k k' : dd_getitem (dd_touch d k) k' = dd_getitem d k'.
Proof. unfold dd_touch. destruct (dd_lookup d k) eqn:Hl; auto.
  rewrite dd_getitem_set. destruct (py_eqb_spec k' k); auto. subst. unfold dd_getitem, dd_get. now rewrite Hl. Qed.

Lemma perm_filter {A} (f : A -> bool) l l' : Permutation l l' -> Permutation (filter f l) (filter f l').
Proof. induction 1; simpl.
  - constructor.
  - destruct (f x); auto.
  - destruct (f x), (f y); try apply perm_swap; apply Permutation_refl.
  - eapply perm_trans; eauto. Qed.

Lemma parents_perm E1 E2 v : Permutation E1 E2 -> Permutation (parents E1 v) (parents E2 v).
Proof. intros Hp. unfold parents. apply Permutation_map. now apply perm_filter. Qed.
Lemma children_perm E1 E2 v : Permutation E1 E2 -> Permutation (children E1 v) (children E2 v).
Proof. intros Hp. unfold children. apply Permutation_map. now apply perm_filter. Qed.

Lemma wrapped_perm isc E1 E2 v : Permutation E1 E2 -> wrapped isc E1 v = wrapped isc E2 v.
Proof. intros Hp. unfold wrapped, indeg. now rewrite (Permutation_length (parents_perm E1 E2 v Hp)). Qed.

Lemma cmi_srt_nodes isc nm V E1 E2 x : Permutation E1 E2 -> In x (cmi_nodes isc nm V E1) <-> In x (cmi_nodes isc nm V E2).
Proof. intros Hp. rewrite !cmi_nodes_In. split; (intros [Hx|[v [Hv [Hw ->]]]]; [left; auto | right; exists v; repeat split; auto]).
  - now rewrite <- (wrapped_perm isc E1 E2 v Hp).
  - now rewrite (wrapped_perm isc E1 E2 v Hp). Qed.

Lemma cmi_srt_edges isc nm V E1 E2 e : Permutation E1 E2 -> In e (cmi_edges isc nm V E1) <-> In e (cmi_edges isc nm V E2).
Proof. intros Hp. destruct e as [p c]. rewrite !cmi_edges_In.
  assert (Hin : forall a, In a E1 <-> In a E2).
  { intros a. split; [apply (Permutation_in _ Hp) | apply (Permutation_in _ (Permutation_sym Hp))]. }
  split; intros [v [Hv H]]; exists v; (split; [exact Hv|]).
  - rewrite <- (wrapped_perm isc E1 E2 v Hp). destruct (wrapped isc E1 v); rewrite <- Hin; exact H.
  - rewrite (wrapped_perm isc E1 E2 v Hp). destruct (wrapped isc E2 v); rewrite Hin; exact H. Qed.

(* two duplicate-free enumerations of the same finite set *)
Definition same_set {A} (l m : list A) : Prop := NoDup l /\ NoDup m /\ forall x, In x l <-> In x m.

Section GenOpsEq.
Variable ord_n : nat -> list node -> list node.
Variable ord_e : nat -> list edge -> list edge.
Variable srt : list edge -> list edge.
Variable isc : node -> bool.
Variable new_concat : nat -> node -> node.
Hypothesis Hord_n : forall k s, Permutation (ord_n k s) s.
Hypothesis Hord_e : forall k s, Permutation (ord_e k s) s.
Hypothesis Hsrt : forall l, Permutation (srt l) l.

Definition g_cmi := GenOps.concat_multi_inputs ord_n ord_e srt isc new_concat.
Definition g_nm : node -> node := new_concat 0.

Definition cstate := (ddict node node * list node * list edge * unit)%type.

(* the loop body of the generated definition, copied *)
Definition body : cstate -> node -> cstate := fun '(parents, new_nodes, new_edges, concatenated) node_ =>
let parents := (dd_touch parents node_) in
let indegree := (length (dd_getitem parents node_)) in
let '(new_nodes, new_edges, parents, concatenated) := (if (andb (Nat.ltb 1 indegree) (negb (isc node_))) then
let concat := (new_concat 0 node_) in
let new_nodes := set_union new_nodes (py_set [concat; node_]) in
let parents := (dd_touch parents node_) in
let new_edges := set_union new_edges (py_set ((map (fun p => (p, concat)) (dd_getitem parents node_)) ++ [(concat, node_)])) in
let parents := (dd_touch parents node_) in
(new_nodes, new_edges, parents, concatenated)
else
let new_nodes := set_union new_nodes (py_set [node_]) in
let parents := (dd_touch parents node_) in
let new_edges := set_union new_edges (py_set (map (fun p => (p, node_)) (dd_getitem parents node_))) in
(new_nodes, new_edges, parents, concatenated)) in
(parents, new_nodes, new_edges, concatenated).

Lemma gen_cmi_unfold V E : g_cmi V E =
  let '(parents, _) := GenGraphflow.find_parents_and_children srt E in
  let '(_, new_nodes, new_edges, _) := pure_for V body (parents, [], [], tt) in
  (ord_n 0 new_nodes, ord_e 0 new_edges).
Proof. reflexivity. Qed.

Section Loop.
Variable E : list edge.

Definition pinv (P : ddict node node) : Prop := forall v, dd_getitem P v = parents E v.

Lemma body_spec P N A u x : pinv P ->
  exists P' u', body (P, N, A, u) x =
    (P', set_union N (py_set (if wrapped isc E x then [g_nm x; x] else [x])),
     set_union A (py_set (if wrapped isc E x then map (fun p => (p, g_nm x)) (parents E x) ++ [(g_nm x, x)]
                          else map (fun p => (p, x)) (parents E x))), u') /\ pinv P'.
Proof. intros HP. unfold body. cbv zeta. rewrite !dd_getitem_touch, HP.
  change (andb (Nat.ltb 1 (length (parents E x))) (negb (isc x))) with (wrapped isc E x).
  destruct (wrapped isc E x); eexists; eexists; (split; [reflexivity|]); intros v; rewrite !dd_getitem_touch; apply HP. Qed.

Lemma loop_spec l : forall P N A u, pinv P -> NoDup N -> NoDup A ->
  exists P' N' A' u', pure_for l body (P, N, A, u) = (P', N', A', u') /\ NoDup N' /\ NoDup A' /\
    (forall x, In x N' <-> In x N \/ In x (cmi_nodes isc g_nm l E)) /\
    (forall e, In e A' <-> In e A \/ In e (cmi_edges isc g_nm l E)).
Proof. induction l as [|x l IH]; intros P N A u HP HN HA.
  - exists P, N, A, u. simpl. repeat split; auto; tauto.
  - destruct (body_spec P N A u x HP) as [P1 [u1 [Hb HP1]]].
    unfold pure_for in *. cbn [fold_left]. rewrite Hb.
    match goal with |- context [fold_left body l (P1, ?N1, ?A1, u1)] =>
      destruct (IH P1 N1 A1 u1 HP1) as [P' [N' [A' [u' [Hf [HN' [HA' [HNi HAi]]]]]]]] end.
    { apply set_union_NoDup; auto. apply py_set_NoDup. }
    { apply set_union_NoDup; auto. apply py_set_NoDup. }
    exists P', N', A', u'. split; [exact Hf|]. split; [exact HN'|]. split; [exact HA'|]. split.
    + intros y. rewrite HNi, set_union_In, py_set_In. unfold cmi_nodes. cbn [flat_map]. rewrite in_app_iff. tauto.
    + intros e. rewrite HAi, set_union_In, py_set_In. unfold cmi_edges. cbn [flat_map]. rewrite in_app_iff. tauto.
Qed.
End Loop.

(* ------------------------------------------------------------------ generated concat_multi_inputs = Graph.cmi, as sets *)
Theorem gen_cmi_is_model (V : list node) (E : list edge) :
  same_set (fst (g_cmi V E)) (fst (cmi isc g_nm V E)) /\ same_set (snd (g_cmi V E)) (snd (cmi isc g_nm V E)).
Proof.
  rewrite gen_cmi_unfold.
  assert (HP : pinv (srt E) (fst (GenGraphflow.find_parents_and_children srt E))).
  { intros v. exact (proj1 (gen_parents_children srt E v)). }
  destruct (GenGraphflow.find_parents_and_children srt E) as [P0 C0]. cbn [fst] in HP. cbv beta iota.
  destruct (loop_spec (srt E) V P0 [] [] tt HP (NoDup_nil _) (NoDup_nil _)) as [P' [N' [A' [u' [Hf [HN [HA [HNi HAi]]]]]]]].
  cbv delta [Graph.node PyColl.node Graph.edge PyColl.edge] in *. rewrite Hf. cbn [fst snd cmi]. split; (split; [|split]).
  - exact (Permutation_NoDup (Permutation_sym (Hord_n 0 N')) HN).
  - apply NoDup_nodup.
  - intros x. rewrite nodup_In. rewrite <- (cmi_srt_nodes isc g_nm V (srt E) E x (Hsrt E)).
    split.
    + intros Hi. apply (Permutation_in _ (Hord_n 0 N')) in Hi. apply HNi in Hi as [[]|Hi]. exact Hi.
    + intros Hi. apply (Permutation_in _ (Permutation_sym (Hord_n 0 N'))). apply HNi. now right.
  - exact (Permutation_NoDup (Permutation_sym (Hord_e 0 A')) HA).
  - apply NoDup_nodup.
  - intros e. rewrite nodup_In. rewrite <- (cmi_srt_edges isc g_nm V (srt E) E e (Hsrt E)).
    split.
    + intros Hi. apply (Permutation_in _ (Hord_e 0 A')) in Hi. apply HAi in Hi as [[]|Hi]. exact Hi.
    + intros Hi. apply (Permutation_in _ (Permutation_sym (Hord_e 0 A'))). apply HAi. now right.
Qed.

(* ------------------------------------------------------------------ transfer of the fan-in theorems to the generated code *)
Lemma same_set_perm {A} (l m : list A) : same_set l m -> Permutation l m.
Proof. intros [Hl [Hm Hi]]. now apply NoDup_Permutation. Qed.

Section Transfer.
Variables (V : list node) (E : list edge).
Hypothesis Hwf : wf V E.
Hypothesis Hfresh : forall v, In v V -> ~ In (g_nm v) V.
Hypothesis Hinj : forall u v, In u V -> In v V -> g_nm u = g_nm v -> u = v.

Theorem gen_cmi_fanin_once v : In v V -> isc v = false -> 1 < indeg E v ->
  In (g_nm v) (fst (g_cmi V E)) /\ parents (snd (g_cmi V E)) v = [g_nm v] /\ children (snd (g_cmi V E)) (g_nm v) = [v] /\
  NoDup (parents (snd (g_cmi V E)) (g_nm v)) /\ (forall p, In p (parents (snd (g_cmi V E)) (g_nm v)) <-> In (p, v) E).
Proof. intros Hv Hc Hd.
  destruct (gen_cmi_is_model V E) as [HsN HsE].
  destruct (cmi_fanin_once isc g_nm V E Hwf Hfresh Hinj v Hv Hc Hd) as [H1 [H2 [H3 [H4 H5]]]].
  pose proof (same_set_perm _ _ HsE) as Hp.
  split; [apply (proj2 (proj2 HsN)); exact H1|]. split; [|split; [|split]].
  - pose proof (parents_perm _ _ v Hp) as Hq. rewrite H2 in Hq. apply Permutation_sym in Hq.
    now apply Permutation_length_1_inv in Hq.
  - pose proof (children_perm _ _ (g_nm v) Hp) as Hq. rewrite H3 in Hq. apply Permutation_sym in Hq.
    now apply Permutation_length_1_inv in Hq.
  - exact (Permutation_NoDup (Permutation_sym (parents_perm _ _ (g_nm v) Hp)) H4).
  - intros p. rewrite <- H5. split; apply Permutation_in; [|apply Permutation_sym]; exact (parents_perm _ _ (g_nm v) Hp).
Qed.

Theorem gen_cmi_others_unchanged v p : In v V -> (isc v = true \/ indeg E v <= 1) ->
  (In (p, v) (snd (g_cmi V E)) <-> In (p, v) E).
Proof. intros Hv Hc. rewrite <- (cmi_other_edges_unchanged isc g_nm V E Hfresh Hinj v p Hv Hc).
  exact (proj2 (proj2 (proj2 (gen_cmi_is_model V E))) (p, v)). Qed.
End Transfer.
End GenOpsEq.

(* ------------------------------------------------------------------ generated _link_1to1 = Graph.link_1to1
   An operand (Node or Model) is a [node]: the identity of the Python object.  [repr n a]: the object n is what the hand
   model calls the [value] a -- a bare node (not a Model, not a FrozenModel: FrozenModel is a subclass of Model) or a
   non-frozen Model whose four properties read the four fields.  Under [repr] the generated function returns EXACTLY the
   lists of [Graph.link_1to1] (same order, same duplicates: only list operations are involved), unless some new edge
   joins two initialised nodes of different dimensions, in which case it raises ValueError.
   NB the source tests `isinstance(node, FrozenModel)` on the LEAKED loop variable `node` (= node2) where node1 / node2 is
   meant; the translation keeps that ([let node_ := node2]); under [repr] neither operand is frozen, so it is harmless. *)
Section GenLinkEq.
Variables is_model is_frozen_model is_initialized : node -> bool.
Variables attr_nodes attr_input_nodes attr_output_nodes : node -> list node.
Variable attr_edges : node -> list edge.
Variable dim : Type.
Variables output_dim input_dim : node -> dim.
Variable dim_eqb : dim -> dim -> bool.

Definition g_link := GenOps._link_1to1 is_model is_frozen_model is_initialized attr_nodes attr_input_nodes attr_output_nodes
  attr_edges dim output_dim input_dim dim_eqb.

Definition repr (n : node) (a : value) : Prop :=
  match a with
  | VNode k => n = k /\ is_model n = false /\ is_frozen_model n = false
  | VModel m => is_model n = true /\ is_frozen_model n = false /\ attr_nodes n = mNodes m /\ attr_edges n = mEdges m /\
                attr_input_nodes n = mIn m /\ attr_output_nodes n = mOut m
  end.

(* the test made on every new edge: both ends initialised and sender.output_dim != receiver.input_dim *)
Definition dim_clash (e : edge) : bool :=
  is_initialized (fst e) && (is_initialized (snd e) && negb (dim_eqb (output_dim (fst e)) (input_dim (snd e)))).

Lemma check_loop (l : list edge) :
  py_for l (fun (_ : unit) '(sender, receiver) =>
     if (andb (is_initialized sender) (andb (is_initialized receiver) (negb (dim_eqb (output_dim sender) (input_dim receiver)))))
     then Exc ValueError else Val tt) tt
  = if existsb dim_clash l then Exc ValueError else Val tt.
Proof. induction l as [|[s r] l IH]; simpl; auto. unfold dim_clash at 1. simpl.
  destruct (is_initialized s && (is_initialized r && negb (dim_eqb (output_dim s) (input_dim r)))); simpl; auto. Qed.

Theorem gen_link_1to1_is_model (n1 n2 : node) (a b : value) : repr n1 a -> repr n2 b ->
  g_link n1 n2 = if existsb dim_clash (list_prod (v_outs a) (v_ins b)) then Exc ValueError else Val (link_1to1 a b).
Proof. intros Ha Hb. unfold g_link, GenOps._link_1to1. cbv zeta. unfold pure_for. cbn [fold_left]. rewrite check_loop.
  unfold link_1to1.
  destruct a as [ka|ma], b as [kb|mb]; cbn [repr] in Ha, Hb; cbn [v_nodes v_edges v_outs v_ins].
  - destruct Ha as [-> [Ha1 Ha2]], Hb as [-> [Hb1 Hb2]]. rewrite Ha1, Hb1. cbn [andb app].
    destruct (existsb dim_clash _); reflexivity.
  - destruct Ha as [-> [Ha1 Ha2]], Hb as [Hb1 [Hb2 [Hb3 [Hb4 [Hb5 Hb6]]]]]. rewrite Ha1, Hb1, Hb2, Hb3, Hb4, Hb5. cbn [andb negb app].
    destruct (existsb dim_clash _); reflexivity.
  - destruct Ha as [Ha1 [Ha2 [Ha3 [Ha4 [Ha5 Ha6]]]]], Hb as [-> [Hb1 Hb2]]. rewrite Ha1, Ha2, Ha3, Ha4, Ha6, Hb1, Hb2. cbn [andb negb app].
    rewrite ?app_nil_r. destruct (existsb dim_clash _); reflexivity.
  - destruct Ha as [Ha1 [Ha2 [Ha3 [Ha4 [Ha5 Ha6]]]]], Hb as [Hb1 [Hb2 [Hb3 [Hb4 [Hb5 Hb6]]]]].
    rewrite Ha1, Ha2, Ha3, Ha4, Ha6, Hb1, Hb2, Hb3, Hb4, Hb5. cbn [andb negb app].
    rewrite <- ?app_assoc. destruct (existsb dim_clash _); reflexivity.
Qed.

(* no dimension clash (in particular: some end of every new edge is not initialised yet): the model's lists, exactly *)
Corollary gen_link_1to1_ok (n1 n2 : node) (a b : value) : repr n1 a -> repr n2 b ->
  (forall s r, In s (v_outs a) -> In r (v_ins b) -> dim_clash (s, r) = false) ->
  g_link n1 n2 = Val (link_1to1 a b).
Proof. intros Ha Hb Hd. rewrite (gen_link_1to1_is_model n1 n2 a b Ha Hb).
  destruct (existsb dim_clash _) eqn:Hx; auto. apply existsb_exists in Hx as [[s r] [Hi Hc]].
  apply in_prod_iff in Hi as [Hs Hr]. rewrite (Hd s r Hs Hr) in Hc. discriminate. Qed.
End GenLinkEq.
