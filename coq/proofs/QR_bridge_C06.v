(* C06: Model.fit / Model.train evaluated at Q, then embedded in R, ARE Model.fit / Model.train evaluated at R on the embedded data.

   model/FitSem.v is number-free: fit_with_staging / explicit_fit are generic in a value algebra (D, P, a_run, a_fit, a_pred) and
   model_train / explicit_train in (V, NS, vcat, ncall, nout, nlearn).  The correspondence run (run/RunC06.v: chk_fit, chk_train,
   chk_train_explicit, chk_train_calls) instantiates them at Q with the forward nodes of model/Kinds.v, the ridge readout of
   model/Ridge.v (Gauss-Jordan [qsolve_tot] in place of LAPACK) and the RLS / LMS readouts of model/Online.v.  This file:

   1. FUNCTORIALITY (no numbers): a map of value algebras (eD, eP commuting with a_run / a_fit / a_pred) commutes with
      fit_with_staging (same success flag, parameters mapped) and with explicit_fit; a map (eV, eN) of node algebras commutes
      with model_train / explicit_train: related environments (POINT-WISE, no functional extensionality) and related steps give
      related final environments and mapped returned outputs.
   2. GENERIC TWINS: RunC06's Q-only definitions (nkind / q_run / q_fit / q_pred, tkind / qns / q_ncall / q_nlearn / q_env0,
      run_seq / run_data / hcat2 / hcats) are re-stated over any [Num F] with the solver as a parameter ([g_*], [run_seqF], ...);
      at F := Q with [qsolve_tot] they are RunC06's ([q_*_twin]: by computation, through the obvious translation of the inductives).
   3. KERNELS: for every homomorphism [phi] of the class (base/NumHom.v), in particular [Q2R]: every node kind of Kinds.v
      ([ekind], [e_kfwd]; [actk] is an enumeration of exactly computable activations, so there is no activation side condition),
      a node run over a sequence and over a dataset with state carried or reset, hstack, the ridge fit (via QR_bridge_C04's
      [e_fit], for ANY PAIR OF RELATED SOLVERS) and prediction, the online node call / learn / initial environment (via
      QR_bridge_C10) commute with the entry-wise embedding.
   4. Hence [Qfit_embeds], [Qexplicit_fit_embeds], [Qtrain_embeds], [Qexplicit_train_embeds] and the verdict theorems
      [chk_fit_is_about_R_model], [chk_train_is_about_R_model], [chk_train_explicit_is_about_R_model],
      [chk_train_calls_is_about_R_model].
   6. FEEDBACK: the offline fit of models with feedback connections and ESN.fit (model/FitFb.v; chk_fit_fb, chk_esn_fit) execute the
      forward nodes step by step through ModelSem.forward; the part of model/ModelSem.v they use (gather, fbvalue, call_node, forward,
      clamps, proxies, start_env, dispatch_fb) is related here for any homomorphism (environments and per-step data point-wise, models
      node by node), then run_sub / run_seqs / traj_of / rd_fit / run_stage_fb / fit_fb and esn_run / esn_seqs / esn_fit
      ([fit_fb_rel], [esn_fit_rel]; [Qfit_fb_embeds], [Qesn_fit_embeds]; verdicts [chk_fit_fb_is_about_R_model],
      [chk_esn_fit_is_about_R_model]).  (proofs/QR_bridge_Model.v, written concurrently for C02/C07/C08, relates the whole of
      ModelSem / ProxySem with the same vocabulary; this file is self-contained and re-proves the few lemmas it needs.)
   What stays trusted on the offline side: the relation [forall A B, qm2r (qsolve_tot A B) = solveR (qm2r A) (qm2r B)] between the
   Gauss-Jordan routine of the runner and the solver of the R instance (a hypothesis of the offline theorems; the online
   theorems have no hypothesis at all).  No shape hypothesis anywhere. *)
From Coq Require Import Reals QArith Qreals List Bool Arith ZArith.
From RV Require Import base.Num base.LA base.NumHom model.Windows model.ModelSem model.Kinds model.Ridge model.Online model.FitSem.
From RV Require Import proofs.QR_bridge_C17 proofs.QR_bridge_C04 proofs.QR_bridge_C10.
Import ListNotations.
Close Scope Q_scope.

(* ================================================================== 1. functoriality of the number-free algorithms *)
Definition emap {A B : Type} (f : A -> B) (m : list (nat * A)) : list (nat * B) := map (fun p => (fst p, f (snd p))) m.

Lemma lookup_emap {A B} (f : A -> B) m k : lookup (emap f m) k = option_map f (lookup m k).
Proof.
  unfold lookup. induction m as [|[a x] m IH]; [reflexivity|].
  cbn [emap map find fst snd]. destruct (a =? k); [reflexivity | exact IH].
Qed.
Lemma has_key_emap {A B} (f : A -> B) m k : has_key (emap f m) k = has_key m k.
Proof. unfold has_key. rewrite lookup_emap. destruct (lookup m k); reflexivity. Qed.
Lemma lookups_emap {A B} (f : A -> B) m ks : lookups (emap f m) ks = option_map (map f) (lookups m ks).
Proof.
  induction ks as [|k ks IH]; [reflexivity|]. cbn [lookups]. rewrite lookup_emap, IH.
  destruct (lookup m k); [|reflexivity]. destruct (lookups m ks); reflexivity.
Qed.
Lemma map_fst_emap {A B} (f : A -> B) m : map fst (emap f m) = map fst m.
Proof. unfold emap. rewrite map_map. reflexivity. Qed.
Lemma emap_app {A B} (f : A -> B) a b : emap f (a ++ b) = emap f a ++ emap f b.
Proof. apply map_app. Qed.
Lemma emap_emap {A B C} (f : A -> B) (h : B -> C) m : emap h (emap f m) = emap (fun x => h (f x)) m.
Proof. unfold emap. rewrite map_map. reflexivity. Qed.
Lemma Forall2_len {A B} (R : A -> B -> Prop) l1 l2 : Forall2 R l1 l2 -> length l1 = length l2.
Proof. induction 1; cbn; congruence. Qed.
Lemma map_opt_list {A B} (f : A -> B) o : map f (opt_list o) = opt_list (option_map f o).
Proof. destruct o; reflexivity. Qed.

Section FitFun.
Variables D1 P1 D2 P2 : Type.
Variables (eD : D1 -> D2) (eP : P1 -> P2).
Variables (run1 : nat -> list D1 -> D1) (fit1 : nat -> list D1 -> D1 -> P1) (pred1 : nat -> P1 -> list D1 -> D1).
Variables (run2 : nat -> list D2 -> D2) (fit2 : nat -> list D2 -> D2 -> P2) (pred2 : nat -> P2 -> list D2 -> D2).
Hypothesis Hrun : forall v ins, eD (run1 v ins) = run2 v (map eD ins).
Hypothesis Hfit : forall v ins y, eP (fit1 v ins y) = fit2 v (map eD ins) (eD y).
Hypothesis Hpred : forall v p ins, eD (pred1 v p ins) = pred2 v (eP p) (map eD ins).
Variable g : graph.

Lemma f_run_node ps v ins :
  option_map eD (run_node D1 P1 run1 pred1 g ps v ins) = run_node D2 P2 run2 pred2 g (emap eP ps) v (map eD ins).
Proof.
  unfold run_node. destruct (offline g v).
  - rewrite lookup_emap. destruct (lookup ps v); cbn [option_map]; [rewrite Hpred|]; reflexivity.
  - cbn [option_map]. rewrite Hrun. reflexivity.
Qed.
Lemma f_fwd_step fe Xs ps acc v :
  option_map (emap eD) (fwd_step D1 P1 run1 pred1 g fe Xs ps acc v)
  = fwd_step D2 P2 run2 pred2 g fe (emap eD Xs) (emap eP ps) (option_map (emap eD) acc) v.
Proof.
  destruct acc as [tr|]; [|reflexivity]. cbn [option_map fwd_step]. rewrite lookups_emap.
  destruct (lookups tr (parents_in fe v)) as [pin|]; [|reflexivity]. cbn [option_map].
  rewrite lookup_emap, <- map_opt_list, <- map_app.
  destruct (pin ++ opt_list (lookup Xs v)) as [|d l]; [reflexivity|].
  cbn [map]. change (eD d :: map eD l) with (map eD (d :: l)). rewrite <- f_run_node.
  destruct (run_node D1 P1 run1 pred1 g ps v (d :: l)); reflexivity.
Qed.
Lemma f_run_fwd_from fe Xs ps fwdn acc :
  option_map (emap eD) (fold_left (fwd_step D1 P1 run1 pred1 g fe Xs ps) fwdn acc)
  = fold_left (fwd_step D2 P2 run2 pred2 g fe (emap eD Xs) (emap eP ps)) fwdn (option_map (emap eD) acc).
Proof. revert acc. induction fwdn as [|v l IH]; intros acc; [reflexivity|]. cbn [fold_left]. rewrite IH, f_fwd_step. reflexivity. Qed.
Lemma f_run_fwd fe Xs ps fwdn :
  option_map (emap eD) (run_fwd D1 P1 run1 pred1 g fe Xs ps fwdn) = run_fwd D2 P2 run2 pred2 g fe (emap eD Xs) (emap eP ps) fwdn.
Proof. unfold run_fwd. rewrite f_run_fwd_from. reflexivity. Qed.

Lemma f_dist_add d acc nx : option_map (emap eD) (dist_add D1 d acc nx) = dist_add D2 (eD d) (option_map (emap eD) acc) nx.
Proof. destruct acc as [m|]; [|reflexivity]. cbn [option_map dist_add]. rewrite has_key_emap. destruct (has_key m nx); reflexivity. Qed.
Lemma f_dist_add_fold d l acc :
  option_map (emap eD) (fold_left (dist_add D1 d) l acc) = fold_left (dist_add D2 (eD d)) l (option_map (emap eD) acc).
Proof. revert acc. induction l as [|n l IH]; intros acc; [reflexivity|]. cbn [fold_left]. rewrite IH, f_dist_add. reflexivity. Qed.
Lemma f_dist_step tr acc r :
  option_map (emap eD) (dist_step D1 tr acc r) = dist_step D2 (emap eD tr) (option_map (emap eD) acc) r.
Proof.
  destruct acc as [m|]; [|reflexivity]. cbn [option_map dist_step]. rewrite lookup_emap.
  destruct (lookup tr (fst r)) as [d|]; [|reflexivity]. cbn [option_map]. rewrite f_dist_add_fold. reflexivity.
Qed.
Lemma f_dist_states tr rel : option_map (emap eD) (dist_states D1 tr rel) = dist_states D2 (emap eD tr) rel.
Proof.
  unfold dist_states. change (Some (@nil (nat * D2))) with (option_map (emap eD) (Some [])). generalize (Some (@nil (nat * D1))).
  induction rel as [|r rel IH]; intros acc; [reflexivity|]. cbn [fold_left]. rewrite IH, f_dist_step. reflexivity.
Qed.
Lemma f_fit_nodes Y0 dist offl :
  option_map (emap eP) (fit_nodes D1 P1 fit1 Y0 dist offl) = fit_nodes D2 P2 fit2 (emap eD Y0) (emap eD dist) offl.
Proof.
  induction offl as [|v rest IH]; [reflexivity|]. cbn [fit_nodes]. rewrite !lookup_emap, <- IH.
  destruct (lookup dist v) as [x|]; [|reflexivity]. destruct (lookup Y0 v) as [y|]; [|reflexivity].
  destruct (fit_nodes D1 P1 fit1 Y0 dist rest); [|reflexivity]. cbn [option_map emap map fst snd]. rewrite Hfit. reflexivity.
Qed.

Definition efstate (st : fstate D1 P1) : fstate D2 P2 := (emap eD (fst (fst st)), emap eP (snd (fst st)), snd st).
Lemma f_run_stage Y0 st s :
  option_map efstate (run_stage D1 P1 run1 fit1 pred1 g Y0 st s)
  = run_stage D2 P2 run2 fit2 pred2 g (emap eD Y0) (option_map efstate st) s.
Proof.
  destruct st as [[[Xs ps] trained]|]; [|reflexivity]. cbn [option_map]. unfold efstate at 2. cbn [fst snd]. unfold run_stage. cbv zeta.
  set (offl := filter (fun n => offline g n && negb (mem n trained)) (s_nodes s)).
  set (fwdn := filter (fun n => negb (mem n offl)) (s_nodes s)).
  set (fedges := filter (fun e => negb (mem (snd e) offl)) (s_edges s)).
  assert (Ed : option_map (emap eD)
                 (match fwdn with [] => Some Xs | _ => match run_fwd D1 P1 run1 pred1 g fedges Xs ps fwdn with
                                                        | Some tr => dist_states D1 tr (s_rel s) | None => None end end)
               = match fwdn with [] => Some (emap eD Xs) | _ => match run_fwd D2 P2 run2 pred2 g fedges (emap eD Xs) (emap eP ps) fwdn with
                                                        | Some tr => dist_states D2 tr (s_rel s) | None => None end end).
  { destruct fwdn as [|n0 fw]; [reflexivity|]. rewrite <- f_run_fwd.
    destruct (run_fwd D1 P1 run1 pred1 g fedges Xs ps (n0 :: fw)) as [tr|]; [|reflexivity]. cbn [option_map]. apply f_dist_states. }
  rewrite <- Ed. clear Ed.
  destruct (match fwdn with [] => Some Xs | _ => _ end) as [dm|]; [|reflexivity]. cbn [option_map].
  rewrite <- f_fit_nodes. destruct (fit_nodes D1 P1 fit1 Y0 dm offl) as [newp|]; [|reflexivity].
  unfold efstate. cbn [option_map fst snd]. rewrite !emap_app. reflexivity.
Qed.

(* Model.fit with any staging: same success flag, parameters mapped *)
Theorem f_fit_with_staging X0 Y0 stg :
  option_map (emap eP) (fit_with_staging D1 P1 run1 fit1 pred1 g X0 Y0 stg)
  = fit_with_staging D2 P2 run2 fit2 pred2 g (emap eD X0) (emap eD Y0) stg.
Proof.
  unfold fit_with_staging.
  assert (E : forall st, option_map efstate (fold_left (run_stage D1 P1 run1 fit1 pred1 g Y0) stg st)
                         = fold_left (run_stage D2 P2 run2 fit2 pred2 g (emap eD Y0)) stg (option_map efstate st)).
  { induction stg as [|s l IH]; intros st; [reflexivity|]. cbn [fold_left]. rewrite IH, f_run_stage. reflexivity. }
  change (option_map (emap eP) match fold_left (run_stage D1 P1 run1 fit1 pred1 g Y0) stg (Some (X0, [], [])) with
                              | Some (_, ps, _) => Some ps | None => None end
          = match fold_left (run_stage D2 P2 run2 fit2 pred2 g (emap eD Y0)) stg (option_map efstate (Some (X0, [], []))) with
            | Some (_, ps, _) => Some ps | None => None end).
  rewrite <- E.
  destruct (fold_left (run_stage D1 P1 run1 fit1 pred1 g Y0) stg (Some (X0, [], []))) as [[[Xs ps] tr]|]; reflexivity.
Qed.

Lemma f_sources X0 tr v : map eD (sources D1 g X0 tr v) = sources D2 g (emap eD X0) (emap eD tr) v.
Proof.
  unfold sources. rewrite map_app, map_opt_list, lookup_emap. f_equal.
  induction (FitSem.parents g v) as [|p l IH]; [reflexivity|]. cbn [flat_map]. rewrite map_app, IH, map_opt_list, lookup_emap. reflexivity.
Qed.
Definition eacc2 (a : list (nat * D1) * list (nat * P1)) : list (nat * D2) * list (nat * P2) := (emap eD (fst a), emap eP (snd a)).
Lemma f_explicit_step X0 Y0 acc v :
  eacc2 (explicit_step D1 P1 run1 fit1 pred1 g X0 Y0 acc v)
  = explicit_step D2 P2 run2 fit2 pred2 g (emap eD X0) (emap eD Y0) (eacc2 acc) v.
Proof.
  destruct acc as [tr ps]. unfold explicit_step, eacc2. cbn [fst snd]. cbv zeta. rewrite <- f_sources, lookup_emap.
  destruct (offline g v).
  - destruct (lookup Y0 v) as [y|]; cbn [option_map fst snd emap map]; [|reflexivity]. rewrite Hpred, Hfit. reflexivity.
  - cbn [fst snd emap map]. rewrite Hrun. reflexivity.
Qed.
(* the explicit node-by-node procedure *)
Theorem f_explicit_fit X0 Y0 :
  emap eP (explicit_fit D1 P1 run1 fit1 pred1 g X0 Y0) = explicit_fit D2 P2 run2 fit2 pred2 g (emap eD X0) (emap eD Y0).
Proof.
  unfold explicit_fit.
  assert (E : forall acc, eacc2 (fold_left (explicit_step D1 P1 run1 fit1 pred1 g X0 Y0) (g_nodes g) acc)
                          = fold_left (explicit_step D2 P2 run2 fit2 pred2 g (emap eD X0) (emap eD Y0)) (g_nodes g) (eacc2 acc)).
  { induction (g_nodes g) as [|v l IH]; intros acc; [reflexivity|]. cbn [fold_left]. rewrite IH, f_explicit_step. reflexivity. }
  specialize (E ([], [])). unfold eacc2 in E at 2. cbn [fst snd emap map] in E. rewrite <- E. reflexivity.
Qed.
End FitFun.

Section TrainFun.
Variables V1 NS1 V2 NS2 : Type.
Variables (eV : V1 -> V2) (eN : NS1 -> NS2).
Variables (vcat1 : list V1 -> V1) (ncall1 : nat -> NS1 -> V1 -> NS1) (nout1 : nat -> NS1 -> V1) (nlearn1 : nat -> NS1 -> V1 -> V1 -> NS1).
Variables (vcat2 : list V2 -> V2) (ncall2 : nat -> NS2 -> V2 -> NS2) (nout2 : nat -> NS2 -> V2) (nlearn2 : nat -> NS2 -> V2 -> V2 -> NS2).
Hypothesis Hcat : forall l, eV (vcat1 l) = vcat2 (map eV l).
Hypothesis Hcall : forall v s x, eN (ncall1 v s x) = ncall2 v (eN s) (eV x).
Hypothesis Hout : forall v s, eV (nout1 v s) = nout2 v (eN s).
Hypothesis Hlearn : forall v s x y, eN (nlearn1 v s x y) = nlearn2 v (eN s) (eV x) (eV y).

(* environments and external data are functions of the node id: related point-wise *)
Definition env_rel (e1 : nat -> NS1) (e2 : nat -> NS2) : Prop := forall v, eN (e1 v) = e2 v.
Definition ext_rel (x1 : nat -> option V1) (x2 : nat -> option V2) : Prop := forall v, option_map eV (x1 v) = x2 v.
Definition step_rel (a : (nat -> option V1) * (nat -> option V1)) (b : (nat -> option V2) * (nat -> option V2)) : Prop :=
  ext_rel (fst a) (fst b) /\ ext_rel (snd a) (snd b).

Lemma r_tupd e1 e2 n s : env_rel e1 e2 -> env_rel (tupd NS1 e1 n s) (tupd NS2 e2 n (eN s)).
Proof. intros He v. unfold tupd. destruct (v =? n); [reflexivity | apply He]. Qed.
Lemma r_tgather m e1 e2 x1 x2 v : env_rel e1 e2 -> ext_rel x1 x2 ->
  eV (tgather V1 NS1 vcat1 nout1 m e1 x1 v) = tgather V2 NS2 vcat2 nout2 m e2 x2 v.
Proof.
  intros He Hx. unfold tgather. rewrite Hcat, map_app, map_map, map_opt_list, (Hx v). do 2 f_equal.
  apply map_ext. intros p. rewrite Hout, (He p). reflexivity.
Qed.
Lemma r_calls m x1 x2 l e1 e2 : env_rel e1 e2 -> ext_rel x1 x2 ->
  env_rel (fold_left (fun e v => tupd NS1 e v (ncall1 v (e v) (tgather V1 NS1 vcat1 nout1 m e x1 v))) l e1)
          (fold_left (fun e v => tupd NS2 e v (ncall2 v (e v) (tgather V2 NS2 vcat2 nout2 m e x2 v))) l e2).
Proof.
  intros He Hx. revert e1 e2 He. induction l as [|v l IH]; intros e1 e2 He; [exact He|]. cbn [fold_left]. apply IH.
  rewrite <- (r_tgather m e1 e2 x1 x2 v He Hx), <- (He v), <- Hcall. apply r_tupd, He.
Qed.
Lemma r_tforward m x1 x2 e1 e2 : env_rel e1 e2 -> ext_rel x1 x2 ->
  env_rel (tforward V1 NS1 vcat1 ncall1 nout1 m x1 e1) (tforward V2 NS2 vcat2 ncall2 nout2 m x2 e2).
Proof. intros He Hx. apply r_calls; assumption. Qed.
Lemma r_ttrain_nodes m x1 x2 t1 t2 e1 e2 : env_rel e1 e2 -> ext_rel x1 x2 -> ext_rel t1 t2 ->
  env_rel (ttrain_nodes V1 NS1 vcat1 nout1 nlearn1 m x1 t1 e1) (ttrain_nodes V2 NS2 vcat2 nout2 nlearn2 m x2 t2 e2).
Proof.
  intros He Hx Ht. unfold ttrain_nodes. revert e1 e2 He. induction (t_order m) as [|v l IH]; intros e1 e2 He; [exact He|].
  cbn [fold_left]. apply IH. destruct (t_online m v); [|exact He]. rewrite <- (Ht v).
  destruct (t1 v) as [y|]; cbn [option_map]; [|exact He].
  rewrite <- (r_tgather m e1 e2 x1 x2 v He Hx), <- (He v), <- Hlearn. apply r_tupd, He.
Qed.
Lemma r_outs e1 e2 l : env_rel e1 e2 -> map eV (map (fun o => nout1 o (e1 o)) l) = map (fun o => nout2 o (e2 o)) l.
Proof. intros He. rewrite map_map. apply map_ext. intros o. rewrite Hout, (He o). reflexivity. Qed.

(* Model.train from step i on: related final environments, mapped returned outputs *)
Lemma r_ttrain_from m k single steps1 steps2 : Forall2 step_rel steps1 steps2 -> forall i e1 e2, env_rel e1 e2 ->
  env_rel (fst (ttrain_from V1 NS1 vcat1 ncall1 nout1 nlearn1 m k single i e1 steps1))
          (fst (ttrain_from V2 NS2 vcat2 ncall2 nout2 nlearn2 m k single i e2 steps2)) /\
  map (map eV) (snd (ttrain_from V1 NS1 vcat1 ncall1 nout1 nlearn1 m k single i e1 steps1))
  = snd (ttrain_from V2 NS2 vcat2 ncall2 nout2 nlearn2 m k single i e2 steps2).
Proof.
  induction 1 as [|[x1 t1] [x2 t2] l1 l2 [Hx Ht] _ IH]; intros i e1 e2 He; [split; [exact He | reflexivity]|].
  cbn [fst snd] in Hx, Ht. cbn [ttrain_from]. cbv zeta.
  pose proof (r_tforward m x1 x2 e1 e2 He Hx) as Hf.
  set (f1 := tforward V1 NS1 vcat1 ncall1 nout1 m x1 e1) in *. set (f2 := tforward V2 NS2 vcat2 ncall2 nout2 m x2 e2) in *.
  assert (Hg : env_rel (if tgate k single i then ttrain_nodes V1 NS1 vcat1 nout1 nlearn1 m x1 t1 f1 else f1)
                       (if tgate k single i then ttrain_nodes V2 NS2 vcat2 nout2 nlearn2 m x2 t2 f2 else f2)).
  { destruct (tgate k single i); [apply r_ttrain_nodes; assumption | exact Hf]. }
  specialize (IH (S i) _ _ Hg).
  destruct (ttrain_from V1 NS1 vcat1 ncall1 nout1 nlearn1 m k single (S i) _ l1) as [e1' o1].
  destruct (ttrain_from V2 NS2 vcat2 ncall2 nout2 nlearn2 m k single (S i) _ l2) as [e2' o2].
  cbn [fst snd] in *. destruct IH as [IH1 IH2]. split; [exact IH1|]. cbn [map]. rewrite IH2, (r_outs f1 f2 _ Hf). reflexivity.
Qed.
Theorem r_model_train m k steps1 steps2 e1 e2 : Forall2 step_rel steps1 steps2 -> env_rel e1 e2 ->
  env_rel (fst (model_train V1 NS1 vcat1 ncall1 nout1 nlearn1 m k e1 steps1))
          (fst (model_train V2 NS2 vcat2 ncall2 nout2 nlearn2 m k e2 steps2)) /\
  map (map eV) (snd (model_train V1 NS1 vcat1 ncall1 nout1 nlearn1 m k e1 steps1))
  = snd (model_train V2 NS2 vcat2 ncall2 nout2 nlearn2 m k e2 steps2).
Proof.
  intros Hs He. unfold model_train. rewrite <- (Forall2_len _ _ _ Hs). apply r_ttrain_from; assumption.
Qed.

Lemma r_explicit_train_step ups r m learn x1 x2 t1 t2 e1 e2 : env_rel e1 e2 -> ext_rel x1 x2 -> ext_rel t1 t2 ->
  env_rel (fst (explicit_train_step V1 NS1 vcat1 ncall1 nout1 nlearn1 ups r m learn x1 t1 e1))
          (fst (explicit_train_step V2 NS2 vcat2 ncall2 nout2 nlearn2 ups r m learn x2 t2 e2)) /\
  eV (snd (explicit_train_step V1 NS1 vcat1 ncall1 nout1 nlearn1 ups r m learn x1 t1 e1))
  = snd (explicit_train_step V2 NS2 vcat2 ncall2 nout2 nlearn2 ups r m learn x2 t2 e2).
Proof.
  intros He Hx Ht. unfold explicit_train_step. cbv zeta. cbn [fst snd].
  pose proof (r_calls m x1 x2 ups e1 e2 He Hx) as Hu.
  set (u1 := fold_left (fun e v => tupd NS1 e v (ncall1 v (e v) (tgather V1 NS1 vcat1 nout1 m e x1 v))) ups e1) in *.
  set (u2 := fold_left (fun e v => tupd NS2 e v (ncall2 v (e v) (tgather V2 NS2 vcat2 nout2 m e x2 v))) ups e2) in *.
  pose proof (r_tgather m u1 u2 x1 x2 r Hu Hx) as Hgx.
  assert (Hc : env_rel (tupd NS1 u1 r (ncall1 r (u1 r) (tgather V1 NS1 vcat1 nout1 m u1 x1 r)))
                       (tupd NS2 u2 r (ncall2 r (u2 r) (tgather V2 NS2 vcat2 nout2 m u2 x2 r)))).
  { rewrite <- Hgx, <- (Hu r), <- Hcall. apply r_tupd, Hu. }
  set (c1 := tupd NS1 u1 r (ncall1 r (u1 r) (tgather V1 NS1 vcat1 nout1 m u1 x1 r))) in *.
  set (c2 := tupd NS2 u2 r (ncall2 r (u2 r) (tgather V2 NS2 vcat2 nout2 m u2 x2 r))) in *.
  split; [|rewrite Hout, (Hc r); reflexivity].
  destruct learn; [|exact Hc]. rewrite <- (Ht r). destruct (t1 r) as [y|]; cbn [option_map]; [|exact Hc].
  rewrite <- Hgx, <- (Hc r), <- Hlearn. apply r_tupd, Hc.
Qed.
Lemma r_explicit_train_from ups r m k single steps1 steps2 : Forall2 step_rel steps1 steps2 -> forall i e1 e2, env_rel e1 e2 ->
  env_rel (fst (explicit_train_from V1 NS1 vcat1 ncall1 nout1 nlearn1 ups r m k single i e1 steps1))
          (fst (explicit_train_from V2 NS2 vcat2 ncall2 nout2 nlearn2 ups r m k single i e2 steps2)) /\
  map eV (snd (explicit_train_from V1 NS1 vcat1 ncall1 nout1 nlearn1 ups r m k single i e1 steps1))
  = snd (explicit_train_from V2 NS2 vcat2 ncall2 nout2 nlearn2 ups r m k single i e2 steps2).
Proof.
  induction 1 as [|[x1 t1] [x2 t2] l1 l2 [Hx Ht] _ IH]; intros i e1 e2 He; [split; [exact He | reflexivity]|].
  cbn [fst snd] in Hx, Ht. cbn [explicit_train_from].
  pose proof (r_explicit_train_step ups r m (tgate k single i) x1 x2 t1 t2 e1 e2 He Hx Ht) as [Hs1 Hs2].
  destruct (explicit_train_step V1 NS1 vcat1 ncall1 nout1 nlearn1 ups r m (tgate k single i) x1 t1 e1) as [a1 p1].
  destruct (explicit_train_step V2 NS2 vcat2 ncall2 nout2 nlearn2 ups r m (tgate k single i) x2 t2 e2) as [a2 p2].
  cbn [fst snd] in Hs1, Hs2. specialize (IH (S i) a1 a2 Hs1).
  destruct (explicit_train_from V1 NS1 vcat1 ncall1 nout1 nlearn1 ups r m k single (S i) a1 l1) as [e1' o1].
  destruct (explicit_train_from V2 NS2 vcat2 ncall2 nout2 nlearn2 ups r m k single (S i) a2 l2) as [e2' o2].
  cbn [fst snd] in *. destruct IH as [IH1 IH2]. split; [exact IH1|]. cbn [map]. rewrite IH2, Hs2. reflexivity.
Qed.
Theorem r_explicit_train ups r m k steps1 steps2 e1 e2 : Forall2 step_rel steps1 steps2 -> env_rel e1 e2 ->
  env_rel (fst (explicit_train V1 NS1 vcat1 ncall1 nout1 nlearn1 ups r m k e1 steps1))
          (fst (explicit_train V2 NS2 vcat2 ncall2 nout2 nlearn2 ups r m k e2 steps2)) /\
  map eV (snd (explicit_train V1 NS1 vcat1 ncall1 nout1 nlearn1 ups r m k e1 steps1))
  = snd (explicit_train V2 NS2 vcat2 ncall2 nout2 nlearn2 ups r m k e2 steps2).
Proof.
  intros Hs He. unfold explicit_train. rewrite <- (Forall2_len _ _ _ Hs). apply r_explicit_train_from; assumption.
Qed.
End TrainFun.

(* ================================================================== 2. generic twins of the Q-only definitions of run/RunC06.v *)
(* np.hstack per timestep: structural (any element type) *)
Definition hcat2P {A : Type} (a b : list (list (list A))) : list (list (list A)) :=
  map (fun p => map (fun r => fst r ++ snd r) (combine (fst p) (snd p))) (combine a b).
Definition hcatsP {A : Type} (l : list (list (list (list A)))) : list (list (list A)) :=
  match l with [] => [] | d :: r => fold_left hcat2P r d end.

Lemma map_combine {A B A' B'} (f : A -> A') (h : B -> B') (a : list A) (b : list B) :
  map (fun p => (f (fst p), h (snd p))) (combine a b) = combine (map f a) (map h b).
Proof. revert b. induction a as [|x a IH]; intros [|y b]; cbn; try reflexivity. rewrite IH. reflexivity. Qed.
Lemma hcat2P_map {A B} (f : A -> B) a b :
  map (map (map f)) (hcat2P a b) = hcat2P (map (map (map f)) a) (map (map (map f)) b).
Proof.
  unfold hcat2P. rewrite <- map_combine, !map_map. apply map_ext. intros [x y]. cbn [fst snd].
  rewrite <- map_combine, !map_map. apply map_ext. intros [r1 r2]. cbn [fst snd]. apply map_app.
Qed.
Lemma hcatsP_map {A B} (f : A -> B) l : map (map (map f)) (hcatsP l) = hcatsP (map (map (map (map f))) l).
Proof.
  destruct l as [|d r]; [reflexivity|]. cbn [hcatsP map]. revert d.
  induction r as [|x r IH]; intros d; [reflexivity|]. cbn [fold_left map]. rewrite IH, hcat2P_map. reflexivity.
Qed.

Section Twins.
Context {F : Type} `{Num F}.
Notation vec := (list F).
Notation mat := (list (list F)).
Notation dset := (list (list (list F))).
Variable solve : mat -> mat -> mat.

Fixpoint run_seqF (k : kind) (fb : option vec) (s : vec) (h : hidden) (rows : mat) : mat * (vec * hidden) :=
  match rows with
  | [] => ([], (s, h))
  | x :: r => match kfwd k s h x fb with
              | Some (s', h') => let '(o, f) := run_seqF k fb s' h' r in (s' :: o, f)
              | None => ([], (s, h))
              end
  end.
Fixpoint run_dataF (k : kind) (fb : option vec) (reset : bool) (z : vec) (sh : vec * hidden) (seqs : dset) : dset :=
  match seqs with
  | [] => []
  | sq :: r => let '(o, f) := run_seqF k fb (if reset then z else fst sh) (snd sh) sq in o :: run_dataF k fb reset z f r
  end.

(* nkind of RunC06 *)
Inductive gnkind :=
| GFwd (k : kind (F:=F)) (odim : nat)
| GFwdFb (k : kind (F:=F)) (odim fbdim : nat)
| GRidge (bias : bool) (lam : F) (dout : nat).

Section GAlg.
Variable nodes : list (nat * gnkind).
Variable w : nat.
Variable reset : bool.
Variable init : list (nat * vec).
Definition g_kind_of (v : nat) : gnkind := match lookup nodes v with Some k => k | None => GFwd KId 0 end.
Definition g_din_of (d : dset) : nat := length (hd [] (hd [] d)).
Definition g_run (v : nat) (ins : list dset) : dset :=
  match g_kind_of v with
  | GFwd k od => run_dataF k None reset (vzeros od) (match lookup init v with Some s => s | None => vzeros od end, []) (hcatsP ins)
  | GFwdFb k od fd => run_dataF k (Some (vzeros fd)) reset (vzeros od)
                                (match lookup init v with Some s => s | None => vzeros od end, []) (hcatsP ins)
  | GRidge _ _ _ => []
  end.
Definition g_fit (v : nat) (ins : list dset) (y : dset) : option (mat * vec) :=
  match g_kind_of v with
  | GRidge b lam dout => let X := hcatsP ins in Ridge.fit solve b lam w (g_din_of X) dout X y
  | _ => None
  end.
Definition g_pred (v : nat) (p : option (mat * vec)) (ins : list dset) : dset :=
  match g_kind_of v, p with
  | GRidge _ _ dout, Some (W, b) => map (Ridge.run dout W b) (hcatsP ins)
  | _, _ => []
  end.
End GAlg.

(* tkind / qns of RunC06 *)
Inductive gtkind :=
| GTFwd (k : kind (F:=F)) (odim : nat)
| GTRls (bias : bool) (idim odim : nat) (alpha : F)
| GTLms (sc : list F * F) (bias : bool) (idim odim : nat).
Record gns := mkGNS { gs_st : vec; gs_rdo : rdo (F:=F) }.
Definition g_rdo0 : rdo (F:=F) := {| Wout := []; bias := []; Pm := []; cursor := 0 |}.

Section GTAlg.
Variable tnodes : list (nat * gtkind).
Definition g_tkind_of (v : nat) : gtkind := match lookup tnodes v with Some k => k | None => GTFwd KId 0 end.
Definition g_ncall (v : nat) (s : gns) (x : vec) : gns :=
  match g_tkind_of v with
  | GTFwd k _ => match kfwd k (gs_st s) [] x None with Some (s', _) => mkGNS s' (gs_rdo s) | None => s end
  | GTRls _ _ od _ => mkGNS (readout_forward od (gs_rdo s) x) (gs_rdo s)
  | GTLms _ _ _ od => mkGNS (readout_forward od (gs_rdo s) x) (gs_rdo s)
  end.
Definition g_nlearn (v : nat) (s : gns) (x y : vec) : gns :=
  match g_tkind_of v with
  | GTFwd _ _ => s
  | GTRls b _ _ _ => mkGNS (gs_st s) (rls_update b (gs_rdo s) x y (gs_st s))
  | GTLms sc b _ _ => mkGNS (gs_st s) (lms_update sc b (gs_rdo s) x y (gs_st s))
  end.
Definition g_env0 : nat -> gns :=
  fun v => match g_tkind_of v with
           | GTFwd _ od => mkGNS (vzeros od) g_rdo0
           | GTRls b idim od a => mkGNS (vzeros od) (rls_init b idim od a)
           | GTLms _ _ idim od => mkGNS (vzeros od) (lms_init idim od)
           end.
End GTAlg.
End Twins.

(* ---- at F := Q with qsolve_tot the twins ARE the definitions of run/RunC06.v ---- *)
From RV Require Import run.RunC06.

Definition to_g (k : nkind) : gnkind (F:=Q) :=
  match k with NFwd k od => GFwd k od | NFwdFb k od fd => GFwdFb k od fd | NRidge b lam dout => GRidge b lam dout end.
Definition to_gt (k : tkind) : gtkind (F:=Q) :=
  match k with TFwd k od => GTFwd k od | TRls b i o a => GTRls b i o a | TLms sc b i o => GTLms sc b i o end.
Definition to_gns (s : qns) : gns (F:=Q) := mkGNS (ns_st s) (ns_rdo s).

Lemma hcat2_twin : hcat2 = hcat2P (A:=Q).                 Proof. reflexivity. Qed.
Lemma hcats_twin : hcats = hcatsP (A:=Q).                 Proof. reflexivity. Qed.
Lemma run_seq_twin : run_seq = run_seqF (F:=Q).           Proof. reflexivity. Qed.
Lemma run_data_twin : run_data = run_dataF (F:=Q).        Proof. reflexivity. Qed.
Lemma g_kind_of_twin nodes v : g_kind_of (emap to_g nodes) v = to_g (kind_of nodes v).
Proof. unfold g_kind_of, kind_of. rewrite lookup_emap. destruct (lookup nodes v); reflexivity. Qed.
Lemma q_run_twin nodes reset init v ins : q_run nodes reset init v ins = g_run (emap to_g nodes) reset init v ins.
Proof. unfold q_run, g_run. rewrite g_kind_of_twin. destruct (kind_of nodes v); reflexivity. Qed.
Lemma q_fit_twin nodes w v ins y : q_fit nodes w v ins y = g_fit qsolve_tot (emap to_g nodes) w v ins y.
Proof. unfold q_fit, g_fit. rewrite g_kind_of_twin. destruct (kind_of nodes v); reflexivity. Qed.
Lemma q_pred_twin nodes v p ins : q_pred nodes v p ins = g_pred (emap to_g nodes) v p ins.
Proof. unfold q_pred, g_pred. rewrite g_kind_of_twin. destruct (kind_of nodes v); reflexivity. Qed.
Lemma g_tkind_of_twin tnodes v : g_tkind_of (emap to_gt tnodes) v = to_gt (tkind_of tnodes v).
Proof. unfold g_tkind_of, tkind_of. rewrite lookup_emap. destruct (lookup tnodes v); reflexivity. Qed.
Lemma q_ncall_twin tnodes v s x : to_gns (q_ncall tnodes v s x) = g_ncall (emap to_gt tnodes) v (to_gns s) x.
Proof.
  unfold q_ncall, g_ncall. rewrite g_tkind_of_twin. destruct (tkind_of tnodes v); cbn [to_gt to_gns gs_st gs_rdo]; try reflexivity.
  destruct (kfwd k (ns_st s) [] x None) as [[s' h']|]; reflexivity.
Qed.
Lemma q_nlearn_twin tnodes v s x y : to_gns (q_nlearn tnodes v s x y) = g_nlearn (emap to_gt tnodes) v (to_gns s) x y.
Proof. unfold q_nlearn, g_nlearn. rewrite g_tkind_of_twin. destruct (tkind_of tnodes v); reflexivity. Qed.
Lemma q_env0_twin tnodes v : to_gns (q_env0 tnodes v) = g_env0 (emap to_gt tnodes) v.
Proof. unfold q_env0, g_env0. rewrite g_tkind_of_twin. destruct (tkind_of tnodes v); reflexivity. Qed.

(* ================================================================== 3. the kernels commute with the entry-wise embedding *)
Section BridgeC06.
Context {F G : Type} {NF : Num F} {NG : Num G} (phi : F -> G) {HH : NumHom phi}.
Local Notation ev := (map phi).
Local Notation em := (map (map phi)).
Local Notation ed := (map (map (map phi))).

(* ---- the node kinds of model/Kinds.v ([actk] is an enumeration: no function field, no activation side condition) ---- *)
Definition ekind (k : @kind F) : @kind G :=
  match k with
  | KFun a b => KFun (phi a) (phi b)
  | KAcc => KAcc
  | KId => KId
  | KRes W Win bias lr f => KRes (em W) (em Win) (ev bias) (ev lr) f
  | KResExt W Win bias lr f => KResExt (em W) (em Win) (ev bias) (ev lr) f
  | KResFb W Win bias lr f Wfb g => KResFb (em W) (em Win) (ev bias) (ev lr) f (em Wfb) g
  | KLin Wout bias => KLin (em Wout) (ev bias)
  | KFbAdd c => KFbAdd (phi c)
  | KDelay => KDelay
  | KNvar o s => KNvar o s
  | KBoom k => KBoom k
  end.
Lemma hom_act1 a x : phi (act1 a x) = act1 a (phi x).
Proof.
  destruct a; cbn [act1].
  - reflexivity.
  - rewrite (hom_ltb phi x n0), (hom_0 phi). destruct (nltb (phi x) n0); [apply (hom_0 phi) | reflexivity].
  - rewrite (hom_ltb phi x (nopp n1)), (hom_ltb phi n1 x), (hom_opp phi), (hom_1 phi).
    destruct (nltb (phi x) (nopp n1)); [rewrite (hom_opp phi), (hom_1 phi); reflexivity|].
    destruct (nltb n1 (phi x)); [apply (hom_1 phi) | reflexivity].
  - rewrite (hom_div phi), (hom_add phi), (hom_1 phi). reflexivity.
Qed.
Lemma ev_act a v : ev (act a v) = act a (ev v).
Proof. unfold act. rewrite !map_map. apply map_ext. intros; apply hom_act1. Qed.
Lemma ev_leak lr r fx : ev (leak lr r fx) = leak (ev lr) (ev r) (ev fx).
Proof.
  unfold leak. rewrite (ev_vadd phi), !(ev_vmul phi). do 2 f_equal.
  rewrite !map_map. apply map_ext. intros l. rewrite (hom_sub phi), (hom_1 phi). reflexivity.
Qed.
Lemma ev_kernel W Win bias r u : ev (kernel W Win bias r u) = kernel (em W) (em Win) (ev bias) (ev r) (ev u).
Proof. unfold kernel. rewrite !(ev_vadd phi), !(ev_mv phi). reflexivity. Qed.

Definition ekres (r : option (list F * @hidden F)) : option (list G * @hidden G) :=
  option_map (fun p => (ev (fst p), em (snd p))) r.
Theorem e_kfwd (k : @kind F) s h x fb :
  kfwd (ekind k) (ev s) (em h) (ev x) (option_map ev fb) = ekres (kfwd k s h x fb).
Proof.
  destruct k; cbn [ekind kfwd ekres option_map fst snd].
  - do 2 f_equal. rewrite !map_map. apply map_ext. intros v. rewrite (hom_add phi), (hom_mul phi). reflexivity.
  - rewrite (ev_vadd phi). reflexivity.
  - reflexivity.
  - rewrite ev_leak, ev_act, ev_kernel. reflexivity.
  - assert (E : match em h with i :: _ => i | [] => vzeros (length (ev s)) end
                = ev (match h with i :: _ => i | [] => vzeros (length s) end)).
    { destruct h; cbn [map]; [|reflexivity]. rewrite (ev_vzeros phi), map_length. reflexivity. }
    rewrite E, <- ev_kernel, <- ev_leak, <- ev_act. reflexivity.
  - destruct fb as [y|]; cbn [ekres option_map fst snd]; [|reflexivity].
    rewrite ev_leak, ev_act, (ev_vadd phi), ev_kernel, (ev_mv phi), ev_act. reflexivity.
  - rewrite (ev_vadd phi), (ev_vm phi), map_length. reflexivity.
  - destruct fb as [y|]; cbn [ekres option_map fst snd]; [|reflexivity].
    rewrite (ev_vadd phi), (ev_vscale phi). reflexivity.
  - rewrite <- (e_delay_step phi). destruct (delay_step h x) as [b o]. reflexivity.
  - rewrite <- (e_nvar_step phi). destruct (nvar_step order strides h x) as [s' o]. reflexivity.
  - assert (E : match em h with (c0 :: _) :: _ => c0 | _ => n0 end = phi (match h with (c0 :: _) :: _ => c0 | _ => n0 end)).
    { destruct h as [|[|c0 r] h']; cbn [map]; try reflexivity; symmetry; apply (hom_0 phi). }
    assert (En : forall n, phi (nat_to_F n) = nat_to_F n) by (intros; apply (hom_ofZ phi)).
    rewrite E, <- (hom_1 phi), <- (hom_add phi), <- !En, <- !(hom_leb phi).
    match goal with |- context [if ?b then _ else _] => destruct b end; cbn [ekres option_map fst snd]; [reflexivity|].
    rewrite (ev_vadd phi). reflexivity.
Qed.

(* ---- a node run over one sequence / over a dataset, state carried or reset ---- *)
Lemma e_run_seq k fb s (h : @hidden F) rows :
  run_seqF (ekind k) (option_map ev fb) (ev s) (em h) (em rows)
  = (em (fst (run_seqF k fb s h rows)), (ev (fst (snd (run_seqF k fb s h rows))), em (snd (snd (run_seqF k fb s h rows))))).
Proof.
  revert s h. induction rows as [|x r IH]; intros s h; [reflexivity|]. cbn [run_seqF map]. rewrite e_kfwd.
  destruct (kfwd k s h x fb) as [[s' h']|]; cbn [ekres option_map fst snd]; [|reflexivity].
  rewrite IH. destruct (run_seqF k fb s' h' r) as [o [sf hf]]. reflexivity.
Qed.
Lemma e_run_data k fb reset z (sh : list F * @hidden F) seqs :
  run_dataF (ekind k) (option_map ev fb) reset (ev z) (ev (fst sh), em (snd sh)) (map em seqs)
  = ed (run_dataF k fb reset z sh seqs).
Proof.
  revert sh. induction seqs as [|sq r IH]; intros sh; [reflexivity|]. cbn [run_dataF map fst snd].
  replace (if reset then ev z else ev (fst sh)) with (ev (if reset then z else fst sh)) by (destruct reset; reflexivity).
  rewrite e_run_seq. destruct (run_seqF k fb (if reset then z else fst sh) (snd sh) sq) as [o [sf hf]]. cbn [fst snd].
  cbn [map]. rewrite <- (IH (sf, hf)). reflexivity.
Qed.

(* ---- the offline algebra ---- *)
Definition egk (k : gnkind (F:=F)) : gnkind (F:=G) :=
  match k with GFwd k od => GFwd (ekind k) od | GFwdFb k od fd => GFwdFb (ekind k) od fd | GRidge b lam dout => GRidge b (phi lam) dout end.
Definition epar (p : list (list F) * list F) : list (list G) * list G := (em (fst p), ev (snd p)).
Lemma g_kind_of_emb nodes v : g_kind_of (emap egk nodes) v = egk (g_kind_of nodes v).
Proof. unfold g_kind_of. rewrite lookup_emap. destruct (lookup nodes v); reflexivity. Qed.
Lemma g_din_of_emb (d : list (list (list F))) : g_din_of (ed d) = g_din_of d.
Proof. unfold g_din_of. destruct d as [|[|r sq] d]; cbn; try reflexivity. apply map_length. Qed.
Lemma e_init_state (init : list (nat * list F)) v od :
  match lookup (emap ev init) v with Some s => s | None => vzeros od end = ev (match lookup init v with Some s => s | None => vzeros od end).
Proof. rewrite lookup_emap. destruct (lookup init v); cbn [option_map]; [reflexivity | symmetry; apply (ev_vzeros phi)]. Qed.

Lemma e_g_run nodes reset init v ins :
  ed (g_run nodes reset init v ins) = g_run (emap egk nodes) reset (emap ev init) v (map ed ins).
Proof.
  unfold g_run. rewrite g_kind_of_emb. destruct (g_kind_of nodes v) as [k od|k od fd|b lam dout]; cbn [egk]; [| |reflexivity].
  - rewrite <- e_run_data, (hcatsP_map phi), e_init_state, (ev_vzeros phi). reflexivity.
  - rewrite <- e_run_data. cbn [option_map fst snd]. rewrite (hcatsP_map phi), e_init_state, !(ev_vzeros phi). reflexivity.
Qed.
Lemma e_g_pred nodes v p ins :
  ed (g_pred nodes v p ins) = g_pred (emap egk nodes) v (option_map epar p) (map ed ins).
Proof.
  unfold g_pred. rewrite g_kind_of_emb. destruct (g_kind_of nodes v) as [k od|k od fd|b lam dout]; cbn [egk]; try (destruct p; reflexivity).
  destruct p as [[W bv]|]; cbn [option_map epar fst snd]; [|reflexivity].
  rewrite <- (hcatsP_map phi), !map_map. apply map_ext. intros X. apply (em_run phi).
Qed.
Section WithSolve.
Variables (solveF : list (list F) -> list (list F) -> list (list F)) (solveG : list (list G) -> list (list G) -> list (list G)).
Hypothesis Hsolve : forall A B, em (solveF A B) = solveG (em A) (em B).
Lemma e_g_fit nodes w v ins y :
  option_map epar (g_fit solveF nodes w v ins y) = g_fit solveG (emap egk nodes) w v (map ed ins) (ed y).
Proof.
  unfold g_fit. rewrite g_kind_of_emb. destruct (g_kind_of nodes v) as [k od|k od fd|b lam dout]; cbn [egk]; try reflexivity.
  cbv zeta. rewrite <- (hcatsP_map phi), g_din_of_emb. apply (e_fit phi solveF solveG Hsolve).
Qed.
End WithSolve.

(* ---- the online algebra ---- *)
Definition egt (k : gtkind (F:=F)) : gtkind (F:=G) :=
  match k with GTFwd k od => GTFwd (ekind k) od | GTRls b i o a => GTRls b i o (phi a) | GTLms sc b i o => GTLms (esched phi sc) b i o end.
Definition egns (s : gns (F:=F)) : gns (F:=G) := mkGNS (ev (gs_st s)) (erdo phi (gs_rdo s)).
Lemma g_tkind_of_emb tnodes v : g_tkind_of (emap egt tnodes) v = egt (g_tkind_of tnodes v).
Proof. unfold g_tkind_of. rewrite lookup_emap. destruct (lookup tnodes v); reflexivity. Qed.
Lemma e_g_ncall tnodes v s x : egns (g_ncall tnodes v s x) = g_ncall (emap egt tnodes) v (egns s) (ev x).
Proof.
  unfold g_ncall. rewrite g_tkind_of_emb. destruct (g_tkind_of tnodes v) as [k od|b i o a|sc b i o]; cbn [egt].
  - pose proof (e_kfwd k (gs_st s) [] x None) as E. cbn [map option_map] in E. cbn [egns gs_st gs_rdo]. rewrite E.
    destruct (kfwd k (gs_st s) [] x None) as [[s' h']|]; reflexivity.
  - unfold egns. cbn [gs_st gs_rdo]. rewrite (ev_readout_forward phi). reflexivity.
  - unfold egns. cbn [gs_st gs_rdo]. rewrite (ev_readout_forward phi). reflexivity.
Qed.
Lemma e_g_nlearn tnodes v s x y : egns (g_nlearn tnodes v s x y) = g_nlearn (emap egt tnodes) v (egns s) (ev x) (ev y).
Proof.
  unfold g_nlearn. rewrite g_tkind_of_emb. destruct (g_tkind_of tnodes v) as [k od|b i o a|sc b i o]; cbn [egt]; [reflexivity| |].
  - unfold egns. cbn [gs_st gs_rdo]. rewrite (e_rls_update phi). reflexivity.
  - unfold egns. cbn [gs_st gs_rdo]. rewrite (e_lms_update phi). reflexivity.
Qed.
Lemma e_g_env0 tnodes v : egns (g_env0 tnodes v) = g_env0 (emap egt tnodes) v.
Proof.
  unfold g_env0. rewrite g_tkind_of_emb. destruct (g_tkind_of tnodes v) as [k od|b i o a|sc b i o]; cbn [egt]; unfold egns; cbn [gs_st gs_rdo].
  - rewrite (ev_vzeros phi). reflexivity.
  - rewrite (ev_vzeros phi), (e_rls_init phi). reflexivity.
  - rewrite (ev_vzeros phi), (e_lms_init phi). reflexivity.
Qed.
End BridgeC06.

(* ================================================================== 4. the instance Q -> R *)
Notation qd2r := (map (map (map Q2R))).
Notation par2r := (option_map (epar Q2R)).
Definition nk2r (k : nkind) : gnkind (F:=R) := egk Q2R (to_g k).
Definition tk2r (k : tkind) : gtkind (F:=R) := egt Q2R (to_gt k).
Definition ns2r (s : qns) : gns (F:=R) := egns Q2R (to_gns s).

(* the R instance of the value algebra of Model.fit: the SAME generic terms as RunC06's q_run / q_fit / q_pred, at F := R,
   on the embedded node descriptions and initial states, with a solver [solveR] *)
Definition r_run (nodes : list (nat * nkind)) (reset : bool) (init : list (nat * qv)) := g_run (F:=R) (emap nk2r nodes) reset (emap qv2r init).
Definition r_fit (solveR : list (list R) -> list (list R) -> list (list R)) (nodes : list (nat * nkind)) (w : nat) :=
  g_fit (F:=R) solveR (emap nk2r nodes) w.
Definition r_pred (nodes : list (nat * nkind)) := g_pred (F:=R) (emap nk2r nodes).
(* ... and of the node algebra of Model.train *)
Definition r_ncall (tnodes : list (nat * tkind)) := g_ncall (F:=R) (emap tk2r tnodes).
Definition r_nlearn (tnodes : list (nat * tkind)) := g_nlearn (F:=R) (emap tk2r tnodes).
Definition r_env0 (tnodes : list (nat * tkind)) := g_env0 (F:=R) (emap tk2r tnodes).
Definition r_nout (_ : nat) (s : gns (F:=R)) : list R := gs_st s.

Lemma Qrun_embeds nodes reset init v ins : qd2r (q_run nodes reset init v ins) = r_run nodes reset init v (map qd2r ins).
Proof. rewrite q_run_twin, (e_g_run Q2R). unfold r_run. rewrite emap_emap. reflexivity. Qed.
Lemma Qpred_embeds nodes v p ins : qd2r (q_pred nodes v p ins) = r_pred nodes v (par2r p) (map qd2r ins).
Proof. rewrite q_pred_twin, (e_g_pred Q2R). unfold r_pred. rewrite emap_emap. reflexivity. Qed.
Lemma Qnodefit_embeds solveR nodes w v ins y : (forall A B, qm2r (qsolve_tot A B) = solveR (qm2r A) (qm2r B)) ->
  par2r (q_fit nodes w v ins y) = r_fit solveR nodes w v (map qd2r ins) (qd2r y).
Proof. intros Hs. rewrite q_fit_twin, (e_g_fit Q2R qsolve_tot solveR Hs). unfold r_fit. rewrite emap_emap. reflexivity. Qed.

(* Model.fit with any staging (same success flag, every readout's (Wout, bias) embedded) and the explicit procedure *)
Theorem Qfit_embeds solveR nodes w reset init g X0 Y0 stg : (forall A B, qm2r (qsolve_tot A B) = solveR (qm2r A) (qm2r B)) ->
  option_map (emap par2r) (fit_with_staging qd (option (qm * qv)) (q_run nodes reset init) (q_fit nodes w) (q_pred nodes) g X0 Y0 stg)
  = fit_with_staging (list (list (list R))) (option (list (list R) * list R)) (r_run nodes reset init) (r_fit solveR nodes w) (r_pred nodes)
                     g (emap qd2r X0) (emap qd2r Y0) stg.
Proof.
  intros Hs. apply f_fit_with_staging; intros; [apply Qrun_embeds | apply Qnodefit_embeds, Hs | apply Qpred_embeds].
Qed.
Theorem Qexplicit_fit_embeds solveR nodes w reset init g X0 Y0 : (forall A B, qm2r (qsolve_tot A B) = solveR (qm2r A) (qm2r B)) ->
  emap par2r (explicit_fit qd (option (qm * qv)) (q_run nodes reset init) (q_fit nodes w) (q_pred nodes) g X0 Y0)
  = explicit_fit (list (list (list R))) (option (list (list R) * list R)) (r_run nodes reset init) (r_fit solveR nodes w) (r_pred nodes)
                 g (emap qd2r X0) (emap qd2r Y0).
Proof.
  intros Hs. apply f_explicit_fit; intros; [apply Qrun_embeds | apply Qnodefit_embeds, Hs | apply Qpred_embeds].
Qed.

(* Model.train / the explicit loop: per-timestep external inputs and targets are association lists by node id *)
Definition to_st {A : Type} (steps : list (list (nat * A) * list (nat * A))) : list ((nat -> option A) * (nat -> option A)) :=
  map (fun p => (assoc_fun (fst p), assoc_fun (snd p))) steps.
Definition steps2r (steps : list (list (nat * qv) * list (nat * qv))) : list (list (nat * list R) * list (nat * list R)) :=
  map (fun p => (emap qv2r (fst p), emap qv2r (snd p))) steps.
Lemma steps_rel steps : Forall2 (step_rel (list Q) (list R) qv2r) (to_st steps) (to_st (steps2r steps)).
Proof.
  induction steps as [|[x t] l IH]; [constructor|]. cbn [to_st steps2r map fst snd]. constructor; [|exact IH].
  split; intros v; cbn [fst snd]; unfold assoc_fun; rewrite lookup_emap; reflexivity.
Qed.
Lemma Qncall_embeds tnodes v s x : ns2r (q_ncall tnodes v s x) = r_ncall tnodes v (ns2r s) (qv2r x).
Proof. unfold ns2r. rewrite q_ncall_twin, (e_g_ncall Q2R). unfold r_ncall. rewrite emap_emap. reflexivity. Qed.
Lemma Qnlearn_embeds tnodes v s x y : ns2r (q_nlearn tnodes v s x y) = r_nlearn tnodes v (ns2r s) (qv2r x) (qv2r y).
Proof. unfold ns2r. rewrite q_nlearn_twin, (e_g_nlearn Q2R). unfold r_nlearn. rewrite emap_emap. reflexivity. Qed.
Lemma Qenv0_embeds tnodes v : ns2r (q_env0 tnodes v) = r_env0 tnodes v.
Proof. unfold ns2r. rewrite q_env0_twin, (e_g_env0 Q2R). unfold r_env0. rewrite emap_emap. reflexivity. Qed.

Theorem Qtrain_embeds tnodes m k (e : nat -> qns) (eR : nat -> gns (F:=R)) steps : (forall v, ns2r (e v) = eR v) ->
  let rQ := model_train qv qns (@concat Q) (q_ncall tnodes) (fun _ s => ns_st s) (q_nlearn tnodes) m k e (to_st steps) in
  let rR := model_train (list R) (gns (F:=R)) (@concat R) (r_ncall tnodes) r_nout (r_nlearn tnodes) m k eR (to_st (steps2r steps)) in
  (forall v, ns2r (fst rQ v) = fst rR v) /\ map qm2r (snd rQ) = snd rR.
Proof.
  intros He. cbv zeta.
  apply (r_model_train (list Q) qns (list R) (gns (F:=R)) qv2r ns2r); try exact He; try apply steps_rel; intros.
  - apply concat_map. - apply Qncall_embeds. - reflexivity. - apply Qnlearn_embeds.
Qed.
Theorem Qexplicit_train_embeds tnodes ups r m k (e : nat -> qns) (eR : nat -> gns (F:=R)) steps : (forall v, ns2r (e v) = eR v) ->
  let rQ := explicit_train qv qns (@concat Q) (q_ncall tnodes) (fun _ s => ns_st s) (q_nlearn tnodes) ups r m k e (to_st steps) in
  let rR := explicit_train (list R) (gns (F:=R)) (@concat R) (r_ncall tnodes) r_nout (r_nlearn tnodes) ups r m k eR (to_st (steps2r steps)) in
  (forall v, ns2r (fst rQ v) = fst rR v) /\ qm2r (snd rQ) = snd rR.
Proof.
  intros He. cbv zeta.
  apply (r_explicit_train (list Q) qns (list R) (gns (F:=R)) qv2r ns2r); try exact He; try apply steps_rel; intros.
  - apply concat_map. - apply Qncall_embeds. - reflexivity. - apply Qnlearn_embeds.
Qed.

(* ================================================================== 5. the verdicts of the correspondence runner, read at R
   [chk_fit], [chk_train], [chk_train_explicit], [chk_train_calls] (run/RunC06.v) are the booleans evaluated at Q by vm_compute
   for every scenario.  Their graph parts (the staging computed by get_offline_subgraphs, valid_stagingb) contain no number and
   are kept as they are.  Their numeric parts become statements about the R instance on the embedded data, the comparisons
   being the real inequality [rclose]: |model - observed| <= 1e-9 * max(1, |model|), entry-wise (base/NumHom.v).
   ([chk_fit_raises] is purely symbolic -- free term algebra -- there is nothing to bridge.) *)
Definition param_closeR (p : option (option (list (list R) * list R))) (W : qm) (b : qv) : Prop :=
  match p with
  | Some (Some (Wm, bm)) => mrclose Wm (qm2r W) /\ vrclose bm (qv2r b)
  | _ => False
  end.
Lemma param_close_R p W b : param_close p W b = true -> param_closeR (option_map par2r p) W b.
Proof.
  destruct p as [[[Wm bm]|]|]; cbn; try discriminate. intros Hx. apply andb_true_iff in Hx. destruct Hx as [H1 H2].
  split; [apply mclose_mrclose, H1 | apply vclose_vrclose, H2].
Qed.
Lemma params_close_R (ps : list (nat * option (qm * qv))) (obs : list (nat * (qm * qv))) :
  forallb (fun o => param_close (lookup ps (fst o)) (fst (snd o)) (snd (snd o))) obs = true ->
  forall o, In o obs -> param_closeR (lookup (emap par2r ps) (fst o)) (fst (snd o)) (snd (snd o)).
Proof. intros Hx o Ho. rewrite lookup_emap. apply param_close_R. exact (proj1 (forallb_forall _ _) Hx o Ho). Qed.

Lemma chk_fit_is_about_R_model (solveR : list (list R) -> list (list R) -> list (list R))
      (nodes : list (nat * nkind)) (g : graph) (X0 Y0 : list (nat * qd)) (w : nat) (reset : bool)
      (init : list (nat * qv)) (obs_stg : list stage) (expect_valid : bool) (obs : list (nat * (qm * qv))) :
  (forall A B, qm2r (qsolve_tot A B) = solveR (qm2r A) (qm2r B)) ->
  chk_fit nodes g X0 Y0 w reset init obs_stg expect_valid obs = true ->
  (exists stg, get_offline_subgraphs g = Some stg /\ stages_eqb stg obs_stg = true) /\
  valid_stagingb g (map fst X0) (map fst Y0) obs_stg = expect_valid /\
  (exists psR, fit_with_staging (list (list (list R))) (option (list (list R) * list R)) (r_run nodes reset init) (r_fit solveR nodes w)
                 (r_pred nodes) g (emap qd2r X0) (emap qd2r Y0) obs_stg = Some psR /\
               forall o, In o obs -> param_closeR (lookup psR (fst o)) (fst (snd o)) (snd (snd o))) /\
  (expect_valid = true -> forall o, In o obs ->
     param_closeR (lookup (explicit_fit (list (list (list R))) (option (list (list R) * list R)) (r_run nodes reset init)
                                        (r_fit solveR nodes w) (r_pred nodes) g (emap qd2r X0) (emap qd2r Y0)) (fst o))
                  (fst (snd o)) (snd (snd o))).
Proof.
  intros Hs. unfold chk_fit. intros Hx.
  apply andb_true_iff in Hx. destruct Hx as [Hx H4]. apply andb_true_iff in Hx. destruct Hx as [Hx H3].
  apply andb_true_iff in Hx. destruct Hx as [H1 H2].
  split; [|split; [|split]].
  - destruct (get_offline_subgraphs g) as [stg|]; [|discriminate]. exists stg. split; [reflexivity | exact H1].
  - apply eqb_prop, H2.
  - pose proof (Qfit_embeds solveR nodes w reset init g X0 Y0 obs_stg Hs) as E.
    destruct (fit_with_staging qd (option (qm * qv)) (q_run nodes reset init) (q_fit nodes w) (q_pred nodes) g X0 Y0 obs_stg) as [ps|];
      [|discriminate].
    exists (emap par2r ps). split; [symmetry; exact E | apply params_close_R, H3].
  - intros Ev. subst expect_valid. cbn [negb orb] in H4. cbv zeta in H4.
    rewrite <- (Qexplicit_fit_embeds solveR nodes w reset init g X0 Y0 Hs). apply params_close_R, H4.
Qed.

(* ---- online ---- *)
Definition mmrclose (a b : list (list (list R))) : Prop := Forall2 mrclose a b.
Lemma mmclose_mmrclose a b : mmclose a b = true -> mmrclose (map qm2r a) (map qm2r b).
Proof.
  revert b. induction a as [|x a IH]; intros [|y b]; cbn; intros Hx; try discriminate; [constructor|].
  apply andb_true_iff in Hx. destruct Hx as [H1 H2]. constructor; [apply mclose_mrclose, H1 | apply IH, H2].
Qed.
(* what is observed of an online readout after train: Wout, bias, P *)
Definition rdo_closeR (s : gns (F:=R)) (o : qm * qv * qm) : Prop :=
  mrclose (Wout (gs_rdo s)) (qm2r (fst (fst o))) /\ vrclose (bias (gs_rdo s)) (qv2r (snd (fst o))) /\ mrclose (Pm (gs_rdo s)) (qm2r (snd o)).
Lemma rdo_close_R s o : rdo_close s o = true -> rdo_closeR (ns2r s) o.
Proof.
  destruct o as [[W b] P]. unfold rdo_close, rdo_closeR. cbn [fst snd ns2r egns to_gns gs_rdo erdo Wout bias Pm]. intros Hx.
  apply andb_true_iff in Hx. destruct Hx as [Hx H3]. apply andb_true_iff in Hx. destruct Hx as [H1 H2].
  repeat split; [apply mclose_mrclose, H1 | apply vclose_vrclose, H2 | apply mclose_mrclose, H3].
Qed.
Lemma rdos_close_R (e : nat -> qns) (eR : nat -> gns (F:=R)) (obs_par : list (nat * (qm * qv * qm))) : (forall v, ns2r (e v) = eR v) ->
  forallb (fun p => rdo_close (e (fst p)) (snd p)) obs_par = true -> forall p, In p obs_par -> rdo_closeR (eR (fst p)) (snd p).
Proof. intros He Hx p Hp. rewrite <- He. apply rdo_close_R. exact (proj1 (forallb_forall _ _) Hx p Hp). Qed.

Definition r_train tnodes m k eR steps :=
  model_train (list R) (gns (F:=R)) (@concat R) (r_ncall tnodes) r_nout (r_nlearn tnodes) m k eR (to_st (steps2r steps)).
Definition r_explicit_train_of tnodes ups r m k eR steps :=
  explicit_train (list R) (gns (F:=R)) (@concat R) (r_ncall tnodes) r_nout (r_nlearn tnodes) ups r m k eR (to_st (steps2r steps)).

Lemma chk_train_is_about_R_model (tnodes : list (nat * tkind)) (order : list nat) (es : list (nat * nat)) (online outs : list nat)
      (k : nat) (steps : list (list (nat * qv) * list (nat * qv))) (obs_outs : list (list qv)) (obs_par : list (nat * (qm * qv * qm))) :
  chk_train tnodes order es online outs k steps obs_outs obs_par = true ->
  let rR := r_train tnodes (to_tmodel order es online outs) k (r_env0 tnodes) steps in
  mmrclose (snd rR) (map qm2r obs_outs) /\ forall p, In p obs_par -> rdo_closeR (fst rR (fst p)) (snd p).
Proof.
  unfold chk_train. cbv zeta. intros Hx.
  pose proof (Qtrain_embeds tnodes (to_tmodel order es online outs) k (q_env0 tnodes) (r_env0 tnodes) steps (Qenv0_embeds tnodes)) as E.
  cbv zeta in E. unfold to_st at 1 2 in E. fold (r_train tnodes (to_tmodel order es online outs) k (r_env0 tnodes) steps) in E.
  destruct (model_train qv qns (@concat Q) (q_ncall tnodes) (fun _ s => ns_st s) (q_nlearn tnodes) (to_tmodel order es online outs) k
                        (q_env0 tnodes) _) as [e o].
  cbn [fst snd] in E. destruct E as [E1 E2]. apply andb_true_iff in Hx. destruct Hx as [H1 H2]. rewrite <- E2.
  split; [apply mmclose_mmrclose, H1 | apply (rdos_close_R e _ obs_par E1 H2)].
Qed.

Lemma chk_train_explicit_is_about_R_model (tnodes : list (nat * tkind)) (ups : list nat) (r : nat) (es : list (nat * nat))
      (k : nat) (steps : list (list (nat * qv) * list (nat * qv))) (obs_outs : list qv) (obs_par : qm * qv * qm) :
  chk_train_explicit tnodes ups r es k steps obs_outs obs_par = true ->
  let rR := r_explicit_train_of tnodes ups r (to_tmodel (ups ++ [r]) es [r] [r]) k (r_env0 tnodes) steps in
  mrclose (snd rR) (qm2r obs_outs) /\ rdo_closeR (fst rR r) obs_par.
Proof.
  unfold chk_train_explicit. cbv zeta. intros Hx.
  pose proof (Qexplicit_train_embeds tnodes ups r (to_tmodel (ups ++ [r]) es [r] [r]) k (q_env0 tnodes) (r_env0 tnodes) steps
                                     (Qenv0_embeds tnodes)) as E.
  cbv zeta in E. unfold to_st at 1 2 in E. fold (r_explicit_train_of tnodes ups r (to_tmodel (ups ++ [r]) es [r] [r]) k (r_env0 tnodes) steps) in E.
  destruct (explicit_train qv qns (@concat Q) (q_ncall tnodes) (fun _ s => ns_st s) (q_nlearn tnodes) ups r
                           (to_tmodel (ups ++ [r]) es [r] [r]) k (q_env0 tnodes) _) as [e o].
  cbn [fst snd] in E. destruct E as [E1 E2]. apply andb_true_iff in Hx. destruct Hx as [H1 H2]. rewrite <- E2, <- E1.
  split; [apply mclose_mrclose, H1 | apply rdo_close_R, H2].
Qed.

(* several successive Model.train calls on the same model: each call starts from the environment the previous one left *)
Fixpoint calls_closeR (tnodes : list (nat * tkind)) (m : tmodel) (k : nat) (expl : option (list nat * nat)) (eR : nat -> gns (F:=R))
         (calls : list (list (list (nat * qv) * list (nat * qv)) * list (list qv) * list (nat * (qm * qv * qm)))) : Prop :=
  match calls with
  | [] => True
  | (steps, obs_outs, obs_par) :: rest =>
      let rR := r_train tnodes m k eR steps in
      mmrclose (snd rR) (map qm2r obs_outs) /\ (forall p, In p obs_par -> rdo_closeR (fst rR (fst p)) (snd p)) /\
      match expl with
      | Some (ups, r) =>
          let xR := r_explicit_train_of tnodes ups r m k eR steps in
          mrclose (snd xR) (qm2r (map (fun l => hd [] l) obs_outs)) /\ (forall p, In p obs_par -> rdo_closeR (fst xR (fst p)) (snd p))
      | None => True
      end /\
      calls_closeR tnodes m k expl (fst rR) rest
  end.
Lemma chk_calls_closeR tnodes m k expl calls : forall (e : nat -> qns) (eR : nat -> gns (F:=R)), (forall v, ns2r (e v) = eR v) ->
  chk_calls tnodes m k expl e calls = true -> calls_closeR tnodes m k expl eR calls.
Proof.
  induction calls as [|[[steps obs_outs] obs_par] rest IH]; intros e eR He Hx; [exact I|].
  cbn [chk_calls calls_closeR] in *. cbv zeta.
  pose proof (Qtrain_embeds tnodes m k e eR steps He) as E. cbv zeta in E. unfold to_st at 1 2 in E. fold (r_train tnodes m k eR steps) in E.
  pose proof (fun ups r => Qexplicit_train_embeds tnodes ups r m k e eR steps He) as X. cbv zeta in X. unfold to_st at 1 2 in X.
  destruct (model_train qv qns (@concat Q) (q_ncall tnodes) (fun _ s => ns_st s) (q_nlearn tnodes) m k e _) as [e1 o].
  cbn [fst snd] in E. destruct E as [E1 E2].
  apply andb_true_iff in Hx. destruct Hx as [Hx H4]. apply andb_true_iff in Hx. destruct Hx as [Hx H3].
  apply andb_true_iff in Hx. destruct Hx as [H1 H2]. rewrite <- E2.
  split; [apply mmclose_mmrclose, H1|]. split; [apply (rdos_close_R e1 _ obs_par E1 H2)|]. split; [|apply (IH e1 _ E1 H4)].
  destruct expl as [[ups r]|]; [|exact I]. specialize (X ups r). fold (r_explicit_train_of tnodes ups r m k eR steps) in X.
  destruct (explicit_train qv qns (@concat Q) (q_ncall tnodes) (fun _ s => ns_st s) (q_nlearn tnodes) ups r m k e _) as [e2 o2].
  cbn [fst snd] in X. destruct X as [X1 X2]. apply andb_true_iff in H3. destruct H3 as [H5 H6]. rewrite <- X2.
  split; [apply mclose_mrclose, H5 | apply (rdos_close_R e2 _ obs_par X1 H6)].
Qed.
Lemma chk_train_calls_is_about_R_model (tnodes : list (nat * tkind)) (order : list nat) (es : list (nat * nat)) (online outs : list nat)
      (k : nat) (expl : option (list nat * nat))
      (calls : list (list (list (nat * qv) * list (nat * qv)) * list (list qv) * list (nat * (qm * qv * qm)))) :
  chk_train_calls tnodes order es online outs k expl calls = true ->
  calls_closeR tnodes (to_tmodel order es online outs) k expl (r_env0 tnodes) calls.
Proof. unfold chk_train_calls. apply chk_calls_closeR, Qenv0_embeds. Qed.

(* ================================================================== non-vacuity *)
(* online: an affine forward node (2x + 1/2) feeding an RLS readout with bias (alpha = 1), two timesteps, learn_every = 1 *)
Definition exC06_tnodes : list (nat * tkind) := [(0, TFwd (KFun (2#1)%Q (1#2)%Q) 1); (1, TRls true 1 1 (1#1)%Q)].
Definition exC06_steps : list (list (nat * qv) * list (nat * qv)) :=
  [([(0, [(1#2)%Q])], [(1, [(3#4)%Q])]); ([(0, [(-1#1)%Q])], [(1, [(1#4)%Q])])].
Example chk_train_example :
  chk_train exC06_tnodes [0; 1] [(0, 1)] [1] [1] 1 exC06_steps [[[0%Q]]; [[(-15#68)%Q]]]
            [(1, ([[(3#22)%Q]], [(1#3)%Q], [[(1#3)%Q; 0%Q]; [0%Q; (2#11)%Q]]))] = true.
Proof. vm_compute. reflexivity. Qed.
(* the R instance on the embedded steps returns exactly the embedded rows the Q run computed (the RLS divisions included) *)
Example Qtrain_example :
  snd (r_train exC06_tnodes (to_tmodel [0; 1] [(0, 1)] [1] [1]) 1 (r_env0 exC06_tnodes) exC06_steps)
  = map qm2r [[[0%Q]]; [[(-15#68)%Q]]].
Proof.
  pose proof (Qtrain_embeds exC06_tnodes (to_tmodel [0; 1] [(0, 1)] [1] [1]) 1 (q_env0 exC06_tnodes) (r_env0 exC06_tnodes) exC06_steps
                            (Qenv0_embeds exC06_tnodes)) as E.
  cbv zeta in E. destruct E as [_ E]. unfold r_train. rewrite <- E. apply f_equal. vm_compute. reflexivity.
Qed.
(* offline: the same forward node feeding Ridge(ridge = 1/2, input_bias = True), one sequence of three rows, no warm-up *)
Definition exC06_nodes : list (nat * nkind) := [(0, NFwd (KFun (2#1)%Q (1#2)%Q) 1); (1, NRidge true (1#2)%Q 1)].
Definition exC06_g : graph := mkG [0; 1] [(0, 1)] [1].
Definition exC06_X0 : list (nat * qd) := [(0, [[[(1#2)%Q]; [(1#1)%Q]; [(-1#1)%Q]]])].
Definition exC06_Y0 : list (nat * qd) := [(1, [[[(1#1)%Q]; [(2#1)%Q]; [0%Q]]])].
Example chk_fit_example :
  chk_fit exC06_nodes exC06_g exC06_X0 exC06_Y0 0 false [] [mkStage [0; 1] [(0, 1)] [(0, [1])]] true
          [(1, ([[(122#265)%Q]], [(28#53)%Q]))] = true.
Proof. vm_compute. reflexivity. Qed.

(* the vocabulary of the verdicts in plain terms *)
Lemma verdict_vocabulary :
  (forall p W b, param_closeR p W b <-> exists Wm bm, p = Some (Some (Wm, bm)) /\ mrclose Wm (qm2r W) /\ vrclose bm (qv2r b)) /\
  (forall s o, rdo_closeR s o <-> mrclose (Wout (gs_rdo s)) (qm2r (fst (fst o))) /\ vrclose (bias (gs_rdo s)) (qv2r (snd (fst o))) /\
                                  mrclose (Pm (gs_rdo s)) (qm2r (snd o))) /\
  (forall m o : R, rclose m o -> (Rabs (m - o) <= 1 / 1000000000 * Rmax 1 (Rabs m))%R).
Proof.
  split; [|split].
  - intros [[[Wm bm]|]|] W b; cbn; split.
    + intros Hx. exists Wm, bm. split; [reflexivity | exact Hx].
    + intros (Wm' & bm' & E & Hx). injection E as <- <-. exact Hx.
    + intros [].
    + intros (Wm' & bm' & E & _). discriminate E.
    + intros [].
    + intros (Wm' & bm' & E & _). discriminate E.
  - intros s o. reflexivity.
  - exact rclose_abs.
Qed.

From RV Require Import model.FitFb.
(* ================================================================== 6. offline fit WITH FEEDBACK (model/FitFb.v) and ESN.fit *)
Lemma nth_error_map' {A B} (f : A -> B) l n : nth_error (map f l) n = option_map f (nth_error l n).
Proof. revert l. induction n as [|n IH]; intros [|a l]; cbn; try reflexivity. apply IH. Qed.

Section BridgeFb.
Context {F G : Type} {NF : Num F} {NG : Num G} (phi : F -> G) {HH : NumHom phi}.
Local Notation ev := (map phi).
Local Notation em := (map (map phi)).
Local Notation ed := (map (map (map phi))).

(* ---- the part of model/ModelSem.v that FitFb executes: environments and per-step data are functions of the node id, related
        POINT-WISE; models are related node by node (same ids, feedback sources, dimensions; related forward functions) ---- *)
Definition ens (s : @nstate F) : @nstate G := mkNS (ev (st s)) (em (hid s)).
Definition senv_rel (e : @env F) (e' : @env G) : Prop := forall n, e' n = ens (e n).
Definition opt_rel (x : nat -> option (list F)) (x' : nat -> option (list G)) : Prop := forall n, x' n = option_map ev (x n).
Definition fwd_rel (f : list F -> @hidden F -> list F -> option (list F) -> option (list F * @hidden F))
           (f' : list G -> @hidden G -> list G -> option (list G) -> option (list G * @hidden G)) : Prop :=
  forall s h x fb, f' (ev s) (em h) (ev x) (option_map ev fb) = ekres phi (f s h x fb).
Definition nd_rel (d : @ndesc F) (d' : @ndesc G) : Prop :=
  nid d' = nid d /\ nfb d' = nfb d /\ ModelSem.odim d' = ModelSem.odim d /\ fwd_rel (nfwd d) (nfwd d').
Definition m_rel (m : @model F) (m' : @model G) : Prop :=
  Forall2 nd_rel (order m) (order m') /\ forall n, ModelSem.parents m' n = ModelSem.parents m n.
Definition res_rel (r : @env F * bool) (r' : @env G * bool) : Prop := senv_rel (fst r) (fst r') /\ snd r' = snd r.

Lemma upd_rel e e' n s : senv_rel e e' -> senv_rel (upd e n s) (upd e' n (ens s)).
Proof. intros He m. unfold upd. destruct (m =? n); [reflexivity | apply He]. Qed.
Lemma set_st_rel e e' n v : senv_rel e e' -> senv_rel (set_st e n v) (set_st e' n (ev v)).
Proof. intros He. unfold set_st. rewrite (He n). apply (upd_rel e e' n (mkNS v (hid (e n)))), He. Qed.
Lemma gather_rel m m' e e' ext ext' n : m_rel m m' -> senv_rel e e' -> opt_rel ext ext' ->
  gather m' e' ext' n = ev (gather m e ext n).
Proof.
  intros [_ Hp] He Hx. unfold gather. rewrite (Hp n), (Hx n), map_app, concat_map, map_map. f_equal.
  - f_equal. apply map_ext. intros p. rewrite (He p). reflexivity.
  - destruct (ext n); reflexivity.
Qed.
Lemma fbvalue_rel d d' prev prev' cl cl' : nd_rel d d' -> senv_rel prev prev' -> opt_rel cl cl' ->
  fbvalue d' prev' cl' = option_map ev (fbvalue d prev cl).
Proof.
  intros (Hi & Hf & _ & _) Hp Hc. unfold fbvalue. rewrite Hf, Hi, (Hc (nid d)). destruct (nfb d) as [src|]; [|reflexivity].
  destruct (cl (nid d)); cbn [option_map]; [reflexivity|]. f_equal. destruct src as [s|outs].
  - rewrite (Hp s). reflexivity.
  - rewrite concat_map, map_map. f_equal. apply map_ext. intros o. rewrite (Hp o). reflexivity.
Qed.
Lemma call_node_rel m m' prev prev' cl cl' ext ext' e e' d d' :
  m_rel m m' -> senv_rel prev prev' -> opt_rel cl cl' -> opt_rel ext ext' -> senv_rel e e' -> nd_rel d d' ->
  res_rel (call_node m prev cl ext e d) (call_node m' prev' cl' ext' e' d').
Proof.
  intros Hm Hp Hc Hx He Hd. pose proof Hd as (Hi & _ & _ & Hw). unfold call_node.
  rewrite (fbvalue_rel d d' prev prev' cl cl' Hd Hp Hc), Hi, (gather_rel m m' e e' ext ext' (nid d) Hm He Hx), (He (nid d)).
  cbn [ens st hid]. rewrite Hw.
  destruct (nfwd d (st (e (nid d))) (hid (e (nid d))) (gather m e ext (nid d)) (fbvalue d prev cl)) as [[s' h']|]; cbn [ekres option_map fst snd].
  - split; [apply (upd_rel e e' (nid d) (mkNS s' h')), He | reflexivity].
  - split; [exact He | reflexivity].
Qed.
Lemma forward_from_rel m m' prev prev' cl cl' ext ext' ds ds' :
  m_rel m m' -> senv_rel prev prev' -> opt_rel cl cl' -> opt_rel ext ext' -> Forall2 nd_rel ds ds' ->
  forall e e', senv_rel e e' -> res_rel (forward_from m prev cl ext ds e) (forward_from m' prev' cl' ext' ds' e').
Proof.
  intros Hm Hp Hc Hx. induction 1 as [|d d' l l' Hd _ IH]; intros e e' He; [split; [exact He | reflexivity]|].
  cbn [forward_from]. pose proof (call_node_rel m m' prev prev' cl cl' ext ext' e e' d d' Hm Hp Hc Hx He Hd) as [H1 H2].
  destruct (call_node m prev cl ext e d) as [e1 ok]. destruct (call_node m' prev' cl' ext' e' d') as [e1' ok'].
  cbn [fst snd] in H1, H2. subst ok'. destruct ok; [apply IH, H1 | split; [exact H1 | reflexivity]].
Qed.
Lemma forward_rel m m' prev prev' cl cl' ext ext' e e' :
  m_rel m m' -> senv_rel prev prev' -> opt_rel cl cl' -> opt_rel ext ext' -> senv_rel e e' ->
  res_rel (ModelSem.forward m prev cl ext e) (ModelSem.forward m' prev' cl' ext' e').
Proof. intros Hm Hp Hc Hx He. unfold ModelSem.forward. apply forward_from_rel; try assumption. apply Hm. Qed.

Lemma find_nd_rel ds ds' n : Forall2 nd_rel ds ds' ->
  match find (fun d => Nat.eqb (nid d) n) ds, find (fun d => Nat.eqb (nid d) n) ds' with
  | Some d, Some d' => nd_rel d d'
  | None, None => True
  | _, _ => False
  end.
Proof.
  induction 1 as [|d d' l l' Hd _ IH]; [exact I|]. cbn [find]. pose proof Hd as (Hi & _). rewrite Hi.
  destruct (nid d =? n); [exact Hd | exact IH].
Qed.
Lemma forced_value_rel forced forced' d d' : opt_rel forced forced' -> nd_rel d d' ->
  forced_value forced' d' = option_map ev (forced_value forced d).
Proof.
  intros Hf (Hi & Hb & _ & _). unfold forced_value. rewrite Hi, Hb, (Hf (nid d)). destruct (forced (nid d)); [reflexivity|].
  cbn [option_map]. destruct (nfb d) as [[s|o]|]; [apply Hf | reflexivity | reflexivity].
Qed.
Lemma clamps_rel m m' forced forced' : m_rel m m' -> opt_rel forced forced' -> opt_rel (clamps m forced) (clamps m' forced').
Proof.
  intros [Ho _] Hf n. unfold clamps. pose proof (find_nd_rel (order m) (order m') n Ho) as Hx.
  destruct (find (fun d => Nat.eqb (nid d) n) (order m)) as [d|]; destruct (find (fun d => Nat.eqb (nid d) n) (order m')) as [d'|];
    try contradiction; [|reflexivity].
  pose proof Hx as (_ & Hb & _). rewrite Hb. destruct (nfb d); [apply forced_value_rel; assumption | reflexivity].
Qed.
Lemma proxies_rel m m' forced forced' prev prev' : m_rel m m' -> opt_rel forced forced' -> senv_rel prev prev' ->
  senv_rel (proxies m forced prev) (proxies m' forced' prev').
Proof.
  intros [Ho _] Hf Hp n. unfold proxies. pose proof (find_nd_rel (order m) (order m') n Ho) as Hx.
  destruct (find (fun d => Nat.eqb (nid d) n) (order m)) as [d|]; destruct (find (fun d => Nat.eqb (nid d) n) (order m')) as [d'|];
    try contradiction; [|apply Hp].
  destruct Hx as (_ & Hb & _). rewrite Hb, (Hf n). destruct (nfb d); [apply Hp|].
  destruct (forced n); cbn [option_map]; [|apply Hp]. rewrite (Hp n). reflexivity.
Qed.
Lemma start_env_rel m m' reset from from' : m_rel m m' -> opt_rel from from' ->
  forall e e', senv_rel e e' -> senv_rel (start_env m reset from e) (start_env m' reset from' e').
Proof.
  intros [Ho _] Hf. unfold start_env. induction Ho as [|d d' l l' Hd _ IH]; intros e e' He; [exact He|]. cbn [fold_left]. apply IH.
  destruct Hd as (Hi & _ & Hod & _). rewrite Hi, Hod, (Hf (nid d)). destruct (from (nid d)); cbn [option_map]; [apply set_st_rel, He|].
  destruct reset; [rewrite <- (ev_vzeros phi); apply set_st_rel, He | exact He].
Qed.
Lemma em_dispatch_fb b z ys : em (dispatch_fb b z ys) = dispatch_fb b (ev z) (em ys).
Proof.
  destruct b; cbn [dispatch_fb]; [|reflexivity]. destruct ys as [|y ys]; [reflexivity|]. cbn [shift_with map]. f_equal.
  change (ev y :: em ys) with (em (y :: ys)). apply map_removelast.
Qed.

(* ---- model/FitFb.v ---- *)
Definition erd (r : rdesc (F:=F)) : rdesc (F:=G) := mkRD (rd_id r) (rd_bias r) (phi (rd_lam r)) (rd_dout r).
Definition fm_rel (fm : fmodel (F:=F)) (fm' : fmodel (F:=G)) : Prop :=
  Forall2 nd_rel (fm_nodes fm) (fm_nodes fm') /\ fm_graph fm' = fm_graph fm /\ fm_rds fm' = map erd (fm_rds fm).
Local Notation epars := (emap (option_map (epar phi))).

Lemma find_rd_rel fm fm' v : fm_rel fm fm' -> find_rd fm' v = option_map erd (find_rd fm v).
Proof.
  intros (_ & _ & Hr). unfold find_rd. rewrite Hr. clear Hr. induction (fm_rds fm) as [|r l IH]; [reflexivity|]. cbn [map find erd rd_id].
  destruct (rd_id r =? v); [reflexivity | exact IH].
Qed.
Lemma rd_nd_rel d d' r Wb : nd_rel d d' -> nd_rel (rd_nd d r Wb) (rd_nd d' (erd r) (epar phi Wb)).
Proof.
  intros (Hi & Hb & Ho & _). unfold rd_nd. repeat split; cbn [nid nfb ModelSem.odim nfwd]; try assumption.
  intros s h x fb. cbn [ekres option_map fst snd erd rd_dout epar]. rewrite (ev_forward phi). reflexivity.
Qed.
Lemma node_with_rel fm fm' ps d d' : fm_rel fm fm' -> nd_rel d d' -> nd_rel (node_with fm ps d) (node_with fm' (epars ps) d').
Proof.
  intros Hfm Hd. pose proof Hd as (Hi & _). unfold node_with, rparams in *. rewrite Hi, (find_rd_rel fm fm' _ Hfm), lookup_emap.
  destruct (find_rd fm (nid d)) as [r|]; cbn [option_map]; [|exact Hd].
  destruct (lookup ps (nid d)) as [[Wb|]|]; cbn [option_map]; [apply rd_nd_rel, Hd | exact Hd | exact Hd].
Qed.
Lemma full_model_rel fm fm' : fm_rel fm fm' -> m_rel (full_model fm) (full_model fm').
Proof. intros (Hn & Hg & _). split; [exact Hn|]. intros n. cbn [full_model ModelSem.parents]. rewrite Hg. reflexivity. Qed.
Lemma sub_model_rel fm fm' ps fwdn fedges : fm_rel fm fm' -> m_rel (sub_model fm ps fwdn fedges) (sub_model fm' (epars ps) fwdn fedges).
Proof.
  intros Hfm. pose proof Hfm as (Hn & _). split; [|reflexivity]. cbn [sub_model order].
  induction Hn as [|d d' l l' Hd _ IH]; [constructor|]. cbn [filter]. pose proof Hd as (Hi & _). rewrite Hi.
  destruct (mem (nid d) fwdn); [|exact IH]. cbn [map]. constructor; [apply node_with_rel; assumption | exact IH].
Qed.

Definition sd_rel (a : stepdata (F:=F)) (b : stepdata (F:=G)) : Prop := opt_rel (fst a) (fst b) /\ opt_rel (snd a) (snd b).
Definition run_rel (r : @env F * list (@env F) * bool) (r' : @env G * list (@env G) * bool) : Prop :=
  senv_rel (fst (fst r)) (fst (fst r')) /\ Forall2 senv_rel (snd (fst r)) (snd (fst r')) /\ snd r' = snd r.
Lemma run_sub_rel full full' sub sub' steps steps' : m_rel full full' -> m_rel sub sub' -> Forall2 sd_rel steps steps' ->
  forall e e', senv_rel e e' -> run_rel (run_sub full sub steps e) (run_sub full' sub' steps' e').
Proof.
  intros Hf Hs. induction 1 as [|[ext forced] [ext' forced'] l l' [Hx Hfo] _ IH]; intros e e' He;
    [repeat split; [exact He | constructor]|].
  cbn [fst snd] in Hx, Hfo. cbn [run_sub].
  pose proof (forward_rel sub sub' _ _ _ _ ext ext' e e' Hs (proxies_rel full full' forced forced' e e' Hf Hfo He)
                          (clamps_rel full full' forced forced' Hf Hfo) Hx He) as [H1 H2].
  destruct (ModelSem.forward sub (proxies full forced e) (clamps full forced) ext e) as [e1 ok].
  destruct (ModelSem.forward sub' (proxies full' forced' e') (clamps full' forced') ext' e') as [e1' ok'].
  cbn [fst snd] in H1, H2. subst ok'. destruct ok; [|repeat split; [exact H1 | constructor]].
  specialize (IH e1 e1' H1). destruct (run_sub full sub l e1) as [[e2 es] ok2]. destruct (run_sub full' sub' l' e1') as [[e2' es'] ok2'].
  destruct IH as (A & B & C). cbn [fst snd] in *. repeat split; [exact A | constructor; assumption | exact C].
Qed.

Lemma seq_rows_rel (m : list (nat * list (list (list F)))) j v : seq_rows (emap ed m) j v = option_map em (seq_rows m j v).
Proof. unfold seq_rows. rewrite lookup_emap. destruct (lookup m v) as [d|]; cbn [option_map]; [apply nth_error_map' | reflexivity]. Qed.
Lemma shifted_rel (rows : list (list F)) : shifted (em rows) = em (shifted rows).
Proof.
  unfold shifted. rewrite em_dispatch_fb. f_equal. destruct rows as [|r l]; cbn [hd map]; [symmetry; apply (ev_vzeros phi)|].
  rewrite map_length, (ev_vzeros phi). reflexivity.
Qed.
Lemma forced_at_rel force Y j t : opt_rel (forced_at force Y j t) (forced_at force (emap ed Y) j t).
Proof.
  intros n. unfold forced_at. destruct force; [|reflexivity]. rewrite seq_rows_rel.
  destruct (seq_rows Y j n) as [rows|]; cbn [option_map]; [|reflexivity]. rewrite shifted_rel. apply nth_error_map'.
Qed.
Lemma ext_at_rel fwdn Xs j t : opt_rel (ext_at fwdn Xs j t) (ext_at fwdn (emap ed Xs) j t).
Proof.
  intros v. unfold ext_at. destruct (mem v fwdn); [|reflexivity]. rewrite seq_rows_rel.
  destruct (seq_rows Xs j v) as [rows|]; cbn [option_map]; [apply nth_error_map' | reflexivity].
Qed.
Lemma fit_steps_rel force fwdn Xs Y j T : Forall2 sd_rel (fit_steps force fwdn Xs Y j T) (fit_steps force fwdn (emap ed Xs) (emap ed Y) j T).
Proof.
  unfold fit_steps. induction (seq 0 T) as [|t l IH]; [constructor|]. cbn [map]. constructor; [|exact IH].
  split; [apply ext_at_rel | apply forced_at_rel].
Qed.

Definition runs_rel (r : @env F * list (list (@env F)) * bool) (r' : @env G * list (list (@env G)) * bool) : Prop :=
  senv_rel (fst (fst r)) (fst (fst r')) /\ Forall2 (Forall2 senv_rel) (snd (fst r)) (snd (fst r')) /\ snd r' = snd r.
Lemma run_seqs_rel full full' sub sub' force reset fwdn Xs Y lens : m_rel full full' -> m_rel sub sub' ->
  forall j e e', senv_rel e e' ->
  runs_rel (run_seqs full sub force reset fwdn Xs Y lens j e) (run_seqs full' sub' force reset fwdn (emap ed Xs) (emap ed Y) lens j e').
Proof.
  intros Hf Hs. induction lens as [|T rest IH]; intros j e e' He; [repeat split; [exact He | constructor]|].
  cbn [run_seqs]. cbv zeta.
  assert (H0 : senv_rel (start_env full reset (fun _ => None) e) (start_env full' reset (fun _ => None) e'))
    by (apply start_env_rel; [exact Hf | intros n; reflexivity | exact He]).
  pose proof (run_sub_rel full full' sub sub' _ _ Hf Hs (fit_steps_rel force fwdn Xs Y j T) _ _ H0) as (A & B & C).
  destruct (run_sub full sub (fit_steps force fwdn Xs Y j T) (start_env full reset (fun _ => None) e)) as [[e1 es] ok].
  destruct (run_sub full' sub' (fit_steps force fwdn (emap ed Xs) (emap ed Y) j T) (start_env full' reset (fun _ => None) e')) as [[e1' es'] ok'].
  cbn [fst snd] in A, B, C. subst ok'. destruct ok; [|repeat split; [exact A | constructor]].
  specialize (IH (S j) e1 e1' A). destruct (run_seqs full sub force reset fwdn Xs Y rest (S j) e1) as [[e2 ess] ok2].
  destruct (run_seqs full' sub' force reset fwdn (emap ed Xs) (emap ed Y) rest (S j) e1') as [[e2' ess'] ok2'].
  destruct IH as (A2 & B2 & C2). cbn [fst snd] in *. repeat split; [exact A2 | constructor; assumption | exact C2].
Qed.
Lemma traj_of_rel ess ess' v : Forall2 (Forall2 senv_rel) ess ess' -> traj_of ess' v = ed (traj_of ess v).
Proof.
  unfold traj_of. induction 1 as [|es es' l l' He _ IH]; [reflexivity|]. cbn [map]. f_equal; [|exact IH].
  induction He as [|e e' r r' Hee _ IH2]; [reflexivity|]. cbn [map]. rewrite (Hee v), IH2. reflexivity.
Qed.

Section FbSolve.
Variables (solveF : list (list F) -> list (list F) -> list (list F)) (solveG : list (list G) -> list (list G) -> list (list G)).
Hypothesis Hsolve : forall A B, em (solveF A B) = solveG (em A) (em B).

Lemma rd_fit_rel fm fm' w v ins y : fm_rel fm fm' ->
  option_map (epar phi) (rd_fit solveF fm w v ins y) = rd_fit solveG fm' w v (map ed ins) (ed y).
Proof.
  intros Hfm. unfold rd_fit. rewrite (find_rd_rel fm fm' v Hfm). destruct (find_rd fm v) as [r|]; cbn [option_map]; [|reflexivity].
  destruct ins as [|x [|x2 l]]; cbn [map]; try reflexivity. cbn [erd rd_bias rd_lam rd_dout].
  change (length (hd [] (hd [] (ed x)))) with (g_din_of (ed x)). rewrite (g_din_of_emb phi). apply (e_fit phi solveF solveG Hsolve).
Qed.

Definition fbst_rel (s : fbstate (F:=F)) (s' : fbstate (F:=G)) : Prop :=
  let '(e, Xs, ps, tr, log) := s in
  let '(e', Xs', ps', tr', log') := s' in
  senv_rel e e' /\ Xs' = emap ed Xs /\ ps' = epars ps /\ tr' = tr /\ log' = map (emap ed) log.
Definition ofb_rel (o : option (fbstate (F:=F))) (o' : option (fbstate (F:=G))) : Prop :=
  match o, o' with Some s, Some s' => fbst_rel s s' | None, None => True | _, _ => False end.

Lemma run_stage_fb_rel fm fm' Y w force reset lens st st' s : fm_rel fm fm' -> ofb_rel st st' ->
  ofb_rel (run_stage_fb solveF fm Y w force reset lens st s) (run_stage_fb solveG fm' (emap ed Y) w force reset lens st' s).
Proof.
  intros Hfm Hst. destruct st as [[[[[e Xs] ps] trained] log]|]; destruct st' as [[[[[e' Xs'] ps'] trained'] log']|]; try contradiction; [|exact I].
  destruct Hst as (He & -> & -> & -> & ->). pose proof Hfm as (_ & Hg & _). unfold run_stage_fb. cbv zeta. rewrite Hg.
  set (offl := filter (fun n => offline (fm_graph fm) n && negb (mem n trained)) (s_nodes s)).
  set (fwdn := filter (fun n => negb (mem n offl)) (s_nodes s)).
  set (fedges := filter (fun ed0 => negb (mem (snd ed0) offl)) (s_edges s)).
  assert (Hfin : forall e1 e1' tr dm, senv_rel e1 e1' ->
            ofb_rel match fit_nodes _ (option (list (list F) * list F)) (rd_fit solveF fm w) Y dm offl with
                    | Some newp => Some (e1, dm ++ Xs, newp ++ ps, offl ++ trained, log ++ [tr]) | None => None end
                    match fit_nodes _ (option (list (list G) * list G)) (rd_fit solveG fm' w) (emap ed Y) (emap ed dm) offl with
                    | Some newp => Some (e1', emap ed dm ++ emap ed Xs, newp ++ epars ps, offl ++ trained, map (emap ed) log ++ [emap ed tr])
                    | None => None end).
  { intros e1 e1' tr dm H1.
    rewrite <- (f_fit_nodes _ _ _ _ ed (option_map (epar phi)) (rd_fit solveF fm w) (rd_fit solveG fm' w)
                            (fun v ins y => rd_fit_rel fm fm' w v ins y Hfm) Y dm offl).
    destruct (fit_nodes _ (option (list (list F) * list F)) (rd_fit solveF fm w) Y dm offl) as [newp|]; cbn [option_map]; [|exact I].
    cbn [ofb_rel fbst_rel]. rewrite !emap_app, map_app. repeat split; try reflexivity. exact H1. }
  destruct fwdn as [|n0 fw] eqn:Efw.
  - apply (Hfin e e' [] Xs He).
  - rewrite <- Efw. clear Efw.
    pose proof (run_seqs_rel _ _ _ _ force reset fwdn Xs Y lens (full_model_rel fm fm' Hfm) (sub_model_rel fm fm' ps fwdn fedges Hfm) 0 e e' He)
      as (A & B & C).
    destruct (run_seqs (full_model fm) (sub_model fm ps fwdn fedges) force reset fwdn Xs Y lens 0 e) as [[e1 ess] ok].
    destruct (run_seqs (full_model fm') (sub_model fm' (epars ps) fwdn fedges) force reset fwdn (emap ed Xs) (emap ed Y) lens 0 e') as [[e1' ess'] ok'].
    cbn [fst snd] in A, B, C. subst ok'. destruct ok; [|exact I].
    assert (Etr : map (fun v => (v, traj_of ess' v)) fwdn = emap ed (map (fun v => (v, traj_of ess v)) fwdn)).
    { unfold emap. rewrite map_map. apply map_ext. intros v. cbn [fst snd]. rewrite (traj_of_rel ess ess' v B). reflexivity. }
    rewrite Etr, <- (f_dist_states _ _ ed).
    destruct (dist_states _ (map (fun v => (v, traj_of ess v)) fwdn) (s_rel s)) as [dm|]; cbn [option_map]; [|exact I].
    apply (Hfin e1 e1' _ dm A).
Qed.
Theorem fit_fb_rel fm fm' stg X Y w force reset lens e e' : fm_rel fm fm' -> senv_rel e e' ->
  ofb_rel (fit_fb solveF fm stg X Y w force reset lens e) (fit_fb solveG fm' stg (emap ed X) (emap ed Y) w force reset lens e').
Proof.
  intros Hfm He. unfold fit_fb.
  assert (H0 : ofb_rel (Some (e, X, [], [], [])) (Some (e', emap ed X, [], [], []))) by (repeat split; exact He).
  revert H0. generalize (Some (e, X, @nil (nat * rparams (F:=F)), @nil nat, @nil (list (nat * list (list (list F)))))).
  generalize (Some (e', emap ed X, @nil (nat * rparams (F:=G)), @nil nat, @nil (list (nat * list (list (list G)))))).
  induction stg as [|s l IH]; intros st' st Hst; [exact Hst|]. cbn [fold_left]. apply IH, run_stage_fb_rel; assumption.
Qed.

(* ---- ESN.fit ---- *)
Lemma esn_full_rel dres dres' drd drd' : nd_rel dres dres' -> nd_rel drd drd' -> m_rel (esn_full dres drd) (esn_full dres' drd').
Proof.
  intros H1 H2. split; [constructor; [exact H1 | constructor; [exact H2 | constructor]]|]. intros n. cbn [esn_full ModelSem.parents].
  destruct H1 as (E1 & _), H2 as (E2 & _). rewrite E1, E2. reflexivity.
Qed.
Lemma esn_sub_rel dres dres' : nd_rel dres dres' -> m_rel (esn_sub dres) (esn_sub dres').
Proof. intros H1. split; [constructor; [exact H1 | constructor] | reflexivity]. Qed.
Lemma esn_run_rel full full' sub sub' steps steps' : m_rel full full' -> m_rel sub sub' -> Forall2 sd_rel steps steps' ->
  forall e e', senv_rel e e' -> run_rel (esn_run full sub steps e) (esn_run full' sub' steps' e').
Proof.
  intros Hf Hs. induction 1 as [|[ext forced] [ext' forced'] l l' [Hx Hfo] _ IH]; intros e e' He;
    [repeat split; [exact He | constructor]|].
  cbn [fst snd] in Hx, Hfo. cbn [esn_run].
  assert (Hn : opt_rel (fun _ => None) (fun _ => None)) by (intros n; reflexivity).
  pose proof (forward_rel sub sub' _ _ _ _ ext ext' e e' Hs (proxies_rel full full' forced forced' e e' Hf Hfo He) Hn Hx He) as [H1 H2].
  destruct (ModelSem.forward sub (proxies full forced e) (fun _ => None) ext e) as [e1 ok].
  destruct (ModelSem.forward sub' (proxies full' forced' e') (fun _ => None) ext' e') as [e1' ok'].
  cbn [fst snd] in H1, H2. subst ok'. destruct ok; [|repeat split; [exact H1 | constructor]].
  specialize (IH e1 e1' H1). destruct (esn_run full sub l e1) as [[e2 es] ok2]. destruct (esn_run full' sub' l' e1') as [[e2' es'] ok2'].
  destruct IH as (A & B & C). cbn [fst snd] in *. repeat split; [exact A | constructor; assumption | exact C].
Qed.
Lemma esn_seq_rel dres dres' drd drd' X Y e e' j T : nd_rel dres dres' -> nd_rel drd drd' -> senv_rel e e' ->
  Forall2 senv_rel (fst (esn_seq dres drd X Y e j T)) (fst (esn_seq dres' drd' (emap ed X) (emap ed Y) e' j T)) /\
  snd (esn_seq dres' drd' (emap ed X) (emap ed Y) e' j T) = snd (esn_seq dres drd X Y e j T).
Proof.
  intros H1 H2 He. unfold esn_seq. cbv zeta. pose proof H1 as (Hi & _ & Ho & _). rewrite Hi, Ho, <- (ev_vzeros phi).
  pose proof (esn_run_rel _ _ _ _ _ _ (esn_full_rel _ _ _ _ H1 H2) (esn_sub_rel _ _ H1) (fit_steps_rel true [nid dres] X Y j T) _ _
                          (set_st_rel e e' (nid dres) (vzeros (ModelSem.odim dres)) He)) as (A & B & C).
  destruct (esn_run (esn_full dres drd) (esn_sub dres) (fit_steps true [nid dres] X Y j T) _) as [[e1 es] ok].
  destruct (esn_run (esn_full dres' drd') (esn_sub dres') (fit_steps true [nid dres] (emap ed X) (emap ed Y) j T) _) as [[e1' es'] ok'].
  cbn [fst snd] in *. split; assumption.
Qed.
Lemma esn_seqs_rel dres dres' drd drd' X Y e e' lens : nd_rel dres dres' -> nd_rel drd drd' -> senv_rel e e' -> forall j,
  Forall2 (Forall2 senv_rel) (fst (esn_seqs dres drd X Y e lens j)) (fst (esn_seqs dres' drd' (emap ed X) (emap ed Y) e' lens j)) /\
  snd (esn_seqs dres' drd' (emap ed X) (emap ed Y) e' lens j) = snd (esn_seqs dres drd X Y e lens j).
Proof.
  intros H1 H2 He. induction lens as [|T rest IH]; intros j; [split; [constructor | reflexivity]|]. cbn [esn_seqs].
  pose proof (esn_seq_rel dres dres' drd drd' X Y e e' j T H1 H2 He) as [A B].
  destruct (esn_seq dres drd X Y e j T) as [es ok]. destruct (esn_seq dres' drd' (emap ed X) (emap ed Y) e' j T) as [es' ok'].
  cbn [fst snd] in A, B. subst ok'. destruct ok; [|split; [constructor | reflexivity]].
  specialize (IH (S j)). destruct (esn_seqs dres drd X Y e rest (S j)) as [ess ok2].
  destruct (esn_seqs dres' drd' (emap ed X) (emap ed Y) e' rest (S j)) as [ess' ok2'].
  cbn [fst snd] in *. destruct IH as [A2 B2]. split; [constructor; assumption | exact B2].
Qed.
Theorem esn_fit_rel dres dres' drd drd' r X Y w lens e e' : nd_rel dres dres' -> nd_rel drd drd' -> senv_rel e e' ->
  option_map (fun p => (option_map (epar phi) (fst p), ed (snd p))) (esn_fit solveF dres drd r X Y w lens e)
  = esn_fit solveG dres' drd' (erd r) (emap ed X) (emap ed Y) w lens e'.
Proof.
  intros H1 H2 He. unfold esn_fit. pose proof (esn_seqs_rel dres dres' drd drd' X Y e e' lens H1 H2 He 0) as [A B].
  destruct (esn_seqs dres drd X Y e lens 0) as [ess ok]. destruct (esn_seqs dres' drd' (emap ed X) (emap ed Y) e' lens 0) as [ess' ok'].
  cbn [fst snd] in A, B. subst ok'. destruct ok; [|reflexivity]. cbv zeta.
  destruct H1 as (E1 & _), H2 as (E2 & _). rewrite E1, E2, (traj_of_rel ess ess' _ A), lookup_emap.
  destruct (lookup Y (nid drd)) as [y|]; cbn [option_map fst snd]; [|reflexivity]. do 2 f_equal. cbn [erd rd_bias rd_lam rd_dout].
  change (length (hd [] (hd [] (ed (traj_of ess (nid dres)))))) with (g_din_of (ed (traj_of ess (nid dres)))).
  rewrite (g_din_of_emb phi). apply (e_fit phi solveF solveG Hsolve).
Qed.
End FbSolve.
End BridgeFb.

(* ---- the instance Q -> R and the verdicts of chk_fit_fb / chk_esn_fit ---- *)

Definition fn_ndR (n : fbnode) : ndesc (F:=R) :=
  mkND (fn_id n) (match fn_kind n with Some k => kfwd (ekind Q2R k) | None => fun _ _ _ _ => None end) (fn_fb n) (fn_odim n).
Definition fb_env0R (nodes : list fbnode) : env (F:=R) :=
  fun v => match find (fun n => fn_id n =? v) nodes with
           | Some n => mkNS (vzeros (fn_odim n)) []
           | None => mkNS [] []
           end.
Definition fmR (nodes : list fbnode) (g : graph) (rds : list (rdesc (F:=Q))) : fmodel (F:=R) := mkFM (map fn_ndR nodes) g (map (erd Q2R) rds).
Definition flat_trajP {A : Type} (log : list (list (nat * list (list (list A))))) (v : nat) : list (list A) :=
  concat (map (fun tr => match lookup tr v with Some d => concat d | None => [] end) log).
Lemma flat_traj_twin : flat_traj = flat_trajP (A:=Q).   Proof. reflexivity. Qed.
Lemma flat_trajP_map {A B} (f : A -> B) log v : map (map f) (flat_trajP log v) = flat_trajP (map (emap (map (map (map f)))) log) v.
Proof.
  unfold flat_trajP. rewrite concat_map, !map_map. f_equal. apply map_ext. intros tr. rewrite lookup_emap.
  destruct (lookup tr v); cbn [option_map]; [apply concat_map | reflexivity].
Qed.
Lemma fn_nd_rel n : nd_rel Q2R (fn_nd n) (fn_ndR n).
Proof.
  repeat split. intros s h x fb. cbn [fn_nd fn_ndR nfwd]. destruct (fn_kind n) as [k|]; [apply (e_kfwd Q2R) | reflexivity].
Qed.
Lemma fb_env0_rel nodes : senv_rel Q2R (fb_env0 nodes) (fb_env0R nodes).
Proof.
  intros v. unfold fb_env0, fb_env0R. destruct (find (fun n => fn_id n =? v) nodes); unfold ens; cbn [st hid map]; [|reflexivity].
  rewrite (ev_vzeros Q2R). reflexivity.
Qed.
Lemma fm_relR nodes g rds : fm_rel Q2R (mkFM (map fn_nd nodes) g rds) (fmR nodes g rds).
Proof.
  repeat split. cbn [fm_nodes fmR]. induction nodes as [|n l IH]; cbn [map]; constructor; [apply fn_nd_rel | exact IH].
Qed.

Lemma chk_fit_fb_is_about_R_model (solveR : list (list R) -> list (list R) -> list (list R))
      (nodes : list fbnode) (rds : list (rdesc (F:=Q))) (g : graph) (X Y : list (nat * qd)) (w : nat)
      (force reset : bool) (lens : list nat) (obs_stg : list stage) (obs_traj : list (nat * qm)) (obs : list (nat * (qm * qv))) :
  (forall A B, qm2r (qsolve_tot A B) = solveR (qm2r A) (qm2r B)) ->
  chk_fit_fb nodes rds g X Y w force reset lens obs_stg obs_traj obs = true ->
  (exists stg, get_offline_subgraphs g = Some stg /\ stages_eqb stg obs_stg = true) /\
  exists eR XsR psR trR logR,
    fit_fb solveR (fmR nodes g rds) obs_stg (emap qd2r X) (emap qd2r Y) w force reset lens (fb_env0R nodes) = Some (eR, XsR, psR, trR, logR) /\
    (forall o, In o obs -> param_closeR (lookup psR (fst o)) (fst (snd o)) (snd (snd o))) /\
    (forall o, In o obs_traj -> mrclose (flat_trajP logR (fst o)) (qm2r (snd o))).
Proof.
  intros Hs. unfold chk_fit_fb. intros Hx. apply andb_true_iff in Hx. destruct Hx as [H1 H2]. split.
  - destruct (get_offline_subgraphs g) as [stg|]; [|discriminate]. exists stg. split; [reflexivity | exact H1].
  - pose proof (fit_fb_rel Q2R qsolve_tot solveR Hs _ _ obs_stg X Y w force reset lens _ _ (fm_relR nodes g rds) (fb_env0_rel nodes)) as Hr.
    destruct (fit_fb qsolve_tot (mkFM (map fn_nd nodes) g rds) obs_stg X Y w force reset lens (fb_env0 nodes)) as [[[[[e Xs] ps] tr] log]|];
      [|discriminate].
    destruct (fit_fb solveR (fmR nodes g rds) obs_stg (emap qd2r X) (emap qd2r Y) w force reset lens (fb_env0R nodes))
      as [[[[[eR XsR] psR] trR] logR]|]; [|contradiction].
    destruct Hr as (_ & _ & -> & _ & ->). exists eR, XsR, (emap par2r ps), trR, (map (emap qd2r) log). split; [reflexivity|].
    apply andb_true_iff in H2. destruct H2 as [H3 H4]. split; [apply params_close_R, H3|].
    intros o Ho. rewrite <- flat_trajP_map. apply mclose_mrclose. exact (proj1 (forallb_forall _ _) H4 o Ho).
Qed.

Lemma chk_esn_fit_is_about_R_model (solveR : list (list R) -> list (list R) -> list (list R))
      (res rdn : fbnode) (r : rdesc (F:=Q)) (X Y : list (nat * qd)) (w : nat) (lens : list nat) (obs_traj : qm) (W : qm) (b : qv) :
  (forall A B, qm2r (qsolve_tot A B) = solveR (qm2r A) (qm2r B)) ->
  chk_esn_fit res rdn r X Y w lens obs_traj W b = true ->
  let g := mkG [fn_id res; fn_id rdn] [(fn_id res, fn_id rdn)] [fn_id rdn] in
  (exists pR xR, esn_fit solveR (fn_ndR res) (fn_ndR rdn) (erd Q2R r) (emap qd2r X) (emap qd2r Y) w lens (fb_env0R [res; rdn]) = Some (pR, xR) /\
                 param_closeR (Some pR) W b /\ mrclose (concat xR) (qm2r obs_traj)) /\
  (exists stg eR XsR psR trR logR,
     get_offline_subgraphs g = Some stg /\
     fit_fb solveR (fmR [res; rdn] g [r]) stg (emap qd2r X) (emap qd2r Y) w true true lens (fb_env0R [res; rdn]) = Some (eR, XsR, psR, trR, logR) /\
     param_closeR (lookup psR (fn_id rdn)) W b /\ mrclose (flat_trajP logR (fn_id res)) (qm2r obs_traj)).
Proof.
  intros Hs. unfold chk_esn_fit. cbv zeta. intros Hx. apply andb_true_iff in Hx. destruct Hx as [H1 H2]. split.
  - pose proof (esn_fit_rel Q2R qsolve_tot solveR Hs _ _ _ _ r X Y w lens _ _ (fn_nd_rel res) (fn_nd_rel rdn) (fb_env0_rel [res; rdn])) as E.
    destruct (esn_fit qsolve_tot (fn_nd res) (fn_nd rdn) r X Y w lens (fb_env0 [res; rdn])) as [[p x]|]; [|discriminate].
    cbn [option_map fst snd] in E. exists (par2r p), (qd2r x). split; [symmetry; exact E|].
    apply andb_true_iff in H1. destruct H1 as [H3 H4]. split; [apply (param_close_R (Some p)), H3|].
    rewrite <- concat_map. apply mclose_mrclose, H4.
  - destruct (get_offline_subgraphs (mkG [fn_id res; fn_id rdn] [(fn_id res, fn_id rdn)] [fn_id rdn])) as [stg|]; [|discriminate].
    pose proof (fit_fb_rel Q2R qsolve_tot solveR Hs _ _ stg X Y w true true lens _ _
                           (fm_relR [res; rdn] (mkG [fn_id res; fn_id rdn] [(fn_id res, fn_id rdn)] [fn_id rdn]) [r]) (fb_env0_rel [res; rdn])) as Hr.
    cbn [map] in Hr.
    destruct (fit_fb qsolve_tot (mkFM [fn_nd res; fn_nd rdn] _ [r]) stg X Y w true true lens (fb_env0 [res; rdn])) as [[[[[e Xs] ps] tr] log]|];
      [|discriminate].
    destruct (fit_fb solveR (fmR [res; rdn] _ [r]) stg (emap qd2r X) (emap qd2r Y) w true true lens (fb_env0R [res; rdn]))
      as [[[[[eR XsR] psR] trR] logR]|] eqn:ER; [|contradiction].
    destruct Hr as (_ & _ & -> & _ & ->). exists stg, eR, XsR, (emap par2r ps), trR, (map (emap qd2r) log).
    split; [reflexivity|]. split; [exact ER|]. apply andb_true_iff in H2. destruct H2 as [H3 H4].
    split; [rewrite lookup_emap; apply param_close_R, H3 | rewrite <- flat_trajP_map; apply mclose_mrclose, H4].
Qed.

(* non-vacuity: a one-unit reservoir (hard-tanh, leak 1/2) with a feedback connection from its Ridge readout, teacher forcing, one
   sequence of three rows -- through Model.fit and through ESN.fit *)
Definition exC06_res : fbnode :=
  mkFN 0 (Some (KResFb [[(1#2)%Q]] [[(1#1)%Q]] [(1#4)%Q] [(1#2)%Q] AHardTanh [[(1#2)%Q]] AId)) (Some (FbNode 1)) 1.
Definition exC06_rd : fbnode := mkFN 1 None None 1.
Definition exC06_r : rdesc (F:=Q) := mkRD 1 true (1#2)%Q 1.
Example chk_fit_fb_example :
  chk_fit_fb [exC06_res; exC06_rd] [exC06_r] exC06_g exC06_X0 exC06_Y0 0 true false [3] [mkStage [0; 1] [(0, 1)] [(0, [1])]]
             [(0, [[(3#8)%Q]; [(11#16)%Q]; [(41#64)%Q]])] [(1, ([[(1664#3985)%Q]], [(2606#3985)%Q]))] = true.
Proof. vm_compute. reflexivity. Qed.
Example chk_esn_fit_example :
  chk_esn_fit exC06_res exC06_rd exC06_r exC06_X0 exC06_Y0 0 [3] [[(3#8)%Q]; [(11#16)%Q]; [(41#64)%Q]] [[(1664#3985)%Q]] [(2606#3985)%Q] = true.
Proof. vm_compute. reflexivity. Qed.

(* Model.fit with feedback / ESN.fit at Q, embedded = the same at R on the embedded data (same success flag; final environment
   point-wise, datasets, parameters, trained set and per-stage trajectories embedded), for any pair of related solvers *)
Lemma Qfit_fb_embeds (solveR : list (list R) -> list (list R) -> list (list R)) (nodes : list fbnode) (rds : list (rdesc (F:=Q)))
      (g : graph) (stg : list stage) (X Y : list (nat * qd)) (w : nat) (force reset : bool) (lens : list nat) :
  (forall A B, qm2r (qsolve_tot A B) = solveR (qm2r A) (qm2r B)) ->
  ofb_rel Q2R (fit_fb qsolve_tot (mkFM (map fn_nd nodes) g rds) stg X Y w force reset lens (fb_env0 nodes))
              (fit_fb solveR (fmR nodes g rds) stg (emap qd2r X) (emap qd2r Y) w force reset lens (fb_env0R nodes)).
Proof. intros Hs. apply (fit_fb_rel Q2R qsolve_tot solveR Hs); [apply fm_relR | apply fb_env0_rel]. Qed.
Lemma Qesn_fit_embeds (solveR : list (list R) -> list (list R) -> list (list R)) (res rdn : fbnode) (r : rdesc (F:=Q))
      (X Y : list (nat * qd)) (w : nat) (lens : list nat) :
  (forall A B, qm2r (qsolve_tot A B) = solveR (qm2r A) (qm2r B)) ->
  option_map (fun p => (par2r (fst p), qd2r (snd p))) (esn_fit qsolve_tot (fn_nd res) (fn_nd rdn) r X Y w lens (fb_env0 [res; rdn]))
  = esn_fit solveR (fn_ndR res) (fn_ndR rdn) (erd Q2R r) (emap qd2r X) (emap qd2r Y) w lens (fb_env0R [res; rdn]).
Proof. intros Hs. apply (esn_fit_rel Q2R qsolve_tot solveR Hs); [apply fn_nd_rel | apply fn_nd_rel | apply fb_env0_rel]. Qed.
(* the relation [ofb_rel] in plain terms *)
Lemma fb_vocabulary (o : option (fbstate (F:=Q))) (o' : option (fbstate (F:=R))) :
  ofb_rel Q2R o o' <->
  match o, o' with
  | Some (e, Xs, ps, tr, log), Some (e', Xs', ps', tr', log') =>
      (forall n, e' n = mkNS (qv2r (st (e n))) (qm2r (hid (e n)))) /\ Xs' = emap qd2r Xs /\ ps' = emap par2r ps /\ tr' = tr /\
      log' = map (emap qd2r) log
  | None, None => True
  | _, _ => False
  end.
Proof. destruct o as [[[[[e Xs] ps] tr] log]|], o' as [[[[[e' Xs'] ps'] tr'] log']|]; reflexivity. Qed.
