(* Tie (T) for C17: NVAR.forward, Delay.forward and concat_forward as GENERATED on this run from the current source text of
   nodes/reservoirs/nvar.py, nodes/delay.py and nodes/concat.py (coq/gen/Gen_windows.v) are the hand-written model/Windows.v about
   which the C17 theorems are stated -- for EVERY Num instance (the equalities are structural). *)
From Coq Require Import List Bool Arith Lia.
From RV Require Import base.Num base.LA base.GenPrelude gen.Gen_windows model.Windows.
Import ListNotations.

Section GenWindowsEq.
Context {F : Type} `{Num F}.
Notation vec := (list F).

Lemma take_every_from_eq {A} (s : nat) : forall (l : list A) k, take_every_from s k l = every_from s k l.
Proof. induction l as [|a l IH]; intros k; [reflexivity|]. destruct k; cbn; now rewrite IH. Qed.
Lemma take_every_eq {A} (s : nat) (l : list A) : take_every s l = stride s l.
Proof. apply take_every_from_eq. Qed.

Lemma last_cons_any {A} (a : A) : forall (l : list A) d d', last (a :: l) d = last (a :: l) d'.
Proof. induction l as [|b l IH]; intros d d'; [reflexivity|]. change (last (a :: b :: l) d) with (last (b :: l) d).
  change (last (a :: b :: l) d') with (last (b :: l) d'). revert d d'. clear IH. induction l as [|c l IH]; intros; [reflexivity|].
  change (last (b :: c :: l) d) with (last (c :: l) d). change (last (b :: c :: l) d') with (last (c :: l) d').
  destruct l; [reflexivity|]. apply (IH d d'). Qed.

(* NVAR.forward: (output row, new store).  [idx] is node._monomial_idx; the store holds at least one row (delay * strides >= 1) *)
Lemma gen_nvar_forward_eq (order strides od : nat) (store : list vec) (x : vec) :
  store <> [] ->
  let store' := x :: removelast store in
  let lin := concat (stride strides store') in
  GenWindows.nvar_forward store strides (cwr (length lin) order) od x
  = (snd (nvar_step order strides store x), fst (nvar_step order strides store x)).
Proof.
  intros Hne store' lin. unfold GenWindows.nvar_forward, nvar_step. fold store'.
  assert (E : set_row0 (roll1 store) x = store').
  { unfold roll1, set_row0. destruct store; [congruence|reflexivity]. }
  rewrite E, take_every_eq. fold lin. cbn [fst snd]. f_equal.
  unfold vset_from, vset_prefix. rewrite firstn_app, firstn_all, Nat.sub_diag. cbn [firstn]. rewrite app_nil_r. reflexivity.
Qed.

(* Delay.forward: (output row, new buffer); the deque holds at most [delay] rows between two steps (maxlen = delay + 1) *)
Lemma gen_delay_forward_eq (delay : nat) (buf : list vec) (x : vec) :
  length buf <= delay ->
  GenWindows.delay_forward buf delay x = (snd (delay_step buf x), fst (delay_step buf x)).
Proof.
  intros Hl. unfold GenWindows.delay_forward, delay_step, dq_appendleft, dq_pop.
  rewrite firstn_all2 by (cbn; lia). cbn [fst snd]. f_equal. apply last_cons_any.
Qed.

Lemma gen_concat_forward_eq (data : list vec) : GenWindows.concat_forward data = concat_forward data.
Proof. unfold GenWindows.concat_forward, concat_forward. destruct (0 <? length data); reflexivity. Qed.
End GenWindowsEq.
