(* Tie (T) for Model._run: the GENERATED coq/gen/Gen_mrun.v (translated from reservoirpy/model.py by tools/vlib/py2coq_mrun.py on every
   run of ./check C07) against the hand model model/ModelSem.v.

   The callees of the generated loop are read in the hand model exactly as for Model.call (proofs/Gen_mcall_eq.v, Part C: with_state =
   start_env / restore_st, _load_proxys = the current states, with_feedback = the mapping in force inside the body, `_call` = one forward
   pass with the proxies / clamps in force -- Part B of that file proves the generated `_call` of Gen_mcall.v is this pass --,
   _clean_proxys leaves the states alone); dispatch pairs the inputs and the forced feedback step by step; the allocated arrays start
   without writes.  Then the generated `_run` IS run_op with reset = False on the sequence, for every stateful / from_state / selection and
   both outcomes: same final environment (restored when not stateful, also after a raise), same failure, and the rows written are, in
   order, those of the states selected in the environment after step 0, 1, .. -- the environments whose out_states run_steps records.
   No axioms. *)
From Coq Require Import List Bool Arith Lia.
From RV Require Import base.Num base.LA base.PyColl base.PyColl2 base.PyColl3 base.MCallPrelude base.MRunPrelude.
From RV Require base.CtxPrelude.
From RV Require Import gen.Gen_mrun model.ModelSem proofs.Gen_dispatch_eq proofs.Gen_mcall_eq.
Import ListNotations.

Section MRun.
Context {F : Type} `{Num F}.
Notation vec := (list F).
Notation env := (@env F).
Variable m : @model F.
Variable RS : Type.
Variable sel : RS -> env -> selstate vec.    (* what `_call` returns, read in the environment after the pass (Gen_mcall_eq: [sel_of]) *)
Variable out0 : node.                        (* submodel.output_nodes[0].name *)

(* the writes of one timestep: one row per entry of a mapping, else the row of the first output node *)
Definition entries (i : nat) (s : selstate vec) : wlog vec :=
  match s with SelMap d => map (fun kv => (fst kv, i, snd kv)) d | SelBare a => [(out0, i, a)] end.
Fixpoint log_from (rs : RS) (i : nat) (envs : list env) : wlog vec :=
  match envs with [] => [] | e :: r => entries i (sel rs e) ++ log_from rs (S i) r end.

Definition g_run (X FB : list (nat -> option vec)) (from : nat -> option vec) (stateful shift : bool) (rs : RS)
  : CtxPrelude.M cworld (wlog vec) :=
  GenMRun.Model__run cworld vec (list (nat -> option vec)) (list (nat -> option vec)) (nat -> option vec) (nat -> option vec)
    (nat -> option vec) RS
    (fun _ _ => []) (fun X FB _ => combine X FB)
    (sem_with_state m (wlog vec)) (sem_with_feedback (selstate vec)) sem_load_proxys
    (fun x rs => sem__call m (selstate vec) (sel rs) x tt) (CtxPrelude.ret out0) sem_clean_proxys
    X FB from stateful shift rs.

Lemma items_for_log (i : nat) : forall (d : sdict vec) (acc : wlog vec),
  items_for d (fun states name value => set_row states name i value) acc = acc ++ map (fun kv => (fst kv, i, snd kv)) d.
Proof.
  unfold items_for. induction d as [|[k v] d IH]; intros acc; cbn [fold_left map]; [rewrite app_nil_r; reflexivity|].
  rewrite IH. unfold set_row. rewrite <- app_assoc. reflexivity.
Qed.

(* the loop, for ANY body that does what one timestep does *)
Lemma loop_spec (rs : RS) (f : wlog vec -> nat * ((nat -> option vec) * (nat -> option vec)) -> CtxPrelude.M cworld (wlog vec)) :
  (forall acc i ext forced w,
     f acc (i, (ext, forced)) w
     = let '(e1, ok) := ModelSem.forward m (proxies m forced (prx w)) (clamps m forced) ext (cur w) in
       if ok then (mkCW e1 e1 (fbm w), CtxPrelude.Ok (acc ++ entries i (sel rs e1)))
       else (mkCW e1 (prx w) (fbm w), CtxPrelude.Exc CtxPrelude.RuntimeError)) ->
  forall l i acc w, prx w = cur w ->
    let '(w', r) := py_foldM (combine (seq i (length l)) l) f acc w in
    let '(e2, outs, ok) := run_steps m l (cur w) in
    cur w' = e2 /\ fbm w' = fbm w /\
    match r with
    | CtxPrelude.Ok s => ok = true /\ exists envs, outs = map (out_states m) envs /\ s = acc ++ log_from rs i envs
    | CtxPrelude.Exc _ => ok = false
    end.
Proof.
  intros Hf. induction l as [|[ext forced] l IH]; intros i acc w Hp.
  - cbn. repeat split. exists []. cbn. rewrite app_nil_r. split; reflexivity.
  - cbn [length seq combine py_foldM run_steps]. unfold CtxPrelude.bind at 1. rewrite Hf, Hp. unfold step.
    destruct (ModelSem.forward m (proxies m forced (cur w)) (clamps m forced) ext (cur w)) as [e1 [|]].
    + specialize (IH (S i) (acc ++ entries i (sel rs e1)) (mkCW e1 e1 (fbm w)) eq_refl). cbn [cur fbm] in IH.
      destruct (py_foldM (combine (seq (S i) (length l)) l) f (acc ++ entries i (sel rs e1)) (mkCW e1 e1 (fbm w))) as [w' r].
      destruct (run_steps m l e1) as [[e2 outs] ok2]. destruct IH as (A & B & C). split; [exact A|split; [exact B|]].
      destruct r as [s|x]; [|exact C]. destruct C as (C1 & envs & C2 & C3). split; [exact C1|]. exists (e1 :: envs).
      cbn [map log_from]. subst. rewrite app_assoc. split; reflexivity.
    + cbn [cur fbm]. repeat split.
Qed.

(* RUN: the generated Model._run is run_op (reset = False) on the sequence; the rows are written in step order *)
Theorem gen_mrun_is_run_op (X FB : list (nat -> option vec)) from stateful shift rs (w : cworld) :
  let '(w', r) := g_run X FB from stateful shift rs w in
  let '(e', outs, ok) := run_op m stateful false from (combine X FB) (cur w) in
  cur w' = e' /\ fbm w' = fbm w /\
  match r with
  | CtxPrelude.Ok s => ok = true /\ exists envs, outs = map (out_states m) envs /\ length envs = length outs /\ s = log_from rs 0 envs
  | CtxPrelude.Exc _ => ok = false
  end.
Proof.
  unfold g_run, GenMRun.Model__run.
  match goal with |- context [py_foldM _ ?f _] => set (body := f) end.
  assert (Hf : forall acc i ext forced w0,
     body acc (i, (ext, forced)) w0
     = let '(e1, ok) := ModelSem.forward m (proxies m forced (prx w0)) (clamps m forced) ext (cur w0) in
       if ok then (mkCW e1 e1 (fbm w0), CtxPrelude.Ok (acc ++ entries i (sel rs e1)))
       else (mkCW e1 (prx w0) (fbm w0), CtxPrelude.Exc CtxPrelude.RuntimeError)).
  { intros acc i ext forced w0. unfold body, CtxPrelude.bind, sem_with_feedback, sem__call, sem_load_proxys, CtxPrelude.ret. cbn [cur prx fbm].
    destruct (ModelSem.forward m (proxies m forced (prx w0)) (clamps m forced) ext (cur w0)) as [e1 [|]]; cbn [cur prx fbm]; [|reflexivity].
    unfold entries. destruct (sel rs e1) as [d|a]; cbn [cur prx fbm]; [rewrite items_for_log|]; reflexivity. }
  pose proof (loop_spec rs body Hf (combine X FB) 0 []
                (mkCW (start_env m false from (cur w)) (start_env m false from (cur w)) (fbm w)) eq_refl) as L.
  clearbody body.
  unfold CtxPrelude.bind, CtxPrelude.try_finally, sem_with_state, sem_load_proxys, sem_clean_proxys, CtxPrelude.ret, py_enumerate, run_op.
  cbn [cur prx fbm] in *.
  destruct (py_foldM (combine (seq 0 (length (combine X FB))) (combine X FB)) body []
              (mkCW (start_env m false from (cur w)) (start_env m false from (cur w)) (fbm w))) as [w' r].
  destruct (run_steps m (combine X FB) (start_env m false from (cur w))) as [[e2 outs] ok].
  destruct L as (A & B & C).
  destruct r as [s|x]; destruct stateful; cbn [cur prx fbm]; subst e2; (split; [reflexivity|split; [exact B|]]); try exact C;
    destruct C as (C1 & envs & C2 & C3); (split; [exact C1|]); exists envs; subst; rewrite map_length; repeat split.
Qed.
End MRun.

(* The `_call` the loop above is instantiated with IS the generated `_call` of gen/Gen_mcall.v (run with the generated forward pass of
   gen/Gen_dispatch.v) whenever that one returns: inside the loop the proxies are the current states, and then a returning generated `_call`
   and [sem__call] on the selection it made leave the same environment and return the same states. *)
Section Bridge.
Context {F : Type} `{Num F}.
Notation vec := (list F).
Variable m : @model F.
Variable inputs trainables : list node.
Variable edges : list edge.
Variable sorted_by_name : list edge -> list edge.

Definition sel_tot (rs : retsel) (e : @env F) : selstate vec :=
  match sel_of m rs e with Val s => s | _ => SelMap [] end.

Theorem generated_call_is_sem_call (X : pyinput vec) rs (w : cworld) e' s :
  NoDup (map nid (order m)) -> NoDup inputs ->
  (forall n, In n (map nid (order m)) -> parents m n = dd_get (parents_dict edges sorted_by_name) n []) ->
  prx w = cur w ->
  g_call m inputs edges sorted_by_name trainables (fbm w) (cur w) X rs = Val (e', s) ->
  sem__call m (selstate vec) (sel_tot rs) (ext_of vec inputs (map nid (order m)) X) tt w = (mkCW e' (prx w) (fbm w), CtxPrelude.Ok s).
Proof.
  intros Hn Hi Hpar Hp Hg. rewrite gen_mcall_is_step in Hg by assumption.
  destruct (inputs_named vec inputs X); [|discriminate]. unfold sem__call. rewrite Hp. unfold step in Hg.
  destruct (ModelSem.forward m (proxies m (fbm w) (cur w)) (clamps m (fbm w)) (ext_of vec inputs (map nid (order m)) X) (cur w)) as [e1 [|]];
    [|discriminate].
  unfold sel_tot. destruct (sel_of m rs e1) as [s1| |]; cbn in Hg; try discriminate. injection Hg as <- <-. reflexivity.
Qed.
End Bridge.
