(* C04, part 2: proofs about model/Ridge.v.
   - for every Num instance: the first `warmup` rows of every sequence do not influence the accumulators / the fit;
   - at R: the accumulators are the Gram sums over the retained rows; parameters that satisfy the regularised normal
     equations are the unique minimiser of the regularised squared error; the system matrix has a trivial kernel, so the
     LAPACK oracle's premise is discharged and the fitted parameters satisfy the normal equations; prediction is affine. *)
From Coq Require Import Reals Lra Lia Arith List Bool.
From RV Require Import base.Num base.LA base.ListX base.BSum model.Ridge proofs.Ridge_la.
Import ListNotations.
Open Scope R_scope.

(* ------------------------------------------------------------------------------------------------ *)
Section Warmup.
Context {F : Type} `{Num F}.
Notation mat := (list (list F)).

(* two sequences that differ at most in their first w rows *)
Definition agree_after (w : nat) (A B : mat) : Prop := length A = length B /\ skipn w A = skipn w B.

Lemma partial_fit_warmup bias din dout w : forall (Xs Xs' : list mat), Forall2 (agree_after w) Xs Xs' ->
  forall (Ys Ys' : list mat), Forall2 (agree_after w) Ys Ys' -> forall acc,
  partial_fit bias din dout w acc Xs Ys = partial_fit bias din dout w acc Xs' Ys'.
Proof.
  induction 1 as [|X X' Xs Xs' [HL HS] HX IH]; intros Ys Ys' HY acc; [reflexivity|].
  destruct HY as [|Y Y' Ys Ys' [HL' HS'] HY]; [reflexivity|].
  cbn [partial_fit]. rewrite HL, HS, HS'. destruct (length X' <=? w)%nat; [reflexivity|]. apply IH. assumption.
Qed.

Lemma fit_warmup solve bias lam w din dout (Xs Xs' Ys Ys' : list mat) :
  Forall2 (agree_after w) Xs Xs' -> Forall2 (agree_after w) Ys Ys' ->
  fit solve bias lam w din dout Xs Ys = fit solve bias lam w din dout Xs' Ys'.
Proof. intros HX HY. unfold fit. rewrite (partial_fit_warmup bias din dout w Xs Xs' HX Ys Ys' HY). reflexivity. Qed.

(* Node.fit succeeds when every sequence is longer than the warm-up *)
Lemma partial_fit_defined bias din dout w : forall (Xs Ys : list mat) acc, Forall (fun X => w < length X)%nat Xs ->
  exists acc', partial_fit bias din dout w acc Xs Ys = Some acc'.
Proof.
  induction Xs as [|X Xs IH]; intros Ys acc HFa; [eexists; reflexivity|].
  destruct Ys as [|Y Ys]; [eexists; reflexivity|]. inversion HFa as [|? ? HX HFa']; subst.
  cbn [partial_fit]. apply Nat.leb_gt in HX. rewrite HX. apply IH. assumption.
Qed.
Lemma fit_defined solve bias lam w din dout (Xs Ys : list mat) : Forall (fun X => w < length X)%nat Xs ->
  exists r, fit solve bias lam w din dout Xs Ys = Some r.
Proof.
  intros HFa. unfold fit. destruct (partial_fit_defined bias din dout w Xs Ys (buffers0 bias din dout) HFa) as [acc' ->].
  eexists; reflexivity.
Qed.
End Warmup.

(* ------------------------------------------------------------------------------------------------ *)
(* the retained rows: regressors (with the leading 1 when input_bias) and targets, over all sequences *)
Definition RX (bias : bool) (w : nat) (Xs : list matR) : matR := concat (map (fun X => map (prep bias) (skipn w X)) Xs).
Definition RY (w : nat) (Ys : list matR) : matR := concat (map (skipn w (A:=vecR)) Ys).
(* a dataset: as many target sequences as input sequences, of the same lengths; input rows of width din *)
Definition wf_data (din : nat) (Xs Ys : list matR) : Prop :=
  Forall2 (fun X Y => length X = length Y /\ Forall (fun r => length r = din) X) Xs Ys.

Lemma length_prep bias (x : vecR) din : length x = din -> length (prep bias x) = aug_dim bias din.
Proof. intros E. destruct bias; simpl; auto. Qed.
Lemma Forall_skipn' {A} (P : A -> Prop) : forall w l, Forall P l -> Forall P (skipn w l).
Proof. induction w; intros [|a l] Hf; simpl; auto. inversion Hf; auto. Qed.

Lemma RX_rows bias w din Xs Ys : wf_data din Xs Ys -> Forall (fun r => length r = aug_dim bias din) (RX bias w Xs).
Proof.
  induction 1 as [|X Y Xs Ys [HL HF] _ IH]; [constructor|].
  unfold RX. cbn [map concat]. apply Forall_app. split; [|exact IH].
  apply Forall_map. apply Forall_skipn'. rewrite Forall_forall in *. intros r Hr. apply length_prep. auto.
Qed.
Lemma RXY_length bias w din Xs Ys : wf_data din Xs Ys -> length (RX bias w Xs) = length (RY w Ys).
Proof.
  induction 1 as [|X Y Xs Ys [HL HF] _ IH]; [reflexivity|].
  unfold RX, RY in *. cbn [map concat]. rewrite !app_length, map_length, !skipn_length, IH, HL. reflexivity.
Qed.

Lemma partial_backward_spec bias din dout (acc : matR * matR) (X Y : matR) :
  shape (aug_dim bias din) (aug_dim bias din) (fst acc) -> shape dout (aug_dim bias din) (snd acc) ->
  length X = length Y -> Forall (fun r => length r = din) X ->
  shape (aug_dim bias din) (aug_dim bias din) (fst (partial_backward bias din dout acc X Y)) /\
  shape dout (aug_dim bias din) (snd (partial_backward bias din dout acc X Y)) /\
  (forall i j, (i < aug_dim bias din)%nat -> (j < aug_dim bias din)%nat ->
     mget (fst (partial_backward bias din dout acc X Y)) i j
     = mget (fst acc) i j + lsum (map (prep bias) X) (fun x => nth i x 0 * nth j x 0)) /\
  (forall k j, (k < dout)%nat -> (j < aug_dim bias din)%nat ->
     mget (snd (partial_backward bias din dout acc X Y)) k j
     = mget (snd acc) k j + lsum (combine Y (map (prep bias) X)) (fun p => nth k (fst p) 0 * nth j (snd p) 0)).
Proof.
  intros S1 S2 HL HF. set (d := aug_dim bias din) in *. unfold partial_backward. fold d. cbn [fst snd].
  assert (HF' : Forall (fun r => length r = d) (map (prep bias) X)).
  { apply Forall_map. rewrite Forall_forall in *. intros r Hr. apply length_prep. auto. }
  assert (SX : shape d d (mm (transpose (map (prep bias) X) d) (map (prep bias) X) d)) by (apply shape_mm_transpose; auto).
  assert (SY : shape dout d (mm (transpose Y dout) (map (prep bias) X) d)) by (apply shape_mm_transpose; [rewrite map_length; auto| auto]).
  split; [apply shape_madd; assumption|]. split; [apply shape_madd; assumption|]. split.
  - intros i j Hi Hj. rewrite (mget_madd _ _ d d) by assumption. f_equal.
    rewrite mget_mm_transpose by auto. apply lsum_combine_diag.
  - intros k j Hk Hj. rewrite (mget_madd _ _ dout d) by assumption. f_equal.
    apply mget_mm_transpose; auto. rewrite map_length; auto.
Qed.

(* C04_accumulators_are_gram, general form (any initial buffers) *)
Lemma partial_fit_gram bias din dout w : forall Xs Ys, wf_data din Xs Ys -> forall acc acc',
  shape (aug_dim bias din) (aug_dim bias din) (fst acc) -> shape dout (aug_dim bias din) (snd acc) ->
  partial_fit bias din dout w acc Xs Ys = Some acc' ->
  shape (aug_dim bias din) (aug_dim bias din) (fst acc') /\ shape dout (aug_dim bias din) (snd acc') /\
  (forall i j, (i < aug_dim bias din)%nat -> (j < aug_dim bias din)%nat ->
     mget (fst acc') i j = mget (fst acc) i j + lsum (RX bias w Xs) (fun x => nth i x 0 * nth j x 0)) /\
  (forall k j, (k < dout)%nat -> (j < aug_dim bias din)%nat ->
     mget (snd acc') k j = mget (snd acc) k j
                           + lsum (combine (RY w Ys) (RX bias w Xs)) (fun p => nth k (fst p) 0 * nth j (snd p) 0)).
Proof.
  induction 1 as [|X Y Xs Ys [HL HF] HW IH]; intros acc acc' S1 S2 E.
  - cbn in E. injection E as <-. repeat split; try apply S1; try apply S2; intros; simpl; lra.
  - cbn [partial_fit] in E. destruct (length X <=? w)%nat; [discriminate|].
    destruct (partial_backward_spec bias din dout acc (skipn w X) (skipn w Y) S1 S2) as (T1 & T2 & G1 & G2).
    { rewrite !skipn_length, HL. reflexivity. } { apply Forall_skipn'. exact HF. }
    destruct (IH _ _ T1 T2 E) as (U1 & U2 & K1 & K2).
    split; [exact U1|]. split; [exact U2|]. split.
    + intros i j Hi Hj. rewrite K1, G1 by assumption. unfold RX. cbn [map concat]. rewrite lsum_app. fold (RX bias w Xs). lra.
    + intros k j Hk Hj. rewrite K2, G2 by assumption. unfold RX, RY. cbn [map concat].
      rewrite combine_app_eq by (rewrite map_length, !skipn_length, HL; reflexivity).
      rewrite lsum_app. fold (RX bias w Xs). fold (RY w Ys). lra.
Qed.

Lemma shape_buffers0 bias din dout :
  shape (aug_dim bias din) (aug_dim bias din) (fst (buffers0 (F:=R) bias din dout)) /\
  shape dout (aug_dim bias din) (snd (buffers0 (F:=R) bias din dout)).
Proof. unfold buffers0. cbn [fst snd]. split; apply shape_mzeros. Qed.

(* after Node.fit's partial_fit on fresh buffers *)
Lemma accumulators_are_gram bias din dout w Xs Ys acc :
  wf_data din Xs Ys -> partial_fit bias din dout w (buffers0 bias din dout) Xs Ys = Some acc ->
  shape (aug_dim bias din) (aug_dim bias din) (fst acc) /\ shape dout (aug_dim bias din) (snd acc) /\
  (forall i j, (i < aug_dim bias din)%nat -> (j < aug_dim bias din)%nat ->
     mget (fst acc) i j = lsum (RX bias w Xs) (fun x => nth i x 0 * nth j x 0)) /\
  (forall k j, (k < dout)%nat -> (j < aug_dim bias din)%nat ->
     mget (snd acc) k j = lsum (combine (RY w Ys) (RX bias w Xs)) (fun p => nth k (fst p) 0 * nth j (snd p) 0)).
Proof.
  intros HW E. destruct (shape_buffers0 bias din dout) as [S1 S2].
  destruct (partial_fit_gram bias din dout w Xs Ys HW _ _ S1 S2 E) as (U1 & U2 & K1 & K2).
  split; [exact U1|]. split; [exact U2|]. split.
  - intros i j Hi Hj. rewrite K1 by assumption. unfold buffers0. cbn [fst]. rewrite mget_mzeros by assumption. lra.
  - intros k j Hk Hj. rewrite K2 by assumption. unfold buffers0. cbn [snd]. rewrite mget_mzeros by assumption. lra.
Qed.
(* ------------------------------------------------------------------------------------------------ *)
(* objective and normal equations at list level *)
Definition colv (Wo : matR) (k : nat) : vecR := map (fun row => nth k row 0) Wo.
Lemma nth_colv (Wo : matR) k j : nth j (colv Wo k) 0 = mget Wo j k.
Proof.
  unfold colv, mget. numR. destruct (Nat.lt_ge_cases j (length Wo)) as [Hj|Hj].
  - exact (nth_map_R (fun row => nth k row 0) Wo j [] Hj).
  - rewrite (nth_overflow (map (fun row : vecR => nth k row 0) Wo) 0) by (rewrite map_length; exact Hj).
    rewrite (nth_overflow Wo []) by exact Hj. destruct k; reflexivity.
Qed.
(* regularised squared error of output coordinate k for the (augmented) weight vector w:
   sum over the retained rows (x~, y) of (x~ . w - y_k)^2   +   lam * w . w *)
Definition Jcol (lam : R) (RXl RYl : matR) (k : nat) (w : vecR) : R :=
  lsum (combine RXl RYl) (fun p => (dot (fst p) w - nth k (snd p) 0) * (dot (fst p) w - nth k (snd p) 0)) + lam * dot w w.
(* the linear system solved by backward:  (XXT + lam I) Wo = YXT^T *)
Definition normal_eqs (bias : bool) (lam : R) (din dout : nat) (acc : matR * matR) (Wo : matR) : Prop :=
  mm (ridge_system bias lam din (fst acc)) Wo dout = transpose (snd acc) (aug_dim bias din).

Lemma normal_from_system T n x y lam w i : (i < n)%nat ->
  bsum n (fun j => (bsum T (fun t => x t i * x t j) + lam * (if Nat.eqb j i then 1 else 0)) * w j) = bsum T (fun t => y t * x t i) ->
  bsum T (fun t => x t i * (ipred n x w t - y t)) + lam * w i = 0.
Proof.
  intros Hi E.
  assert (E1 : bsum n (fun j => (bsum T (fun t => x t i * x t j) + lam * (if Nat.eqb j i then 1 else 0)) * w j)
          = bsum n (fun j => bsum T (fun t => x t i * x t j) * w j) + lam * w i).
  { rewrite (bsum_ext n _ (fun j => bsum T (fun t => x t i * x t j) * w j + lam * (w j * (if Nat.eqb j i then 1 else 0)))) by (intros; ring).
    rewrite bsum_plus, bsum_scal, bsum_delta by assumption. reflexivity. }
  assert (E2 : bsum T (fun t => x t i * (ipred n x w t - y t))
          = bsum n (fun j => bsum T (fun t => x t i * x t j) * w j) - bsum T (fun t => y t * x t i)).
  { unfold ipred.
    rewrite (bsum_ext T _ (fun t => bsum n (fun j => x t i * x t j * w j) - y t * x t i)).
    2:{ intros t _. rewrite Rmult_minus_distr_l, <- bsum_scal. f_equal; [apply bsum_ext; intros; ring| ring]. }
    rewrite bsum_minus, bsum_swap. f_equal. apply bsum_ext; intros j _. rewrite bsum_scal_r. reflexivity. }
  lra.
Qed.

Section Fitted.
Variables (bias : bool) (lam : R) (din dout w : nat) (Xs Ys : list matR) (acc : matR * matR).
Hypothesis HW : wf_data din Xs Ys.
Hypothesis HE : partial_fit bias din dout w (buffers0 bias din dout) Xs Ys = Some acc.
Let d := aug_dim bias din.
Let RXl := RX bias w Xs.
Let RYl := RY w Ys.
Let T := length RXl.
Let xi (t i : nat) : R := nth i (nth t RXl []) 0.
Let yi (k t : nat) : R := nth k (nth t RYl []) 0.
Let A := ridge_system bias lam din (fst acc).

Lemma sys_shape : shape d d A.
Proof.
  destruct (accumulators_are_gram _ _ _ _ _ _ _ HW HE) as (S1 & _).
  unfold A, ridge_system. apply shape_madd; [exact S1|]. apply shape_mscale. apply shape_eye.
Qed.
Lemma sys_entry i j : (i < d)%nat -> (j < d)%nat ->
  mget A i j = bsum T (fun t => xi t i * xi t j) + lam * (if Nat.eqb j i then 1 else 0).
Proof.
  intros Hi Hj. destruct (accumulators_are_gram _ _ _ _ _ _ _ HW HE) as (S1 & _ & G1 & _).
  unfold A, ridge_system. rewrite (mget_madd _ _ d d); auto; [| apply shape_mscale; apply shape_eye].
  rewrite mget_mscale by (rewrite (proj1 (shape_eye _)); exact Hi). rewrite mget_eye by assumption.
  rewrite G1 by assumption. rewrite (lsum_bsum _ _ []). reflexivity.
Qed.
Lemma yx_entry k i : (k < dout)%nat -> (i < d)%nat -> mget (snd acc) k i = bsum T (fun t => yi k t * xi t i).
Proof.
  intros Hk Hi. destruct (accumulators_are_gram _ _ _ _ _ _ _ HW HE) as (_ & _ & _ & G2).
  rewrite G2 by assumption. rewrite (lsum_combine_bsum _ _ _ T [] []); [reflexivity| |reflexivity].
  symmetry. apply (RXY_length bias w din); exact HW.
Qed.
Lemma sys_row_dot i (u : vecR) : (i < d)%nat -> length u = d ->
  dot (nth i A []) u = bsum d (fun j => (bsum T (fun t => xi t i * xi t j) + lam * (if Nat.eqb j i then 1 else 0)) * nth j u 0).
Proof.
  intros Hi Hu. rewrite (dot_bsum _ _ d); [| apply (shape_row d d); [apply sys_shape| exact Hi] | exact Hu].
  apply bsum_ext; intros j Hj. rewrite <- sys_entry by assumption. reflexivity.
Qed.

(* normal equations, list level -> index level, for each output coordinate *)
Lemma normal_eqs_idx (Wo : matR) k : shape d dout Wo -> normal_eqs bias lam din dout acc Wo -> (k < dout)%nat ->
  inormal T d xi (yi k) lam (fun j => nth j (colv Wo k) 0).
Proof.
  intros SW HN Hk i Hi. apply normal_from_system; [exact Hi|].
  destruct (accumulators_are_gram _ _ _ _ _ _ _ HW HE) as (_ & S2 & _).
  assert (E : mget (mm A Wo dout) i k = mget (transpose (snd acc) d) i k) by (unfold A, d; rewrite HN; reflexivity).
  rewrite (mget_mm _ _ d dout) in E; auto;
    [| apply (shape_row d d); [apply sys_shape| exact Hi] | rewrite (proj1 sys_shape); exact Hi].
  rewrite mget_transpose in E by (auto; rewrite (proj1 S2); exact Hk).
  rewrite yx_entry in E by assumption. rewrite <- E.
  apply bsum_ext; intros j Hj. rewrite sys_entry, nth_colv by assumption. reflexivity.
Qed.

Lemma RX_row_len t : (t < T)%nat -> length (nth t RXl []) = d.
Proof.
  intros Ht. pose proof (RX_rows bias w din Xs Ys HW) as Hf. rewrite Forall_forall in Hf. apply Hf. apply nth_In. exact Ht.
Qed.

Lemma Jcol_iJ k (v : vecR) : length v = d ->
  Jcol lam RXl RYl k v = iJ T d xi (yi k) lam (fun j => nth j v 0).
Proof.
  intros Hv. unfold Jcol, iJ. f_equal.
  - rewrite (lsum_combine_bsum _ _ _ T [] []); [| reflexivity | symmetry; apply (RXY_length bias w din); exact HW].
    apply bsum_ext; intros t Ht. cbn [fst snd]. unfold ipred.
    rewrite (dot_bsum _ _ d) by (auto using RX_row_len). reflexivity.
  - f_equal. apply dot_bsum; auto.
Qed.

Hypothesis Hlam : 0 < lam.

(* parameters satisfying the normal equations minimise every column objective ... *)
Lemma normal_eqs_optimal (Wo : matR) k (w' : vecR) :
  shape d dout Wo -> normal_eqs bias lam din dout acc Wo -> (k < dout)%nat -> length w' = d ->
  Jcol lam RXl RYl k (colv Wo k) <= Jcol lam RXl RYl k w'.
Proof.
  intros SW HN Hk Hw'. rewrite !Jcol_iJ; auto; [| unfold colv; rewrite map_length; apply SW].
  apply ridge_optimal; [exact Hlam|]. apply normal_eqs_idx; assumption.
Qed.
(* ... and are the only minimiser *)
Lemma normal_eqs_unique (Wo : matR) k (w' : vecR) :
  shape d dout Wo -> normal_eqs bias lam din dout acc Wo -> (k < dout)%nat -> length w' = d ->
  Jcol lam RXl RYl k w' = Jcol lam RXl RYl k (colv Wo k) -> w' = colv Wo k.
Proof.
  intros SW HN Hk Hw' HJ. assert (Hc : length (colv Wo k) = d) by (unfold colv; rewrite map_length; apply SW).
  rewrite !Jcol_iJ in HJ by auto.
  apply (nth_ext _ _ 0 0); [congruence|]. intros i Hi.
  apply (ridge_unique T d xi (yi k) lam Hlam _ _ (normal_eqs_idx Wo k SW HN Hk) HJ). lia.
Qed.

(* the system matrix has a trivial kernel (it is positive definite) *)
Lemma sys_kernel_trivial (v : vecR) : length v = d -> mv A v = vzeros d -> v = vzeros d.
Proof.
  intros Hv Hz. apply (nth_ext _ _ 0 0); [rewrite length_vzeros; exact Hv|]. intros i Hi. rewrite nth_vzeros.
  assert (N1 : inormal T d xi (fun _ => 0) lam (fun j => nth j v 0)).
  { intros i' Hi'. apply normal_from_system; [exact Hi'|].
    rewrite <- sys_row_dot by assumption. rewrite <- nth_mv by (rewrite (proj1 sys_shape); exact Hi').
    rewrite Hz, nth_vzeros. rewrite (bsum_ext T _ (fun _ => 0)) by (intros; ring). rewrite bsum_0. reflexivity. }
  assert (N0 : inormal T d xi (fun _ => 0) lam (fun _ => 0)).
  { intros i' Hi'. unfold ipred. rewrite (bsum_ext T _ (fun _ => 0)); [rewrite bsum_0; ring|].
    intros t _. rewrite (bsum_ext d _ (fun _ => 0)) by (intros; ring). rewrite bsum_0. ring. }
  apply (inormal_unique T d xi (fun _ => 0) lam Hlam _ _ N0 N1). lia.
Qed.
End Fitted.

(* ------------------------------------------------------------------------------------------------ *)
(* prediction: readout_forward is the affine map x |-> Wout^T x + bias *)
Lemma forward_affine din dout (Wout : matR) (b x : vecR) k :
  shape din dout Wout -> length x = din -> length b = dout -> (k < dout)%nat ->
  nth k (forward dout Wout b x) 0 = bsum din (fun i => mget Wout i k * nth i x 0) + nth k b 0.
Proof.
  intros [SW1 SW2] Hx Hb Hk. unfold forward, vadd. destruct (transpose_spec dout Wout) as [L N].
  rewrite nth_vzip by (rewrite length_mv; lia). numR. f_equal.
  rewrite nth_mv by lia. rewrite N by exact Hk. fold (colv Wout k).
  rewrite (dot_bsum _ _ din); [| unfold colv; rewrite map_length; exact SW1 | exact Hx].
  apply bsum_ext; intros i _. rewrite nth_colv. reflexivity.
Qed.

(* Wout and bias put back together as the raw solution of the system (bias row first) *)
Definition assemble (bias : bool) (Wout : matR) (b : vecR) : matR := if bias then b :: Wout else Wout.

Lemma shape_assemble bias din dout (W : matR) (b : vecR) :
  shape din dout W -> length b = dout -> shape (aug_dim bias din) dout (assemble bias W b).
Proof.
  intros [S1 S2] Hb. destruct bias; simpl; [|split; assumption]. split; [simpl; lia| constructor; assumption].
Qed.

(* the augmented regressor/weight product is the model's prediction ... *)
Lemma aug_dot bias din dout (W : matR) (b x : vecR) k :
  shape din dout W -> length x = din -> length b = dout -> (bias = false -> b = vzeros dout) -> (k < dout)%nat ->
  dot (prep bias x) (colv (assemble bias W b) k) = nth k (forward dout W b x) 0.
Proof.
  intros SW Hx Hb Hz Hk. rewrite (forward_affine din) by assumption.
  assert (E : dot x (colv W k) = bsum din (fun i => mget W i k * nth i x 0)).
  { rewrite (dot_bsum _ _ din); [| exact Hx | unfold colv; rewrite map_length; apply SW].
    apply bsum_ext; intros i _. rewrite nth_colv. ring. }
  destruct bias; simpl; numR.
  - rewrite E. ring.
  - rewrite E, (Hz eq_refl), nth_vzeros. ring.
Qed.
(* ... and its squared norm is  |column k of Wout|^2 + bias_k^2 *)
Lemma aug_norm bias dout (W : matR) (b : vecR) k : (bias = false -> b = vzeros dout) ->
  dot (colv (assemble bias W b) k) (colv (assemble bias W b) k) = dot (colv W k) (colv W k) + nth k b 0 * nth k b 0.
Proof.
  intros Hz. destruct bias; simpl; numR; [ring|]. rewrite (Hz eq_refl), nth_vzeros. ring.
Qed.

(* The objective of the property, for output coordinate k, in terms of the model's own prediction function:
     sum over all retained steps (x, y) of ( (Wout^T x + bias)_k - y_k )^2  +  lam * ( |Wout[:,k]|^2 + bias_k^2 )      *)
Definition Xkept (w : nat) (Xs : list matR) : matR := concat (map (skipn w (A:=vecR)) Xs).
Definition Jpred (lam : R) (dout w : nat) (Xs Ys : list matR) (k : nat) (W : matR) (b : vecR) : R :=
  lsum (combine (Xkept w Xs) (RY w Ys))
       (fun p => (nth k (forward dout W b (fst p)) 0 - nth k (snd p) 0) * (nth k (forward dout W b (fst p)) 0 - nth k (snd p) 0))
  + lam * (dot (colv W k) (colv W k) + nth k b 0 * nth k b 0).
(* the whole objective: squared error summed over the output coordinates + lam * (|Wout|_F^2 + |bias|^2) *)
Definition Jtotal (lam : R) (dout w : nat) (Xs Ys : list matR) (W : matR) (b : vecR) : R :=
  lsum (combine (Xkept w Xs) (RY w Ys))
       (fun p => bsum dout (fun k => (nth k (forward dout W b (fst p)) 0 - nth k (snd p) 0) * (nth k (forward dout W b (fst p)) 0 - nth k (snd p) 0)))
  + lam * (bsum dout (fun k => dot (colv W k) (colv W k)) + bsum dout (fun k => nth k b 0 * nth k b 0)).

(* the objective separates over the output coordinates *)
Lemma Jtotal_separates lam dout w Xs Ys W b :
  Jtotal lam dout w Xs Ys W b = bsum dout (fun k => Jpred lam dout w Xs Ys k W b).
Proof.
  unfold Jtotal, Jpred. rewrite bsum_plus, bsum_scal, bsum_plus, lsum_bsum_swap. reflexivity.
Qed.

Lemma RX_Xkept bias w Xs : RX bias w Xs = map (prep bias) (Xkept w Xs).
Proof. unfold RX, Xkept. rewrite concat_map, map_map. reflexivity. Qed.
Lemma Xkept_rows w din Xs Ys : wf_data din Xs Ys -> Forall (fun r => length r = din) (Xkept w Xs).
Proof.
  induction 1 as [|X Y Xs Ys [HL HF] _ IH]; [constructor|].
  unfold Xkept. cbn [map concat]. apply Forall_app. split; [|exact IH]. apply Forall_skipn'. exact HF.
Qed.

Lemma Jpred_Jcol bias lam din dout w Xs Ys k (W : matR) (b : vecR) :
  wf_data din Xs Ys -> shape din dout W -> length b = dout -> (bias = false -> b = vzeros dout) -> (k < dout)%nat ->
  Jpred lam dout w Xs Ys k W b = Jcol lam (RX bias w Xs) (RY w Ys) k (colv (assemble bias W b) k).
Proof.
  intros HW SW Hb Hz Hk. unfold Jpred, Jcol. rewrite (aug_norm bias dout) by assumption. f_equal.
  rewrite RX_Xkept, lsum_combine_map_l. apply lsum_ext. intros [x y] Hin. cbn [fst snd].
  assert (Hx : length x = din).
  { pose proof (Xkept_rows w din Xs Ys HW) as Hf. rewrite Forall_forall in Hf. apply Hf. eapply in_combine_l; eauto. }
  rewrite (aug_dot bias din dout) by assumption. reflexivity.
Qed.

(* ------------------------------------------------------------------------------------------------ *)
(* the LAPACK oracle, at the dimensions in use: for an n x n system with a trivial kernel and an n x m right-hand side,
   solve returns an n x m solution *)
Definition solve_spec (solve : matR -> matR -> matR) (n m : nat) : Prop :=
  forall A B, shape n n A -> shape n m B ->
    (forall v, length v = n -> mv A v = vzeros n -> v = vzeros n) ->
    shape n m (solve A B) /\ mm A (solve A B) m = B.

Section Fit.
Variable solve : matR -> matR -> matR.
Variables (bias : bool) (lam : R) (din dout w : nat) (Xs Ys : list matR) (Wout : matR) (b : vecR).
Hypothesis solve_ok : solve_spec solve (aug_dim bias din) dout.
Hypothesis Hlam : 0 < lam.
Hypothesis HW : wf_data din Xs Ys.
Hypothesis HF : fit solve bias lam w din dout Xs Ys = Some (Wout, b).

(* what Node.fit leaves in Wout / bias *)
Lemma fit_spec :
  exists acc, partial_fit bias din dout w (buffers0 bias din dout) Xs Ys = Some acc /\
    shape din dout Wout /\ length b = dout /\ (bias = false -> b = vzeros dout) /\
    normal_eqs bias lam din dout acc (assemble bias Wout b).
Proof.
  unfold fit in HF. destruct (partial_fit bias din dout w (buffers0 bias din dout) Xs Ys) as [acc|] eqn:E; [|discriminate].
  exists acc. split; [reflexivity|]. injection HF as HS.
  destruct (accumulators_are_gram _ _ _ _ _ _ _ HW E) as (_ & S2 & _).
  destruct (solve_ok (ridge_system bias lam din (fst acc)) (transpose (snd acc) (aug_dim bias din)))
    as [SS SE].
  { exact (sys_shape bias lam din dout w Xs Ys acc HW E). }
  { apply shape_transpose. apply S2. }
  { intros v Hv. exact (sys_kernel_trivial bias lam din dout w Xs Ys acc HW E Hlam v Hv). }
  unfold backward_raw in HS.
  remember (solve (ridge_system bias lam din (fst acc)) (transpose (snd acc) (aug_dim bias din))) as Wo eqn:EWo. clear EWo.
  assert (HA : assemble bias Wout b = Wo /\ shape din dout Wout /\ length b = dout /\ (bias = false -> b = vzeros dout)).
  { unfold split_wo in HS. destruct SS as [L Fa]. destruct bias.
    - destruct Wo as [|r Wo']; [discriminate L|]. cbn [tl hd] in HS. injection HS as <- <-. inversion Fa; subst.
      cbn [aug_dim length] in L. repeat split; auto; try lia; discriminate.
    - injection HS as <- <-. repeat split; auto. apply length_vzeros. }
  destruct HA as (HA & ? & ? & ?). unfold normal_eqs. rewrite HA. split; [assumption|]. split; [assumption|]. split; [assumption|]. exact SE.
Qed.

Lemma fit_normal_equations :
  exists acc, partial_fit bias din dout w (buffers0 bias din dout) Xs Ys = Some acc /\
              normal_eqs bias lam din dout acc (assemble bias Wout b).
Proof. destruct fit_spec as (acc & E & _ & _ & _ & N). eauto. Qed.

Lemma fit_optimal k (W' : matR) (b' : vecR) :
  (k < dout)%nat -> shape din dout W' -> length b' = dout -> (bias = false -> b' = vzeros dout) ->
  Jpred lam dout w Xs Ys k Wout b <= Jpred lam dout w Xs Ys k W' b'.
Proof.
  intros Hk SW' Hb' Hz'. destruct fit_spec as (acc & E & SW & Hb & Hz & N).
  rewrite !(Jpred_Jcol bias lam din) by assumption.
  apply (normal_eqs_optimal bias lam din dout w Xs Ys acc HW E Hlam (assemble bias Wout b) k); auto.
  - apply shape_assemble; assumption.
  - unfold colv. rewrite map_length. apply (shape_assemble bias din dout W' b'); assumption.
Qed.

Lemma fit_unique k (W' : matR) (b' : vecR) :
  (k < dout)%nat -> shape din dout W' -> length b' = dout -> (bias = false -> b' = vzeros dout) ->
  Jpred lam dout w Xs Ys k W' b' = Jpred lam dout w Xs Ys k Wout b ->
  (forall i, (i < din)%nat -> mget W' i k = mget Wout i k) /\ nth k b' 0 = nth k b 0.
Proof.
  intros Hk SW' Hb' Hz' HJ. destruct fit_spec as (acc & E & SW & Hb & Hz & N).
  rewrite !(Jpred_Jcol bias lam din) in HJ by assumption.
  apply (normal_eqs_unique bias lam din dout w Xs Ys acc HW E Hlam (assemble bias Wout b) k) in HJ; auto.
  2:{ apply shape_assemble; assumption. }
  2:{ unfold colv. rewrite map_length. apply (shape_assemble bias din dout W' b'); assumption. }
  destruct bias; simpl in HJ.
  - injection HJ as Hb0 HC. split; [|exact Hb0]. intros i _. rewrite <- !nth_colv. fold (colv W' k) in HC. rewrite HC. reflexivity.
  - split; [| rewrite (Hz eq_refl), (Hz' eq_refl); reflexivity]. intros i _. rewrite <- !nth_colv. rewrite HJ. reflexivity.
Qed.

Lemma fit_optimal_total (W' : matR) (b' : vecR) :
  shape din dout W' -> length b' = dout -> (bias = false -> b' = vzeros dout) ->
  Jtotal lam dout w Xs Ys Wout b <= Jtotal lam dout w Xs Ys W' b'.
Proof. intros. rewrite !Jtotal_separates. apply bsum_le. intros k Hk. apply fit_optimal; assumption. Qed.
End Fit.

(* a 1 x 1 instance of the oracle (non-vacuity of solve_spec) *)
Lemma solve_spec_1x1 : solve_spec (fun A B => [[mget B 0 0 / mget A 0 0]]) 1 1.
Proof.
  intros A B [LA FA] [LB FB] K.
  destruct A as [|ra [|? ?]]; try discriminate. destruct B as [|rb [|? ?]]; try discriminate.
  inversion FA as [|? ? Ha _]; subst. inversion FB as [|? ? Hb _]; subst.
  destruct ra as [|a [|? ?]]; try discriminate. destruct rb as [|b0 [|? ?]]; try discriminate.
  assert (Hne : a <> 0).
  { intros ->. specialize (K [1] eq_refl). assert (E : mv [[0]] [1] = vzeros 1) by (cbn; numR; f_equal; ring).
    specialize (K E). cbn in K. numR. injection K as K. lra. }
  split; [split; [reflexivity| repeat constructor]|].
  cbn. numR. f_equal. f_equal. field. exact Hne.
Qed.
