(* C10: proofs about the online train loop, the learn_every gate, pre-update outputs, the LMS schedule cursor and the
   order / count of intrinsic-plasticity steps.  For every Num instance (no real numbers needed). *)
From Coq Require Import List Arith Bool Lia.
From RV Require Import base.Num base.LA base.ListX model.Online.
Import ListNotations.

Section LoopP.
Context {F : Type} `{Num F} {St : Type}.
Notation vec := (list F).
Variable fwd : St -> vec -> vec.
Variable upd : St -> vec -> vec -> vec -> St.

Lemma train_loop_app k single : forall l1 l2 i s,
  train_loop fwd upd k single i s (l1 ++ l2) =
    let '(s1, o1) := train_loop fwd upd k single i s l1 in
    let '(s2, o2) := train_loop fwd upd k single (i + length l1) s1 l2 in (s2, o1 ++ o2).
Proof.
  induction l1 as [|[x y] l1 IH]; intros l2 i s; cbn [app train_loop length].
  - rewrite Nat.add_0_r. destruct (train_loop fwd upd k single i s l2); reflexivity.
  - rewrite IH.
    destruct (train_loop fwd upd k single (S i) _ l1) as [s1 o1].
    replace (i + S (length l1)) with (S i + length l1) by lia.
    destruct (train_loop fwd upd k single (S i + length l1) s1 l2) as [s2 o2]. reflexivity.
Qed.

Lemma train_loop_length k single : forall l i s, length (snd (train_loop fwd upd k single i s l)) = length l.
Proof.
  induction l as [|[x y] l IH]; intros i s; cbn [train_loop]; [reflexivity|].
  specialize (IH (S i) (if gate k single i then upd s x y (fwd s x) else s)).
  destruct (train_loop fwd upd k single (S i) _ l) as [s2 o]. cbn in *. lia.
Qed.

(* samples selected from position i on *)
Definition sel_from (k i : nat) (xy : list (vec * vec)) : list (vec * vec) :=
  map snd (filter (fun p => fst p mod k =? 0) (combine (seq i (length xy)) xy)).

Lemma train_loop_gate k : forall xy i s,
  fst (train_loop fwd upd k false i s xy) = fold_left (learn1 fwd upd) (sel_from k i xy) s.
Proof.
  induction xy as [|[x y] xy IH]; intros i s; [reflexivity|].
  cbn [train_loop]. specialize (IH (S i)).
  unfold sel_from in *. cbn [length seq combine filter fst].
  unfold gate. rewrite orb_false_r.
  destruct (i mod k =? 0) eqn:E.
  - cbn [map fold_left snd]. unfold learn1 at 2. cbn [fst snd]. rewrite <- (IH (upd s x y (fwd s x))).
    destruct (train_loop fwd upd k false (S i) (upd s x y (fwd s x)) xy); reflexivity.
  - rewrite <- (IH s). destruct (train_loop fwd upd k false (S i) s xy); reflexivity.
Qed.

(* C10_gate: the state after one train call is the fold of the learning step over the samples at positions
   i with i mod learn_every = 0, in order; every other step leaves the learner unchanged.  (A one-step sequence has
   only position 0, which is always selected: the "or seq_len == 1" clause never adds a step.) *)
Theorem train_gate k s xy :
  fst (train fwd upd k s xy) = fold_left (learn1 fwd upd) (selected k xy) s.
Proof.
  unfold train. destruct xy as [|[x y] [|p2 xy]].
  - reflexivity.
  - cbn. unfold gate. rewrite orb_true_r. unfold selected. cbn.
    replace (0 mod k) with 0 by (destruct k; [reflexivity| symmetry; apply Nat.mod_0_l; lia]).
    reflexivity.
  - change (length ((x, y) :: p2 :: xy) =? 1) with false. apply train_loop_gate.
Qed.

Lemma in_combine_seq {A} (l : list A) : forall i0 i x d,
  In (i, x) (combine (seq i0 (length l)) l) <-> (i0 <= i < i0 + length l /\ nth (i - i0) l d = x).
Proof.
  induction l as [|a l IH]; intros i0 i x d; cbn [length seq combine In].
  - split; [tauto| lia].
  - rewrite (IH (S i0) i x d). split.
    + intros [E|[Hr Hn]].
      * injection E as -> ->. split; [lia|]. rewrite Nat.sub_diag. reflexivity.
      * split; [lia|]. replace (i - i0) with (S (i - S i0)) by lia. exact Hn.
    + intros [Hr Hn]. destruct (Nat.eq_dec i i0) as [->|Hne].
      * left. rewrite Nat.sub_diag in Hn. cbn in Hn. subst. reflexivity.
      * right. split; [lia|]. replace (i - i0) with (S (i - S i0)) in Hn by lia. exact Hn.
Qed.

(* the selected positions are exactly { i < len | i mod k = 0 } *)
Theorem selected_positions k (xy : list (vec * vec)) i p d :
  In (i, p) (filter (fun q => fst q mod k =? 0) (combine (seq 0 (length xy)) xy)) <->
  (i < length xy /\ i mod k = 0 /\ nth i xy d = p).
Proof.
  rewrite filter_In, (in_combine_seq xy 0 i p d). cbn [fst]. rewrite Nat.eqb_eq, Nat.sub_0_r. intuition lia.
Qed.

(* C10_output_pre_update: the i-th returned row is the forward pass of the learner as it is BEFORE step i's update,
   i.e. after the loop has processed exactly the first i steps *)
Theorem train_output_pre_update k single s xy i d dx : i < length xy ->
  nth i (snd (train_loop fwd upd k single 0 s xy)) d =
    fwd (fst (train_loop fwd upd k single 0 s (firstn i xy))) (fst (nth i xy dx)).
Proof.
  intros Hi.
  rewrite <- (firstn_skipn i xy) at 1.
  rewrite train_loop_app.
  pose proof (train_loop_length k single (firstn i xy) 0 s) as Hl.
  destruct (train_loop fwd upd k single 0 s (firstn i xy)) as [s1 o1]. cbn [fst snd] in *.
  rewrite firstn_length_le in Hl by lia.
  destruct (skipn i xy) as [|[x y] rest] eqn:E.
  { exfalso. assert (length (skipn i xy) = 0) by (rewrite E; reflexivity). rewrite skipn_length in *. lia. }
  assert (Hn : nth i xy dx = (x, y)).
  { rewrite <- (firstn_skipn i xy) at 1. rewrite app_nth2 by (rewrite firstn_length_le; lia).
    rewrite firstn_length_le by lia. rewrite Nat.sub_diag, E. reflexivity. }
  rewrite Hn. cbn [train_loop fst].
  destruct (train_loop fwd upd k single (S (0 + length (firstn i xy))) _ rest) as [s2 o2]. cbn [snd].
  rewrite app_nth2 by lia. rewrite Hl, Nat.sub_diag. reflexivity.
Qed.

(* successive train calls: the learner sees the selected samples of each call, calls in order *)
Theorem train_calls_gate k : forall calls s,
  fst (train_calls fwd upd k s calls) = fold_left (learn1 fwd upd) (concat (map (selected k) calls)) s.
Proof.
  induction calls as [|c cs IH]; intros s; [reflexivity|].
  cbn [train_calls map concat]. rewrite fold_left_app, <- train_gate.
  destruct (train fwd upd k s c) as [s1 o]. cbn [fst]. rewrite <- IH.
  destruct (train_calls fwd upd k s1 cs); reflexivity.
Qed.
End LoopP.

(* ------------------------------------------------------------------ LMS schedule cursor *)
Section LMSCursor.
Context {F : Type} `{Num F}.
Notation vec := (list F).

Lemma lms_update_cursor sc hb (s : rdo) (x y p : vec) : cursor (lms_update sc hb s x y p) = S (cursor s).
Proof. unfold lms_update, split_save. destruct hb; reflexivity. Qed.

Lemma lms_fold_cursor sc hb odim (l : list (vec * vec)) : forall s : rdo,
  cursor (fold_left (learn1 (readout_forward odim) (lms_update sc hb)) l s) = cursor s + length l.
Proof.
  induction l as [|p l IH]; intros s; cbn [fold_left length]; [lia|].
  rewrite IH. unfold learn1. rewrite lms_update_cursor. lia.
Qed.

(* the schedule is advanced exactly once per update: after a train call the cursor has moved by the number of
   selected steps, never by the number of steps *)
Theorem lms_train_cursor sc hb odim k (s : rdo) xy :
  cursor (fst (lms_train sc hb odim k s xy)) = cursor s + length (selected k xy).
Proof. unfold lms_train. rewrite train_gate. apply lms_fold_cursor. Qed.

(* the j-th update of a train call uses the schedule value number (cursor at the start of the call) + j *)
Theorem lms_rate_of_update sc hb odim (l : list (vec * vec)) (s : rdo) j :
  j < length l ->
  sched_at sc (cursor (fold_left (learn1 (readout_forward odim) (lms_update sc hb)) (firstn j l) s)) = sched_at sc (cursor s + j).
Proof. intros Hj. rewrite lms_fold_cursor, firstn_length_le by lia. reflexivity. Qed.

Lemma rls_update_cursor hb (s : rdo) (x y p : vec) : cursor (rls_update hb s x y p) = cursor s.
Proof. unfold rls_update, split_save. destruct hb; reflexivity. Qed.
End LMSCursor.

(* ------------------------------------------------------------------ intrinsic plasticity: order and count of steps *)
Section IPCount.
Context {F : Type} `{Num F}.
Notation vec := (list F).

Lemma fold_left_concat {A B} (g : A -> B -> A) : forall (ls : list (list B)) a,
  fold_left (fun a l => fold_left g l a) ls a = fold_left g (concat ls) a.
Proof. induction ls as [|l ls IH]; intros a; cbn; [reflexivity|]. rewrite fold_left_app. apply IH. Qed.

Lemma ip_epoch_flat f c st (seqs : list (list vec)) : ip_epoch f c st seqs = fold_left (ip_step f c) (concat seqs) st.
Proof. unfold ip_epoch, ip_seq. apply fold_left_concat. Qed.

(* C10_ip_count: a, b (and the reservoir state) after [backward] are the fold of ONE ip step per timestep, over the
   timesteps of each sequence, the sequences in order, the whole repeated [epochs] times *)
Theorem ip_backward_flat f c : forall epochs st (seqs : list (list vec)),
  ip_backward f c epochs st seqs = fold_left (ip_step f c) (concat (repeat (concat seqs) epochs)) st.
Proof.
  induction epochs as [|e IH]; intros st seqs; cbn [ip_backward repeat concat]; [reflexivity|].
  rewrite fold_left_app, IH, ip_epoch_flat. reflexivity.
Qed.

Lemma concat_repeat_length {A} (l : list A) n : length (concat (repeat l n)) = n * length l.
Proof. induction n; cbn; [reflexivity|]. rewrite app_length, IHn. reflexivity. Qed.

Theorem ip_step_count epochs (seqs : list (list vec)) :
  length (concat (repeat (concat seqs) epochs)) = epochs * list_sum (map (@length vec) seqs).
Proof.
  rewrite concat_repeat_length. f_equal.
  induction seqs as [|s ss IH]; cbn; [reflexivity|]. rewrite app_length, IH. reflexivity.
Qed.

Theorem ip_fit_flat f c epochs warmup st (seqs : list (list vec)) :
  ip_fit f c epochs warmup st seqs =
    fold_left (ip_step f c) (concat (repeat (concat (map (skipn warmup) seqs)) epochs))
      (fold_left (ip_call f c) (concat (map (firstn warmup) seqs)) st).
Proof.
  unfold ip_fit. rewrite ip_backward_flat. f_equal.
  rewrite <- fold_left_concat. clear.
  revert st. induction seqs as [|s ss IH]; intros st; cbn; [reflexivity|]. apply IH.
Qed.

(* a step that learns and a plain call drive the reservoir identically: same state, same output; only a, b differ *)
Lemma ip_step_state f c st u : iint (ip_step f c st u) = iint (ip_call f c st u) /\ iout (ip_step f c st u) = iout (ip_call f c st u).
Proof.
  unfold ip_step, ip_step_y, ip_call.
  destruct (ip_units _ _ _ _ _ _ _ _) as [a1 b1]. cbn. split; reflexivity.
Qed.

(* every unit is updated from its own (x, y, a, b) only *)
Lemma ip_units_nth tr mu sigma eta : forall (xs ys a b : vec) i,
  i < length xs -> length ys = length xs -> length a = length xs -> length b = length xs ->
  nth i (fst (ip_units tr mu sigma eta xs ys a b)) n0 = fst (ip_unit tr mu sigma eta (nth i xs n0) (nth i ys n0) (nth i a n0) (nth i b n0)) /\
  nth i (snd (ip_units tr mu sigma eta xs ys a b)) n0 = snd (ip_unit tr mu sigma eta (nth i xs n0) (nth i ys n0) (nth i a n0) (nth i b n0)).
Proof.
  induction xs as [|x xs IH]; intros [|y ys] [|a0 a] [|b0 b] i Hi Hy Ha Hb; cbn [length] in *; try lia.
  cbn [ip_units].
  destruct (ip_unit tr mu sigma eta x y a0 b0) as [a1 b1] eqn:E1.
  specialize (IH ys a b).
  destruct (ip_units tr mu sigma eta xs ys a b) as [ar br].
  destruct i as [|i]; cbn [nth fst snd].
  - rewrite E1. split; reflexivity.
  - apply IH; lia.
Qed.
End IPCount.
